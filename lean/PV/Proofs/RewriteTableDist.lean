import PV.Proofs.RewriteTableDistLoop
import PV.Proofs.RewriteFoldNF
set_option linter.unusedSimpArgs false
set_option linter.unusedVariables false
/-
  C11 (T-gen), part 7: `DistributeMapper` — `collect`, `map_sum`, `map_product`, `map_quotient`,
  `map_power` of the table, interpreted, are the cases of `distM`; the collector and the constant
  folder the instance holds are the table-driven classes of parts 3–5.
-/
namespace PV
open PV.Generated (c04Classes c04IdentityTable)
open PV.C11Expected

/-! ### `DistributeMapper`: the instance and its helpers -/

/-- the value of `self.collector` for a configuration of the model -/
def c11CollVal (cfg : DistCfg) : C11Val :=
  match cfg.collector with
  | some ps => .inst .termCollector ["parameters"] [.set (ps.map .expr)]
  | none => .lambdaId

/-- what `self.collector`, `self.const_folder` are and do, as hypotheses on the context -/
structure C11DistAttrs (ctx : C11Ctx) (cfg : DistCfg) (fuel : Nat) : Prop where
  coll : c11Get "collector" ctx.selfAttrs = c11CollVal cfg
  folder : c11Get "const_folder" ctx.selfAttrs = .inst .commFolder [] []
  applyFolder : ∀ e, ctx.applyInst .commFolder [] [] [.expr e] = c11LiftE (foldM true fuel e)
  applyColl : ∀ ps e, ctx.applyInst .termCollector ["parameters"] [.set (ps.map .expr)] [.expr e]
    = c11LiftE (collectM ps fuel e)

theorem c11_dist_collect (ctx : C11Ctx) (cfg : DistCfg) (fuel F : Nat) (ha : C11DistAttrs ctx cfg fuel)
    (e : Expr) :
    c11RunFn ctx F c11_DistributeMapper_collect [.expr e] = c11LiftE (distCollect cfg fuel e) := by
  obtain ⟨col⟩ := cfg
  cases hf : foldM true fuel e with
  | error er =>
    cases col <;>
    simp [c11RunFn, c11_DistributeMapper_collect, c11RunBody, c11Frame, c11ExecL, c11Exec, c11Eval,
      c11EvalL, c11Get, ha.coll, ha.folder, c11CollVal, c11Apply, ha.applyFolder, hf, c11LiftE,
      distCollect, bind, Except.bind, pure, Except.pure, c11OutToR, throw, throwThe,
      MonadExceptOf.throw]
  | ok f =>
    cases col with
    | none =>
      simp [c11RunFn, c11_DistributeMapper_collect, c11RunBody, c11Frame, c11ExecL, c11Exec, c11Eval,
        c11EvalL, c11Get, ha.coll, ha.folder, c11CollVal, c11Apply, ha.applyFolder, hf, c11LiftE,
        distCollect, bind, Except.bind, pure, Except.pure, c11OutToR]
    | some ps =>
      cases hc : collectM ps fuel f <;>
      simp [c11RunFn, c11_DistributeMapper_collect, c11RunBody, c11Frame, c11ExecL, c11Exec, c11Eval,
        c11EvalL, c11Get, ha.coll, ha.folder, c11CollVal, c11Apply, ha.applyFolder, hf, c11LiftE,
        distCollect, bind, Except.bind, pure, Except.pure, c11OutToR, ha.applyColl, hc, throw,
        throwThe, MonadExceptOf.throw]

/-- `IdentityMapper.map_x(self, e)` and `self.collect`, as hypotheses on the context -/
structure C11DistCtx (ctx : C11Ctx) (collect : Expr → RwR) : Prop where
  sup : ∀ row e, ctx.sup .identityMapper row e = c11IdentRow c04IdentityTable row ctx.recur e
  collect : ∀ e, ctx.callSelf "collect" [.expr e] = c11LiftE (collect e)

theorem c11_dist_map_sum (ctx : C11Ctx) (collect : Expr → RwR) (hc : C11DistCtx ctx collect)
    (F : Nat) (cs : List Expr) :
    c11ToRw (c11RunFn ctx F c11_DistributeMapper_map_sum [.expr (.nary .sum cs)]) =
      (do let cs' ← cs.mapM ctx.recur
          collect (.nary .sum cs')) := by
  have hrow := c11IdentRow_nary ctx.recur "map_sum" .sum cs c11_row_map_sum
  simp only [idMap] at hrow
  cases hm : cs.mapM ctx.recur with
  | error er =>
    simp [c11RunFn, c11_DistributeMapper_map_sum, c11RunBody, c11Frame, c11ExecL, c11Exec, c11Eval,
      c11EvalL, c11Get, hc.sup, hrow, hm, c11Lift, bind, Except.bind, pure, Except.pure, c11OutToR,
      c11ToRw, throw, throwThe, MonadExceptOf.throw]
  | ok cs' =>
    cases hcl : collect (.nary .sum cs') <;>
    simp [c11RunFn, c11_DistributeMapper_map_sum, c11RunBody, c11Frame, c11ExecL, c11Exec, c11Eval,
      c11EvalL, c11Get, hc.sup, hrow, hm, c11Lift, bind, Except.bind, pure, Except.pure, c11OutToR,
      c11ToRw, c11Set, c11Apply, c11IsInstance, isSum, c11Truthy, hc.collect, hcl, c11LiftE,
      Functor.map, Except.map, throw, throwThe, MonadExceptOf.throw]

theorem c11_dist_map_quotient (ctx : C11Ctx) (F : Nat) (num den : Expr) :
    c11ToRw (c11RunFn ctx F c11_DistributeMapper_map_quotient [.expr (.bin .quot num den)]) =
      (if !num.isValidOperand then throw .noClaim
       else if num.isOne then pure (.bin .quot num den)
       else do
        let den' ← ctx.recur den
        let num' ← ctx.recur num
        flatProd [.bin .quot one den', num']) := by
  cases hv : num.isValidOperand with
  | false =>
    simp [c11RunFn, c11_DistributeMapper_map_quotient, c11RunBody, c11Frame, c11ExecL, c11Exec,
      c11Eval, c11EvalL, c11Get, c11Attr, Expr.c04Field, Expr.c04Fields, c04Assoc, hv, bind,
      Except.bind, pure, Except.pure, c11OutToR, c11ToRw, throw, throwThe, MonadExceptOf.throw]
  | true =>
    cases ho : num.isOne with
    | true =>
      simp [c11RunFn, c11_DistributeMapper_map_quotient, c11RunBody, c11Frame, c11ExecL, c11Exec,
        c11Eval, c11EvalL, c11Get, c11Attr, Expr.c04Field, Expr.c04Fields, c04Assoc, hv, ho, bind,
        Except.bind, pure, Except.pure, c11OutToR, c11ToRw, throw, throwThe, MonadExceptOf.throw,
        c11Truthy]
    | false =>
      cases hd : ctx.recur den with
      | error er =>
        simp [c11RunFn, c11_DistributeMapper_map_quotient, c11RunBody, c11Frame, c11ExecL, c11Exec,
          c11Eval, c11EvalL, c11Get, c11Attr, Expr.c04Field, Expr.c04Fields, c04Assoc, hv, ho, bind,
          Except.bind, pure, Except.pure, c11OutToR, c11ToRw, throw, throwThe, MonadExceptOf.throw,
          c11Truthy, c11Apply, hd, c11Lift, Functor.map, Except.map]
      | ok den' =>
        cases hn : ctx.recur num with
        | error er =>
          simp [c11RunFn, c11_DistributeMapper_map_quotient, c11RunBody, c11Frame, c11ExecL, c11Exec,
            c11Eval, c11EvalL, c11Get, c11Attr, Expr.c04Field, Expr.c04Fields, c04Assoc, hv, ho, bind,
            Except.bind, pure, Except.pure, c11OutToR, c11ToRw, throw, throwThe, MonadExceptOf.throw,
            c11Truthy, c11Apply, hd, hn, c11Lift, Functor.map, Except.map, c11AsExpr,
            Expr.c04Construct, one]
        | ok num' =>
          cases hf : flatProd [.bin .quot (.const (.int 1)) den', num'] <;>
          simp [c11RunFn, c11_DistributeMapper_map_quotient, c11RunBody, c11Frame, c11ExecL, c11Exec,
            c11Eval, c11EvalL, c11Get, c11Attr, Expr.c04Field, Expr.c04Fields, c04Assoc, hv, ho, bind,
            Except.bind, pure, Except.pure, c11OutToR, c11ToRw, throw, throwThe, MonadExceptOf.throw,
            c11Truthy, c11Apply, hd, hn, c11Lift, Functor.map, Except.map, c11AsExpr,
            Expr.c04Construct, one, c11AsExprs, c11Items, hf]

/-- `self.map_product(e)`: `dist(IdentityMapper.map_product(self, e))` -/
theorem c11_dist_map_product (ctx : C11Ctx) (collect : Expr → RwR) (hc : C11DistCtx ctx collect)
    (F : Nat) (e : Expr) :
    c11RunFn ctx F c11_DistributeMapper_map_product [.expr e] =
      c11LiftE (do
        let r ← c11IdentRow c04IdentityTable "map_product" ctx.recur e
        distLoop collect F r) := by
  have hd := c11_dist_call ctx collect hc.collect F
  unfold c11DistDefs at hd
  cases hr : c11IdentRow c04IdentityTable "map_product" ctx.recur e with
  | error er =>
    simp [c11RunFn, c11_DistributeMapper_map_product, c11RunBody, c11Frame, c11ExecL, c11Exec, c11Eval,
      c11EvalL, c11Get, c11Set, hc.sup, hr, c11Lift, bind, Except.bind, pure, Except.pure, c11OutToR,
      c11LiftE, throw, throwThe, MonadExceptOf.throw]
  | ok r =>
    have hd' := hd r
    simp only [c11_DistributeMapper_map_product] at hd'
    simp [c11RunFn, c11_DistributeMapper_map_product, c11RunBody, c11Frame, c11ExecL, c11Exec, c11Eval,
      c11EvalL, c11Get, c11Set, hc.sup, hr, c11Lift, bind, Except.bind, pure, Except.pure, c11OutToR,
      c11LiftE, throw, throwThe, MonadExceptOf.throw, c11Apply, hd']
    cases distLoop collect F r <;> rfl

/-! ### `map_power` -/

theorem c11_replicate_flatten {α : Type} (x : α) : ∀ k : Nat,
    (List.replicate k [x]).flatten = List.replicate k x
  | 0 => rfl
  | k + 1 => by simp [List.replicate_succ, c11_replicate_flatten x k]

theorem c11_isProdE_eq {x : Expr} (h : isProdE x = true) : ∃ cs, x = .nary .prod cs := by
  cases x with
  | nary o cs => cases o <;> first | exact ⟨cs, rfl⟩ | simp [isProdE] at h
  | _ => simp [isProdE] at h

theorem c11_isSum_eq {x : Expr} (h : isSum x = true) : ∃ cs, x = .nary .sum cs := by
  cases x with
  | nary o cs => cases o <;> first | exact ⟨cs, rfl⟩ | simp [isSum] at h
  | _ => simp [isSum] at h

theorem c11AsExprs_replicate (k : Nat) (nb : Expr) :
    c11AsExprs (.list (List.replicate k (C11Val.expr nb))) = .ok (List.replicate k nb) := by
  have := c11AsExprs_exprs (List.replicate k nb)
  rwa [List.map_replicate] at this

/-- `flattened_product(n * (s,))` for a sum `s` is `0`, `1`, `s` or a product: never a slice -/
theorem c11_flatProd_replicate (k : Nat) (s fp : Expr) (hs : isSum s = true)
    (h : flatProd (List.replicate k s) = .ok fp) :
    (∃ o xs, fp = .nary o xs) ∨ (∃ c, fp = .const c) := by
  unfold flatProd at h
  split at h
  · cases h
  · simp only [pure, Except.pure, Except.ok.injEq] at h
    subst h
    unfold flattenedProduct
    cases hl : flattenedProductLoop (Expr.sizeL (List.replicate k s) + (List.replicate k s).length + 1)
        (List.replicate k s) [] with
    | none => exact Or.inr ⟨_, rfl⟩
    | some xs =>
      have hsub := flattenedProductLoop_sublist _ _ _ _ (by
        intro q hq
        rw [List.eq_of_mem_replicate hq]
        obtain ⟨cs, rfl⟩ := c11_isSum_eq hs
        rfl) hl
      simp only [List.nil_append] at hsub
      match xs, hsub with
      | [], _ => exact Or.inr ⟨_, rfl⟩
      | [x], hsub =>
        have hx : x = s := List.eq_of_mem_replicate (hsub.subset (List.mem_cons_self))
        subst hx
        obtain ⟨cs, rfl⟩ := c11_isSum_eq hs
        exact Or.inl ⟨_, _, rfl⟩
      | x :: y :: r, _ => exact Or.inl ⟨_, _, rfl⟩

/-- `IdentityMapper.map_product(self, c)` on a number: `c.children` does not exist -/
theorem c11IdentRow_product_const (rec : Expr → RwR) (c : Const) :
    c11IdentRow c04IdentityTable "map_product" rec (.const c) = .error .attrError := by
  rw [c11IdentRow, c11_row_map_product]
  simp [c11IdentStepB, c11MapRecs, c11MapRec, Expr.c04Field, Expr.c04Fields, c04Assoc, bind,
    Except.bind, throw, throwThe, MonadExceptOf.throw]

/-- the `map_power` case of `distM` with the recursive calls left open -/
def c11PowStep (rec : Expr → RwR) (mapProduct : Expr → RwR) (base ex : Expr) : RwR := do
  let newbase ← rec base
  if isProdE base && isProdE newbase then do
    let ps ← newbase.naryChildren.mapM fun c => pyPow c ex
    let fp ← flatProd ps
    rec fp
  else if positiveIntConst ex && isSum newbase then
    match ex with
    | .const c => do
        let fp ← flatProd (replicateExp newbase c)
        mapProduct fp
    | _ => throw .noClaim
  else do
    let ex' ← rec ex
    pure (.bin .pow newbase ex')

theorem c11_dist_map_power (ctx : C11Ctx) (collect : Expr → RwR) (hc : C11DistCtx ctx collect)
    (mapProduct : Expr → RwR)
    (hmp : ∀ e, ctx.callSelf "map_product" [.expr e] = c11LiftE (mapProduct e))
    (F : Nat) (base ex : Expr) :
    c11ToRw (c11RunFn ctx F c11_DistributeMapper_map_power [.expr (.bin .pow base ex)]) =
      c11PowStep ctx.recur mapProduct base ex := by
  unfold c11PowStep
  cases hnb : ctx.recur base with
  | error er => simp [c11RunFn, c11_DistributeMapper_map_power, c11RunBody, c11Frame, c11ExecL, c11Exec, c11Eval,
      c11EvalL, c11Get, c11Set, c11Attr, Expr.c04Field, Expr.c04Fields, c04Assoc, c11Lift, bind,
      Except.bind, pure, Except.pure, c11OutToR, c11ToRw, c11LiftE, throw, throwThe,
      MonadExceptOf.throw, c11Apply, c11IsInstance, c11Truthy, Functor.map, Except.map, hnb]
  | ok newbase =>
    have rest : ∀ hb hn : Bool, isProdE base = hb → isProdE newbase = hn → (hb && hn) = false →
        c11ToRw (c11RunFn ctx F c11_DistributeMapper_map_power [.expr (.bin .pow base ex)]) =
        (if positiveIntConst ex && isSum newbase then
          match ex with
          | .const c => do
              let fp ← flatProd (replicateExp newbase c)
              mapProduct fp
          | _ => throw .noClaim
        else do
          let ex' ← ctx.recur ex
          pure (.bin .pow newbase ex')) := by
      intro hb hn hb' hn' hand
      have hid := c11IdentRow_pow ctx.recur base ex
      simp only [idMap, hnb, bind, Except.bind] at hid
      cases ex with
      | const c =>
        cases c with
        | int n =>
          by_cases hn0 : n > 0
          · cases hsum : isSum newbase with
            | true =>
              cases hfp : flatProd (List.replicate n.toNat newbase) with
              | error er =>
                cases hb <;> cases hn <;> simp at hand <;>
                simp [c11RunFn, c11_DistributeMapper_map_power, c11RunBody, c11Frame, c11ExecL, c11Exec, c11Eval,
      c11EvalL, c11Get, c11Set, c11Attr, Expr.c04Field, Expr.c04Fields, c04Assoc, c11Lift, bind,
      Except.bind, pure, Except.pure, c11OutToR, c11ToRw, c11LiftE, throw, throwThe,
      MonadExceptOf.throw, c11Apply, c11IsInstance, c11Truthy, Functor.map, Except.map, hnb, hb', hn', positiveIntConst, hn0, hsum, c11Cmp, c11IntOfConst, hc.sup, c11Bin,
                  c11_replicate_flatten, c11AsExprs_replicate, replicateExp, hfp]
              | ok fp =>
                cases hm : mapProduct fp <;>
                cases hb <;> cases hn <;> simp at hand <;>
                simp [c11RunFn, c11_DistributeMapper_map_power, c11RunBody, c11Frame, c11ExecL, c11Exec, c11Eval,
      c11EvalL, c11Get, c11Set, c11Attr, Expr.c04Field, Expr.c04Fields, c04Assoc, c11Lift, bind,
      Except.bind, pure, Except.pure, c11OutToR, c11ToRw, c11LiftE, throw, throwThe,
      MonadExceptOf.throw, c11Apply, c11IsInstance, c11Truthy, Functor.map, Except.map, hnb, hb', hn', positiveIntConst, hn0, hsum, c11Cmp, c11IntOfConst, hc.sup, c11Bin,
                  c11_replicate_flatten, c11AsExprs_replicate, replicateExp, hfp, hmp, hm]
            | false =>
              cases hre : ctx.recur (.const (.int n)) <;> rw [hre] at hid <;>
              cases hb <;> cases hn <;> simp at hand <;>
              simp [c11RunFn, c11_DistributeMapper_map_power, c11RunBody, c11Frame, c11ExecL, c11Exec, c11Eval,
      c11EvalL, c11Get, c11Set, c11Attr, Expr.c04Field, Expr.c04Fields, c04Assoc, c11Lift, bind,
      Except.bind, pure, Except.pure, c11OutToR, c11ToRw, c11LiftE, throw, throwThe,
      MonadExceptOf.throw, c11Apply, c11IsInstance, c11Truthy, Functor.map, Except.map, hnb, hb', hn', positiveIntConst, hn0, hsum, c11Cmp, c11IntOfConst, hc.sup, hid, hre]
          · cases hre : ctx.recur (.const (.int n)) <;> rw [hre] at hid <;>
            cases hb <;> cases hn <;> simp at hand <;>
            simp [c11RunFn, c11_DistributeMapper_map_power, c11RunBody, c11Frame, c11ExecL, c11Exec, c11Eval,
      c11EvalL, c11Get, c11Set, c11Attr, Expr.c04Field, Expr.c04Fields, c04Assoc, c11Lift, bind,
      Except.bind, pure, Except.pure, c11OutToR, c11ToRw, c11LiftE, throw, throwThe,
      MonadExceptOf.throw, c11Apply, c11IsInstance, c11Truthy, Functor.map, Except.map, hnb, hb', hn', positiveIntConst, hn0, c11Cmp, c11IntOfConst, hc.sup, hid, hre]
        | bool bb =>
          cases bb with
          | false =>
            cases hre : ctx.recur (.const (.bool false)) <;> rw [hre] at hid <;>
            cases hb <;> cases hn <;> simp at hand <;>
            simp [c11RunFn, c11_DistributeMapper_map_power, c11RunBody, c11Frame, c11ExecL, c11Exec, c11Eval,
      c11EvalL, c11Get, c11Set, c11Attr, Expr.c04Field, Expr.c04Fields, c04Assoc, c11Lift, bind,
      Except.bind, pure, Except.pure, c11OutToR, c11ToRw, c11LiftE, throw, throwThe,
      MonadExceptOf.throw, c11Apply, c11IsInstance, c11Truthy, Functor.map, Except.map, hnb, hb', hn', positiveIntConst, c11Cmp, c11IntOfConst, hc.sup, hid, hre]
          | true =>
            cases hsum : isSum newbase with
            | false =>
              cases hre : ctx.recur (.const (.bool true)) <;> rw [hre] at hid <;>
              cases hb <;> cases hn <;> simp at hand <;>
              simp [c11RunFn, c11_DistributeMapper_map_power, c11RunBody, c11Frame, c11ExecL, c11Exec, c11Eval,
      c11EvalL, c11Get, c11Set, c11Attr, Expr.c04Field, Expr.c04Fields, c04Assoc, c11Lift, bind,
      Except.bind, pure, Except.pure, c11OutToR, c11ToRw, c11LiftE, throw, throwThe,
      MonadExceptOf.throw, c11Apply, c11IsInstance, c11Truthy, Functor.map, Except.map, hnb, hb', hn', positiveIntConst, hsum, c11Cmp, c11IntOfConst, hc.sup, hid, hre]
            | true =>
              cases hfp : flatProd [newbase] with
              | error er =>
                cases hb <;> cases hn <;> simp at hand <;>
                simp [c11RunFn, c11_DistributeMapper_map_power, c11RunBody, c11Frame, c11ExecL, c11Exec, c11Eval,
      c11EvalL, c11Get, c11Set, c11Attr, Expr.c04Field, Expr.c04Fields, c04Assoc, c11Lift, bind,
      Except.bind, pure, Except.pure, c11OutToR, c11ToRw, c11LiftE, throw, throwThe,
      MonadExceptOf.throw, c11Apply, c11IsInstance, c11Truthy, Functor.map, Except.map, hnb, hb', hn', positiveIntConst, hsum, c11Cmp, c11IntOfConst, hc.sup, c11Bin,
                  c11AsExprs, c11Items, c11AsExpr, replicateExp, hfp]
              | ok fp =>
                cases hm : mapProduct fp <;>
                cases hb <;> cases hn <;> simp at hand <;>
                simp [c11RunFn, c11_DistributeMapper_map_power, c11RunBody, c11Frame, c11ExecL, c11Exec, c11Eval,
      c11EvalL, c11Get, c11Set, c11Attr, Expr.c04Field, Expr.c04Fields, c04Assoc, c11Lift, bind,
      Except.bind, pure, Except.pure, c11OutToR, c11ToRw, c11LiftE, throw, throwThe,
      MonadExceptOf.throw, c11Apply, c11IsInstance, c11Truthy, Functor.map, Except.map, hnb, hb', hn', positiveIntConst, hsum, c11Cmp, c11IntOfConst, hc.sup, c11Bin,
                  c11AsExprs, c11Items, c11AsExpr, replicateExp, hfp, hmp, hm]
        | _ =>
          cases hre : ctx.recur (.const _) <;> rw [hre] at hid <;>
          cases hb <;> cases hn <;> simp at hand <;>
          simp [c11RunFn, c11_DistributeMapper_map_power, c11RunBody, c11Frame, c11ExecL, c11Exec, c11Eval,
      c11EvalL, c11Get, c11Set, c11Attr, Expr.c04Field, Expr.c04Fields, c04Assoc, c11Lift, bind,
      Except.bind, pure, Except.pure, c11OutToR, c11ToRw, c11LiftE, throw, throwThe,
      MonadExceptOf.throw, c11Apply, c11IsInstance, c11Truthy, Functor.map, Except.map, hnb, hb', hn', positiveIntConst, c11Cmp, c11IntOfConst, hc.sup, hid, hre]
      | _ =>
        cases hre : ctx.recur _ <;> rw [hre] at hid <;>
        cases hb <;> cases hn <;> simp at hand <;>
        simp [c11RunFn, c11_DistributeMapper_map_power, c11RunBody, c11Frame, c11ExecL, c11Exec, c11Eval,
      c11EvalL, c11Get, c11Set, c11Attr, Expr.c04Field, Expr.c04Fields, c04Assoc, c11Lift, bind,
      Except.bind, pure, Except.pure, c11OutToR, c11ToRw, c11LiftE, throw, throwThe,
      MonadExceptOf.throw, c11Apply, c11IsInstance, c11Truthy, Functor.map, Except.map, hnb, hb', hn', positiveIntConst, c11Cmp, c11IntOfConst, hc.sup, hid, hre]
    cases hb : isProdE base with
    | true =>
      cases hn : isProdE newbase with
      | true =>
        obtain ⟨ncs, rfl⟩ := c11_isProdE_eq hn
        simp [c11RunFn, c11_DistributeMapper_map_power, c11RunBody, c11Frame, c11ExecL, c11Exec, c11Eval,
      c11EvalL, c11Get, c11Set, c11Attr, Expr.c04Field, Expr.c04Fields, c04Assoc, c11Lift, bind,
      Except.bind, pure, Except.pure, c11OutToR, c11ToRw, c11LiftE, throw, throwThe,
      MonadExceptOf.throw, c11Apply, c11IsInstance, c11Truthy, Functor.map, Except.map, hnb, hb, hn, c11Items, Expr.naryChildren]
        rw [c11MapM_exprs _ (fun c => pyPow c ex)]
        · cases hps : ncs.mapM (fun c => pyPow c ex) with
          | error er => simp
          | ok ps =>
            cases hfp : flatProd ps with
            | error er => simp [c11AsExprs_exprs, hfp]
            | ok fp => cases hr : ctx.recur fp <;> simp [c11AsExprs_exprs, hfp, hr]
        · intro c
          cases hp : pyPow c ex <;>
          simp [c11Bind, c11Push, c11Get, c11Bin, hp, c11Lift, c11LiftE, c04Assoc, Functor.map,
            Except.map]
      | false =>
        rw [rest true false hb hn rfl]
        simp [bind, Except.bind, hb, hn]
    | false =>
      rw [rest false (isProdE newbase) hb rfl rfl]
      simp [bind, Except.bind, hb]

/-! ### the whole class -/

/-- `self.map_product(fp)` as the table has it -/
def c11MapProduct (rec collect : Expr → RwR) (F : Nat) (fp : Expr) : RwR := do
  let r ← c11IdentRow c04IdentityTable "map_product" rec fp
  distLoop collect F r

/-- one level of `distM` with the recursive calls left open -/
def c11DistMStep (cfg : DistCfg) (rec : Expr → RwR) (fuel : Nat) : Expr → RwR
  | .nary .sum cs => do
      let cs' ← cs.mapM rec
      distCollect cfg fuel (.nary .sum cs')
  | .nary .prod cs => do
      let cs' ← cs.mapM rec
      distLoop (distCollect cfg fuel) fuel (.nary .prod cs')
  | .bin .quot num den =>
      if !num.isValidOperand then throw .noClaim
      else if num.isOne then pure (.bin .quot num den)
      else do
        let den' ← rec den
        let num' ← rec num
        flatProd [.bin .quot one den', num']
  | .bin .pow base ex => c11PowStep rec (c11MapProduct rec (distCollect cfg fuel) fuel) base ex
  | e => idMap rec e

theorem c11_mapProduct_shape (rec collect : Expr → RwR) (F : Nat) (fp : Expr)
    (h : (∃ o xs, fp = .nary o xs) ∨ (∃ c, fp = .const c)) :
    c11MapProduct rec collect F fp =
      (match fp with
       | .nary o xs => do
          let xs' ← xs.mapM rec
          distLoop collect F (.nary o xs')
       | _ => throw .attrError) := by
  rcases h with ⟨o, xs, rfl⟩ | ⟨c, rfl⟩
  · simp only [c11MapProduct, c11IdentRow_nary rec "map_product" o xs c11_row_map_product, idMap,
      bind, Except.bind]
    cases xs.mapM rec <;> rfl
  · simp only [c11MapProduct, c11IdentRow_product_const, bind, Except.bind]
    rfl

theorem distM_succ (cfg : DistCfg) (fuel : Nat) (e : Expr) :
    distM cfg (fuel + 1) e = c11DistMStep cfg (distM cfg fuel) fuel e := by
  cases e with
  | nary o cs => cases o <;> rfl
  | bin o base ex =>
    cases o <;> try rfl
    -- the power case: `match` against `if`, and `self.map_product` on what `flattened_product` gave
    simp only [distM, c11DistMStep, c11PowStep, bind, Except.bind]
    cases hnb : distM cfg fuel base with
    | error er => rfl
    | ok newbase =>
      -- what is left once the product-base branch is excluded
      have solveR : ∀ (L R : RwR),
          L = (if (positiveIntConst ex && isSum newbase) = true then
            match ex with
            | .const c =>
              (flatProd (replicateExp newbase c)).bind fun v =>
                match v with
                | .nary o xs =>
                  (List.mapM (distM cfg fuel) xs).bind fun v =>
                    distLoop (distCollect cfg fuel) fuel (.nary o v)
                | _ => throw RwErr.attrError
            | _ => throw RwErr.noClaim
          else (distM cfg fuel ex).bind fun v_1 => pure (Expr.bin BinOp.pow newbase v_1)) →
          R = (if (positiveIntConst ex && isSum newbase) = true then
            match ex with
            | .const c =>
              (flatProd (replicateExp newbase c)).bind fun v =>
                c11MapProduct (distM cfg fuel) (distCollect cfg fuel) fuel v
            | _ => throw RwErr.noClaim
          else (distM cfg fuel ex).bind fun v_1 => pure (Expr.bin BinOp.pow newbase v_1)) →
          L = R := by
        intro L R hL hRr
        rw [hL, hRr]
        cases hcond : (positiveIntConst ex && isSum newbase) with
        | false => rfl
        | true =>
          simp only [Bool.and_eq_true] at hcond
          simp only [if_true]
          cases ex with
          | const c =>
            have hrep : ∃ k, replicateExp newbase c = List.replicate k newbase := by
              cases c with
              | int n => exact ⟨n.toNat, rfl⟩
              | bool b => cases b <;> [exact ⟨0, rfl⟩; exact ⟨1, rfl⟩]
              | _ => exact ⟨0, rfl⟩
            obtain ⟨k, hk⟩ := hrep
            simp only [hk]
            cases hfp : flatProd (List.replicate k newbase) with
            | error er => rfl
            | ok fp =>
              rcases c11_flatProd_replicate k newbase fp hcond.2 hfp with ⟨o, xs, rfl⟩ | ⟨c', rfl⟩
              · simp only [Except.bind, c11MapProduct,
                  c11IdentRow_nary _ "map_product" o xs c11_row_map_product, idMap, bind]
                cases xs.mapM (distM cfg fuel) <;> rfl
              · simp only [Except.bind, c11MapProduct, c11IdentRow_product_const, bind]
                rfl
          | _ => rfl
      cases hb : isProdE base with
      | false =>
        apply solveR
        · simp only [Bool.false_eq_true]; rfl
        · simp only [Bool.false_and, Bool.false_eq_true, if_false]; rfl
      | true =>
        cases newbase with
        | nary o ncs =>
          cases o with
          | prod => simp [isProdE, Expr.naryChildren]
          | _ =>
            apply solveR
            · rfl
            · simp only [isProdE, Bool.and_false, Bool.false_eq_true, if_false]; rfl
        | _ =>
          apply solveR
          · rfl
          · simp only [isProdE, Bool.and_false, Bool.false_eq_true, if_false]; rfl
  | _ => rfl

/-- the table-driven `DistributeMapper` of a configuration -/
def c11DistSelfAttrs (cfg : DistCfg) : List (String × C11Val) :=
  [("collector", c11CollVal cfg), ("const_folder", .inst .commFolder [] [])]

def c11DistT (cfg : DistCfg) : Nat → Expr → RwR :=
  c11Mapper c04Classes c04IdentityTable c11Class_distributor (c11DistSelfAttrs cfg)
    (c11LeafInst c04Classes c04IdentityTable c11Table)

theorem c11LeafInst_folder (fuel : Nat) (e : Expr) :
    c11LeafInst c04Classes c04IdentityTable c11Table fuel .commFolder [] [] [.expr e] =
      c11LiftE (foldM true fuel e) := by
  rw [← c11FoldT_eq true fuel e]
  simp only [c11LeafInst, c11FoldT, c11Table, List.zip_nil_left, if_true, bind, Except.bind, pure,
    Except.pure]
  cases c11Mapper c04Classes c04IdentityTable c11Class_commFolder [] c11NoInst fuel e <;> rfl

theorem c11LeafInst_collector (fuel : Nat) (ps : List Expr) (e : Expr) :
    c11LeafInst c04Classes c04IdentityTable c11Table fuel .termCollector ["parameters"]
      [.set (ps.map .expr)] [.expr e] = c11LiftE (collectM ps fuel e) := by
  rw [← c11CollectT_eq ps fuel e]
  simp only [c11LeafInst, c11CollectT, c11Table, List.zip_cons_cons, List.zip_nil_right, bind,
    Except.bind, pure, Except.pure]
  cases c11Mapper c04Classes c04IdentityTable c11Class_collector
    [("parameters", C11Val.set (ps.map .expr))] c11NoInst fuel e <;> rfl

structure C11IsDist (S : C11Self) (cfg : DistCfg) (fuel : Nat) : Prop where
  classes : S.classes = c04Classes
  ident : S.ident = c04IdentityTable
  cls : S.cls = c11Class_distributor
  attrs : S.selfAttrs = c11DistSelfAttrs cfg
  inst : S.applyInst = c11LeafInst c04Classes c04IdentityTable c11Table fuel

theorem c11_distributor_attrs (S : C11Self) (cfg : DistCfg) (fuel : Nat) (h : C11IsDist S cfg fuel)
    (d : Nat) : C11DistAttrs (c11CtxOf S fuel d) cfg fuel where
  coll := by show c11Get "collector" S.selfAttrs = _; rw [h.attrs]; rfl
  folder := by show c11Get "const_folder" S.selfAttrs = _; rw [h.attrs]; rfl
  applyFolder e := by show S.applyInst _ _ _ _ = _; rw [h.inst]; exact c11LeafInst_folder fuel e
  applyColl ps e := by
    show S.applyInst _ _ _ _ = _; rw [h.inst]; exact c11LeafInst_collector fuel ps e

theorem c11_distributor_ctx (S : C11Self) (cfg : DistCfg) (fuel : Nat) (h : C11IsDist S cfg fuel)
    (d : Nat) : C11DistCtx (c11CtxOf S fuel (d + 1)) (distCollect cfg fuel) where
  sup row e := by show c11IdentRow S.ident row S.recur e = _; rw [h.ident]; rfl
  collect e := by
    show c11CallSelf S fuel (d + 1) "collect" _ = _
    rw [c11CallSelf_own S fuel d _ _ "collect" "DistributeMapper" c11_DistributeMapper_collect
      (by rw [h.cls]; rfl)]
    exact c11_dist_collect _ cfg fuel fuel (c11_distributor_attrs S cfg fuel h d) e

theorem c11_distributor_step (cfg : DistCfg) (S : C11Self) (fuel : Nat) (h : C11IsDist S cfg fuel)
    (e : Expr) : c11Handle S fuel e = c11DistMStep cfg S.recur fuel e := by
  have hc := h.classes
  have hi := h.ident
  have hcls := h.cls
  have inh : ∀ n, c11HandlerOf e = .ok n → c11FindMethod n S.cls.methods = none →
      c11Handle S fuel e = idMap S.recur e := fun n hn hm =>
    c11Handle_inherited S hc hi fuel e n hn hm
  have hctx := c11_distributor_ctx S cfg fuel h 2
  cases e with
  | nary o cs =>
    cases o with
    | sum =>
      rw [c11Handle_eq S hc hi]
      simp only [c11HandlerOf, c11Depth]
      rw [c11CallSelf_own S fuel 3 _ _ "map_sum" "DistributeMapper" c11_DistributeMapper_map_sum
        (by rw [hcls]; rfl), c11_dist_map_sum _ _ hctx]
      rfl
    | prod =>
      rw [c11Handle_eq S hc hi]
      simp only [c11HandlerOf, c11Depth]
      rw [c11CallSelf_own S fuel 3 _ _ "map_product" "DistributeMapper"
        c11_DistributeMapper_map_product (by rw [hcls]; rfl), c11_dist_map_product _ _ hctx,
        c11ToRw_liftE]
      show (do let r ← c11IdentRow c04IdentityTable "map_product" S.recur (.nary .prod cs)
               distLoop (distCollect cfg fuel) fuel r) = _
      rw [c11IdentRow_nary S.recur "map_product" .prod cs c11_row_map_product]
      simp only [idMap, c11DistMStep, bind, Except.bind]
      cases cs.mapM S.recur <;> rfl
    | _ => exact inh _ rfl (by rw [hcls]; rfl)
  | bin o a b =>
    cases o with
    | quot =>
      rw [c11Handle_eq S hc hi]
      simp only [c11HandlerOf, c11Depth]
      rw [c11CallSelf_own S fuel 3 _ _ "map_quotient" "DistributeMapper"
        c11_DistributeMapper_map_quotient (by rw [hcls]; rfl), c11_dist_map_quotient]
      rfl
    | pow =>
      rw [c11Handle_eq S hc hi]
      simp only [c11HandlerOf, c11Depth]
      rw [c11CallSelf_own S fuel 3 _ _ "map_power" "DistributeMapper"
        c11_DistributeMapper_map_power (by rw [hcls]; rfl),
        c11_dist_map_power _ _ hctx (c11MapProduct S.recur (distCollect cfg fuel) fuel)]
      · rfl
      · intro e
        show c11CallSelf S fuel 3 "map_product" _ = _
        rw [c11CallSelf_own S fuel 2 _ _ "map_product" "DistributeMapper"
          c11_DistributeMapper_map_product (by rw [hcls]; rfl),
          c11_dist_map_product _ _ (c11_distributor_ctx S cfg fuel h 1)]
        rfl
    | _ => exact inh _ rfl (by rw [hcls]; rfl)
  | const k =>
    cases k with
    | str s => exact c11Handle_foreign S hc hi fuel _ .foreign rfl
    | none => exact c11Handle_foreign S hc hi fuel _ .foreign rfl
    | _ => exact inh _ rfl (by rw [hcls]; rfl)
  | un o a => cases o <;> exact inh _ rfl (by rw [hcls]; rfl)
  | _ => exact inh _ rfl (by rw [hcls]; rfl)

theorem c11DistT_eq (cfg : DistCfg) :
    ∀ (fuel : Nat) (e : Expr), c11DistT cfg fuel e = distM cfg fuel e
  | 0, _ => rfl
  | fuel + 1, e => by
    have ih : c11DistT cfg fuel = distM cfg fuel := funext (c11DistT_eq cfg fuel)
    unfold c11DistT at ih ⊢
    rw [c11Mapper, distM_succ, ← ih]
    exact c11_distributor_step cfg _ fuel ⟨rfl, rfl, rfl, rfl, rfl⟩ e
end PV
