import PV.Model.PyEq
/-
  Python `==` on expression trees (`Expr.pyEq`) is an equivalence relation on well-formed
  expressions, `Expr.keyEq` likewise, and a structural hash in the style of the generated
  `__hash__` respects it.
-/
namespace PV

/-! ### Constants -/

/-- The only constant with `c.pyEq c = false` is a float nan: `.flt "nan" _ 0`.  Exactly that
constant is excluded (inf / -inf, i.e. other reprs with den = 0, stay well-formed). -/
def Const.wf : Const → Bool
  | .flt r _ d => d != 0 || r != "nan"
  | _ => true

theorem Const.numVal?_den {a : Const} {n : Int} {d : Nat} (h : a.numVal? = some (n, d)) :
    d ≠ 0 := by
  cases a <;> simp [Const.numVal?] at h <;> grind

theorem Const.pyEq_refl (c : Const) (h : c.wf = true) : c.pyEq c = true := by
  cases c with
  | flt r n d =>
    by_cases hd : d = 0
    · subst hd; simp [Const.wf] at h; simp [Const.pyEq, Const.numVal?, h]
    · simp [Const.pyEq, Const.numVal?, hd]
  | _ => simp [Const.pyEq, Const.numVal?]

/-- nan is the (only) reason for the side condition -/
example : (Const.flt "nan" 0 0).pyEq (Const.flt "nan" 0 0) = false := by decide

/-- conversely: reflexivity characterises `Const.wf` -/
theorem Const.pyEq_self_iff (c : Const) : c.pyEq c = true ↔ c.wf = true := by
  constructor
  · intro h
    cases c with
    | flt r n d =>
      by_cases hd : d = 0
      · subst hd; simp [Const.pyEq, Const.numVal?] at h; simp [Const.wf, h]
      · simp [Const.wf, hd]
    | _ => rfl
  · exact Const.pyEq_refl c

theorem Const.pyEq_symm (a b : Const) (h : a.pyEq b = true) : b.pyEq a = true := by
  unfold Const.pyEq at h ⊢
  split at h
  · rename_i n d n' d' h1 h2
    simp [h1, h2] at h ⊢; omega
  · rename_i h1 h2
    simp only [h1, h2]
    split at h <;> simp_all
    obtain ⟨rfl, h⟩ := h; exact h
  · simp at h

theorem ratEq_trans {n n' n'' : Int} {d d' d'' : Nat} (hd' : d' ≠ 0)
    (h1 : n * (d' : Int) = n' * d) (h2 : n' * (d'' : Int) = n'' * d') :
    n * (d'' : Int) = n'' * d := by
  have hd : (d' : Int) ≠ 0 := by omega
  apply Int.eq_of_mul_eq_mul_right hd
  calc n * ↑d'' * ↑d' = (n * ↑d') * ↑d'' := by ac_rfl
    _ = (n' * ↑d'') * ↑d := by rw [h1]; ac_rfl
    _ = n'' * ↑d * ↑d' := by rw [h2]; ac_rfl

theorem Const.pyEq_trans (a b c : Const) (h1 : a.pyEq b = true) (h2 : b.pyEq c = true) :
    a.pyEq c = true := by
  unfold Const.pyEq at h1 h2 ⊢
  split at h1
  · rename_i n d n' d' ha hb
    split at h2
    · rename_i m e m' e' hb' hc
      rw [hb] at hb'
      simp only [Option.some.injEq, Prod.mk.injEq] at hb'
      obtain ⟨rfl, rfl⟩ := hb'
      simp only [ha, hc]
      simp only [beq_iff_eq] at h1 h2 ⊢
      exact ratEq_trans (Const.numVal?_den hb) h1 h2
    · rename_i hb' _; rw [hb] at hb'; simp at hb'
    · simp at h2
  · rename_i ha hb
    split at h2
    · rename_i hb' _; rw [hb] at hb'; simp at hb'
    · rename_i hb' hc
      simp only [ha, hc]
      split at h1 <;> split at h2 <;> simp_all
    · simp at h2
  · simp at h1

/-! ### Well-formed expressions -/

/- `Expr.wf`: keyword names of every `callKw` are duplicate-free and parallel to the values; no
nan constant; recursively. -/
mutual
def Expr.wf : Expr → Bool
  | .const c => c.wf
  | .nary _ cs => Expr.wfL cs
  | .bin _ a b => a.wf && b.wf
  | .un _ a => a.wf
  | .cmp _ a b => a.wf && b.wf
  | .ite c t e => c.wf && t.wf && e.wf
  | .call f as => f.wf && Expr.wfL as
  | .callKw f as ns vs =>
      f.wf && Expr.wfL as && decide ns.Nodup && ns.length == vs.length && Expr.wfL vs
  | .subscript a i => a.wf && i.wf
  | .lookup a _ => a.wf
  | .cse c _ _ => c.wf
  | .subst c _ xs => c.wf && Expr.wfL xs
  | .deriv c _ => c.wf
  | .slice cs => Expr.wfL cs
  | .tuple cs => Expr.wfL cs
  | .list cs => Expr.wfL cs
  | _ => true
def Expr.wfL : List Expr → Bool
  | [] => true
  | c :: cs => c.wf && Expr.wfL cs
end

theorem wfL_iff : ∀ {cs : List Expr}, Expr.wfL cs = true ↔ ∀ c ∈ cs, c.wf = true
  | [] => by simp [Expr.wfL]
  | d :: ds => by
    simp only [Expr.wfL, Bool.and_eq_true, List.forall_mem_cons, wfL_iff (cs := ds)]

/- children-based induction principle for the nested inductive -/
mutual
theorem Expr.ind_aux {P : Expr → Prop} (h : ∀ e, (∀ c ∈ e.children, P c) → P e) : ∀ e, P e
  | .const _ => h _ (by simp [Expr.children])
  | .var _ => h _ (by simp [Expr.children])
  | .nary _ cs => h _ (by simpa [Expr.children] using Expr.ind_auxL h cs)
  | .bin _ a b => h _ (by simpa [Expr.children] using ⟨Expr.ind_aux h a, Expr.ind_aux h b⟩)
  | .un _ a => h _ (by simpa [Expr.children] using Expr.ind_aux h a)
  | .cmp _ a b => h _ (by simpa [Expr.children] using ⟨Expr.ind_aux h a, Expr.ind_aux h b⟩)
  | .ite c t e => h _ (by
      simpa [Expr.children] using ⟨Expr.ind_aux h c, Expr.ind_aux h t, Expr.ind_aux h e⟩)
  | .call f as => h _ (by
      simpa [Expr.children] using ⟨Expr.ind_aux h f, Expr.ind_auxL h as⟩)
  | .callKw f as _ vs => h _ (by
      have h1 := Expr.ind_aux h f
      have h2 := Expr.ind_auxL h as
      have h3 := Expr.ind_auxL h vs
      intro c hc
      simp only [Expr.children, List.mem_cons, List.mem_append] at hc
      rcases hc with rfl | hc | hc
      · exact h1
      · exact h2 c hc
      · exact h3 c hc)
  | .subscript a b => h _ (by
      simpa [Expr.children] using ⟨Expr.ind_aux h a, Expr.ind_aux h b⟩)
  | .lookup a _ => h _ (by simpa [Expr.children] using Expr.ind_aux h a)
  | .cse a _ _ => h _ (by simpa [Expr.children] using Expr.ind_aux h a)
  | .subst f _ as => h _ (by
      simpa [Expr.children] using ⟨Expr.ind_aux h f, Expr.ind_auxL h as⟩)
  | .deriv a _ => h _ (by simpa [Expr.children] using Expr.ind_aux h a)
  | .slice cs => h _ (by simpa [Expr.children] using Expr.ind_auxL h cs)
  | .nan => h _ (by simp [Expr.children])
  | .wildcard => h _ (by simp [Expr.children])
  | .dotWild _ => h _ (by simp [Expr.children])
  | .starWild _ => h _ (by simp [Expr.children])
  | .funcSym => h _ (by simp [Expr.children])
  | .tuple cs => h _ (by simpa [Expr.children] using Expr.ind_auxL h cs)
  | .list cs => h _ (by simpa [Expr.children] using Expr.ind_auxL h cs)
theorem Expr.ind_auxL {P : Expr → Prop} (h : ∀ e, (∀ c ∈ e.children, P c) → P e) :
    ∀ (cs : List Expr), ∀ c ∈ cs, P c
  | [] => by simp
  | c :: cs => by
    simpa using ⟨Expr.ind_aux h c, Expr.ind_auxL h cs⟩
end

theorem Expr.induct {P : Expr → Prop} (h : ∀ e, (∀ c ∈ e.children, P c) → P e) (e : Expr) : P e :=
  Expr.ind_aux h e

/-! ### Generic association-list matching -/

theorem assoc_split {K β : Type} {k : K} {w : β} {M' : List (K × β)}
    (hn : (M'.map Prod.fst).Nodup) (hm : (k, w) ∈ M') :
    ∃ L1 L2, M' = L1 ++ (k, w) :: L2 ∧ ((L1 ++ L2).map Prod.fst).Nodup ∧
      (∀ k' w', (k', w') ∈ M' → k' ≠ k → (k', w') ∈ L1 ++ L2) ∧
      (∀ k' w', (k', w') ∈ M' → k' = k → w' = w) := by
  obtain ⟨L1, L2, rfl⟩ := List.append_of_mem hm
  refine ⟨L1, L2, rfl, ?_, ?_, ?_⟩
  · simp only [List.map_append, List.map_cons, List.nodup_append, List.nodup_cons] at hn ⊢
    refine ⟨hn.1, hn.2.1.2, ?_⟩
    intro a ha b hb
    exact hn.2.2 a ha b (List.mem_cons_of_mem _ hb)
  · intro k' w' hm' hne
    simp only [List.mem_append, List.mem_cons, Prod.mk.injEq] at hm' ⊢
    rcases hm' with h | ⟨h, _⟩ | h
    · exact Or.inl h
    · exact absurd h hne
    · exact Or.inr h
  · intro k' w' hm' he
    subst he
    simp only [List.map_append, List.map_cons, List.nodup_append, List.nodup_cons] at hn
    simp only [List.mem_append, List.mem_cons, Prod.mk.injEq] at hm'
    rcases hm' with h | ⟨_, h⟩ | h
    · exact absurd rfl (hn.2.2 k' (List.mem_map.2 ⟨_, h, rfl⟩) k' (List.mem_cons_self))
    · exact h
    · exact absurd (List.mem_map.2 ⟨_, h, rfl⟩) hn.2.1.1

theorem assoc_match_symm {K β γ : Type} (R : β → γ → Prop) :
    ∀ (M : List (K × β)) (M' : List (K × γ)), (M.map Prod.fst).Nodup → (M'.map Prod.fst).Nodup →
      M.length = M'.length → (∀ k v, (k, v) ∈ M → ∃ w, (k, w) ∈ M' ∧ R v w) →
      ∀ k w, (k, w) ∈ M' → ∃ v, (k, v) ∈ M ∧ R v w
  | [], M', _, _, hl, _, k, w, hm => by
    cases M' with
    | nil => simp at hm
    | cons _ _ => simp at hl
  | (k0, v0) :: M, M', hn, hn', hl, hall, k, w, hm => by
    obtain ⟨w0, hw0, hr0⟩ := hall k0 v0 List.mem_cons_self
    obtain ⟨L1, L2, rfl, hn2, hne, hfun⟩ := assoc_split hn' hw0
    simp only [List.map_cons, List.nodup_cons] at hn
    have ih := assoc_match_symm R M (L1 ++ L2) hn.2 hn2
      (by simp only [List.length_cons, List.length_append] at hl ⊢; omega)
      (by
        intro k v hkv
        obtain ⟨w, hw, hr⟩ := hall k v (List.mem_cons_of_mem _ hkv)
        refine ⟨w, hne k w hw ?_, hr⟩
        rintro rfl
        exact hn.1 (List.mem_map.2 ⟨_, hkv, rfl⟩))
    by_cases hk : k = k0
    · subst hk
      have := hfun k w hm rfl
      subst this
      exact ⟨v0, List.mem_cons_self, hr0⟩
    · obtain ⟨v, hv, hr⟩ := ih k w (hne k w hm hk)
      exact ⟨v, List.mem_cons_of_mem _ hv, hr⟩

theorem assoc_match_perm {K β γ δ : Type} (g : K → β → δ) (g' : K → γ → δ) :
    ∀ (M : List (K × β)) (M' : List (K × γ)), (M.map Prod.fst).Nodup → (M'.map Prod.fst).Nodup →
      M.length = M'.length → (∀ k v, (k, v) ∈ M → ∃ w, (k, w) ∈ M' ∧ g k v = g' k w) →
      (M.map (fun p => g p.1 p.2)).Perm (M'.map (fun p => g' p.1 p.2))
  | [], M', _, _, hl, _ => by
    cases M' with
    | nil => simp
    | cons _ _ => simp at hl
  | (k0, v0) :: M, M', hn, hn', hl, hall => by
    obtain ⟨w0, hw0, hr0⟩ := hall k0 v0 List.mem_cons_self
    obtain ⟨L1, L2, rfl, hn2, hne, hfun⟩ := assoc_split hn' hw0
    simp only [List.map_cons, List.nodup_cons] at hn
    have ih := assoc_match_perm g g' M (L1 ++ L2) hn.2 hn2
      (by simp only [List.length_cons, List.length_append] at hl ⊢; omega)
      (by
        intro k v hkv
        obtain ⟨w, hw, hr⟩ := hall k v (List.mem_cons_of_mem _ hkv)
        refine ⟨w, hne k w hw ?_, hr⟩
        rintro rfl
        exact hn.1 (List.mem_map.2 ⟨_, hkv, rfl⟩))
    simp only [List.map_cons, List.map_append] at ih ⊢
    rw [hr0]
    exact (List.Perm.cons _ ih).trans List.perm_middle.symm


/-! ### Keyword mappings as association lists -/

theorem lookup_mem {k : String} : ∀ {ms : List String} {ws : List Expr} {w : Expr},
    assocLookupE k ms ws = some w → (k, w) ∈ ms.zip ws
  | [], _, _, h => by simp [assocLookupE] at h
  | _ :: _, [], _, h => by simp [assocLookupE] at h
  | m :: ms, w' :: ws, w, h => by
    simp only [assocLookupE] at h
    simp only [List.zip_cons_cons, List.mem_cons, Prod.mk.injEq]
    split at h
    · rename_i hm
      simp only [Option.some.injEq] at h
      exact Or.inl ⟨hm.symm, h.symm⟩
    · exact Or.inr (lookup_mem h)

theorem lookup_of_mem {k : String} : ∀ {ms : List String} {ws : List Expr} {w : Expr},
    ms.Nodup → (k, w) ∈ ms.zip ws → assocLookupE k ms ws = some w
  | [], _, _, _, h => by simp at h
  | _ :: _, [], _, _, h => by simp at h
  | m :: ms, w' :: ws, w, hn, h => by
    simp only [List.zip_cons_cons, List.mem_cons, Prod.mk.injEq] at h
    simp only [List.nodup_cons] at hn
    simp only [assocLookupE]
    rcases h with ⟨rfl, rfl⟩ | h
    · simp
    · have hk := (List.of_mem_zip h).1
      have : m ≠ k := by rintro rfl; exact hn.1 hk
      simp only [this, if_false]
      exact lookup_of_mem hn.2 h

theorem pyEqKw_iff_lookup : ∀ (ns : List String) (vs : List Expr) (ms : List String) (ws : List Expr),
    Expr.pyEqKw ns vs ms ws = true ↔
      ∀ n v, (n, v) ∈ ns.zip vs → ∃ w, assocLookupE n ms ws = some w ∧ v.pyEq w = true
  | [], _, _, _ => by simp [Expr.pyEqKw]
  | _ :: _, [], _, _ => by simp [Expr.pyEqKw]
  | n :: ns, v :: vs, ms, ws => by
    simp only [Expr.pyEqKw, Bool.and_eq_true, List.zip_cons_cons, List.mem_cons, Prod.mk.injEq,
      pyEqKw_iff_lookup ns vs ms ws]
    constructor
    · rintro ⟨h1, h2⟩ n' v' (⟨rfl, rfl⟩ | h)
      · split at h1
        · exact ⟨_, by assumption, h1⟩
        · simp at h1
      · exact h2 n' v' h
    · intro h
      refine ⟨?_, fun n' v' h' => h n' v' (Or.inr h')⟩
      obtain ⟨w, hw, hr⟩ := h n v (Or.inl ⟨rfl, rfl⟩)
      simp only [hw, hr]

theorem pyEqKw_iff {ns : List String} {vs : List Expr} {ms : List String} {ws : List Expr}
    (hms : ms.Nodup) :
    Expr.pyEqKw ns vs ms ws = true ↔
      ∀ n v, (n, v) ∈ ns.zip vs → ∃ w, (n, w) ∈ ms.zip ws ∧ v.pyEq w = true := by
  rw [pyEqKw_iff_lookup]
  constructor
  · intro h n v hm
    obtain ⟨w, hw, hr⟩ := h n v hm
    exact ⟨w, lookup_mem hw, hr⟩
  · intro h n v hm
    obtain ⟨w, hw, hr⟩ := h n v hm
    exact ⟨w, lookup_of_mem hms hw, hr⟩


/-! ### List-level lemmas, parametrised by what the induction hypothesis provides -/

theorem pyEqL_refl_of : ∀ (cs : List Expr), (∀ c ∈ cs, c.pyEq c = true) → Expr.pyEqL cs cs = true
  | [], _ => by simp [Expr.pyEqL]
  | c :: cs, h => by
    simp only [List.forall_mem_cons] at h
    simp only [Expr.pyEqL, Bool.and_eq_true]
    exact ⟨h.1, pyEqL_refl_of cs h.2⟩

theorem pyEqL_symm_of : ∀ (as bs : List Expr),
    (∀ a ∈ as, ∀ b ∈ bs, a.pyEq b = true → b.pyEq a = true) →
    Expr.pyEqL as bs = true → Expr.pyEqL bs as = true
  | [], [], _, _ => by simp [Expr.pyEqL]
  | [], _ :: _, _, h => by simp [Expr.pyEqL] at h
  | _ :: _, [], _, h => by simp [Expr.pyEqL] at h
  | a :: as, b :: bs, ih, h => by
    simp only [Expr.pyEqL, Bool.and_eq_true] at h ⊢
    refine ⟨ih a List.mem_cons_self b List.mem_cons_self h.1, pyEqL_symm_of as bs ?_ h.2⟩
    intro a' ha' b' hb'
    exact ih a' (List.mem_cons_of_mem _ ha') b' (List.mem_cons_of_mem _ hb')

theorem pyEqL_trans_of : ∀ (as bs cs : List Expr),
    (∀ a ∈ as, ∀ b ∈ bs, ∀ c ∈ cs, a.pyEq b = true → b.pyEq c = true → a.pyEq c = true) →
    Expr.pyEqL as bs = true → Expr.pyEqL bs cs = true → Expr.pyEqL as cs = true
  | [], [], [], _, _, _ => by simp [Expr.pyEqL]
  | [], _ :: _, _, _, h, _ => by simp [Expr.pyEqL] at h
  | _ :: _, [], _, _, h, _ => by simp [Expr.pyEqL] at h
  | _, [], _ :: _, _, _, h => by simp [Expr.pyEqL] at h
  | _, _ :: _, [], _, _, h => by simp [Expr.pyEqL] at h
  | a :: as, b :: bs, c :: cs, ih, h1, h2 => by
    simp only [Expr.pyEqL, Bool.and_eq_true] at h1 h2 ⊢
    refine ⟨ih a List.mem_cons_self b List.mem_cons_self c List.mem_cons_self h1.1 h2.1,
      pyEqL_trans_of as bs cs ?_ h1.2 h2.2⟩
    intro a' ha' b' hb' c' hc'
    exact ih a' (List.mem_cons_of_mem _ ha') b' (List.mem_cons_of_mem _ hb') c'
      (List.mem_cons_of_mem _ hc')

/-! ### Keyword-level lemmas -/

theorem pyEqKw_refl_of {ns : List String} {vs : List Expr} (hn : ns.Nodup)
    (h : ∀ v ∈ vs, v.pyEq v = true) : Expr.pyEqKw ns vs ns vs = true := by
  rw [pyEqKw_iff hn]
  intro n v hm
  exact ⟨v, hm, h v (List.of_mem_zip hm).2⟩

theorem zip_keys {ns : List String} {vs : List Expr} (hl : ns.length = vs.length) :
    (ns.zip vs).map Prod.fst = ns := List.map_fst_zip (by omega)

theorem pyEqKw_symm_of {ns ms : List String} {vs ws : List Expr} (hn : ns.Nodup) (hm : ms.Nodup)
    (hl1 : ns.length = vs.length) (hl2 : ms.length = ws.length) (hl : ns.length = ms.length)
    (ih : ∀ v ∈ vs, ∀ w ∈ ws, v.pyEq w = true → w.pyEq v = true)
    (h : Expr.pyEqKw ns vs ms ws = true) : Expr.pyEqKw ms ws ns vs = true := by
  rw [pyEqKw_iff hm] at h
  rw [pyEqKw_iff hn]
  intro m w hmw
  have := assoc_match_symm (fun v w => v.pyEq w = true) (ns.zip vs) (ms.zip ws)
    (by rw [zip_keys hl1]; exact hn) (by rw [zip_keys hl2]; exact hm)
    (by simp only [List.length_zip]; omega) h m w hmw
  obtain ⟨v, hv, hr⟩ := this
  exact ⟨v, hv, ih v (List.of_mem_zip hv).2 w (List.of_mem_zip hmw).2 hr⟩

theorem pyEqKw_trans_of {ns ms ks : List String} {vs ws us : List Expr}
    (hm : ms.Nodup) (hk : ks.Nodup)
    (ih : ∀ v ∈ vs, ∀ w ∈ ws, ∀ u ∈ us, v.pyEq w = true → w.pyEq u = true → v.pyEq u = true)
    (h1 : Expr.pyEqKw ns vs ms ws = true) (h2 : Expr.pyEqKw ms ws ks us = true) :
    Expr.pyEqKw ns vs ks us = true := by
  rw [pyEqKw_iff hm] at h1
  rw [pyEqKw_iff hk] at h2 ⊢
  intro n v hnv
  obtain ⟨w, hw, hr⟩ := h1 n v hnv
  obtain ⟨u, hu, hr'⟩ := h2 n w hw
  exact ⟨u, hu, ih v (List.of_mem_zip hnv).2 w (List.of_mem_zip hw).2 u (List.of_mem_zip hu).2 hr hr'⟩

/-! ### Structural hash -/

structure HashParams where
  /-- hash of a numeric constant given as num/den -/
  num : Int → Nat → Nat
  str : String → Nat
  none : Nat
  /-- class tag + field hashes, order-sensitive -/
  tuple : String → List Nat → Nat
  /-- order-INsensitive -/
  mapping : List (Nat × Nat) → Nat

structure HashParams.Ok (P : HashParams) : Prop where
  num_ok : ∀ (n : Int) (d : Nat) (n' : Int) (d' : Nat), d ≠ 0 → d' ≠ 0 → n * (d' : Int) = n' * (d : Int) → P.num n d = P.num n' d'
  mapping_perm : ∀ l l', l.Perm l' → P.mapping l = P.mapping l'

def Const.hash (P : HashParams) : Const → Nat
  | .int n => P.num n 1
  | .bool b => P.num (if b then 1 else 0) 1
  | .flt r n d => if d = 0 then P.tuple "float" [P.str r] else P.num n d
  | .str s => P.str s
  | .none => P.none

theorem Const.eq_hash {P : HashParams} (hP : P.Ok) (a b : Const) (h : a.pyEq b = true) :
    a.hash P = b.hash P := by
  unfold Const.pyEq at h
  split at h
  · rename_i n d n' d' ha hb
    have hd := Const.numVal?_den ha
    have hd' := Const.numVal?_den hb
    simp only [beq_iff_eq] at h
    have := hP.num_ok n d n' d' hd hd' h
    cases a <;> cases b <;> simp_all [Const.numVal?, Const.hash]
  · split at h <;> simp_all [Const.hash]
  · simp at h

mutual
def Expr.hash (P : HashParams) : Expr → Nat
  | .const c => c.hash P
  | .var n => P.tuple "Variable" [P.str n]
  | .nary o cs => P.tuple o.name [P.tuple "tuple" (Expr.hashL P cs)]
  | .bin o a b => P.tuple o.name [a.hash P, b.hash P]
  | .un o a => P.tuple o.name [a.hash P]
  | .cmp o a b => P.tuple "Comparison" [a.hash P, P.str o.sym, b.hash P]
  | .ite c t e => P.tuple "If" [c.hash P, t.hash P, e.hash P]
  | .call f as => P.tuple "Call" [f.hash P, P.tuple "tuple" (Expr.hashL P as)]
  | .callKw f as ns vs =>
      P.tuple "CallWithKwargs"
        [f.hash P, P.tuple "tuple" (Expr.hashL P as), P.mapping (Expr.hashKw P ns vs)]
  | .subscript a i => P.tuple "Subscript" [a.hash P, i.hash P]
  | .lookup a n => P.tuple "Lookup" [a.hash P, P.str n]
  | .cse c p s =>
      P.tuple "CommonSubexpression"
        [c.hash P, (match p with | some p => P.str p | Option.none => P.none), P.str s]
  | .subst c vs xs =>
      P.tuple "Substitution"
        [c.hash P, P.tuple "tuple" (vs.map P.str), P.tuple "tuple" (Expr.hashL P xs)]
  | .deriv c vs => P.tuple "Derivative" [c.hash P, P.tuple "tuple" (vs.map P.str)]
  | .slice cs => P.tuple "Slice" [P.tuple "tuple" (Expr.hashL P cs)]
  | .nan => P.tuple "NaN" []
  | .wildcard => P.tuple "Wildcard" []
  | .dotWild n => P.tuple "DotWildcard" [P.str n]
  | .starWild n => P.tuple "StarWildcard" [P.str n]
  | .funcSym => P.tuple "FunctionSymbol" []
  | .tuple cs => P.tuple "tuple" (Expr.hashL P cs)
  | .list cs => P.tuple "list" (Expr.hashL P cs)
def Expr.hashL (P : HashParams) : List Expr → List Nat
  | [] => []
  | c :: cs => c.hash P :: Expr.hashL P cs
def Expr.hashKw (P : HashParams) : List String → List Expr → List (Nat × Nat)
  | n :: ns, v :: vs => (P.str n, v.hash P) :: Expr.hashKw P ns vs
  | _, _ => []
end

theorem hashL_eq_of (P : HashParams) : ∀ (as bs : List Expr),
    (∀ a ∈ as, ∀ b ∈ bs, a.pyEq b = true → a.hash P = b.hash P) →
    Expr.pyEqL as bs = true → Expr.hashL P as = Expr.hashL P bs
  | [], [], _, _ => rfl
  | [], _ :: _, _, h => by simp [Expr.pyEqL] at h
  | _ :: _, [], _, h => by simp [Expr.pyEqL] at h
  | a :: as, b :: bs, ih, h => by
    simp only [Expr.pyEqL, Bool.and_eq_true] at h
    simp only [Expr.hashL]
    rw [ih a List.mem_cons_self b List.mem_cons_self h.1, hashL_eq_of P as bs ?_ h.2]
    intro a' ha' b' hb'
    exact ih a' (List.mem_cons_of_mem _ ha') b' (List.mem_cons_of_mem _ hb')

theorem hashKw_eq_map (P : HashParams) : ∀ (ns : List String) (vs : List Expr),
    Expr.hashKw P ns vs = (ns.zip vs).map (fun p => (P.str p.1, p.2.hash P))
  | [], _ => by simp [Expr.hashKw]
  | _ :: _, [] => by simp [Expr.hashKw]
  | n :: ns, v :: vs => by simp [Expr.hashKw, hashKw_eq_map P ns vs]

theorem hashKw_perm_of (P : HashParams) {ns ms : List String} {vs ws : List Expr}
    (hn : ns.Nodup) (hm : ms.Nodup)
    (hl1 : ns.length = vs.length) (hl2 : ms.length = ws.length) (hl : ns.length = ms.length)
    (ih : ∀ v ∈ vs, ∀ w ∈ ws, v.pyEq w = true → v.hash P = w.hash P)
    (h : Expr.pyEqKw ns vs ms ws = true) : (Expr.hashKw P ns vs).Perm (Expr.hashKw P ms ws) := by
  rw [pyEqKw_iff hm] at h
  rw [hashKw_eq_map, hashKw_eq_map]
  apply assoc_match_perm (fun n v => (P.str n, Expr.hash P v)) (fun n v => (P.str n, Expr.hash P v))
    (ns.zip vs) (ms.zip ws)
    (by rw [zip_keys hl1]; exact hn) (by rw [zip_keys hl2]; exact hm)
    (by simp only [List.length_zip]; omega)
  intro n v hnv
  obtain ⟨w, hw, hr⟩ := h n v hnv
  exact ⟨w, hw, by rw [ih v (List.of_mem_zip hnv).2 w (List.of_mem_zip hw).2 hr]⟩


/-! ### `Expr.pyEq` is an equivalence on well-formed expressions -/

theorem pyEq_refl (e : Expr) : e.wf = true → e.pyEq e = true := by
  induction e using Expr.induct with | _ e ih => ?_
  intro h
  cases e <;>
    simp only [Expr.children, List.forall_mem_cons, List.not_mem_nil, false_imp_iff, implies_true,
      and_true, List.mem_append] at ih <;>
    simp only [Expr.wf, Bool.and_eq_true, wfL_iff, decide_eq_true_eq, beq_iff_eq] at h <;>
    simp only [Expr.pyEq, Bool.and_eq_true, beq_self_eq_true, true_and, and_true]
  case const c => exact Const.pyEq_refl c h
  case callKw f as ns vs =>
    refine ⟨⟨ih.1 h.1.1.1.1, pyEqL_refl_of _ fun c hc => ih.2 c (Or.inl hc) (h.1.1.1.2 c hc)⟩,
      pyEqKw_refl_of h.1.1.2 fun c hc => ih.2 c (Or.inr hc) (h.2 c hc)⟩
  all_goals first
    | exact pyEqL_refl_of _ fun c hc => ih c hc (h c hc)
    | exact ⟨ih.1 h.1, pyEqL_refl_of _ fun c hc => ih.2 c hc (h.2 c hc)⟩
    | exact ih h
    | exact ⟨ih.1 h.1, ih.2 h.2⟩
    | exact ⟨⟨ih.1 h.1.1, ih.2.1 h.1.2⟩, ih.2.2 h.2⟩

theorem pyEqL_symm_wf {as bs : List Expr}
    (ih : ∀ c ∈ as, c.wf = true → ∀ b : Expr, b.wf = true → c.pyEq b = true → b.pyEq c = true)
    (ha : ∀ c ∈ as, c.wf = true) (hb : ∀ c ∈ bs, c.wf = true)
    (h : Expr.pyEqL as bs = true) : Expr.pyEqL bs as = true :=
  pyEqL_symm_of _ _ (fun a haa b hbb => ih a haa (ha a haa) b (hb b hbb)) h

theorem pyEq_symm' (a : Expr) :
    a.wf = true → ∀ b : Expr, b.wf = true → a.pyEq b = true → b.pyEq a = true := by
  induction a using Expr.induct with | _ a ih => ?_
  intro ha b hb h
  cases a <;> cases b <;>
    simp only [Expr.pyEq, Bool.false_eq_true, Bool.and_eq_true, beq_iff_eq] at h <;>
    simp only [Expr.children, List.forall_mem_cons, List.not_mem_nil, false_imp_iff, implies_true,
      and_true, List.mem_append] at ih <;>
    simp only [Expr.wf, Bool.and_eq_true, wfL_iff, decide_eq_true_eq, beq_iff_eq] at ha hb <;>
    simp only [Expr.pyEq, Bool.and_eq_true, beq_iff_eq]
  case const.const c c' => exact Const.pyEq_symm _ _ h
  case callKw.callKw f as ns vs g bs ms ws =>
    obtain ⟨⟨⟨h1, h2⟩, h3⟩, h4⟩ := h
    obtain ⟨⟨⟨⟨a1, a2⟩, a3⟩, a4⟩, a5⟩ := ha
    obtain ⟨⟨⟨⟨b1, b2⟩, b3⟩, b4⟩, b5⟩ := hb
    refine ⟨⟨⟨ih.1 a1 _ b1 h1, pyEqL_symm_wf (fun c hc => ih.2 c (Or.inl hc)) a2 b2 h2⟩, h3.symm⟩,
      pyEqKw_symm_of a3 b3 a4 b4 h3 ?_ h4⟩
    intro v hv w hw
    exact ih.2 v (Or.inr hv) (a5 v hv) w (b5 w hw)
  all_goals first
    | exact h.symm
    | exact pyEqL_symm_wf ih ha hb h
    | exact ⟨h.1.symm, pyEqL_symm_wf ih ha hb h.2⟩
    | exact ⟨ih.1 ha.1 _ hb.1 h.1, pyEqL_symm_wf ih.2 ha.2 hb.2 h.2⟩
    | exact ⟨⟨ih.1 ha.1 _ hb.1 h.1.1, h.1.2.symm⟩, pyEqL_symm_wf ih.2 ha.2 hb.2 h.2⟩
    | exact ⟨h.1.symm, ih ha _ hb h.2⟩
    | exact ⟨ih ha _ hb h.1, h.2.symm⟩
    | exact ⟨⟨ih ha _ hb h.1.1, h.1.2.symm⟩, h.2.symm⟩
    | exact ⟨ih.1 ha.1 _ hb.1 h.1, ih.2 ha.2 _ hb.2 h.2⟩
    | exact ⟨⟨h.1.1.symm, ih.1 ha.1 _ hb.1 h.1.2⟩, ih.2 ha.2 _ hb.2 h.2⟩
    | exact ⟨⟨ih.1 ha.1.1 _ hb.1.1 h.1.1, ih.2.1 ha.1.2 _ hb.1.2 h.1.2⟩, ih.2.2 ha.2 _ hb.2 h.2⟩

theorem pyEq_symm (a b : Expr) (ha : a.wf = true) (hb : b.wf = true) (h : a.pyEq b = true) :
    b.pyEq a = true := pyEq_symm' a ha b hb h

theorem pyEqL_trans_wf {as bs cs : List Expr}
    (ih : ∀ x ∈ as, x.wf = true → ∀ b c : Expr, b.wf = true → c.wf = true →
      x.pyEq b = true → b.pyEq c = true → x.pyEq c = true)
    (ha : ∀ x ∈ as, x.wf = true) (hb : ∀ x ∈ bs, x.wf = true) (hc : ∀ x ∈ cs, x.wf = true)
    (h1 : Expr.pyEqL as bs = true) (h2 : Expr.pyEqL bs cs = true) : Expr.pyEqL as cs = true :=
  pyEqL_trans_of _ _ _
    (fun a haa b hbb c hcc => ih a haa (ha a haa) b c (hb b hbb) (hc c hcc)) h1 h2

theorem pyEq_trans' (a : Expr) :
    a.wf = true → ∀ b c : Expr, b.wf = true → c.wf = true →
      a.pyEq b = true → b.pyEq c = true → a.pyEq c = true := by
  induction a using Expr.induct with | _ a ih => ?_
  intro ha b c hb hc h1 h2
  cases a <;> cases b <;>
    simp only [Expr.pyEq, Bool.false_eq_true, Bool.and_eq_true, beq_iff_eq] at h1 <;>
    cases c <;>
    simp only [Expr.pyEq, Bool.false_eq_true, Bool.and_eq_true, beq_iff_eq] at h2 <;>
    simp only [Expr.children, List.forall_mem_cons, List.not_mem_nil, false_imp_iff, implies_true,
      and_true, List.mem_append] at ih <;>
    simp only [Expr.wf, Bool.and_eq_true, wfL_iff, decide_eq_true_eq, beq_iff_eq] at ha hb hc <;>
    simp only [Expr.pyEq, Bool.and_eq_true, beq_iff_eq]
  case const.const.const => exact Const.pyEq_trans _ _ _ h1 h2
  case callKw.callKw.callKw f as ns vs g bs ms ws k cs ks us =>
    obtain ⟨⟨⟨p1, p2⟩, p3⟩, p4⟩ := h1
    obtain ⟨⟨⟨q1, q2⟩, q3⟩, q4⟩ := h2
    obtain ⟨⟨⟨⟨a1, a2⟩, a3⟩, a4⟩, a5⟩ := ha
    obtain ⟨⟨⟨⟨b1, b2⟩, b3⟩, b4⟩, b5⟩ := hb
    obtain ⟨⟨⟨⟨c1, c2⟩, c3⟩, c4⟩, c5⟩ := hc
    refine ⟨⟨⟨ih.1 a1 _ _ b1 c1 p1 q1,
      pyEqL_trans_wf (fun x hx => ih.2 x (Or.inl hx)) a2 b2 c2 p2 q2⟩, p3.trans q3⟩,
      pyEqKw_trans_of b3 c3 ?_ p4 q4⟩
    intro v hv w hw u hu
    exact ih.2 v (Or.inr hv) (a5 v hv) w u (b5 w hw) (c5 u hu)
  all_goals first
    | exact h1.trans h2
    | exact pyEqL_trans_wf ih ha hb hc h1 h2
    | exact ⟨h1.1.trans h2.1, pyEqL_trans_wf ih ha hb hc h1.2 h2.2⟩
    | exact ⟨ih.1 ha.1 _ _ hb.1 hc.1 h1.1 h2.1, pyEqL_trans_wf ih.2 ha.2 hb.2 hc.2 h1.2 h2.2⟩
    | exact ⟨⟨ih.1 ha.1 _ _ hb.1 hc.1 h1.1.1 h2.1.1, h1.1.2.trans h2.1.2⟩,
        pyEqL_trans_wf ih.2 ha.2 hb.2 hc.2 h1.2 h2.2⟩
    | exact ⟨h1.1.trans h2.1, ih ha _ _ hb hc h1.2 h2.2⟩
    | exact ⟨ih ha _ _ hb hc h1.1 h2.1, h1.2.trans h2.2⟩
    | exact ⟨⟨ih ha _ _ hb hc h1.1.1 h2.1.1, h1.1.2.trans h2.1.2⟩, h1.2.trans h2.2⟩
    | exact ⟨ih.1 ha.1 _ _ hb.1 hc.1 h1.1 h2.1, ih.2 ha.2 _ _ hb.2 hc.2 h1.2 h2.2⟩
    | exact ⟨⟨h1.1.1.trans h2.1.1, ih.1 ha.1 _ _ hb.1 hc.1 h1.1.2 h2.1.2⟩,
        ih.2 ha.2 _ _ hb.2 hc.2 h1.2 h2.2⟩
    | exact ⟨⟨ih.1 ha.1.1 _ _ hb.1.1 hc.1.1 h1.1.1 h2.1.1,
        ih.2.1 ha.1.2 _ _ hb.1.2 hc.1.2 h1.1.2 h2.1.2⟩, ih.2.2 ha.2 _ _ hb.2 hc.2 h1.2 h2.2⟩

theorem pyEq_trans (a b c : Expr) (ha : a.wf = true) (hb : b.wf = true) (hc : c.wf = true)
    (h1 : a.pyEq b = true) (h2 : b.pyEq c = true) : a.pyEq c = true :=
  pyEq_trans' a ha b c hb hc h1 h2

/-! ### The structural hash respects `==` -/

theorem hashL_eq_wf {P : HashParams} {as bs : List Expr}
    (ih : ∀ c ∈ as, c.wf = true → ∀ b : Expr, b.wf = true → c.pyEq b = true → c.hash P = b.hash P)
    (ha : ∀ c ∈ as, c.wf = true) (hb : ∀ c ∈ bs, c.wf = true)
    (h : Expr.pyEqL as bs = true) : Expr.hashL P as = Expr.hashL P bs :=
  hashL_eq_of P _ _ (fun a haa b hbb => ih a haa (ha a haa) b (hb b hbb)) h

theorem eq_hash' {P : HashParams} (hP : P.Ok) (a : Expr) :
    a.wf = true → ∀ b : Expr, b.wf = true → a.pyEq b = true → a.hash P = b.hash P := by
  induction a using Expr.induct with | _ a ih => ?_
  intro ha b hb h
  cases a <;> cases b <;>
    simp only [Expr.pyEq, Bool.false_eq_true, Bool.and_eq_true, beq_iff_eq] at h <;>
    simp only [Expr.children, List.forall_mem_cons, List.not_mem_nil, false_imp_iff, implies_true,
      and_true, List.mem_append] at ih <;>
    simp only [Expr.wf, Bool.and_eq_true, wfL_iff, decide_eq_true_eq, beq_iff_eq] at ha hb <;>
    simp only [Expr.hash]
  case const.const c c' => exact Const.eq_hash hP _ _ h
  case callKw.callKw f as ns vs g bs ms ws =>
    obtain ⟨⟨⟨h1, h2⟩, h3⟩, h4⟩ := h
    obtain ⟨⟨⟨⟨a1, a2⟩, a3⟩, a4⟩, a5⟩ := ha
    obtain ⟨⟨⟨⟨b1, b2⟩, b3⟩, b4⟩, b5⟩ := hb
    rw [ih.1 a1 _ b1 h1, hashL_eq_wf (fun c hc => ih.2 c (Or.inl hc)) a2 b2 h2,
      hP.mapping_perm _ _ (hashKw_perm_of P a3 b3 a4 b4 h3 ?_ h4)]
    intro v hv w hw
    exact ih.2 v (Or.inr hv) (a5 v hv) w (b5 w hw)
  all_goals first
    | rfl
    | rw [h]
    | rw [hashL_eq_wf ih ha hb h]
    | rw [h.1, hashL_eq_wf ih ha hb h.2]
    | rw [ih.1 ha.1 _ hb.1 h.1, hashL_eq_wf ih.2 ha.2 hb.2 h.2]
    | rw [ih.1 ha.1 _ hb.1 h.1.1, h.1.2, hashL_eq_wf ih.2 ha.2 hb.2 h.2]
    | rw [h.1, ih ha _ hb h.2]
    | rw [ih ha _ hb h.1, h.2]
    | rw [ih ha _ hb h.1.1, h.1.2, h.2]
    | rw [ih.1 ha.1 _ hb.1 h.1, ih.2 ha.2 _ hb.2 h.2]
    | rw [h.1.1, ih.1 ha.1 _ hb.1 h.1.2, ih.2 ha.2 _ hb.2 h.2]
    | rw [ih.1 ha.1.1 _ hb.1.1 h.1.1, ih.2.1 ha.1.2 _ hb.1.2 h.1.2, ih.2.2 ha.2 _ hb.2 h.2]

theorem eq_hash {P : HashParams} (hP : P.Ok) (a b : Expr) (ha : a.wf = true) (hb : b.wf = true)
    (h : a.pyEq b = true) : a.hash P = b.hash P := eq_hash' hP a ha b hb h

/-! ### `Expr.keyEq` (cache-key equality: type tag and `==`) -/

theorem keyEq_refl (e : Expr) (h : e.wf = true) : e.keyEq e = true := by
  simp only [Expr.keyEq, Bool.and_eq_true, beq_self_eq_true, true_and]
  exact pyEq_refl e h

theorem keyEq_symm (a b : Expr) (ha : a.wf = true) (hb : b.wf = true) (h : a.keyEq b = true) :
    b.keyEq a = true := by
  simp only [Expr.keyEq, Bool.and_eq_true, beq_iff_eq] at h ⊢
  exact ⟨h.1.symm, pyEq_symm a b ha hb h.2⟩

theorem keyEq_trans (a b c : Expr) (ha : a.wf = true) (hb : b.wf = true) (hc : c.wf = true)
    (h1 : a.keyEq b = true) (h2 : b.keyEq c = true) : a.keyEq c = true := by
  simp only [Expr.keyEq, Bool.and_eq_true, beq_iff_eq] at h1 h2 ⊢
  exact ⟨h1.1.trans h2.1, pyEq_trans a b c ha hb hc h1.2 h2.2⟩

theorem keyEq_equiv :
    (∀ e : Expr, e.wf = true → e.keyEq e = true) ∧
    (∀ a b : Expr, a.wf = true → b.wf = true → a.keyEq b = true → b.keyEq a = true) ∧
    (∀ a b c : Expr, a.wf = true → b.wf = true → c.wf = true →
      a.keyEq b = true → b.keyEq c = true → a.keyEq c = true) :=
  ⟨keyEq_refl, keyEq_symm, keyEq_trans⟩

/-- equal cache keys have equal hashes -/
theorem keyEq_hash {P : HashParams} (hP : P.Ok) (a b : Expr) (ha : a.wf = true) (hb : b.wf = true)
    (h : a.keyEq b = true) : a.hash P = b.hash P := by
  simp only [Expr.keyEq, Bool.and_eq_true] at h
  exact eq_hash hP a b ha hb h.2

/-! ### Why each clause of `wf` is needed -/

/-- nan: reflexivity fails -/
example : (Expr.const (.flt "nan" 0 0)).pyEq (.const (.flt "nan" 0 0)) = false := by decide

/-- duplicate keyword names: reflexivity fails (`f(x=1, x=2)`; lookup finds the first binding) -/
example :
    let e := Expr.callKw (.var "f") [] ["x", "x"] [.const (.int 1), .const (.int 2)]
    e.pyEq e = false := by decide

/-- duplicate keyword names: symmetry fails even when lengths agree -/
example :
    let a := Expr.callKw (.var "f") [] ["x", "x"] [.const (.int 1), .const (.int 1)]
    let b := Expr.callKw (.var "f") [] ["x", "y"] [.const (.int 1), .const (.int 3)]
    a.pyEq b = true ∧ b.pyEq a = false := by decide

/-- names and values not parallel: symmetry fails -/
example :
    let a := Expr.callKw (.var "f") [] ["x", "y"] [.const (.int 1)]
    let b := Expr.callKw (.var "f") [] ["x", "z"] [.const (.int 1), .const (.int 2)]
    a.pyEq b = true ∧ b.pyEq a = false := by decide

end PV
