import PV.Proofs.AlgoTableFft
import PV.Model.SymFft
/-
  C19 (T-gen): `fft` with a WRAPPER.  PV/Proofs/AlgoTableFft.lean proves that the regenerated body
  of `fft` is `c19FftAux` when `wrap_intermediate_with_level(level, v)` returns `v` (the default).
  Here the same symbolic execution is done for an arbitrary wrapper `wrap : List α → List α`
  applied to every block of sub-transforms — the meaning of the external name
  `fft.wrap_intermediate_with_level` is a hypothesis (`hwrap`) — and the result is the recursion
  `c19FftAuxW` of PV/Model/SymFft.lean, the one the symbolic FFT instantiates.
-/
namespace PV.Algo
open PV.Generated
variable {α : Type}

section
variable (ops : C19Ops α) (ext : String → List (C19V α) → C19R (C19V α))
  (wrap : List α → List α)
  (hwrap : ∀ (l : C19V α) (v : List α),
    ext "fft.wrap_intermediate_with_level" [l, .vec (v.map C19V.elem)]
      = .ok (.vec ((wrap v).map C19V.elem)))
  (hstp : ∀ v, ext "fft.scalar_tp" [v] = .ok v)

include hwrap in
/-- one element of the first comprehension of `fft`: the sub-transform times its twiddles -/
theorem c19_fftW_elt1 (x : List α) (sign : Int) (wi wil dt np : C19V α) (level : Int)
    (N1 N2 n1 n : Nat) (hN1 : 1 ≤ N1) (sub : List α → List α)
    (hrec : c19RunFn ops c19Table ext (n + 1) "algorithm.fft"
        [c19EncVec (stride x n1 N1), .int sign, wi, .none, dt, np, .int (level + 1)]
      = .ok (c19EncVec (sub (stride x n1 N1)))) :
    c19EvalE (c19CxAt ops c19Table ext (n + 1) (n + 2)) c19FftElt1
        (c19Set "n1" (.int n1) (c19FftStore x sign wi wil dt np level N1 N2))
      = .ok (c19EncVec (wrap (c19VecMul ops.mul (sub (stride x n1 N1))
          (c19Twiddles (c19Rp ops sign) N1 N2 n1)))) := by
  have hsl : c19Slice ((x.map C19V.elem : List (C19V α))) (.int (n1 : Int)) (.int (N1 : Int))
      = .ok ((stride x n1 N1).map C19V.elem) := by
    have : (0 : Int) ≤ (n1 : Int) ∧ (1 : Int) ≤ (N1 : Int) := by omega
    simp [c19Slice, this, c19t_stride_map]
  have htw : (List.map (fun (k : Nat) => (.elem (ops.tw sign ((N1 : Int) * (N2 : Int))
        ((n1 : Int) * 1 * (k : Int))) : C19V α)) (List.range N2))
      = (c19Twiddles (c19Rp ops sign) N1 N2 n1).map C19V.elem := by
    simp [c19Twiddles, c19Rp, List.map_map, Function.comp_def]
  have hmul := c19Arith_vec_mul ops (sub (stride x n1 N1)) (c19Twiddles (c19Rp ops sign) N1 N2 n1)
  unfold c19FftElt1 c19FftStore
  unfold c19EncVec at hrec hmul ⊢
  c19_run [hsl, c19Call_fft, hrec, c19Call_arange, c19Range_zero, c19TwNum, c19TwVec_range, htw,
    hmul, c19Call_wrap, c19_ext_wrap_run, hwrap]



include hwrap hstp in
/-- **`fft` as regenerated, with a wrapper, IS the recursion `c19FftAuxW` / `c19FftStepW`**, for every length ≥ 1,
every carrier, every fuel of the model that is at least the length: `find_factors` splits, the
sub-transforms of the strided sub-vectors are multiplied elementwise by the twiddles
`tw sign (N1·N2) (n1·k2)`, and output block `k1` is the Python `sum` of the sub-results scaled by
`tw sign N1 (n1·k1)`. -/
theorem c19_fftW_run_aux : ∀ (L : Nat) (x : List α), x.length = L → 1 ≤ L → ∀ (fuel : Nat), L ≤ fuel →
    ∀ (sign : Int) (wi wil dt np : C19V α) (level : Int) (n : Nat), 2 * L + 3 ≤ n →
    c19RunFn ops c19Table ext (n + 1) "algorithm.fft"
        [c19EncVec x, .int sign, wi, wil, dt, np, .int level]
      = .ok (c19EncVec (c19FftAuxW ops.add ops.mul (ops.ofInt 0) (c19Rp ops sign) wrap fuel x)) := by
  intro L
  induction L using Nat.strongRecOn with
  | _ L ih =>
    intro x hL hpos fuel hfuel sign wi wil dt np level n hn
    obtain ⟨fuel, rfl⟩ : ∃ f', fuel = f' + 1 := ⟨fuel - 1, by omega⟩
    obtain ⟨n, rfl⟩ : ∃ n', n = n' + 1 := ⟨n - 1, by omega⟩
    have hlen : ((x.map C19V.elem : List (C19V α)).length : Int) = (L : Int) := by simp [hL]
    rw [c19RunFn_succ ops c19Table ext _ _ _ _ _ c19_find_fft (by rw [c19_fft_body_current]; rfl)]
    simp only [c19_fft_body_current]
    by_cases h1 : L = 1
    · subst h1
      have : c19FftAuxW ops.add ops.mul (ops.ofInt 0) (c19Rp ops sign) wrap (fuel + 1) x = x := by
        simp [c19FftAuxW, hL]
      rw [this]
      unfold c19EncVec
      c19_run [hlen]
      rfl
    · have h2 : 2 ≤ L := by omega
      obtain ⟨hN1, hN2, hN2lt⟩ := findFactors_lt L h2
      have hmul := findFactors_mul L
      have hne : ((L : Int) == 1) = false := by simp; omega
      have hff := c19_find_factors_run ops ext L n (by
        have := Nat.sqrt_le_self L; omega)
      have hpy : findFactorsPy L = some (findFactors L) := by
        unfold findFactorsPy
        have : (findFactors L).1 ≠ 0 := by omega
        simp [this]
      rw [hpy] at hff
      simp only [c19EncFactors] at hff
      have haux : c19FftAuxW ops.add ops.mul (ops.ofInt 0) (c19Rp ops sign) wrap (fuel + 1) x
          = c19FftStepW ops.add ops.mul (ops.ofInt 0) (c19Rp ops sign) wrap
              (c19FftAuxW ops.add ops.mul (ops.ofInt 0) (c19Rp ops sign) wrap fuel) x := by
        simp [c19FftAuxW, hL, h1]
      -- the first comprehension
      have hcomp1 : c19EvalE (c19CxAt ops c19Table ext (n + 1) (n + 2))
          c19FftComp1
          (c19FftStore x sign wi wil dt np level (findFactors L).1 (findFactors L).2)
          = .ok (.tup (((List.range (findFactors L).1).map fun n1 =>
              wrap (c19VecMul ops.mul
                (c19FftAuxW ops.add ops.mul (ops.ofInt 0) (c19Rp ops sign) wrap fuel
                  (stride x n1 (findFactors L).1))
                (c19Twiddles (c19Rp ops sign) (findFactors L).1 (findFactors L).2 n1))).map
              c19EncVec)) := by
        unfold c19FftComp1
        c19_run [c19FftStore_get_N1, c19Range_zero]
        rw [c19MapM_map_ok _ _ (fun n1 => c19EncVec (wrap (c19VecMul ops.mul
            (c19FftAuxW ops.add ops.mul (ops.ofInt 0) (c19Rp ops sign) wrap fuel
              (stride x n1 (findFactors L).1))
            (c19Twiddles (c19Rp ops sign) (findFactors L).1 (findFactors L).2 n1)))) _ (by
          intro n1 hn1
          have hn1' : n1 < (findFactors L).1 := List.mem_range.mp hn1
          have hsl := stride_length x (findFactors L).1 (findFactors L).2 n1 (by rw [hL, hmul]) hn1'
          have hrec := ih (findFactors L).2 hN2lt (stride x n1 (findFactors L).1) hsl hN2 fuel
            (by omega) sign wi .none dt np (level + 1) n (by omega)
          exact c19_fftW_elt1 ops ext wrap hwrap x sign wi wil dt np level _ _ n1 n (by omega) _ hrec)]
        simp [List.map_map, Function.comp_def]
      rw [haux]
      unfold c19FftStepW
      simp only [hL]
      generalize hS : ((List.range (findFactors L).1).map fun n1 =>
              wrap (c19VecMul ops.mul
                (c19FftAuxW ops.add ops.mul (ops.ofInt 0) (c19Rp ops sign) wrap fuel
                  (stride x n1 (findFactors L).1))
                (c19Twiddles (c19Rp ops sign) (findFactors L).1 (findFactors L).2 n1))) = S at hcomp1 ⊢
      have hSne : S ≠ [] := by
        rw [← hS]
        have : (findFactors L).1 ≠ 0 := by omega
        simp [this]
      have hcomp2 : c19EvalE (c19CxAt ops c19Table ext (n + 1) (n + 2))
          c19FftComp2
          (c19FftStore x sign wi wil dt np level (findFactors L).1 (findFactors L).2
            ++ [("sub_ffts", .tup (S.map c19EncVec))])
          = .ok (.tup (((List.range (findFactors L).1).map fun k1 =>
              c19PySum ops.add (ops.ofInt 0) (S.zipIdx.map fun (p : List α × Nat) =>
                c19VecScale ops.mul p.1 (c19Rp ops sign (findFactors L).1 (p.2 * k1)))).map
              c19EncVec)) := by
        unfold c19FftComp2
        c19_run [c19FftStore_get_N1', c19Range_zero]
        rw [c19MapM_map_ok _ _ (fun k1 => c19EncVec (c19PySum ops.add (ops.ofInt 0)
            (S.zipIdx.map fun (p : List α × Nat) =>
              c19VecScale ops.mul p.1 (c19Rp ops sign (findFactors L).1 (p.2 * k1))))) _ (by
          intro k1 _
          exact c19_fft_sum ops ext hstp x sign wi wil dt np level _ _ k1 n S hSne)]
        simp [List.map_map, Function.comp_def]
      have hst : ([("x", c19EncVec x), ("sign", .int sign), ("wrap_intermediate", wi),
          ("wrap_intermediate_with_level", wil), ("complex_dtype", dt), ("custom_np", np),
          ("level", .int level), ("n", .int L), ("N1", .int (findFactors L).1),
          ("N2", .int (findFactors L).2)] : C19Store α)
          = c19FftStore x sign wi wil dt np level (findFactors L).1 (findFactors L).2 := by
        unfold c19FftStore; rw [hL]
      unfold c19EncVec at hst ⊢
      c19_run [hlen, hne, c19Call_find_factors, hff, hst]
      unfold c19EncVec at hcomp1 hcomp2
      c19_run [hcomp1, c19FftStore_set_sub, hcomp2, c19Call_concatenate]
      have hcc := c19Concat_vecs ((List.range (findFactors L).1).map fun k1 =>
              c19PySum ops.add (ops.ofInt 0) (S.zipIdx.map fun (p : List α × Nat) =>
                c19VecScale ops.mul p.1 (c19Rp ops sign (findFactors L).1 (p.2 * k1))))
      unfold c19EncVec at hcc
      rw [hcc]
      c19_run [c19_flatMap_map_id]
      rfl



include hwrap hstp in
/-- **`fft` with a wrapper as regenerated IS `c19FftW`**, for every length ≥ 1 -/
theorem c19_fftW_run (x : List α) (hpos : 1 ≤ x.length) (sign : Int) (wi wil dt np : C19V α)
    (level : Int) (n : Nat) (hn : 2 * x.length + 3 ≤ n) :
    c19RunFn ops c19Table ext (n + 1) "algorithm.fft"
        [c19EncVec x, .int sign, wi, wil, dt, np, .int level]
      = .ok (c19EncVec (c19FftW ops.add ops.mul (ops.ofInt 0) (c19Rp ops sign) wrap x)) :=
  c19_fftW_run_aux ops ext wrap hwrap hstp x.length x rfl hpos x.length (Nat.le_refl _)
    sign wi wil dt np level n hn

end
end PV.Algo
