import PV.Proofs.UnifyAC
/-
  Soundness of the unifier model (C16): records, `unify_map`, the structural rules and
  `map_commut_assoc`.
-/
namespace PV.Unify
open PV
set_option linter.unusedSectionVars false

/-! ### association lists -/

theorem AMap.get_append_some {m n : AMap} {k : String} {v : Expr} (h : AMap.get m k = some v) :
    AMap.get (m ++ n) k = some v := by
  induction m with
  | nil => simp [AMap.get] at h
  | cons p m ih =>
    obtain ⟨k', v'⟩ := p
    simp only [AMap.get, List.cons_append] at h ⊢
    split
    · simp_all
    · rename_i hne; simp only [hne, if_false] at h; exact ih h

theorem AMap.get_append_none {m n : AMap} {k : String} (h : AMap.get m k = none) :
    AMap.get (m ++ n) k = AMap.get n k := by
  induction m with
  | nil => rfl
  | cons p m ih =>
    obtain ⟨k', v'⟩ := p
    simp only [AMap.get, List.cons_append] at h ⊢
    split
    · rename_i heq; simp [heq] at h
    · rename_i hne; simp only [hne, if_false] at h; exact ih h

theorem AMap.get_none_iff {m : AMap} {k : String} : AMap.get m k = none ↔ k ∉ m.keys := by
  induction m with
  | nil => simp [AMap.get, AMap.keys]
  | cons p m ih =>
    obtain ⟨k', v'⟩ := p
    simp only [AMap.get, AMap.keys, List.map_cons, List.mem_cons, not_or]
    split
    · rename_i heq; simp [heq]
    · rename_i hne
      simp only [AMap.keys] at ih
      rw [ih]
      exact ⟨fun h => ⟨fun h' => hne h'.symm, h⟩, fun h => h.2⟩

theorem AMap.get_some_mem_keys {m : AMap} {k : String} {v : Expr} (h : AMap.get m k = some v) :
    k ∈ m.keys := by
  refine Decidable.byContradiction fun hk => ?_
  rw [← AMap.get_none_iff] at hk
  simp [hk] at h

theorem AMap.get_of_mem_nodup {m : AMap} (hn : m.keys.Nodup) {k : String} {v : Expr}
    (h : (k, v) ∈ m) : AMap.get m k = some v := by
  induction m with
  | nil => simp at h
  | cons p m ih =>
    obtain ⟨k', v'⟩ := p
    simp only [AMap.keys, List.map_cons, List.nodup_cons] at hn
    simp only [List.mem_cons, Prod.mk.injEq] at h
    simp only [AMap.get]
    rcases h with ⟨rfl, rfl⟩ | h
    · simp
    · have : k' ≠ k := by
        rintro rfl
        exact hn.1 (List.mem_map.2 ⟨(k', v), h, rfl⟩)
      simp only [this, if_false]
      exact ih hn.2 h

/-! ### `unify_map` -/

theorem unifyMapGo_spec (m1 : AMap) : ∀ (m2 res out : AMap), unifyMapGo m1 res m2 = some out →
    ∃ added : AMap, out = res ++ added ∧ added.Sublist m2 ∧
      (∀ p ∈ added, AMap.get m1 p.1 = none) ∧
      (∀ p ∈ m2, (∃ v1, AMap.get m1 p.1 = some v1 ∧ v1.pyEq p.2 = true) ∨ p ∈ added)
  | [], res, out, h => by
    simp only [unifyMapGo, Option.some.injEq] at h
    exact ⟨[], by simp [h], .slnil, by simp, by simp⟩
  | (k, v) :: rest, res, out, h => by
    simp only [unifyMapGo] at h
    split at h
    · rename_i v1 hv1
      split at h
      · rename_i hpy
        obtain ⟨added, h1, h2, h3, h4⟩ := unifyMapGo_spec m1 rest res out h
        refine ⟨added, h1, h2.cons _, h3, ?_⟩
        intro p hp
        rcases List.mem_cons.1 hp with rfl | hp
        · exact Or.inl ⟨v1, hv1, hpy⟩
        · exact h4 p hp
      · simp at h
    · rename_i hnone
      obtain ⟨added, h1, h2, h3, h4⟩ := unifyMapGo_spec m1 rest (res ++ [(k, v)]) out h
      refine ⟨(k, v) :: added, by simp [h1], h2.cons_cons _, ?_, ?_⟩
      · intro p hp
        rcases List.mem_cons.1 hp with rfl | hp
        · exact hnone
        · exact h3 p hp
      · intro p hp
        rcases List.mem_cons.1 hp with rfl | hp
        · exact Or.inr (by simp)
        · rcases h4 p hp with h | h
          · exact Or.inl h
          · exact Or.inr (by simp [h])

theorem AMap.get_some_mem {m : AMap} {k : String} {v : Expr} (h : AMap.get m k = some v) :
    (k, v) ∈ m := by
  induction m with
  | nil => simp [AMap.get] at h
  | cons p m ih =>
    obtain ⟨k', v'⟩ := p
    simp only [AMap.get] at h
    split at h
    · rename_i heq; simp only [Option.some.injEq] at h; simp [heq, h]
    · exact List.mem_cons_of_mem _ (ih h)

/-! ### records -/

/-- a record binds only candidates, each at most once -/
def Good (cands : List String) (r : URec) : Prop :=
  (∀ k ∈ r.lmap.keys, k ∈ cands) ∧ r.lmap.keys.Nodup

/-- `r` keeps every binding of `u` -/
def ExtEq (u r : URec) : Prop := ∀ k v, u.lmap.get k = some v → r.lmap.get k = some v

/-- `r` binds every variable of `u`, to an AC-equal value -/
def Ext (u r : URec) : Prop :=
  ∀ k v, u.lmap.get k = some v → ∃ v', r.lmap.get k = some v' ∧ ACEq v v'

theorem ExtEq.toExt {u r : URec} (h : ExtEq u r) : Ext u r :=
  fun k v hk => ⟨v, h k v hk, .refl v⟩

theorem Ext.refl (u : URec) : Ext u u := fun _ v hk => ⟨v, hk, .refl v⟩

theorem Ext.trans {a b c : URec} (h1 : Ext a b) (h2 : Ext b c) : Ext a c := by
  intro k v hk
  obtain ⟨v', hv', e1⟩ := h1 k v hk
  obtain ⟨v'', hv'', e2⟩ := h2 k v' hv'
  exact ⟨v'', hv'', e1.trans e2⟩

theorem ExtEq.trans {a b c : URec} (h1 : ExtEq a b) (h2 : ExtEq b c) : ExtEq a c :=
  fun k v hk => h2 k v (h1 k v hk)

theorem good_empty (cands : List String) : Good cands URec.empty := by
  simp [Good, URec.empty, AMap.keys]

theorem ext_empty (r : URec) : Ext URec.empty r := by
  intro k v hk; simp [URec.empty, AMap.get] at hk

/-- `UnificationRecord.unify`: the merged record keeps the bindings of the receiver and has
AC-equal (in fact `==`-equal) values for those of the argument -/
theorem unify_spec {cands : List String} {a b r : URec} (ha : Good cands a) (hb : Good cands b)
    (h : a.unify b = some r) : Good cands r ∧ ExtEq a r ∧ Ext b r := by
  unfold URec.unify at h
  split at h
  · simp at h
  · rename_i l hl
    split at h
    · simp at h
    · rename_i r' _
      simp only [Option.some.injEq] at h
      subst h
      obtain ⟨added, h1, h2, h3, h4⟩ := unifyMapGo_spec a.lmap b.lmap a.lmap l hl
      have hkeys : added.keys.Sublist b.lmap.keys := h2.map _
      have hnd : added.keys.Nodup := hb.2.sublist hkeys
      refine ⟨⟨?_, ?_⟩, ?_, ?_⟩
      · intro k hk
        simp only [h1, AMap.keys, List.map_append, List.mem_append] at hk
        rcases hk with hk | hk
        · exact ha.1 k hk
        · exact hb.1 k (hkeys.subset hk)
      · simp only [h1, AMap.keys, List.map_append]
        refine List.nodup_append.2 ⟨ha.2, hnd, ?_⟩
        intro x hx y hy hxy
        subst hxy
        obtain ⟨p, hp, rfl⟩ := List.mem_map.1 hy
        have := h3 p hp
        rw [AMap.get_none_iff] at this
        exact this hx
      · intro k v hk
        simp only [h1]
        exact AMap.get_append_some hk
      · intro k v hk
        have hmem := AMap.get_some_mem hk
        rcases h4 (k, v) hmem with ⟨v1, hv1, hpy⟩ | hadd
        · exact ⟨v1, by simp only [h1]; exact AMap.get_append_some hv1, (ACEq.py hpy).symm⟩
        · refine ⟨v, ?_, .refl v⟩
          simp only [h1]
          rw [AMap.get_append_none (h3 (k, v) hadd)]
          exact AMap.get_of_mem_nodup hnd hadd

theorem mem_unifyMany {us : List URec} {n r : URec} :
    r ∈ unifyMany us n ↔ ∃ u ∈ us, u.unify n = some r := by
  simp [unifyMany, List.mem_filterMap]

theorem recFromEq_spec {cands : List String} {x : String} {rhs : Expr} {n : URec}
    (h : recFromEq cands x rhs = some n) : x ∈ cands ∧ n.lmap = [(x, rhs)] := by
  unfold recFromEq at h
  split at h <;> simp at h <;> (obtain ⟨h1, rfl⟩ := h; exact ⟨h1, rfl⟩)

theorem good_single {cands : List String} {x : String} {v : Expr} {n : URec} (hx : x ∈ cands)
    (hn : n.lmap = [(x, v)]) : Good cands n := by
  simp [Good, hn, AMap.keys, hx]

/-! ### instantiation under extension of the record -/

/-- every candidate variable of `p` is bound by `r` -/
def Covers (cands : List String) (r : URec) (p : Expr) : Prop :=
  ∀ x ∈ varsOf p, x ∈ cands → x ∈ r.lmap.keys

def CoversL (cands : List String) (r : URec) (ps : List Expr) : Prop :=
  ∀ x ∈ varsOfL ps, x ∈ cands → x ∈ r.lmap.keys

theorem instL_eq_map (m : AMap) : ∀ cs : List Expr, instL m cs = cs.map (inst m)
  | [] => rfl
  | c :: cs => by simp [instL, instL_eq_map m cs]

theorem mem_varsOfL {x : String} : ∀ {cs : List Expr}, x ∈ varsOfL cs ↔ ∃ c ∈ cs, x ∈ varsOf c
  | [] => by simp [varsOfL]
  | c :: cs => by simp [varsOfL, mem_varsOfL (cs := cs)]

section
variable {cands : List String} {u r : URec} (hu : ∀ k ∈ u.lmap.keys, k ∈ cands)
  (hr : ∀ k ∈ r.lmap.keys, k ∈ cands) (hext : Ext u r)
include hu hr hext

theorem inst_ext_var (x : String) (hc : x ∈ cands → x ∈ u.lmap.keys) :
    ACEq (inst u.lmap (.var x)) (inst r.lmap (.var x)) := by
  simp only [inst]
  cases hg : AMap.get u.lmap x with
  | some v =>
    obtain ⟨v', hv', e⟩ := hext x v hg
    simp only [hv']; exact e
  | none =>
    have hxu : x ∉ u.lmap.keys := AMap.get_none_iff.1 hg
    have hxc : x ∉ cands := fun h => hxu (hc h)
    have hxr : x ∉ r.lmap.keys := fun h => hxc (hr x h)
    rw [AMap.get_none_iff.2 hxr]
    exact .refl _

mutual
theorem inst_ext : ∀ p : Expr, Covers cands u p → ACEq (inst u.lmap p) (inst r.lmap p)
  | .var x, h => inst_ext_var hu hr hext x (fun hx => h x (by simp [varsOf]) hx)
  | .const _, _ => by simp only [inst]; exact .refl _
  | .nan, _ => by simp only [inst]; exact .refl _
  | .wildcard, _ => by simp only [inst]; exact .refl _
  | .dotWild _, _ => by simp only [inst]; exact .refl _
  | .starWild _, _ => by simp only [inst]; exact .refl _
  | .funcSym, _ => by simp only [inst]; exact .refl _
  | .nary o cs, h => by
      simp only [inst]; exact .nary o (instL_ext cs (fun x hx => h x (by simpa [varsOf] using hx)))
  | .bin o a b, h => by
      simp only [inst]
      exact .bin o (inst_ext a (fun x hx => h x (by simp [varsOf, hx])))
        (inst_ext b (fun x hx => h x (by simp [varsOf, hx])))
  | .un o a, h => by
      simp only [inst]; exact .un o (inst_ext a (fun x hx => h x (by simpa [varsOf] using hx)))
  | .cmp o a b, h => by
      simp only [inst]
      exact .cmp o (inst_ext a (fun x hx => h x (by simp [varsOf, hx])))
        (inst_ext b (fun x hx => h x (by simp [varsOf, hx])))
  | .ite c t e, h => by
      simp only [inst]
      exact .ite (inst_ext c (fun x hx => h x (by simp [varsOf, hx])))
        (inst_ext t (fun x hx => h x (by simp [varsOf, hx])))
        (inst_ext e (fun x hx => h x (by simp [varsOf, hx])))
  | .call f as, h => by
      simp only [inst]
      exact .call (inst_ext f (fun x hx => h x (by simp [varsOf, hx])))
        (instL_ext as (fun x hx => h x (by simp [varsOf, hx])))
  | .callKw f as ns vs, h => by
      simp only [inst]
      exact .callKw ns (inst_ext f (fun x hx => h x (by simp [varsOf, hx])))
        (instL_ext as (fun x hx => h x (by simp [varsOf, hx])))
        (instL_ext vs (fun x hx => h x (by simp [varsOf, hx])))
  | .subscript a i, h => by
      simp only [inst]
      exact .subscript (inst_ext a (fun x hx => h x (by simp [varsOf, hx])))
        (inst_ext i (fun x hx => h x (by simp [varsOf, hx])))
  | .lookup a n, h => by
      simp only [inst]; exact .lookup n (inst_ext a (fun x hx => h x (by simpa [varsOf] using hx)))
  | .cse a p s, h => by
      simp only [inst]; exact .cse p s (inst_ext a (fun x hx => h x (by simpa [varsOf] using hx)))
  | .subst a vs xs, h => by
      simp only [inst]
      exact .subst vs (inst_ext a (fun x hx => h x (by simp [varsOf, hx])))
        (instL_ext xs (fun x hx => h x (by simp [varsOf, hx])))
  | .deriv a vs, h => by
      simp only [inst]; exact .deriv vs (inst_ext a (fun x hx => h x (by simpa [varsOf] using hx)))
  | .slice cs, h => by
      simp only [inst]; exact .slice (instL_ext cs (fun x hx => h x (by simpa [varsOf] using hx)))
  | .tuple cs, h => by
      simp only [inst]; exact .tuple (instL_ext cs (fun x hx => h x (by simpa [varsOf] using hx)))
  | .list cs, h => by
      simp only [inst]; exact .list (instL_ext cs (fun x hx => h x (by simpa [varsOf] using hx)))
theorem instL_ext : ∀ ps : List Expr, CoversL cands u ps → ACEqL (instL u.lmap ps) (instL r.lmap ps)
  | [], _ => by simp only [instL]; exact .nil
  | p :: ps, h => by
      simp only [instL]
      exact .cons (inst_ext p (fun x hx => h x (by simp [varsOfL, hx])))
        (instL_ext ps (fun x hx => h x (by simp [varsOfL, hx])))
end
end

/-- the record `r` instantiates `p` to `t` (up to AC) and binds every candidate variable of `p` -/
def Sound (cands : List String) (r : URec) (p t : Expr) : Prop :=
  Covers cands r p ∧ ACEq (inst r.lmap p) t

def SoundL (cands : List String) (r : URec) (ps ts : List Expr) : Prop :=
  CoversL cands r ps ∧ ACEqL (instL r.lmap ps) ts

theorem ext_keys {u r : URec} (h : Ext u r) {k : String} (hk : k ∈ u.lmap.keys) :
    k ∈ r.lmap.keys := by
  cases hg : AMap.get u.lmap k with
  | none => exact absurd hk (AMap.get_none_iff.1 hg)
  | some v =>
    obtain ⟨v', hv', _⟩ := h k v hg
    exact AMap.get_some_mem_keys hv'

theorem Sound.ext {cands : List String} {u r : URec} {p t : Expr} (hu : Good cands u)
    (hr : Good cands r) (hext : Ext u r) (h : Sound cands u p t) : Sound cands r p t :=
  ⟨fun x hx hc => ext_keys hext (h.1 x hx hc),
    (inst_ext hu.1 hr.1 hext p h.1).symm.trans h.2⟩

theorem ACEqL.symm' : ∀ {as bs : List Expr}, ACEqL as bs → ACEqL bs as
  | _, _, .nil => .nil
  | _, _, .cons h t => .cons h.symm (ACEqL.symm' t)

theorem ACEqL.trans' : ∀ {as bs cs : List Expr}, ACEqL as bs → ACEqL bs cs → ACEqL as cs
  | _, _, _, .nil, .nil => .nil
  | _, _, _, .cons h t, .cons h' t' => .cons (h.trans h') (ACEqL.trans' t t')

theorem SoundL.ext {cands : List String} {u r : URec} {ps ts : List Expr} (hu : Good cands u)
    (hr : Good cands r) (hext : Ext u r) (h : SoundL cands u ps ts) : SoundL cands r ps ts :=
  ⟨fun x hx hc => ext_keys hext (h.1 x hx hc),
    (instL_ext hu.1 hr.1 hext ps h.1).symm'.trans' h.2⟩

/-! ### `subsets` and `partitions` -/

theorem combinations_spec : ∀ (s : List Nat) (k : Nat) (c : List Nat), c ∈ combinations s k →
    c.Sublist s ∧ c.length = k
  | s, 0, c, h => by
    cases s <;> simp only [combinations, List.mem_singleton] at h <;> subst h <;> simp
  | [], k + 1, c, h => by simp [combinations] at h
  | x :: xs, k + 1, c, h => by
    simp only [combinations, List.mem_append, List.mem_map] at h
    rcases h with ⟨c', hc', rfl⟩ | h
    · have := combinations_spec xs k c' hc'
      exact ⟨this.1.cons_cons x, by simp [this.2]⟩
    · have := combinations_spec xs (k + 1) c h
      exact ⟨this.1.cons x, this.2⟩

theorem subsetsUpTo_spec {s : List Nat} {m : Nat} {c : List Nat} (h : c ∈ subsetsUpTo s m) :
    c.Sublist s ∧ 1 ≤ c.length ∧ c.length ≤ m := by
  simp only [subsetsUpTo, List.mem_flatMap, List.mem_range] at h
  obtain ⟨i, hi, hc⟩ := h
  have := combinations_spec s (i + 1) c hc
  exact ⟨this.1, by omega, by omega⟩

/-- a sublist of a duplicate-free list and its complement -/
theorem sublist_filter_perm : ∀ {c s : List Nat}, c.Sublist s → s.Nodup →
    (c ++ s.filter (fun i => !c.contains i)).Perm s
  | _, _, .slnil, _ => by simp
  | c, _, @List.Sublist.cons _ _ s a h, hn => by
    have hn' := List.nodup_cons.1 hn
    have ha : a ∉ c := fun hc => hn'.1 (h.subset hc)
    have hca : c.contains a = false := by simpa using ha
    simp only [List.filter_cons, hca, Bool.not_false, if_true]
    exact List.perm_middle.trans ((sublist_filter_perm h hn'.2).cons a)
  | _, _, @List.Sublist.cons_cons _ c s a h, hn => by
    have hn' := List.nodup_cons.1 hn
    have hf : ∀ i ∈ s, (!(a :: c).contains i) = (!c.contains i) := by
      intro i hi
      have : i ≠ a := fun e => hn'.1 (e ▸ hi)
      simp [this]
    have hfa : (!(a :: c).contains a) = false := by simp
    rw [List.filter_cons, hfa, List.filter_congr hf]
    exact (sublist_filter_perm h hn'.2).cons a

theorem partitions_spec : ∀ (k : Nat) (s : List Nat), s.Nodup → ∀ parts ∈ partitions k s,
    parts.length = k ∧ parts.flatten.Perm s ∧ ((k = 1 → s ≠ []) → ∀ part ∈ parts, part ≠ [])
  | 0, _, _, parts, h => by simp [partitions] at h
  | 1, s, _, parts, h => by
    simp only [partitions, List.mem_singleton] at h
    subst h
    refine ⟨rfl, by simp, fun hne part hp => ?_⟩
    simp only [List.mem_singleton] at hp
    subst hp
    exact hne rfl
  | k + 2, s, hn, parts, h => by
    simp only [partitions, List.mem_flatMap, List.mem_map] at h
    obtain ⟨sub, hsub, rest, hrest, rfl⟩ := h
    obtain ⟨hsl, hlen1, hlen2⟩ := subsetsUpTo_spec hsub
    have hperm := sublist_filter_perm hsl hn
    have hnr : (s.filter (fun i => !sub.contains i)).Nodup := hn.filter _
    obtain ⟨h1, h2, h3⟩ := partitions_spec (k + 1) _ hnr rest hrest
    have hlen : sub.length + (s.filter (fun i => !sub.contains i)).length = s.length := by
      have := hperm.length_eq; simpa using this
    refine ⟨by simp [h1], ?_, fun _ part hp => ?_⟩
    · simp only [List.flatten_cons]
      exact (List.Perm.append_left sub h2).trans hperm
    · rcases List.mem_cons.1 hp with rfl | hp
      · intro h0; simp [h0] at hlen1
      · refine h3 (fun _ h0 => ?_) part hp
        rw [h0] at hlen; simp at hlen; omega

/-! ### `match_plain_var_candidates` -/

theorem bindParts_spec {cands : List String} {o : NaryOp} {ds : List Expr} :
    ∀ (zs : List (List Nat × String)) (urec r : URec), Good cands urec →
    bindParts cands o ds urec zs = some r →
    Good cands r ∧ ExtEq urec r ∧
      ∀ z ∈ zs, ∃ v, AMap.get r.lmap z.2 = some v ∧
        ACEq v (factory o (z.1.map (fun i => ds.getD i zero)))
  | [], urec, r, hg, h => by
    simp only [bindParts, Option.some.injEq] at h
    subst h
    exact ⟨hg, fun _ _ h => h, by simp⟩
  | (subset, x) :: rest, urec, r, hg, h => by
    simp only [bindParts] at h
    split at h
    · simp at h
    · rename_i n hn
      split at h
      · simp at h
      · rename_i u hu
        obtain ⟨hx, hnl⟩ := recFromEq_spec hn
        obtain ⟨hgu, he1, he2⟩ := unify_spec hg (good_single hx hnl) hu
        obtain ⟨hgr, he3, hrest⟩ := bindParts_spec rest u r hgu h
        refine ⟨hgr, he1.trans he3, ?_⟩
        intro z hz
        rcases List.mem_cons.1 hz with rfl | hz
        · have hget : AMap.get n.lmap x
              = some (factory o (subset.map (fun i => ds.getD i zero))) := by
            rw [hnl]; simp only [AMap.get, if_true]
          obtain ⟨v', hv', e⟩ := he2 x _ hget
          exact ⟨v', he3 x v' hv', e.symm⟩
        · exact hrest z hz

theorem ACEqL_of_zip {α β : Type} (f : α → Expr) (g : β → Expr) : ∀ (as : List α) (bs : List β),
    as.length = bs.length → (∀ z ∈ as.zip bs, ACEq (f z.1) (g z.2)) →
    ACEqL (as.map f) (bs.map g)
  | [], [], _, _ => .nil
  | a :: as, b :: bs, hl, h => by
    simp only [List.length_cons, Nat.add_right_cancel_iff] at hl
    exact .cons (h (a, b) (by simp)) (ACEqL_of_zip f g as bs hl (fun z hz => h z (by simp [hz])))
  | [], _ :: _, hl, _ => by simp at hl
  | _ :: _, [], hl, _ => by simp at hl

/-- what a successful run of `match_plain_var_candidates` provides: the leftovers are split into
one share per plain variable, and the variable is bound to (something AC-equal to) the sum /
product of its share -/
def PlainOk (o : NaryOp) (ds : List Expr) (plain : List String) (left : List Nat) (r : URec) : Prop :=
  ∃ parts : List (List Nat), parts.length = plain.length ∧ parts.flatten.Perm left ∧
    ∀ z ∈ parts.zip plain, ∃ v, AMap.get r.lmap z.2 = some v ∧
      ACEq v (.nary o (z.1.map (fun i => ds.getD i zero)))

theorem getD_mem {ds : List Expr} {i : Nat} (h : i < ds.length) : ds.getD i zero ∈ ds := by
  simp [List.getD_eq_getElem?_getD, List.getElem?_eq_getElem h]

theorem matchPlain_spec {cands : List String} {o : NaryOp} (hac : isAC o) {plain : List String}
    {hasNonvar : Bool} {ds : List Expr} {urecs : List URec} {urec : URec} {left : List Nat}
    (hds : CleanQ o ds) (hleft : ∀ i ∈ left, i < ds.length) (hnd : left.Nodup)
    (hurecs : ∀ u ∈ urecs, Good cands u) (hg : Good cands urec)
    (hlt : plain.length = 1 → left ≠ [])
    (hnv : hasNonvar = true → ∃ u0 ∈ urecs, Ext u0 urec)
    (hnv' : hasNonvar = false → urec = URec.empty ∧ plain ≠ []) :
    ∀ r ∈ matchPlain cands o plain hasNonvar ds urecs urec left,
      Good cands r ∧ (∃ u0 ∈ urecs, Ext u0 r) ∧ Ext urec r ∧ PlainOk o ds plain left r := by
  intro r hr
  unfold matchPlain at hr
  split at hr
  · rename_i hemp
    simp only [Bool.and_eq_true, List.isEmpty_iff] at hemp
    simp only [List.mem_singleton] at hr
    subst hr
    have hnvt : hasNonvar = true := by
      cases hh : hasNonvar with
      | true => rfl
      | false => exact absurd hemp.1 (hnv' hh).2
    exact ⟨hg, hnv hnvt, Ext.refl _, [], by simp [hemp.1], by simp [hemp.2], by simp⟩
  · -- one consistent partition `part`, giving `res`
    have key : ∀ part ∈ partitions plain.length left, ∀ res,
        bindParts cands o ds urec (part.zip plain) = some res →
        Good cands res ∧ ExtEq urec res ∧ PlainOk o ds plain left res := by
      intro part hpart res hres
      obtain ⟨hp1, hp2, hp3⟩ := partitions_spec plain.length left hnd part hpart
      obtain ⟨hgr, he, hz⟩ := bindParts_spec _ urec res hg hres
      refine ⟨hgr, he, part, hp1, hp2, ?_⟩
      intro z hzm
      obtain ⟨v, hv, e⟩ := hz z hzm
      refine ⟨v, hv, e.trans (factory_ac hac _ ?_ ?_)⟩
      · have hz1 : z.1 ∈ part := (List.of_mem_zip hzm).1
        have := hp3 hlt z.1 hz1
        simpa using this
      · intro e' he'
        obtain ⟨i, hi, rfl⟩ := List.mem_map.1 he'
        have hz1 : z.1 ∈ part := (List.of_mem_zip hzm).1
        have hil : i ∈ left := hp2.subset (List.mem_flatten.2 ⟨z.1, hz1, hi⟩)
        exact hds _ (getD_mem (hleft i hil))
    simp only at hr
    split at hr
    · rename_i hnvt
      have hmem := List.mem_of_mem_head? (Option.mem_toList.1 hr)
      obtain ⟨part, hpart, hres⟩ := List.mem_filterMap.1 hmem
      obtain ⟨h1, h2, h3⟩ := key part hpart r hres
      obtain ⟨u0, hu0, e0⟩ := hnv hnvt
      exact ⟨h1, ⟨u0, hu0, e0.trans h2.toExt⟩, h2.toExt, h3⟩
    · rename_i hnvf
      simp only [Bool.not_eq_true] at hnvf
      obtain ⟨res, hresm, hrm⟩ := List.mem_flatMap.1 hr
      obtain ⟨part, hpart, hres⟩ := List.mem_filterMap.1 hresm
      obtain ⟨h1, _, parts, hp1, hp2, hp3⟩ := key part hpart res hres
      obtain ⟨u, hu, hur⟩ := mem_unifyMany.1 hrm
      obtain ⟨hgr, he1, he2⟩ := unify_spec (hurecs u hu) h1 hur
      refine ⟨hgr, ⟨u, hu, he1.toExt⟩, ?_, parts, hp1, hp2, ?_⟩
      · rw [(hnv' hnvf).1]; exact ext_empty r
      · intro z hz
        obtain ⟨v, hv, e⟩ := hp3 z hz
        obtain ⟨v', hv', e'⟩ := he2 _ v hv
        exact ⟨v', hv', e'.symm.trans e⟩

/-! ### `match_children` -/

abbrev Row := List (Nat × List URec)

/-- what a row of `unification_candidates` promises about the non-plain pattern operand `c` -/
def RowOk (cands : List String) (ds : List Expr) (urecs : List URec) (c : Expr) (row : Row) : Prop :=
  ∀ p ∈ row, p.1 < ds.length ∧ ∀ pr ∈ p.2,
    Good cands pr ∧ (∃ u0 ∈ urecs, Ext u0 pr) ∧ Sound cands pr c (ds.getD p.1 zero)

def RowsOk (cands : List String) (ds : List Expr) (urecs : List URec) : List Expr → List Row → Prop
  | [], [] => True
  | c :: cs, row :: t => RowOk cands ds urecs c row ∧ RowsOk cands ds urecs cs t
  | _, _ => False

/-- what a record produced by `map_commut_assoc` provides: the non-plain operands `ncs` are matched
to distinct target operands `js`, the rest of the target operands is split among the plain
variables -/
def ChildrenOk (cands : List String) (o : NaryOp) (ds : List Expr) (plain : List String)
    (ncs : List Expr) (r : URec) : Prop :=
  ∃ (js : List Nat) (parts : List (List Nat)), js.length = ncs.length ∧
    (∀ z ∈ ncs.zip js, Sound cands r z.1 (ds.getD z.2 zero)) ∧
    parts.length = plain.length ∧ (js ++ parts.flatten).Perm (List.range ds.length) ∧
    ∀ z ∈ parts.zip plain, ∃ v, AMap.get r.lmap z.2 = some v ∧
      ACEq v (.nary o (z.1.map (fun i => ds.getD i zero)))

theorem matchChildren_spec {cands : List String} {o : NaryOp} (hac : isAC o) {plain : List String}
    {hasNonvar : Bool} {ds : List Expr} {urecs : List URec}
    (hds : CleanQ o ds) (hurecs : ∀ u ∈ urecs, Good cands u) :
    ∀ (ncs : List Expr) (table : List Row), RowsOk cands ds urecs ncs table →
    ∀ (dcs : List Expr) (djs : List Nat) (urec : URec) (left : List Nat),
    dcs.length = djs.length → Good cands urec →
    (∀ z ∈ dcs.zip djs, Sound cands urec z.1 (ds.getD z.2 zero)) →
    (djs ++ left).Perm (List.range ds.length) →
    (dcs ≠ [] → ∃ u0 ∈ urecs, Ext u0 urec) →
    (dcs = [] → urec = URec.empty) →
    (hasNonvar = true ↔ dcs.length + ncs.length ≠ 0) →
    (plain.length = 1 → ds.length ≠ dcs.length + ncs.length) →
    (dcs.length + ncs.length = 0 → plain ≠ []) →
    ∀ r ∈ matchChildren cands o plain hasNonvar ds urecs table urec left,
      Good cands r ∧ (∃ u0 ∈ urecs, Ext u0 r) ∧ ChildrenOk cands o ds plain (dcs ++ ncs) r
  | [], [], _, dcs, djs, urec, left, hlen, hg, hsound, hperm, hne, hemp, hnv, har, hpl, r, hr => by
    simp only [matchChildren] at hr
    simp only [List.length_nil, Nat.add_zero] at hnv har hpl
    have hnodup : (djs ++ left).Nodup := hperm.nodup_iff.2 List.nodup_range
    have hlenp : djs.length + left.length = ds.length := by
      have := hperm.length_eq; simpa using this
    have hspec := matchPlain_spec (cands := cands) (plain := plain) (hasNonvar := hasNonvar)
      (urecs := urecs) (urec := urec) (left := left) hac hds
      (fun i hi => List.mem_range.1 (hperm.subset (List.mem_append_right _ hi)))
      (List.nodup_append.1 hnodup).2.1 hurecs hg
      (fun h1 h0 => by have := har h1; simp [h0] at hlenp; omega)
      (fun ht => hne (by
        have := hnv.1 ht
        intro h0; simp [h0] at this))
      (fun hf => by
        have h0 : dcs.length = 0 := by
          cases hd : dcs.length with
          | zero => rfl
          | succ n => have := hnv.2 (by omega); simp [hf] at this
        have hd : dcs = [] := List.length_eq_zero_iff.1 h0
        exact ⟨hemp hd, hpl h0⟩) r hr
    obtain ⟨hgr, hu0, hext, parts, hp1, hp2, hp3⟩ := hspec
    refine ⟨hgr, hu0, djs, parts, by simp [hlen], ?_, hp1, ?_, hp3⟩
    · intro z hz
      simp only [List.append_nil] at hz
      exact (hsound z hz).ext hg hgr hext
    · exact (List.Perm.append_left djs hp2).trans hperm
  | c :: ncs, row :: table, hrows, dcs, djs, urec, left, hlen, hg, hsound, hperm, hne, hemp, hnv,
      har, hpl, r, hr => by
    obtain ⟨hrow, hrows'⟩ := hrows
    simp only [matchChildren, List.mem_flatMap] at hr
    obtain ⟨⟨j, prs⟩, hjrow, hr⟩ := hr
    simp only at hr
    split at hr
    · rename_i hjleft
      obtain ⟨cu, hcu, hr⟩ := List.mem_flatMap.1 hr
      obtain ⟨pr, hpr, hunify⟩ := List.mem_filterMap.1 hcu
      obtain ⟨hjlt, hprs⟩ := hrow (j, prs) hjrow
      obtain ⟨hgpr, ⟨u0, hu0, he0⟩, hspr⟩ := hprs pr hpr
      obtain ⟨hgcu, he1, he2⟩ := unify_spec hgpr hg hunify
      have hnodup : (djs ++ left).Nodup := hperm.nodup_iff.2 List.nodup_range
      have hleftnd : left.Nodup := (List.nodup_append.1 hnodup).2.1
      have hjmem : j ∈ left := by simpa using hjleft
      have hfilter : left.filter (· != j) = left.erase j := (hleftnd.erase_eq_filter j).symm
      have ih := matchChildren_spec hac hds hurecs ncs table hrows' (dcs ++ [c]) (djs ++ [j]) cu
        (left.filter (· != j)) (by simp [hlen]) hgcu ?_ ?_ ?_ ?_ ?_ ?_ ?_ r hr
      · obtain ⟨h1, h2, h3⟩ := ih
        refine ⟨h1, h2, ?_⟩
        simpa using h3
      · intro z hz
        rw [List.zip_append hlen] at hz
        rcases List.mem_append.1 hz with hz | hz
        · exact (hsound z hz).ext hg hgcu he2
        · simp only [List.zip_cons_cons, List.zip_nil_right, List.mem_singleton] at hz
          subst hz
          exact hspr.ext hgpr hgcu he1.toExt
      · rw [hfilter, List.append_assoc]
        exact (List.Perm.append_left djs (List.perm_cons_erase hjmem).symm).trans hperm
      · intro _
        exact ⟨u0, hu0, he0.trans he1.toExt⟩
      · intro h0; simp at h0
      · rw [hnv]; simp only [List.length_append, List.length_cons, List.length_nil]; omega
      · intro h1; have := har h1
        simp only [List.length_append, List.length_cons, List.length_nil] at this ⊢; omega
      · intro h0; simp only [List.length_append, List.length_cons, List.length_nil] at h0; omega
    · simp at hr
  | [], _ :: _, hrows, _, _, _, _, _, _, _, _, _, _, _, _, _, _, _ => by simp [RowsOk] at hrows
  | _ :: _, [], hrows, _, _, _, _, _, _, _, _, _, _, _, _, _, _, _ => by simp [RowsOk] at hrows

/-! ### assembling the sum / product -/

/-- the non-plain operands of a sum / product pattern, in order -/
def nonvarOf (cands : List String) (cs : List Expr) : List Expr :=
  cs.filter (fun c => !isPlain cands c)

theorem split_perm (cands : List String) : ∀ cs : List Expr,
    cs.Perm (nonvarOf cands cs ++ (plainNames cands cs).map Expr.var)
  | [] => by simp [nonvarOf, plainNames]
  | c :: cs => by
    have ih := split_perm cands cs
    by_cases hp : isPlain cands c = true
    · obtain ⟨x, rfl, hx⟩ : ∃ x, c = .var x ∧ cands.contains x = true := by
        cases c <;> simp_all [isPlain]
      simp only [nonvarOf, List.filter_cons, hp, Bool.not_true, Bool.false_eq_true, if_false,
        plainNames, hx, if_true, List.map_cons]
      exact (ih.cons _).trans List.perm_middle.symm
    · have hpn : plainNames cands (c :: cs) = plainNames cands cs := by
        cases c <;> simp_all [isPlain, plainNames]
      simp only [nonvarOf, List.filter_cons, hp, Bool.not_false, if_true, hpn, List.cons_append]
      simpa [nonvarOf] using ih.cons c

theorem split_length (cands : List String) (cs : List Expr) :
    (nonvarOf cands cs).length + (plainNames cands cs).length = cs.length := by
  have := (split_perm cands cs).length_eq
  simp at this; omega

theorem exists_zip_left {α β : Type} : ∀ {as : List α} {bs : List β} {a : α},
    as.length = bs.length → a ∈ as → ∃ b, (a, b) ∈ as.zip bs
  | [], _, _, _, h => by simp at h
  | _ :: _, [], _, hl, _ => by simp at hl
  | x :: as, y :: bs, a, hl, h => by
    simp only [List.length_cons, Nat.add_right_cancel_iff] at hl
    rcases List.mem_cons.1 h with rfl | h
    · exact ⟨y, by simp⟩
    · obtain ⟨b, hb⟩ := exists_zip_left hl h
      exact ⟨b, by simp [hb]⟩

theorem exists_zip_right {α β : Type} : ∀ {as : List α} {bs : List β} {b : β},
    as.length = bs.length → b ∈ bs → ∃ a, (a, b) ∈ as.zip bs
  | _, [], _, _, h => by simp at h
  | [], _ :: _, _, hl, _ => by simp at hl
  | x :: as, y :: bs, b, hl, h => by
    simp only [List.length_cons, Nat.add_right_cancel_iff] at hl
    rcases List.mem_cons.1 h with rfl | h
    · exact ⟨x, by simp⟩
    · obtain ⟨a, ha⟩ := exists_zip_right hl h
      exact ⟨a, by simp [ha]⟩

theorem range_map_getD (ds : List Expr) :
    (List.range ds.length).map (fun i => ds.getD i zero) = ds := by
  apply List.ext_getElem
  · simp
  · intro i h1 h2
    simp [List.getD_eq_getElem?_getD, List.getElem?_eq_getElem h2]

/-- the record instantiates the whole sum / product pattern to the target -/
theorem commut_final {cands : List String} {o : NaryOp} (hac : isAC o) {cs ds : List Expr}
    {r : URec} (h : ChildrenOk cands o ds (plainNames cands cs) (nonvarOf cands cs) r) :
    Sound cands r (.nary o cs) (.nary o ds) := by
  obtain ⟨js, parts, hjl, hjs, hpl, hperm, hparts⟩ := h
  have hsplit := split_perm cands cs
  constructor
  · intro x hx hxc
    simp only [varsOf] at hx
    obtain ⟨c, hc, hxv⟩ := mem_varsOfL.1 hx
    rcases List.mem_append.1 (hsplit.subset hc) with hc | hc
    · obtain ⟨j, hj⟩ := exists_zip_left hjl.symm hc
      exact (hjs _ hj).1 x hxv hxc
    · obtain ⟨y, hy, rfl⟩ := List.mem_map.1 hc
      simp only [varsOf, List.mem_singleton] at hxv
      subst hxv
      obtain ⟨part, hpart⟩ := exists_zip_right hpl hy
      obtain ⟨v, hv, _⟩ := hparts _ hpart
      exact AMap.get_some_mem_keys hv
  · simp only [inst, instL_eq_map]
    -- reorder the pattern operands: non-plain ones first
    have h1 : ACEq (.nary o (cs.map (inst r.lmap)))
        (.nary o ((nonvarOf cands cs).map (inst r.lmap)
          ++ (plainNames cands cs).map (fun x => inst r.lmap (.var x)))) := by
      refine ACEq.perm hac ?_
      have := hsplit.map (inst r.lmap)
      simpa [List.map_append, List.map_map, Function.comp_def] using this
    -- each operand against what it was matched with
    have h2a : ACEqL ((nonvarOf cands cs).map (inst r.lmap))
        (js.map (fun j => ds.getD j zero)) :=
      ACEqL_of_zip _ _ _ _ hjl.symm (fun z hz => (hjs z hz).2)
    have h2b : ACEqL ((plainNames cands cs).map (fun x => inst r.lmap (.var x)))
        (parts.map (fun part => Expr.nary o (part.map (fun i => ds.getD i zero)))) := by
      refine ACEqL.symm' (ACEqL_of_zip _ _ _ _ hpl (fun z hz => ?_))
      obtain ⟨v, hv, e⟩ := hparts z hz
      simp only [inst, hv]
      exact e.symm
    have h2 := ACEq.nary o (h2a.append h2b)
    -- merge the shares into the parent
    have h3 := ACEq.flatMany hac (parts.map (fun part => part.map (fun i => ds.getD i zero)))
      (js.map (fun j => ds.getD j zero))
    simp only [List.map_map, Function.comp_def] at h3
    -- and reorder the target operands
    have h4 : ACEq (.nary o (js.map (fun j => ds.getD j zero)
        ++ (parts.map (fun part => part.map (fun i => ds.getD i zero))).flatten)) (.nary o ds) := by
      refine ACEq.perm hac ?_
      have := hperm.map (fun i => ds.getD i zero)
      rw [range_map_getD] at this
      simpa [List.map_append, List.map_flatten] using this
    exact h1.trans (h2.trans (h3.trans h4))

/-! ### the structural rules -/

/-- target facts carried through the recursion: its n-ary arities are among `ar`, it is guarded -/
structure TOk (ar : List (NaryOp × Nat)) (t : Expr) : Prop where
  sub : arities t ⊆ ar
  g : tgtGuard t = true

theorem aritiesL_mem {t : Expr} : ∀ {ts : List Expr}, t ∈ ts → arities t ⊆ aritiesL ts
  | [], h => by simp at h
  | d :: ds, h => by
    simp only [aritiesL]
    rcases List.mem_cons.1 h with rfl | h
    · exact List.subset_append_left _ _
    · exact (aritiesL_mem h).trans (List.subset_append_right _ _)

theorem TOk.ofL {ar : List (NaryOp × Nat)} {ts : List Expr} (hs : aritiesL ts ⊆ ar)
    (hg : tgtGuardL ts = true) : ∀ t ∈ ts, TOk ar t :=
  fun t ht => ⟨(aritiesL_mem ht).trans hs, tgtGuardL_mem hg t ht⟩

theorem unpackIndex_of_not_tuple1 {i : Expr} (h : isTuple1 i = false) : unpackIndex i = i := by
  unfold unpackIndex
  split
  · simp [isTuple1] at h
  · rfl

theorem mapVariable_sound {cands : List String} {x : String} {other : Expr} {urecs : List URec}
    (hurecs : ∀ u ∈ urecs, Good cands u) :
    ∀ r ∈ mapVariable cands x other urecs,
      Good cands r ∧ ∃ u ∈ urecs, Ext u r ∧ Sound cands r (.var x) other := by
  intro r hr
  unfold mapVariable at hr
  split at hr
  · rename_i n hn
    obtain ⟨hx, hnl⟩ := recFromEq_spec hn
    obtain ⟨u, hu, hur⟩ := mem_unifyMany.1 hr
    obtain ⟨hg, he1, he2⟩ := unify_spec (hurecs u hu) (good_single hx hnl) hur
    have hget : AMap.get n.lmap x = some other := by rw [hnl]; simp only [AMap.get, if_true]
    obtain ⟨v', hv', e⟩ := he2 x other hget
    refine ⟨hg, u, hu, he1.toExt, ?_, ?_⟩
    · intro y hy _
      simp only [varsOf, List.mem_singleton] at hy
      subst hy
      exact AMap.get_some_mem_keys hv'
    · simp only [inst, hv']; exact e.symm
  · split at hr
    · rename_i y _
      split at hr
      · rename_i hc
        simp only [Bool.and_eq_true, decide_eq_true_eq, Bool.not_eq_true'] at hc
        obtain ⟨rfl, hxc⟩ := hc
        have hxc' : y ∉ cands := by simpa using hxc
        have hg := hurecs r hr
        refine ⟨hg, r, hr, Ext.refl r, ?_, ?_⟩
        · intro z hz hzc
          simp only [varsOf, List.mem_singleton] at hz
          subst hz
          exact absurd hzc hxc'
        · have : AMap.get r.lmap y = none :=
            AMap.get_none_iff.2 (fun hk => hxc' (hg.1 y hk))
          simp only [inst, this]; exact .refl _
      · simp at hr
    · simp at hr

/-- sequencing two rules: records of the outer call extend records of the inner call -/
theorem chain {cands : List String} {urecs mid : List URec} {r : URec}
    {P Q : URec → Prop} (hQ : ∀ m r', Good cands m → Good cands r' → Ext m r' → Q m → Q r')
    (hmid : ∀ m ∈ mid, Good cands m ∧ ∃ u ∈ urecs, Ext u m ∧ Q m)
    (hr : Good cands r ∧ ∃ m ∈ mid, Ext m r ∧ P r) :
    Good cands r ∧ ∃ u ∈ urecs, Ext u r ∧ P r ∧ Q r := by
  obtain ⟨hg, m, hm, hemr, hs⟩ := hr
  obtain ⟨hgm, u, hu, heum, hq⟩ := hmid m hm
  exact ⟨hg, u, hu, heum.trans hemr, hs, hQ m r hgm hg hemr hq⟩

theorem soundQ {cands : List String} {p t : Expr} :
    ∀ m r', Good cands m → Good cands r' → Ext m r' → Sound cands m p t → Sound cands r' p t :=
  fun _ _ hm hr he hq => hq.ext hm hr he

theorem soundLQ {cands : List String} {ps ts : List Expr} :
    ∀ m r', Good cands m → Good cands r' → Ext m r' → SoundL cands m ps ts → SoundL cands r' ps ts :=
  fun _ _ hm hr he hq => hq.ext hm hr he

/-! congruence of `Sound` -/
section
variable {cands : List String} {r : URec}

theorem Sound.bin {o : BinOp} {a a' b b' : Expr} (ha : Sound cands r a a') (hb : Sound cands r b b') :
    Sound cands r (.bin o a b) (.bin o a' b') :=
  ⟨fun x hx hc => by
      simp only [varsOf, List.mem_append] at hx
      rcases hx with hx | hx
      · exact ha.1 x hx hc
      · exact hb.1 x hx hc,
    by simp only [inst]; exact .bin o ha.2 hb.2⟩

theorem Sound.cmp {o : CmpOp} {a a' b b' : Expr} (ha : Sound cands r a a') (hb : Sound cands r b b') :
    Sound cands r (.cmp o a b) (.cmp o a' b') :=
  ⟨fun x hx hc => by
      simp only [varsOf, List.mem_append] at hx
      rcases hx with hx | hx
      · exact ha.1 x hx hc
      · exact hb.1 x hx hc,
    by simp only [inst]; exact .cmp o ha.2 hb.2⟩

theorem Sound.subscript {a a' i i' : Expr} (ha : Sound cands r a a') (hi : Sound cands r i i') :
    Sound cands r (.subscript a i) (.subscript a' i') :=
  ⟨fun x hx hc => by
      simp only [varsOf, List.mem_append] at hx
      rcases hx with hx | hx
      · exact ha.1 x hx hc
      · exact hi.1 x hx hc,
    by simp only [inst]; exact .subscript ha.2 hi.2⟩

theorem Sound.un {o : UnOp} {a a' : Expr} (ha : Sound cands r a a') :
    Sound cands r (.un o a) (.un o a') :=
  ⟨fun x hx hc => ha.1 x (by simpa [varsOf] using hx) hc, by simp only [inst]; exact .un o ha.2⟩

theorem Sound.lookup {n : String} {a a' : Expr} (ha : Sound cands r a a') :
    Sound cands r (.lookup a n) (.lookup a' n) :=
  ⟨fun x hx hc => ha.1 x (by simpa [varsOf] using hx) hc, by simp only [inst]; exact .lookup n ha.2⟩

theorem Sound.ite {c c' t t' e e' : Expr} (hc : Sound cands r c c') (ht : Sound cands r t t')
    (he : Sound cands r e e') : Sound cands r (.ite c t e) (.ite c' t' e') :=
  ⟨fun x hx hxc => by
      simp only [varsOf, List.mem_append] at hx
      rcases hx with (hx | hx) | hx
      · exact hc.1 x hx hxc
      · exact ht.1 x hx hxc
      · exact he.1 x hx hxc,
    by simp only [inst]; exact .ite hc.2 ht.2 he.2⟩

theorem Sound.call {f f' : Expr} {as as' : List Expr} (hf : Sound cands r f f')
    (ha : SoundL cands r as as') : Sound cands r (.call f as) (.call f' as') :=
  ⟨fun x hx hc => by
      simp only [varsOf, List.mem_append] at hx
      rcases hx with hx | hx
      · exact hf.1 x hx hc
      · exact ha.1 x hx hc,
    by simp only [inst]; exact .call hf.2 ha.2⟩

theorem Sound.tuple {cs ds : List Expr} (h : SoundL cands r cs ds) :
    Sound cands r (.tuple cs) (.tuple ds) :=
  ⟨fun x hx hc => h.1 x (by simpa [varsOf] using hx) hc, by simp only [inst]; exact .tuple h.2⟩

theorem SoundL.cons {c d : Expr} {cs ds : List Expr} (hc : Sound cands r c d)
    (hcs : SoundL cands r cs ds) : SoundL cands r (c :: cs) (d :: ds) :=
  ⟨fun x hx hxc => by
      simp only [varsOfL, List.mem_append] at hx
      rcases hx with hx | hx
      · exact hc.1 x hx hxc
      · exact hcs.1 x hx hxc,
    by simp only [instL]; exact .cons hc.2 hcs.2⟩
end

/-! target facts, constructor by constructor -/
section
variable {ar : List (NaryOp × Nat)}

theorem TOk.bin {o : BinOp} {a b : Expr} (h : TOk ar (.bin o a b)) : TOk ar a ∧ TOk ar b := by
  have hg := h.g; have hs := h.sub
  simp only [tgtGuard, Bool.and_eq_true] at hg
  simp only [arities] at hs
  exact ⟨⟨fun x hx => hs (List.mem_append_left _ hx), hg.1⟩,
    ⟨fun x hx => hs (List.mem_append_right _ hx), hg.2⟩⟩

theorem TOk.cmp {o : CmpOp} {a b : Expr} (h : TOk ar (.cmp o a b)) : TOk ar a ∧ TOk ar b := by
  have hg := h.g; have hs := h.sub
  simp only [tgtGuard, Bool.and_eq_true] at hg
  simp only [arities] at hs
  exact ⟨⟨fun x hx => hs (List.mem_append_left _ hx), hg.1⟩,
    ⟨fun x hx => hs (List.mem_append_right _ hx), hg.2⟩⟩

theorem TOk.un {o : UnOp} {a : Expr} (h : TOk ar (.un o a)) : TOk ar a := by
  have hg := h.g; have hs := h.sub
  simp only [tgtGuard] at hg
  simp only [arities] at hs
  exact ⟨hs, hg⟩

theorem TOk.lookup {n : String} {a : Expr} (h : TOk ar (.lookup a n)) : TOk ar a := by
  have hg := h.g; have hs := h.sub
  simp only [tgtGuard] at hg
  simp only [arities] at hs
  exact ⟨hs, hg⟩

theorem TOk.ite {c t e : Expr} (h : TOk ar (.ite c t e)) : TOk ar c ∧ TOk ar t ∧ TOk ar e := by
  have hg := h.g; have hs := h.sub
  simp only [tgtGuard, Bool.and_eq_true] at hg
  simp only [arities] at hs
  exact ⟨⟨fun x hx => hs (List.mem_append_left _ (List.mem_append_left _ hx)), hg.1.1⟩,
    ⟨fun x hx => hs (List.mem_append_left _ (List.mem_append_right _ hx)), hg.1.2⟩,
    ⟨fun x hx => hs (List.mem_append_right _ hx), hg.2⟩⟩

theorem TOk.call {f : Expr} {as : List Expr} (h : TOk ar (.call f as)) :
    TOk ar f ∧ ∀ a ∈ as, TOk ar a := by
  have hg := h.g; have hs := h.sub
  simp only [tgtGuard, Bool.and_eq_true] at hg
  simp only [arities] at hs
  exact ⟨⟨fun x hx => hs (List.mem_append_left _ hx), hg.1⟩,
    TOk.ofL (fun x hx => hs (List.mem_append_right _ hx)) hg.2⟩

theorem TOk.tuple {cs : List Expr} (h : TOk ar (.tuple cs)) : ∀ c ∈ cs, TOk ar c := by
  have hg := h.g; have hs := h.sub
  simp only [tgtGuard] at hg
  simp only [arities] at hs
  exact TOk.ofL hs hg

theorem TOk.subscript {a i : Expr} (h : TOk ar (.subscript a i)) :
    isTuple1 i = false ∧ TOk ar a ∧ TOk ar i := by
  have hg := h.g; have hs := h.sub
  simp only [tgtGuard, Bool.and_eq_true, Bool.not_eq_true'] at hg
  simp only [arities] at hs
  exact ⟨hg.1.1, ⟨fun x hx => hs (List.mem_append_left _ hx), hg.1.2⟩,
    ⟨fun x hx => hs (List.mem_append_right _ hx), hg.2⟩⟩

theorem TOk.nary {o : NaryOp} {ds : List Expr} (h : TOk ar (.nary o ds)) :
    (o, ds.length) ∈ ar ∧ ∀ d ∈ ds, TOk ar d := by
  have hg := h.g; have hs := h.sub
  simp only [tgtGuard, Bool.and_eq_true] at hg
  simp only [arities] at hs
  exact ⟨hs (by simp), TOk.ofL (fun x hx => hs (List.mem_cons_of_mem _ hx)) hg.2⟩
end

theorem rowsOk_length {cands : List String} {ds : List Expr} {urecs : List URec} :
    ∀ {ncs : List Expr} {table : List Row}, RowsOk cands ds urecs ncs table →
      ncs.length = table.length
  | [], [], _ => rfl
  | _ :: _, _ :: _, h => by simp [rowsOk_length h.2]
  | [], _ :: _, h => by simp [RowsOk] at h
  | _ :: _, [], h => by simp [RowsOk] at h

/-! ### the main induction -/

theorem unifyE_subscript {cands : List String} {a i other : Expr} {urecs : List URec}
    (h : isTuple1 i = false) :
    unifyE cands (.subscript a i) other urecs =
      match other with
      | .subscript a' i' => unifyE cands a a' (unifyE cands i (unpackIndex i') urecs)
      | _ => [] := by
  cases i with
  | tuple cs =>
    match cs, h with
    | [], _ => simp only [unifyE]; rfl
    | [x], h => simp [isTuple1] at h
    | x :: y :: zs, _ => simp only [unifyE]; rfl
  | _ => simp only [unifyE] <;> rfl

/-- shape of every result: a good record extending one of the incoming ones, sound for `p`, `t` -/
abbrev Res (cands : List String) (urecs : List URec) (r : URec) (p t : Expr) : Prop :=
  Good cands r ∧ ∃ u ∈ urecs, Ext u r ∧ Sound cands r p t

abbrev ResL (cands : List String) (urecs : List URec) (r : URec) (ps ts : List Expr) : Prop :=
  Good cands r ∧ ∃ u ∈ urecs, Ext u r ∧ SoundL cands r ps ts

section
variable (cands : List String) (ar : List (NaryOp × Nat))

mutual
theorem unifyE_sound : ∀ (p t : Expr) (urecs : List URec), patGuard p = true →
    arityGuard cands ar p = true → TOk ar t → (∀ u ∈ urecs, Good cands u) →
    ∀ r ∈ unifyE cands p t urecs, Res cands urecs r p t
  | .const c, t, urecs, _, _, _, hu, r, hr => by
      simp only [unifyE] at hr
      split at hr
      · rename_i hpy
        exact ⟨hu r hr, r, hr, Ext.refl r, fun x hx => by simp [varsOf] at hx,
          by simp only [inst]; exact .py hpy⟩
      · simp at hr
  | .var x, t, urecs, _, _, _, hu, r, hr => by
      simp only [unifyE] at hr
      exact mapVariable_sound hu r hr
  | .bin o a b, t, urecs, hp, ha, ht, hu, r, hr => by
      simp only [unifyE] at hr
      split at hr
      · rename_i o' a' b'
        split at hr
        · rename_i ho; subst ho
          simp only [patGuard, arityGuard, Bool.and_eq_true] at hp ha
          have hmid := unifyE_sound b b' urecs hp.2 ha.2 ht.bin.2 hu
          have hr' := unifyE_sound a a' _ hp.1 ha.1 ht.bin.1 (fun m hm => (hmid m hm).1) r hr
          obtain ⟨hg, u, hu', he, hsa, hsb⟩ := chain (P := fun m => Sound cands m a a')
            (Q := fun m => Sound cands m b b') soundQ hmid hr'
          exact ⟨hg, u, hu', he, Sound.bin hsa hsb⟩
        · simp at hr
      · simp at hr
  | .cmp o a b, t, urecs, hp, ha, ht, hu, r, hr => by
      simp only [unifyE] at hr
      split at hr
      · rename_i o' a' b'
        split at hr
        · rename_i ho; subst ho
          simp only [patGuard, arityGuard, Bool.and_eq_true] at hp ha
          have hmid := unifyE_sound b b' urecs hp.2 ha.2 ht.cmp.2 hu
          have hr' := unifyE_sound a a' _ hp.1 ha.1 ht.cmp.1 (fun m hm => (hmid m hm).1) r hr
          obtain ⟨hg, u, hu', he, hsa, hsb⟩ := chain (P := fun m => Sound cands m a a')
            (Q := fun m => Sound cands m b b') soundQ hmid hr'
          exact ⟨hg, u, hu', he, Sound.cmp hsa hsb⟩
        · simp at hr
      · simp at hr
  | .un o a, t, urecs, hp, ha, ht, hu, r, hr => by
      simp only [unifyE] at hr
      split at hr
      · rename_i o' a'
        split at hr
        · rename_i ho; subst ho
          simp only [patGuard, arityGuard] at hp ha
          obtain ⟨hg, u, hu', he, hs⟩ := unifyE_sound a a' urecs hp ha ht.un hu r hr
          exact ⟨hg, u, hu', he, Sound.un hs⟩
        · simp at hr
      · simp at hr
  | .lookup a n, t, urecs, hp, ha, ht, hu, r, hr => by
      simp only [unifyE] at hr
      split at hr
      · rename_i a' n'
        split at hr
        · rename_i hn; subst hn
          simp only [patGuard, arityGuard] at hp ha
          obtain ⟨hg, u, hu', he, hs⟩ := unifyE_sound a a' urecs hp ha ht.lookup hu r hr
          exact ⟨hg, u, hu', he, Sound.lookup hs⟩
        · simp at hr
      · simp at hr
  | .ite c th e, t, urecs, hp, ha, ht, hu, r, hr => by
      simp only [unifyE] at hr
      split at hr
      · rename_i c' t' e'
        simp only [patGuard, arityGuard, Bool.and_eq_true] at hp ha
        have h1 := unifyE_sound e e' urecs hp.2 ha.2 ht.ite.2.2 hu
        have h2 := unifyE_sound th t' _ hp.1.2 ha.1.2 ht.ite.2.1 (fun m hm => (h1 m hm).1)
        have h2' : ∀ m ∈ unifyE cands th t' (unifyE cands e e' urecs),
            Good cands m ∧ ∃ u ∈ urecs, Ext u m ∧ (Sound cands m th t' ∧ Sound cands m e e') :=
          fun m hm => chain (P := fun m => Sound cands m th t')
            (Q := fun m => Sound cands m e e') soundQ h1 (h2 m hm)
        have h3 := unifyE_sound c c' _ hp.1.1 ha.1.1 ht.ite.1 (fun m hm => (h2' m hm).1) r hr
        obtain ⟨hg, u, hu', he, hsc, hst, hse⟩ :=
          chain (P := fun m => Sound cands m c c')
            (Q := fun m => Sound cands m th t' ∧ Sound cands m e e')
            (fun m r' hm hr' hee hq => ⟨hq.1.ext hm hr' hee, hq.2.ext hm hr' hee⟩) h2' h3
        exact ⟨hg, u, hu', he, Sound.ite hsc hst hse⟩
      · simp at hr
  | .call f as, t, urecs, hp, ha, ht, hu, r, hr => by
      simp only [unifyE] at hr
      split at hr
      · rename_i f' as'
        simp only [patGuard, arityGuard, Bool.and_eq_true] at hp ha
        have hmid := unifyL_sound as as' urecs hp.2 ha.2 ht.call.2 hu
        have hr' := unifyE_sound f f' _ hp.1 ha.1 ht.call.1 (fun m hm => (hmid m hm).1) r hr
        obtain ⟨hg, u, hu', he, hsf, hsa⟩ := chain (P := fun m => Sound cands m f f')
          (Q := fun m => SoundL cands m as as') soundLQ hmid hr'
        exact ⟨hg, u, hu', he, Sound.call hsf hsa⟩
      · simp at hr
  | .tuple cs, t, urecs, hp, ha, ht, hu, r, hr => by
      simp only [unifyE] at hr
      split at hr
      · rename_i ds
        simp only [patGuard, arityGuard] at hp ha
        obtain ⟨hg, u, hu', he, hs⟩ := unifyL_sound cs ds urecs hp ha ht.tuple hu r hr
        exact ⟨hg, u, hu', he, Sound.tuple hs⟩
      · simp at hr
  | .subscript a (.tuple [i1]), t, urecs, hp, _, _, _, r, _ => by
      simp only [patGuard] at hp
      simp [isTuple1] at hp
  | .subscript a i, t, urecs, hp, ha, ht, hu, r, hr => by
      simp only [patGuard, arityGuard, Bool.and_eq_true, Bool.not_eq_true'] at hp ha
      rw [unifyE_subscript hp.1.1] at hr
      split at hr
      · rename_i a' i'
        rw [unpackIndex_of_not_tuple1 ht.subscript.1] at hr
        have hmid := unifyE_sound i i' urecs hp.2 ha.2 ht.subscript.2.2 hu
        have hr' := unifyE_sound a a' _ hp.1.2 ha.1 ht.subscript.2.1 (fun m hm => (hmid m hm).1) r hr
        obtain ⟨hg, u, hu', he, hsa, hsi⟩ := chain (P := fun m => Sound cands m a a')
          (Q := fun m => Sound cands m i i') soundQ hmid hr'
        exact ⟨hg, u, hu', he, Sound.subscript hsa hsi⟩
      · simp at hr
  | .nary o cs, t, urecs, hp, ha, ht, hu, r, hr => by
      simp only [unifyE] at hr
      split at hr
      · rename_i o' ds
        split at hr
        · rename_i hcond
          simp only [Bool.and_eq_true, Bool.or_eq_true, decide_eq_true_eq] at hcond
          obtain ⟨rfl, hac⟩ := hcond
          have hac' : isAC o := hac
          simp only [patGuard, arityGuard, Bool.and_eq_true, Bool.not_eq_true',
            List.isEmpty_eq_false_iff] at hp ha
          obtain ⟨_, hcl⟩ := cleanQ_of_guard hac' ht.g
          have hrows := candTable_sound cs ds urecs hp.2 ha.2 ht.nary.2 hu
          have hlen := rowsOk_length hrows
          have hsplit := split_length cands cs
          have hcslen : cs.length ≠ 0 := fun h0 => hp.1 (List.length_eq_zero_iff.1 h0)
          have := matchChildren_spec hac' (plain := plainNames cands cs)
            (hasNonvar := !(candTable cands cs ds urecs).isEmpty) hcl hu
            (nonvarOf cands cs) _ hrows [] [] URec.empty (List.range ds.length) rfl
            (good_empty _) (by simp) (by simp) (by simp) (fun _ => rfl)
            (by
              simp only [List.length_nil, Nat.zero_add, hlen, Bool.not_eq_true',
                List.isEmpty_eq_false_iff, ne_eq, List.length_eq_zero_iff])
            (by
              intro h1
              simp only [List.length_nil, Nat.zero_add]
              intro hds
              have h2 := ha.1
              simp only [h1, BEq.rfl, Bool.true_and, List.contains_eq_mem, decide_eq_false_iff_not]
                at h2
              apply h2
              have : cs.length - 1 = ds.length := by omega
              rw [this]; exact ht.nary.1)
            (by
              intro h0 hpl
              simp only [List.length_nil, Nat.zero_add] at h0
              rw [hpl] at hsplit; simp at hsplit; omega)
            r hr
          obtain ⟨hg, ⟨u0, hu0, he0⟩, hch⟩ := this
          exact ⟨hg, u0, hu0, he0, commut_final hac' (by simpa using hch)⟩
        · simp at hr
      · simp at hr
  | .callKw .., _, _, _, _, _, _, r, hr => by simp [unifyE] at hr
  | .cse .., _, _, _, _, _, _, r, hr => by simp [unifyE] at hr
  | .subst .., _, _, _, _, _, _, r, hr => by simp [unifyE] at hr
  | .deriv .., _, _, _, _, _, _, r, hr => by simp [unifyE] at hr
  | .slice .., _, _, _, _, _, _, r, hr => by simp [unifyE] at hr
  | .nan, _, _, _, _, _, _, r, hr => by simp [unifyE] at hr
  | .wildcard, _, _, _, _, _, _, r, hr => by simp [unifyE] at hr
  | .dotWild .., _, _, _, _, _, _, r, hr => by simp [unifyE] at hr
  | .starWild .., _, _, _, _, _, _, r, hr => by simp [unifyE] at hr
  | .funcSym, _, _, _, _, _, _, r, hr => by simp [unifyE] at hr
  | .list .., _, _, _, _, _, _, r, hr => by simp [unifyE] at hr
theorem unifyL_sound : ∀ (ps ts : List Expr) (urecs : List URec), patGuardL ps = true →
    arityGuardL cands ar ps = true → (∀ t ∈ ts, TOk ar t) → (∀ u ∈ urecs, Good cands u) →
    ∀ r ∈ unifyL cands ps ts urecs, ResL cands urecs r ps ts
  | [], [], urecs, _, _, _, hu, r, hr => by
      simp only [unifyL] at hr
      exact ⟨hu r hr, r, hr, Ext.refl r, fun x hx => by simp [varsOfL] at hx,
        by simp only [instL]; exact .nil⟩
  | c :: cs, d :: ds, urecs, hp, ha, ht, hu, r, hr => by
      simp only [unifyL] at hr
      split at hr
      · simp at hr
      · simp only [patGuardL, arityGuardL, Bool.and_eq_true] at hp ha
        have hmid := unifyE_sound c d urecs hp.1 ha.1 (ht d (by simp)) hu
        have hr' := unifyL_sound cs ds _ hp.2 ha.2 (fun t h => ht t (by simp [h]))
          (fun m hm => (hmid m hm).1) r hr
        obtain ⟨hg, u, hu', he, hsl, hsc⟩ := chain (P := fun m => SoundL cands m cs ds)
          (Q := fun m => Sound cands m c d) soundQ hmid hr'
        exact ⟨hg, u, hu', he, SoundL.cons hsc hsl⟩
  | [], _ :: _, _, _, _, _, _, r, hr => by simp [unifyL] at hr
  | _ :: _, [], _, _, _, _, _, r, hr => by simp [unifyL] at hr
theorem candTable_sound : ∀ (cs ds : List Expr) (urecs : List URec), patGuardL cs = true →
    arityGuardL cands ar cs = true → (∀ d ∈ ds, TOk ar d) → (∀ u ∈ urecs, Good cands u) →
    RowsOk cands ds urecs (nonvarOf cands cs) (candTable cands cs ds urecs)
  | [], ds, urecs, _, _, _, _ => by simp [nonvarOf, candTable, RowsOk]
  | c :: cs, ds, urecs, hp, ha, htl, hu => by
      simp only [patGuardL, arityGuardL, Bool.and_eq_true] at hp ha
      have ih := candTable_sound cs ds urecs hp.2 ha.2 htl hu
      by_cases hpl : isPlain cands c = true
      · simp only [candTable, nonvarOf, List.filter_cons, hpl, if_true, Bool.not_true,
          Bool.false_eq_true, if_false]
        exact ih
      · simp only [candTable, nonvarOf, List.filter_cons, hpl, Bool.false_eq_true, if_false,
          Bool.not_false, if_true]
        refine ⟨?_, ih⟩
        intro p hpm
        obtain ⟨j, hj, hjp⟩ := List.mem_filterMap.1 hpm
        have hjlt := List.mem_range.1 hj
        split at hjp
        · simp at hjp
        · simp only [Option.some.injEq] at hjp
          subst hjp
          refine ⟨hjlt, fun pr hpr => ?_⟩
          obtain ⟨hg, u, hu', he, hs⟩ :=
            unifyE_sound c (ds.getD j zero) urecs hp.1 ha.1 (htl _ (getD_mem hjlt)) hu pr hpr
          exact ⟨hg, ⟨u, hu', he⟩, hs⟩
end
end

/-! ### records are well-formed on ALL inputs (no guard) -/

theorem matchPlain_good {cands : List String} {o : NaryOp} {plain : List String}
    {hasNonvar : Bool} {ds : List Expr} {urecs : List URec} {urec : URec} {left : List Nat}
    (hurecs : ∀ u ∈ urecs, Good cands u) (hg : Good cands urec) :
    ∀ r ∈ matchPlain cands o plain hasNonvar ds urecs urec left, Good cands r := by
  intro r hr
  unfold matchPlain at hr
  split at hr
  · simp only [List.mem_singleton] at hr; subst hr; exact hg
  · simp only at hr
    split at hr
    · have hmem := List.mem_of_mem_head? (Option.mem_toList.1 hr)
      obtain ⟨part, _, hres⟩ := List.mem_filterMap.1 hmem
      exact (bindParts_spec _ urec r hg hres).1
    · obtain ⟨res, hresm, hrm⟩ := List.mem_flatMap.1 hr
      obtain ⟨part, _, hres⟩ := List.mem_filterMap.1 hresm
      obtain ⟨u, hu, hur⟩ := mem_unifyMany.1 hrm
      exact (unify_spec (hurecs u hu) (bindParts_spec _ urec res hg hres).1 hur).1

theorem matchChildren_good {cands : List String} {o : NaryOp} {plain : List String}
    {hasNonvar : Bool} {ds : List Expr} {urecs : List URec} (hurecs : ∀ u ∈ urecs, Good cands u) :
    ∀ (table : List Row), (∀ row ∈ table, ∀ p ∈ row, ∀ pr ∈ p.2, Good cands pr) →
    ∀ (urec : URec) (left : List Nat), Good cands urec →
    ∀ r ∈ matchChildren cands o plain hasNonvar ds urecs table urec left, Good cands r
  | [], _, urec, left, hg, r, hr => by
    simp only [matchChildren] at hr
    exact matchPlain_good hurecs hg r hr
  | row :: table, htab, urec, left, hg, r, hr => by
    simp only [matchChildren, List.mem_flatMap] at hr
    obtain ⟨⟨j, prs⟩, hjrow, hr⟩ := hr
    simp only at hr
    split at hr
    · obtain ⟨cu, hcu, hr⟩ := List.mem_flatMap.1 hr
      obtain ⟨pr, hpr, hunify⟩ := List.mem_filterMap.1 hcu
      have hgpr := htab row (by simp) (j, prs) hjrow pr hpr
      exact matchChildren_good hurecs table (fun row' h => htab row' (by simp [h])) cu _
        (unify_spec hgpr hg hunify).1 r hr
    · simp at hr

theorem mapVariable_good {cands : List String} {x : String} {other : Expr} {urecs : List URec}
    (hurecs : ∀ u ∈ urecs, Good cands u) : ∀ r ∈ mapVariable cands x other urecs, Good cands r := by
  intro r hr
  unfold mapVariable at hr
  split at hr
  · rename_i n hn
    obtain ⟨hx, hnl⟩ := recFromEq_spec hn
    obtain ⟨u, hu, hur⟩ := mem_unifyMany.1 hr
    exact (unify_spec (hurecs u hu) (good_single hx hnl) hur).1
  · split at hr
    · split at hr
      · exact hurecs r hr
      · simp at hr
    · simp at hr

theorem isTuple1_iff {i : Expr} : isTuple1 i = true ↔ ∃ i1, i = .tuple [i1] := by
  constructor
  · intro h
    unfold isTuple1 at h
    split at h
    · exact ⟨_, rfl⟩
    · simp at h
  · rintro ⟨i1, rfl⟩; rfl

section
variable (cands : List String)

mutual
theorem unifyE_good : ∀ (p t : Expr) (urecs : List URec), (∀ u ∈ urecs, Good cands u) →
    ∀ r ∈ unifyE cands p t urecs, Good cands r
  | .const c, t, urecs, hu, r, hr => by
      simp only [unifyE] at hr
      split at hr
      · exact hu r hr
      · simp at hr
  | .var x, t, urecs, hu, r, hr => by
      simp only [unifyE] at hr
      exact mapVariable_good hu r hr
  | .bin o a b, t, urecs, hu, r, hr => by
      simp only [unifyE] at hr
      split at hr
      · split at hr
        · exact unifyE_good a _ _ (unifyE_good b _ urecs hu) r hr
        · simp at hr
      · simp at hr
  | .cmp o a b, t, urecs, hu, r, hr => by
      simp only [unifyE] at hr
      split at hr
      · split at hr
        · exact unifyE_good a _ _ (unifyE_good b _ urecs hu) r hr
        · simp at hr
      · simp at hr
  | .un o a, t, urecs, hu, r, hr => by
      simp only [unifyE] at hr
      split at hr
      · split at hr
        · exact unifyE_good a _ urecs hu r hr
        · simp at hr
      · simp at hr
  | .lookup a n, t, urecs, hu, r, hr => by
      simp only [unifyE] at hr
      split at hr
      · split at hr
        · exact unifyE_good a _ urecs hu r hr
        · simp at hr
      · simp at hr
  | .ite c th e, t, urecs, hu, r, hr => by
      simp only [unifyE] at hr
      split at hr
      · exact unifyE_good c _ _ (unifyE_good th _ _ (unifyE_good e _ urecs hu)) r hr
      · simp at hr
  | .call f as, t, urecs, hu, r, hr => by
      simp only [unifyE] at hr
      split at hr
      · exact unifyE_good f _ _ (unifyL_good as _ urecs hu) r hr
      · simp at hr
  | .tuple cs, t, urecs, hu, r, hr => by
      simp only [unifyE] at hr
      split at hr
      · exact unifyL_good cs _ urecs hu r hr
      · simp at hr
  | .subscript a i, t, urecs, hu, r, hr => by
      by_cases hi : isTuple1 i = true
      · obtain ⟨i1, hi1⟩ := isTuple1_iff.1 hi
        -- the unpacked element is reached through the 1-tuple itself: `(i1,)` against `(X,)`
        have hmid : ∀ X, ∀ m ∈ unifyE cands i1 X urecs, Good cands m := by
          intro X m hm
          refine unifyE_good i (.tuple [X]) urecs hu m ?_
          rw [hi1]
          simp only [unifyE, unifyL]
          split
          · rename_i hemp; rw [List.isEmpty_iff.1 hemp] at hm; simp at hm
          · exact hm
        rw [hi1] at hr
        simp only [unifyE] at hr
        split at hr
        · exact unifyE_good a _ _ (hmid _) r hr
        · simp at hr
      · simp only [Bool.not_eq_true] at hi
        rw [unifyE_subscript hi] at hr
        split at hr
        · exact unifyE_good a _ _ (unifyE_good i _ urecs hu) r hr
        · simp at hr
  | .nary o cs, t, urecs, hu, r, hr => by
      simp only [unifyE] at hr
      split at hr
      · split at hr
        · exact matchChildren_good hu _ (candTable_good cs _ urecs hu) _ _ (good_empty cands) r hr
        · simp at hr
      · simp at hr
  | .callKw .., _, _, _, r, hr => by simp [unifyE] at hr
  | .cse .., _, _, _, r, hr => by simp [unifyE] at hr
  | .subst .., _, _, _, r, hr => by simp [unifyE] at hr
  | .deriv .., _, _, _, r, hr => by simp [unifyE] at hr
  | .slice .., _, _, _, r, hr => by simp [unifyE] at hr
  | .nan, _, _, _, r, hr => by simp [unifyE] at hr
  | .wildcard, _, _, _, r, hr => by simp [unifyE] at hr
  | .dotWild .., _, _, _, r, hr => by simp [unifyE] at hr
  | .starWild .., _, _, _, r, hr => by simp [unifyE] at hr
  | .funcSym, _, _, _, r, hr => by simp [unifyE] at hr
  | .list .., _, _, _, r, hr => by simp [unifyE] at hr
theorem unifyL_good : ∀ (ps ts : List Expr) (urecs : List URec), (∀ u ∈ urecs, Good cands u) →
    ∀ r ∈ unifyL cands ps ts urecs, Good cands r
  | [], [], urecs, hu, r, hr => by simp only [unifyL] at hr; exact hu r hr
  | c :: cs, d :: ds, urecs, hu, r, hr => by
      simp only [unifyL] at hr
      split at hr
      · simp at hr
      · exact unifyL_good cs ds _ (unifyE_good c d urecs hu) r hr
  | [], _ :: _, _, _, r, hr => by simp [unifyL] at hr
  | _ :: _, [], _, _, r, hr => by simp [unifyL] at hr
theorem candTable_good : ∀ (cs ds : List Expr) (urecs : List URec), (∀ u ∈ urecs, Good cands u) →
    ∀ row ∈ candTable cands cs ds urecs, ∀ p ∈ row, ∀ pr ∈ p.2, Good cands pr
  | [], _, _, _, row, hrow => by simp [candTable] at hrow
  | c :: cs, ds, urecs, hu, row, hrow => by
      simp only [candTable] at hrow
      split at hrow
      · exact candTable_good cs ds urecs hu row hrow
      · rcases List.mem_cons.1 hrow with rfl | hrow
        · intro p hp pr hpr
          obtain ⟨j, _, hjp⟩ := List.mem_filterMap.1 hp
          split at hjp
          · simp at hjp
          · simp only [Option.some.injEq] at hjp
            subst hjp
            exact unifyE_good c _ urecs hu pr hpr
        · exact candTable_good cs ds urecs hu row hrow
end
end

end PV.Unify
