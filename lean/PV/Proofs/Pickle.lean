import PV.Model.Pickle
/-
  Helper lemmas for C17 (lean/PV/Properties/C17.lean): slots, pickling, the cached hash and its
  coherence invariant.
-/
namespace PV.Pickle
open PV

/-! ### erase / noCache / pickle / unpickle -/

mutual
theorem erase_noCache : ∀ o : Obj, o.erase.noCache = true
  | .atom _ => by simp [Obj.erase, Obj.noCache]
  | .tuple xs => by simp only [Obj.erase, Obj.noCache, eraseL_noCacheL xs]
  | .list xs => by simp only [Obj.erase, Obj.noCache, eraseL_noCacheL xs]
  | .dict _ vs => by simp only [Obj.erase, Obj.noCache, eraseL_noCacheL vs]
  | .inst _ _ fs _ => by simp [Obj.erase, Obj.noCache, eraseL_noCacheL fs]
theorem eraseL_noCacheL : ∀ xs : List Obj, Obj.noCacheL (Obj.eraseL xs) = true
  | [] => rfl
  | x :: xs => by simp [Obj.eraseL, Obj.noCacheL, erase_noCache x, eraseL_noCacheL xs]
end

mutual
theorem noCache_erase : ∀ o : Obj, o.noCache = true → o.erase = o
  | .atom _, _ => rfl
  | .tuple xs, h => by
      simp only [Obj.noCache] at h; simp only [Obj.erase, noCacheL_eraseL xs h]
  | .list xs, h => by
      simp only [Obj.noCache] at h; simp only [Obj.erase, noCacheL_eraseL xs h]
  | .dict _ vs, h => by
      simp only [Obj.noCache] at h; simp only [Obj.erase, noCacheL_eraseL vs h]
  | .inst _ _ fs c, h => by
      simp only [Obj.noCache, Bool.and_eq_true, Option.isNone_iff_eq_none] at h
      simp only [Obj.erase, noCacheL_eraseL fs h.2, h.1]
theorem noCacheL_eraseL : ∀ xs : List Obj, Obj.noCacheL xs = true → Obj.eraseL xs = xs
  | [], _ => rfl
  | x :: xs, h => by
      simp only [Obj.noCacheL, Bool.and_eq_true] at h
      simp only [Obj.eraseL, noCache_erase x h.1, noCacheL_eraseL xs h.2]
end

theorem erase_erase (o : Obj) : o.erase.erase = o.erase := noCache_erase _ (erase_noCache o)

mutual
theorem pickle_erase : ∀ o : Obj, o.erase.pickle = o.pickle
  | .atom _ => rfl
  | .tuple xs => by simp only [Obj.erase, Obj.pickle, pickleL_eraseL xs]
  | .list xs => by simp only [Obj.erase, Obj.pickle, pickleL_eraseL xs]
  | .dict _ vs => by simp only [Obj.erase, Obj.pickle, pickleL_eraseL vs]
  | .inst _ _ fs _ => by simp only [Obj.erase, Obj.pickle, pickleL_eraseL fs]
theorem pickleL_eraseL : ∀ xs : List Obj, Obj.pickleL (Obj.eraseL xs) = Obj.pickleL xs
  | [] => rfl
  | x :: xs => by simp only [Obj.eraseL, Obj.pickleL, pickle_erase x, pickleL_eraseL xs]
end

mutual
theorem unpickle_pickle : ∀ o : Obj, o.pickle.unpickle = o.erase
  | .atom _ => rfl
  | .tuple xs => by simp only [Obj.pickle, Pk.unpickle, Obj.erase, unpickleL_pickleL xs]
  | .list xs => by simp only [Obj.pickle, Pk.unpickle, Obj.erase, unpickleL_pickleL xs]
  | .dict _ vs => by simp only [Obj.pickle, Pk.unpickle, Obj.erase, unpickleL_pickleL vs]
  | .inst _ _ fs _ => by simp only [Obj.pickle, Pk.unpickle, Obj.erase, unpickleL_pickleL fs]
theorem unpickleL_pickleL : ∀ xs : List Obj, Pk.unpickleL (Obj.pickleL xs) = Obj.eraseL xs
  | [] => rfl
  | x :: xs => by
      simp only [Obj.pickleL, Pk.unpickleL, Obj.eraseL, unpickle_pickle x, unpickleL_pickleL xs]
end

mutual
theorem unpickle_noCache : ∀ p : Pk, p.unpickle.noCache = true
  | .atom _ => rfl
  | .tuple xs => by simp only [Pk.unpickle, Obj.noCache, unpickleL_noCacheL xs]
  | .list xs => by simp only [Pk.unpickle, Obj.noCache, unpickleL_noCacheL xs]
  | .dict _ vs => by simp only [Pk.unpickle, Obj.noCache, unpickleL_noCacheL vs]
  | .obj _ _ (.tuple xs) => by simp [Pk.unpickle, Obj.noCache, unpickleL_noCacheL xs]
  | .obj _ _ (.dict _ vs) => by simp [Pk.unpickle, Obj.noCache, unpickleL_noCacheL vs]
  | .obj _ _ (.atom _) => by simp [Pk.unpickle, Obj.noCache, Obj.noCacheL]
  | .obj _ _ (.list _) => by simp [Pk.unpickle, Obj.noCache, Obj.noCacheL]
  | .obj _ _ (.obj ..) => by simp [Pk.unpickle, Obj.noCache, Obj.noCacheL]
theorem unpickleL_noCacheL : ∀ xs : List Pk, Obj.noCacheL (Pk.unpickleL xs) = true
  | [] => rfl
  | x :: xs => by simp [Pk.unpickleL, Obj.noCacheL, unpickle_noCache x, unpickleL_noCacheL xs]
end

/-! ### hash ignores the slots; cache-free objects are coherent in every process -/

mutual
theorem hash_erase (P : HashParams) : ∀ o : Obj, o.erase.hash P = o.hash P
  | .atom _ => rfl
  | .tuple xs => by simp only [Obj.erase, Obj.hash, hashL_eraseL P xs]
  | .list xs => by simp only [Obj.erase, Obj.hash, hashL_eraseL P xs]
  | .dict _ vs => by simp only [Obj.erase, Obj.hash, hashL_eraseL P vs]
  | .inst _ _ fs _ => by simp only [Obj.erase, Obj.hash, hashL_eraseL P fs]
theorem hashL_eraseL (P : HashParams) : ∀ xs : List Obj, Obj.hashL P (Obj.eraseL xs) = Obj.hashL P xs
  | [] => rfl
  | x :: xs => by simp only [Obj.eraseL, Obj.hashL, hash_erase P x, hashL_eraseL P xs]
end

theorem hash_congr (P : HashParams) {a b : Obj} (h : a.erase = b.erase) : a.hash P = b.hash P := by
  rw [← hash_erase P a, ← hash_erase P b, h]

mutual
theorem noCache_coherent (P : HashParams) : ∀ o : Obj, o.noCache = true → o.coherent P
  | .atom _, _ => trivial
  | .tuple xs, h => by
      simp only [Obj.noCache] at h; simp only [Obj.coherent]; exact noCacheL_coherentL P xs h
  | .list xs, h => by
      simp only [Obj.noCache] at h; simp only [Obj.coherent]; exact noCacheL_coherentL P xs h
  | .dict _ vs, h => by
      simp only [Obj.noCache] at h; simp only [Obj.coherent]; exact noCacheL_coherentL P vs h
  | .inst _ _ fs c, h => by
      simp only [Obj.noCache, Bool.and_eq_true, Option.isNone_iff_eq_none] at h
      simp only [Obj.coherent]
      exact ⟨by simp [h.1], noCacheL_coherentL P fs h.2⟩
theorem noCacheL_coherentL (P : HashParams) :
    ∀ xs : List Obj, Obj.noCacheL xs = true → Obj.coherentL P xs
  | [], _ => trivial
  | x :: xs, h => by
      simp only [Obj.noCacheL, Bool.and_eq_true] at h
      exact ⟨noCache_coherent P x h.1, noCacheL_coherentL P xs h.2⟩
end

/-! ### the cached hash under the coherence invariant -/

mutual
theorem hashC_spec (P : HashParams) : ∀ o : Obj, o.coherent P →
    (o.hashC P).1 = o.hash P ∧ (o.hashC P).2.coherent P ∧ (o.hashC P).2.erase = o.erase
  | .atom _, _ => ⟨rfl, trivial, rfl⟩
  | .tuple xs, h => by
      simp only [Obj.coherent] at h
      obtain ⟨h1, h2, h3⟩ := hashCL_spec P xs h
      refine ⟨?_, ?_, ?_⟩
      · simp only [Obj.hashC, Obj.hash, h1]
      · simpa only [Obj.hashC, Obj.coherent] using h2
      · simp only [Obj.hashC, Obj.erase, h3]
  | .list xs, h => by
      simp only [Obj.coherent] at h
      obtain ⟨h1, h2, h3⟩ := hashCL_spec P xs h
      refine ⟨?_, ?_, ?_⟩
      · simp only [Obj.hashC, Obj.hash, h1]
      · simpa only [Obj.hashC, Obj.coherent] using h2
      · simp only [Obj.hashC, Obj.erase, h3]
  | .dict _ vs, h => by
      simp only [Obj.coherent] at h
      obtain ⟨h1, h2, h3⟩ := hashCL_spec P vs h
      refine ⟨?_, ?_, ?_⟩
      · simp only [Obj.hashC, Obj.hash, h1]
      · simpa only [Obj.hashC, Obj.coherent] using h2
      · simp only [Obj.hashC, Obj.erase, h3]
  | .inst c k fs (some v), h => by
      have h' := h
      simp only [Obj.coherent] at h'
      exact ⟨by simpa only [Obj.hashC, Obj.hash] using h'.1 v rfl,
        by simpa only [Obj.hashC] using h, by simp only [Obj.hashC]⟩
  | .inst c k fs none, h => by
      simp only [Obj.coherent] at h
      obtain ⟨h1, h2, h3⟩ := hashCL_spec P fs h.2
      have h4 : Obj.hashL P (Obj.hashCL P fs).2 = Obj.hashL P fs := by
        rw [← hashL_eraseL P (Obj.hashCL P fs).2, h3, hashL_eraseL]
      refine ⟨?_, ?_, ?_⟩
      · simp only [Obj.hashC, Obj.hash, h1]
      · simp only [Obj.hashC, Obj.coherent, h1, h4]
        exact ⟨fun v hv => by simpa using hv.symm, h2⟩
      · simp only [Obj.hashC, Obj.erase, h3]
theorem hashCL_spec (P : HashParams) : ∀ xs : List Obj, Obj.coherentL P xs →
    (Obj.hashCL P xs).1 = Obj.hashL P xs ∧ Obj.coherentL P (Obj.hashCL P xs).2 ∧
      Obj.eraseL (Obj.hashCL P xs).2 = Obj.eraseL xs
  | [], _ => ⟨rfl, trivial, rfl⟩
  | x :: xs, h => by
      simp only [Obj.coherentL] at h
      obtain ⟨a1, a2, a3⟩ := hashC_spec P x h.1
      obtain ⟨b1, b2, b3⟩ := hashCL_spec P xs h.2
      refine ⟨?_, ?_, ?_⟩
      · simp only [Obj.hashCL, Obj.hashL, a1, b1]
      · simp only [Obj.hashCL, Obj.coherentL]; exact ⟨a2, b2⟩
      · simp only [Obj.hashCL, Obj.eraseL, a3, b3]
end

/-! ### `==` on objects: well-formedness, reflexivity, slots are irrelevant, equal ⇒ equal hash -/

mutual
/-- no float nan, keyword names duplicate-free and parallel to the values -/
def Obj.wf : Obj → Bool
  | .atom c => c.wf
  | .tuple xs => Obj.wfL xs
  | .list xs => Obj.wfL xs
  | .dict ks vs => decide ks.Nodup && ks.length == vs.length && Obj.wfL vs
  | .inst _ _ fs _ => Obj.wfL fs
def Obj.wfL : List Obj → Bool
  | [] => true
  | x :: xs => x.wf && Obj.wfL xs
end

theorem Obj.wfL_iff : ∀ {xs : List Obj}, Obj.wfL xs = true ↔ ∀ x ∈ xs, x.wf = true
  | [] => by simp [Obj.wfL]
  | y :: ys => by
    simp only [Obj.wfL, Bool.and_eq_true, List.forall_mem_cons, Obj.wfL_iff (xs := ys)]

def Obj.children : Obj → List Obj
  | .atom _ => []
  | .tuple xs => xs
  | .list xs => xs
  | .dict _ vs => vs
  | .inst _ _ fs _ => fs

mutual
theorem Obj.ind_aux {Pr : Obj → Prop} (h : ∀ o, (∀ c ∈ o.children, Pr c) → Pr o) : ∀ o, Pr o
  | .atom _ => h _ (by simp [Obj.children])
  | .tuple xs => h _ (by simpa [Obj.children] using Obj.ind_auxL h xs)
  | .list xs => h _ (by simpa [Obj.children] using Obj.ind_auxL h xs)
  | .dict _ vs => h _ (by simpa [Obj.children] using Obj.ind_auxL h vs)
  | .inst _ _ fs _ => h _ (by simpa [Obj.children] using Obj.ind_auxL h fs)
theorem Obj.ind_auxL {Pr : Obj → Prop} (h : ∀ o, (∀ c ∈ o.children, Pr c) → Pr o) :
    ∀ (xs : List Obj), ∀ c ∈ xs, Pr c
  | [] => by simp
  | x :: xs => by simpa using ⟨Obj.ind_aux h x, Obj.ind_auxL h xs⟩
end

theorem Obj.induct {Pr : Obj → Prop} (h : ∀ o, (∀ c ∈ o.children, Pr c) → Pr o) (o : Obj) : Pr o :=
  Obj.ind_aux h o

theorem hashL_eq_map (P : HashParams) : ∀ xs : List Obj, Obj.hashL P xs = xs.map (Obj.hash P)
  | [] => rfl
  | x :: xs => by simp [Obj.hashL, hashL_eq_map P xs]

theorem eraseL_eq_map : ∀ xs : List Obj, Obj.eraseL xs = xs.map Obj.erase
  | [] => rfl
  | x :: xs => by simp [Obj.eraseL, eraseL_eq_map xs]

theorem lookupO_mem {k : String} : ∀ {ms : List String} {ws : List Obj} {w : Obj},
    assocLookupO k ms ws = some w → (k, w) ∈ ms.zip ws
  | [], _, _, h => by simp [assocLookupO] at h
  | _ :: _, [], _, h => by simp [assocLookupO] at h
  | m :: ms, w' :: ws, w, h => by
    simp only [assocLookupO] at h
    simp only [List.zip_cons_cons, List.mem_cons, Prod.mk.injEq]
    split at h
    · rename_i hm
      simp only [Option.some.injEq] at h
      exact Or.inl ⟨hm.symm, h.symm⟩
    · exact Or.inr (lookupO_mem h)

theorem lookupO_of_mem {k : String} : ∀ {ms : List String} {ws : List Obj} {w : Obj},
    ms.Nodup → (k, w) ∈ ms.zip ws → assocLookupO k ms ws = some w
  | [], _, _, _, h => by simp at h
  | _ :: _, [], _, _, h => by simp at h
  | m :: ms, w' :: ws, w, hn, h => by
    simp only [List.zip_cons_cons, List.mem_cons, Prod.mk.injEq] at h
    simp only [List.nodup_cons] at hn
    simp only [assocLookupO]
    rcases h with ⟨rfl, rfl⟩ | h
    · simp
    · have hk := (List.of_mem_zip h).1
      have : m ≠ k := by rintro rfl; exact hn.1 hk
      simp only [this, if_false]
      exact lookupO_of_mem hn.2 h

theorem pyEqKwO_iff_lookup : ∀ (ns : List String) (vs : List Obj) (ms : List String) (ws : List Obj),
    Obj.pyEqKw ns vs ms ws = true ↔
      ∀ n v, (n, v) ∈ ns.zip vs → ∃ w, assocLookupO n ms ws = some w ∧ v.pyEq w = true
  | [], _, _, _ => by simp [Obj.pyEqKw]
  | _ :: _, [], _, _ => by simp [Obj.pyEqKw]
  | n :: ns, v :: vs, ms, ws => by
    simp only [Obj.pyEqKw, Bool.and_eq_true, List.zip_cons_cons, List.mem_cons, Prod.mk.injEq,
      pyEqKwO_iff_lookup ns vs ms ws]
    constructor
    · rintro ⟨h1, h2⟩ n' v' (⟨rfl, rfl⟩ | h)
      · split at h1
        · exact ⟨_, by assumption, h1⟩
        · simp at h1
      · exact h2 n' v' h
    · intro h
      refine ⟨?_, fun n' v' h' => h n' v' (Or.inr h')⟩
      obtain ⟨w, hw, hr⟩ := h n v (Or.inl ⟨rfl, rfl⟩)
      simp only [hw, hr]

theorem pyEqKwO_iff {ns : List String} {vs : List Obj} {ms : List String} {ws : List Obj}
    (hms : ms.Nodup) :
    Obj.pyEqKw ns vs ms ws = true ↔
      ∀ n v, (n, v) ∈ ns.zip vs → ∃ w, (n, w) ∈ ms.zip ws ∧ v.pyEq w = true := by
  rw [pyEqKwO_iff_lookup]
  constructor
  · intro h n v hm
    obtain ⟨w, hw, hr⟩ := h n v hm
    exact ⟨w, lookupO_mem hw, hr⟩
  · intro h n v hm
    obtain ⟨w, hw, hr⟩ := h n v hm
    exact ⟨w, lookupO_of_mem hms hw, hr⟩

theorem pyEqLO_refl_of : ∀ (cs : List Obj), (∀ c ∈ cs, c.pyEq c = true) → Obj.pyEqL cs cs = true
  | [], _ => by simp [Obj.pyEqL]
  | c :: cs, h => by
    simp only [List.forall_mem_cons] at h
    simp only [Obj.pyEqL, Bool.and_eq_true]
    exact ⟨h.1, pyEqLO_refl_of cs h.2⟩

theorem Obj.pyEq_refl (o : Obj) : o.wf = true → o.pyEq o = true := by
  induction o using Obj.induct with | _ o ih => ?_
  intro h
  cases o <;> simp only [Obj.children] at ih <;>
    simp only [Obj.wf, Bool.and_eq_true, Obj.wfL_iff, decide_eq_true_eq, beq_iff_eq] at h <;>
    simp only [Obj.pyEq, Bool.and_eq_true, beq_self_eq_true, true_and, and_true]
  case atom c => exact Const.pyEq_refl c h
  case dict ks vs =>
    rw [pyEqKwO_iff h.1.1]
    intro n v hm
    exact ⟨v, hm, ih v (List.of_mem_zip hm).2 (h.2 v (List.of_mem_zip hm).2)⟩
  all_goals exact pyEqLO_refl_of _ fun c hc => ih c hc (h c hc)

theorem hashLO_eq_of (P : HashParams) : ∀ (as bs : List Obj),
    (∀ a ∈ as, ∀ b ∈ bs, a.pyEq b = true → a.hash P = b.hash P) →
    Obj.pyEqL as bs = true → Obj.hashL P as = Obj.hashL P bs
  | [], [], _, _ => rfl
  | [], _ :: _, _, h => by simp [Obj.pyEqL] at h
  | _ :: _, [], _, h => by simp [Obj.pyEqL] at h
  | a :: as, b :: bs, ih, h => by
    simp only [Obj.pyEqL, Bool.and_eq_true] at h
    simp only [Obj.hashL]
    rw [ih a List.mem_cons_self b List.mem_cons_self h.1, hashLO_eq_of P as bs ?_ h.2]
    intro a' ha' b' hb'
    exact ih a' (List.mem_cons_of_mem _ ha') b' (List.mem_cons_of_mem _ hb')

theorem kwHash_eq (P : HashParams) (ks : List String) (vs : List Obj) :
    (ks.map P.str).zip (Obj.hashL P vs) = (ks.zip vs).map (fun p => (P.str p.1, p.2.hash P)) := by
  rw [hashL_eq_map, List.zip_map]
  rfl

theorem hashKwO_perm_of (P : HashParams) {ns ms : List String} {vs ws : List Obj}
    (hn : ns.Nodup) (hm : ms.Nodup)
    (hl1 : ns.length = vs.length) (hl2 : ms.length = ws.length) (hl : ns.length = ms.length)
    (ih : ∀ v ∈ vs, ∀ w ∈ ws, v.pyEq w = true → v.hash P = w.hash P)
    (h : Obj.pyEqKw ns vs ms ws = true) :
    ((ns.map P.str).zip (Obj.hashL P vs)).Perm ((ms.map P.str).zip (Obj.hashL P ws)) := by
  rw [pyEqKwO_iff hm] at h
  rw [kwHash_eq, kwHash_eq]
  apply assoc_match_perm (fun n v => (P.str n, Obj.hash P v)) (fun n v => (P.str n, Obj.hash P v))
    (ns.zip vs) (ms.zip ws)
    (by rw [List.map_fst_zip (by omega)]; exact hn) (by rw [List.map_fst_zip (by omega)]; exact hm)
    (by simp only [List.length_zip]; omega)
  intro n v hnv
  obtain ⟨w, hw, hr⟩ := h n v hnv
  exact ⟨w, hw, by rw [ih v (List.of_mem_zip hnv).2 w (List.of_mem_zip hw).2 hr]⟩

/-- the structural hash respects `==` (for every process whose number hash is value-based and
whose mapping hash is order-independent) -/
theorem Obj.eq_hash' {P : HashParams} (hP : P.Ok) (a : Obj) :
    a.wf = true → ∀ b : Obj, b.wf = true → a.pyEq b = true → a.hash P = b.hash P := by
  induction a using Obj.induct with | _ a ih => ?_
  intro ha b hb h
  cases a <;> cases b <;>
    simp only [Obj.pyEq, Bool.false_eq_true, Bool.and_eq_true, beq_iff_eq] at h <;>
    simp only [Obj.children] at ih <;>
    simp only [Obj.wf, Bool.and_eq_true, Obj.wfL_iff, decide_eq_true_eq, beq_iff_eq] at ha hb <;>
    simp only [Obj.hash]
  case atom.atom c d => exact Const.eq_hash hP _ _ h
  case tuple.tuple xs ys =>
    rw [hashLO_eq_of P xs ys (fun a haa b hbb => ih a haa (ha a haa) b (hb b hbb)) h]
  case list.list xs ys =>
    rw [hashLO_eq_of P xs ys (fun a haa b hbb => ih a haa (ha a haa) b (hb b hbb)) h]
  case dict.dict ks vs ms ws =>
    exact hP.mapping_perm _ _ (hashKwO_perm_of P ha.1.1 hb.1.1 ha.1.2 hb.1.2 h.1
      (fun v hv w hw => ih v hv (ha.2 v hv) w (hb.2 w hw)) h.2)
  case inst.inst c k fs _ c' k' fs' _ =>
    obtain ⟨⟨rfl, rfl⟩, h3⟩ := h
    rw [hashLO_eq_of P fs fs' (fun a haa b hbb => ih a haa (ha a haa) b (hb b hbb)) h3]

theorem Obj.eq_hash {P : HashParams} (hP : P.Ok) (a b : Obj) (ha : a.wf = true) (hb : b.wf = true)
    (h : a.pyEq b = true) : a.hash P = b.hash P := Obj.eq_hash' hP a ha b hb h

/-! ### `==` on well-formed objects is symmetric -/

theorem pyEqLO_symm_of : ∀ (as bs : List Obj),
    (∀ a ∈ as, ∀ b ∈ bs, a.pyEq b = true → b.pyEq a = true) →
    Obj.pyEqL as bs = true → Obj.pyEqL bs as = true
  | [], [], _, _ => by simp [Obj.pyEqL]
  | [], _ :: _, _, h => by simp [Obj.pyEqL] at h
  | _ :: _, [], _, h => by simp [Obj.pyEqL] at h
  | a :: as, b :: bs, ih, h => by
    simp only [Obj.pyEqL, Bool.and_eq_true] at h ⊢
    refine ⟨ih a List.mem_cons_self b List.mem_cons_self h.1, pyEqLO_symm_of as bs ?_ h.2⟩
    intro a' ha' b' hb'
    exact ih a' (List.mem_cons_of_mem _ ha') b' (List.mem_cons_of_mem _ hb')

theorem pyEqKwO_symm_of {ns ms : List String} {vs ws : List Obj} (hn : ns.Nodup) (hm : ms.Nodup)
    (hl1 : ns.length = vs.length) (hl2 : ms.length = ws.length) (hl : ns.length = ms.length)
    (ih : ∀ v ∈ vs, ∀ w ∈ ws, v.pyEq w = true → w.pyEq v = true)
    (h : Obj.pyEqKw ns vs ms ws = true) : Obj.pyEqKw ms ws ns vs = true := by
  rw [pyEqKwO_iff hm] at h
  rw [pyEqKwO_iff hn]
  intro m w hmw
  have := assoc_match_symm (fun v w => Obj.pyEq v w = true) (ns.zip vs) (ms.zip ws)
    (by rw [List.map_fst_zip (by omega)]; exact hn) (by rw [List.map_fst_zip (by omega)]; exact hm)
    (by simp only [List.length_zip]; omega) h m w hmw
  obtain ⟨v, hv, hr⟩ := this
  exact ⟨v, hv, ih v (List.of_mem_zip hv).2 w (List.of_mem_zip hmw).2 hr⟩

theorem Obj.pyEq_symm' (a : Obj) :
    a.wf = true → ∀ b : Obj, b.wf = true → a.pyEq b = true → b.pyEq a = true := by
  induction a using Obj.induct with | _ a ih => ?_
  intro ha b hb h
  cases a <;> cases b <;>
    simp only [Obj.pyEq, Bool.false_eq_true, Bool.and_eq_true, beq_iff_eq] at h <;>
    simp only [Obj.children] at ih <;>
    simp only [Obj.wf, Bool.and_eq_true, Obj.wfL_iff, decide_eq_true_eq, beq_iff_eq] at ha hb <;>
    simp only [Obj.pyEq, Bool.and_eq_true, beq_iff_eq]
  case atom.atom c d => exact Const.pyEq_symm _ _ h
  case tuple.tuple xs ys =>
    exact pyEqLO_symm_of xs ys (fun a haa b hbb => ih a haa (ha a haa) b (hb b hbb)) h
  case list.list xs ys =>
    exact pyEqLO_symm_of xs ys (fun a haa b hbb => ih a haa (ha a haa) b (hb b hbb)) h
  case dict.dict ks vs ms ws =>
    exact ⟨h.1.symm, pyEqKwO_symm_of ha.1.1 hb.1.1 ha.1.2 hb.1.2 h.1
      (fun v hv w hw => ih v hv (ha.2 v hv) w (hb.2 w hw)) h.2⟩
  case inst.inst c k fs _ c' k' fs' _ =>
    exact ⟨⟨h.1.1.symm, h.1.2.symm⟩,
      pyEqLO_symm_of fs fs' (fun a haa b hbb => ih a haa (ha a haa) b (hb b hbb)) h.2⟩

theorem Obj.pyEq_symm (a b : Obj) (ha : a.wf = true) (hb : b.wf = true) (h : a.pyEq b = true) :
    b.pyEq a = true := Obj.pyEq_symm' a ha b hb h

/-! slots are irrelevant to `==` and to well-formedness -/

theorem lookupO_erase (k : String) : ∀ (ms : List String) (ws : List Obj),
    assocLookupO k ms (Obj.eraseL ws) = (assocLookupO k ms ws).map Obj.erase
  | [], _ => by simp [assocLookupO]
  | _ :: _, [] => by simp [assocLookupO, Obj.eraseL]
  | m :: ms, w :: ws => by
    simp only [assocLookupO, Obj.eraseL]
    split
    · simp
    · exact lookupO_erase k ms ws

mutual
theorem pyEq_erase_left : ∀ a b : Obj, a.erase.pyEq b = a.pyEq b
  | .atom _, b => rfl
  | .tuple xs, .tuple ys => by simp only [Obj.erase, Obj.pyEq, pyEqL_erase_left xs ys]
  | .tuple _, .atom _ => rfl
  | .tuple _, .list _ => rfl
  | .tuple _, .dict .. => rfl
  | .tuple _, .inst .. => rfl
  | .list xs, .list ys => by simp only [Obj.erase, Obj.pyEq, pyEqL_erase_left xs ys]
  | .list _, .atom _ => rfl
  | .list _, .tuple _ => rfl
  | .list _, .dict .. => rfl
  | .list _, .inst .. => rfl
  | .dict ks vs, .dict ms ws => by simp only [Obj.erase, Obj.pyEq, pyEqKw_erase_left ks vs ms ws]
  | .dict .., .atom _ => rfl
  | .dict .., .tuple _ => rfl
  | .dict .., .list _ => rfl
  | .dict .., .inst .. => rfl
  | .inst _ _ fs _, .inst _ _ fs' _ => by simp only [Obj.erase, Obj.pyEq, pyEqL_erase_left fs fs']
  | .inst .., .atom _ => rfl
  | .inst .., .tuple _ => rfl
  | .inst .., .list _ => rfl
  | .inst .., .dict .. => rfl
theorem pyEqL_erase_left : ∀ as bs : List Obj, Obj.pyEqL (Obj.eraseL as) bs = Obj.pyEqL as bs
  | [], [] => rfl
  | [], _ :: _ => rfl
  | _ :: _, [] => rfl
  | a :: as, b :: bs => by
    simp only [Obj.eraseL, Obj.pyEqL, pyEq_erase_left a b, pyEqL_erase_left as bs]
theorem pyEqKw_erase_left : ∀ (ns : List String) (vs : List Obj) (ms : List String) (ws : List Obj),
    Obj.pyEqKw ns (Obj.eraseL vs) ms ws = Obj.pyEqKw ns vs ms ws
  | [], _, _, _ => by simp [Obj.pyEqKw]
  | _ :: _, [], _, _ => by simp [Obj.pyEqKw, Obj.eraseL]
  | n :: ns, v :: vs, ms, ws => by
    simp only [Obj.eraseL, Obj.pyEqKw, pyEqKw_erase_left ns vs ms ws]
    cases assocLookupO n ms ws with
    | none => rfl
    | some w => simp only [pyEq_erase_left v w]
end

mutual
theorem pyEq_erase_right : ∀ a b : Obj, a.pyEq b.erase = a.pyEq b
  | .atom _, .atom _ => rfl
  | .atom _, .tuple _ => rfl
  | .atom _, .list _ => rfl
  | .atom _, .dict .. => rfl
  | .atom _, .inst .. => rfl
  | .tuple xs, .tuple ys => by simp only [Obj.erase, Obj.pyEq, pyEqL_erase_right xs ys]
  | .tuple _, .atom _ => rfl
  | .tuple _, .list _ => rfl
  | .tuple _, .dict .. => rfl
  | .tuple _, .inst .. => rfl
  | .list xs, .list ys => by simp only [Obj.erase, Obj.pyEq, pyEqL_erase_right xs ys]
  | .list _, .atom _ => rfl
  | .list _, .tuple _ => rfl
  | .list _, .dict .. => rfl
  | .list _, .inst .. => rfl
  | .dict ks vs, .dict ms ws => by simp only [Obj.erase, Obj.pyEq, pyEqKw_erase_right ks vs ms ws]
  | .dict .., .atom _ => rfl
  | .dict .., .tuple _ => rfl
  | .dict .., .list _ => rfl
  | .dict .., .inst .. => rfl
  | .inst _ _ fs _, .inst _ _ fs' _ => by simp only [Obj.erase, Obj.pyEq, pyEqL_erase_right fs fs']
  | .inst .., .atom _ => rfl
  | .inst .., .tuple _ => rfl
  | .inst .., .list _ => rfl
  | .inst .., .dict .. => rfl
theorem pyEqL_erase_right : ∀ as bs : List Obj, Obj.pyEqL as (Obj.eraseL bs) = Obj.pyEqL as bs
  | [], [] => rfl
  | [], _ :: _ => rfl
  | _ :: _, [] => rfl
  | a :: as, b :: bs => by
    simp only [Obj.eraseL, Obj.pyEqL, pyEq_erase_right a b, pyEqL_erase_right as bs]
theorem pyEqKw_erase_right : ∀ (ns : List String) (vs : List Obj) (ms : List String) (ws : List Obj),
    Obj.pyEqKw ns vs ms (Obj.eraseL ws) = Obj.pyEqKw ns vs ms ws
  | [], _, _, _ => by simp [Obj.pyEqKw]
  | _ :: _, [], _, _ => by simp [Obj.pyEqKw]
  | n :: ns, v :: vs, ms, ws => by
    simp only [Obj.pyEqKw, pyEqKw_erase_right ns vs ms ws, lookupO_erase]
    cases assocLookupO n ms ws with
    | none => rfl
    | some w => simp only [Option.map_some, pyEq_erase_right v w]
end

theorem pyEq_congr {a a' b b' : Obj} (ha : a.erase = a'.erase) (hb : b.erase = b'.erase) :
    a.pyEq b = a'.pyEq b' := by
  rw [← pyEq_erase_left a, ← pyEq_erase_right _ b, ha, hb, pyEq_erase_left, pyEq_erase_right]

theorem eraseL_length : ∀ xs : List Obj, (Obj.eraseL xs).length = xs.length
  | [] => rfl
  | _ :: xs => by simp [Obj.eraseL, eraseL_length xs]

mutual
theorem wf_erase : ∀ o : Obj, o.erase.wf = o.wf
  | .atom _ => rfl
  | .tuple xs => by simp only [Obj.erase, Obj.wf, wfL_eraseL xs]
  | .list xs => by simp only [Obj.erase, Obj.wf, wfL_eraseL xs]
  | .dict ks vs => by
      simp only [Obj.erase, Obj.wf, wfL_eraseL vs, eraseL_length]
  | .inst _ _ fs _ => by simp only [Obj.erase, Obj.wf, wfL_eraseL fs]
theorem wfL_eraseL : ∀ xs : List Obj, Obj.wfL (Obj.eraseL xs) = Obj.wfL xs
  | [] => rfl
  | x :: xs => by simp only [Obj.eraseL, Obj.wfL, wf_erase x, wfL_eraseL xs]
end

theorem wf_congr {a b : Obj} (h : a.erase = b.erase) : a.wf = b.wf := by
  rw [← wf_erase a, ← wf_erase b, h]

/-! ### `==` and `in` as coded, under the coherence invariant -/

theorem pyEq_false_of_hash_ne {P : HashParams} (hP : P.Ok) {a b : Obj} (wa : a.wf = true)
    (wb : b.wf = true) (h : a.hash P ≠ b.hash P) : a.pyEq b = false := by
  cases hab : a.pyEq b with
  | false => rfl
  | true => exact absurd (Obj.eq_hash hP a b wa wb hab) h

/-- what the theorems about `eqC` / `memberC` state: the answer is the field-wise `==`, both
objects stay coherent and keep their fields -/
structure CmpSpec (P : HashParams) (a b : Obj) (r : Bool × Obj × Obj) (ans : Bool) : Prop where
  ans : r.1 = ans
  coh1 : r.2.1.coherent P
  coh2 : r.2.2.coherent P
  er1 : r.2.1.erase = a.erase
  er2 : r.2.2.erase = b.erase

theorem eqC_spec {P : HashParams} (hP : P.Ok) (a b : Obj) (ha : a.coherent P) (hb : b.coherent P)
    (wa : a.wf = true) (wb : b.wf = true) : CmpSpec P a b (eqC P a b) (a.pyEq b) := by
  obtain ⟨a1, a2, a3⟩ := hashC_spec P a ha
  obtain ⟨b1, b2, b3⟩ := hashC_spec P b hb
  have key : CmpSpec P a b
      (if ((a.hashC P).1 != (b.hashC P).1) = true then (false, (a.hashC P).2, (b.hashC P).2)
       else (a.pyEq b, (a.hashC P).2, (b.hashC P).2)) (a.pyEq b) := by
    rw [a1, b1]
    by_cases hh : a.hash P = b.hash P
    · simp only [hh, bne_self_eq_false, Bool.false_eq_true, if_false]
      exact ⟨rfl, a2, b2, a3, b3⟩
    · have : (a.hash P != b.hash P) = true := by simpa using hh
      simp only [this, if_true]
      exact ⟨(pyEq_false_of_hash_ne hP wa wb hh).symm, a2, b2, a3, b3⟩
  cases a with
  | inst c k fs h =>
    cases k with
    | legacy => simpa only [eqC] using key
    | dataclass =>
      cases b with
      | inst c' k' fs' h' =>
        by_cases hc : c = c' ∧ Kind.dataclass = k'
        · obtain ⟨rfl, rfl⟩ := hc
          simpa only [eqC, bne_self_eq_false, Bool.or_self, Bool.false_eq_true, if_false, Obj.pyEq,
            beq_self_eq_true, Bool.true_and] using key
        · have h1 : (c != c' || Kind.dataclass != k') = true := by
            simp only [Bool.or_eq_true, bne_iff_ne, ne_eq]
            by_cases h1 : c = c'
            · exact Or.inr fun h2 => hc ⟨h1, h2⟩
            · exact Or.inl h1
          have h2 : (Obj.inst c .dataclass fs h).pyEq (.inst c' k' fs' h') = false := by
            simp only [Obj.pyEq, Bool.and_eq_false_imp, Bool.and_eq_true, beq_iff_eq]
            intro ⟨x, y⟩; exact absurd ⟨x, y⟩ hc
          simp only [eqC, h1, if_true, h2]
          exact ⟨rfl, ha, hb, rfl, rfl⟩
      | atom _ => exact ⟨rfl, ha, hb, rfl, rfl⟩
      | tuple _ => exact ⟨rfl, ha, hb, rfl, rfl⟩
      | list _ => exact ⟨rfl, ha, hb, rfl, rfl⟩
      | dict _ _ => exact ⟨rfl, ha, hb, rfl, rfl⟩
    | legacySub =>
      cases b with
      | inst c' k' fs' h' =>
        by_cases hc : c = c' ∧ Kind.legacySub = k'
        · obtain ⟨rfl, rfl⟩ := hc
          simpa only [eqC, bne_self_eq_false, Bool.or_self, Bool.false_eq_true, if_false, Obj.pyEq,
            beq_self_eq_true, Bool.true_and] using key
        · have h1 : (c != c' || Kind.legacySub != k') = true := by
            simp only [Bool.or_eq_true, bne_iff_ne, ne_eq]
            by_cases h1 : c = c'
            · exact Or.inr fun h2 => hc ⟨h1, h2⟩
            · exact Or.inl h1
          have h2 : (Obj.inst c .legacySub fs h).pyEq (.inst c' k' fs' h') = false := by
            simp only [Obj.pyEq, Bool.and_eq_false_imp, Bool.and_eq_true, beq_iff_eq]
            intro ⟨x, y⟩; exact absurd ⟨x, y⟩ hc
          simp only [eqC, h1, if_true, h2]
          exact ⟨rfl, ha, hb, rfl, rfl⟩
      | atom _ => exact ⟨rfl, ha, hb, rfl, rfl⟩
      | tuple _ => exact ⟨rfl, ha, hb, rfl, rfl⟩
      | list _ => exact ⟨rfl, ha, hb, rfl, rfl⟩
      | dict _ _ => exact ⟨rfl, ha, hb, rfl, rfl⟩
  | atom _ => exact ⟨rfl, ha, hb, rfl, rfl⟩
  | tuple _ => exact ⟨rfl, ha, hb, rfl, rfl⟩
  | list _ => exact ⟨rfl, ha, hb, rfl, rfl⟩
  | dict _ _ => exact ⟨rfl, ha, hb, rfl, rfl⟩

theorem memberC_spec {P : HashParams} (hP : P.Ok) (x y : Obj) (hx : x.coherent P)
    (hy : y.coherent P) (wx : x.wf = true) (wy : y.wf = true) :
    CmpSpec P x y (memberC P x y) (y.pyEq x) := by
  obtain ⟨x1, x2, x3⟩ := hashC_spec P x hx
  obtain ⟨y1, y2, y3⟩ := hashC_spec P y hy
  unfold memberC
  simp only [x1, y1]
  by_cases hh : x.hash P = y.hash P
  · simp only [hh, bne_self_eq_false, Bool.false_eq_true, if_false]
    have e := eqC_spec hP (y.hashC P).2 (x.hashC P).2 y2 x2
      (by rw [wf_congr y3]; exact wy) (by rw [wf_congr x3]; exact wx)
    exact ⟨by rw [e.ans]; exact pyEq_congr y3 x3, e.coh2, e.coh1, e.er2.trans x3, e.er1.trans y3⟩
  · have : (x.hash P != y.hash P) = true := by simpa using hh
    simp only [this, if_true]
    exact ⟨(pyEq_false_of_hash_ne hP wy wx (fun h => hh h.symm)).symm, x2, y2, x3, y3⟩

/-! ### re-compilation hashes the variables: still coherent, same fields -/

mutual
theorem hashVars_spec (P : HashParams) : ∀ o : Obj, o.coherent P →
    (o.hashVars P).coherent P ∧ (o.hashVars P).erase = o.erase
  | .atom _, _ => ⟨trivial, rfl⟩
  | .tuple xs, h => by
      simp only [Obj.coherent] at h
      obtain ⟨h1, h2⟩ := hashVarsL_spec P xs h
      exact ⟨by simpa only [Obj.hashVars, Obj.coherent] using h1,
        by simp only [Obj.hashVars, Obj.erase, h2]⟩
  | .list xs, h => by
      simp only [Obj.coherent] at h
      obtain ⟨h1, h2⟩ := hashVarsL_spec P xs h
      exact ⟨by simpa only [Obj.hashVars, Obj.coherent] using h1,
        by simp only [Obj.hashVars, Obj.erase, h2]⟩
  | .dict _ vs, h => by
      simp only [Obj.coherent] at h
      obtain ⟨h1, h2⟩ := hashVarsL_spec P vs h
      exact ⟨by simpa only [Obj.hashVars, Obj.coherent] using h1,
        by simp only [Obj.hashVars, Obj.erase, h2]⟩
  | .inst c k fs v, h => by
      by_cases hc : (c == "Variable") = true
      · obtain ⟨_, h2, h3⟩ := hashC_spec P _ h
        simp only [Obj.hashVars, hc, if_true]
        exact ⟨h2, h3⟩
      · have h' := h
        simp only [Obj.coherent] at h'
        obtain ⟨h1, h2⟩ := hashVarsL_spec P fs h'.2
        have h4 : Obj.hashL P (Obj.hashVarsL P fs) = Obj.hashL P fs := by
          rw [← hashL_eraseL P (Obj.hashVarsL P fs), h2, hashL_eraseL]
        simp only [Obj.hashVars, hc, Bool.false_eq_true, if_false]
        exact ⟨by simp only [Obj.coherent, h4]; exact ⟨h'.1, h1⟩, by simp only [Obj.erase, h2]⟩
theorem hashVarsL_spec (P : HashParams) : ∀ xs : List Obj, Obj.coherentL P xs →
    Obj.coherentL P (Obj.hashVarsL P xs) ∧ Obj.eraseL (Obj.hashVarsL P xs) = Obj.eraseL xs
  | [], _ => ⟨trivial, rfl⟩
  | x :: xs, h => by
      simp only [Obj.coherentL] at h
      obtain ⟨a1, a2⟩ := hashVars_spec P x h.1
      obtain ⟨b1, b2⟩ := hashVarsL_spec P xs h.2
      exact ⟨by simp only [Obj.hashVarsL, Obj.coherentL]; exact ⟨a1, b1⟩,
        by simp only [Obj.hashVarsL, Obj.eraseL, a2, b2]⟩
end

/-! ### Histories: the slot-free reference semantics and the simulation -/

/-- an output without the slot report -/
def Out.core : Out → Out
  | .hash f _ => .hash f []
  | .eq r _ _ => .eq r [] []
  | .member r _ _ => .member r [] []
  | o => o

/-- Reference semantics of an operation: no process, no slots.  `hash` returns the hash a freshly
built object has (reported as `fresh = true`), `==` and `in` are field-wise `==`. -/
def stepRef (w : World) : Op → World × Out
  | .hash i =>
    match w.pool[i]? with
    | some _ => (w, .hash true [])
    | none => (w, .bad)
  | .eq i j =>
    match w.pool[i]?, w.pool[j]? with
    | some a, some b => (w, .eq (if i = j then true else a.pyEq b) [] [])
    | _, _ => (w, .bad)
  | .member i j =>
    match w.pool[i]?, w.pool[j]? with
    | some x, some y => (w, .member (if i = j then true else y.pyEq x) [] [])
    | _, _ => (w, .bad)
  | .pickle i _ =>
    match w.pool[i]? with
    | some o => ({ w with blobs := w.blobs ++ [o.pickle] }, .pickled)
    | none => (w, .bad)
  | .unpickle k =>
    match w.blobs[k]? with
    | some p => ({ w with pool := w.pool ++ [p.unpickle] }, .unpickled p.unpickle)
    | none => (w, .bad)

def runRef : World → List Op → World × List Out
  | w, [] => (w, [])
  | w, op :: ops =>
    let r := stepRef w op
    let rs := runRef r.1 ops
    (rs.1, r.2 :: rs.2)

/-- producer then consumer, without processes -/
def crossRef (src : List Obj) (ops₁ ops₂ : List Op) : List Out × List Out :=
  let r₁ := runRef ⟨Obj.eraseL src, []⟩ ops₁
  let r₂ := runRef ⟨Obj.eraseL src, r₁.1.blobs⟩ ops₂
  (r₁.2, r₂.2)

def World.erased (w : World) : World := ⟨Obj.eraseL w.pool, w.blobs⟩
def World.coherent (P : HashParams) (w : World) : Prop := ∀ o ∈ w.pool, o.coherent P
def World.wf (w : World) : Prop :=
  (∀ o ∈ w.pool, o.wf = true) ∧ (∀ p ∈ w.blobs, p.unpickle.wf = true)

theorem eraseL_getElem? (l : List Obj) (i : Nat) : (Obj.eraseL l)[i]? = (l[i]?).map Obj.erase := by
  rw [eraseL_eq_map]; simp

theorem set_same {α : Type} : ∀ (l : List α) (i : Nat) (a : α), l[i]? = some a → l.set i a = l
  | [], _, _, h => by simp at h
  | x :: xs, 0, a, h => by simp at h; simp [h]
  | x :: xs, i + 1, a, h => by
    simp only [List.getElem?_cons_succ] at h
    simp [set_same xs i a h]

theorem eraseL_set_same (l : List Obj) (i : Nat) (a a' : Obj) (h : l[i]? = some a)
    (he : a'.erase = a.erase) : Obj.eraseL (l.set i a') = Obj.eraseL l := by
  rw [eraseL_eq_map, eraseL_eq_map, List.map_set, he]
  exact set_same _ _ _ (by simp [h])

theorem mem_set_imp {α : Type} {l : List α} {i : Nat} {a b : α} (h : b ∈ l.set i a) :
    b ∈ l ∨ b = a := List.mem_or_eq_of_mem_set h

theorem eraseL_append (l₁ l₂ : List Obj) :
    Obj.eraseL (l₁ ++ l₂) = Obj.eraseL l₁ ++ Obj.eraseL l₂ := by
  simp [eraseL_eq_map]

/-- one operation: the real step (slots, process `P`) refines the reference step -/
theorem step_sim {P : HashParams} (hP : P.Ok) (w : World) (hc : w.coherent P) (hw : w.wf)
    (op : Op) :
    (step P w op).1.coherent P ∧ (step P w op).1.wf ∧
      (step P w op).1.erased = (stepRef w.erased op).1 ∧
      (step P w op).2.core = (stepRef w.erased op).2 := by
  cases op with
  | hash i =>
    simp only [step, stepRef, World.erased, eraseL_getElem?]
    cases hi : w.pool[i]? with
    | none => exact ⟨hc, hw, rfl, rfl⟩
    | some o =>
      have ho := List.mem_of_getElem? hi
      obtain ⟨h1, h2, h3⟩ := hashC_spec P o (hc o ho)
      refine ⟨?_, ⟨?_, hw.2⟩, ?_, ?_⟩
      · intro x hx
        rcases mem_set_imp hx with hx | rfl
        · exact hc x hx
        · exact h2
      · intro x hx
        rcases mem_set_imp hx with hx | rfl
        · exact hw.1 x hx
        · rw [wf_congr h3]; exact hw.1 o ho
      · simp only [Option.map_some, eraseL_set_same _ _ _ _ hi h3]
      · simp [Out.core, h1]
  | eq i j =>
    simp only [step, stepRef, World.erased, eraseL_getElem?]
    cases hi : w.pool[i]? with
    | none => exact ⟨hc, hw, rfl, rfl⟩
    | some a =>
      cases hj : w.pool[j]? with
      | none => exact ⟨hc, hw, rfl, rfl⟩
      | some b =>
        simp only [Option.map_some]
        by_cases hij : i = j
        · simp only [hij, if_true]
          refine ⟨hc, hw, ?_, ?_⟩ <;> first | trivial | rfl | simp [Out.core]
        · have hma := List.mem_of_getElem? hi
          have hmb := List.mem_of_getElem? hj
          have e := eqC_spec hP a b (hc a hma) (hc b hmb) (hw.1 a hma) (hw.1 b hmb)
          simp only [hij, if_false]
          have hj' : (w.pool.set i (eqC P a b).2.1)[j]? = some b := by
            rw [List.getElem?_set_ne hij]; exact hj
          refine ⟨?_, ⟨?_, hw.2⟩, ?_, ?_⟩
          · intro x hx
            rcases mem_set_imp hx with hx | rfl
            · rcases mem_set_imp hx with hx | rfl
              · exact hc x hx
              · exact e.coh1
            · exact e.coh2
          · intro x hx
            rcases mem_set_imp hx with hx | rfl
            · rcases mem_set_imp hx with hx | rfl
              · exact hw.1 x hx
              · rw [wf_congr e.er1]; exact hw.1 a hma
            · rw [wf_congr e.er2]; exact hw.1 b hmb
          · simp only [eraseL_set_same _ _ _ _ hj' e.er2, eraseL_set_same _ _ _ _ hi e.er1]
          · simp only [Out.core, e.ans]
            rw [pyEq_congr (erase_erase a) (erase_erase b)]
  | member i j =>
    simp only [step, stepRef, World.erased, eraseL_getElem?]
    cases hi : w.pool[i]? with
    | none => exact ⟨hc, hw, rfl, rfl⟩
    | some x =>
      cases hj : w.pool[j]? with
      | none => exact ⟨hc, hw, rfl, rfl⟩
      | some y =>
        simp only [Option.map_some]
        have hmx := List.mem_of_getElem? hi
        have hmy := List.mem_of_getElem? hj
        by_cases hij : i = j
        · simp only [hij, if_true]
          obtain ⟨h1, h2, h3⟩ := hashC_spec P y (hc y hmy)
          refine ⟨?_, ⟨?_, hw.2⟩, ?_, rfl⟩
          · intro z hz
            rcases mem_set_imp hz with hz | rfl
            · exact hc z hz
            · exact h2
          · intro z hz
            rcases mem_set_imp hz with hz | rfl
            · exact hw.1 z hz
            · rw [wf_congr h3]; exact hw.1 y hmy
          · simp only [eraseL_set_same _ _ _ _ hj h3]
        · have e := memberC_spec hP x y (hc x hmx) (hc y hmy) (hw.1 x hmx) (hw.1 y hmy)
          simp only [hij, if_false]
          have hj' : (w.pool.set i (memberC P x y).2.1)[j]? = some y := by
            rw [List.getElem?_set_ne hij]; exact hj
          refine ⟨?_, ⟨?_, hw.2⟩, ?_, ?_⟩
          · intro z hz
            rcases mem_set_imp hz with hz | rfl
            · rcases mem_set_imp hz with hz | rfl
              · exact hc z hz
              · exact e.coh1
            · exact e.coh2
          · intro z hz
            rcases mem_set_imp hz with hz | rfl
            · rcases mem_set_imp hz with hz | rfl
              · exact hw.1 z hz
              · rw [wf_congr e.er1]; exact hw.1 x hmx
            · rw [wf_congr e.er2]; exact hw.1 y hmy
          · simp only [eraseL_set_same _ _ _ _ hj' e.er2, eraseL_set_same _ _ _ _ hi e.er1]
          · simp only [Out.core, e.ans]
            rw [pyEq_congr (erase_erase y) (erase_erase x)]
  | pickle i pr =>
    simp only [step, stepRef, World.erased, eraseL_getElem?]
    cases hi : w.pool[i]? with
    | none => exact ⟨hc, hw, rfl, rfl⟩
    | some o =>
      have ho := List.mem_of_getElem? hi
      refine ⟨hc, ⟨hw.1, ?_⟩, ?_, rfl⟩
      · intro p hp
        rcases List.mem_append.1 hp with hp | hp
        · exact hw.2 p hp
        · simp only [List.mem_singleton] at hp
          subst hp
          rw [unpickle_pickle, wf_erase]; exact hw.1 o ho
      · simp only [Option.map_some, pickle_erase]
  | unpickle k =>
    simp only [step, stepRef, World.erased]
    cases hk : w.blobs[k]? with
    | none => exact ⟨hc, hw, rfl, rfl⟩
    | some p =>
      have hp := List.mem_of_getElem? hk
      refine ⟨?_, ⟨?_, hw.2⟩, ?_, rfl⟩
      · intro x hx
        rcases List.mem_append.1 hx with hx | hx
        · exact hc x hx
        · simp only [List.mem_singleton] at hx
          subst hx
          exact noCache_coherent P _ (unpickle_noCache p)
      · intro x hx
        rcases List.mem_append.1 hx with hx | hx
        · exact hw.1 x hx
        · simp only [List.mem_singleton] at hx
          subst hx
          exact hw.2 p hp
      · simp only [eraseL_append, Obj.eraseL, noCache_erase _ (unpickle_noCache p)]

theorem run_sim {P : HashParams} (hP : P.Ok) : ∀ (ops : List Op) (w : World), w.coherent P → w.wf →
    (run P w ops).1.coherent P ∧ (run P w ops).1.wf ∧
      (run P w ops).1.erased = (runRef w.erased ops).1 ∧
      (run P w ops).2.map Out.core = (runRef w.erased ops).2
  | [], w, hc, hw => ⟨hc, hw, rfl, rfl⟩
  | op :: ops, w, hc, hw => by
    obtain ⟨s1, s2, s3, s4⟩ := step_sim hP w hc hw op
    obtain ⟨r1, r2, r3, r4⟩ := run_sim hP ops (step P w op).1 s1 s2
    simp only [run, runRef, List.map_cons]
    rw [s3] at r3 r4
    exact ⟨r1, r2, r3, by rw [s4, r4]⟩

/-- the slot-free reference run reports every `hash` as the fresh hash -/
def Out.hashFresh : Out → Bool
  | .hash f _ => f
  | _ => true

theorem stepRef_fresh (w : World) (op : Op) : Out.hashFresh (stepRef w op).2 = true := by
  cases op <;> simp only [stepRef] <;> repeat' split
  all_goals rfl

theorem runRef_fresh : ∀ (ops : List Op) (w : World), ∀ o ∈ (runRef w ops).2, Out.hashFresh o = true
  | [], _, o, h => by simp [runRef] at h
  | op :: ops, w, o, h => by
    simp only [runRef, List.mem_cons] at h
    rcases h with rfl | h
    · exact stepRef_fresh w op
    · exact runRef_fresh ops _ o h

theorem core_fresh (o : Out) : Out.hashFresh o.core = Out.hashFresh o := by
  cases o <;> rfl

theorem eraseL_mem {src : List Obj} {o : Obj} (h : o ∈ Obj.eraseL src) : ∃ s ∈ src, o = s.erase := by
  rw [eraseL_eq_map] at h
  obtain ⟨s, hs, rfl⟩ := List.mem_map.1 h
  exact ⟨s, hs, rfl⟩

/-! ### the stock node classes as objects -/

theorem ofExprL_eq_map : ∀ xs : List Expr, ofExprL xs = xs.map ofExpr
  | [] => rfl
  | x :: xs => by simp [ofExprL, ofExprL_eq_map xs]

theorem noCacheL_strAtoms : ∀ vs : List String, Obj.noCacheL (vs.map strAtom) = true
  | [] => rfl
  | _ :: vs => by simp [Obj.noCacheL, Obj.noCache, strAtom, noCacheL_strAtoms vs]

mutual
/-- an expression built from source has no slot set -/
theorem ofExpr_noCache : ∀ e : Expr, (ofExpr e).noCache = true
  | .const _ => rfl
  | .var _ => rfl
  | .nary _ cs => by simp [ofExpr, Obj.noCache, Obj.noCacheL, ofExprL_noCacheL cs]
  | .bin _ a b => by simp [ofExpr, Obj.noCache, Obj.noCacheL, ofExpr_noCache a, ofExpr_noCache b]
  | .un _ a => by simp [ofExpr, Obj.noCache, Obj.noCacheL, ofExpr_noCache a]
  | .cmp _ a b => by
      simp [ofExpr, Obj.noCache, Obj.noCacheL, strAtom, ofExpr_noCache a, ofExpr_noCache b]
  | .ite c t e => by
      simp [ofExpr, Obj.noCache, Obj.noCacheL, ofExpr_noCache c, ofExpr_noCache t, ofExpr_noCache e]
  | .call f as => by
      simp [ofExpr, Obj.noCache, Obj.noCacheL, ofExpr_noCache f, ofExprL_noCacheL as]
  | .callKw f as _ vs => by
      simp [ofExpr, Obj.noCache, Obj.noCacheL, ofExpr_noCache f, ofExprL_noCacheL as,
        ofExprL_noCacheL vs]
  | .subscript a i => by
      simp [ofExpr, Obj.noCache, Obj.noCacheL, ofExpr_noCache a, ofExpr_noCache i]
  | .lookup a _ => by simp [ofExpr, Obj.noCache, Obj.noCacheL, strAtom, ofExpr_noCache a]
  | .cse c p _ => by
      cases p <;> simp [ofExpr, Obj.noCache, Obj.noCacheL, strAtom, ofExpr_noCache c]
  | .subst c vs xs => by
      simp [ofExpr, Obj.noCache, Obj.noCacheL, ofExpr_noCache c, ofExprL_noCacheL xs,
        noCacheL_strAtoms vs]
  | .deriv c vs => by
      simp [ofExpr, Obj.noCache, Obj.noCacheL, ofExpr_noCache c, noCacheL_strAtoms vs]
  | .slice cs => by simp [ofExpr, Obj.noCache, Obj.noCacheL, ofExprL_noCacheL cs]
  | .nan => rfl
  | .wildcard => rfl
  | .dotWild _ => rfl
  | .starWild _ => rfl
  | .funcSym => rfl
  | .tuple cs => by simp [ofExpr, Obj.noCache, ofExprL_noCacheL cs]
  | .list cs => by simp [ofExpr, Obj.noCache, ofExprL_noCacheL cs]
theorem ofExprL_noCacheL : ∀ es : List Expr, Obj.noCacheL (ofExprL es) = true
  | [] => rfl
  | e :: es => by simp [ofExprL, Obj.noCacheL, ofExpr_noCache e, ofExprL_noCacheL es]
end

theorem wfL_strAtoms : ∀ vs : List String, Obj.wfL (vs.map strAtom) = true
  | [] => rfl
  | _ :: vs => by simp [Obj.wfL, Obj.wf, strAtom, Const.wf, wfL_strAtoms vs]

theorem ofExprL_length (es : List Expr) : (ofExprL es).length = es.length := by
  simp [ofExprL_eq_map]

mutual
/-- well-formed expressions are well-formed objects -/
theorem ofExpr_wf : ∀ e : Expr, e.wf = true → (ofExpr e).wf = true
  | .const _, h => by simpa [ofExpr, Obj.wf, Expr.wf] using h
  | .var _, _ => rfl
  | .nary _ cs, h => by
      simp only [Expr.wf] at h; simp [ofExpr, Obj.wf, Obj.wfL, ofExprL_wfL cs h]
  | .bin _ a b, h => by
      simp only [Expr.wf, Bool.and_eq_true] at h
      simp [ofExpr, Obj.wf, Obj.wfL, ofExpr_wf a h.1, ofExpr_wf b h.2]
  | .un _ a, h => by
      simp only [Expr.wf] at h; simp [ofExpr, Obj.wf, Obj.wfL, ofExpr_wf a h]
  | .cmp _ a b, h => by
      simp only [Expr.wf, Bool.and_eq_true] at h
      simp [ofExpr, Obj.wf, Obj.wfL, strAtom, Const.wf, ofExpr_wf a h.1, ofExpr_wf b h.2]
  | .ite c t e, h => by
      simp only [Expr.wf, Bool.and_eq_true] at h
      simp [ofExpr, Obj.wf, Obj.wfL, ofExpr_wf c h.1.1, ofExpr_wf t h.1.2, ofExpr_wf e h.2]
  | .call f as, h => by
      simp only [Expr.wf, Bool.and_eq_true] at h
      simp [ofExpr, Obj.wf, Obj.wfL, ofExpr_wf f h.1, ofExprL_wfL as h.2]
  | .callKw f as ns vs, h => by
      simp only [Expr.wf, Bool.and_eq_true, decide_eq_true_eq, beq_iff_eq] at h
      simp [ofExpr, Obj.wf, Obj.wfL, ofExpr_wf f h.1.1.1.1, ofExprL_wfL as h.1.1.1.2,
        ofExprL_wfL vs h.2, h.1.1.2, h.1.2, ofExprL_length]
  | .subscript a i, h => by
      simp only [Expr.wf, Bool.and_eq_true] at h
      simp [ofExpr, Obj.wf, Obj.wfL, ofExpr_wf a h.1, ofExpr_wf i h.2]
  | .lookup a _, h => by
      simp only [Expr.wf] at h; simp [ofExpr, Obj.wf, Obj.wfL, strAtom, Const.wf, ofExpr_wf a h]
  | .cse c p _, h => by
      simp only [Expr.wf] at h
      cases p <;> simp [ofExpr, Obj.wf, Obj.wfL, strAtom, Const.wf, ofExpr_wf c h]
  | .subst c vs xs, h => by
      simp only [Expr.wf, Bool.and_eq_true] at h
      simp [ofExpr, Obj.wf, Obj.wfL, ofExpr_wf c h.1, ofExprL_wfL xs h.2, wfL_strAtoms vs]
  | .deriv c vs, h => by
      simp only [Expr.wf] at h
      simp [ofExpr, Obj.wf, Obj.wfL, ofExpr_wf c h, wfL_strAtoms vs]
  | .slice cs, h => by
      simp only [Expr.wf] at h; simp [ofExpr, Obj.wf, Obj.wfL, ofExprL_wfL cs h]
  | .nan, _ => rfl
  | .wildcard, _ => rfl
  | .dotWild _, _ => rfl
  | .starWild _, _ => rfl
  | .funcSym, _ => rfl
  | .tuple cs, h => by simp only [Expr.wf] at h; simp [ofExpr, Obj.wf, ofExprL_wfL cs h]
  | .list cs, h => by simp only [Expr.wf] at h; simp [ofExpr, Obj.wf, ofExprL_wfL cs h]
theorem ofExprL_wfL : ∀ es : List Expr, Expr.wfL es = true → Obj.wfL (ofExprL es) = true
  | [], _ => rfl
  | e :: es, h => by
      simp only [Expr.wfL, Bool.and_eq_true] at h
      simp [ofExprL, Obj.wfL, ofExpr_wf e h.1, ofExprL_wfL es h.2]
end

theorem strAtom_pyEq (s t : String) : (strAtom s).pyEq (strAtom t) = (s == t) := by
  simp [strAtom, Obj.pyEq, Const.pyEq, Const.numVal?]

theorem strAtoms_pyEqL : ∀ vs : List String, Obj.pyEqL (vs.map strAtom) (vs.map strAtom) = true
  | [] => rfl
  | v :: vs => by simp [Obj.pyEqL, strAtom_pyEq, strAtoms_pyEqL vs]

theorem lookupO_ofExpr (k : String) : ∀ (ms : List String) (ws : List Expr),
    assocLookupO k ms (ofExprL ws) = (assocLookupE k ms ws).map ofExpr
  | [], _ => by simp [assocLookupO, assocLookupE]
  | _ :: _, [] => by simp [assocLookupO, assocLookupE, ofExprL]
  | m :: ms, w :: ws => by
    simp only [assocLookupO, assocLookupE, ofExprL]
    split
    · simp
    · exact lookupO_ofExpr k ms ws

/-- the local induction predicate of `ofExpr_pyEq` -/
def OfEqOK (a : Expr) : Prop := ∀ b : Expr, a.pyEq b = true → (ofExpr a).pyEq (ofExpr b) = true

theorem ofExprL_pyEqL : ∀ (as bs : List Expr), (∀ a ∈ as, OfEqOK a) →
    Expr.pyEqL as bs = true → Obj.pyEqL (ofExprL as) (ofExprL bs) = true
  | [], [], _, _ => rfl
  | [], _ :: _, _, h => by simp [Expr.pyEqL] at h
  | _ :: _, [], _, h => by simp [Expr.pyEqL] at h
  | a :: as, b :: bs, ih, h => by
    simp only [Expr.pyEqL, Bool.and_eq_true] at h
    simp only [List.forall_mem_cons] at ih
    simp only [ofExprL, Obj.pyEqL, Bool.and_eq_true]
    exact ⟨ih.1 b h.1, ofExprL_pyEqL as bs ih.2 h.2⟩

theorem ofExprL_pyEqKw : ∀ (ns : List String) (vs : List Expr) (ms : List String) (ws : List Expr),
    (∀ v ∈ vs, OfEqOK v) → Expr.pyEqKw ns vs ms ws = true →
    Obj.pyEqKw ns (ofExprL vs) ms (ofExprL ws) = true
  | [], _, _, _, _, _ => by simp [Obj.pyEqKw]
  | _ :: _, [], _, _, _, _ => by simp [Obj.pyEqKw, ofExprL]
  | n :: ns, v :: vs, ms, ws, ih, h => by
    simp only [Expr.pyEqKw, Bool.and_eq_true] at h
    simp only [List.forall_mem_cons] at ih
    simp only [ofExprL, Obj.pyEqKw, Bool.and_eq_true, lookupO_ofExpr]
    refine ⟨?_, ofExprL_pyEqKw ns vs ms ws ih.2 h.2⟩
    cases hl : assocLookupE n ms ws with
    | none => simp [hl] at h
    | some w =>
      simp only [hl] at h
      simpa using ih.1 w h.1

/-- `==` expressions are `==` objects: the object-level theorems apply to every pair of stock
expressions that the generated `__eq__` (C01) identifies -/
theorem ofExpr_pyEq (a : Expr) : OfEqOK a := by
  induction a using Expr.induct with | _ a ih => ?_
  intro b h
  cases a <;> cases b <;>
    simp only [Expr.pyEq, Bool.false_eq_true, Bool.and_eq_true, beq_iff_eq] at h <;>
    simp only [Expr.children, List.forall_mem_cons, List.not_mem_nil, false_imp_iff, implies_true,
      and_true, List.mem_append] at ih <;>
    simp only [ofExpr, Obj.pyEq, Obj.pyEqL, Bool.and_eq_true, beq_self_eq_true, true_and, and_true,
      strAtom_pyEq, beq_iff_eq]
  case const.const => exact h
  case var.var => exact h
  case nary.nary o cs o' cs' => exact ⟨congrArg _ h.1, ofExprL_pyEqL cs cs' ih h.2⟩
  case bin.bin o x y o' x' y' => exact ⟨congrArg _ h.1.1, ih.1 x' h.1.2, ih.2 y' h.2⟩
  case un.un o x o' x' => exact ⟨congrArg _ h.1, ih x' h.2⟩
  case cmp.cmp o x y o' x' y' => exact ⟨ih.1 x' h.1.2, congrArg _ h.1.1, ih.2 y' h.2⟩
  case ite.ite c t e c' t' e' => exact ⟨ih.1 c' h.1.1, ih.2.1 t' h.1.2, ih.2.2 e' h.2⟩
  case call.call f as f' as' => exact ⟨ih.1 f' h.1, ofExprL_pyEqL as as' ih.2 h.2⟩
  case callKw.callKw f as ns vs f' as' ns' vs' =>
    exact ⟨ih.1 f' h.1.1.1, ofExprL_pyEqL as as' (fun c hc => ih.2 c (Or.inl hc)) h.1.1.2, h.1.2,
      ofExprL_pyEqKw ns vs ns' vs' (fun c hc => ih.2 c (Or.inr hc)) h.2⟩
  case subscript.subscript x y x' y' => exact ⟨ih.1 x' h.1, ih.2 y' h.2⟩
  case lookup.lookup x n x' n' => exact ⟨ih x' h.1, h.2⟩
  case cse.cse x p s x' p' s' =>
    obtain ⟨⟨h1, rfl⟩, rfl⟩ := h
    refine ⟨ih x' h1, ?_, rfl⟩
    cases p <;> simp [strAtom_pyEq, Obj.pyEq, Const.pyEq, Const.numVal?]
  case subst.subst x vs xs x' vs' xs' =>
    obtain ⟨⟨h1, rfl⟩, h3⟩ := h
    exact ⟨ih.1 x' h1, strAtoms_pyEqL vs, ofExprL_pyEqL xs xs' ih.2 h3⟩
  case deriv.deriv x vs x' vs' =>
    obtain ⟨h1, rfl⟩ := h
    exact ⟨ih x' h1, strAtoms_pyEqL vs⟩
  case slice.slice cs cs' => exact ofExprL_pyEqL cs cs' ih h
  case dotWild.dotWild => exact h
  case starWild.starWild => exact h
  case tuple.tuple cs cs' => exact ofExprL_pyEqL cs cs' ih h
  case list.list cs cs' => exact ofExprL_pyEqL cs cs' ih h
  all_goals first | rfl | trivial | simp [Obj.pyEq, Const.pyEq, Const.numVal?]

/-! ### the driver's hash parameters are an instance of `HashParams.Ok`, for every seed -/

theorem ediv_of_cross {a a' : Int} {d d' : Nat} (hd : d ≠ 0) (hd' : d' ≠ 0)
    (h : a * (d' : Int) = a' * (d : Int)) : a / (d : Int) = a' / (d' : Int) := by
  have p : (0 : Int) < d := by omega
  have p' : (0 : Int) < d' := by omega
  calc a / (d : Int) = (d' * a) / (d' * d) := (Int.mul_ediv_mul_of_pos a d p').symm
    _ = (d * a') / (d * d') := by rw [Int.mul_comm (d' : Int) a, h, Int.mul_comm a', Int.mul_comm (d' : Int)]
    _ = a' / (d' : Int) := Int.mul_ediv_mul_of_pos a' d' p

theorem toyParams_ok (seed : Nat) : (toyParams seed).Ok := by
  constructor
  · intro n d n' d' hd hd' h
    have h2 : (n * 1000003) * (d' : Int) = (n' * 1000003) * (d : Int) := by
      rw [Int.mul_right_comm, h, Int.mul_right_comm]
    show toyNum n d = toyNum n' d'
    simp only [toyNum, ediv_of_cross hd hd' h, ediv_of_cross hd hd' h2]
  · intro l l' hp
    show (l.map _).sum % toyM = (l'.map _).sum % toyM
    rw [(hp.map _).sum_nat]

end PV.Pickle
