import PV.Model.Parser
/-
  C06/C07.  Big-step reading of the fuel-indexed parser model: "for every fuel ≥ k the call
  returns `res`".  The lemmas below are the constructors of the relational semantics of
  `design-experiments/B5_PrattDefs.lean`, proved as facts about the executable functions.
-/
set_option linter.unusedSimpArgs false
namespace PV.Syntax
open PV

/-- `parseExpr` returns `res` for every fuel ≥ `k` -/
def PEok (P : ParserPrec) (k m : Nat) (ts : List Tok) (res : Expr × List Tok) : Prop :=
  ∀ j, k ≤ j → parseExpr P j m ts = .ok res

def PPok (P : ParserPrec) (k : Nat) (ts : List Tok) (res : (Expr × Bool) × List Tok) : Prop :=
  ∀ j, k ≤ j → parsePrefix P j ts = .ok res

def PLok (P : ParserPrec) (k m : Nat) (left : Expr) (fin : Bool) (ts : List Tok)
    (res : Expr × List Tok) : Prop :=
  ∀ j, k ≤ j → postfixLoop P j m left fin ts = .ok res

variable {P : ParserPrec}

theorem PEok.mono {k k' m ts res} (h : PEok P k m ts res) (hk : k ≤ k') : PEok P k' m ts res :=
  fun j hj => h j (Nat.le_trans hk hj)
theorem PPok.mono {k k' ts res} (h : PPok P k ts res) (hk : k ≤ k') : PPok P k' ts res :=
  fun j hj => h j (Nat.le_trans hk hj)
theorem PLok.mono {k k' m l f ts res} (h : PLok P k m l f ts res) (hk : k ≤ k') :
    PLok P k' m l f ts res :=
  fun j hj => h j (Nat.le_trans hk hj)

theorem PE_mk {k1 k2 m ts l fin r1 res} (hp : PPok P k1 ts ((l, fin), r1))
    (hl : PLok P k2 m l fin r1 res) : PEok P (max k1 k2 + 1) m ts res := by
  intro j hj
  obtain ⟨j', rfl⟩ : ∃ j', j = j' + 1 := ⟨j - 1, by omega⟩
  simp only [parseExpr]
  rw [hp j' (by omega)]
  simp only [bind, Except.bind]
  exact hl j' (by omega)

/-! ### prefix forms -/

theorem PP_int {n : Nat} {r : List Tok} : PPok P 1 (.int n :: r) ((.const (.int n), false), r) := by
  intro j hj
  obtain ⟨j', rfl⟩ : ∃ j', j = j' + 1 := ⟨j - 1, by omega⟩
  simp [parsePrefix, pure, Except.pure]

theorem PP_flt {s n d} {r : List Tok} :
    PPok P 1 (.flt s n d :: r) ((.const (.flt s n d), false), r) := by
  intro j hj
  obtain ⟨j', rfl⟩ : ∃ j', j = j' + 1 := ⟨j - 1, by omega⟩
  simp [parsePrefix, pure, Except.pure]

theorem PP_true {r : List Tok} : PPok P 1 (.tTrue :: r) ((.const (.bool true), false), r) := by
  intro j hj
  obtain ⟨j', rfl⟩ : ∃ j', j = j' + 1 := ⟨j - 1, by omega⟩
  simp [parsePrefix, pure, Except.pure]

theorem PP_false {r : List Tok} : PPok P 1 (.tFalse :: r) ((.const (.bool false), false), r) := by
  intro j hj
  obtain ⟨j', rfl⟩ : ∃ j', j = j' + 1 := ⟨j - 1, by omega⟩
  simp [parsePrefix, pure, Except.pure]

theorem PP_ident {s : String} {r : List Tok} : PPok P 1 (.ident s :: r) ((.var s, false), r) := by
  intro j hj
  obtain ⟨j', rfl⟩ : ∃ j', j = j' + 1 := ⟨j - 1, by omega⟩
  simp [parsePrefix, pure, Except.pure]

theorem PP_bnot {k ts e r} (h : PEok P k P.unary ts (e, r)) :
    PPok P (k + 1) (.sym "~" :: ts) ((.un .bnot e, false), r) := by
  intro j hj
  obtain ⟨j', rfl⟩ : ∃ j', j = j' + 1 := ⟨j - 1, by omega⟩
  simp [parsePrefix, h j' (by omega), bind, Except.bind, pure, Except.pure]

theorem PP_lnot {k ts e r} (h : PEok P k P.unary ts (e, r)) :
    PPok P (k + 1) (.sym "not" :: ts) ((.un .lnot e, false), r) := by
  intro j hj
  obtain ⟨j', rfl⟩ : ∃ j', j = j' + 1 := ⟨j - 1, by omega⟩
  simp [parsePrefix, h j' (by omega), bind, Except.bind, pure, Except.pure]

theorem PP_neg {k ts e n r} (h : PEok P k P.unary ts (e, r)) (hn : parseNeg e = .ok n) :
    PPok P (k + 1) (.sym "-" :: ts) ((n, false), r) := by
  intro j hj
  obtain ⟨j', rfl⟩ : ∃ j', j = j' + 1 := ⟨j - 1, by omega⟩
  simp [parsePrefix, h j' (by omega), hn, bind, Except.bind, pure, Except.pure]


theorem PEok_not_rparen {k m ts res} (h : PEok P k m ts res) : isSym ")" ts = false := by
  cases ts with
  | nil => rfl
  | cons t ts =>
    cases t with
    | sym s =>
      by_cases hs : s = ")"
      · subst hs
        have := h (k + 2) (by omega)
        simp [parseExpr, parsePrefix, bind, Except.bind] at this
      · simp [isSym, hs]
    | _ => rfl

theorem PEok_ne_nil {k m ts res} (h : PEok P k m ts res) : ts ≠ [] := by
  rintro rfl
  have := h (k + 2) (by omega)
  simp [parseExpr, parsePrefix, bind, Except.bind] at this

/-- `( e )` for a non-tuple `e` -/
theorem PP_paren {k ts e r} (h : PEok P k 0 ts (e, .sym ")" :: r))
    (hne : ∀ cs, e ≠ .tuple cs) :
    PPok P (k + 1) (.sym "(" :: ts) ((e, false), r) := by
  have hts := PEok_not_rparen h
  intro j hj
  obtain ⟨j', rfl⟩ : ∃ j', j = j' + 1 := ⟨j - 1, by omega⟩
  simp only [parsePrefix, hts, h j' (by omega)]
  cases e <;> simp_all [isSym, bind, Except.bind, pure, Except.pure]

/-! ### the binary operators of the postfix loop -/

inductive Infix where
  | plus | times | quot | floordiv | rem | pow | lshift | rshift | band | bxor | bor | land | lor
  | cmp (o : CmpOp)
  deriving Repr, DecidableEq

def Infix.sym : Infix → String
  | .plus => "+" | .times => "*" | .quot => "/" | .floordiv => "//" | .rem => "%" | .pow => "**"
  | .lshift => "<<" | .rshift => ">>" | .band => "&" | .bxor => "^" | .bor => "|"
  | .land => "and" | .lor => "or" | .cmp o => o.sym

/-- the loop absorbs the operator iff `guard > minPrec` -/
def Infix.guard (P : ParserPrec) : Infix → Nat
  | .plus => P.plus | .times | .quot | .floordiv | .rem => P.times | .pow => P.power
  | .lshift | .rshift => P.shift | .band => P.band | .bxor => P.bxor | .bor => P.bor
  | .land => P.land | .lor => P.lor | .cmp _ => P.comparison

/-- the level at which the right operand is parsed -/
def Infix.rhs (P : ParserPrec) : Infix → Nat
  | .plus => P.plus | .times => P.plus | .quot | .floordiv | .rem => P.times | .pow => P.times
  | .lshift | .rshift => P.shift | .band => P.band | .bxor => P.bxor | .bor => P.bor
  | .land => P.land | .lor => P.lor | .cmp _ => P.comparison

/-- the node the loop builds -/
def Infix.build : Infix → Expr → Expr → Expr
  | .plus, l, r => spliceNary .sum l r
  | .times, l, r => spliceNary .prod l r
  | .quot, l, r => .bin .quot l r
  | .floordiv, l, r => .bin .floordiv l r
  | .rem, l, r => .bin .rem l r
  | .pow, l, r => .bin .pow l r
  | .lshift, l, r => .bin .lshift l r
  | .rshift, l, r => .bin .rshift l r
  | .band, l, r => .nary .band [l, r]
  | .bxor, l, r => .nary .bxor [l, r]
  | .bor, l, r => .nary .bor [l, r]
  | .land, l, r => .nary .land [l, r]
  | .lor, l, r => .nary .lor [l, r]
  | .cmp o, l, r => .cmp o l r

theorem PL_infix (o : Infix) {k1 k2 m ts l fin r r1 res} (hg : o.guard P > m)
    (hr : PEok P k1 (o.rhs P) ts (r, r1)) (hl : PLok P k2 m (o.build l r) false r1 res) :
    PLok P (max k1 k2 + 1) m l fin (.sym o.sym :: ts) res := by
  intro j hj
  obtain ⟨j', rfl⟩ : ∃ j', j = j' + 1 := ⟨j - 1, by omega⟩
  have h1 := hr j' (by omega)
  have h2 := hl j' (by omega)
  cases o with
  | cmp c => cases c <;>
      simp_all [postfixLoop, Infix.sym, Infix.guard, Infix.rhs, Infix.build, CmpOp.sym,
        CmpOp.ofSym?, bind, Except.bind]
  | _ =>
      simp_all [postfixLoop, Infix.sym, Infix.guard, Infix.rhs, Infix.build, bind, Except.bind]


/-! ### when the loop stops -/

/-- the guard of a token in the postfix loop: the loop at level `m` reacts to the token iff
`guard > m`; `none`: the loop never reacts to it -/
def tokGuard (P : ParserPrec) : Tok → Option Nat
  | .sym "(" | .sym "[" | .sym "." => some P.call
  | .sym "if" => some P.ifp
  | .sym "+" | .sym "-" => some P.plus
  | .sym "*" | .sym "/" | .sym "//" | .sym "%" => some P.times
  | .sym "**" => some P.power
  | .sym "and" => some P.land
  | .sym "or" => some P.lor
  | .sym "|" => some P.bor
  | .sym "^" => some P.bxor
  | .sym "&" => some P.band
  | .sym ">>" | .sym "<<" => some P.shift
  | .sym ":" => some (P.slice + 1)
  | .sym "," => some P.comma
  | .sym "==" | .sym "!=" | .sym "<" | .sym "<=" | .sym ">" | .sym ">=" => some P.comparison
  | _ => none

/-- the loop at level `m` reacts to the first token of `ts` -/
def absorbs (P : ParserPrec) (m : Nat) : List Tok → Prop
  | [] => False
  | t :: _ => match tokGuard P t with
    | some g => g > m
    | none => False

instance (m : Nat) (ts : List Tok) : Decidable (absorbs P m ts) := by
  unfold absorbs; split
  · exact instDecidableFalse
  · split <;> infer_instance

theorem tokGuard_cmp {s : String} {op : CmpOp} (h : CmpOp.ofSym? s = some op) :
    tokGuard P (.sym s) = some P.comparison := by
  unfold CmpOp.ofSym? at h
  split at h <;> simp_all [tokGuard]

theorem PL_stop {m left fin ts} (h : ¬ absorbs P m ts) : PLok P 1 m left fin ts (left, ts) := by
  intro j hj
  obtain ⟨j', rfl⟩ : ∃ j', j = j' + 1 := ⟨j - 1, by omega⟩
  cases ts with
  | nil => simp [postfixLoop, pure, Except.pure]
  | cons t ts =>
    cases t with
    | sym s =>
      simp only [absorbs] at h
      simp only [postfixLoop]
      split
      case h_21 =>
        split
        · rename_i heq _ op hop
          cases heq
          rw [tokGuard_cmp hop] at h
          simp only [gt_iff_lt, Nat.not_lt] at h
          rw [if_neg (by omega)]; rfl
        · rfl
      all_goals simp_all [tokGuard, pure, Except.pure]
      all_goals first | (intro hh; omega) | omega
    | _ => simp [postfixLoop, pure, Except.pure]


theorem PL_ite {k1 k2 k3 m ts l fin c e r1 r2 res} (hg : P.ifp > m)
    (hc : PEok P k1 P.ifp ts (c, .sym "else" :: r1)) (he : PEok P k2 0 r1 (e, r2))
    (hl : PLok P k3 m (.ite c l e) false r2 res) :
    PLok P (max k1 (max k2 k3) + 1) m l fin (.sym "if" :: ts) res := by
  intro j hj
  obtain ⟨j', rfl⟩ : ∃ j', j = j' + 1 := ⟨j - 1, by omega⟩
  have h1 := hc j' (by omega)
  have h2 := he j' (by omega)
  have h3 := hl j' (by omega)
  have hne := PEok_ne_nil hc
  simp_all [postfixLoop, isSym, bind, Except.bind]

/-! ### facts about `absorbs` -/

theorem absorbs_mono {m k : Nat} {ts : List Tok} (h : m ≤ k) : absorbs P k ts → absorbs P m ts := by
  cases ts with
  | nil => simp [absorbs]
  | cons t ts =>
    simp only [absorbs]
    split <;> simp
    omega

theorem not_absorbs_nil {m : Nat} : ¬ absorbs P m [] := by simp [absorbs]
theorem not_absorbs_rparen {m : Nat} {r} : ¬ absorbs P m (.sym ")" :: r) := by
  simp [absorbs, tokGuard]
theorem not_absorbs_rbrack {m : Nat} {r} : ¬ absorbs P m (.sym "]" :: r) := by
  simp [absorbs, tokGuard]
theorem not_absorbs_else {m : Nat} {r} : ¬ absorbs P m (.sym "else" :: r) := by
  simp [absorbs, tokGuard]

theorem tokGuard_infix (o : Infix) : tokGuard P (.sym o.sym) = some (o.guard P) := by
  cases o with
  | cmp c => cases c <;> simp [tokGuard, Infix.sym, Infix.guard, CmpOp.sym]
  | _ => simp [tokGuard, Infix.sym, Infix.guard]

theorem absorbs_infix (o : Infix) {m : Nat} {r} :
    absorbs P m (.sym o.sym :: r) ↔ o.guard P > m := by
  simp [absorbs, tokGuard_infix]

theorem absorbs_plus {m : Nat} {r} : absorbs P m (.sym "+" :: r) ↔ P.plus > m :=
  absorbs_infix .plus
theorem absorbs_times {m : Nat} {r} : absorbs P m (.sym "*" :: r) ↔ P.times > m :=
  absorbs_infix .times

theorem absorbs_if {m : Nat} {r} : absorbs P m (.sym "if" :: r) ↔ P.ifp > m := by
  simp [absorbs, tokGuard]

theorem absorbs_comma {m : Nat} {r} : absorbs P m (.sym "," :: r) ↔ P.comma > m := by
  simp [absorbs, tokGuard]


/-! ### postfix forms: look-up, subscript, call -/

theorem PL_lookup {k m ts l fin n res} (hg : P.call > m)
    (hl : PLok P k m (.lookup l n) false ts res) :
    PLok P (k + 1) m l fin (.sym "." :: .ident n :: ts) res := by
  intro j hj
  obtain ⟨j', rfl⟩ : ∃ j', j = j' + 1 := ⟨j - 1, by omega⟩
  have h := hl j' (by omega)
  simp_all [postfixLoop]

theorem PL_subscript {k1 k2 m ts l fin i r1 res} (hg : P.call > m)
    (hi : PEok P k1 0 ts (i, .sym "]" :: r1))
    (hl : PLok P k2 m (.subscript l i) false r1 res) :
    PLok P (max k1 k2 + 1) m l fin (.sym "[" :: ts) res := by
  intro j hj
  obtain ⟨j', rfl⟩ : ∃ j', j = j' + 1 := ⟨j - 1, by omega⟩
  have h1 := hi j' (by omega)
  have h2 := hl j' (by omega)
  have hne := PEok_ne_nil hi
  simp_all [postfixLoop, isSym, bind, Except.bind]

/-- `parseArglist` returns `res` for every fuel ≥ `k` -/
def PAok (P : ParserPrec) (k : Nat) (ts : List Tok) (args : List Expr) (kwn : List String)
    (kwv : List Expr) (ca : Bool) (res : (List Expr × List String × List Expr) × List Tok) : Prop :=
  ∀ j, k ≤ j → parseArglist P j ts args kwn kwv ca = .ok res

theorem PAok.mono {k k' ts a kn kv ca res} (h : PAok P k ts a kn kv ca res) (hk : k ≤ k') :
    PAok P k' ts a kn kv ca res :=
  fun j hj => h j (Nat.le_trans hk hj)

theorem PL_call {k1 k2 m ts l fin args kwn kwv r1 res} (hg : P.call > m)
    (ha : PAok P k1 ts [] [] [] false ((args, kwn, kwv), r1))
    (hl : PLok P k2 m (if kwn.isEmpty then Expr.call l args else Expr.callKw l args kwn kwv)
      false r1 res) :
    PLok P (max k1 k2 + 1) m l fin (.sym "(" :: ts) res := by
  intro j hj
  obtain ⟨j', rfl⟩ : ∃ j', j = j' + 1 := ⟨j - 1, by omega⟩
  have h1 := ha j' (by omega)
  have h2 := hl j' (by omega)
  simp_all [postfixLoop, bind, Except.bind]

/-- the closing parenthesis ends the argument list -/
theorem PA_close {ts args kwn kwv ca} :
    PAok P 1 (.sym ")" :: ts) args kwn kwv ca ((args, kwn, kwv), ts) := by
  intro j hj
  obtain ⟨j', rfl⟩ : ∃ j', j = j' + 1 := ⟨j - 1, by omega⟩
  simp [parseArglist, isSym, pure, Except.pure]

theorem PEok_not_comma {k m ts res} (h : PEok P k m ts res) : isSym "," ts = false := by
  cases ts with
  | nil => rfl
  | cons t ts =>
    cases t with
    | sym s =>
      by_cases hs : s = ","
      · subst hs
        have := h (k + 2) (by omega)
        simp [parseExpr, parsePrefix, bind, Except.bind] at this
      · simp [isSym, hs]
    | _ => rfl

/-- an input that starts with `name =` is not an expression followed by `,` or `)` -/
theorem PEok_kw_head {k m x ts e r} (h : PEok P k m (.ident x :: .sym "=" :: ts) (e, r)) :
    r = .sym "=" :: ts := by
  have := h (k + 3) (by omega)
  simp [parseExpr, parsePrefix, postfixLoop, CmpOp.ofSym?, bind, Except.bind, pure,
    Except.pure] at this
  exact this.2.symm

/-- one positional argument; `ca` says whether a comma must come first -/
theorem PA_pos {k1 k2 ts args ca a r1 res}
    (ha : PEok P k1 P.comma ts (a, r1)) (hr : isSym "=" r1 = false)
    (hl : PAok P k2 r1 (args ++ [a]) [] [] true res) :
    PAok P (max k1 k2 + 1) (if ca then .sym "," :: ts else ts) args [] [] ca res := by
  intro j hj
  obtain ⟨j', rfl⟩ : ∃ j', j = j' + 1 := ⟨j - 1, by omega⟩
  have h1 := ha j' (by omega)
  have h2 := hl j' (by omega)
  have hne := PEok_ne_nil ha
  have hnc := PEok_not_comma ha
  have hnp := PEok_not_rparen ha
  have hkw : ∀ x rest, ts = .ident x :: .sym "=" :: rest → False := by
    intro x rest hts
    subst hts
    rw [PEok_kw_head ha] at hr
    simp [isSym] at hr
  obtain ⟨t, ts', rfl⟩ : ∃ t ts', ts = t :: ts' := by
    cases ts with
    | nil => exact absurd rfl hne
    | cons t ts' => exact ⟨t, ts', rfl⟩
  cases ca
  · simp only [Bool.false_eq_true, if_false]
    simp only [parseArglist, hnc]
    simp only [Bool.false_and, Bool.false_eq_true, if_false, List.isEmpty_cons, hnp,
      Bool.not_false, Bool.and_false, List.isEmpty_nil, Bool.not_true]
    simp [h1, h2, bind, Except.bind]
  · simp only [if_true]
    have hc : isSym "," (.sym "," :: t :: ts') = true := by simp [isSym]
    simp only [parseArglist, hc, Bool.not_true, Bool.and_false, Bool.false_eq_true, if_false,
      if_true, List.tail_cons, List.isEmpty_cons, hnp, Bool.false_and]
    simp [h1, h2, bind, Except.bind]


/-- one keyword argument `name = value` -/
theorem PA_kw {k1 k2 ts args kwn kwv ca x v r1 res}
    (hv : PEok P k1 P.comma ts (v, r1)) (hx : kwn.contains x = false)
    (hl : PAok P k2 r1 args (kwn ++ [x]) (kwv ++ [v]) true res) :
    PAok P (max k1 k2 + 1)
      (if ca then .sym "," :: .ident x :: .sym "=" :: ts else .ident x :: .sym "=" :: ts)
      args kwn kwv ca res := by
  intro j hj
  obtain ⟨j', rfl⟩ : ∃ j', j = j' + 1 := ⟨j - 1, by omega⟩
  have h1 := hv j' (by omega)
  have h2 := hl j' (by omega)
  have hx' : x ∉ kwn := by simpa using hx
  cases ca
  · simp only [Bool.false_eq_true, if_false]
    have hc : isSym "," (.ident x :: .sym "=" :: ts) = false := rfl
    have hp : isSym ")" (.ident x :: .sym "=" :: ts) = false := rfl
    simp only [parseArglist, hc, hp, Bool.false_and, Bool.false_eq_true, if_false,
      List.isEmpty_cons, Bool.not_false, Bool.and_false]
    simp [h1, hx', h2, bind, Except.bind]
  · simp only [if_true]
    have hc : isSym "," (.sym "," :: .ident x :: .sym "=" :: ts) = true := by simp [isSym]
    have hp : isSym ")" (.ident x :: .sym "=" :: ts) = false := rfl
    simp only [parseArglist, hc, hp, Bool.not_true, Bool.and_false, Bool.false_eq_true, if_false,
      if_true, List.tail_cons, List.isEmpty_cons, Bool.false_and]
    simp [h1, hx', h2, bind, Except.bind]

/-! ### tuples, lists and the comma -/

theorem PP_unit {r : List Tok} : PPok P 1 (.sym "(" :: .sym ")" :: r) ((.tuple [], true), r) := by
  intro j hj
  obtain ⟨j', rfl⟩ : ∃ j', j = j' + 1 := ⟨j - 1, by omega⟩
  simp [parsePrefix, isSym, pure, Except.pure]

theorem PP_paren_tuple {k ts cs r} (h : PEok P k 0 ts (.tuple cs, .sym ")" :: r)) :
    PPok P (k + 1) (.sym "(" :: ts) ((.tuple cs, true), r) := by
  have hts := PEok_not_rparen h
  intro j hj
  obtain ⟨j', rfl⟩ : ∃ j', j = j' + 1 := ⟨j - 1, by omega⟩
  simp only [parsePrefix, hts, h j' (by omega)]
  simp [isSym, bind, Except.bind, pure, Except.pure]

theorem PEok_not_rbrack {k m ts res} (h : PEok P k m ts res) : isSym "]" ts = false := by
  cases ts with
  | nil => rfl
  | cons t ts =>
    cases t with
    | sym s =>
      by_cases hs : s = "]"
      · subst hs
        have := h (k + 2) (by omega)
        simp [parseExpr, parsePrefix, bind, Except.bind] at this
      · simp [isSym, hs]
    | _ => rfl

theorem PP_nil_list {r : List Tok} : PPok P 1 (.sym "[" :: .sym "]" :: r) ((.list [], true), r) := by
  intro j hj
  obtain ⟨j', rfl⟩ : ∃ j', j = j' + 1 := ⟨j - 1, by omega⟩
  simp [parsePrefix, isSym, pure, Except.pure]

theorem PP_list_tuple {k ts cs r} (h : PEok P k 0 ts (.tuple cs, .sym "]" :: r)) :
    PPok P (k + 1) (.sym "[" :: ts) ((.list cs, true), r) := by
  have hts := PEok_not_rbrack h
  intro j hj
  obtain ⟨j', rfl⟩ : ∃ j', j = j' + 1 := ⟨j - 1, by omega⟩
  simp only [parsePrefix, hts, h j' (by omega)]
  simp [isSym, bind, Except.bind, pure, Except.pure]

theorem PP_list_one {k ts e r} (h : PEok P k 0 ts (e, .sym "]" :: r))
    (hne : ∀ cs, e ≠ .tuple cs) :
    PPok P (k + 1) (.sym "[" :: ts) ((.list [e], true), r) := by
  have hts := PEok_not_rbrack h
  intro j hj
  obtain ⟨j', rfl⟩ : ∃ j', j = j' + 1 := ⟨j - 1, by omega⟩
  simp only [parsePrefix, hts, h j' (by omega)]
  cases e <;> simp_all [isSym, bind, Except.bind, pure, Except.pure]

/-- the first comma: `left` is not a tuple under construction -/
theorem PL_comma_first {k1 k2 m ts l fin el r1 res} (hg : P.comma > m)
    (hopen : ∀ cs, l = .tuple cs → fin = true)
    (he : PEok P k1 P.comma ts (el, r1))
    (hl : PLok P k2 m (.tuple [l, el]) false r1 res) :
    PLok P (max k1 k2 + 1) m l fin (.sym "," :: ts) res := by
  intro j hj
  obtain ⟨j', rfl⟩ : ∃ j', j = j' + 1 := ⟨j - 1, by omega⟩
  have h1 := he j' (by omega)
  have h2 := hl j' (by omega)
  have hne := PEok_ne_nil he
  have hnp := PEok_not_rparen he
  simp only [postfixLoop, hg, if_true]
  have hemp : ts.isEmpty = false := by cases ts <;> simp_all
  simp only [hemp, hnp, Bool.or_self, Bool.false_eq_true, if_false, h1, bind, Except.bind]
  cases l <;> simp_all

/-- a further comma: `left` is the tuple under construction -/
theorem PL_comma_next {k1 k2 m ts cs el r1 res} (hg : P.comma > m)
    (he : PEok P k1 P.comma ts (el, r1))
    (hl : PLok P k2 m (.tuple (cs ++ [el])) false r1 res) :
    PLok P (max k1 k2 + 1) m (.tuple cs) false (.sym "," :: ts) res := by
  intro j hj
  obtain ⟨j', rfl⟩ : ∃ j', j = j' + 1 := ⟨j - 1, by omega⟩
  have h1 := he j' (by omega)
  have h2 := hl j' (by omega)
  have hne := PEok_ne_nil he
  have hnp := PEok_not_rparen he
  simp only [postfixLoop, hg, if_true]
  have hemp : ts.isEmpty = false := by cases ts <;> simp_all
  simp only [hemp, hnp, Bool.or_self, Bool.false_eq_true, if_false, h1, bind, Except.bind]
  simp_all

/-- `x ,)`: a one-element tuple -/
theorem PL_comma_single {k m ts l fin res} (hg : P.comma > m)
    (hopen : ∀ cs, l = .tuple cs → fin = true)
    (hl : PLok P k m (.tuple [l]) false (.sym ")" :: ts) res) :
    PLok P (k + 1) m l fin (.sym "," :: .sym ")" :: ts) res := by
  intro j hj
  obtain ⟨j', rfl⟩ : ∃ j', j = j' + 1 := ⟨j - 1, by omega⟩
  have h2 := hl j' (by omega)
  simp only [postfixLoop, hg, if_true, isSym, beq_self_eq_true, Bool.or_true]
  cases l <;> simp_all

/-! ### slices -/

/-- `: rest` at the start of an expression: the first part of the slice is omitted -/
theorem PP_colon {k ts next r1} (h : PEok P k P.slice ts (next, r1)) :
    PPok P (k + 1) (.sym ":" :: ts) ((joinToSlice (.const .none) next, false), r1) := by
  intro j hj
  obtain ⟨j', rfl⟩ : ∃ j', j = j' + 1 := ⟨j - 1, by omega⟩
  simp [parsePrefix, h j' (by omega), pure, Except.pure]

/-- `left : rest` in the loop -/
theorem PL_colon {k1 k2 m ts l fin next r1 res} (hg : P.slice ≥ m)
    (hl0 : ∀ cs, l ≠ .slice cs) (hn : PEok P k1 P.slice ts (next, r1))
    (hl : PLok P k2 m (joinToSlice l next) false r1 res) :
    PLok P (max k1 k2 + 1) m l fin (.sym ":" :: ts) res := by
  intro j hj
  obtain ⟨j', rfl⟩ : ∃ j', j = j' + 1 := ⟨j - 1, by omega⟩
  have h1 := hn j' (by omega)
  have h2 := hl j' (by omega)
  simp only [postfixLoop, hg, if_true]
  cases l <;> simp_all

theorem absorbs_colon {m : Nat} {r} : absorbs P m (.sym ":" :: r) ↔ P.slice + 1 > m := by
  simp [absorbs, tokGuard]

end PV.Syntax
