import PV.Model.AlgoFft
import PV.Proofs.AlgoArith
import Mathlib.Algebra.BigOperators.Group.Finset.Basic
import Mathlib.Algebra.BigOperators.Group.Finset.Sigma
import Mathlib.Algebra.BigOperators.Ring.Finset
import Mathlib.Algebra.BigOperators.Fin
import Mathlib.Tactic.Ring

/-!
  PV.Proofs.AlgoFft — the model of `fft` (`PV.Model.AlgoFft`) computes the discrete Fourier
  transform over every commutative ring; `ifft` inverts it exactly when the root is "principal"
  (`∑_{k<n} z^(k d) = 0` for `0 < d < n`) and `n` is invertible.
-/

namespace PV.Algo

open Finset

variable {R : Type*} [CommRing R]

/-- The discrete Fourier transform of the property text as a list:
`F[x]_k = ∑_{j<n} z^(k j) x_j`, `n = len(x)`. -/
noncomputable def c19Dft (z : R) (x : List R) : List R :=
  (List.range x.length).map fun k => ∑ j ∈ range x.length, z ^ (k * j) * x.getD j 0

@[simp] theorem c19Dft_length (z : R) (x : List R) : (c19Dft z x).length = x.length := by
  simp [c19Dft]

/-! ### list / sum plumbing -/

theorem c19_list_sum_range {M : Type*} [AddCommMonoid M] (f : ℕ → M) (n : ℕ) :
    ((List.range n).map f).sum = ∑ i ∈ range n, f i := by
  induction n with
  | zero => simp
  | succ n ih => rw [List.sum_range_succ, Finset.sum_range_succ, ih]

/-- `range (a*b)` enumerated as `k1*b + k2` (the order in which `concatenate` lays out the
blocks `k1 = 0 … a-1`, each of length `b`). -/
theorem c19_range_mul_flatMap {β : Type*} (h : ℕ → β) (a b : ℕ) :
    (List.range (a * b)).map h =
      (List.range a).flatMap fun i => (List.range b).map fun j => h (i * b + j) := by
  induction a with
  | zero => simp
  | succ a ih =>
    rw [Nat.succ_mul, List.range_add, List.map_append, ih, List.range_succ, List.flatMap_append]
    simp

/-- Re-indexing of the input index `j = n1 + N1*j2` (the Cooley–Tukey input split). -/
theorem c19_sum_range_mul {M : Type*} [AddCommMonoid M] (f : ℕ → M) (N1 N2 : ℕ) :
    ∑ j ∈ range (N1 * N2), f j = ∑ n1 ∈ range N1, ∑ j2 ∈ range N2, f (n1 + N1 * j2) := by
  induction N2 with
  | zero => simp
  | succ N2 ih =>
    rw [Nat.mul_succ, Finset.sum_range_add, ih, ← Finset.sum_add_distrib]
    refine Finset.sum_congr rfl fun n1 _ => ?_
    rw [Finset.sum_range_succ, Nat.add_comm n1 (N1 * N2)]

theorem c19_foldl_vecAdd (L : ℕ) {ι : Type*} (t : ι → ℕ → R) :
    ∀ (l : List ι) (a : ℕ → R),
      List.foldl (c19VecAdd (· + ·)) ((List.range L).map a)
          (l.map fun i => (List.range L).map (t i)) =
        (List.range L).map fun k => a k + (l.map fun i => t i k).sum
  | [], a => by simp
  | i :: l, a => by
    simp only [List.map_cons, List.foldl_cons, List.sum_cons]
    have h : c19VecAdd (· + ·) ((List.range L).map a) ((List.range L).map (t i)) =
        (List.range L).map fun k => a k + t i k := by
      simp [c19VecAdd, List.zipWith_map, List.zipWith_self]
    rw [h, c19_foldl_vecAdd L t l]
    simp only [add_assoc]

/-- Python's `sum(...)` over `N1 ≥ 1` arrays of common length `L` is the elementwise sum. -/
theorem c19PySum_range (L N1 : ℕ) (hN1 : 1 ≤ N1) (t : ℕ → ℕ → R) :
    c19PySum (· + ·) (0 : R) ((List.range N1).map fun i => (List.range L).map (t i)) =
      (List.range L).map fun k => ∑ i ∈ range N1, t i k := by
  obtain ⟨m, rfl⟩ : ∃ m, N1 = m + 1 := ⟨N1 - 1, by omega⟩
  rw [List.range_succ_eq_map]
  simp only [List.map_cons, List.map_map, c19PySum]
  have h := c19_foldl_vecAdd L (fun i => t (i + 1)) (List.range m) (fun k => 0 + t 0 k)
  have e1 : ((fun i => (List.range L).map (t i)) ∘ Nat.succ) =
      fun i => (List.range L).map (t (i + 1)) := rfl
  have e2 : (List.range L).map ((fun v => (0 : R) + v) ∘ t 0) =
      (List.range L).map fun k => 0 + t 0 k := rfl
  rw [e1, e2, h]
  refine List.map_congr_left fun k _ => ?_
  rw [c19_list_sum_range, Finset.sum_range_succ', zero_add, add_comm]

theorem c19_zipIdx_map_range {β : Type*} (F : ℕ → β) (n : ℕ) :
    ((List.range n).map F).zipIdx = (List.range n).map fun i => (F i, i) := by
  apply List.ext_getElem
  · simp
  · intro i h1 h2
    simp

theorem c19_stride_getD (x : List R) (s k j : ℕ) (hk : 1 ≤ k) :
    (stride x s k).getD j 0 = x.getD (s + k * j) 0 := by
  rw [List.getD_eq_getElem?_getD, List.getD_eq_getElem?_getD, stride_getElem? x s k j hk]

/-! ### one Cooley–Tukey level -/

/-- The exponent identity behind the recombination: with `z^(N1*N2) = 1`,
`z^((k1*N2+k2) * (n1+N1*j2)) = (z^N1)^(k2*j2) · z^(n1*k2) · z^(N2*(n1*k1))`. -/
theorem c19_twiddle_identity (z : R) (N1 N2 k1 k2 n1 j2 : ℕ) (hz : z ^ (N1 * N2) = 1) :
    z ^ ((k1 * N2 + k2) * (n1 + N1 * j2)) =
      (z ^ N1) ^ (k2 * j2) * z ^ (n1 * k2) * z ^ (N2 * (n1 * k1)) := by
  have h : (k1 * N2 + k2) * (n1 + N1 * j2) =
      N1 * (k2 * j2) + n1 * k2 + N2 * (n1 * k1) + (N1 * N2) * (k1 * j2) := by ring
  rw [h, pow_add, pow_mul (z) (N1 * N2), hz, one_pow, mul_one, pow_add, pow_add, pow_mul]

/-- One level of `fft` is correct if its sub-transforms are DFTs for the root `z^N1`:
the recombination step in general (any factorisation `len(x) = N1 * N2` returned by
`find_factors`, any commutative ring, `z^(N1*N2) = 1`; nothing else about `z`). -/
theorem c19FftStep_eq_dft (z : R) (rp : ℕ → ℕ → R) (sub : List R → List R) (x : List R)
    (hN1 : 1 ≤ (findFactors x.length).1)
    (hlen : (findFactors x.length).1 * (findFactors x.length).2 = x.length)
    (hz : z ^ x.length = 1)
    (hsub : ∀ n1 < (findFactors x.length).1,
      sub (stride x n1 (findFactors x.length).1) =
        c19Dft (z ^ (findFactors x.length).1) (stride x n1 (findFactors x.length).1))
    (htw : ∀ k, rp ((findFactors x.length).1 * (findFactors x.length).2) k = z ^ k)
    (htw1 : ∀ k, rp (findFactors x.length).1 k = z ^ ((findFactors x.length).2 * k)) :
    c19FftStep (· + ·) (· * ·) 0 rp sub x = c19Dft z x := by
  unfold c19FftStep
  simp only []
  generalize (findFactors x.length).1 = N1 at *
  generalize (findFactors x.length).2 = N2 at *
  -- the sub-transforms, as functions of (n1, k2)
  have hsubF : (List.range N1).map (fun n1 =>
        c19VecMul (· * ·) (sub (stride x n1 N1)) (c19Twiddles rp N1 N2 n1)) =
      (List.range N1).map fun n1 => (List.range N2).map fun k2 =>
        (∑ j2 ∈ range N2, (z ^ N1) ^ (k2 * j2) * x.getD (n1 + N1 * j2) 0) * z ^ (n1 * k2) := by
    refine List.map_congr_left fun n1 hn1 => ?_
    have hn1 : n1 < N1 := List.mem_range.mp hn1
    have hl : (stride x n1 N1).length = N2 := stride_length x N1 N2 n1 hlen.symm hn1
    rw [hsub n1 hn1]
    unfold c19Dft c19VecMul c19Twiddles
    rw [hl, List.zipWith_map, List.zipWith_self]
    refine List.map_congr_left fun k2 _ => ?_
    rw [htw]
    congr 1
    refine Finset.sum_congr rfl fun j2 _ => ?_
    rw [c19_stride_getD x n1 N1 j2 hN1]
  rw [hsubF, c19_zipIdx_map_range]
  unfold c19Dft
  rw [← hlen, c19_range_mul_flatMap]
  refine List.flatMap_congr fun k1 _ => ?_
  simp only [List.map_map, Function.comp_def, c19VecScale]
  rw [c19PySum_range N2 N1 hN1]
  refine List.map_congr_left fun k2 _ => ?_
  rw [c19_sum_range_mul]
  refine Finset.sum_congr rfl fun n1 _ => ?_
  rw [htw1, Finset.sum_mul, Finset.sum_mul]
  refine Finset.sum_congr rfl fun j2 _ => ?_
  rw [c19_twiddle_identity z N1 N2 k1 k2 n1 j2 (by rw [hlen]; exact hz)]
  ring

/-! ### the whole recursion -/

theorem c19Dft_singleton (z a : R) : c19Dft z [a] = [a] := by
  simp [c19Dft]

/-- The fuel-indexed recursion computes the DFT whenever the fuel is at least `len(x)`.
Hypotheses on the twiddle function: for every divisor `m` of `len(x)`, `rp m k = z^((n/m)*k)`,
i.e. the root for length `m` is `z^(n/m)`. -/
theorem c19FftAux_eq_dft (fuel : ℕ) : ∀ (x : List R) (z : R) (rp : ℕ → ℕ → R),
    x.length ≤ fuel → 1 ≤ x.length → z ^ x.length = 1 →
    (∀ m k, m ∣ x.length → rp m k = z ^ (x.length / m * k)) →
    c19FftAux (· + ·) (· * ·) 0 rp fuel x = c19Dft z x := by
  induction fuel with
  | zero => intro x z rp h1 h2; omega
  | succ fuel ih =>
    intro x z rp hfuel hpos hz hrp
    unfold c19FftAux
    by_cases h1 : x.length = 1
    · rw [if_pos h1]
      obtain ⟨a, rfl⟩ := List.length_eq_one_iff.mp h1
      exact (c19Dft_singleton z a).symm
    · rw [if_neg h1]
      have hn2 : 2 ≤ x.length := by omega
      have hmul := findFactors_mul x.length
      obtain ⟨hN1, hN2pos, hN2lt⟩ := findFactors_lt x.length hn2
      have hnpos : 0 < x.length := by omega
      apply c19FftStep_eq_dft z rp _ x (by omega) hmul hz
      · intro n1 hn1
        have hl : (stride x n1 (findFactors x.length).1).length = (findFactors x.length).2 :=
          stride_length x _ _ n1 hmul.symm hn1
        apply ih
        · rw [hl]; omega
        · rw [hl]; omega
        · rw [hl, ← pow_mul, hmul, hz]
        · intro m k hm
          rw [hl] at hm ⊢
          have hmn : m ∣ x.length := hmul ▸ Dvd.dvd.mul_left hm _
          have hdiv : x.length / m =
              (findFactors x.length).1 * ((findFactors x.length).2 / m) := by
            rw [← Nat.mul_div_assoc _ hm, hmul]
          rw [hrp m k hmn, ← pow_mul, hdiv, Nat.mul_assoc]
      · intro k
        rw [hmul, hrp _ k (dvd_refl _), Nat.div_self hnpos, one_mul]
      · intro k
        have hdiv : x.length / (findFactors x.length).1 = (findFactors x.length).2 :=
          Nat.div_eq_of_eq_mul_right (by omega) hmul.symm
        rw [hrp _ k ⟨_, hmul.symm⟩, hdiv]

/-- `fft` (model) = DFT, for every commutative ring, every length `n ≥ 1`, every `z` with
`z^n = 1` (no primitivity needed). -/
theorem c19Fft_eq_dft (z : R) (rp : ℕ → ℕ → R) (x : List R) (hpos : 1 ≤ x.length)
    (hz : z ^ x.length = 1)
    (hrp : ∀ m k, m ∣ x.length → rp m k = z ^ (x.length / m * k)) :
    c19Fft (· + ·) (· * ·) 0 rp x = c19Dft z x :=
  c19FftAux_eq_dft x.length x z rp (le_refl _) hpos hz hrp

/-- More fuel does not change the answer (so the choice `fuel = len(x)` is immaterial). -/
theorem c19FftAux_fuel_irrelevant (fuel : ℕ) (z : R) (rp : ℕ → ℕ → R) (x : List R)
    (hfuel : x.length ≤ fuel) (hpos : 1 ≤ x.length) (hz : z ^ x.length = 1)
    (hrp : ∀ m k, m ∣ x.length → rp m k = z ^ (x.length / m * k)) :
    c19FftAux (· + ·) (· * ·) 0 rp fuel x = c19Fft (· + ·) (· * ·) 0 rp x := by
  rw [c19FftAux_eq_dft fuel x z rp hfuel hpos hz hrp, c19Fft_eq_dft z rp x hpos hz hrp]

end PV.Algo

/-! ## `ifft` inverts `fft` -/

namespace PV.Algo

open Finset

variable {R : Type*} [CommRing R]

/-- The orthogonality relation that `ifft ∘ fft = id` needs of the root: `z` is a *principal*
`n`-th root of unity, `∑_{k<n} z^(k d) = 0` for every `0 < d < n`.  (In an integral domain this
is the same as `z` being a primitive `n`-th root, see `c19Principal_of_isPrimitiveRoot`.) -/
def c19Principal (z : R) (n : ℕ) : Prop :=
  ∀ d, 0 < d → d < n → ∑ k ∈ range n, z ^ (k * d) = 0

theorem c19Dft_getD (z : R) (x : List R) (k : ℕ) (hk : k < x.length) :
    (c19Dft z x).getD k 0 = ∑ j ∈ range x.length, z ^ (k * j) * x.getD j 0 := by
  unfold c19Dft
  rw [List.getD_eq_getElem?_getD, List.getElem?_map, List.getElem?_range hk]
  rfl

/-- `∑_k zinv^(j' k) z^(k j)` is `n` on the diagonal and `0` elsewhere. -/
theorem c19_orthogonality (z zinv : R) (n : ℕ) (hz : z ^ n = 1) (hzi : z * zinv = 1)
    (horth : c19Principal z n) (j' j : ℕ) (hj' : j' < n) (hj : j < n) :
    ∑ k ∈ range n, zinv ^ (j' * k) * z ^ (k * j) = if j = j' then (n : R) else 0 := by
  have hunit : ∀ e : ℕ, zinv ^ e * z ^ e = 1 := fun e => by
    rw [← mul_pow, mul_comm, hzi, one_pow]
  split_ifs with h
  · subst h
    rw [Finset.sum_congr rfl (fun k _ => by rw [Nat.mul_comm k j, hunit]),
      Finset.sum_const, card_range, nsmul_eq_mul, mul_one]
  · rcases Nat.lt_or_gt_of_ne h with hlt | hgt
    · -- j < j'
      have hd : 0 < n - (j' - j) ∧ n - (j' - j) < n := by omega
      rw [← horth (n - (j' - j)) hd.1 hd.2]
      refine Finset.sum_congr rfl fun k _ => ?_
      have e1 : j' * k = k * (j' - j) + k * j := by
        rw [← Nat.mul_add, Nat.sub_add_cancel (le_of_lt hlt), Nat.mul_comm]
      have e2 : z ^ (k * (n - (j' - j))) * z ^ (k * (j' - j)) = 1 := by
        rw [← pow_add, ← Nat.mul_add, Nat.sub_add_cancel (by omega), Nat.mul_comm, pow_mul, hz,
          one_pow]
      calc zinv ^ (j' * k) * z ^ (k * j)
          = zinv ^ (k * (j' - j)) * (zinv ^ (k * j) * z ^ (k * j)) := by rw [e1, pow_add]; ring
        _ = zinv ^ (k * (j' - j)) * (z ^ (k * (n - (j' - j))) * z ^ (k * (j' - j))) := by
            rw [hunit, e2]
        _ = z ^ (k * (n - (j' - j))) * (zinv ^ (k * (j' - j)) * z ^ (k * (j' - j))) := by ring
        _ = z ^ (k * (n - (j' - j))) := by rw [hunit, mul_one]
    · -- j' < j
      have hd : 0 < j - j' ∧ j - j' < n := by omega
      rw [← horth (j - j') hd.1 hd.2]
      refine Finset.sum_congr rfl fun k _ => ?_
      have e1 : k * j = j' * k + k * (j - j') := by
        rw [Nat.mul_comm j' k, ← Nat.mul_add, Nat.add_sub_cancel' (le_of_lt hgt)]
      rw [e1, pow_add, ← mul_assoc, hunit, one_mul]

/-- DFT with `zinv`, scaled by `1/n`, undoes the DFT with `z`. -/
theorem c19Dft_inv (z zinv ninv : R) (x : List R) (hz : z ^ x.length = 1) (hzi : z * zinv = 1)
    (hn : ninv * (x.length : R) = 1) (horth : c19Principal z x.length) :
    (c19Dft zinv (c19Dft z x)).map (fun v => ninv * v) = x := by
  apply List.ext_getElem
  · simp
  · intro i h1 h2
    have hi : i < x.length := h2
    simp only [List.getElem_map]
    have hg : ∀ (l : List R) (h : i < l.length), l[i] = l.getD i 0 := fun l h => by
      rw [List.getD_eq_getElem?_getD, List.getElem?_eq_getElem h, Option.getD_some]
    rw [hg _ (by simpa using hi), c19Dft_getD _ _ _ (by simpa using hi), c19Dft_length]
    have step : ∀ k ∈ range x.length, zinv ^ (i * k) * (c19Dft z x).getD k 0 =
        ∑ j ∈ range x.length, (zinv ^ (i * k) * z ^ (k * j)) * x.getD j 0 := fun k hk => by
      rw [c19Dft_getD z x k (mem_range.mp hk), Finset.mul_sum]
      exact Finset.sum_congr rfl fun j _ => by ring
    rw [Finset.sum_congr rfl step, Finset.sum_comm]
    have step2 : ∀ j ∈ range x.length,
        ∑ k ∈ range x.length, (zinv ^ (i * k) * z ^ (k * j)) * x.getD j 0 =
          (if j = i then (x.length : R) else 0) * x.getD j 0 := fun j hj => by
      rw [← Finset.sum_mul, c19_orthogonality z zinv x.length hz hzi horth i j hi (mem_range.mp hj)]
    rw [Finset.sum_congr rfl step2]
    simp only [ite_mul, zero_mul]
    rw [Finset.sum_ite_eq' (range x.length) i, if_pos (mem_range.mpr hi), ← mul_assoc, hn, one_mul,
      ← hg x hi]

/-- `ifft(fft(x)) = x` (model), in every commutative ring in which `n = len(x)` is invertible
(`ninv` stands for the scalar `1/len(x)`), for every principal `n`-th root of unity `z` with
inverse `zinv` (`= exp(+2πi/n)`, the root used with `sign = -1`). -/
theorem c19Ifft_fft (z zinv ninv : R) (rp rpInv : ℕ → ℕ → R) (x : List R) (hpos : 1 ≤ x.length)
    (hz : z ^ x.length = 1) (hzi : z * zinv = 1) (hn : ninv * (x.length : R) = 1)
    (horth : c19Principal z x.length)
    (hrp : ∀ m k, m ∣ x.length → rp m k = z ^ (x.length / m * k))
    (hrpInv : ∀ m k, m ∣ x.length → rpInv m k = zinv ^ (x.length / m * k)) :
    c19Ifft (· + ·) (· * ·) 0 rpInv ninv (c19Fft (· + ·) (· * ·) 0 rp x) = x := by
  have hzinv : zinv ^ x.length = 1 := by
    have : (z * zinv) ^ x.length = 1 := by rw [hzi, one_pow]
    rwa [mul_pow, hz, one_mul] at this
  unfold c19Ifft
  rw [c19Fft_eq_dft z rp x hpos hz hrp]
  rw [c19Fft_eq_dft zinv rpInv (c19Dft z x) (by simpa using hpos) (by simpa using hzinv)
    (by simpa using hrpInv)]
  exact c19Dft_inv z zinv ninv x hz hzi hn horth

/-- The orthogonality hypothesis is NECESSARY: if `ifft ∘ fft` is the identity on all vectors
of length `n` then `z` is a principal `n`-th root of unity. -/
theorem c19Principal_of_inverts (z zinv ninv : R) (n : ℕ) (hn : ninv * (n : R) = 1)
    (hinv : ∀ x : List R, x.length = n →
      (c19Dft zinv (c19Dft z x)).map (fun v => ninv * v) = x) :
    c19Principal z n := by
  intro d hd0 hdn
  -- the unit vector e_d, read at output index 0
  let x : List R := (List.range n).map fun j => if j = d then 1 else 0
  have hxl : x.length = n := by simp [x]
  have hx := hinv x hxl
  have h0 : ((c19Dft zinv (c19Dft z x)).map (fun v => ninv * v)).getD 0 0 = x.getD 0 0 := by
    rw [hx]
  have hxd : ∀ j, j < n → x.getD j 0 = if j = d then 1 else 0 := fun j hj => by
    simp only [x]
    rw [List.getD_eq_getElem?_getD, List.getElem?_map, List.getElem?_range hj]
    rfl
  have hn0 : 0 < n := by omega
  rw [hxd 0 hn0, if_neg (by omega)] at h0
  rw [List.getD_eq_getElem?_getD, List.getElem?_map] at h0
  have hl0 : 0 < (c19Dft zinv (c19Dft z x)).length := by simp [hxl, hn0]
  rw [List.getElem?_eq_getElem hl0] at h0
  simp only [Option.map_some, Option.getD_some] at h0
  have hg : (c19Dft zinv (c19Dft z x))[0] = (c19Dft zinv (c19Dft z x)).getD 0 0 := by
    rw [List.getD_eq_getElem?_getD, List.getElem?_eq_getElem hl0, Option.getD_some]
  rw [hg, c19Dft_getD _ _ _ (by simpa [hxl] using hn0), c19Dft_length, hxl] at h0
  have hsum : ∑ k ∈ range n, zinv ^ (0 * k) * (c19Dft z x).getD k 0 =
      ∑ k ∈ range n, z ^ (k * d) := by
    refine Finset.sum_congr rfl fun k hk => ?_
    rw [c19Dft_getD z x k (by simpa [hxl] using mem_range.mp hk), hxl, Nat.zero_mul, pow_zero,
      one_mul]
    rw [Finset.sum_congr rfl (fun j hj => by rw [hxd j (mem_range.mp hj)])]
    simp only [mul_ite, mul_one, mul_zero]
    rw [Finset.sum_ite_eq' (range n) d, if_pos (mem_range.mpr hdn)]
  rw [hsum] at h0
  calc ∑ k ∈ range n, z ^ (k * d)
      = ((n : R) * ninv) * ∑ k ∈ range n, z ^ (k * d) := by rw [mul_comm (n : R), hn, one_mul]
    _ = (n : R) * (ninv * ∑ k ∈ range n, z ^ (k * d)) := by ring
    _ = 0 := by rw [h0, mul_zero]

end PV.Algo
