import PV.Proofs.CoeffTableColl
import PV.Proofs.Gauss
/-
  C15, T-gen tie, part 2: `gaussian_elimination` (pymbolic/algorithm.py) as read from the source —
  the `while` loop over columns, the pivot search `for k in range(i, m)`, the row exchange with its
  four `.copy()`s, the elimination loop with `lcm`, the two floor divisions and the row updates
  `u_fac*mat[u] - i_fac*mat[i]`, the `assert`, the gcd normalisation — run by the table interpreter
  IS `gaussElim` (PV/Model/Coeff.lean), for every integer system.
-/
set_option linter.unusedSimpArgs false
set_option linter.unusedVariables false
namespace PV.Coeff
open PV

theorem c15Get_set (x y : String) (v : C15Val) (st : C15Env) :
    c15Get y (c15Set x v st) = if x = y then some v else c15Get y st := by
  by_cases h : x = y
  · subst h; simp
  · simp [h, c15Get_set_ne v h]

/-! ### the helpers `gcd`, `lcm`, `gcd_many` -/

def expGcdFn : C15Fn :=
  { name := "gcd", definedIn := "gcd", params := ["q", "r"], vararg := "",
    body := [.ret (.index (.call "extended_euclidean" [.var "q", .var "r"]) (.lit 0))] }

def expLcmFn : C15Fn :=
  { name := "lcm", definedIn := "lcm", params := ["q", "r"], vararg := "",
    body := [.ret (.bin .floordiv (.call "abs" [.bin .mul (.var "q") (.var "r")])
      (.call "gcd" [.var "q", .var "r"]))] }

def expGcdManyFn : C15Fn :=
  { name := "gcd_many", definedIn := "gcd_many", params := [], vararg := "args",
    body := [
      .ifThen (.cmp .eq (.call "len" [.var "args"]) (.lit 0)) [.ret (.lit 1)] [
        .ifThen (.cmp .eq (.call "len" [.var "args"]) (.lit 1)) [.ret (.index (.var "args") (.lit 0))] [
          .importName "functools" "reduce" "reduce",
          .ret (.reduce "gcd" (.var "args"))]]] }

theorem exp_fn_gcd : c15ExpTable.fn "gcd" = some expGcdFn := by rfl
theorem exp_fn_lcm : c15ExpTable.fn "lcm" = some expLcmFn := by rfl
theorem exp_fn_gcd_many : c15ExpTable.fn "gcd_many" = some expGcdManyFn := by rfl

theorem callFn_succ (T : C15Table) (base : C15Ctx) (fuel : Nat) (name : String) (args : List C15Val) :
    c15CallFn T base (fuel + 1) name args =
      match T.fn name with
      | Option.none => throw .stuck
      | some f =>
        match (if f.vararg = "" then c15BindParams f.params args []
          else if f.params = [] then some [(f.vararg, .list args)] else Option.none) with
        | Option.none => throw .stuck
        | some st =>
          c15Result (C15S.execL { base with callFn := c15CallFn T base fuel } f.body st) := by
  simp only [c15CallFn]
  rfl

theorem call_gcd (base : C15Ctx) (f : Nat) (q r : Int) :
    c15CallFn c15ExpTable base (f + 1) "gcd" [.int q, .int r] = .ok (.int (Algo.gcd q r)) := by
  rw [callFn_succ]
  simp [exp_fn_gcd, expGcdFn, c15BindParams, C15S.execL, C15S.exec, C15E.eval, C15E.evalL,
    c15Get_set, c15Get, c15Set, c15Builtin, bind, Except.bind, pure, Except.pure, c15Result, Algo.gcd]

theorem call_lcm (base : C15Ctx) (f : Nat) (q r : Int) :
    c15CallFn c15ExpTable base (f + 2) "lcm" [.int q, .int r] =
      match Algo.lcm q r with
      | some l => .ok (.int l)
      | none => .error .zeroDiv := by
  rw [show f + 2 = (f + 1) + 1 from rfl, callFn_succ]
  simp [exp_fn_lcm, expLcmFn, c15BindParams, C15S.execL, C15S.exec, C15E.eval, C15E.evalL,
    c15Get_set, c15Get, c15Set, c15Builtin, bind, Except.bind, pure, Except.pure, c15Result, call_gcd,
    c15Bin, c15IntOp, Algo.lcm]
  by_cases h0 : Algo.gcd q r = 0
  · simp [h0, throw, throwThe, MonadExceptOf.throw, c15Result]
  · simp [h0, pure, Except.pure, c15Result]

theorem reduce_gcd (ctx base : C15Ctx) (f : Nat) (hc : ctx.callFn = c15CallFn c15ExpTable base (f + 1)) :
    ∀ (rest : List Int) (a : Int),
      c15Reduce ctx "gcd" (.int a) (rest.map .int) = .ok (.int (rest.foldl Algo.gcd a))
  | [], a => rfl
  | b :: rest, a => by
    simp only [List.map_cons, c15Reduce, hc, call_gcd, bind, Except.bind, List.foldl_cons]
    exact reduce_gcd ctx base f hc rest (Algo.gcd a b)

theorem call_gcd_many (base : C15Ctx) (f : Nat) (l : List Int) :
    c15CallFn c15ExpTable base (f + 2) "gcd_many" (l.map .int) = .ok (.int (gcdMany l)) := by
  rw [show f + 2 = (f + 1) + 1 from rfl, callFn_succ]
  simp only [exp_fn_gcd_many, expGcdManyFn]
  match l with
  | [] =>
    simp [C15S.execL, C15S.exec, C15E.eval, C15E.evalL, c15Get, c15Builtin, bind, Except.bind, pure,
      Except.pure, c15Result, c15Cond, c15Cmp, c15ValEq, c15Truthy, gcdMany]
  | [a] =>
    simp [C15S.execL, C15S.exec, C15E.eval, C15E.evalL, c15Get, c15Builtin, bind, Except.bind, pure,
      Except.pure, c15Result, c15Cond, c15Cmp, c15ValEq, c15Truthy, gcdMany]
  | a :: b :: rest =>
    have hlen0 : ((((rest.length : Int) + 1 + 1) == 0) = false) := by
      have : ((rest.length : Int) + 1 + 1) ≠ 0 := by omega
      simp [this]
    have hlen1 : ((((rest.length : Int) + 1 + 1) == 1) = false) := by
      have : ((rest.length : Int) + 1 + 1) ≠ 1 := by omega
      simp [this]
    have hr := reduce_gcd
      { base with callFn := c15CallFn c15ExpTable base (f + 1) } base f rfl (b :: rest) a
    simp only [List.map_cons] at hr
    simp [C15S.execL, C15S.exec, C15E.eval, C15E.evalL, c15Get, c15Builtin, bind, Except.bind, pure,
      Except.pure, c15Result, c15Cond, c15Cmp, c15ValEq, c15Truthy, gcdMany, hlen0, hlen1, hr]

/-! ### the state of `gaussian_elimination` -/

/-- the variables of `gaussian_elimination` that carry the model's state: the two arrays (as the
list of augmented rows `s`), the shape and the two counters -/
structure GSt (st : C15Env) (m n w i j : Nat) (s : List ARow) : Prop where
  hmat : c15Get "mat" st = some (.arr n (s.map (·.1)))
  hrhs : c15Get "rhs" st = some (.arr w (s.map (·.2)))
  hm : c15Get "m" st = some (.int m)
  hn : c15Get "n" st = some (.int n)
  hi : c15Get "i" st = some (.int i)
  hj : c15Get "j" st = some (.int j)
  hlen : s.length = m

def gCore : List String := ["mat", "rhs", "m", "n", "i", "j"]

theorem GSt.set {st : C15Env} {m n w i j : Nat} {s : List ARow} (h : GSt st m n w i j s)
    (x : String) (v : C15Val) (hx : x ∉ gCore) : GSt (c15Set x v st) m n w i j s := by
  have hne : ∀ y ∈ gCore, x ≠ y := fun y hy he => hx (he ▸ hy)
  constructor
  · rw [c15Get_set_ne _ (hne _ (by simp [gCore]))]; exact h.hmat
  · rw [c15Get_set_ne _ (hne _ (by simp [gCore]))]; exact h.hrhs
  · rw [c15Get_set_ne _ (hne _ (by simp [gCore]))]; exact h.hm
  · rw [c15Get_set_ne _ (hne _ (by simp [gCore]))]; exact h.hn
  · rw [c15Get_set_ne _ (hne _ (by simp [gCore]))]; exact h.hi
  · rw [c15Get_set_ne _ (hne _ (by simp [gCore]))]; exact h.hj
  · exact h.hlen

theorem execL_cons_ok (ctx : C15Ctx) (s : C15S) (rest : List C15S) (st st' : C15Env)
    (h : C15S.exec ctx s st = .ok st') : C15S.execL ctx (s :: rest) st = C15S.execL ctx rest st' := by
  simp only [C15S.execL, h]

theorem execL_cons (ctx : C15Ctx) (s : C15S) (rest : List C15S) (st : C15Env) :
    C15S.execL ctx (s :: rest) st = match C15S.exec ctx s st with
      | .ok st' => C15S.execL ctx rest st'
      | o => o := by
  simp only [C15S.execL]
  rfl

/-- `mat[k, j]` -/
theorem eval_entry (ctx : C15Ctx) (st : C15Env) (x kx jx : String) (cols : Nat) (rows : List Row)
    (k j : Nat) (r : Row) (hx : c15Get x st = some (.arr cols rows)) (hk : c15Get kx st = some (.int k))
    (hj : c15Get jx st = some (.int j)) (hr : rows[k]? = some r) (hjc : j < cols) :
    (C15E.index2 (.var x) (.var kx) (.var jx)).eval ctx st = .ok (.int (rowGet r j)) := by
  have hc : c15ColIdx? cols (j : Int) = some j := by
    have : ¬ ((j : Int) < 0) := by omega
    simp [c15ColIdx?, this, hjc]
  have hn : ¬ ((k : Int) < 0) := by omega
  simp [C15E.eval, hx, hk, hj, bind, Except.bind, pure, Except.pure, C15Val.toInt?, hn, hr, hc]

/-! ### the pivot search -/

def expPivotBody : List C15S := [
  .ifThen (.index2 (.var "mat") (.var "k") (.var "j"))
    [.assign (.name "nonz_row") (.var "k"), .break_] []]

/-- first index of the list whose row has a non-zero entry in column `j` -/
def pivotScan (j : Nat) (s : List ARow) : List Nat → Option Nat
  | [] => none
  | k :: ks => if rowGet ((s[k]?).getD ([], [])).1 j ≠ 0 then some k else pivotScan j s ks

def optIdx : Option Nat → C15Val
  | none => .none
  | some k => .int k

theorem pivot_loop (ctx : C15Ctx) (m n w i j : Nat) (s : List ARow) (hj : j < n) :
    ∀ (ks : List Nat) (st : C15Env), (∀ k ∈ ks, k < m) → GSt st m n w i j s →
      c15Get "nonz_row" st = some .none →
      ∃ st', c15For (forStep ctx (.name "k") expPivotBody) (ks.map fun (k : Nat) => C15Val.int (k : Int)) st
          = .ok st' ∧ GSt st' m n w i j s ∧
        c15Get "nonz_row" st' = some (optIdx (pivotScan j s ks))
  | [], st, _, hg, hn => ⟨st, rfl, hg, by simpa [pivotScan, optIdx] using hn⟩
  | k :: ks, st, hks, hg, hn => by
    have hk : k < s.length := by rw [hg.hlen]; exact hks k (by simp)
    obtain ⟨r, hr⟩ : ∃ r, s[k]? = some r := ⟨s[k], List.getElem?_eq_getElem hk⟩
    have hg1 : GSt (c15Set "k" (.int k) st) m n w i j s := hg.set "k" _ (by simp [gCore])
    have hent := eval_entry ctx (c15Set "k" (.int k) st) "mat" "k" "j" n (s.map (·.1)) k j r.1
      hg1.hmat (c15Get_set_eq _ _ _) hg1.hj (by simp [hr]) hj
    have hstep : forStep ctx (.name "k") expPivotBody (.int (k : Int)) st =
        if rowGet r.1 j = 0 then .ok (c15Set "k" (.int k) st)
        else .brk (c15Set "nonz_row" (.int k) (c15Set "k" (.int k) st)) := by
      simp only [forStep, c15Bind, expPivotBody, execL_single, exec_ifThen, c15Cond,
        hent, bind, Except.bind, c15Truthy, pure, Except.pure]
      by_cases hz : rowGet r.1 j = 0
      · simp [hz, C15S.execL]
      · have hz' : (rowGet r.1 j != 0) = true := by simp [hz]
        simp [hz', hz, C15S.execL, C15S.exec, C15E.eval, c15Get_set, c15Bind, pure, Except.pure]
    simp only [List.map_cons, c15For, hstep, pivotScan, hr, Option.getD_some]
    by_cases hz : rowGet r.1 j = 0
    · have ih := pivot_loop ctx m n w i j s hj ks (c15Set "k" (.int k) st)
        (fun k' hk' => hks k' (by simp [hk'])) hg1
        (by rw [c15Get_set_ne _ (by decide), hn])
      simpa [hz] using ih
    · simp only [hz, ne_eq, not_false_eq_true, if_true, if_false]
      refine ⟨c15Set "nonz_row" (.int k) (c15Set "k" (.int k) st), rfl,
        hg1.set _ _ (by simp [gCore]), ?_⟩
      simp [c15Get_set, optIdx]

theorem findPivot_scan (j i : Nat) : ∀ (t : List ARow) (pre : List ARow),
    findPivot j i pre.length t =
      pivotScan j (pre ++ t) ((List.range' pre.length t.length).filter fun k => i ≤ k)
  | [], pre => by simp [findPivot, pivotScan]
  | r :: t, pre => by
    have ih := findPivot_scan j i t (pre ++ [r])
    simp only [List.length_append, List.length_singleton, List.append_assoc, List.singleton_append] at ih
    simp only [findPivot, List.length_cons, List.range'_succ, List.filter_cons]
    by_cases hik : i ≤ pre.length
    · have hget : ((pre ++ r :: t)[pre.length]?).getD ([], []) = r := by simp
      simp only [hik, decide_true, if_true, pivotScan, hget, true_and]
      by_cases hz : rowGet r.1 j ≠ 0
      · simp [hz]
      · simp only [hz, if_false]; exact ih
    · simp only [hik, decide_false, false_and, if_false, Bool.false_eq_true]
      exact ih

theorem filter_range' (i : Nat) : ∀ (n a : Nat),
    (List.range' a n).filter (fun k => decide (i ≤ k)) = List.range' (max a i) (a + n - max a i)
  | 0, a => by simp
  | n + 1, a => by
    simp only [List.range'_succ, List.filter_cons]
    rw [filter_range' i n (a + 1)]
    by_cases h : i ≤ a
    · have h1 : max a i = a := by omega
      have h2 : max (a + 1) i = a + 1 := by omega
      simp only [h, decide_true, if_true, h1, h2]
      rw [show a + (n + 1) - a = (a + 1 + n - (a + 1)) + 1 by omega, List.range'_succ]
    · have h1 : max a i = i := by omega
      have h2 : max (a + 1) i = i := by omega
      simp only [h, decide_false, h1, h2, Bool.false_eq_true, if_false]
      congr 1; omega

theorem findPivot_range (j i : Nat) (s : List ARow) :
    findPivot j i 0 s = pivotScan j s (List.range' i (s.length - i)) := by
  have h := findPivot_scan j i s []
  simp only [List.length_nil, List.nil_append] at h
  rw [h, filter_range' i s.length 0]
  by_cases hi : i ≤ s.length
  · congr 2 <;> omega
  · have h1 : 0 + s.length - max 0 i = 0 := by omega
    have h2 : s.length - i = 0 := by omega
    rw [h1, h2]; rfl

theorem c15Range_cast (lo hi : Nat) :
    c15Range (lo : Int) (hi : Int) = (List.range' lo (hi - lo)).map fun (k : Nat) => C15Val.int (k : Int) := by
  simp [c15Range]

theorem eval_range2 (ctx : C15Ctx) (st : C15Env) (a b : String) (lo hi : Nat)
    (ha : c15Get a st = some (.int lo)) (hb : c15Get b st = some (.int hi)) :
    (C15E.call "range" [.var a, .var b]).eval ctx st =
      .ok (.list ((List.range' lo (hi - lo)).map fun (k : Nat) => C15Val.int (k : Int))) := by
  simp [C15E.eval, C15E.evalL, ha, hb, bind, Except.bind, pure, Except.pure, c15Builtin, c15Range_cast]

/-- the statements `nonz_row = None; for k in range(i, m): …` -/
theorem exec_pivot (ctx : C15Ctx) (rest : List C15S) (st : C15Env) (m n w i j : Nat) (s : List ARow)
    (hg : GSt st m n w i j s) (hj : j < n) :
    ∃ st', C15S.execL ctx (.assign (.name "nonz_row") .pyNone ::
        .forIn (.name "k") (.call "range" [.var "i", .var "m"]) expPivotBody :: rest) st =
          C15S.execL ctx rest st' ∧ GSt st' m n w i j s ∧
      c15Get "nonz_row" st' = some (optIdx (findPivot j i 0 s)) := by
  have hg1 : GSt (c15Set "nonz_row" .none st) m n w i j s := hg.set _ _ (by simp [gCore])
  have hloop := pivot_loop ctx m n w i j s hj (List.range' i (m - i)) _
    (by intro k hk; simp [List.mem_range'] at hk; omega) hg1 (c15Get_set_eq _ _ _)
  obtain ⟨st', h1, h2, h3⟩ := hloop
  refine ⟨st', ?_, h2, ?_⟩
  · rw [execL_cons_ok ctx _ _ st (c15Set "nonz_row" .none st)
      (by simp [exec_assign_name, C15E.eval, pure, Except.pure])]
    apply execL_cons_ok
    rw [exec_forIn, eval_range2 ctx _ "i" "m" i m hg1.hi hg1.hm]
    simp only [c15Items, h1]
  · rw [h3, findPivot_range, hg.hlen]

/-! ### the row exchange -/

/-- `X[i], X[nonz_row] = (X[nonz_row].copy(), X[i].copy())` -/
def expSwap (x : String) : C15S :=
  .setSubs [x, x] [.var "i", .var "nonz_row"]
    [.meth (.index (.var x) (.var "nonz_row")) "copy", .meth (.index (.var x) (.var "i")) "copy"]

theorem exec_swap (ctx : C15Ctx) (st : C15Env) (x : String) (c : Nat) (rows : List Row) (i k : Nat)
    (ri rk : Row) (hx : c15Get x st = some (.arr c rows)) (hi : c15Get "i" st = some (.int i))
    (hk : c15Get "nonz_row" st = some (.int k)) (hri : rows[i]? = some ri) (hrk : rows[k]? = some rk) :
    C15S.exec ctx (expSwap x) st =
      .ok (c15Set x (.arr c ((rows.set i rk).set k ri)) (c15Set x (.arr c (rows.set i rk)) st)) := by
  have hil : i < rows.length := (List.getElem?_eq_some_iff.1 hri).1
  have hkl : k < rows.length := (List.getElem?_eq_some_iff.1 hrk).1
  have hni : ¬ ((i : Int) < 0) := by omega
  have hnk : ¬ ((k : Int) < 0) := by omega
  have e1 : rows[i] = ri := (List.getElem?_eq_some_iff.1 hri).2
  have e2 : rows[k] = rk := (List.getElem?_eq_some_iff.1 hrk).2
  simp [expSwap, C15S.exec, C15E.evalL, C15E.eval, hx, hi, hk, bind, Except.bind, pure, Except.pure,
    hni, hnk, hil, hkl, c15Deref, hri, hrk, c15OfR, c15StoreSubs, c15SetRow, c15Get_set, e1, e2]

theorem swapRows_map {α : Type} (f : ARow → α) (s : List ARow) (i k : Nat) (a b : ARow)
    (ha : s[i]? = some a) (hb : s[k]? = some b) :
    (swapRows s i k).map f = ((s.map f).set i (f b)).set k (f a) := by
  simp [swapRows, ha, hb, List.map_set]

theorem swapRows_length (s : List ARow) (i k : Nat) : (swapRows s i k).length = s.length := by
  unfold swapRows
  cases s[i]? <;> cases s[k]? <;> simp

/-- the two exchange statements -/
theorem exec_swaps (ctx : C15Ctx) (rest : List C15S) (st : C15Env) (m n w i j k : Nat) (s : List ARow)
    (hg : GSt st m n w i j s) (hk : c15Get "nonz_row" st = some (.int k)) (hi : i < m) (hkm : k < m) :
    ∃ st', C15S.execL ctx (expSwap "mat" :: expSwap "rhs" :: rest) st = C15S.execL ctx rest st' ∧
      GSt st' m n w i j (swapRows s i k) ∧ c15Get "nonz_row" st' = some (.int k) := by
  have hil : i < s.length := by rw [hg.hlen]; exact hi
  have hkl : k < s.length := by rw [hg.hlen]; exact hkm
  have ha : s[i]? = some s[i] := List.getElem?_eq_getElem hil
  have hb : s[k]? = some s[k] := List.getElem?_eq_getElem hkl
  have e1 := exec_swap ctx st "mat" n (s.map (·.1)) i k s[i].1 s[k].1 hg.hmat hg.hi hk
    (by simp [ha]) (by simp [hb])
  rw [← swapRows_map (·.1) s i k _ _ ha hb] at e1
  rw [execL_cons_ok ctx _ _ _ _ e1]
  have e2 := exec_swap ctx (c15Set "mat" (.arr n ((swapRows s i k).map (·.1)))
      (c15Set "mat" (.arr n ((s.map (·.1)).set i s[k].1)) st)) "rhs" w (s.map (·.2)) i k s[i].2 s[k].2
    (by simp [c15Get_set, hg.hrhs]) (by simp [c15Get_set, hg.hi]) (by simp [c15Get_set, hk])
    (by simp [ha]) (by simp [hb])
  rw [← swapRows_map (·.2) s i k _ _ ha hb] at e2
  rw [execL_cons_ok ctx _ _ _ _ e2]
  refine ⟨_, rfl, ⟨?_, ?_, ?_, ?_, ?_, ?_, ?_⟩, ?_⟩
  · simp [c15Get_set]
  · simp [c15Get_set]
  · simp [c15Get_set, hg.hm]
  · simp [c15Get_set, hg.hn]
  · simp [c15Get_set, hg.hi]
  · simp [c15Get_set, hg.hj]
  · rw [swapRows_length, hg.hlen]
  · simp [c15Get_set, hk]

/-! ### one-step unfoldings of the expression evaluator -/

theorem eval_not (ctx : C15Ctx) (a : C15E) (st : C15Env) :
    (C15E.not_ a).eval ctx st = (do
      let x ← a.eval ctx st
      pure (.bool (!(← c15Truthy x)))) := by simp only [C15E.eval]

theorem eval_call (ctx : C15Ctx) (fn : String) (args : List C15E) (st : C15Env) :
    (C15E.call fn args).eval ctx st = (do c15Builtin ctx st fn (← C15E.evalL ctx args st)) := by
  simp only [C15E.eval]

theorem evalL_nil (ctx : C15Ctx) (st : C15Env) : C15E.evalL ctx [] st = .ok [] := by
  simp only [C15E.evalL]; rfl

theorem evalL_cons (ctx : C15Ctx) (e : C15E) (es : List C15E) (st : C15Env) :
    C15E.evalL ctx (e :: es) st = (do
      let v ← e.eval ctx st
      let vs ← C15E.evalL ctx es st
      pure (v :: vs)) := by simp only [C15E.evalL]

theorem eval_bin (ctx : C15Ctx) (op : C15BinOp) (a b : C15E) (st : C15Env) :
    (C15E.bin op a b).eval ctx st = (do
      let x ← a.eval ctx st
      let y ← b.eval ctx st
      c15Bin st op x y) := by simp only [C15E.eval]

theorem eval_cmp (ctx : C15Ctx) (op : C15CmpOp) (a b : C15E) (st : C15Env) :
    (C15E.cmp op a b).eval ctx st = (do
      let x ← a.eval ctx st
      let y ← b.eval ctx st
      pure (.bool (← c15Cmp op x y))) := by simp only [C15E.eval]

theorem eval_var (ctx : C15Ctx) (x : String) (st : C15Env) (v : C15Val) (h : c15Get x st = some v) :
    (C15E.var x).eval ctx st = .ok v := by simp [C15E.eval, h, pure, Except.pure]

theorem eval_lit (ctx : C15Ctx) (n : Int) (st : C15Env) : (C15E.lit n).eval ctx st = .ok (.int n) := by
  simp [C15E.eval, pure, Except.pure]

/-! ### the elimination loop -/

/-- `X[u] = u_fac*X[u] - i_fac*X[i]` -/
def expRowUpdate (x : String) : C15S :=
  .setSubs [x] [.var "u"]
    [.bin .sub (.bin .mul (.var "u_fac") (.index (.var x) (.var "u")))
      (.bin .mul (.var "i_fac") (.index (.var x) (.var "i")))]

def expElimBody : List C15S := [
  .ifThen (.cmp .eq (.var "u") (.var "i")) [.continue_] [],
  .ifThen (.not_ (.index2 (.var "mat") (.var "u") (.var "j"))) [.continue_] [],
  .assign (.name "ell") (.call "lcm"
    [.index2 (.var "mat") (.var "u") (.var "j"), .index2 (.var "mat") (.var "i") (.var "j")]),
  .assign (.name "u_fac") (.bin .floordiv (.var "ell") (.index2 (.var "mat") (.var "u") (.var "j"))),
  .assign (.name "i_fac") (.bin .floordiv (.var "ell") (.index2 (.var "mat") (.var "i") (.var "j"))),
  expRowUpdate "mat",
  expRowUpdate "rhs",
  .assert_ (.cmp .eq (.index2 (.var "mat") (.var "u") (.var "j")) (.lit 0))]

theorem comb_eq (uf pf : Int) (a b : Row) :
    List.zipWith (· - ·) (a.map (uf * ·)) (b.map (pf * ·)) = comb uf pf a b := by
  simp [comb, List.zipWith_map]

theorem exec_rowUpdate (ctx : C15Ctx) (st : C15Env) (x : String) (c : Nat) (rows : List Row)
    (u i : Nat) (uf pf : Int) (ru ri : Row) (hx : c15Get x st = some (.arr c rows))
    (hu : c15Get "u" st = some (.int u)) (hi : c15Get "i" st = some (.int i))
    (huf : c15Get "u_fac" st = some (.int uf)) (hpf : c15Get "i_fac" st = some (.int pf))
    (hru : rows[u]? = some ru) (hri : rows[i]? = some ri) :
    C15S.exec ctx (expRowUpdate x) st = .ok (c15Set x (.arr c (rows.set u (comb uf pf ru ri))) st) := by
  have hul : u < rows.length := (List.getElem?_eq_some_iff.1 hru).1
  have hil : i < rows.length := (List.getElem?_eq_some_iff.1 hri).1
  have hnu : ¬ ((u : Int) < 0) := by omega
  have hni : ¬ ((i : Int) < 0) := by omega
  have e1 : rows[u] = ru := (List.getElem?_eq_some_iff.1 hru).2
  have e2 : rows[i] = ri := (List.getElem?_eq_some_iff.1 hri).2
  simp [expRowUpdate, C15S.exec, C15E.evalL, C15E.eval, hx, hu, hi, huf, hpf, bind, Except.bind, pure,
    Except.pure, hnu, hni, hul, hil, c15Bin, c15Deref, hru, hri, c15OfR, c15StoreSubs, c15SetRow,
    comb_eq, e1, e2, comb]

theorem lcm_facs {a b l : Int} (hl : Algo.lcm a b = some l) :
    Int.fdiv l a * a = l ∧ Int.fdiv l b * b = l := by
  have hn := Algo.lcm_natAbs a b l hl
  have hda : a ∣ l := by
    rw [← Int.natAbs_dvd_natAbs, hn]
    exact Int.natAbs_dvd_natAbs.2 (Int.dvd_lcm_left a b) |> fun h => by simpa using h
  have hdb : b ∣ l := by
    rw [← Int.natAbs_dvd_natAbs, hn]
    exact Int.natAbs_dvd_natAbs.2 (Int.dvd_lcm_right a b) |> fun h => by simpa using h
  exact ⟨Int.fdiv_mul_cancel hda, Int.fdiv_mul_cancel hdb⟩

theorem rowGet_comb_zero (uf pf : Int) (a b : Row) (j : Nat)
    (h : uf * rowGet a j = pf * rowGet b j) : rowGet (comb uf pf a b) j = 0 := by
  unfold rowGet comb at *
  simp only [List.getD_eq_getElem?_getD, List.getElem?_zipWith] at *
  cases ha : a[j]? <;> cases hb : b[j]? <;> simp_all

/-- one step of `for u in range(0, m)` on the model's state -/
def elimAt (j i : Nat) (p : ARow) (u : Nat) (s : List ARow) : List ARow :=
  if u = i then s else match s[u]? with
    | some r => s.set u (elimRow j p r)
    | none => s

theorem elimAt_length (j i : Nat) (p : ARow) (u : Nat) (s : List ARow) :
    (elimAt j i p u s).length = s.length := by
  unfold elimAt
  by_cases h : u = i
  · simp [h]
  · simp only [h, if_false]; cases s[u]? <;> simp

theorem elimAt_pivot (j i : Nat) (p : ARow) (u : Nat) (s : List ARow) (hp : s[i]? = some p) :
    (elimAt j i p u s)[i]? = some p := by
  unfold elimAt
  by_cases h : u = i
  · simp [h, hp]
  · simp only [h, if_false]
    cases hu : s[u]? with
    | none => exact hp
    | some r => simp [List.getElem?_set, h, hp]

theorem builtin_lcm (ctx : C15Ctx) (st : C15Env) (args : List C15Val) :
    c15Builtin ctx st "lcm" args = ctx.callFn "lcm" args := by
  unfold c15Builtin
  split <;> simp_all

theorem set_self {α : Type} (s : List α) (u : Nat) (r : α) (h : s[u]? = some r) : s.set u r = s := by
  apply List.ext_getElem?
  intro k
  by_cases hk : u = k
  · subst hk; simp [List.getElem?_set, h]
    exact (List.getElem?_eq_some_iff.1 h).1
  · simp [List.getElem?_set, hk]

theorem elim_step (ctx base : C15Ctx) (f : Nat)
    (hcall : ctx.callFn = c15CallFn c15ExpTable base (f + 2))
    (st : C15Env) (m n w i j u : Nat) (s : List ARow) (p : ARow) (hg : GSt st m n w i j s)
    (hj : j < n) (hu : u < m) (hp : s[i]? = some p) (hpj : rowGet p.1 j ≠ 0) :
    ∃ st', (forStep ctx (.name "u") expElimBody (.int (u : Int)) st = .ok st' ∨
        forStep ctx (.name "u") expElimBody (.int (u : Int)) st = .cont st') ∧
      GSt st' m n w i j (elimAt j i p u s) := by
  have hul : u < s.length := by rw [hg.hlen]; exact hu
  obtain ⟨r, hr⟩ : ∃ r, s[u]? = some r := ⟨s[u], List.getElem?_eq_getElem hul⟩
  have hg1 : GSt (c15Set "u" (.int u) st) m n w i j s := hg.set _ _ (by simp [gCore])
  have hu1 : c15Get "u" (c15Set "u" (.int u) st) = some (.int u) := c15Get_set_eq _ _ _
  simp only [forStep, c15Bind]
  by_cases hui : u = i
  · -- `if u == i: continue`
    subst hui
    refine ⟨c15Set "u" (.int u) st, Or.inr ?_, ?_⟩
    · simp [expElimBody, C15S.execL, exec_ifThen, c15Cond, C15E.eval, hu1, hg1.hi, bind, Except.bind, pure,
        Except.pure, c15Cmp, c15ValEq, c15Truthy, C15S.exec]
    · simpa [elimAt] using hg1
  · have hne : ((u : Int) == (i : Int)) = false := by
      have : (u : Int) ≠ (i : Int) := by omega
      simp [this]
    have hc1 : c15Cond ctx (.cmp .eq (.var "u") (.var "i")) (c15Set "u" (.int u) st) = .ok false := by
      simp [c15Cond, C15E.eval, hu1, hg1.hi, bind, Except.bind, pure, Except.pure, c15Cmp, c15ValEq,
        c15Truthy, hne]
    have ha := eval_entry ctx _ "mat" "u" "j" n (s.map (·.1)) u j r.1 hg1.hmat hu1 hg1.hj
      (by simp [hr]) hj
    have hb := eval_entry ctx (c15Set "u" (.int u) st) "mat" "i" "j" n (s.map (·.1)) i j p.1 hg1.hmat
      hg1.hi hg1.hj (by simp [hp]) hj
    by_cases haz : rowGet r.1 j = 0
    · -- `if not mat[u, j]: continue`
      refine ⟨c15Set "u" (.int u) st, Or.inr ?_, ?_⟩
      · have hc2' : c15Cond ctx (.not_ (.index2 (.var "mat") (.var "u") (.var "j")))
            (c15Set "u" (.int u) st) = .ok true := by
          simp [c15Cond, eval_not, ha, bind, Except.bind, pure, Except.pure, c15Truthy, haz]
        simp only [expElimBody, C15S.execL, exec_ifThen, hc1, hc2']
        simp [C15S.exec, C15S.execL]
      · have : elimAt j i p u s = s := by
          simp only [elimAt, hui, if_false, hr, elimRow, haz, if_true]
          exact set_self s u r hr
        rw [this]; exact hg1
    · have hc2 : c15Cond ctx (.not_ (.index2 (.var "mat") (.var "u") (.var "j")))
          (c15Set "u" (.int u) st) = .ok false := by
        simp [c15Cond, eval_not, ha, bind, Except.bind, pure, Except.pure, c15Truthy, haz]
      obtain ⟨l, hl⟩ : ∃ l, Algo.lcm (rowGet r.1 j) (rowGet p.1 j) = some l := by
        cases h : Algo.lcm (rowGet r.1 j) (rowGet p.1 j) with
        | some l => exact ⟨l, rfl⟩
        | none => exact absurd ((Algo.lcm_eq_none_iff _ _).1 h).1 haz
      obtain ⟨hfa, hfb⟩ := lcm_facs hl
      -- the three assignments
      have hell : (C15E.call "lcm" [.index2 (.var "mat") (.var "u") (.var "j"),
          .index2 (.var "mat") (.var "i") (.var "j")]).eval ctx (c15Set "u" (.int u) st) = .ok (.int l) := by
        simp only [eval_call, evalL_cons, evalL_nil, ha, hb, bind, Except.bind, pure, Except.pure,
          builtin_lcm, hcall, call_lcm, hl]
      generalize hst2 : c15Set "ell" (.int l) (c15Set "u" (.int u) st) = st2
      have hg2 : GSt st2 m n w i j s := by subst hst2; exact hg1.set _ _ (by simp [gCore])
      have hu2 : c15Get "u" st2 = some (.int u) := by subst hst2; simp [c15Get_set]
      have hl2 : c15Get "ell" st2 = some (.int l) := by subst hst2; simp [c15Get_set]
      have ha2 := eval_entry ctx st2 "mat" "u" "j" n (s.map (·.1)) u j r.1 hg2.hmat hu2 hg2.hj
        (by simp [hr]) hj
      have huf : (C15E.bin .floordiv (.var "ell") (.index2 (.var "mat") (.var "u") (.var "j"))).eval ctx st2
          = .ok (.int (Int.fdiv l (rowGet r.1 j))) := by
        simp [eval_bin, eval_var ctx "ell" st2 _ hl2, ha2, bind, Except.bind, pure, Except.pure, c15Bin,
          c15IntOp, haz]
      generalize hst3 : c15Set "u_fac" (.int (Int.fdiv l (rowGet r.1 j))) st2 = st3
      have hg3 : GSt st3 m n w i j s := by subst hst3; exact hg2.set _ _ (by simp [gCore])
      have hl3 : c15Get "ell" st3 = some (.int l) := by subst hst3; simp [c15Get_set, hl2]
      have hb3 := eval_entry ctx st3 "mat" "i" "j" n (s.map (·.1)) i j p.1 hg3.hmat hg3.hi hg3.hj
        (by simp [hp]) hj
      have hpf : (C15E.bin .floordiv (.var "ell") (.index2 (.var "mat") (.var "i") (.var "j"))).eval ctx st3
          = .ok (.int (Int.fdiv l (rowGet p.1 j))) := by
        simp [eval_bin, eval_var ctx "ell" st3 _ hl3, hb3, bind, Except.bind, pure, Except.pure, c15Bin,
          c15IntOp, hpj]
      generalize hst4 : c15Set "i_fac" (.int (Int.fdiv l (rowGet p.1 j))) st3 = st4
      have hg4 : GSt st4 m n w i j s := by subst hst4; exact hg3.set _ _ (by simp [gCore])
      have hu4 : c15Get "u" st4 = some (.int u) := by
        subst hst4 hst3; simp [c15Get_set, hu2]
      have huf4 : c15Get "u_fac" st4 = some (.int (Int.fdiv l (rowGet r.1 j))) := by
        subst hst4 hst3; simp [c15Get_set]
      have hpf4 : c15Get "i_fac" st4 = some (.int (Int.fdiv l (rowGet p.1 j))) := by
        subst hst4; simp [c15Get_set]
      -- the two row updates
      have e5 := exec_rowUpdate ctx st4 "mat" n (s.map (·.1)) u i _ _ r.1 p.1 hg4.hmat hu4 hg4.hi huf4 hpf4
        (by simp [hr]) (by simp [hp])
      generalize hst5 : c15Set "mat" (.arr n ((s.map (·.1)).set u
        (comb (Int.fdiv l (rowGet r.1 j)) (Int.fdiv l (rowGet p.1 j)) r.1 p.1))) st4 = st5 at e5
      have e6 := exec_rowUpdate ctx st5 "rhs" w (s.map (·.2)) u i (Int.fdiv l (rowGet r.1 j))
        (Int.fdiv l (rowGet p.1 j)) r.2 p.2 (by subst hst5; simp [c15Get_set, hg4.hrhs])
        (by subst hst5; simp [c15Get_set, hu4]) (by subst hst5; simp [c15Get_set, hg4.hi])
        (by subst hst5; simp [c15Get_set, huf4]) (by subst hst5; simp [c15Get_set, hpf4])
        (by simp [hr]) (by simp [hp])
      generalize hst6 : c15Set "rhs" (.arr w ((s.map (·.2)).set u
        (comb (Int.fdiv l (rowGet r.1 j)) (Int.fdiv l (rowGet p.1 j)) r.2 p.2))) st5 = st6 at e6
      have hrow : elimRow j p r = (comb (Int.fdiv l (rowGet r.1 j)) (Int.fdiv l (rowGet p.1 j)) r.1 p.1,
          comb (Int.fdiv l (rowGet r.1 j)) (Int.fdiv l (rowGet p.1 j)) r.2 p.2) := by
        simp [elimRow, haz, hl]
      have hg6 : GSt st6 m n w i j (elimAt j i p u s) := by
        have hs : elimAt j i p u s = s.set u (elimRow j p r) := by simp [elimAt, hui, hr]
        rw [hs, hrow]
        subst hst6 hst5
        refine ⟨?_, ?_, ?_, ?_, ?_, ?_, ?_⟩
        · simp [c15Get_set, List.map_set]
        · simp [c15Get_set, List.map_set]
        · simp [c15Get_set, hg4.hm]
        · simp [c15Get_set, hg4.hn]
        · simp [c15Get_set, hg4.hi]
        · simp [c15Get_set, hg4.hj]
        · simp [hg.hlen]
      -- the assert
      have hu6 : c15Get "u" st6 = some (.int u) := by subst hst6 hst5; simp [c15Get_set, hu4]
      have hent6 := eval_entry ctx st6 "mat" "u" "j" n ((elimAt j i p u s).map (·.1)) u j
        (comb (Int.fdiv l (rowGet r.1 j)) (Int.fdiv l (rowGet p.1 j)) r.1 p.1) hg6.hmat hu6 hg6.hj
        (by
          have hsu : s[u] = r := (List.getElem?_eq_some_iff.1 hr).2
          simp [elimAt, hui, hr, List.getElem?_set, hul, hsu, hrow]) hj
      have hzero : rowGet (comb (Int.fdiv l (rowGet r.1 j)) (Int.fdiv l (rowGet p.1 j)) r.1 p.1) j = 0 :=
        rowGet_comb_zero _ _ _ _ _ (by rw [hfa, hfb])
      refine ⟨st6, Or.inl ?_, hg6⟩
      simp only [expElimBody, C15S.execL, exec_ifThen, hc1, hc2, exec_assign_name, hell, hst2, huf, hst3,
        hpf, hst4, e5, e6]
      simp [C15S.exec, c15Cond, eval_cmp, hent6, hzero, bind, Except.bind, pure, Except.pure, eval_lit,
        c15Cmp, c15ValEq, c15Truthy]

def elimFold (j i : Nat) (p : ARow) : List Nat → List ARow → List ARow
  | [], s => s
  | u :: us, s => elimFold j i p us (elimAt j i p u s)

theorem elim_loop (ctx base : C15Ctx) (f : Nat)
    (hcall : ctx.callFn = c15CallFn c15ExpTable base (f + 2)) (m n w i j : Nat) (p : ARow)
    (hj : j < n) (hpj : rowGet p.1 j ≠ 0) :
    ∀ (us : List Nat) (st : C15Env) (s : List ARow), (∀ u ∈ us, u < m) → GSt st m n w i j s →
      s[i]? = some p →
      ∃ st', c15For (forStep ctx (.name "u") expElimBody) (us.map fun (u : Nat) => C15Val.int (u : Int)) st
          = .ok st' ∧ GSt st' m n w i j (elimFold j i p us s)
  | [], st, s, _, hg, _ => ⟨st, rfl, hg⟩
  | u :: us, st, s, hus, hg, hp => by
    obtain ⟨st1, h1, hg1⟩ := elim_step ctx base f hcall st m n w i j u s p hg hj (hus u (by simp)) hp hpj
    obtain ⟨st2, h2, hg2⟩ := elim_loop ctx base f hcall m n w i j p hj hpj us st1 (elimAt j i p u s)
      (fun u' hu' => hus u' (by simp [hu'])) hg1 (elimAt_pivot j i p u s hp)
    refine ⟨st2, ?_, hg2⟩
    simp only [List.map_cons, c15For]
    rcases h1 with h1 | h1 <;> simp only [h1, h2]

theorem elimFold_elimAll (j i : Nat) (p : ARow) : ∀ (post pre : List ARow),
    elimFold j i p (List.range' pre.length post.length) (pre ++ post) =
      pre ++ elimAll j i p pre.length post
  | [], pre => by simp [elimFold, elimAll]
  | r :: post, pre => by
    have ih := elimFold_elimAll j i p post (pre ++ [if pre.length = i then r else elimRow j p r])
    simp only [List.length_append, List.length_singleton, List.append_assoc, List.singleton_append] at ih
    simp only [List.length_cons, List.range'_succ, elimFold, elimAll]
    have hat : elimAt j i p pre.length (pre ++ r :: post) =
        pre ++ (if pre.length = i then r else elimRow j p r) :: post := by
      unfold elimAt
      by_cases h : pre.length = i
      · simp [h]
      · simp [h, List.set_append]
    rw [hat, ih]

theorem elimFold_all (j i : Nat) (p : ARow) (s : List ARow) :
    elimFold j i p (List.range' 0 s.length) s = elimAll j i p 0 s := by
  simpa using elimFold_elimAll j i p s []

/-! ### one iteration of the `while` loop -/

def expFoundBody : List C15S := [
  expSwap "mat",
  expSwap "rhs",
  .forIn (.name "u") (.call "range" [.lit 0, .var "m"]) expElimBody,
  .aug "i" .add (.lit 1)]

def expWhileBody : List C15S := [
  .assign (.name "nonz_row") .pyNone,
  .forIn (.name "k") (.call "range" [.var "i", .var "m"]) expPivotBody,
  .ifThen (.isNot (.var "nonz_row") .pyNone) expFoundBody [],
  .aug "j" .add (.lit 1)]

def expWhileCond : C15E := .and_ (.cmp .lt (.var "i") (.var "m")) (.cmp .lt (.var "j") (.var "n"))

theorem exec_aug_int (ctx : C15Ctx) (st : C15Env) (x : String) (a b : Int)
    (hx : c15Get x st = some (.int a)) :
    C15S.exec ctx (.aug x .add (.lit b)) st = .ok (c15Set x (.int (a + b)) st) := by
  simp [C15S.exec, hx, C15E.eval, bind, Except.bind, pure, Except.pure, c15Bin, c15IntOp, c15OfR]

/-- the state after one iteration, as `gaussLoop` computes it -/
def gaussIter (i j : Nat) (s : List ARow) : Nat × List ARow :=
  match findPivot j i 0 s with
  | some k =>
    let s1 := swapRows s i k
    match s1[i]? with
    | some p => (i + 1, elimAll j i p 0 s1)
    | none => (i, s1)
  | none => (i, s)

theorem while_body (ctx base : C15Ctx) (f : Nat)
    (hcall : ctx.callFn = c15CallFn c15ExpTable base (f + 2)) (st : C15Env) (m n w i j : Nat)
    (s : List ARow) (hg : GSt st m n w i j s) (hi : i < m) (hj : j < n) :
    ∃ st', C15S.execL ctx expWhileBody st = .ok st' ∧
      GSt st' m n w (gaussIter i j s).1 (j + 1) (gaussIter i j s).2 := by
  obtain ⟨st1, e1, hg1, hnz⟩ := exec_pivot ctx
    [.ifThen (.isNot (.var "nonz_row") .pyNone) expFoundBody [], .aug "j" .add (.lit 1)] st m n w i j s
    hg hj
  simp only [expWhileBody, e1]
  have hjset : ∀ (st2 : C15Env) (i' : Nat) (s' : List ARow), GSt st2 m n w i' j s' →
      C15S.execL ctx [.aug "j" .add (.lit 1)] st2 = .ok (c15Set "j" (.int ((j : Int) + 1)) st2) ∧
      GSt (c15Set "j" (.int ((j : Int) + 1)) st2) m n w i' (j + 1) s' := by
    intro st2 i' s' h2
    refine ⟨by rw [execL_single, exec_aug_int ctx st2 "j" j 1 h2.hj], ?_⟩
    refine ⟨?_, ?_, ?_, ?_, ?_, ?_, h2.hlen⟩
    · simp [c15Get_set, h2.hmat]
    · simp [c15Get_set, h2.hrhs]
    · simp [c15Get_set, h2.hm]
    · simp [c15Get_set, h2.hn]
    · simp [c15Get_set, h2.hi]
    · simp [c15Get_set]
  cases hfp : findPivot j i 0 s with
  | none =>
    rw [hfp] at hnz
    have hc : c15Cond ctx (.isNot (.var "nonz_row") .pyNone) st1 = .ok false := by
      simp [c15Cond, C15E.eval, hnz, optIdx, bind, Except.bind, pure, Except.pure, c15Is, c15Truthy]
    obtain ⟨h1, h2⟩ := hjset st1 i s hg1
    refine ⟨_, ?_, by simpa [gaussIter, hfp] using h2⟩
    rw [execL_cons, exec_ifThen, hc]
    simp only [C15S.execL]
    exact h1
  | some k =>
    rw [hfp] at hnz
    obtain ⟨_, hik, r, hr, hrj⟩ := findPivot_spec s 0 k hfp
    simp only [Nat.sub_zero] at hr
    have hkm : k < m := by rw [← hg.hlen]; exact (List.getElem?_eq_some_iff.1 hr).1
    have hc : c15Cond ctx (.isNot (.var "nonz_row") .pyNone) st1 = .ok true := by
      simp [c15Cond, C15E.eval, hnz, optIdx, bind, Except.bind, pure, Except.pure, c15Is, c15Truthy]
    have hil : i < s.length := by rw [hg.hlen]; exact hi
    have hp : (swapRows s i k)[i]? = some r := swapRows_get hil hr
    -- the exchange
    obtain ⟨st2, e2, hg2, hnz2⟩ := exec_swaps ctx
      [.forIn (.name "u") (.call "range" [.lit 0, .var "m"]) expElimBody, .aug "i" .add (.lit 1)]
      st1 m n w i j k s hg1 (by simpa [optIdx] using hnz) hi hkm
    -- the elimination loop
    obtain ⟨st3, e3, hg3⟩ := elim_loop ctx base f hcall m n w i j r hj hrj (List.range' 0 m) st2
      (swapRows s i k) (by intro u hu; simp [List.mem_range'] at hu; omega) hg2 hp
    have hrange : (C15E.call "range" [.lit 0, .var "m"]).eval ctx st2 =
        .ok (.list ((List.range' 0 m).map fun (k : Nat) => C15Val.int (k : Int))) := by
      have := c15Range_cast 0 m
      simp only [Nat.cast_zero, Nat.sub_zero] at this
      simp [C15E.eval, C15E.evalL, hg2.hm, bind, Except.bind, pure, Except.pure, c15Builtin, this]
    have hfold : elimFold j i r (List.range' 0 m) (swapRows s i k) = elimAll j i r 0 (swapRows s i k) := by
      rw [← elimFold_all, swapRows_length, hg.hlen]
    rw [hfold] at hg3
    have e4 : C15S.execL ctx expFoundBody st1 =
        .ok (c15Set "i" (.int ((i : Int) + 1)) st3) := by
      simp only [expFoundBody, e2]
      rw [execL_cons_ok ctx _ _ st2 st3 (by rw [exec_forIn, hrange]; simp only [c15Items, e3])]
      rw [execL_single, exec_aug_int ctx st3 "i" i 1 hg3.hi]
    have hg4 : GSt (c15Set "i" (.int ((i : Int) + 1)) st3) m n w (i + 1) j
        (elimAll j i r 0 (swapRows s i k)) := by
      refine ⟨?_, ?_, ?_, ?_, ?_, ?_, hg3.hlen⟩
      · simp [c15Get_set, hg3.hmat]
      · simp [c15Get_set, hg3.hrhs]
      · simp [c15Get_set, hg3.hm]
      · simp [c15Get_set, hg3.hn]
      · simp [c15Get_set]
      · simp [c15Get_set, hg3.hj]
    obtain ⟨h1, h2⟩ := hjset _ _ _ hg4
    refine ⟨_, ?_, by simpa [gaussIter, hfp, hp] using h2⟩
    rw [execL_cons, exec_ifThen, hc]
    simp only [e4]
    exact h1

/-! ### the `while` loop -/

theorem while_cond (ctx : C15Ctx) (st : C15Env) (m n w i j : Nat) (s : List ARow)
    (hg : GSt st m n w i j s) :
    c15Cond ctx expWhileCond st = .ok (decide (i < m ∧ j < n)) := by
  have h1 : decide ((i : Int) < (m : Int)) = decide (i < m) := by
    by_cases h : i < m
    · have : (i : Int) < m := by omega
      simp [h, this]
    · have : ¬ (i : Int) < m := by omega
      simp [h, this]
  have h2 : decide ((j : Int) < (n : Int)) = decide (j < n) := by
    by_cases h : j < n
    · have : (j : Int) < n := by omega
      simp [h, this]
    · have : ¬ (j : Int) < n := by omega
      simp [h, this]
  simp only [c15Cond, expWhileCond, C15E.eval, hg.hi, hg.hm, hg.hj, hg.hn, bind, Except.bind, pure,
    Except.pure, c15Cmp, h1, h2, c15Truthy]
  by_cases hi : i < m <;> by_cases hj : j < n <;> simp [hi, hj, c15Truthy, pure, Except.pure]

theorem gaussLoop_succ (m n fuel i j : Nat) (s : List ARow) (hlen : s.length = m) (hi : i < m)
    (hj : j < n) :
    gaussLoop m n (fuel + 1) i j s =
      gaussLoop m n fuel (gaussIter i j s).1 (j + 1) (gaussIter i j s).2 := by
  simp only [gaussLoop, hi, hj, and_self, if_true, gaussIter]
  cases hfp : findPivot j i 0 s with
  | none => rfl
  | some k =>
    have hil : i < (swapRows s i k).length := by rw [swapRows_length, hlen]; exact hi
    simp only [List.getElem?_eq_getElem hil]

theorem while_loop (ctx base : C15Ctx) (f : Nat)
    (hcall : ctx.callFn = c15CallFn c15ExpTable base (f + 2)) (m n w : Nat) :
    ∀ (fuel i j : Nat) (st : C15Env) (s : List ARow), GSt st m n w i j s → n ≤ j + fuel →
      ∃ st' i' j', c15While (c15Cond ctx expWhileCond) (fun st' => C15S.execL ctx expWhileBody st')
          fuel st = .ok st' ∧ GSt st' m n w i' j' (gaussLoop m n fuel i j s)
  | 0, i, j, st, s, hg, hf => by
    have hc := while_cond ctx st m n w i j s hg
    have : ¬ (i < m ∧ j < n) := by omega
    simp only [this, decide_false] at hc
    exact ⟨st, i, j, by simp [c15While, hc], by simpa [gaussLoop] using hg⟩
  | fuel + 1, i, j, st, s, hg, hf => by
    have hc := while_cond ctx st m n w i j s hg
    by_cases hcond : i < m ∧ j < n
    · simp only [hcond, and_self, decide_true] at hc
      obtain ⟨st1, e1, hg1⟩ := while_body ctx base f hcall st m n w i j s hg hcond.1 hcond.2
      obtain ⟨st2, i2, j2, e2, hg2⟩ := while_loop ctx base f hcall m n w fuel _ (j + 1) st1 _ hg1
        (by omega)
      refine ⟨st2, i2, j2, ?_, ?_⟩
      · simp only [c15While, hc, e1, e2]
      · rw [gaussLoop_succ m n fuel i j s hg.hlen hcond.1 hcond.2]; exact hg2
    · simp only [hcond, decide_false] at hc
      refine ⟨st, i, j, by simp [c15While, hc], ?_⟩
      simpa [gaussLoop, hcond] using hg

/-! ### the gcd normalisation -/

/-- `[a for a in X[i] if a]` -/
def expNonzero (x : String) : C15E :=
  .listCompIf (.var "a") (.name "a") (.index (.var x) (.var "i")) (.var "a")

def expNormBody : List C15S := [
  .assign (.name "g") (.callStar "gcd_many" (.bin .add (expNonzero "mat") (expNonzero "rhs"))),
  .augSub "mat" (.var "i") .floordiv (.var "g"),
  .augSub "rhs" (.var "i") .floordiv (.var "g")]

/-- one step of the comprehension `[a for a in … if a]` -/
def nzStep (ctx : C15Ctx) (st : C15Env) : List C15Val → C15Val → C15R (List C15Val) :=
  fun acc item =>
    match c15Bind (.name "a") item st with
    | Option.none => throw C15Err.stuck
    | some st' => do
      if (← c15Truthy (← (C15E.var "a").eval ctx st')) then
        pure (acc ++ [← (C15E.var "a").eval ctx st'])
      else pure acc

theorem nzStep_int (ctx : C15Ctx) (st : C15Env) (acc : List C15Val) (a : Int) :
    nzStep ctx st acc (.int a) = .ok (if a ≠ 0 then acc ++ [.int a] else acc) := by
  simp only [nzStep, c15Bind, C15E.eval, c15Get_set_eq, bind, Except.bind, pure, Except.pure, c15Truthy]
  by_cases ha : a = 0 <;> simp [ha]

theorem nonzero_fold (ctx : C15Ctx) (st : C15Env) : ∀ (r : Row) (acc : List C15Val),
    List.foldlM (nzStep ctx st) acc (r.map C15Val.int)
      = .ok (acc ++ (r.filter (· ≠ 0)).map C15Val.int)
  | [], acc => by simp [pure, Except.pure]
  | a :: r, acc => by
    simp only [List.map_cons, List.foldlM_cons, nzStep_int, bind, Except.bind]
    by_cases ha : a = 0
    · subst ha
      simpa using nonzero_fold ctx st r acc
    · have := nonzero_fold ctx st r (acc ++ [C15Val.int a])
      simp only [ha, ne_eq, not_false_eq_true, if_true]
      rw [this]
      simp [ha]

theorem eval_nonzero (ctx : C15Ctx) (st : C15Env) (x : String) (c : Nat) (rows : List Row) (i : Nat)
    (r : Row) (hx : c15Get x st = some (.arr c rows)) (hi : c15Get "i" st = some (.int i))
    (hr : rows[i]? = some r) :
    (expNonzero x).eval ctx st = .ok (.list ((r.filter (· ≠ 0)).map C15Val.int)) := by
  have hil : i < rows.length := (List.getElem?_eq_some_iff.1 hr).1
  have hni : ¬ ((i : Int) < 0) := by omega
  have hidx : (C15E.index (.var x) (.var "i")).eval ctx st = .ok (.rowRef x i) := by
    simp [C15E.eval, hx, hi, bind, Except.bind, pure, Except.pure, hni, hil]
  have hit : c15Items st (.rowRef x i) = some (r.map C15Val.int) := by
    simp [c15Items, c15Deref, hx, hr]
  have hun : (expNonzero x).eval ctx st = (do
      let it ← (C15E.index (.var x) (.var "i")).eval ctx st
      match c15Items st it with
      | Option.none => throw C15Err.stuck
      | some items =>
        let l ← items.foldlM (nzStep ctx st) []
        pure (C15Val.list l)) := by
    simp only [expNonzero, C15E.eval]
    rfl
  rw [hun, hidx]
  simp only [bind, Except.bind, hit, nonzero_fold]
  simp [pure, Except.pure]

/-- what the last loop needs of the state -/
structure NSt (st : C15Env) (m n w : Nat) (s : List ARow) : Prop where
  hmat : c15Get "mat" st = some (.arr n (s.map (·.1)))
  hrhs : c15Get "rhs" st = some (.arr w (s.map (·.2)))
  hm : c15Get "m" st = some (.int m)
  hlen : s.length = m

theorem builtin_gcd_many (ctx : C15Ctx) (st : C15Env) (args : List C15Val) :
    c15Builtin ctx st "gcd_many" args = ctx.callFn "gcd_many" args := by
  unfold c15Builtin
  split <;> simp_all

theorem exec_rowDiv (ctx : C15Ctx) (st : C15Env) (x : String) (c : Nat) (rows : List Row) (i : Nat)
    (g : Int) (r : Row) (hx : c15Get x st = some (.arr c rows)) (hi : c15Get "i" st = some (.int i))
    (hg : c15Get "g" st = some (.int g)) (hr : rows[i]? = some r) (hg0 : g ≠ 0) :
    C15S.exec ctx (.augSub x (.var "i") .floordiv (.var "g")) st =
      .ok (c15Set x (.arr c (rows.set i (r.map (Int.fdiv · g)))) st) := by
  have hil : i < rows.length := (List.getElem?_eq_some_iff.1 hr).1
  have hni : ¬ ((i : Int) < 0) := by omega
  have e1 : rows[i] = r := (List.getElem?_eq_some_iff.1 hr).2
  simp [C15S.exec, C15E.eval, hx, hi, hg, bind, Except.bind, pure, Except.pure, hni, hil, c15Bin,
    c15Deref, hr, hg0, c15SetRow, c15OfR, e1]

theorem norm_step (ctx base : C15Ctx) (f : Nat)
    (hcall : ctx.callFn = c15CallFn c15ExpTable base (f + 2)) (st : C15Env) (m n w i : Nat)
    (s : List ARow) (r : ARow) (hg : NSt st m n w s) (hr : s[i]? = some r) :
    ∃ st', forStep ctx (.name "i") expNormBody (.int (i : Int)) st = .ok st' ∧
      NSt st' m n w (s.set i (normRow r)) := by
  have hi1 : c15Get "i" (c15Set "i" (.int i) st) = some (.int i) := c15Get_set_eq _ _ _
  have e1 := eval_nonzero ctx (c15Set "i" (.int i) st) "mat" n (s.map (·.1)) i r.1
    (by simp [c15Get_set, hg.hmat]) hi1 (by simp [hr])
  have e2 := eval_nonzero ctx (c15Set "i" (.int i) st) "rhs" w (s.map (·.2)) i r.2
    (by simp [c15Get_set, hg.hrhs]) hi1 (by simp [hr])
  let gv := gcdMany (r.1.filter (· ≠ 0) ++ r.2.filter (· ≠ 0))
  have hg0 : gv ≠ 0 := gcdMany_ne_zero _ (by
    intro b hb
    simp only [List.mem_append, List.mem_filter, decide_eq_true_eq] at hb
    rcases hb with hb | hb <;> exact hb.2)
  have hgassign : (C15E.callStar "gcd_many" (.bin .add (expNonzero "mat") (expNonzero "rhs"))).eval ctx
      (c15Set "i" (.int i) st) = .ok (.int gv) := by
    simp only [C15E.eval, e1, e2, bind, Except.bind, c15Bin, pure, Except.pure, builtin_gcd_many, hcall,
      ← List.map_append, call_gcd_many]
    rfl
  generalize hst2 : c15Set "g" (.int gv) (c15Set "i" (.int i) st) = st2
  have e3 := exec_rowDiv ctx st2 "mat" n (s.map (·.1)) i gv r.1
    (by subst hst2; simp [c15Get_set, hg.hmat]) (by subst hst2; simp [c15Get_set])
    (by subst hst2; simp [c15Get_set]) (by simp [hr]) hg0
  generalize hst3 : c15Set "mat" (.arr n ((s.map (·.1)).set i (r.1.map (Int.fdiv · gv)))) st2 = st3 at e3
  have e4 := exec_rowDiv ctx st3 "rhs" w (s.map (·.2)) i gv r.2
    (by subst hst3 hst2; simp [c15Get_set, hg.hrhs]) (by subst hst3 hst2; simp [c15Get_set])
    (by subst hst3 hst2; simp [c15Get_set]) (by simp [hr]) hg0
  refine ⟨c15Set "rhs" (.arr w ((s.map (·.2)).set i (r.2.map (Int.fdiv · gv)))) st3, ?_, ?_⟩
  · simp only [forStep, c15Bind, expNormBody]
    rw [execL_cons_ok ctx _ _ _ st2 (by rw [exec_assign_name, hgassign]; simp only [hst2])]
    rw [execL_cons_ok ctx _ _ _ st3 e3, execL_single, e4]
  · subst hst3 hst2
    refine ⟨?_, ?_, ?_, by simp [hg.hlen]⟩
    · simp [c15Get_set, List.map_set, normRow, gv]
    · simp [c15Get_set, List.map_set, normRow, gv]
    · simp [c15Get_set, hg.hm]

def normFold : List Nat → List ARow → List ARow
  | [], s => s
  | i :: is, s => normFold is (match s[i]? with | some r => s.set i (normRow r) | none => s)

theorem norm_loop (ctx base : C15Ctx) (f : Nat)
    (hcall : ctx.callFn = c15CallFn c15ExpTable base (f + 2)) (m n w : Nat) :
    ∀ (is : List Nat) (st : C15Env) (s : List ARow), (∀ i ∈ is, i < m) → NSt st m n w s →
      ∃ st', c15For (forStep ctx (.name "i") expNormBody) (is.map fun (i : Nat) => C15Val.int (i : Int)) st
          = .ok st' ∧ NSt st' m n w (normFold is s)
  | [], st, s, _, hg => ⟨st, rfl, hg⟩
  | i :: is, st, s, his, hg => by
    have hil : i < s.length := by rw [hg.hlen]; exact his i (by simp)
    have hr : s[i]? = some s[i] := List.getElem?_eq_getElem hil
    obtain ⟨st1, e1, hg1⟩ := norm_step ctx base f hcall st m n w i s s[i] hg hr
    obtain ⟨st2, e2, hg2⟩ := norm_loop ctx base f hcall m n w is st1 _
      (fun i' hi' => his i' (by simp [hi'])) hg1
    refine ⟨st2, ?_, ?_⟩
    · simp only [List.map_cons, c15For, e1, e2]
    · simpa [normFold, hr] using hg2

theorem normFold_map : ∀ (post pre : List ARow),
    normFold (List.range' pre.length post.length) (pre ++ post) = pre ++ post.map normRow
  | [], pre => by simp [normFold]
  | r :: post, pre => by
    have ih := normFold_map post (pre ++ [normRow r])
    simp only [List.length_append, List.length_singleton, List.append_assoc, List.singleton_append] at ih
    simp only [List.length_cons, List.range'_succ, normFold, List.map_cons]
    have : (pre ++ r :: post)[pre.length]? = some r := by simp
    simp only [this, List.set_append, Nat.lt_irrefl, if_false, Nat.sub_self, List.set_cons_zero]
    exact ih

/-! ### `gaussian_elimination` -/

def expGaussBody : List C15S := [
  .assign (.tup2 (.name "m") (.name "n")) (.attr (.var "mat") "shape"),
  .assign (.name "i") (.lit 0),
  .assign (.name "j") (.lit 0),
  .while_ expWhileCond expWhileBody,
  .forIn (.name "i") (.call "range" [.var "m"]) expNormBody,
  .ret (.tuple2 (.var "mat") (.var "rhs"))]

def expGaussFn : C15Fn :=
  { name := "gaussian_elimination", definedIn := "gaussian_elimination", params := ["mat", "rhs"],
    vararg := "", body := expGaussBody }

theorem exp_fn_gauss : c15ExpTable.fn "gaussian_elimination" = some expGaussFn := by rfl

theorem exec_while (ctx : C15Ctx) (c : C15E) (body : List C15S) (st : C15Env) :
    C15S.exec ctx (.while_ c body) st =
      c15While (c15Cond ctx c) (fun st' => C15S.execL ctx body st') ctx.wfuel st := by
  simp only [C15S.exec]

/-- **The call `gaussian_elimination(mat, rhs)` of the literal table is `gaussElim`.** -/
theorem call_gauss (base : C15Ctx) (f n w : Nat) (s : List ARow) (hw : base.wfuel = n) :
    c15CallFn c15ExpTable base (f + 3) "gaussian_elimination"
        [.arr n (s.map (·.1)), .arr w (s.map (·.2))] =
      .ok (.pair (.arr n ((gaussElim s.length n s).map (·.1)))
        (.arr w ((gaussElim s.length n s).map (·.2)))) := by
  rw [show f + 3 = (f + 2) + 1 from rfl, callFn_succ, exp_fn_gauss]
  generalize hctx : ({ base with callFn := c15CallFn c15ExpTable base (f + 2) } : C15Ctx) = ctx
  have hcall : ctx.callFn = c15CallFn c15ExpTable base (f + 2) := by subst hctx; rfl
  have hwf : ctx.wfuel = n := by subst hctx; exact hw
  simp only [expGaussFn, c15BindParams, if_true]
  -- the three assignments
  generalize hst3 : c15Set "j" (.int 0) (c15Set "i" (.int 0) (c15Set "n" (.int n)
    (c15Set "m" (.int s.length) (c15Set "rhs" (.arr w (s.map (·.2)))
      (c15Set "mat" (.arr n (s.map (·.1))) []))))) = st3
  have e1 : C15S.execL ctx expGaussBody (c15Set "rhs" (.arr w (s.map (·.2)))
      (c15Set "mat" (.arr n (s.map (·.1))) [])) = C15S.execL ctx (expGaussBody.drop 3) st3 := by
    subst hst3
    simp [expGaussBody, C15S.execL, C15S.exec, C15E.eval, c15Get_set, c15Get, c15Set, c15Bind, bind,
      Except.bind, pure, Except.pure, Option.bind]
  have hg3 : GSt st3 s.length n w 0 0 s := by
    subst hst3
    refine ⟨?_, ?_, ?_, ?_, ?_, ?_, rfl⟩ <;> simp [c15Get_set, c15Get, c15Set]
  rw [e1]
  obtain ⟨st4, i4, j4, e4, hg4⟩ := while_loop ctx base f hcall s.length n w n 0 0 st3 s hg3 (by omega)
  simp only [expGaussBody, List.drop]
  rw [execL_cons_ok ctx _ _ st3 st4 (by rw [exec_while, hwf]; exact e4)]
  have hn4 : NSt st4 s.length n w (gaussLoop s.length n n 0 0 s) := ⟨hg4.hmat, hg4.hrhs, hg4.hm, hg4.hlen⟩
  obtain ⟨st5, e5, hn5⟩ := norm_loop ctx base f hcall s.length n w (List.range' 0 s.length) st4 _
    (by intro i hi; simp [List.mem_range'] at hi; omega) hn4
  have hrange : (C15E.call "range" [.var "m"]).eval ctx st4 =
      .ok (.list ((List.range' 0 s.length).map fun (k : Nat) => C15Val.int (k : Int))) := by
    have := c15Range_cast 0 s.length
    simp only [Nat.cast_zero, Nat.sub_zero] at this
    simp [C15E.eval, C15E.evalL, hg4.hm, bind, Except.bind, pure, Except.pure, c15Builtin, this]
  rw [execL_cons_ok ctx _ _ st4 st5 (by rw [exec_forIn, hrange]; simp only [c15Items, e5])]
  have hfold : normFold (List.range' 0 s.length) (gaussLoop s.length n n 0 0 s) = gaussElim s.length n s := by
    have := normFold_map (gaussLoop s.length n n 0 0 s) []
    simp only [List.length_nil, List.nil_append, hg4.hlen] at this
    rw [this]; rfl
  rw [hfold] at hn5
  simp [C15S.execL, C15S.exec, C15E.eval, hn5.hmat, hn5.hrhs, bind, Except.bind, pure, Except.pure,
    c15Result]

theorem zip_fst_snd (l : List ARow) : (l.map (·.1)).zip (l.map (·.2)) = l := by
  induction l with
  | nil => rfl
  | cons a l ih => simp [ih]

/-- **`gaussian_elimination` as the literal table has it IS `gaussElim`**, for every integer system
(`n`: the column count of `mat`; the row count is the number of rows). -/
theorem runGauss_exp (n : Nat) (s : List ARow) :
    c15RunGauss c15ExpTable n s = .ok (gaussElim s.length n s) := by
  unfold c15RunGauss
  simp only [bind, Except.bind]
  rw [show (4 : Nat) = 1 + 3 from rfl, call_gauss _ 1 n _ s rfl]
  simp [zip_fst_snd, pure, Except.pure]

end PV.Coeff
