import PV.Proofs.ImpTable
/-
  C20 (T-gen): `fuse_statement_streams_with_unique_ids` as the regenerated table has it IS `fuseG`.
-/
set_option linter.unusedSimpArgs false

namespace PV.Imp
open PV PV.Generated

variable {σ : Type}

/-- a `dict` of strings as an interpreter value -/
def encM (m : List (String × String)) : List (String × C20Val σ) := m.map fun p => (p.1, .str p.2)

theorem dictGet_encM (k : String) : ∀ m : List (String × String),
    c20DictGet k (encM (σ := σ) m) = (m.lookup k).map .str
  | [] => rfl
  | (a, b) :: m => by
    have ih := dictGet_encM k m
    by_cases h : a = k
    · subst h; simp [encM, c20DictGet, List.lookup]
    · have h' : (k == a) = false := by simpa using fun h' => h h'.symm
      simp only [encM, List.map_cons, c20DictGet, List.lookup, h'] at ih ⊢
      simp [h, ih]

theorem dictSet_encM (k v : String) : ∀ m : List (String × String),
    c20DictSet k (.str v) (encM (σ := σ) m) = encM (assocSet m k v)
  | [] => rfl
  | (a, b) :: m => by
    have ih := dictSet_encM k v m
    by_cases h : a = k
    · subst h; simp [encM, c20DictSet, assocSet]
    · simp only [encM, List.map_cons, c20DictSet, assocSet] at ih ⊢
      simp [h, ih]

/-! ### the set comprehension `{stmta.id for stmta in new_statements}` -/

theorem mapElems_ids (c : C20Ctx σ) (env : C20Env σ) : ∀ A : List Stmt,
    c20MapElems (c20Eval c (.attr (.var "stmta") "id")) "stmta" env (A.map .stmt) =
      .ok ((A.map (·.id)).map .str)
  | [] => rfl
  | a :: A => by
    simp only [List.map_cons, c20MapElems, mapElems_ids c env A]
    simp [c20step]

theorem ids_comp (c : C20Ctx σ) (env : C20Env σ) (A : List Stmt) :
    ((c20Comp (c20Eval c (.attr (.var "stmta") "id")) "stmta" env (.list (A.map .stmt))).bind
      fun ws => c20StrSetOf dedupS ws) = .ok (.strSet (dedupS (A.map (·.id)))) := by
  simp only [c20Comp, c20Elems, mapElems_ids, C20Res.bind_ok, c20StrSetOf, strsOf_map_str]

/-! ### `frozenset(old_b_id_to_new_b_id[dep_id] for dep_id in stmtb.depends_on)` -/

/-- the looked-up ids in order (`KeyError` at the first id that is not a key) -/
def remapList (m : List (String × String)) : List String → Except ImpErr (List String)
  | [] => .ok []
  | d :: ds =>
    match m.lookup d with
    | none => .error .keyError
    | some n =>
      match remapList m ds with
      | .ok r => .ok (n :: r)
      | .error e => .error e

theorem remapDeps_eq (m : List (String × String)) : ∀ ds,
    remapDeps m ds = (remapList m ds).map c20SetOfList
  | [] => rfl
  | d :: ds => by
    simp only [remapDeps, remapList, remapDeps_eq m ds]
    cases m.lookup d with
    | none => rfl
    | some n => cases remapList m ds <;> rfl

theorem mapElems_remap (c : C20Ctx σ) (env : C20Env σ) (m : List (String × String))
    (h : c20Get "old_b_id_to_new_b_id" env = some (.dict (encM m))) : ∀ ds : List String,
    c20MapElems (c20Eval c (.index (.var "old_b_id_to_new_b_id") (.var "dep_id"))) "dep_id" env
        (ds.map .str) = C20Res.ofExcept (·.map .str) (remapList m ds)
  | [] => rfl
  | d :: ds => by
    simp only [List.map_cons, c20MapElems, mapElems_remap c env m h ds, remapList]
    simp [c20step, h, dictGet_encM]
    cases m.lookup d with
    | none => rfl
    | some n => cases remapList m ds <;> rfl

theorem remap_comp (c : C20Ctx σ) (env : C20Env σ) (m : List (String × String))
    (h : c20Get "old_b_id_to_new_b_id" env = some (.dict (encM m))) (ds : List String) :
    ((c20Comp (c20Eval c (.index (.var "old_b_id_to_new_b_id") (.var "dep_id"))) "dep_id" env
        (.strSet ds)).bind fun ws => c20StrSetOf c20SetOfList ws) =
      C20Res.ofExcept .strSet (remapDeps m ds) := by
  simp only [c20Comp, c20Elems, mapElems_remap c env m h ds, remapDeps_eq]
  cases remapList m ds <;>
    simp [C20Res.ofExcept, c20StrSetOf, strsOf_map_str, Except.map]

/-! ### the two loops -/

/-- the frame of `fuse_statement_streams_with_unique_ids` -/
abbrev fuseEnv (va vb vn vu : C20Val σ) (s : σ) (bu : List (C20Val σ))
    (m : List (String × String)) (j1 j2 j3 : C20Val σ) : C20Env σ :=
  [("statements_a", va), ("statements_b", vb), ("new_statements", vn),
   ("UniqueNameGenerator", vu), ("stmt_id_gen", .gen s), ("b_unique_statements", .list bu),
   ("old_b_id_to_new_b_id", .dict (encM m)), ("stmtb", j1), ("old_id", j2), ("new_id", j3)]

/-- first loop: whatever its body is, if one pass does what one step of `renameIds` does, the
loop does what `renameIds` does -/
theorem fuse_loop1 (G : NameGen σ) (f : C20Env σ → C20Out σ) (va vb vn vu : C20Val σ)
    (hf : ∀ (b : Stmt) (s : σ) (bu : List (C20Val σ)) (m : List (String × String))
        (j2 j3 : C20Val σ),
      f (fuseEnv va vb vn vu s bu m (.stmt b) j2 j3) =
        match G.call s b.id with
        | none => .err .noName
        | some (n, s') =>
          .next (fuseEnv va vb vn vu s' (bu ++ [.stmt { b with id := n }]) (assocSet m b.id n)
            (.stmt b) (.str b.id) (.str n))) :
    ∀ (bs : List Stmt) (s : σ) (bu : List (C20Val σ)) (m : List (String × String))
      (j1 j2 j3 : C20Val σ),
      c20ForIn f "stmtb" (bs.map .stmt) (fuseEnv va vb vn vu s bu m j1 j2 j3) =
        match renameIds G s bs m with
        | none => .err .noName
        | some (bs', m', s') =>
          .next (fuseEnv va vb vn vu s' (bu ++ bs'.map .stmt) m' (c20LastD j1 (bs.map .stmt))
            (c20LastD j2 (bs.map fun b => .str b.id)) (c20LastD j3 (bs'.map fun b => .str b.id)))
  | [], s, bu, m, j1, j2, j3 => by simp [c20ForIn, renameIds, c20LastD]
  | b :: bs, s, bu, m, j1, j2, j3 => by
    simp only [List.map_cons, c20ForIn, fuseEnv, c20Set, String.reduceEq, if_false, if_true]
    rw [hf, renameIds]
    cases hc : G.call s b.id with
    | none => rfl
    | some p =>
      obtain ⟨n, s'⟩ := p
      simp only [fuse_loop1 G f va vb vn vu hf bs, c20LastD]
      cases renameIds G s' bs (assocSet m b.id n) with
      | none => rfl
      | some q =>
        obtain ⟨bs', m', s''⟩ := q
        simp [c20LastD]

/-- second loop: if one pass appends the statement with its dependencies remapped, the loop does
what `remapAll` does -/
theorem fuse_loop2 (f : C20Env σ → C20Out σ) (va vb vu : C20Val σ) (s : σ)
    (bu : List (C20Val σ)) (m : List (String × String)) (j2 j3 : C20Val σ)
    (hf : ∀ (b : Stmt) (vn : List (C20Val σ)),
      f (fuseEnv va vb (.list vn) vu s bu m (.stmt b) j2 j3) =
        match remapDeps m b.dependsOn with
        | .error e => .err e
        | .ok d =>
          .next (fuseEnv va vb (.list (vn ++ [.stmt { b with dependsOn := d }])) vu s bu m
            (.stmt b) j2 j3)) :
    ∀ (bs : List Stmt) (vn : List (C20Val σ)) (j1 : C20Val σ),
      c20ForIn f "stmtb" (bs.map .stmt) (fuseEnv va vb (.list vn) vu s bu m j1 j2 j3) =
        match remapAll m bs with
        | .error e => .err e
        | .ok r =>
          .next (fuseEnv va vb (.list (vn ++ r.map .stmt)) vu s bu m
            (c20LastD j1 (bs.map .stmt)) j2 j3)
  | [], vn, j1 => by simp [c20ForIn, remapAll, c20LastD, pure, Except.pure]
  | b :: bs, vn, j1 => by
    simp only [List.map_cons, c20ForIn, fuseEnv, c20Set, String.reduceEq, if_false, if_true]
    rw [hf, remapAll]
    cases hd : remapDeps m b.dependsOn with
    | error e => rfl
    | ok d =>
      simp only [fuse_loop2 f va vb vu s bu m j2 j3 hf bs, c20LastD]
      cases remapAll m bs with
      | error e => rfl
      | ok r => simp [bind, Except.bind, pure, Except.pure]

/-! ### the function -/

/-- a generator that is seeded with a SET: it cannot tell in which order, or how often, the names
it must avoid were listed (Python passes a `set`) -/
def NameGen.SeededBySet (G : NameGen σ) : Prop := ∀ xs, G.init (dedupS xs) = G.init xs

/-- `copy(**kw)` of every statement class is `pytools.RecordWithoutPickling.copy` -/
theorem copy_method_eq (G : NameGen σ) (order) (wf : Nat) (hook : C20Hook σ) (cls : Option String)
    (s : Stmt) (ks : List String) (vs : List (C20Val σ)) :
    c20Method (cxCur G order wf hook cls) (.stmt s) "copy" [] ks vs =
      match c20Copy s ks vs with
      | some s' => .ok (.stmt s')
      | none => .stuck := by
  obtain ⟨i, d, k⟩ := s
  cases k with
  | nop => c20_run [c20Method]; cases c20Copy _ ks vs <;> rfl
  | assign l r c => cases c <;> c20_run [c20Method] <;> cases c20Copy _ ks vs <;> rfl

/-- **`fuse_statement_streams_with_unique_ids` of the current source is `fuseG`.**  The body read
from the working tree — copy of the first stream, the generator seeded with the ids of the first
stream, the first loop that asks the generator for every id of the second stream in order and
records `old → new`, the SECOND loop that remaps the dependencies through the finished mapping —
run by the table interpreter, returns exactly what the model returns (statements and mapping) or
raises what the model raises, for every pair of streams and every generator seeded by a set. -/
theorem fuse_fn_eq_table (G : NameGen σ) (hG : G.SeededBySet) (order : List String → List String)
    (wf n : Nat) (cls : Option String) (A B : List Stmt) :
    c20CallFn (cxCur G order wf (c20Run (cfgCur G order wf) (n + 1)) cls) c20Fn_fuse_statement_streams_with_unique_ids
      [.list (A.map .stmt), .list (B.map .stmt)] [] [] =
      C20Res.ofExcept (fun r => .tuple [.list (r.1.map .stmt), .dict (encM r.2)]) (fuseG G A B) := by
  simp only [c20CallFn, c20Fn_fuse_statement_streams_with_unique_ids]
  c20_run [ids_comp, hG (A.map (·.id))]
  rw [show (C20Val.dict [] : C20Val σ) = .dict (encM []) from rfl, fuse_loop1 G]
  · unfold fuseG
    cases hr : renameIds G (G.init (List.map (fun x => x.id) A)) B [] with
    | none => rfl
    | some q =>
      obtain ⟨bs', m', s'⟩ := q
      c20_run []
      rw [fuse_loop2]
      · cases hm : remapAll m' bs' with
        | error e => rfl
        | ok r => simp [C20Res.ofExcept, c20step, bind, Except.bind, pure, Except.pure]
      · intro b vn
        c20_run [copy_method_eq, fun c env => remap_comp (σ := σ) c env m', fuseEnv]
        cases hd : remapDeps m' b.dependsOn <;> simp [C20Res.ofExcept, c20step]
  · intro b s bu m j2 j3
    cases hc : G.call s b.id with
    | none => c20_run [hc]
    | some p =>
      obtain ⟨nm, s'⟩ := p
      c20_run [hc, copy_method_eq, dictSet_encM]


end PV.Imp
