import PV.Model.Pickle
/-
  C17, persistent-hash digest: structurally equal trees have the same digest stream.
-/
namespace PV.Pickle
open PV

/-- two constants print the same `repr` class-wise: same Python type, and for floats the same
`repr` (`0.0` and `-0.0`, or `1`, `1.0` and `True`, are `==` but print differently) -/
def sameRepr : Const → Const → Bool
  | .int _, .int _ => true
  | .bool _, .bool _ => true
  | .flt r _ _, .flt r' _ _ => r == r'
  | .str _, .str _ => true
  | .none, .none => true
  | _, _ => false

mutual
/-- same constructors; constants at corresponding positions have the same type (floats: the same
`repr`); keyword arguments at corresponding calls were inserted in the same order -/
def sameShape : Expr → Expr → Bool
  | .const c, .const d => sameRepr c d
  | .var _, .var _ => true
  | .nary _ cs, .nary _ cs' => sameShapeL cs cs'
  | .bin _ a b, .bin _ a' b' => sameShape a a' && sameShape b b'
  | .un _ a, .un _ a' => sameShape a a'
  | .cmp _ a b, .cmp _ a' b' => sameShape a a' && sameShape b b'
  | .ite c t e, .ite c' t' e' => sameShape c c' && sameShape t t' && sameShape e e'
  | .call f as, .call f' as' => sameShape f f' && sameShapeL as as'
  | .callKw f as ns vs, .callKw f' as' ns' vs' =>
      sameShape f f' && sameShapeL as as' && ns == ns' && sameShapeL vs vs'
  | .subscript a i, .subscript a' i' => sameShape a a' && sameShape i i'
  | .lookup a _, .lookup a' _ => sameShape a a'
  | .cse c _ _, .cse c' _ _ => sameShape c c'
  | .subst c _ xs, .subst c' _ xs' => sameShape c c' && sameShapeL xs xs'
  | .deriv c _, .deriv c' _ => sameShape c c'
  | .slice cs, .slice cs' => sameShapeL cs cs'
  | .nan, .nan => true
  | .wildcard, .wildcard => true
  | .dotWild _, .dotWild _ => true
  | .starWild _, .starWild _ => true
  | .funcSym, .funcSym => true
  | .tuple cs, .tuple cs' => sameShapeL cs cs'
  | .list cs, .list cs' => sameShapeL cs cs'
  | _, _ => false
def sameShapeL : List Expr → List Expr → Bool
  | [], [] => true
  | a :: as, b :: bs => sameShape a b && sameShapeL as bs
  | _, _ => false
end

theorem constRepr_eq {c d : Const} (h : c.pyEq d = true) (hs : sameRepr c d = true) :
    constRepr c = constRepr d := by
  cases c <;> cases d <;> simp only [sameRepr, Bool.false_eq_true, beq_iff_eq] at hs <;>
    simp only [constRepr]
  case int.int n m =>
    simp only [Const.pyEq, Const.numVal?, beq_iff_eq] at h
    have : n = m := by omega
    rw [this]
  case bool.bool a b =>
    cases a <;> cases b <;> simp_all [Const.pyEq, Const.numVal?]
  case flt.flt => rw [hs]

/-- the local induction predicate -/
def DigOK (a : Expr) : Prop :=
  ∀ b : Expr, a.wf = true → b.wf = true → a.pyEq b = true → sameShape a b = true →
    digest a = digest b

theorem digestL_of : ∀ (as bs : List Expr), (∀ a ∈ as, DigOK a) →
    (∀ a ∈ as, a.wf = true) → (∀ b ∈ bs, b.wf = true) →
    Expr.pyEqL as bs = true → sameShapeL as bs = true → digestL as = digestL bs
  | [], [], _, _, _, _, _ => rfl
  | [], _ :: _, _, _, _, h, _ => by simp [Expr.pyEqL] at h
  | _ :: _, [], _, _, _, h, _ => by simp [Expr.pyEqL] at h
  | a :: as, b :: bs, ih, wa, wb, h, hs => by
    simp only [Expr.pyEqL, Bool.and_eq_true] at h
    simp only [sameShapeL, Bool.and_eq_true] at hs
    simp only [List.forall_mem_cons] at ih wa wb
    simp only [digestL]
    rw [ih.1 b wa.1 wb.1 h.1 hs.1, digestL_of as bs ih.2 wa.2 wb.2 h.2 hs.2]

theorem pyEq_none_left {b : Expr} (h : (Expr.const .none).pyEq b = true) : b = .const .none := by
  cases b <;> simp only [Expr.pyEq, Bool.false_eq_true] at h
  rename_i d
  cases d with
  | none => rfl
  | flt r n dd => by_cases hd : dd = 0 <;> simp [Const.pyEq, Const.numVal?, hd] at h
  | _ => simp [Const.pyEq, Const.numVal?] at h

theorem pyEq_none_right {a : Expr} (h : a.pyEq (.const .none) = true) : a = .const .none := by
  cases a <;> simp only [Expr.pyEq, Bool.false_eq_true] at h
  rename_i d
  cases d with
  | none => rfl
  | flt r n dd => by_cases hd : dd = 0 <;> simp [Const.pyEq, Const.numVal?, hd] at h
  | _ => simp [Const.pyEq, Const.numVal?] at h

theorem digestSlice_cons_ne {c : Expr} (cs : List Expr) (h : c ≠ .const .none) :
    digestSlice (c :: cs) = (do let x ← digest c; let y ← digestSlice cs; pure (x ++ y)) := by
  cases c with
  | const d => cases d <;> first | (exact absurd rfl h) | simp only [digestSlice]
  | _ => simp only [digestSlice]

theorem digestSlice_of : ∀ (as bs : List Expr), (∀ a ∈ as, DigOK a) →
    (∀ a ∈ as, a.wf = true) → (∀ b ∈ bs, b.wf = true) →
    Expr.pyEqL as bs = true → sameShapeL as bs = true → digestSlice as = digestSlice bs
  | [], [], _, _, _, _, _ => rfl
  | [], _ :: _, _, _, _, h, _ => by simp [Expr.pyEqL] at h
  | _ :: _, [], _, _, _, h, _ => by simp [Expr.pyEqL] at h
  | a :: as, b :: bs, ih, wa, wb, h, hs => by
    simp only [Expr.pyEqL, Bool.and_eq_true] at h
    simp only [sameShapeL, Bool.and_eq_true] at hs
    simp only [List.forall_mem_cons] at ih wa wb
    have rest := digestSlice_of as bs ih.2 wa.2 wb.2 h.2 hs.2
    by_cases hn : a = .const .none
    · subst hn
      have := pyEq_none_left h.1
      subst this
      simp only [digestSlice, rest]
    · have hn' : b ≠ .const .none := by
        rintro rfl
        exact hn (pyEq_none_right h.1)
      rw [digestSlice_cons_ne as hn, digestSlice_cons_ne bs hn', ih.1 b wa.1 wb.1 h.1 hs.1, rest]

/-! same keyword names in the same order: the mapping comparison is positional -/

theorem pyEqKw_skip {n : String} {w : Expr} : ∀ (ns : List String) (vs : List Expr)
    (ms : List String) (ws : List Expr), n ∉ ns →
    Expr.pyEqKw ns vs (n :: ms) (w :: ws) = Expr.pyEqKw ns vs ms ws
  | [], _, _, _, _ => by simp [Expr.pyEqKw]
  | _ :: _, [], _, _, _ => by simp [Expr.pyEqKw]
  | m :: ns, v :: vs, ms, ws, h => by
    simp only [List.mem_cons, not_or] at h
    have : ¬ n = m := h.1
    simp only [Expr.pyEqKw, assocLookupE, this, if_false, pyEqKw_skip ns vs ms ws h.2]

theorem pyEqKw_same_names : ∀ (ns : List String) (vs ws : List Expr), ns.Nodup →
    ns.length = vs.length → ns.length = ws.length →
    Expr.pyEqKw ns vs ns ws = true → Expr.pyEqL vs ws = true
  | [], [], [], _, _, _, _ => rfl
  | [], _ :: _, _, _, h, _, _ => by simp at h
  | [], [], _ :: _, _, _, h, _ => by simp at h
  | _ :: _, [], _, _, h, _, _ => by simp at h
  | _ :: _, _ :: _, [], _, _, h, _ => by simp at h
  | n :: ns, v :: vs, w :: ws, hn, h1, h2, h => by
    simp only [List.nodup_cons] at hn
    simp only [List.length_cons, Nat.add_right_cancel_iff] at h1 h2
    simp only [Expr.pyEqKw, assocLookupE, if_true, Bool.and_eq_true,
      pyEqKw_skip ns vs ns ws hn.1] at h
    simp only [Expr.pyEqL, Bool.and_eq_true]
    exact ⟨h.1, pyEqKw_same_names ns vs ws hn.2 h1 h2 h.2⟩

theorem digest_ok (a : Expr) : DigOK a := by
  induction a using Expr.induct with | _ a ih => ?_
  intro b ha hb h hs
  cases a <;> cases b <;>
    simp only [Expr.pyEq, Bool.false_eq_true, Bool.and_eq_true, beq_iff_eq] at h <;>
    simp only [sameShape, Bool.and_eq_true, beq_iff_eq] at hs <;>
    simp only [Expr.children, List.forall_mem_cons, List.not_mem_nil, false_imp_iff, implies_true,
      and_true, List.mem_append] at ih <;>
    simp only [Expr.wf, Bool.and_eq_true, wfL_iff, decide_eq_true_eq, beq_iff_eq] at ha hb
  case const.const c d => simp only [digest, constRepr_eq h hs]
  case var.var => simp only [digest, h]
  case nary.nary o cs o' cs' =>
    simp only [digest, h.1, digestL_of cs cs' ih ha hb h.2 hs]
  case bin.bin o x y o' x' y' =>
    obtain ⟨⟨rfl, h1⟩, h2⟩ := h
    have e1 := ih.1 x' ha.1 hb.1 h1 hs.1
    have e2 := ih.2 y' ha.2 hb.2 h2 hs.2
    cases o <;> simp only [digest, e1, e2]
  case un.un o x o' x' => simp only [digest, h.1, ih x' ha hb h.2 hs]
  case cmp.cmp o x y o' x' y' =>
    simp only [digest, h.1.1, ih.1 x' ha.1 hb.1 h.1.2 hs.1, ih.2 y' ha.2 hb.2 h.2 hs.2]
  case ite.ite c t e c' t' e' =>
    simp only [digest, ih.1 c' ha.1.1 hb.1.1 h.1.1 hs.1.1, ih.2.1 t' ha.1.2 hb.1.2 h.1.2 hs.1.2,
      ih.2.2 e' ha.2 hb.2 h.2 hs.2]
  case call.call f as f' as' =>
    simp only [digest, ih.1 f' ha.1 hb.1 h.1 hs.1, digestL_of as as' ih.2 ha.2 hb.2 h.2 hs.2]
  case callKw.callKw f as ns vs f' as' ns' vs' =>
    obtain ⟨⟨⟨h1, h2⟩, h3⟩, h4⟩ := h
    obtain ⟨⟨⟨s1, s2⟩, s3⟩, s4⟩ := hs
    obtain ⟨⟨⟨⟨a1, a2⟩, a3⟩, a4⟩, a5⟩ := ha
    obtain ⟨⟨⟨⟨b1, b2⟩, b3⟩, b4⟩, b5⟩ := hb
    subst s3
    have hv := pyEqKw_same_names ns vs vs' a3 a4 b4 h4
    simp only [digest, ih.1 f' a1 b1 h1 s1,
      digestL_of as as' (fun c hc => ih.2 c (Or.inl hc)) a2 b2 h2 s2,
      digestL_of vs vs' (fun c hc => ih.2 c (Or.inr hc)) a5 b5 hv s4]
  case subscript.subscript x y x' y' =>
    simp only [digest, ih.1 x' ha.1 hb.1 h.1 hs.1, ih.2 y' ha.2 hb.2 h.2 hs.2]
  case lookup.lookup x n x' n' => simp only [digest, ih x' ha hb h.1 hs]
  case cse.cse x p s x' p' s' => simp only [digest, ih x' ha hb h.1.1 hs]
  case subst.subst x vs xs x' vs' xs' =>
    simp only [digest, ih.1 x' ha.1 hb.1 h.1.1 hs.1, digestL_of xs xs' ih.2 ha.2 hb.2 h.2 hs.2]
  case deriv.deriv x vs x' vs' => simp only [digest, ih x' ha hb h.1 hs]
  case slice.slice cs cs' => simp only [digest, digestSlice_of cs cs' ih ha hb h hs]
  case tuple.tuple cs cs' => simp only [digest, digestL_of cs cs' ih ha hb h hs]
  case list.list cs cs' => simp only [digest, digestL_of cs cs' ih ha hb h hs]
  all_goals rfl

end PV.Pickle
