import PV.Model.CompiledOrder
import PV.Proofs.Compile
/-
  C17 — helper lemmas: the stable sort by a key is a permutation, is sorted by key, and is
  determined by the SET of its elements when the key is injective on them.
-/
namespace PV

theorem insertByKey_id (x : String) : ∀ l : List String, insertByKey id x l = insertSorted x l
  | [] => rfl
  | y :: ys => by simp only [insertByKey, insertSorted, id, insertByKey_id x ys]

theorem sortByKey_id : ∀ l : List String, sortByKey id l = sortStrings l
  | [] => rfl
  | x :: xs => by simp only [sortByKey, sortStrings, sortByKey_id xs, insertByKey_id]

theorem insertByKey_perm (key : String → String) (x : String) :
    ∀ l : List String, (insertByKey key x l).Perm (x :: l)
  | [] => by simp [insertByKey]
  | y :: ys => by
      unfold insertByKey
      split
      · exact List.Perm.refl _
      · exact ((insertByKey_perm key x ys).cons y).trans (List.Perm.swap x y ys)

theorem sortByKey_perm (key : String → String) : ∀ l : List String, (sortByKey key l).Perm l
  | [] => by simp [sortByKey]
  | x :: xs => by
      unfold sortByKey
      exact (insertByKey_perm key x _).trans ((sortByKey_perm key xs).cons x)

/-- ascending (non-strict) by key -/
def KeySorted (key : String → String) (l : List String) : Prop :=
  l.Pairwise (fun a b => key a ≤ key b)

theorem insertByKey_sorted (key : String → String) (x : String) :
    ∀ l : List String, KeySorted key l → KeySorted key (insertByKey key x l)
  | [], _ => by simp [insertByKey, KeySorted]
  | y :: ys, h => by
      unfold insertByKey
      have hy := List.pairwise_cons.mp h
      split
      · rename_i hxy
        refine List.pairwise_cons.mpr ⟨?_, h⟩
        intro z hz
        rcases List.mem_cons.mp hz with rfl | hz
        · exact hxy
        · exact String.le_trans hxy (hy.1 z hz)
      · rename_i hxy
        have hyx : key y ≤ key x := by
          cases String.le_total (key x) (key y) with
          | inl h' => exact absurd h' hxy
          | inr h' => exact h'
        refine List.pairwise_cons.mpr ⟨?_, insertByKey_sorted key x ys hy.2⟩
        intro z hz
        have := (insertByKey_perm key x ys).mem_iff.mp hz
        rcases List.mem_cons.mp this with rfl | hz
        · exact hyx
        · exact hy.1 z hz

theorem sortByKey_sorted (key : String → String) : ∀ l : List String, KeySorted key (sortByKey key l)
  | [] => by simp [sortByKey, KeySorted]
  | x :: xs => by
      unfold sortByKey
      exact insertByKey_sorted key x _ (sortByKey_sorted key xs)

/-- two key-sorted lists with the same elements are the same list, provided the key tells the
elements apart -/
theorem keySorted_perm_eq (key : String → String) :
    ∀ l₁ l₂ : List String, (∀ a ∈ l₁, ∀ b ∈ l₁, key a = key b → a = b) →
      KeySorted key l₁ → KeySorted key l₂ → l₁.Perm l₂ → l₁ = l₂
  | [], l₂, _, _, _, hp => by simpa using hp.symm.eq_nil
  | a :: l₁, [], _, _, _, hp => by simpa using hp.eq_nil
  | a :: l₁, b :: l₂, hinj, h₁, h₂, hp => by
      have ha := List.pairwise_cons.mp h₁
      have hb := List.pairwise_cons.mp h₂
      have hab : a = b := by
        have ha2 : a ∈ b :: l₂ := hp.mem_iff.mp (List.mem_cons_self ..)
        have hb1 : b ∈ a :: l₁ := hp.mem_iff.mpr (List.mem_cons_self ..)
        rcases List.mem_cons.mp ha2 with h | h
        · exact h
        · rcases List.mem_cons.mp hb1 with h' | h'
          · exact h'.symm
          · exact hinj a (List.mem_cons_self ..) b hb1
              (String.le_antisymm (ha.1 b h') (hb.1 a h))
      subst hab
      have hinj' : ∀ x ∈ l₁, ∀ y ∈ l₁, key x = key y → x = y := fun x hx y hy =>
        hinj x (List.mem_cons_of_mem _ hx) y (List.mem_cons_of_mem _ hy)
      rw [keySorted_perm_eq key l₁ l₂ hinj' ha.2 hb.2 (List.Perm.cons_inv hp)]

/-- the stable sort by an injective key does not depend on the order in which the set was
iterated -/
theorem sortByKey_perm_eq (key : String → String) {l₁ l₂ : List String}
    (hinj : ∀ a ∈ l₁, ∀ b ∈ l₁, key a = key b → a = b) (hp : l₁.Perm l₂) :
    sortByKey key l₁ = sortByKey key l₂ := by
  refine keySorted_perm_eq key _ _ ?_ (sortByKey_sorted key l₁) (sortByKey_sorted key l₂)
    ((sortByKey_perm key l₁).trans (hp.trans (sortByKey_perm key l₂).symm))
  intro a ha b hb
  exact hinj a ((sortByKey_perm key l₁).mem_iff.mp ha) b ((sortByKey_perm key l₁).mem_iff.mp hb)

end PV
