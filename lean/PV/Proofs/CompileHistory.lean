import PV.Model.CompileHistory
/-
  Helper lemmas about the history model of compiled objects (PV/Model/CompileHistory.lean): the
  object table only grows at its end, look-ups are stable under that.  Used by
  PV/Properties/C13History.lean.
-/
namespace PV.C13
open PV

/-- a binding survives additions at the end of the table -/
theorem lookupObj_append_of_some {objs extra : List (Nat × Compiled)} {fid : Nat} {c : Compiled}
    (h : lookupObj objs fid = some c) : lookupObj (objs ++ extra) fid = some c := by
  unfold lookupObj at *
  rw [List.find?_append]
  cases hf : objs.find? (fun p => p.1 == fid) with
  | none => simp [hf] at h
  | some q => simpa [hf] using h

/-- an unbound id is bound by an addition at the end -/
theorem lookupObj_append_new {objs : List (Nat × Compiled)} {fid : Nat} (c : Compiled)
    (h : lookupObj objs fid = none) : lookupObj (objs ++ [(fid, c)]) fid = some c := by
  unfold lookupObj at *
  rw [List.find?_append]
  cases hf : objs.find? (fun p => p.1 == fid) with
  | none => simp
  | some q => simp [hf] at h

/-- a step only ever ADDS objects -/
theorem step_objs_extend (S : PrintPrec) (exprs : List Expr) (st : HState) (s : HStep) :
    ∃ extra, (st.step S exprs s).objs = st.objs ++ extra := by
  cases s with
  | mutate l op =>
    simp only [HState.step]
    split <;> exact ⟨[], by simp⟩
  | compile fid e l =>
    simp only [HState.step]
    split
    · split
      · exact ⟨[], by simp⟩
      · split
        · exact ⟨_, rfl⟩
        · exact ⟨[], by simp⟩
    · exact ⟨[], by simp⟩
  | pickle fid src =>
    simp only [HState.step]
    split
    · split
      · exact ⟨_, rfl⟩
      · exact ⟨[], by simp⟩
    · exact ⟨[], by simp⟩
  | call fid =>
    simp only [HState.step]
    split <;> exact ⟨[], by simp⟩

/-- … and so does a program -/
theorem run_objs_extend (S : PrintPrec) (exprs : List Expr) (steps : List HStep) :
    ∀ st : HState, ∃ extra, (st.run S exprs steps).objs = st.objs ++ extra := by
  induction steps with
  | nil => intro st; exact ⟨[], by simp [HState.run]⟩
  | cons s rest ih =>
    intro st
    obtain ⟨x1, h1⟩ := step_objs_extend S exprs st s
    obtain ⟨x2, h2⟩ := ih (st.step S exprs s)
    refine ⟨x1 ++ x2, ?_⟩
    have : st.run S exprs (s :: rest) = (st.step S exprs s).run S exprs rest := by
      simp [HState.run]
    rw [this, h2, h1, List.append_assoc]

/-- running a concatenation = running the parts one after the other -/
theorem run_append (S : PrintPrec) (exprs : List Expr) (st : HState) (xs ys : List HStep) :
    st.run S exprs (xs ++ ys) = (st.run S exprs xs).run S exprs ys := by
  simp [HState.run, List.foldl_append]

/-- a bound object is a member of the table -/
theorem lookupObj_mem {objs : List (Nat × Compiled)} {fid : Nat} {c : Compiled}
    (h : lookupObj objs fid = some c) : ∃ q ∈ objs, q.2 = c := by
  unfold lookupObj at h
  cases hf : objs.find? (fun p => p.1 == fid) with
  | none => simp [hf] at h
  | some q =>
    simp only [hf, Option.map_some, Option.some.injEq] at h
    exact ⟨q, List.mem_of_find?_eq_some hf, h⟩

end PV.C13
