import PV.Proofs.RewriteTableBase
set_option linter.unusedSimpArgs false
set_option linter.unusedVariables false
/-
  C11 (T-gen), part 2: `FlattenMapper` — the two handler bodies of the table, interpreted, are the
  two equations of `flattenM`; every other node goes through the inherited C04 row.
-/
namespace PV
open PV.Generated (c04Classes c04IdentityTable)
open PV.C11Expected

theorem c11_flat_map_sum (ctx : C11Ctx) (fuel : Nat) (cs : List Expr) :
    c11ToRw (c11RunFn ctx fuel c11_FlattenMapper_map_sum [.expr (.nary .sum cs)])
      = (do pure (flattenedSum (← cs.mapM ctx.recur))) := by
  simp [c11RunFn, c11_FlattenMapper_map_sum, c11RunBody, c11Frame, c11ExecL, c11Exec, c11Eval,
    c11EvalL, c11Get, c11Attr, Expr.c04Field, Expr.c04Fields, c04Assoc, c11Items, c11MapM_map,
    c11Bind, c11Push, c11MapM_lift]
  cases h : cs.mapM ctx.recur with
  | error e => simp [c11Apply, c11OutToR, c11ToRw, bind, Except.bind, throw, throwThe,
      MonadExceptOf.throw, Functor.map, Except.map]
  | ok rs => simp [c11Apply, c11OutToR, c11ToRw, bind, Except.bind, c11AsExprs_exprs, pure,
      Except.pure, Functor.map, Except.map]

theorem c11_flat_map_product (ctx : C11Ctx) (fuel : Nat) (cs : List Expr) :
    c11ToRw (c11RunFn ctx fuel c11_FlattenMapper_map_product [.expr (.nary .prod cs)])
      = (do flatProd (← cs.mapM ctx.recur)) := by
  simp [c11RunFn, c11_FlattenMapper_map_product, c11RunBody, c11Frame, c11ExecL, c11Exec, c11Eval,
    c11EvalL, c11Get, c11Attr, Expr.c04Field, Expr.c04Fields, c04Assoc, c11Items, c11MapM_map,
    c11Bind, c11Push, c11MapM_lift]
  cases h : cs.mapM ctx.recur with
  | error e => simp [c11Apply, c11OutToR, c11ToRw, bind, Except.bind, throw, throwThe,
      MonadExceptOf.throw, Functor.map, Except.map]
  | ok rs =>
    cases h2 : flatProd rs <;>
    simp [c11Apply, c11OutToR, c11ToRw, bind, Except.bind, c11AsExprs_exprs, pure,
      Except.pure, Functor.map, Except.map, h2, c11Lift, throw, throwThe, MonadExceptOf.throw]

/-- the table-driven `FlattenMapper` -/
def c11FlattenT : Nat → Expr → RwR :=
  c11Mapper c04Classes c04IdentityTable c11Class_flatten [] c11NoInst

theorem c11FlattenT_eq : ∀ (fuel : Nat) (e : Expr), c11FlattenT fuel e = flattenM fuel e
  | 0, _ => rfl
  | fuel + 1, e => by
    have ih : c11FlattenT fuel = flattenM fuel := funext (c11FlattenT_eq fuel)
    unfold c11FlattenT at ih ⊢
    rw [c11Mapper]
    generalize hS : (⟨c04Classes, c04IdentityTable, c11Class_flatten, [],
      c11Mapper c04Classes c04IdentityTable c11Class_flatten [] c11NoInst fuel,
      c11NoInst fuel⟩ : C11Self) = S
    have hr : S.recur = flattenM fuel := by rw [← hS]; exact ih
    have hcls : S.cls = c11Class_flatten := by rw [← hS]
    have hc : S.classes = c04Classes := by rw [← hS]
    have hi : S.ident = c04IdentityTable := by rw [← hS]
    have inh : ∀ n, c11HandlerOf e = .ok n → n ≠ "map_sum" → n ≠ "map_product" →
        c11Handle S fuel e = idMap (flattenM fuel) e := by
      intro n hn h1 h2
      rw [c11Handle_inherited S hc hi fuel e n hn, hr]
      rw [hcls]
      simp [c11Class_flatten, c11FindMethod, Ne.symm h1, Ne.symm h2]
    cases e with
    | nary o cs =>
      cases o with
      | sum =>
        rw [c11Handle_eq S hc hi]
        simp only [c11HandlerOf, c11Depth]
        rw [c11CallSelf_own S fuel 3 "map_sum" _ "map_sum" "FlattenMapper" c11_FlattenMapper_map_sum
          (by rw [hcls]; rfl), c11_flat_map_sum]
        simp only [c11CtxOf, hr, flattenM]
      | prod =>
        rw [c11Handle_eq S hc hi]
        simp only [c11HandlerOf, c11Depth]
        rw [c11CallSelf_own S fuel 3 "map_product" _ "map_product" "FlattenMapper"
          c11_FlattenMapper_map_product (by rw [hcls]; rfl), c11_flat_map_product]
        simp only [c11CtxOf, hr, flattenM]
      | _ => (rw [inh _ rfl (by decide) (by decide)]; rfl)
    | const k =>
      cases k with
      | str s => rw [c11Handle_foreign S hc hi fuel _ .foreign rfl]; rfl
      | none => rw [c11Handle_foreign S hc hi fuel _ .foreign rfl]; rfl
      | _ => (rw [inh _ rfl (by decide) (by decide)]; rfl)
    | bin o a b => cases o <;> (rw [inh _ rfl (by decide) (by decide)]; rfl)
    | un o a => cases o <;> (rw [inh _ rfl (by decide) (by decide)]; rfl)
    | _ => (rw [inh _ rfl (by decide) (by decide)]; rfl)

end PV
