import PV.Proofs.MemoRefines
import PV.Proofs.Simple
/-
  Helper lemmas for C05: the stock `Prog` families (`depsProg`, `sizeProg`) only ask for children of
  their key, and the "simple" universe of C02 (Python `==` is identity) makes every such family
  admissible for the generic theorems.
-/
namespace PV.Memo
open PV

/-! ### children are smaller -/

theorem sizeL_mem : ∀ {cs : List Expr} {c : Expr}, c ∈ cs → c.size ≤ Expr.sizeL cs
  | [], _, h => by simp at h
  | d :: ds, c, h => by
      simp only [List.mem_cons] at h
      simp only [Expr.sizeL]
      rcases h with rfl | h
      · omega
      · have := sizeL_mem h; omega

theorem children_size_lt {e c : Expr} (h : c ∈ e.children) : c.size < e.size := by
  cases e <;> simp only [Expr.children, List.mem_cons, List.mem_append, List.not_mem_nil,
    or_false] at h <;> simp only [Expr.size]
  all_goals first
    | (have := sizeL_mem h; omega)
    | (rcases h with rfl | rfl | rfl <;> omega)
    | (rcases h with rfl | rfl <;> omega)
    | (rcases h with rfl | h | h <;> first | omega | (have := sizeL_mem h; omega))
    | (rcases h with rfl | h <;> first | omega | (have := sizeL_mem h; omega))
    | (subst h; omega)
    | simp at h

/-! ### the universe: simple expressions, simple positional arguments, no keywords -/

def ArgKey.simple (a : ArgKey) : Bool := a.args.all Const.simple && a.kwargs.isEmpty

/-- keys on which Python `==` is identity -/
def UK (k : Key) : Prop := k.expr.simple = true ∧ k.args.simple = true

theorem constsEq_eq_of_simple : ∀ (as bs : List Const), as.all Const.simple = true →
    bs.all Const.simple = true → constsEq as bs = true → as = bs
  | [], [], _, _, _ => rfl
  | [], _ :: _, _, _, h => by simp [constsEq] at h
  | _ :: _, [], _, _, h => by simp [constsEq] at h
  | a :: as, b :: bs, ha, hb, h => by
      simp only [List.all_cons, Bool.and_eq_true] at ha hb
      simp only [constsEq, Bool.and_eq_true] at h
      rw [Const.pyEq_eq_of_simple ha.1 hb.1 h.1, constsEq_eq_of_simple as bs ha.2 hb.2 h.2]

theorem argKey_eq_of_simple {a b : ArgKey} (ha : a.simple = true) (hb : b.simple = true)
    (h : constsEq a.args b.args = true) : a = b := by
  obtain ⟨aa, aw⟩ := a
  obtain ⟨ba, bw⟩ := b
  simp only [ArgKey.simple, Bool.and_eq_true, List.isEmpty_iff] at ha hb
  obtain ⟨ha1, rfl⟩ := ha
  obtain ⟨hb1, rfl⟩ := hb
  rw [constsEq_eq_of_simple aa ba ha1 hb1 h]

theorem keyEq_eq_of_UK {a b : Key} (ha : UK a) (hb : UK b) (h : Key.eq a b = true) : a = b := by
  obtain ⟨ae, aa⟩ := a
  obtain ⟨be, ba⟩ := b
  simp only [Key.eq, Expr.keyEq, ArgKey.pyEq, Bool.and_eq_true] at h
  have h1 : ae = be := pyEq_eq_of_simple ae be ha.1 hb.1 h.1.2
  have h2 : aa = ba := argKey_eq_of_simple ha.2 hb.2 h.2.1
  rw [h1, h2]

theorem cseEq_eq_of_UK {a b : Key} (ha : UK a) (hb : UK b) (h : Key.cseEq a b = true) : a = b := by
  obtain ⟨ae, aa⟩ := a
  obtain ⟨be, ba⟩ := b
  simp only [Key.cseEq, Bool.and_eq_true] at h
  have h1 : ae = be := pyEq_eq_of_simple ae be ha.1 hb.1 h.1
  have h2 : aa = ba := argKey_eq_of_simple ha.2 hb.2 h.2
  rw [h1, h2]

/-! ### coherent universes make every handler family admissible -/

variable {K X R : Type}

/-- a handler family whose requests go to children (in a measure) of the key, in the universe -/
structure Descends (S : Spec K X R) (U : K → Prop) (μ : K → Nat) : Prop where
  coherent : ∀ a b, U a → U b → S.keq a b = true → a = b
  calls : ∀ k, U k → CallsOK (fun k' => U k' ∧ μ k' < μ k) (S.h k)
  hashable : ∀ k, U k → S.unhashable k = none

theorem Descends.admissible {S : Spec K X R} {U : K → Prop} {μ : K → Nat}
    (h : Descends S U μ) : Admissible S U where
  closed := fun k hk => (h.calls k hk).mono fun _ hk' => hk'.1
  resp := fun k k' hk hk' he n a hp => by
    have := h.coherent k k' hk hk' he; subst this; exact ⟨n, hp⟩
  hashable := h.hashable

theorem Descends.ordered {S : Spec K X R} {U : K → Prop} {μ : K → Nat}
    (h : Descends S U μ) : Ordered S U μ where
  closed := fun k hk => (h.calls k hk).mono fun _ hk' => hk'.1
  symm := fun a b ha hb he => by
    have := h.coherent a b ha hb he; subst this; exact he
  trans := fun a b c ha hb _ h1 h2 => by
    have := h.coherent a b ha hb h1; subst this; exact h2
  meas := fun a b ha hb he => by
    have := h.coherent a b ha hb he; subst this; rfl
  below := fun k hk => (h.calls k hk).mono fun _ hk' => hk'.2

/-! ### the stock families ask for children only -/

/-- "a child of `k`, with `k`'s extra arguments" -/
def ChildOf (k : Key) (k' : Key) : Prop := k'.expr ∈ k.expr.children ∧ k'.args = k.args

theorem kidsAll_ok {R' : Type} (k : Key) (es : List Expr) (cont : List R' → Prog Key DepErr R')
    (hc : ∀ rs, CallsOK (ChildOf k) (cont rs)) (h : ∀ c ∈ es, c ∈ k.expr.children) :
    CallsOK (ChildOf k) (callAll (kids k es) cont) := by
  refine callAll_ok _ _ ?_ hc
  intro k' hk'
  simp only [kids, List.mem_map] at hk'
  obtain ⟨c, hc', rfl⟩ := hk'
  exact ⟨h c hc', rfl⟩

theorem depRet_ok (P : Key → Prop) (e : Expr) : CallsOK P (depRet e) := by
  unfold depRet; split
  · exact .fail _
  · exact .ret _

theorem sliceKids_sub : ∀ {cs : List Expr} {c : Expr}, c ∈ sliceKids cs → c ∈ cs
  | [], _, h => by simp [sliceKids] at h
  | d :: ds, c, h => by
      by_cases hd : d = .const .none
      · subst hd
        simp only [sliceKids] at h
        exact List.mem_cons_of_mem _ (sliceKids_sub h)
      · have e : sliceKids (d :: ds) = d :: sliceKids ds := by
          rw [sliceKids]; exact hd
        rw [e] at h
        simp only [List.mem_cons] at h ⊢
        rcases h with rfl | h
        · exact Or.inl rfl
        · exact Or.inr (sliceKids_sub h)

theorem sizeProg_calls (k : Key) : CallsOK (ChildOf k) (sizeProg k) :=
  kidsAll_ok k _ _ (fun _ => .ret _) (fun _ h => h)

theorem depsProg_calls (fl : DepFlags) (k : Key) : CallsOK (ChildOf k) (depsProg fl k) := by
  obtain ⟨e, a⟩ := k
  have ret : ∀ rs : List (List Expr),
      CallsOK (ChildOf ⟨e, a⟩) (Prog.ret (unionAll rs) : Prog Key DepErr (List Expr)) :=
    fun _ => .ret _
  cases e <;> simp only [depsProg]
  case const c => cases c <;> first | exact .ret _ | exact .fail _
  case var => exact .ret _
  case call f as =>
    cases fl.calls
    · exact depRet_ok _ _
    · exact kidsAll_ok _ _ _ ret (by simp [Expr.children])
    · exact kidsAll_ok _ _ _ ret (fun c hc => by simp [Expr.children, hc])
  case callKw f as ns vs =>
    cases fl.calls
    · exact depRet_ok _ _
    · exact kidsAll_ok _ _ _ ret (by simp [Expr.children])
    · exact kidsAll_ok _ _ _ ret (fun c hc => by
        simp only [Expr.children, List.mem_cons]; exact Or.inr hc)
  case lookup a' n =>
    split
    · exact depRet_ok _ _
    · exact kidsAll_ok _ _ _ ret (by simp [Expr.children])
  case subscript a' i =>
    split
    · exact depRet_ok _ _
    · exact kidsAll_ok _ _ _ ret (by simp [Expr.children])
  case cse c p s =>
    split
    · exact .fail _
    · split
      · exact .ret _
      · exact kidsAll_ok _ _ _ ret (by simp [Expr.children])
  case slice cs => exact kidsAll_ok _ _ _ ret (fun c hc => by
      simp only [Expr.children]; exact sliceKids_sub hc)
  all_goals first
    | exact .ret _
    | exact .fail _
    | exact kidsAll_ok _ _ _ ret (by simp [Expr.children])

/-- any handler family that asks for children only descends on the simple universe -/
theorem descends_of_children {X R : Type} (h : Key → Prog Key X R) (te : X)
    (hc : ∀ k, CallsOK (ChildOf k) (h k)) :
    Descends (cachedSpec h te) UK (fun k => k.expr.size) where
  coherent := fun a b ha hb he => keyEq_eq_of_UK ha hb he
  calls := fun k hk => (hc k).mono fun k' hk' =>
    ⟨⟨simple_children hk.1 _ hk'.1, by rw [hk'.2]; exact hk.2⟩, children_size_lt hk'.1⟩
  hashable := fun k hk => by simp [cachedSpec, simple_nolist _ hk.1]

theorem descends_of_children_cse {X R : Type} (h : Key → Prog Key X R) (te : X)
    (hc : ∀ k, CallsOK (ChildOf k) (h k)) :
    Descends (cseMixinSpec h te) UK (fun k => k.expr.size) where
  coherent := fun a b ha hb he => cseEq_eq_of_UK ha hb he
  calls := fun k hk => (hc k).mono fun k' hk' =>
    ⟨⟨simple_children hk.1 _ hk'.1, by rw [hk'.2]; exact hk.2⟩, children_size_lt hk'.1⟩
  hashable := fun k hk => by simp [cseMixinSpec, simple_nolist _ hk.1]

end PV.Memo
