import PV.Proofs.ImpFuse
import PV.Proofs.Subterm
import PV.Properties.C09
import PV.Properties.C08
/-
  Helper lemmas for C20: the independent scan of an expression (`scanVars`), what the coded
  read/written sets are in terms of it, and renaming of variables.
-/
namespace PV.Imp
open PV PV.C09

/-! ### the independent scan -/

mutual
/-- all variable names of an expression, except the function position of calls (the name of a
function is not a variable that is read) -/
def scanVars : Expr → List String
  | .var x => [x]
  | .nary _ cs => scanVarsL cs
  | .bin _ a b => scanVars a ++ scanVars b
  | .un _ a => scanVars a
  | .cmp _ a b => scanVars a ++ scanVars b
  | .ite c t e => scanVars c ++ scanVars t ++ scanVars e
  | .call _ as => scanVarsL as
  | .callKw _ as _ vs => scanVarsL as ++ scanVarsL vs
  | .subscript a i => scanVars a ++ scanVars i
  | .lookup a _ => scanVars a
  | .cse c _ _ => scanVars c
  | .subst c _ xs => scanVars c ++ scanVarsL xs
  | .deriv c _ => scanVars c
  | .slice cs => scanVarsL cs
  | .tuple cs => scanVarsL cs
  | .list cs => scanVarsL cs
  | _ => []
def scanVarsL : List Expr → List String
  | [] => []
  | c :: cs => scanVars c ++ scanVarsL cs
end

mutual
theorem deps_stmt : ∀ (e : Expr) (r : List Expr), deps stmtFlags e = .ok r → VarSet r (scanVars e)
  | .const c, r, h => by
      cases c <;> simp only [deps] at h <;> cases h <;> exact VarSet.nil
  | .var x, r, h => by cases h; exact VarSet.single x
  | .nan, r, h => by cases h; exact VarSet.nil
  | .wildcard, r, h => by cases h; exact VarSet.nil
  | .dotWild _, r, h => by cases h; exact VarSet.nil
  | .starWild _, r, h => by cases h; exact VarSet.nil
  | .funcSym, r, h => by cases h; exact VarSet.nil
  | .subst .., r, h => by cases h
  | .deriv .., r, h => by cases h
  | .bin o a b, r, h => by
      simp only [deps] at h
      obtain ⟨x, hx, h⟩ := except_bind_ok h
      obtain ⟨y, hy, h⟩ := except_bind_ok h
      cases h
      exact (deps_stmt a x hx).union (deps_stmt b y hy)
  | .cmp o a b, r, h => by
      simp only [deps] at h
      obtain ⟨x, hx, h⟩ := except_bind_ok h
      obtain ⟨y, hy, h⟩ := except_bind_ok h
      cases h
      exact (deps_stmt a x hx).union (deps_stmt b y hy)
  | .subscript a b, r, h => by
      simp only [deps, stmtFlags, Bool.false_eq_true, if_false] at h
      obtain ⟨x, hx, h⟩ := except_bind_ok h
      obtain ⟨y, hy, h⟩ := except_bind_ok h
      cases h
      exact (deps_stmt a x hx).union (deps_stmt b y hy)
  | .ite a b c, r, h => by
      simp only [deps] at h
      obtain ⟨x, hx, h⟩ := except_bind_ok h
      obtain ⟨y, hy, h⟩ := except_bind_ok h
      obtain ⟨z, hz, h⟩ := except_bind_ok h
      cases h
      exact ((deps_stmt a x hx).union (deps_stmt b y hy)).union (deps_stmt c z hz)
  | .un o a, r, h => by
      simp only [deps] at h
      exact deps_stmt a r h
  | .lookup a n, r, h => by
      simp only [deps, stmtFlags, Bool.false_eq_true, if_false] at h
      exact deps_stmt a r h
  | .cse a p s, r, h => by
      simp only [deps, stmtFlags, Bool.false_eq_true, if_false] at h
      split at h
      · cases h
      · exact deps_stmt a r h
  | .nary o cs, r, h => by
      simp only [deps] at h
      exact depsL_stmt cs r h
  | .tuple cs, r, h => by
      simp only [deps] at h
      exact depsL_stmt cs r h
  | .list cs, r, h => by
      simp only [deps] at h
      exact depsL_stmt cs r h
  | .slice cs, r, h => by
      simp only [deps] at h
      exact depsSlice_stmt cs r h
  | .call a cs, r, h => by
      simp only [deps, stmtFlags] at h
      exact depsL_stmt cs r h
  | .callKw a bs ns cs, r, h => by
      simp only [deps, stmtFlags] at h
      obtain ⟨y, hy, h⟩ := except_bind_ok h
      obtain ⟨z, hz, h⟩ := except_bind_ok h
      cases h
      exact (depsL_stmt bs y hy).union (depsL_stmt cs z hz)
theorem depsL_stmt : ∀ (cs : List Expr) (r : List Expr), depsL stmtFlags cs = .ok r →
    VarSet r (scanVarsL cs)
  | [], r, h => by cases h; exact VarSet.nil
  | c :: cs, r, h => by
      simp only [depsL] at h
      obtain ⟨x, hx, h⟩ := except_bind_ok h
      obtain ⟨y, hy, h⟩ := except_bind_ok h
      cases h
      exact (deps_stmt c x hx).union (depsL_stmt cs y hy)
theorem depsSlice_stmt : ∀ (cs : List Expr) (r : List Expr), depsSlice stmtFlags cs = .ok r →
    VarSet r (scanVarsL cs)
  | [], r, h => by cases h; exact VarSet.nil
  | c :: cs, r, h => by
      by_cases hc : c = .const .none
      · subst hc
        simp only [depsSlice] at h
        simpa [scanVarsL, scanVars] using depsSlice_stmt cs r h
      · rw [depsSlice.eq_3 _ _ _ hc] at h
        obtain ⟨x, hx, h⟩ := except_bind_ok h
        obtain ⟨y, hy, h⟩ := except_bind_ok h
        cases h
        exact (deps_stmt c x hx).union (depsSlice_stmt cs y hy)
end

theorem depNames_spec : ∀ (r : List Expr), (∀ y ∈ r, ∃ x, y = .var x) →
    ∃ ns, depNames r = .ok ns ∧ ns.Nodup ∧ ∀ x, x ∈ ns ↔ .var x ∈ r
  | [], _ => ⟨[], rfl, List.nodup_nil, by simp⟩
  | y :: r, h => by
    obtain ⟨x, rfl⟩ := h y (List.mem_cons_self ..)
    obtain ⟨ns, hns, hnd, hmem⟩ := depNames_spec r (fun y hy => h y (List.mem_cons_of_mem _ hy))
    refine ⟨if x ∈ ns then ns else x :: ns, by simp [depNames, hns, pure, Except.pure, bind,
      Except.bind], ?_, ?_⟩
    · split
      · exact hnd
      · rename_i hx
        exact List.nodup_cons.2 ⟨hx, hnd⟩
    · intro z
      simp only [List.mem_cons, Expr.var.injEq]
      split
      · rename_i hx
        rw [hmem z]
        constructor
        · exact Or.inr
        · rintro (rfl | h)
          · exact (hmem z).1 hx
          · exact h
      · simp only [List.mem_cons, hmem z]

/-- `frozenset(dep.name for dep in get_deps(e))`: exactly the scanned names -/
theorem varsOf_spec {e : Expr} {ns : List String} (h : varsOf e = .ok ns) :
    ns.Nodup ∧ ∀ x, x ∈ ns ↔ x ∈ scanVars e := by
  unfold varsOf at h
  split at h
  · cases h
  · rename_i r hr
    have hv := deps_stmt e r hr
    obtain ⟨ns', hns', hnd, hmem⟩ := depNames_spec r hv.1
    rw [hns'] at h
    cases h
    exact ⟨hnd, fun x => (hmem x).trans (hv.2 x)⟩

/-! ### specification-level read / written sets -/

/-- variables in the index of a subscripted left-hand side -/
def lhsIndexVars : Expr → List String
  | .subscript _ i => scanVars i
  | _ => []

def condVars : Option Expr → List String
  | some c => scanVars c
  | none => []

/-- the read set by an independent scan of right-hand side, condition and left-hand-side index -/
def Kind.specReads : Kind → List String
  | .nop => []
  | .assign l r c => scanVars r ++ condVars c ++ lhsIndexVars l

/-- the written variable: the assigned variable, or the aggregate of an assigned subscript -/
def Kind.specWritten : Kind → List String
  | .assign (.var n) _ _ => [n]
  | .assign (.subscript (.var n) _) _ _ => [n]
  | _ => []

/-- the left-hand side is a variable or a subscripted variable (the property's quantifier) -/
def Kind.LhsOk : Kind → Prop
  | .nop => True
  | .assign (.var _) _ _ => True
  | .assign (.subscript (.var _) _) _ _ => True
  | _ => False

/-- no variable occurs ONLY in the left-hand-side index -/
def Kind.LhsCovered : Kind → Prop
  | .nop => True
  | .assign l r c => ∀ x ∈ lhsIndexVars l, x ∈ scanVars r ++ condVars c

theorem readsAssign_spec {l r : Expr} {ns : List String} (h : readsAssign l r = .ok ns) :
    ns.Nodup ∧ ∀ x, x ∈ ns ↔ x ∈ scanVars r := by
  unfold readsAssign at h
  obtain ⟨a, ha, h⟩ := except_bind_ok h
  obtain ⟨b, hb, h⟩ := except_bind_ok h
  cases h
  obtain ⟨hnd, hmem⟩ := varsOf_spec ha
  obtain ⟨-, hmem'⟩ := varsOf_spec hb
  exact ⟨nodup_unionS hnd, fun x => by rw [mem_unionS, hmem, hmem', or_self]⟩

/-- the names `get_read_variables` actually looks at: right-hand side and condition only -/
def Kind.codedReads : Kind → List String
  | .nop => []
  | .assign _ r c => scanVars r ++ condVars c

/-- what `get_read_variables` reports: the variables of right-hand side and condition -/
theorem reads_spec {k : Kind} {ns : List String} (h : k.reads = .ok ns) :
    ns.Nodup ∧ ∀ x, x ∈ ns ↔ x ∈ k.codedReads := by
  cases k with
  | nop =>
    cases h
    simp [Kind.codedReads]
  | assign l r c =>
    cases c with
    | none =>
      obtain ⟨hnd, hmem⟩ := readsAssign_spec (l := l) h
      exact ⟨hnd, fun x => by simp [hmem, condVars, Kind.codedReads]⟩
    | some c =>
      simp only [Kind.reads] at h
      obtain ⟨a, ha, h⟩ := except_bind_ok h
      obtain ⟨b, hb, h⟩ := except_bind_ok h
      cases h
      obtain ⟨hnd, hmem⟩ := readsAssign_spec ha
      obtain ⟨-, hmem'⟩ := varsOf_spec hb
      exact ⟨nodup_unionS hnd, fun x => by simp [mem_unionS, hmem, hmem', condVars, Kind.codedReads]⟩

theorem written_spec {k : Kind} {ns : List String} (h : k.written = .ok ns) :
    k.LhsOk ∧ ns = k.specWritten := by
  unfold Kind.written at h
  split at h <;> cases h <;> simp [Kind.LhsOk, Kind.specWritten]

theorem written_ok {k : Kind} (h : k.LhsOk) : k.written = .ok k.specWritten := by
  unfold Kind.LhsOk at h
  split at h <;> simp_all [Kind.written, Kind.specWritten, pure, Except.pure]

/-! ### identifiers of a stream -/

/-- the coded identifier collection, statement by statement -/
theorem usedIdentifiers_spec : ∀ {ss : List Stmt} {ids : List String},
    usedIdentifiers ss = .ok ids →
    ids.Nodup ∧
    (∀ s ∈ ss, ∃ r w, s.kind.reads = .ok r ∧ s.kind.written = .ok w) ∧
    ∀ x, x ∈ ids ↔ ∃ s ∈ ss, ∃ r w, s.kind.reads = .ok r ∧ s.kind.written = .ok w ∧ (x ∈ r ∨ x ∈ w)
  | [], ids, h => by
    cases h
    simp
  | s :: ss, ids, h => by
    simp only [usedIdentifiers] at h
    obtain ⟨r, hr, h⟩ := except_bind_ok h
    obtain ⟨w, hw, h⟩ := except_bind_ok h
    obtain ⟨tl, htl, h⟩ := except_bind_ok h
    cases h
    obtain ⟨-, hall, hmem⟩ := usedIdentifiers_spec htl
    refine ⟨nodup_unionS (nodup_unionS (reads_spec hr).1), ?_, ?_⟩
    · intro s' hs'
      rcases List.mem_cons.1 hs' with rfl | hs'
      · exact ⟨r, w, hr, hw⟩
      · exact hall s' hs'
    · intro x
      rw [mem_unionS, mem_unionS, hmem x]
      constructor
      · rintro ((h | h) | ⟨s', hs', r', w', hr', hw', hx⟩)
        · exact ⟨s, List.mem_cons_self .., r, w, hr, hw, Or.inl h⟩
        · exact ⟨s, List.mem_cons_self .., r, w, hr, hw, Or.inr h⟩
        · exact ⟨s', List.mem_cons_of_mem _ hs', r', w', hr', hw', hx⟩
      · rintro ⟨s', hs', r', w', hr', hw', hx⟩
        rcases List.mem_cons.1 hs' with rfl | hs'
        · rw [hr] at hr'
          rw [hw] at hw'
          cases hr'
          cases hw'
          exact Or.inl hx
        · exact Or.inr ⟨s', hs', r', w', hr', hw', hx⟩

/-- identifiers of a stream by the independent scan -/
def specIdents (ss : List Stmt) : List String :=
  ss.flatMap fun s => s.kind.specReads ++ s.kind.specWritten

/-- identifiers the code sees: those of right-hand sides and conditions, and the written names -/
def visibleIdents (ss : List Stmt) : List String :=
  ss.flatMap fun s => s.kind.codedReads ++ s.kind.specWritten

theorem usedIdentifiers_visible {ss : List Stmt} {ids : List String}
    (h : usedIdentifiers ss = .ok ids) : ∀ x, x ∈ ids ↔ x ∈ visibleIdents ss := by
  obtain ⟨-, hall, hmem⟩ := usedIdentifiers_spec h
  intro x
  rw [hmem x]
  simp only [visibleIdents, List.mem_flatMap, List.mem_append]
  constructor
  · rintro ⟨s, hs, r, w, hr, hw, hx⟩
    refine ⟨s, hs, ?_⟩
    rw [← (reads_spec hr).2 x, ← (written_spec hw).2]
    exact hx
  · rintro ⟨s, hs, hx⟩
    obtain ⟨r, w, hr, hw⟩ := hall s hs
    refine ⟨s, hs, r, w, hr, hw, ?_⟩
    rw [(reads_spec hr).2 x, (written_spec hw).2]
    exact hx

theorem codedReads_sub_spec {k : Kind} {x : String} (h : x ∈ k.codedReads) : x ∈ k.specReads := by
  cases k with
  | nop => exact h
  | assign l r c =>
    simp only [Kind.specReads, Kind.codedReads, List.mem_append] at h ⊢
    exact Or.inl h

theorem specReads_sub_coded {k : Kind} (hc : k.LhsCovered) {x : String} (h : x ∈ k.specReads) :
    x ∈ k.codedReads := by
  cases k with
  | nop => exact h
  | assign l r c =>
    simp only [Kind.specReads, Kind.codedReads, List.mem_append] at h ⊢
    rcases h with h | h
    · exact h
    · simpa using hc x h

theorem visible_sub_spec {ss : List Stmt} {x : String} (h : x ∈ visibleIdents ss) :
    x ∈ specIdents ss := by
  simp only [visibleIdents, specIdents, List.mem_flatMap, List.mem_append] at h ⊢
  obtain ⟨s, hs, hx⟩ := h
  exact ⟨s, hs, hx.imp codedReads_sub_spec id⟩

theorem spec_sub_visible {ss : List Stmt} (hc : ∀ s ∈ ss, s.kind.LhsCovered) {x : String}
    (h : x ∈ specIdents ss) : x ∈ visibleIdents ss := by
  simp only [visibleIdents, specIdents, List.mem_flatMap, List.mem_append] at h ⊢
  obtain ⟨s, hs, hx⟩ := h
  exact ⟨s, hs, hx.imp (specReads_sub_coded (hc s hs)) id⟩

/-! ### renaming of variables -/

mutual
/-- rename every variable node -/
def renameVars (ρ : String → String) : Expr → Expr
  | .var x => .var (ρ x)
  | .const c => .const c
  | .nary o cs => .nary o (renameVarsL ρ cs)
  | .bin o a b => .bin o (renameVars ρ a) (renameVars ρ b)
  | .un o a => .un o (renameVars ρ a)
  | .cmp o a b => .cmp o (renameVars ρ a) (renameVars ρ b)
  | .ite c t e => .ite (renameVars ρ c) (renameVars ρ t) (renameVars ρ e)
  | .call f as => .call (renameVars ρ f) (renameVarsL ρ as)
  | .callKw f as ns vs => .callKw (renameVars ρ f) (renameVarsL ρ as) ns (renameVarsL ρ vs)
  | .subscript a i => .subscript (renameVars ρ a) (renameVars ρ i)
  | .lookup a n => .lookup (renameVars ρ a) n
  | .cse c p s => .cse (renameVars ρ c) p s
  | .subst c vs xs => .subst (renameVars ρ c) vs (renameVarsL ρ xs)
  | .deriv c vs => .deriv (renameVars ρ c) vs
  | .slice cs => .slice (renameVarsL ρ cs)
  | .tuple cs => .tuple (renameVarsL ρ cs)
  | .list cs => .list (renameVarsL ρ cs)
  | .nan => .nan
  | .wildcard => .wildcard
  | .dotWild n => .dotWild n
  | .starWild n => .starWild n
  | .funcSym => .funcSym
def renameVarsL (ρ : String → String) : List Expr → List Expr
  | [] => []
  | c :: cs => renameVars ρ c :: renameVarsL ρ cs
end

mutual
theorem scanVars_rename (ρ : String → String) : ∀ e : Expr,
    scanVars (renameVars ρ e) = (scanVars e).map ρ
  | .var x => by simp [renameVars, scanVars]
  | .const c => by simp [renameVars, scanVars]
  | .nary o cs => by simp [renameVars, scanVars, scanVarsL_rename ρ cs]
  | .bin o a b => by simp [renameVars, scanVars, scanVars_rename ρ a, scanVars_rename ρ b]
  | .un o a => by simp [renameVars, scanVars, scanVars_rename ρ a]
  | .cmp o a b => by simp [renameVars, scanVars, scanVars_rename ρ a, scanVars_rename ρ b]
  | .ite c t e => by
    simp [renameVars, scanVars, scanVars_rename ρ c, scanVars_rename ρ t, scanVars_rename ρ e]
  | .call f as => by simp [renameVars, scanVars, scanVarsL_rename ρ as]
  | .callKw f as ns vs => by
    simp [renameVars, scanVars, scanVarsL_rename ρ as, scanVarsL_rename ρ vs]
  | .subscript a i => by simp [renameVars, scanVars, scanVars_rename ρ a, scanVars_rename ρ i]
  | .lookup a n => by simp [renameVars, scanVars, scanVars_rename ρ a]
  | .cse c p s => by simp [renameVars, scanVars, scanVars_rename ρ c]
  | .subst c vs xs => by simp [renameVars, scanVars, scanVars_rename ρ c, scanVarsL_rename ρ xs]
  | .deriv c vs => by simp [renameVars, scanVars, scanVars_rename ρ c]
  | .slice cs => by simp [renameVars, scanVars, scanVarsL_rename ρ cs]
  | .tuple cs => by simp [renameVars, scanVars, scanVarsL_rename ρ cs]
  | .list cs => by simp [renameVars, scanVars, scanVarsL_rename ρ cs]
  | .nan => by simp [renameVars, scanVars]
  | .wildcard => by simp [renameVars, scanVars]
  | .dotWild n => by simp [renameVars, scanVars]
  | .starWild n => by simp [renameVars, scanVars]
  | .funcSym => by simp [renameVars, scanVars]
theorem scanVarsL_rename (ρ : String → String) : ∀ cs : List Expr,
    scanVarsL (renameVarsL ρ cs) = (scanVarsL cs).map ρ
  | [] => by simp [renameVarsL, scanVarsL]
  | c :: cs => by simp [renameVarsL, scanVarsL, scanVars_rename ρ c, scanVarsL_rename ρ cs]
end

/-! truthiness (hence `is_zero`) does not look at variable names -/

theorem renameVarsL_isEmpty (ρ : String → String) (cs : List Expr) :
    (renameVarsL ρ cs).isEmpty = cs.isEmpty := by
  cases cs <;> simp [renameVarsL]

mutual
theorem truthy_rename (ρ : String → String) : ∀ e : Expr, (renameVars ρ e).truthy = e.truthy
  | .var x => by simp [renameVars, Expr.truthy]
  | .const c => by simp [renameVars]
  | .nary o cs => by
    cases o <;> simp only [renameVars, Expr.truthy]
    · exact truthySum_rename ρ cs
    · exact truthyProd_rename ρ cs
  | .bin o a b => by
    cases o <;> simp only [renameVars, Expr.truthy] <;> exact truthy_rename ρ a
  | .un o a => by simp [renameVars, Expr.truthy]
  | .cmp o a b => by simp [renameVars, Expr.truthy]
  | .ite c t e => by simp [renameVars, Expr.truthy]
  | .call f as => by simp [renameVars, Expr.truthy]
  | .callKw f as ns vs => by simp [renameVars, Expr.truthy]
  | .subscript a i => by simp [renameVars, Expr.truthy]
  | .lookup a n => by simp [renameVars, Expr.truthy]
  | .cse c p s => by simp [renameVars, Expr.truthy]
  | .subst c vs xs => by simp [renameVars, Expr.truthy]
  | .deriv c vs => by simp [renameVars, Expr.truthy]
  | .slice cs => by simp [renameVars, Expr.truthy]
  | .tuple cs => by simp [renameVars, Expr.truthy, renameVarsL_isEmpty]
  | .list cs => by simp [renameVars, Expr.truthy, renameVarsL_isEmpty]
  | .nan => by simp [renameVars]
  | .wildcard => by simp [renameVars]
  | .dotWild n => by simp [renameVars]
  | .starWild n => by simp [renameVars]
  | .funcSym => by simp [renameVars]
theorem truthySum_rename (ρ : String → String) : ∀ cs : List Expr,
    Expr.truthySum (renameVarsL ρ cs) = Expr.truthySum cs
  | [] => by simp [renameVarsL, Expr.truthySum]
  | [c] => by simp [renameVarsL, Expr.truthySum, truthy_rename ρ c]
  | _ :: _ :: _ => by simp [renameVarsL, Expr.truthySum]
theorem truthyProd_rename (ρ : String → String) : ∀ cs : List Expr,
    Expr.truthyProd (renameVarsL ρ cs) = Expr.truthyProd cs
  | [] => by simp [renameVarsL, Expr.truthyProd]
  | c :: cs => by
    simp [renameVarsL, Expr.truthyProd, truthy_rename ρ c, truthyProd_rename ρ cs]
end

/-- the function a renaming association list denotes -/
def renamingFn (m : List (String × String)) (x : String) : String :=
  match m.lookup x with
  | some n => n
  | none => x

theorem findName_substOfRenaming (m : List (String × String)) (x : String) :
    (substOfRenaming m).findName x = (m.lookup x).map Expr.var := by
  induction m with
  | nil => simp [substOfRenaming, SubstMap.findName]
  | cons p rest ih =>
    obtain ⟨k, v⟩ := p
    simp only [substOfRenaming, SubstMap.findName, List.map_cons, List.find?_cons,
      List.lookup_cons] at ih ⊢
    by_cases h : k = x
    · subst h
      simp
    · have h1 : (k == x) = false := by simpa using h
      have h2 : (x == k) = false := by simpa using (Ne.symm h)
      simp only [h1, h2]
      exact ih

/-- no CSE wrapper around a zero child (those are collapsed by `IdentityMapper`, C08) -/
def NoCseZero (e : Expr) : Prop := ∀ c p s, Subterm (.cse c p s) e → c.isZero = false

theorem NoCseZero.child {e c : Expr} (h : NoCseZero e) (hc : c ∈ e.children) : NoCseZero c :=
  fun c' p s ht => h c' p s (ht.trans (.child hc))

section
variable (m : List (String × String))

theorem apply_var (x : String) :
    (substOfRenaming m).apply (.var x) = (m.lookup x).map Expr.var := by
  rw [C08.apply_var_of_byName (by rfl), findName_substOfRenaming]

theorem apply_nonvar (e : Expr) (h : ∀ x, e ≠ .var x) : (substOfRenaming m).apply e = none :=
  C08.apply_nonvar_of_byName (by rfl) e h

mutual
theorem substE_rename : ∀ e : Expr, NoCseZero e →
    substE (substOfRenaming m) e = renameVars (renamingFn m) e
  | .var x, _ => by
    simp only [substE, apply_var, renameVars, renamingFn]
    cases m.lookup x <;> simp
  | .const c, _ => by simp [substE, renameVars]
  | .nan, _ => by simp [substE, renameVars]
  | .wildcard, _ => by simp [substE, renameVars]
  | .dotWild _, _ => by simp [substE, renameVars]
  | .starWild _, _ => by simp [substE, renameVars]
  | .funcSym, _ => by simp [substE, renameVars]
  | .subscript a i, h => by
    simp only [substE, apply_nonvar m (.subscript a i) (by simp), renameVars]
    rw [substE_rename a (h.child (by simp [Expr.children])),
      substE_rename i (h.child (by simp [Expr.children]))]
  | .lookup a n, h => by
    simp only [substE, apply_nonvar m (.lookup a n) (by simp), renameVars]
    rw [substE_rename a (h.child (by simp [Expr.children]))]
  | .nary o cs, h => by
    simp only [substE, renameVars]
    rw [substEL_rename cs (fun c hc => h.child (by simp [Expr.children, hc]))]
  | .bin o a b, h => by
    simp only [substE, renameVars]
    rw [substE_rename a (h.child (by simp [Expr.children])),
      substE_rename b (h.child (by simp [Expr.children]))]
  | .un o a, h => by
    simp only [substE, renameVars]
    rw [substE_rename a (h.child (by simp [Expr.children]))]
  | .cmp o a b, h => by
    simp only [substE, renameVars]
    rw [substE_rename a (h.child (by simp [Expr.children])),
      substE_rename b (h.child (by simp [Expr.children]))]
  | .ite c t e, h => by
    simp only [substE, renameVars]
    rw [substE_rename c (h.child (by simp [Expr.children])),
      substE_rename t (h.child (by simp [Expr.children])),
      substE_rename e (h.child (by simp [Expr.children]))]
  | .call f as, h => by
    simp only [substE, renameVars]
    rw [substE_rename f (h.child (by simp [Expr.children])),
      substEL_rename as (fun c hc => h.child (by simp [Expr.children, hc]))]
  | .callKw f as ns vs, h => by
    simp only [substE, renameVars]
    rw [substE_rename f (h.child (by simp [Expr.children])),
      substEL_rename as (fun c hc => h.child (by simp [Expr.children, hc])),
      substEL_rename vs (fun c hc => h.child (by simp [Expr.children, hc]))]
  | .cse c p s, h => by
    have hc := substE_rename c (h.child (by simp [Expr.children]))
    have hz : (renameVars (renamingFn m) c).isZero = false := by
      simp only [Expr.isZero, truthy_rename]
      exact h c p s (.refl _)
    simp only [substE, renameVars, hc, hz, Bool.false_eq_true, if_false]
  | .subst c vs xs, h => by
    simp only [substE, renameVars]
    rw [substE_rename c (h.child (by simp [Expr.children])),
      substEL_rename xs (fun c hc => h.child (by simp [Expr.children, hc]))]
  | .deriv c vs, h => by
    simp only [substE, renameVars]
    rw [substE_rename c (h.child (by simp [Expr.children]))]
  | .slice cs, h => by
    simp only [substE, renameVars]
    rw [substEL_rename cs (fun c hc => h.child (by simp [Expr.children, hc]))]
  | .tuple cs, h => by
    simp only [substE, renameVars]
    rw [substEL_rename cs (fun c hc => h.child (by simp [Expr.children, hc]))]
  | .list cs, h => by
    simp only [substE, renameVars]
    rw [substEL_rename cs (fun c hc => h.child (by simp [Expr.children, hc]))]
theorem substEL_rename : ∀ cs : List Expr, (∀ c ∈ cs, NoCseZero c) →
    substEL (substOfRenaming m) cs = renameVarsL (renamingFn m) cs
  | [], _ => by simp [substEL, renameVarsL]
  | c :: cs, h => by
    simp only [substEL, renameVarsL]
    rw [substE_rename c (h c (List.mem_cons_self ..)),
      substEL_rename cs (fun c' hc' => h c' (List.mem_cons_of_mem _ hc'))]
end

/-- the coded substitution is plain renaming -/
theorem substM_rename (e : Expr) (h : NoCseZero e) :
    (substM (substOfRenaming m) e).1 = renameVars (renamingFn m) e := by
  rw [(substM_spec _ e).1, substE_rename m e h]

end

/-! ### the clash loop -/

theorem unclash_spec {σ : Type} {G : NameGen σ} (hG : G.Fresh) :
    ∀ (cs : List String) (s : σ) (m : List (String × String)), unclash G s cs = some m →
      m.map (·.1) = cs ∧ (m.map (·.2)).Nodup ∧ ∀ n ∈ m.map (·.2), n ∉ G.used s
  | [], s, m, h => by
    cases h
    simp
  | c :: cs, s, m, h => by
    simp only [unclash] at h
    split at h
    · cases h
    · rename_i n s' hcall
      split at h
      · cases h
      · rename_i m' hrec
        cases h
        obtain ⟨h1, h2, h3⟩ := unclash_spec hG cs s' m' hrec
        have hfresh := hG.call_fresh _ _ _ _ hcall
        have hused := hG.call_used _ _ _ _ hcall
        refine ⟨by simp [h1], ?_, ?_⟩
        · simp only [List.map_cons, List.nodup_cons]
          exact ⟨fun hn => h3 n hn ((hused n).2 (Or.inl rfl)), h2⟩
        · intro x hx
          simp only [List.map_cons, List.mem_cons] at hx
          rcases hx with rfl | hx
          · exact hfresh
          · exact fun hu => h3 x hx ((hused x).2 (Or.inr hu))

/-! ### disambiguation plumbing -/

section
variable {σ : Type} {G : NameGen σ}

/-- no CSE node with a zero child in any expression of the statement (those are collapsed to `0`
by `IdentityMapper`, the known finding `cse-zero-child-collapses` of C08; renaming is not to blame) -/
def KindNoCseZero : Kind → Prop
  | .nop => True
  | .assign l r c => NoCseZero l ∧ NoCseZero r ∧ ∀ e, c = some e → NoCseZero e

theorem disambiguate_unfold {filter : String → Bool} {order : List String} {A B B' : List Stmt}
    {m : List (String × String)} (h : disambiguateG G filter order A B = .ok (B', m)) :
    ∃ idA idB, usedIdentifiers A = .ok idA ∧ usedIdentifiers B = .ok idB ∧
      order.Perm ((interS idA idB).filter filter) ∧
      unclash G (G.init (unionS idA idB)) order = some m ∧
      B' = B.map (Stmt.mapExprs fun e => (substM (substOfRenaming m) e).1) := by
  unfold disambiguateG at h
  obtain ⟨idA, hA, h⟩ := except_bind_ok h
  obtain ⟨idB, hB, h⟩ := except_bind_ok h
  refine ⟨idA, idB, hA, hB, ?_⟩
  simp only at h
  split at h
  · cases h
  · rename_i hperm
    simp only [Bool.not_eq_eq_eq_not] at hperm
    split at h
    · cases h
    · rename_i m' hm
      simp only [pure, Except.pure, Except.ok.injEq, Prod.mk.injEq] at h
      obtain ⟨rfl, rfl⟩ := h
      exact ⟨List.isPerm_iff.1 (by simpa using hperm), hm, rfl⟩

theorem codedReads_rename (ρ : String → String) (k : Kind) :
    (k.mapExprs (renameVars ρ)).codedReads = k.codedReads.map ρ := by
  cases k with
  | nop => rfl
  | assign l r c =>
    cases c <;> simp [Kind.mapExprs, Kind.codedReads, condVars, scanVars_rename]

theorem specWritten_rename (ρ : String → String) (k : Kind) :
    (k.mapExprs (renameVars ρ)).specWritten = k.specWritten.map ρ := by
  cases k with
  | nop => rfl
  | assign l r c =>
    cases l with
    | subscript a i => cases a <;> simp [Kind.mapExprs, Kind.specWritten, renameVars]
    | _ => simp [Kind.mapExprs, Kind.specWritten, renameVars]

theorem specReads_rename (ρ : String → String) (k : Kind) :
    (k.mapExprs (renameVars ρ)).specReads = k.specReads.map ρ := by
  cases k with
  | nop => rfl
  | assign l r c =>
    have hl : lhsIndexVars (renameVars ρ l) = (lhsIndexVars l).map ρ := by
      cases l <;> simp [lhsIndexVars, renameVars, scanVars_rename]
    cases c <;> simp [Kind.mapExprs, Kind.specReads, condVars, scanVars_rename, hl]

theorem mem_visible_rename {ρ : String → String} {B : List Stmt} {x : String}
    (h : x ∈ visibleIdents (B.map (Stmt.mapExprs (renameVars ρ)))) :
    ∃ y ∈ visibleIdents B, x = ρ y := by
  simp only [visibleIdents, List.mem_flatMap, List.mem_map, List.mem_append] at h ⊢
  obtain ⟨s', ⟨s, hs, rfl⟩, hx⟩ := h
  simp only [Stmt.mapExprs, codedReads_rename, specWritten_rename, List.mem_map] at hx
  rcases hx with ⟨y, hy, rfl⟩ | ⟨y, hy, rfl⟩
  · exact ⟨y, ⟨s, hs, Or.inl hy⟩, rfl⟩
  · exact ⟨y, ⟨s, hs, Or.inr hy⟩, rfl⟩

theorem mem_spec_rename {ρ : String → String} {B : List Stmt} {x : String}
    (h : x ∈ specIdents (B.map (Stmt.mapExprs (renameVars ρ)))) :
    ∃ y ∈ specIdents B, x = ρ y := by
  simp only [specIdents, List.mem_flatMap, List.mem_map, List.mem_append] at h ⊢
  obtain ⟨s', ⟨s, hs, rfl⟩, hx⟩ := h
  simp only [Stmt.mapExprs, specReads_rename, specWritten_rename, List.mem_map] at hx
  rcases hx with ⟨y, hy, rfl⟩ | ⟨y, hy, rfl⟩
  · exact ⟨y, ⟨s, hs, Or.inl hy⟩, rfl⟩
  · exact ⟨y, ⟨s, hs, Or.inr hy⟩, rfl⟩

theorem renamingFn_cases (m : List (String × String)) (y : String) :
    (y ∈ m.map (·.1) ∧ renamingFn m y ∈ m.map (·.2)) ∨ (y ∉ m.map (·.1) ∧ renamingFn m y = y) := by
  induction m with
  | nil => right; simp [renamingFn]
  | cons p rest ih =>
    obtain ⟨k, v⟩ := p
    by_cases hk : y = k
    · subst hk
      left
      simp [renamingFn]
    · have hb : (y == k) = false := by simpa using hk
      have hrec : renamingFn ((k, v) :: rest) y = renamingFn rest y := by
        simp [renamingFn, List.lookup_cons, hb]
      rw [hrec]
      rcases ih with ⟨h1, h2⟩ | ⟨h1, h2⟩
      · left
        exact ⟨by simp [h1], by simp [h2]⟩
      · right
        exact ⟨by simp [hk, h1], h2⟩

/-- every left-hand-side index variable of every statement also occurs in that statement's
right-hand side or condition -/
def AllCovered (ss : List Stmt) : Prop := ∀ s ∈ ss, s.kind.LhsCovered

theorem visible_iff_spec {ss : List Stmt} (hc : AllCovered ss) (x : String) :
    x ∈ visibleIdents ss ↔ x ∈ specIdents ss :=
  ⟨visible_sub_spec, spec_sub_visible hc⟩

end

end PV.Imp
