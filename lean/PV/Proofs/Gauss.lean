import PV.Model.Coeff
import PV.Proofs.AlgoArith
import Mathlib.Tactic.Ring
import Mathlib.Tactic.Linarith
import Mathlib.Tactic.LinearCombination
import Mathlib.Data.Rat.Defs
import Mathlib.Data.Rat.Cast.Defs
import Mathlib.Algebra.Order.Field.Rat
/-
  C15 helper lemmas: the row operations of `gaussian_elimination` (as modelled by `gaussElim`)
  preserve the rational solution set, and the values read off by `solveCol` satisfy the reduced
  rows when these have the single-entry shape.
-/
namespace PV.Coeff
open PV

/-- `Σ_k r[k] * x (i + k)` -/
def dotFrom (x : Nat → ℚ) : Nat → Row → ℚ
  | _, [] => 0
  | i, a :: as => (a : ℚ) * x i + dotFrom x (i + 1) as

def dot (x : Nat → ℚ) (r : Row) : ℚ := dotFrom x 0 r

/-- residual of an augmented row `(a | b)` at unknown values `x` and parameter values `p`:
`a·x - b·p` -/
def res (x p : Nat → ℚ) (r : ARow) : ℚ := dot x r.1 - dot p r.2

def Holds (x p : Nat → ℚ) (r : ARow) : Prop := res x p r = 0

def AllHold (x p : Nat → ℚ) (s : List ARow) : Prop := ∀ r ∈ s, Holds x p r

/-- every row has `n` matrix entries and `w` right-hand entries -/
def Rect (n w : Nat) (s : List ARow) : Prop := ∀ r ∈ s, r.1.length = n ∧ r.2.length = w

variable {x p : Nat → ℚ}

theorem allHold_cons {r : ARow} {s : List ARow} :
    AllHold x p (r :: s) ↔ Holds x p r ∧ AllHold x p s := by
  simp [AllHold]

theorem comb_cons (uf pf a b : Int) (as bs : Row) :
    comb uf pf (a :: as) (b :: bs) = (uf * a - pf * b) :: comb uf pf as bs := rfl

theorem dotFrom_comb (uf pf : Int) : ∀ (a b : Row) (i : Nat), a.length = b.length →
    dotFrom x i (comb uf pf a b) = uf * dotFrom x i a - pf * dotFrom x i b
  | [], [], i, _ => by simp [comb, dotFrom]
  | [], _ :: _, _, h => by simp at h
  | _ :: _, [], _, h => by simp at h
  | a :: as, b :: bs, i, h => by
    rw [comb_cons]
    simp only [dotFrom]
    rw [dotFrom_comb uf pf as bs (i + 1) (by simpa using h)]
    push_cast
    ring

theorem length_comb (uf pf : Int) (a b : Row) (h : a.length = b.length) :
    (comb uf pf a b).length = a.length := by
  simp [comb, h]

theorem dotFrom_zeros : ∀ (r : Row) (i : Nat), (∀ a ∈ r, a = 0) → dotFrom x i r = 0
  | [], _, _ => rfl
  | a :: as, i, h => by
    have ha : a = 0 := h a (by simp)
    simp only [dotFrom, ha, Int.cast_zero, zero_mul, zero_add]
    exact dotFrom_zeros as (i + 1) (fun b hb => h b (by simp [hb]))

theorem rowGet_cons_zero (a : Int) (as : Row) : rowGet (a :: as) 0 = a := rfl
theorem rowGet_cons_succ (a : Int) (as : Row) (j : Nat) : rowGet (a :: as) (j + 1) = rowGet as j := by
  simp [rowGet]

theorem rowGet_ne_mem {r : Row} {j : Nat} (h : rowGet r j ≠ 0) : rowGet r j ∈ r := by
  unfold rowGet at *
  rw [List.getD_eq_getElem?_getD] at h ⊢
  cases hj : r[j]? with
  | none => rw [hj] at h; exact absurd rfl h
  | some a => simpa using List.mem_of_getElem? hj

/-- a row with at most one non-zero entry, at column `j` -/
theorem dotFrom_single : ∀ (r : Row) (i j : Nat), (r.filter (· ≠ 0)).length ≤ 1 →
    rowGet r j ≠ 0 → dotFrom x i r = (rowGet r j : ℚ) * x (i + j)
  | [], _, j, _, h => by simp [rowGet] at h
  | a :: as, i, j, hl, hj => by
    by_cases ha : a = 0
    · subst ha
      cases j with
      | zero => simp [rowGet] at hj
      | succ j =>
        rw [rowGet_cons_succ] at hj ⊢
        simp only [dotFrom, Int.cast_zero, zero_mul, zero_add]
        rw [dotFrom_single as (i + 1) j (by simpa using hl) hj]
        congr 2; omega
    · have hz : ∀ b ∈ as, b = 0 := by
        intro b hb
        by_contra hb0
        have : b ∈ as.filter (· ≠ 0) := by simp [hb, hb0]
        have hpos : 0 < (as.filter (· ≠ 0)).length := List.length_pos_of_mem this
        have hc : (a :: as).filter (· ≠ 0) = a :: as.filter (· ≠ 0) := by
          simp [List.filter_cons, ha]
        rw [hc, List.length_cons] at hl
        omega
      cases j with
      | zero => simp [dotFrom, rowGet_cons_zero, dotFrom_zeros as (i + 1) hz]
      | succ j =>
        rw [rowGet_cons_succ] at hj
        exact absurd (hz _ (rowGet_ne_mem hj)) hj

theorem dotFrom_map_fdiv (g : Int) : ∀ (r : Row) (i : Nat), (∀ a ∈ r, g ∣ a) →
    (g : ℚ) * dotFrom x i (r.map (Int.fdiv · g)) = dotFrom x i r
  | [], _, _ => by simp [dotFrom]
  | a :: as, i, h => by
    simp only [List.map_cons, dotFrom]
    have ha : Int.fdiv a g * g = a := Int.fdiv_mul_cancel (h a (by simp))
    have ih := dotFrom_map_fdiv g as (i + 1) (fun b hb => h b (by simp [hb]))
    have : ((Int.fdiv a g : ℤ) : ℚ) * (g : ℚ) = (a : ℚ) := by exact_mod_cast ha
    rw [mul_add, ih, ← this]
    ring

/-! ### one elimination step -/

theorem lcm_fac_ne_zero {a b : Int} (ha : a ≠ 0) (hb : b ≠ 0) :
    Int.fdiv ((Algo.lcm a b).getD 0) a ≠ 0 := by
  cases hl : Algo.lcm a b with
  | none => exact absurd ((Algo.lcm_eq_none_iff a b).1 hl).1 ha
  | some l =>
    simp only [Option.getD_some]
    have hn := Algo.lcm_natAbs a b l hl
    have hdvd : a ∣ l := by
      rw [← Int.natAbs_dvd_natAbs, hn]
      exact Int.natAbs_dvd_natAbs.2 (Int.dvd_lcm_left a b) |> fun h => by simpa using h
    have hl0 : l ≠ 0 := by
      intro h0
      rw [h0] at hn
      simp only [Int.natAbs_zero] at hn
      exact (Int.lcm_ne_zero ha hb) hn.symm
    intro h0
    have := Int.fdiv_mul_cancel hdvd
    rw [h0, zero_mul] at this
    exact hl0 this.symm

theorem holds_elimRow {j : Nat} {piv r : ARow} (hp : Holds x p piv) (hpj : rowGet piv.1 j ≠ 0)
    (h1 : r.1.length = piv.1.length) (h2 : r.2.length = piv.2.length) :
    Holds x p (elimRow j piv r) ↔ Holds x p r := by
  unfold elimRow
  simp only
  split
  · rfl
  · rename_i ha
    unfold Holds res dot at *
    simp only
    rw [dotFrom_comb _ _ _ _ _ h1, dotFrom_comb _ _ _ _ _ h2]
    have hu := lcm_fac_ne_zero ha hpj
    have huq : ((Int.fdiv ((Algo.lcm (rowGet r.1 j) (rowGet piv.1 j)).getD 0) (rowGet r.1 j) : ℤ) : ℚ) ≠ 0 := by
      exact_mod_cast hu
    constructor
    · intro h
      have : ((Int.fdiv ((Algo.lcm (rowGet r.1 j) (rowGet piv.1 j)).getD 0) (rowGet r.1 j) : ℤ) : ℚ)
          * (dotFrom x 0 r.1 - dotFrom p 0 r.2) = 0 := by linear_combination h + (Int.fdiv ((Algo.lcm (rowGet r.1 j) (rowGet piv.1 j)).getD 0) (rowGet piv.1 j) : ℚ) * hp
      rcases mul_eq_zero.1 this with h0 | h0
      · exact absurd h0 huq
      · exact h0
    · intro h
      linear_combination ((Int.fdiv ((Algo.lcm (rowGet r.1 j) (rowGet piv.1 j)).getD 0) (rowGet r.1 j) : ℤ) : ℚ) * h - (Int.fdiv ((Algo.lcm (rowGet r.1 j) (rowGet piv.1 j)).getD 0) (rowGet piv.1 j) : ℚ) * hp

theorem length_elimRow {j : Nat} {piv r : ARow}
    (h1 : r.1.length = piv.1.length) (h2 : r.2.length = piv.2.length) :
    (elimRow j piv r).1.length = r.1.length ∧ (elimRow j piv r).2.length = r.2.length := by
  unfold elimRow
  simp only
  split
  · exact ⟨rfl, rfl⟩
  · exact ⟨length_comb _ _ _ _ h1, length_comb _ _ _ _ h2⟩

theorem elimAll_holds {j i : Nat} {piv : ARow} (hp : Holds x p piv) (hpj : rowGet piv.1 j ≠ 0) :
    ∀ (s : List ARow) (u : Nat),
      (∀ r ∈ s, r.1.length = piv.1.length ∧ r.2.length = piv.2.length) →
      (AllHold x p (elimAll j i piv u s) ↔ AllHold x p s)
  | [], _, _ => by simp [elimAll]
  | r :: rs, u, h => by
    simp only [elimAll, allHold_cons]
    have ih := elimAll_holds (i := i) hp hpj rs (u + 1) (fun r' hr' => h r' (by simp [hr']))
    rw [ih]
    split
    · rfl
    · rw [holds_elimRow hp hpj (h r (by simp)).1 (h r (by simp)).2]

theorem elimAll_rect {j i : Nat} {piv : ARow} {n w : Nat} (hpn : piv.1.length = n)
    (hpw : piv.2.length = w) : ∀ (s : List ARow) (u : Nat), Rect n w s → Rect n w (elimAll j i piv u s)
  | [], _, _ => by simp [elimAll, Rect]
  | r :: rs, u, h => by
    intro r' hr'
    simp only [elimAll, List.mem_cons] at hr'
    rcases hr' with rfl | hr'
    · split
      · exact h r (by simp)
      · have hr := h r (by simp)
        have := length_elimRow (j := j) (piv := piv) (r := r) (by rw [hr.1, hpn]) (by rw [hr.2, hpw])
        exact ⟨this.1.trans hr.1, this.2.trans hr.2⟩
    · exact elimAll_rect hpn hpw rs (u + 1) (fun r'' h'' => h r'' (by simp [h''])) r' hr'

/-- the pivot row stays in place -/
theorem elimAll_mem_pivot {j i : Nat} {piv : ARow} : ∀ (s : List ARow) (u : Nat), u ≤ i →
    s[i - u]? = some piv → piv ∈ elimAll j i piv u s
  | [], _, _, h => by simp at h
  | r :: rs, u, hu, h => by
    simp only [elimAll]
    by_cases hui : u = i
    · subst hui
      simp only [Nat.sub_self, List.getElem?_cons_zero, Option.some.injEq] at h
      simp [h]
    · have : i - u = (i - (u + 1)) + 1 := by omega
      rw [this, List.getElem?_cons_succ] at h
      simp only [hui, if_false, List.mem_cons]
      exact Or.inr (elimAll_mem_pivot rs (u + 1) (by omega) h)

/-! ### swapping two rows -/

theorem swapRows_mem {s : List ARow} {i k : Nat} {r : ARow} :
    r ∈ swapRows s i k ↔ r ∈ s := by
  unfold swapRows
  split
  · rename_i a b ha hb
    have hai : i < s.length := (List.getElem?_eq_some_iff.1 ha).1
    have hbk : k < s.length := (List.getElem?_eq_some_iff.1 hb).1
    have ha' : a ∈ s := List.mem_of_getElem? ha
    have hb' : b ∈ s := List.mem_of_getElem? hb
    constructor
    · intro h
      rcases List.mem_or_eq_of_mem_set h with h | rfl
      · rcases List.mem_or_eq_of_mem_set h with h | rfl
        · exact h
        · exact hb'
      · exact ha'
    · intro h
      obtain ⟨m, hm⟩ := List.mem_iff_getElem?.1 h
      rw [List.mem_iff_getElem?]
      by_cases hmi : m = i
      · subst hmi
        refine ⟨k, ?_⟩
        rw [ha] at hm
        rw [List.getElem?_set_self (by simpa using hbk)]
        exact hm
      · by_cases hmk : m = k
        · subst hmk
          refine ⟨i, ?_⟩
          rw [hb] at hm
          rw [List.getElem?_set_ne (fun h => hmi h), List.getElem?_set_self hai]
          exact hm
        · refine ⟨m, ?_⟩
          rw [List.getElem?_set_ne (fun h => hmk h.symm), List.getElem?_set_ne (fun h => hmi h.symm)]
          exact hm
  · rfl

theorem swapRows_get {s : List ARow} {i k : Nat} {b : ARow} (hi : i < s.length)
    (hb : s[k]? = some b) : (swapRows s i k)[i]? = some b := by
  unfold swapRows
  have hbk : k < s.length := (List.getElem?_eq_some_iff.1 hb).1
  rw [List.getElem?_eq_getElem hi, hb]
  simp only
  by_cases hik : k = i
  · subst hik
    rw [List.getElem?_set_self (by simpa using hi)]
    rw [List.getElem?_eq_getElem hi] at hb
    exact hb
  · rw [List.getElem?_set_ne hik, List.getElem?_set_self hi]

/-! ### the pivot search -/

theorem findPivot_spec {j i : Nat} : ∀ (s : List ARow) (u k : Nat), findPivot j i u s = some k →
    u ≤ k ∧ i ≤ k ∧ ∃ r, s[k - u]? = some r ∧ rowGet r.1 j ≠ 0
  | [], _, _, h => by simp [findPivot] at h
  | r :: rs, u, k, h => by
    simp only [findPivot] at h
    split at h
    · rename_i hc
      simp only [Option.some.injEq] at h
      subst h
      exact ⟨Nat.le_refl _, hc.1, r, by simp, hc.2⟩
    · obtain ⟨h1, h2, r', hr', hj⟩ := findPivot_spec rs (u + 1) k h
      refine ⟨by omega, h2, r', ?_, hj⟩
      have : k - u = (k - (u + 1)) + 1 := by omega
      rw [this, List.getElem?_cons_succ]
      exact hr'

/-! ### the whole loop -/

theorem gaussLoop_spec (m n : Nat) {n' w : Nat} : ∀ (fuel i j : Nat) (s : List ARow), Rect n' w s →
    (AllHold x p (gaussLoop m n fuel i j s) ↔ AllHold x p s) ∧ Rect n' w (gaussLoop m n fuel i j s)
  | 0, _, _, s, h => ⟨Iff.rfl, h⟩
  | fuel + 1, i, j, s, h => by
    simp only [gaussLoop]
    split
    · split
      · rename_i k hk
        obtain ⟨_, hik, b, hb, hbj⟩ := findPivot_spec s 0 k hk
        simp only [Nat.sub_zero] at hb
        have hklt : k < s.length := (List.getElem?_eq_some_iff.1 hb).1
        have hilt : i < s.length := by omega
        have hget := swapRows_get (i := i) hilt hb
        rw [hget]
        simp only
        have hrect1 : Rect n' w (swapRows s i k) := fun r hr => h r (swapRows_mem.1 hr)
        have hb1 : b ∈ swapRows s i k := List.mem_of_getElem? hget
        have hbl := hrect1 b hb1
        have hrect2 : Rect n' w (elimAll j i b 0 (swapRows s i k)) :=
          elimAll_rect hbl.1 hbl.2 _ 0 hrect1
        obtain ⟨ih1, ih2⟩ := gaussLoop_spec m n fuel (i + 1) (j + 1) _ hrect2
        refine ⟨?_, ih2⟩
        rw [ih1]
        have hlen : ∀ r ∈ swapRows s i k, r.1.length = b.1.length ∧ r.2.length = b.2.length :=
          fun r hr => ⟨(hrect1 r hr).1.trans hbl.1.symm, (hrect1 r hr).2.trans hbl.2.symm⟩
        have hswap : AllHold x p (swapRows s i k) ↔ AllHold x p s :=
          ⟨fun hh r hr => hh r (swapRows_mem.2 hr), fun hh r hr => hh r (swapRows_mem.1 hr)⟩
        rw [← hswap]
        constructor
        · intro hh
          have hpiv : Holds x p b :=
            hh b (elimAll_mem_pivot _ 0 (Nat.zero_le _) (by simpa using hget))
          exact (elimAll_holds hpiv hbj _ 0 hlen).1 hh
        · intro hh
          exact (elimAll_holds (hh b hb1) hbj _ 0 hlen).2 hh
      · exact gaussLoop_spec m n fuel i (j + 1) s h
    · exact ⟨Iff.rfl, h⟩

/-! ### gcd normalisation -/

theorem gcd_dvd_left' (q r : Int) : Algo.gcd q r ∣ q := (Algo.extEuclid_dvd q r).1
theorem gcd_dvd_right' (q r : Int) : Algo.gcd q r ∣ r := (Algo.extEuclid_dvd q r).2.1

theorem foldl_gcd_dvd : ∀ (l : List Int) (a : Int),
    (l.foldl Algo.gcd a ∣ a) ∧ ∀ b ∈ l, l.foldl Algo.gcd a ∣ b
  | [], a => ⟨by simp, by simp⟩
  | c :: l, a => by
    simp only [List.foldl_cons]
    obtain ⟨h1, h2⟩ := foldl_gcd_dvd l (Algo.gcd a c)
    refine ⟨h1.trans (gcd_dvd_left' a c), ?_⟩
    intro b hb
    simp only [List.mem_cons] at hb
    rcases hb with rfl | hb
    · exact h1.trans (gcd_dvd_right' a b)
    · exact h2 b hb

theorem foldl_gcd_ne_zero : ∀ (l : List Int) (a : Int), a ≠ 0 → l.foldl Algo.gcd a ≠ 0
  | [], _, h => h
  | c :: l, a, h => by
    simp only [List.foldl_cons]
    exact foldl_gcd_ne_zero l _ (fun h0 => h ((Algo.gcd_eq_zero_iff a c).1 h0).1)

theorem gcdMany_dvd (l : List Int) : ∀ b ∈ l, gcdMany l ∣ b := by
  cases l with
  | nil => simp
  | cons a l =>
    intro b hb
    simp only [gcdMany]
    obtain ⟨h1, h2⟩ := foldl_gcd_dvd l a
    simp only [List.mem_cons] at hb
    rcases hb with rfl | hb
    · exact h1
    · exact h2 b hb

theorem gcdMany_ne_zero (l : List Int) (h : ∀ b ∈ l, b ≠ 0) : gcdMany l ≠ 0 := by
  cases l with
  | nil => simp [gcdMany]
  | cons a l => exact foldl_gcd_ne_zero l a (h a (by simp))

theorem holds_normRow (r : ARow) : Holds x p (normRow r) ↔ Holds x p r := by
  unfold normRow
  simp only
  generalize hg : gcdMany (r.1.filter (· ≠ 0) ++ r.2.filter (· ≠ 0)) = g
  have hg0 : g ≠ 0 := by
    rw [← hg]
    apply gcdMany_ne_zero
    intro b hb
    simp only [List.mem_append, List.mem_filter, decide_eq_true_eq] at hb
    rcases hb with hb | hb <;> exact hb.2
  have hdvd : ∀ (l : Row), (∀ b ∈ l, b ≠ 0 → b ∈ r.1.filter (· ≠ 0) ++ r.2.filter (· ≠ 0)) →
      ∀ a ∈ l, g ∣ a := by
    intro l hl a ha
    by_cases ha0 : a = 0
    · subst ha0; exact dvd_zero g
    · rw [← hg]; exact gcdMany_dvd _ a (hl a ha ha0)
  have h1 := dotFrom_map_fdiv (x := x) g r.1 0 (hdvd r.1 (fun b hb hb0 => by simp [hb, hb0]))
  have h2 := dotFrom_map_fdiv (x := p) g r.2 0 (hdvd r.2 (fun b hb hb0 => by simp [hb, hb0]))
  have hgq : (g : ℚ) ≠ 0 := by exact_mod_cast hg0
  unfold Holds res dot
  simp only
  rw [← h1, ← h2, ← mul_sub]
  constructor
  · intro h; rw [h, mul_zero]
  · intro h
    rcases mul_eq_zero.1 h with h | h
    · exact absurd h hgq
    · exact h

theorem gaussElim_spec (m n : Nat) {n' w : Nat} (s : List ARow) (h : Rect n' w s) :
    (AllHold x p (gaussElim m n s) ↔ AllHold x p s) ∧ Rect n' w (gaussElim m n s) := by
  obtain ⟨h1, h2⟩ := gaussLoop_spec (x := x) (p := p) m n n 0 0 s h
  unfold gaussElim
  constructor
  · rw [← h1]
    constructor
    · intro hh r hr
      exact (holds_normRow r).1 (hh _ (List.mem_map_of_mem hr))
    · intro hh r hr
      obtain ⟨r', hr', rfl⟩ := List.mem_map.1 hr
      exact (holds_normRow r').2 (hh r' hr')
  · intro r hr
    obtain ⟨r', hr', rfl⟩ := List.mem_map.1 hr
    have := h2 r' hr'
    simp only [normRow, List.length_map]
    exact this

/-! ### reading off the solution -/

theorem mapM_range'_ok {β : Type} (f : Nat → CR β) : ∀ (n k : Nat) (vals : List β),
    (List.range' k n).mapM f = .ok vals →
    vals.length = n ∧ ∀ j (hj : j < n), ∃ v, vals[j]? = some v ∧ f (k + j) = .ok v
  | 0, k, vals, h => by
    simp only [List.range'_zero, List.mapM_nil, pure, Except.pure, Except.ok.injEq] at h
    subst h
    exact ⟨rfl, fun j hj => absurd hj (Nat.not_lt_zero _)⟩
  | n + 1, k, vals, h => by
    rw [List.range'_succ, List.mapM_cons] at h
    simp only [bind, Except.bind] at h
    cases hf : f k with
    | error e => rw [hf] at h; cases h
    | ok v =>
      rw [hf] at h
      simp only at h
      cases hrest : (List.range' (k + 1) n).mapM f with
      | error e => rw [hrest] at h; cases h
      | ok vs =>
        rw [hrest] at h
        simp only [pure, Except.pure, Except.ok.injEq] at h
        subst h
        obtain ⟨hl, hv⟩ := mapM_range'_ok f n (k + 1) vs hrest
        refine ⟨by simp [hl], ?_⟩
        intro j hj
        cases j with
        | zero => exact ⟨v, by simp, by simpa using hf⟩
        | succ j =>
          obtain ⟨v', hv1, hv2⟩ := hv j (by omega)
          refine ⟨v', by simpa using hv1, ?_⟩
          rw [← hv2]; congr 1; omega

theorem unit_dvd {d : Int} (h : d.natAbs = 1) (a : Int) : d ∣ a := by
  rcases Int.natAbs_eq d with h' | h' <;> rw [h] at h'
  · exact ⟨a, by rw [h']; simp⟩
  · exact ⟨-a, by rw [h']; simp⟩

/-- the reduced row has at most one non-zero matrix entry, and a zero matrix part comes with a
zero right-hand side -/
def rowOK (r : ARow) : Bool :=
  decide ((r.1.filter (· ≠ 0)).length ≤ 1) && (!(r.1.all (· == 0)) || r.2.all (· == 0))

/-- decidable description of the reduced systems on which reading off one value per column is
sound: "every pivot row has a single unknown entry and zero rows have zero right-hand side" -/
def reducedOK (s : List ARow) : Bool := s.all rowOK

theorem solveCol_holds {s : List ARow} {vals : List Row} {n : Nat} (p : Nat → ℚ)
    (hvals : ∀ j, j < n → ∃ v, vals[j]? = some v ∧ solveCol s j = .ok v)
    (hred : reducedOK s = true) (hn : ∀ r ∈ s, r.1.length = n) :
    AllHold (fun j => dot p (vals.getD j [])) p s := by
  intro r hr
  have hok : rowOK r = true := List.all_eq_true.1 hred r hr
  simp only [rowOK, Bool.and_eq_true, decide_eq_true_eq, Bool.or_eq_true, Bool.not_eq_true',
    List.all_eq_true, beq_iff_eq] at hok
  obtain ⟨hone, hzero⟩ := hok
  unfold Holds res
  by_cases hz : ∀ a ∈ r.1, a = 0
  · have h2 : ∀ a ∈ r.2, a = 0 := by
      rcases hzero with h | h
      · exfalso
        rw [List.all_eq_false] at h
        obtain ⟨a, ha, ha0⟩ := h
        exact ha0 (by simpa using hz a ha)
      · exact h
    unfold dot
    rw [dotFrom_zeros _ _ hz, dotFrom_zeros _ _ h2, sub_zero]
  · -- a non-zero entry at some column j
    simp only [not_forall] at hz
    obtain ⟨a, ha, ha0⟩ := hz
    obtain ⟨j, hj⟩ := List.mem_iff_getElem?.1 ha
    have hjlt : j < r.1.length := (List.getElem?_eq_some_iff.1 hj).1
    have hget : rowGet r.1 j = a := by
      unfold rowGet
      rw [List.getD_eq_getElem?_getD, hj]; rfl
    have hne : rowGet r.1 j ≠ 0 := by rw [hget]; exact ha0
    obtain ⟨v, hv1, hv2⟩ := hvals j (by rw [← hn r hr]; exact hjlt)
    unfold solveCol at hv2
    split at hv2
    · rename_i r' hfilter
      have hmem : r ∈ s.filter (fun r => rowGet r.1 j ≠ 0) := by
        simp [hr, hne]
      rw [hfilter] at hmem
      simp only [List.mem_singleton] at hmem
      subst hmem
      simp only at hv2
      split at hv2
      · cases hv2
      · rename_i hd
        simp only [pure, Except.pure, Except.ok.injEq] at hv2
        have hd1 : (rowGet r.1 j).natAbs = 1 := by
          by_contra hc; exact hd hc
        unfold dot
        rw [dotFrom_single r.1 0 j hone hne]
        simp only [Nat.zero_add]
        have hx : vals.getD j [] = v := by
          rw [List.getD_eq_getElem?_getD, hv1]; rfl
        rw [hx, ← hv2]
        have := dotFrom_map_fdiv (x := p) (rowGet r.1 j) r.2 0 (fun b _ => unit_dvd hd1 b)
        rw [this, sub_self]
    · cases hv2

end PV.Coeff
