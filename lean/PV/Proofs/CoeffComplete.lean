import PV.Model.Coeff
import PV.Proofs.CoeffSound
import PV.Proofs.CoeffFree
/-
  C15 helper lemmas: the collector ACCEPTS every expression of the syntactic affine class
  (`affClass`), and every key it returns passed its target test.
-/
namespace PV.Coeff
open PV

/-- an operand on which the overloaded `+`/`*` never raise: an int constant or an expression node -/
def Good (e : Expr) : Bool :=
  match e with
  | .const (.int _) => true
  | e => e.isNode

theorem good_valid {e : Expr} (h : Good e = true) :
    e.isValidOperand = true ∧ e.isArith = true ∧ (e.isNode = false → e.isConstant = true ∧ e.isNumber = true) := by
  cases e <;> simp_all [Good, Expr.isNode, Expr.isValidOperand, Expr.isArith, Expr.isBoolConst,
    Expr.isConstant, Expr.isNumber]
  rename_i c
  cases c <;> simp_all [Good, Expr.isNode]

theorem good_node {e : Expr} (h : e.isNode = true) : Good e = true := by
  cases e <;> simp_all [Good, Expr.isNode]

theorem good_zero : Good zero = true := rfl
theorem good_one : Good one = true := rfl

theorem exprAdd_total {self other : Expr} (hs : Good self = true) (ho : Good other = true) :
    ∃ r, exprAdd self other = .ret r ∧ Good r = true := by
  obtain ⟨_, ha, _⟩ := good_valid ho
  unfold exprAdd
  simp only [ha, Bool.not_true, Bool.false_eq_true, if_false]
  split
  · split
    · split
      · exact ⟨_, rfl, rfl⟩
      · exact ⟨_, rfl, rfl⟩
    · exact ⟨_, rfl, ho⟩
  · exact ⟨_, rfl, hs⟩

theorem addD_total {self other : Expr} (hs : Good self = true) (ho : Good other = true) :
    ∃ r, addD self other = .ret r ∧ Good r = true := by
  obtain ⟨hv, _, _⟩ := good_valid ho
  unfold addD
  split
  · simp only [hv, Bool.not_true, Bool.false_eq_true, if_false]
    split
    · exact ⟨_, rfl, rfl⟩
    · split
      · exact ⟨_, rfl, hs⟩
      · exact ⟨_, rfl, rfl⟩
  · exact exprAdd_total hs ho

theorem raddD_total {self other : Expr} (hs : Good self = true) (ho : Good other = true)
    (hn : other.isNode = false) : ∃ r, raddD self other = .ret r ∧ Good r = true := by
  obtain ⟨_, _, hc⟩ := good_valid ho
  obtain ⟨hc1, hc2⟩ := hc hn
  unfold raddD
  split
  · simp only [hc1, Bool.not_true, Bool.false_eq_true, if_false]
    split
    · exact ⟨_, rfl, hs⟩
    · exact ⟨_, rfl, rfl⟩
  · simp only [hc2, Bool.not_true, Bool.false_eq_true, if_false]
    split
    · split
      · exact ⟨_, rfl, rfl⟩
      · exact ⟨_, rfl, ho⟩
    · exact ⟨_, rfl, hs⟩

theorem mulD_total {self other : Expr} (hs : Good self = true) (ho : Good other = true) :
    ∃ r, mulD self other = .ret r ∧ Good r = true := by
  obtain ⟨hv, _, _⟩ := good_valid ho
  unfold mulD
  simp only [hv, Bool.not_true, Bool.false_eq_true, if_false]
  split
  · split
    · exact ⟨_, rfl, rfl⟩
    · split
      · exact ⟨_, rfl, rfl⟩
      · split
        · exact ⟨_, rfl, hs⟩
        · exact ⟨_, rfl, rfl⟩
  · split
    · exact ⟨_, rfl, hs⟩
    · split
      · exact ⟨_, rfl, rfl⟩
      · exact ⟨_, rfl, rfl⟩

theorem rmulD_total {self other : Expr} (hs : Good self = true) (ho : Good other = true)
    (hn : other.isNode = false) : ∃ r, rmulD self other = .ret r ∧ Good r = true := by
  obtain ⟨_, _, hc⟩ := good_valid ho
  obtain ⟨hc1, _⟩ := hc hn
  unfold rmulD
  simp only [hc1, Bool.not_true, Bool.false_eq_true, if_false]
  split
  · split
    · exact ⟨_, rfl, rfl⟩
    · split
      · exact ⟨_, rfl, hs⟩
      · exact ⟨_, rfl, rfl⟩
  · split
    · exact ⟨_, rfl, hs⟩
    · split
      · exact ⟨_, rfl, rfl⟩
      · exact ⟨_, rfl, rfl⟩

theorem dispatch_total {fwd refl : Expr → Expr → Dunder} {a b : Expr}
    (hf : a.isNode = true → ∃ r, fwd a b = .ret r ∧ Good r = true)
    (hr : a.isNode = false → ∃ r, refl b a = .ret r ∧ Good r = true)
    (ha : Good a = true) (hb : b.isNode = true ∨ a.isNode = true) :
    ∃ t, dispatch fwd refl a b = .ok t ∧ Good t = true := by
  unfold dispatch
  by_cases hn : a.isNode = true
  · obtain ⟨r, h1, h2⟩ := hf hn
    simp only [hn, if_true, h1]
    exact ⟨r, rfl, h2⟩
  · have hn' : a.isNode = false := by simpa using hn
    obtain ⟨r, h1, h2⟩ := hr hn'
    have hbn : b.isNode = true := by
      rcases hb with h | h
      · exact h
      · exact absurd h hn
    have hac := ((good_valid ha).2.2 hn').1
    simp only [hn', Bool.false_eq_true, if_false, hbn, if_true, hac, h1]
    exact ⟨r, rfl, h2⟩

theorem pyAdd_total {a b : Expr} (ha : Good a = true) (hb : Good b = true) :
    ∃ t, pyBin .add a b = .ok t ∧ Good t = true := by
  unfold pyBin
  split
  · rename_i x y
    cases x <;> simp [Good, Expr.isNode] at ha
    cases y <;> simp [Good, Expr.isNode] at hb
    exact ⟨_, rfl, rfl⟩
  · rename_i hnc
    have hnode : b.isNode = true ∨ a.isNode = true := by
      by_contra hcon
      simp only [not_or, Bool.not_eq_true] at hcon
      cases a <;> simp [Good, Expr.isNode] at ha hcon
      cases b <;> simp [Good, Expr.isNode] at hb hcon
      exact hnc _ _ rfl rfl
    obtain ⟨t, h1, h2⟩ := dispatch_total (fwd := addD) (refl := raddD) (a := a) (b := b)
      (fun _ => addD_total ha hb) (fun hn => raddD_total hb ha hn) ha hnode
    exact ⟨t, by simp [Ops.bin, h1, liftOp], h2⟩

theorem pyMul_total {a b : Expr} (ha : Good a = true) (hb : Good b = true) :
    ∃ t, pyBin .mul a b = .ok t ∧ Good t = true := by
  unfold pyBin
  split
  · rename_i x y
    cases x <;> simp [Good, Expr.isNode] at ha
    cases y <;> simp [Good, Expr.isNode] at hb
    exact ⟨_, rfl, rfl⟩
  · rename_i hnc
    have hnode : b.isNode = true ∨ a.isNode = true := by
      by_contra hcon
      simp only [not_or, Bool.not_eq_true] at hcon
      cases a <;> simp [Good, Expr.isNode] at ha hcon
      cases b <;> simp [Good, Expr.isNode] at hb hcon
      exact hnc _ _ rfl rfl
    obtain ⟨t, h1, h2⟩ := dispatch_total (fwd := mulD) (refl := rmulD) (a := a) (b := b)
      (fun _ => mulD_total ha hb) (fun hn => rmulD_total hb ha hn) ha hnode
    exact ⟨t, by simp [Ops.bin, h1, liftOp], h2⟩

/-! ### dictionaries -/

def GoodD (d : Dict) : Prop := ∀ kc ∈ d, Good kc.2 = true

/-- the dictionary `{1: c}` -/
def SingleOne (d : Dict) : Prop := ∃ c, d = [(one, c)] ∧ Good c = true

theorem SingleOne.good {d : Dict} (h : SingleOne d) : GoodD d := by
  obtain ⟨c, rfl, hc⟩ := h
  intro kc hkc
  simp only [List.mem_singleton] at hkc
  subst hkc; exact hc

theorem SingleOne.noVar {d : Dict} (h : SingleOne d) : hasVarKey d = false := by
  obtain ⟨c, rfl, _⟩ := h
  simp [hasVarKey, Expr.pyEq, one, Const.pyEq, Const.numVal?]

theorem one_pyEq_one : one.pyEq one = true := by
  simp [Expr.pyEq, one, Const.pyEq, Const.numVal?]

theorem addTo_total : ∀ (d : Dict) (k c : Expr), GoodD d → Good c = true →
    ∃ d', d.addTo k c = .ok d' ∧ GoodD d'
  | [], k, c, _, hc => ⟨[(k, c)], rfl, by
      intro kc hkc; simp only [List.mem_singleton] at hkc; subst hkc; exact hc⟩
  | (k', c') :: rest, k, c, hd, hc => by
    have hc' := hd (k', c') (by simp)
    have hrs : GoodD rest := fun kc hkc => hd kc (by simp [hkc])
    simp only [Dict.addTo]
    split
    · obtain ⟨s, hs, hsg⟩ := pyAdd_total hc' hc
      refine ⟨(k', s) :: rest, by simp [bind, Except.bind, hs, pure, Except.pure], ?_⟩
      intro kc hkc
      simp only [List.mem_cons] at hkc
      rcases hkc with rfl | hkc
      · exact hsg
      · exact hrs kc hkc
    · obtain ⟨r, hr, hrg⟩ := addTo_total rest k c hrs hc
      refine ⟨(k', c') :: r, by simp [bind, Except.bind, hr, pure, Except.pure], ?_⟩
      intro kc hkc
      simp only [List.mem_cons] at hkc
      rcases hkc with rfl | hkc
      · exact hc'
      · exact hrg kc hkc

theorem mergeInto_total : ∀ (d result : Dict), GoodD result → GoodD d →
    ∃ d', mergeInto result d = .ok d' ∧ GoodD d'
  | [], result, hr, _ => ⟨result, rfl, hr⟩
  | (k, c) :: rest, result, hr, hd => by
    obtain ⟨r, h1, h2⟩ := addTo_total result k c hr (hd (k, c) (by simp))
    obtain ⟨d', h3, h4⟩ := mergeInto_total rest r h2 (fun kc hkc => hd kc (by simp [hkc]))
    exact ⟨d', by simp [mergeInto, bind, Except.bind, h1, h3], h4⟩

theorem sumDicts_total : ∀ (ds : List Dict) (result : Dict), GoodD result → (∀ d ∈ ds, GoodD d) →
    ∃ d', sumDicts result ds = .ok d' ∧ GoodD d'
  | [], result, hr, _ => ⟨result, rfl, hr⟩
  | d :: ds, result, hr, hd => by
    obtain ⟨r, h1, h2⟩ := mergeInto_total d result hr (hd d (by simp))
    obtain ⟨d', h3, h4⟩ := sumDicts_total ds r h2 (fun d' hd' => hd d' (by simp [hd']))
    exact ⟨d', by simp [sumDicts, bind, Except.bind, h1, h3], h4⟩

/-- merging `{1: c}` into `{}` or `{1: c₀}` gives `{1: c'}` -/
theorem mergeInto_single {result d : Dict} (hr : result = [] ∨ SingleOne result) (hd : SingleOne d) :
    ∃ d', mergeInto result d = .ok d' ∧ SingleOne d' := by
  obtain ⟨c, rfl, hc⟩ := hd
  rcases hr with rfl | ⟨c0, rfl, hc0⟩
  · exact ⟨[(one, c)], rfl, c, rfl, hc⟩
  · obtain ⟨s, hs, hsg⟩ := pyAdd_total hc0 hc
    refine ⟨[(one, s)], ?_, s, rfl, hsg⟩
    simp [mergeInto, Dict.addTo, one_pyEq_one, bind, Except.bind, hs, pure, Except.pure]

theorem sumDicts_single : ∀ (ds : List Dict) (result : Dict),
    (result = [] ∧ ds ≠ []) ∨ SingleOne result → (∀ d ∈ ds, SingleOne d) →
    ∃ d', sumDicts result ds = .ok d' ∧ SingleOne d'
  | [], result, hr, _ => by
    rcases hr with ⟨_, h⟩ | h
    · exact absurd rfl h
    · exact ⟨result, rfl, h⟩
  | d :: ds, result, hr, hd => by
    have hr' : result = [] ∨ SingleOne result := hr.imp (fun h => h.1) id
    obtain ⟨r, h1, h2⟩ := mergeInto_single hr' (hd d (by simp))
    obtain ⟨d', h3, h4⟩ := sumDicts_single ds r (Or.inr h2) (fun d' hd' => hd d' (by simp [hd']))
    exact ⟨d', by simp [sumDicts, bind, Except.bind, h1, h3], h4⟩

theorem splitVars_total : ∀ (ds : List Dict), (ds.filter hasVarKey).length ≤ 1 →
    ∃ v os, splitVars ds = .ok (v, os)
  | [], _ => ⟨none, [], rfl⟩
  | d :: ds, h => by
    by_cases hv : hasVarKey d = true
    · have hrest : (ds.filter hasVarKey).length = 0 := by
        simp only [List.filter_cons, hv, if_true, List.length_cons] at h
        omega
      obtain ⟨v, os, hsp⟩ := splitVars_total ds (by omega)
      have hvn : v = none := by
        cases v with
        | none => rfl
        | some dv =>
          exfalso
          obtain ⟨_, _, s3⟩ := splitVars_split ds (some dv) os hsp
          have hmem := (splitVars_mem ds _ os hsp).2 dv rfl
          have : dv ∈ ds.filter hasVarKey := List.mem_filter.2 ⟨hmem, s3 dv rfl⟩
          have := List.length_pos_of_mem this
          omega
      subst hvn
      exact ⟨some d, os, by simp [splitVars, bind, Except.bind, hsp, hv, pure, Except.pure]⟩
    · have hrest : (ds.filter hasVarKey).length ≤ 1 := by
        simpa [List.filter_cons, hv] using h
      obtain ⟨v, os, hsp⟩ := splitVars_total ds hrest
      exact ⟨v, d :: os, by simp [splitVars, bind, Except.bind, hsp, hv, pure, Except.pure]⟩

theorem otherCoeffs_total : ∀ (os : List Dict) (acc : Expr), Good acc = true →
    (∀ d ∈ os, SingleOne d) → ∃ other, otherCoeffs acc os = .ok other ∧ Good other = true
  | [], acc, ha, _ => ⟨acc, rfl, ha⟩
  | d :: os, acc, ha, hd => by
    obtain ⟨c, rfl, hc⟩ := hd d (by simp)
    obtain ⟨acc', h1, h2⟩ := pyMul_total ha hc
    obtain ⟨other, h3, h4⟩ := otherCoeffs_total os acc' h2 (fun d' hd' => hd d' (by simp [hd']))
    refine ⟨other, ?_, h4⟩
    simp [otherCoeffs, Dict.find, one_pyEq_one, bind, Except.bind, h1, h3]

theorem scaleLeft_total : ∀ (d : Dict) (other : Expr), Good other = true → GoodD d →
    ∃ d', scaleLeft other d = .ok d' ∧ GoodD d'
  | [], other, _, _ => ⟨[], rfl, by intro kc hkc; simp at hkc⟩
  | (k, c) :: rest, other, ho, hd => by
    obtain ⟨c', h1, h2⟩ := pyMul_total ho (hd (k, c) (by simp))
    obtain ⟨r, h3, h4⟩ := scaleLeft_total rest other ho (fun kc hkc => hd kc (by simp [hkc]))
    refine ⟨(k, c') :: r, by simp [scaleLeft, bind, Except.bind, h1, h3, pure, Except.pure], ?_⟩
    intro kc hkc
    simp only [List.mem_cons] at hkc
    rcases hkc with rfl | hkc
    · exact h2
    · exact h4 kc hkc

theorem scaleRight_total : ∀ (d : Dict) (qe : Expr), Good qe = true → GoodD d →
    ∃ d', scaleRight qe d = .ok d' ∧ GoodD d' ∧ (SingleOne d → SingleOne d')
  | [], qe, _, _ => ⟨[], rfl, by intro kc hkc; simp at hkc, by
      rintro ⟨c, h, _⟩; cases h⟩
  | (k, c) :: rest, qe, ho, hd => by
    obtain ⟨c', h1, h2⟩ := pyMul_total (hd (k, c) (by simp)) ho
    obtain ⟨r, h3, h4, _⟩ := scaleRight_total rest qe ho (fun kc hkc => hd kc (by simp [hkc]))
    refine ⟨(k, c') :: r, by simp [scaleRight, bind, Except.bind, h1, h3, pure, Except.pure], ?_, ?_⟩
    · intro kc hkc
      simp only [List.mem_cons] at hkc
      rcases hkc with rfl | hkc
      · exact h2
      · exact h4 kc hkc
    · rintro ⟨c0, heq, _⟩
      simp only [List.cons.injEq, Prod.mk.injEq] at heq
      obtain ⟨⟨rfl, rfl⟩, rfl⟩ := heq
      simp only [scaleRight, pure, Except.pure, Except.ok.injEq] at h3
      subst h3
      exact ⟨c', rfl, h2⟩

/-! ### the syntactic affine class -/

mutual
/-- sums (non-empty) of affine terms, products with at most one factor that contains a target in
arithmetic position, quotients by a target-free denominator, target-free powers, int constants
and algebraic leaves — over an arbitrary target set -/
def affClass (tg : Option (List String)) : Expr → Bool
  | .const (.int _) => true
  | .nary .sum cs => !cs.isEmpty && affClassL tg cs
  | .nary .prod cs => affClassL tg cs && decide ((cs.filter (armT tg)).length ≤ 1)
  | .bin .quot a b => affClass tg a && affClass tg b && !armT tg b
  | .bin .pow a b => affClass tg a && affClass tg b && !armT tg a && !armT tg b
  | e => e.isAlgLeaf && !(isTarget tg e && e.hasList)
def affClassL (tg : Option (List String)) : List Expr → Bool
  | [] => true
  | c :: cs => affClass tg c && affClassL tg cs
end

variable {tg : Option (List String)}

theorem leaf_node {e : Expr} (h : e.isAlgLeaf = true) : e.isNode = true := by
  cases e <;> simp [Expr.isAlgLeaf] at h <;> rfl

theorem affClass_leaf {e : Expr} (h : e.isAlgLeaf = true) :
    affClass tg e = !(isTarget tg e && e.hasList) := by
  cases e <;> simp [Expr.isAlgLeaf] at h <;> simp [affClass, Expr.isAlgLeaf]

/-- what the collector returns on the affine class -/
def AccOK (tg : Option (List String)) (e : Expr) : Prop :=
  ∃ d, coeffs tg e = .ok d ∧ GoodD d ∧ (armT tg e = false → SingleOne d)

theorem coeffsL_total : ∀ (cs : List Expr), (∀ c ∈ cs, AccOK tg c) →
    ∃ ds, coeffsL tg cs = .ok ds ∧ (∀ d ∈ ds, GoodD d) ∧
      (armTL tg cs = false → ∀ d ∈ ds, SingleOne d) ∧
      (∀ d ∈ ds, hasVarKey d = false → SingleOne d) ∧
      (ds.filter hasVarKey).length ≤ (cs.filter (armT tg)).length ∧
      (cs ≠ [] → ds ≠ [])
  | [], _ => ⟨[], rfl, by simp, by simp, by simp, by simp, by simp⟩
  | c :: cs, h => by
    obtain ⟨d, hd, hg, hs⟩ := h c (by simp)
    obtain ⟨ds, hds, h1, h2, h3, h4, _⟩ := coeffsL_total cs (fun c' hc' => h c' (by simp [hc']))
    refine ⟨d :: ds, by simp [coeffsL, bind, Except.bind, hd, hds, pure, Except.pure], ?_, ?_, ?_, ?_,
      by simp⟩
    · intro d' hd'
      simp only [List.mem_cons] at hd'
      rcases hd' with rfl | hd'
      · exact hg
      · exact h1 d' hd'
    · intro ha d' hd'
      simp only [armTL, Bool.or_eq_false_iff] at ha
      simp only [List.mem_cons] at hd'
      rcases hd' with rfl | hd'
      · exact hs ha.1
      · exact h2 ha.2 d' hd'
    · intro d' hd' hv
      simp only [List.mem_cons] at hd'
      rcases hd' with rfl | hd'
      · by_cases ha : armT tg c = true
        · have := leafKey_hasVarKey ((coeffs_keys tg c d' hd).2 ha)
          rw [this] at hv; cases hv
        · exact hs (by simpa using ha)
      · exact h3 d' hd' hv
    · by_cases ha : armT tg c = true
      · simp only [List.filter_cons, ha, if_true, List.length_cons]
        by_cases hv : hasVarKey d = true
        · simp only [hv, if_true, List.length_cons]; omega
        · simp only [hv, Bool.false_eq_true, if_false]; omega
      · have hv : hasVarKey d = false := (hs (by simpa using ha)).noVar
        simp only [List.filter_cons, ha, hv, Bool.false_eq_true, if_false]
        exact h4

theorem armTL_filter : ∀ (cs : List Expr), armTL tg cs = false ↔ (cs.filter (armT tg)).length = 0
  | [] => by simp [armTL]
  | c :: cs => by
    by_cases ha : armT tg c = true
    · simp [armTL, List.filter_cons, ha]
    · have ha' : armT tg c = false := by simpa using ha
      simp [armTL, List.filter_cons, ha', armTL_filter cs]


theorem coeffs_leaf {e : Expr} (h : e.isAlgLeaf = true) : coeffs tg e = leafR tg e := by
  cases e <;> simp [Expr.isAlgLeaf] at h <;> simp [coeffs]

theorem leaf_acc {e : Expr} (h : e.isAlgLeaf = true) (haff : affClass tg e = true) : AccOK tg e := by
  rw [affClass_leaf h] at haff
  have hnode := leaf_node h
  refine ⟨leafDict tg e, ?_, ?_, ?_⟩
  · rw [coeffs_leaf h]
    unfold leafR
    simp only [Bool.not_eq_true'] at haff
    simp [haff, pure, Except.pure]
  · unfold leafDict
    split <;> intro kc hkc <;> simp only [List.mem_singleton] at hkc <;> subst hkc
    · exact good_one
    · exact good_node hnode
  · intro ha
    rw [armT_leaf h] at ha
    unfold leafDict
    simp only [ha, Bool.false_eq_true, if_false]
    exact ⟨e, rfl, good_node hnode⟩

/-- **completeness on the affine class**: the collector returns a dictionary -/
theorem coeffs_accepts (tg : Option (List String)) (e : Expr) :
    affClass tg e = true → AccOK tg e := by
  induction e using Expr.induct with
  | h e ih =>
    intro haff
    have hL : ∀ (cs : List Expr), (∀ c ∈ cs, c ∈ e.children) → affClassL tg cs = true →
        ∀ c ∈ cs, AccOK tg c := by
      intro cs
      induction cs with
      | nil => intro _ _ c hc; simp at hc
      | cons c0 cs ihcs =>
        intro hsub hcl c hc
        simp only [affClassL, Bool.and_eq_true] at hcl
        simp only [List.mem_cons] at hc
        rcases hc with rfl | hc
        · exact ih c (hsub c (by simp)) hcl.1
        · exact ihcs (fun c' hc' => hsub c' (by simp [hc'])) hcl.2 c hc
    cases e with
    | const c =>
      cases c <;> simp [affClass, Expr.isAlgLeaf] at haff
      rename_i n
      exact ⟨[(one, .const (.int n))], rfl, (SingleOne.good ⟨_, rfl, rfl⟩), fun _ => ⟨_, rfl, rfl⟩⟩
    | nary o cs =>
      cases o <;> simp [affClass, Expr.isAlgLeaf] at haff
      · -- sum
        obtain ⟨hne, hcl⟩ := haff
        obtain ⟨ds, hds, h1, h2, _, _, h6⟩ := coeffsL_total cs
          (hL cs (fun c hc => by simpa [Expr.children] using hc) hcl)
        have hcs : cs ≠ [] := by
          intro h0; subst h0; simp at hne
        obtain ⟨d, hd, hg⟩ := sumDicts_total ds [] (by intro kc hkc; simp at hkc) h1
        refine ⟨d, by simp [coeffs, bind, Except.bind, hds, hd], hg, ?_⟩
        intro ha
        simp only [armT] at ha
        obtain ⟨d', hd', hs⟩ := sumDicts_single ds [] (Or.inl ⟨rfl, h6 hcs⟩) (h2 ha)
        rw [hd] at hd'
        cases hd'
        exact hs
      · -- product
        obtain ⟨hcl, hcount⟩ := haff
        obtain ⟨ds, hds, h1, h2, h3, h4, _⟩ := coeffsL_total cs
          (hL cs (fun c hc => by simpa [Expr.children] using hc) hcl)
        obtain ⟨v, os, hsp⟩ := splitVars_total ds (by omega)
        obtain ⟨s1, s2, s3⟩ := splitVars_split ds v os hsp
        obtain ⟨m1, m2⟩ := splitVars_mem ds v os hsp
        obtain ⟨other, ho, hog⟩ := otherCoeffs_total os one good_one
          (fun d hd => h3 d (m1 d hd) (s1 d hd))
        cases v with
        | none =>
          refine ⟨[(one, other)], by simp [coeffs, bind, Except.bind, hds, hsp, ho, pure, Except.pure],
            SingleOne.good ⟨_, rfl, hog⟩, fun _ => ⟨_, rfl, hog⟩⟩
        | some dv =>
          obtain ⟨d, hd, hg⟩ := scaleLeft_total dv other hog (h1 dv (m2 dv rfl))
          refine ⟨d, by simp [coeffs, bind, Except.bind, hds, hsp, ho, hd], hg, ?_⟩
          intro ha
          exfalso
          simp only [armT] at ha
          have := (h2 ha dv (m2 dv rfl)).noVar
          rw [s3 dv rfl] at this; cases this
    | bin o a b =>
      cases o <;> simp [affClass, Expr.isAlgLeaf] at haff
      · -- quotient
        obtain ⟨⟨ha, hb⟩, hnb⟩ := haff
        obtain ⟨dn, hdn, hgn, hsn⟩ := ih a (by simp [Expr.children]) ha
        obtain ⟨dd, hdd, _, hsd⟩ := ih b (by simp [Expr.children]) hb
        obtain ⟨val, rfl, hval⟩ := hsd hnb
        have hq : Good (.bin .quot one val) = true := rfl
        obtain ⟨d, hd, hg, hsingle⟩ := scaleRight_total dn _ hq hgn
        refine ⟨d, ?_, hg, ?_⟩
        · simp [coeffs, bind, Except.bind, hdn, hdd, constOnly, Dict.find, one_pyEq_one, hd]
        · intro harm
          simp only [armT, Bool.or_eq_false_iff] at harm
          exact hsingle (hsn harm.1)
      · -- power
        obtain ⟨⟨⟨ha, hb⟩, hna⟩, hnb⟩ := haff
        obtain ⟨db, hdb, _, hsb⟩ := ih a (by simp [Expr.children]) ha
        obtain ⟨de, hde, _, hse⟩ := ih b (by simp [Expr.children]) hb
        obtain ⟨vb, rfl, _⟩ := hsb hna
        obtain ⟨ve, rfl, _⟩ := hse hnb
        refine ⟨[(one, .bin .pow a b)], ?_, SingleOne.good ⟨_, rfl, rfl⟩, fun _ => ⟨_, rfl, rfl⟩⟩
        simp [coeffs, bind, Except.bind, hdb, hde, constOnly, Dict.find, one_pyEq_one, pure,
          Except.pure]
    | var n => exact leaf_acc (e := .var n) rfl haff
    | subscript a i => exact leaf_acc (e := .subscript a i) rfl haff
    | call f as => exact leaf_acc (e := .call f as) rfl haff
    | callKw f as ns vs => exact leaf_acc (e := .callKw f as ns vs) rfl haff
    | lookup a n => exact leaf_acc (e := .lookup a n) rfl haff
    | nan => exact leaf_acc (e := .nan) rfl haff
    | wildcard => exact leaf_acc (e := .wildcard) rfl haff
    | dotWild n => exact leaf_acc (e := .dotWild n) rfl haff
    | starWild n => exact leaf_acc (e := .starWild n) rfl haff
    | funcSym => exact leaf_acc (e := .funcSym) rfl haff
    | un o a => simp [affClass, Expr.isAlgLeaf] at haff
    | cmp o a b => simp [affClass, Expr.isAlgLeaf] at haff
    | ite c t e => simp [affClass, Expr.isAlgLeaf] at haff
    | cse c p s => simp [affClass, Expr.isAlgLeaf] at haff
    | subst c vs xs => simp [affClass, Expr.isAlgLeaf] at haff
    | deriv c vs => simp [affClass, Expr.isAlgLeaf] at haff
    | slice cs => simp [affClass, Expr.isAlgLeaf] at haff
    | tuple cs => simp [affClass, Expr.isAlgLeaf] at haff
    | list cs => simp [affClass, Expr.isAlgLeaf] at haff

/-! ### every key passed the target test -/

def KeysP (P : Expr → Prop) (d : Dict) : Prop := ∀ kc ∈ d, P kc.1

theorem addTo_keysP {P : Expr → Prop} : ∀ (d : Dict) (k c : Expr) (d' : Dict), KeysP P d → P k →
    d.addTo k c = .ok d' → KeysP P d'
  | [], k, c, d', _, hk, h => by
    simp only [Dict.addTo, pure, Except.pure, Except.ok.injEq] at h
    subst h
    intro kc hkc
    simp only [List.mem_singleton] at hkc
    subst hkc; exact hk
  | (k', c') :: rest, k, c, d', hks, hk, h => by
    simp only [Dict.addTo] at h
    split at h
    · simp only [bind, Except.bind] at h
      cases hs : pyBin .add c' c with
      | error e => rw [hs] at h; cases h
      | ok s =>
        rw [hs] at h
        simp only [pure, Except.pure, Except.ok.injEq] at h
        subst h
        intro kc hkc
        simp only [List.mem_cons] at hkc
        rcases hkc with rfl | hkc
        · exact hks (k', c') (by simp)
        · exact hks kc (by simp [hkc])
    · simp only [bind, Except.bind] at h
      cases hr' : Dict.addTo rest k c with
      | error e => rw [hr'] at h; cases h
      | ok r =>
        rw [hr'] at h
        simp only [pure, Except.pure, Except.ok.injEq] at h
        subst h
        have ih := addTo_keysP rest k c r (fun kc hkc => hks kc (by simp [hkc])) hk hr'
        intro kc hkc
        simp only [List.mem_cons] at hkc
        rcases hkc with rfl | hkc
        · exact hks (k', c') (by simp)
        · exact ih kc hkc

theorem mergeInto_keysP {P : Expr → Prop} : ∀ (d result d' : Dict), KeysP P result → KeysP P d →
    mergeInto result d = .ok d' → KeysP P d'
  | [], result, d', hr, _, h => by
    simp only [mergeInto, pure, Except.pure, Except.ok.injEq] at h
    subst h; exact hr
  | (k, c) :: rest, result, d', hr, hds, h => by
    simp only [mergeInto, bind, Except.bind] at h
    cases ha : Dict.addTo result k c with
    | error e => rw [ha] at h; cases h
    | ok r =>
      rw [ha] at h
      simp only at h
      exact mergeInto_keysP rest r d' (addTo_keysP result k c r hr (hds (k, c) (by simp)) ha)
        (fun kc hkc => hds kc (by simp [hkc])) h

theorem sumDicts_keysP {P : Expr → Prop} : ∀ (ds : List Dict) (result d' : Dict), KeysP P result →
    (∀ d ∈ ds, KeysP P d) → sumDicts result ds = .ok d' → KeysP P d'
  | [], result, d', hr, _, h => by
    simp only [sumDicts, pure, Except.pure, Except.ok.injEq] at h
    subst h; exact hr
  | d :: ds, result, d', hr, hds, h => by
    simp only [sumDicts, bind, Except.bind] at h
    cases hm : mergeInto result d with
    | error e => rw [hm] at h; cases h
    | ok r =>
      rw [hm] at h
      simp only at h
      exact sumDicts_keysP ds r d' (mergeInto_keysP d result r hr (hds d (by simp)) hm)
        (fun d' hd' => hds d' (by simp [hd'])) h

theorem keysP_of_keys {P : Expr → Prop} {d d' : Dict} (h : d'.map Prod.fst = d.map Prod.fst)
    (hd : KeysP P d) : KeysP P d' := by
  intro kc hkc
  have : kc.1 ∈ d'.map Prod.fst := List.mem_map_of_mem hkc
  rw [h] at this
  obtain ⟨kc', hkc', heq⟩ := List.mem_map.1 this
  rw [← heq]; exact hd kc' hkc'

/-- a key is the constant `1` or an algebraic leaf that passed the collector's target test -/
def TargetKey (tg : Option (List String)) (k : Expr) : Prop :=
  k = one ∨ (k.isAlgLeaf = true ∧ isTarget tg k = true)

theorem coeffs_keys_target (tg : Option (List String)) (e : Expr) :
    ∀ d, coeffs tg e = .ok d → KeysP (TargetKey tg) d := by
  induction e using Expr.induct with
  | h e ih =>
    intro d h
    have hL : ∀ (cs : List Expr), (∀ c ∈ cs, c ∈ e.children) → ∀ ds, coeffsL tg cs = .ok ds →
        ∀ d ∈ ds, KeysP (TargetKey tg) d := by
      intro cs
      induction cs with
      | nil =>
        intro _ ds hds
        simp only [coeffsL, pure, Except.pure, Except.ok.injEq] at hds
        subst hds; simp
      | cons c cs ihcs =>
        intro hsub ds hds
        obtain ⟨d0, ds', hd0, hds', rfl⟩ := coeffsL_cons hds
        intro d' hd'
        simp only [List.mem_cons] at hd'
        rcases hd' with rfl | hd'
        · exact ih c (hsub c (by simp)) _ hd0
        · exact ihcs (fun c' hc' => hsub c' (by simp [hc'])) ds' hds' d' hd'
    have hone : ∀ c, KeysP (TargetKey tg) [(one, c)] := by
      intro c kc hkc
      simp only [List.mem_singleton] at hkc
      subst hkc; exact Or.inl rfl
    cases coeffs_view tg e d h with
    | leaf _ hleaf =>
      unfold leafDict
      split
      · rename_i ht
        intro kc hkc
        simp only [List.mem_singleton] at hkc
        subst hkc; exact Or.inr ⟨hleaf, ht⟩
      · exact hone _
    | num _ _ => exact hone _
    | sum cs ds _ hds hsum =>
      exact sumDicts_keysP ds [] d (by intro kc hkc; simp at hkc)
        (hL cs (fun c hc => by simpa [Expr.children] using hc) ds hds) hsum
    | prodConst cs ds os other hds hsp ho => exact hone _
    | prodVar cs ds os dv _ other hds hsp ho hsc =>
      have hall := hL cs (fun c hc => by simpa [Expr.children] using hc) ds hds
      exact keysP_of_keys (scaleLeft_keys dv d other hsc)
        (hall dv ((splitVars_mem ds _ os hsp).2 dv rfl))
    | quot a b dn dd _ val hdn hdd hc hsc =>
      exact keysP_of_keys (scaleRight_keys dn d _ hsc) (ih a (by simp [Expr.children]) dn hdn)
    | pow a b db de vb ve _ _ _ _ => exact hone _

end PV.Coeff
