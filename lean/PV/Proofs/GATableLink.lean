import PV.Proofs.GATableAdd
/-
  C18 (T-gen), part 4: linking.  `c18Call M Γ fuel q` looks `q` up in the function list and runs
  it with the TAIL of the list as its callee resolver.  Here the per-function theorems (stated for
  an arbitrary resolver that satisfies the `C18Has…` hypotheses) are instantiated bottom-up with
  those tails, which discharges every hypothesis: what remains are statements about
  `c18Call c18ExpectedModule`.
-/
set_option linter.unusedSectionVars false
set_option linter.unusedVariables false
set_option linter.unusedSimpArgs false
namespace PV.GA.C18T

section
variable {R : Type} [Add R] [Mul R] [Neg R] [OfNat R 0] [OfNat R 1]

/-! ## look-up in a function list -/

theorem c18CallIn_skip (M : C18Module) (Γ : C18Ctx R) (fuel : Nat) (q : String) :
    ∀ (pre rest : List C18Fn), (∀ f ∈ pre, f.qual ≠ q) →
    c18CallIn M Γ fuel (pre ++ rest) q = c18CallIn M Γ fuel rest q := by
  intro pre
  induction pre with
  | nil => intro rest _; rfl
  | cons f pre ih =>
    intro rest h
    funext args kw
    have hf : ¬ f.qual = q := h f (List.mem_cons_self)
    simp only [List.cons_append, c18CallIn, hf, if_false]
    rw [ih rest fun g hg => h g (List.mem_cons_of_mem _ hg)]

/-- the resolver a function at position `n` of the expected list runs with is
`c18Tail Γ fuel (n + 1)` -/
def c18Tail (Γ : C18Ctx R) (fuel : Nat) (n : Nat) : C18Callee R :=
  c18CallIn c18ExpectedModule Γ fuel (c18ExpectedFns.drop n)

/-- a call of the function at position `idx` (the first of that name) from any tail that still
contains it runs it with the tail behind it -/
theorem c18Tail_call (Γ : C18Ctx R) (fuel : Nat) (q : String) (idx : Nat) (f : C18Fn)
    (hf : c18ExpectedFns[idx]? = some f) (hq : f.qual = q)
    (hfirst : ∀ g ∈ c18ExpectedFns.take idx, g.qual ≠ q) (n : Nat) (hn : n ≤ idx) :
    c18Tail Γ fuel n q = c18RunFn c18ExpectedModule Γ fuel (c18Tail Γ fuel (idx + 1)) f := by
  unfold c18Tail
  have hsplit : c18ExpectedFns.drop n
      = (c18ExpectedFns.drop n).take (idx - n) ++ f :: c18ExpectedFns.drop (idx + 1) := by
    have h1 : (c18ExpectedFns.drop n).drop (idx - n) = c18ExpectedFns.drop idx := by
      rw [List.drop_drop]; congr 1; omega
    have h2 : c18ExpectedFns.drop idx = f :: c18ExpectedFns.drop (idx + 1) := by
      have hlt : idx < c18ExpectedFns.length := by
        rcases Nat.lt_or_ge idx c18ExpectedFns.length with h | h
        · exact h
        · rw [List.getElem?_eq_none h] at hf; cases hf
      rw [List.drop_eq_getElem_cons hlt]
      rw [List.getElem?_eq_getElem hlt] at hf
      cases hf; rfl
    rw [← h2, ← h1, List.take_append_drop]
  rw [hsplit, c18CallIn_skip]
  · funext args kw
    simp only [c18CallIn, hq, if_true]
  · intro g hg
    apply hfirst
    have : (c18ExpectedFns.drop n).take (idx - n) = (c18ExpectedFns.take idx).drop n := by
      rw [List.drop_take]
    rw [this] at hg
    exact List.mem_of_mem_drop hg

theorem c18Call_eq_tail (Γ : C18Ctx R) (fuel : Nat) :
    c18Call c18ExpectedModule Γ fuel = c18Tail Γ fuel 0 := rfl

/-- names of the expected function list, in order -/
theorem c18ExpectedFns_quals :
    c18ExpectedFns.map (·.qual) = c18ExpectedModule.fnNames := rfl

/-- closing the side conditions of `c18Tail_call` for a concrete position -/
macro "c18first" : tactic => `(tactic|
  (intro g hg
   have hq := List.mem_map_of_mem (f := fun (f : C18Fn) => f.qual) hg
   rw [List.map_take, c18ExpectedFns_quals] at hq
   revert hq
   generalize g.qual = s
   intro hq h
   subst h
   revert hq
   decide))

section Specs
variable (Γ : C18Ctx R) (fuel : Nat)

theorem tail_bit_count (n : Nat) (hn : n ≤ 53) :
    C18HasBitCount fuel (c18Tail Γ fuel n) := by
  intro k hk
  rw [c18Tail_call Γ fuel "bit_count" 53 c18X_bit_count rfl rfl (by c18first) n hn]
  exact c18_bit_count Γ fuel _ k hk

theorem tail_crs (n : Nat) (hn : n ≤ 52) : C18HasCrs fuel (c18Tail Γ fuel n) := by
  intro a b ha
  rw [c18Tail_call Γ fuel "canonical_reordering_sign" 52 c18X_canonical_reordering_sign rfl rfl
    (by c18first) n hn]
  exact c18_crs Γ fuel _ (tail_bit_count Γ fuel 53 (by omega)) a b ha

theorem tail_smc (h2 : 2 ≤ fuel) (n : Nat) (hn : n ≤ 51) : C18HasSmc Γ fuel (c18Tail Γ fuel n) := by
  intro sh hsh
  rw [c18Tail_call Γ fuel "_shared_metric_coeff" 51 c18X__shared_metric_coeff rfl rfl
    (by c18first) n hn]
  exact c18_smc Γ fuel _ sh hsh h2

theorem isW_smcVal (g : Nat → R) (sh : Nat) : IsW (c18SmcVal g sh) := by
  unfold c18SmcVal IsW
  by_cases h : sh = 0 <;> simp [h]

/-- the weight values the six `orthogonal_blade_product_weight`s return -/
def wvOuter (a b : Nat) : C18Val R := .nat (if a &&& b ≠ 0 then 0 else 1)
def wvGeometric (g : Nat → R) (a b : Nat) : C18Val R :=
  if a &&& b ≠ 0 then c18SmcVal g (a &&& b) else .nat 1
def wvInner (g : Nat → R) (a b : Nat) : C18Val R :=
  if a &&& b = a ∨ a &&& b = b then c18SmcVal g (a &&& b) else .nat 0
def wvLeft (g : Nat → R) (a b : Nat) : C18Val R :=
  if a &&& b = a then c18SmcVal g (a &&& b) else .nat 0
def wvRight (g : Nat → R) (a b : Nat) : C18Val R :=
  if a &&& b = b then c18SmcVal g (a &&& b) else .nat 0
def wvScalar (g : Nat → R) (a b : Nat) : C18Val R := if a = b then c18SmcVal g a else .nat 0

theorem tail_wOuter (n : Nat) (hn : n ≤ 40) :
    C18HasW fuel (c18Tail Γ fuel n) "_OuterProduct.generic_blade_product_weight" wvOuter := by
  intro a b ha
  rw [c18Tail_call Γ fuel "_OuterProduct.generic_blade_product_weight" 40
    c18X__OuterProduct_generic_blade_product_weight rfl rfl (by c18first) n hn]
  refine ⟨c18_wOuter Γ fuel _ a b, ?_⟩
  unfold wvOuter IsW
  by_cases h : a &&& b = 0 <;> simp [h]

theorem tail_wGeometric (h2 : 2 ≤ fuel) (n : Nat) (hn : n ≤ 42) :
    C18HasW fuel (c18Tail Γ fuel n) "_GeometricProduct.orthogonal_blade_product_weight"
      (wvGeometric Γ.g) := by
  intro a b ha
  rw [c18Tail_call Γ fuel "_GeometricProduct.orthogonal_blade_product_weight" 42
    c18X__GeometricProduct_orthogonal_blade_product_weight rfl rfl (by c18first) n hn]
  refine ⟨c18_wGeometric Γ fuel _ (tail_smc Γ fuel h2 43 (by omega)) a b ha, ?_⟩
  unfold wvGeometric
  by_cases h : a &&& b = 0
  · simp [h, IsW]
  · simp only [ne_eq, h, not_false_eq_true, if_true]; exact isW_smcVal _ _

theorem tail_wInner (h2 : 2 ≤ fuel) (n : Nat) (hn : n ≤ 44) :
    C18HasW fuel (c18Tail Γ fuel n) "_InnerProduct.orthogonal_blade_product_weight"
      (wvInner Γ.g) := by
  intro a b ha
  rw [c18Tail_call Γ fuel "_InnerProduct.orthogonal_blade_product_weight" 44
    c18X__InnerProduct_orthogonal_blade_product_weight rfl rfl (by c18first) n hn]
  refine ⟨c18_wInner Γ fuel _ (tail_smc Γ fuel h2 45 (by omega)) a b ha, ?_⟩
  unfold wvInner
  by_cases h : a &&& b = a ∨ a &&& b = b
  · simp only [h, if_true]; exact isW_smcVal _ _
  · simp [h, IsW]

theorem tail_wLeft (h2 : 2 ≤ fuel) (n : Nat) (hn : n ≤ 46) :
    C18HasW fuel (c18Tail Γ fuel n) "_LeftContractionProduct.orthogonal_blade_product_weight"
      (wvLeft Γ.g) := by
  intro a b ha
  rw [c18Tail_call Γ fuel "_LeftContractionProduct.orthogonal_blade_product_weight" 46
    c18X__LeftContractionProduct_orthogonal_blade_product_weight rfl rfl (by c18first) n hn]
  refine ⟨c18_wLeft Γ fuel _ (tail_smc Γ fuel h2 47 (by omega)) a b ha, ?_⟩
  unfold wvLeft
  by_cases h : a &&& b = a
  · simp only [h, if_true]; exact isW_smcVal _ _
  · simp [h, IsW]

theorem tail_wRight (h2 : 2 ≤ fuel) (n : Nat) (hn : n ≤ 48) :
    C18HasW fuel (c18Tail Γ fuel n) "_RightContractionProduct.orthogonal_blade_product_weight"
      (wvRight Γ.g) := by
  intro a b ha
  rw [c18Tail_call Γ fuel "_RightContractionProduct.orthogonal_blade_product_weight" 48
    c18X__RightContractionProduct_orthogonal_blade_product_weight rfl rfl (by c18first) n hn]
  refine ⟨c18_wRight Γ fuel _ (tail_smc Γ fuel h2 49 (by omega)) a b ha, ?_⟩
  unfold wvRight
  by_cases h : a &&& b = b
  · simp only [h, if_true]; exact isW_smcVal _ _
  · simp [h, IsW]

theorem tail_wScalar (h2 : 2 ≤ fuel) (n : Nat) (hn : n ≤ 50) :
    C18HasW fuel (c18Tail Γ fuel n) "_ScalarProduct.orthogonal_blade_product_weight"
      (wvScalar Γ.g) := by
  intro a b ha
  rw [c18Tail_call Γ fuel "_ScalarProduct.orthogonal_blade_product_weight" 50
    c18X__ScalarProduct_orthogonal_blade_product_weight rfl rfl (by c18first) n hn]
  refine ⟨c18_wScalar Γ fuel _ (tail_smc Γ fuel h2 51 (by omega)) a b ha, ?_⟩
  unfold wvScalar
  by_cases h : a = b
  · simp only [h, if_true]; exact isW_smcVal _ _
  · simp [h, IsW]

theorem tail_init (n : Nat) (hn : n ≤ 37) : C18HasInit (c18Tail Γ fuel n) := by
  intro d
  rw [c18Tail_call Γ fuel "MultiVector.__init__" 37 c18X_MultiVector___init__ rfl rfl
    (by c18first) n hn]
  exact c18_init_dict Γ fuel _ d

/-- a dict value the table functions are run on: distinct keys (a Python dict), every bitmap
below the loop bound -/
def C18Dict (fuel : Nat) (a : MVOf R) : Prop := (dkeys a).Nodup ∧ ∀ k ∈ dkeys a, k < fuel

theorem tail_rev (n : Nat) (hn : n ≤ 24) (a : MVOf R) (ha : C18Dict fuel a) :
    c18Tail Γ fuel n "MultiVector.rev" [.mv a] [] = .ok (.mv (rev a)) := by
  rw [c18Tail_call Γ fuel "MultiVector.rev" 24 c18X_MultiVector_rev rfl rfl (by c18first) n hn]
  exact c18_rev Γ fuel _ (tail_bit_count Γ fuel 25 (by omega)) (tail_init Γ fuel 25 (by omega)) a
    ha.1 ha.2

theorem tail_invol (n : Nat) (hn : n ≤ 25) (a : MVOf R) (ha : C18Dict fuel a) :
    c18Tail Γ fuel n "MultiVector.invol" [.mv a] [] = .ok (.mv (invol a)) := by
  rw [c18Tail_call Γ fuel "MultiVector.invol" 25 c18X_MultiVector_invol rfl rfl (by c18first) n hn]
  exact c18_invol Γ fuel _ (tail_bit_count Γ fuel 26 (by omega)) (tail_init Γ fuel 26 (by omega))
    a ha.1 ha.2

theorem tail_project (n : Nat) (hn : n ≤ 31) (a : MVOf R) (r : Nat) (ha : C18Dict fuel a) :
    c18Tail Γ fuel n "MultiVector.project" [.mv a, .nat r] [] = .ok (.mv (project a r)) := by
  rw [c18Tail_call Γ fuel "MultiVector.project" 31 c18X_MultiVector_project rfl rfl
    (by c18first) n hn]
  exact c18_project Γ fuel _ (tail_bit_count Γ fuel 32 (by omega))
    (tail_init Γ fuel 32 (by omega)) a r ha.1 ha.2

theorem tail_odd (n : Nat) (hn : n ≤ 34) (a : MVOf R) (ha : C18Dict fuel a) :
    c18Tail Γ fuel n "MultiVector.odd" [.mv a] [] = .ok (.mv (odd a)) := by
  rw [c18Tail_call Γ fuel "MultiVector.odd" 34 c18X_MultiVector_odd rfl rfl (by c18first) n hn]
  exact c18_odd Γ fuel _ (tail_bit_count Γ fuel 35 (by omega)) (tail_init Γ fuel 35 (by omega))
    a ha.1 ha.2

theorem tail_even (n : Nat) (hn : n ≤ 35) (a : MVOf R) (ha : C18Dict fuel a) :
    c18Tail Γ fuel n "MultiVector.even" [.mv a] [] = .ok (.mv (even a)) := by
  rw [c18Tail_call Γ fuel "MultiVector.even" 35 c18X_MultiVector_even rfl rfl (by c18first) n hn]
  exact c18_even Γ fuel _ (tail_bit_count Γ fuel 36 (by omega)) (tail_init Γ fuel 36 (by omega))
    a ha.1 ha.2

/-- `_generic_product` called with a product class whose `orthogonal_blade_product_weight`
resolves to `q` with weight values `wv` -/
theorem tail_gp (h1 : ∀ r : R, 1 * r = r) (hz0 : Γ.z 0 = true) (horth : Γ.orth = true)
    (cn q : String) (wv : Nat → Nat → C18Val R)
    (hq : C18WeightOf cn "orthogonal_blade_product_weight" q)
    (hw : C18HasW fuel (c18Tail Γ fuel 24) q wv)
    (n : Nat) (hn : n ≤ 23) (x y : MVOf R) (hk : ∀ k ∈ dkeys x, k < fuel) :
    c18Tail Γ fuel n "MultiVector._generic_product" [.mv x, .mv y, .cls cn] []
      = .ok (.mv (genericProductZ Γ.z (fun a b => c18ValR (wv a b)) x y)) := by
  rw [c18Tail_call Γ fuel "MultiVector._generic_product" 23 c18X_MultiVector__generic_product
    rfl rfl (by c18first) n hn]
  exact c18_generic_product Γ fuel _ q wv h1 hz0 horth cn hq hw (tail_crs Γ fuel 24 (by omega))
    (tail_init Γ fuel 24 (by omega)) x y hk

/-! ### scalars, casts, the product dunders -/

theorem tail_init_scalar (n : Nat) (hn : n ≤ 37) : C18HasInitScalar Γ (c18Tail Γ fuel n) := by
  intro c
  rw [c18Tail_call Γ fuel "MultiVector.__init__" 37 c18X_MultiVector___init__ rfl rfl
    (by c18first) n hn]
  exact c18_init_scalar Γ fuel _ c

theorem tail_cast (n : Nat) (hn : n ≤ 36) : C18HasCast Γ (c18Tail Γ fuel n) := by
  intro v y hv
  rw [c18Tail_call Γ fuel "_cast_or_ni" 36 c18X__cast_or_ni rfl rfl (by c18first) n hn]
  cases v <;> simp [c18CastOf] at hv
  · subst hv; exact c18_cast_scalar Γ fuel _ (tail_init_scalar Γ fuel 37 (by omega)) _
  · rename_i s d
    cases s <;> cases d <;> simp [c18CastOf] at hv
    subst hv; exact c18_cast_mv Γ fuel _ _

/-- the hypotheses under which the products are the model's: the ring law Python's int
arithmetic uses, a zero test that recognises the int `0`, a diagonal metric, room for the loops -/
structure C18Ok (Γ : C18Ctx R) (fuel : Nat) : Prop where
  one_mul : ∀ r : R, 1 * r = r
  z0 : Γ.z 0 = true
  orth : Γ.orth = true
  fuel2 : 2 ≤ fuel

theorem tail_gp_geometric (ok : C18Ok Γ fuel) (n : Nat) (hn : n ≤ 23) (x y : MVOf R)
    (hk : ∀ k ∈ dkeys x, k < fuel) :
    c18Tail Γ fuel n "MultiVector._generic_product" [.mv x, .mv y, .cls "_GeometricProduct"] []
      = .ok (.mv (genericProductZ Γ.z (wGeometric Γ.g) x y)) := by
  have e : (fun a b => c18ValR (wvGeometric Γ.g a b)) = wGeometric Γ.g := by
    funext a b; exact c18ValR_wGeometric Γ.g a b
  rw [← e]
  exact tail_gp Γ fuel ok.one_mul ok.z0 ok.orth _ _ _ (by rfl)
    (tail_wGeometric Γ fuel ok.fuel2 24 (by omega)) n hn x y hk

theorem tail_gp_outer (ok : C18Ok Γ fuel) (n : Nat) (hn : n ≤ 23) (x y : MVOf R)
    (hk : ∀ k ∈ dkeys x, k < fuel) :
    c18Tail Γ fuel n "MultiVector._generic_product" [.mv x, .mv y, .cls "_OuterProduct"] []
      = .ok (.mv (genericProductZ Γ.z (wOuter Γ.g) x y)) := by
  have e : (fun a b => c18ValR (wvOuter a b : C18Val R)) = wOuter Γ.g := by
    funext a b; exact c18ValR_wOuter Γ.g a b
  rw [← e]
  exact tail_gp Γ fuel ok.one_mul ok.z0 ok.orth _ _ _ (by rfl)
    (tail_wOuter Γ fuel 24 (by omega)) n hn x y hk

theorem tail_gp_inner (ok : C18Ok Γ fuel) (n : Nat) (hn : n ≤ 23) (x y : MVOf R)
    (hk : ∀ k ∈ dkeys x, k < fuel) :
    c18Tail Γ fuel n "MultiVector._generic_product" [.mv x, .mv y, .cls "_InnerProduct"] []
      = .ok (.mv (genericProductZ Γ.z (wInner Γ.g) x y)) := by
  have e : (fun a b => c18ValR (wvInner Γ.g a b)) = wInner Γ.g := by
    funext a b; exact c18ValR_wInner Γ.g a b
  rw [← e]
  exact tail_gp Γ fuel ok.one_mul ok.z0 ok.orth _ _ _ (by rfl)
    (tail_wInner Γ fuel ok.fuel2 24 (by omega)) n hn x y hk

theorem tail_gp_left (ok : C18Ok Γ fuel) (n : Nat) (hn : n ≤ 23) (x y : MVOf R)
    (hk : ∀ k ∈ dkeys x, k < fuel) :
    c18Tail Γ fuel n "MultiVector._generic_product" [.mv x, .mv y, .cls "_LeftContractionProduct"] []
      = .ok (.mv (genericProductZ Γ.z (wLeftContraction Γ.g) x y)) := by
  have e : (fun a b => c18ValR (wvLeft Γ.g a b)) = wLeftContraction Γ.g := by
    funext a b; exact c18ValR_wLeft Γ.g a b
  rw [← e]
  exact tail_gp Γ fuel ok.one_mul ok.z0 ok.orth _ _ _ (by rfl)
    (tail_wLeft Γ fuel ok.fuel2 24 (by omega)) n hn x y hk

theorem tail_gp_right (ok : C18Ok Γ fuel) (n : Nat) (hn : n ≤ 23) (x y : MVOf R)
    (hk : ∀ k ∈ dkeys x, k < fuel) :
    c18Tail Γ fuel n "MultiVector._generic_product" [.mv x, .mv y, .cls "_RightContractionProduct"] []
      = .ok (.mv (genericProductZ Γ.z (wRightContraction Γ.g) x y)) := by
  have e : (fun a b => c18ValR (wvRight Γ.g a b)) = wRightContraction Γ.g := by
    funext a b; exact c18ValR_wRight Γ.g a b
  rw [← e]
  exact tail_gp Γ fuel ok.one_mul ok.z0 ok.orth _ _ _ (by rfl)
    (tail_wRight Γ fuel ok.fuel2 24 (by omega)) n hn x y hk

theorem tail_gp_scalar (ok : C18Ok Γ fuel) (n : Nat) (hn : n ≤ 23) (x y : MVOf R)
    (hk : ∀ k ∈ dkeys x, k < fuel) :
    c18Tail Γ fuel n "MultiVector._generic_product" [.mv x, .mv y, .cls "_ScalarProduct"] []
      = .ok (.mv (genericProductZ Γ.z (wScalar Γ.g) x y)) := by
  have e : (fun a b => c18ValR (wvScalar Γ.g a b)) = wScalar Γ.g := by
    funext a b; exact c18ValR_wScalar Γ.g a b
  rw [← e]
  exact tail_gp Γ fuel ok.one_mul ok.z0 ok.orth _ _ _ (by rfl)
    (tail_wScalar Γ fuel ok.fuel2 24 (by omega)) n hn x y hk

/-- `x * v`, `x ^ v`, `x | v`, `x << v`, `x >> v` (the dunder methods) -/
theorem tail_mul (ok : C18Ok Γ fuel) (n : Nat) (hn : n ≤ 13) (x : MVOf R) (v : C18Val R)
    (y : MVOf R) (hv : c18CastOf Γ.z v = some y) (hk : ∀ k ∈ dkeys x, k < fuel) :
    c18Tail Γ fuel n "MultiVector.__mul__" [.mv x, v] []
      = .ok (.mv (genericProductZ Γ.z (wGeometric Γ.g) x y)) := by
  rw [c18Tail_call Γ fuel "MultiVector.__mul__" 13 c18X_MultiVector___mul__ rfl rfl
    (by c18first) n hn]
  rw [c18_dunder Γ fuel _ (tail_cast Γ fuel 14 (by omega)) _ "_GeometricProduct"
    (Or.inl ⟨rfl, rfl⟩) x v y hv]
  exact tail_gp_geometric Γ fuel ok 14 (by omega) x y hk

theorem tail_xor (ok : C18Ok Γ fuel) (n : Nat) (hn : n ≤ 15) (x : MVOf R) (v : C18Val R)
    (y : MVOf R) (hv : c18CastOf Γ.z v = some y) (hk : ∀ k ∈ dkeys x, k < fuel) :
    c18Tail Γ fuel n "MultiVector.__xor__" [.mv x, v] []
      = .ok (.mv (genericProductZ Γ.z (wOuter Γ.g) x y)) := by
  rw [c18Tail_call Γ fuel "MultiVector.__xor__" 15 c18X_MultiVector___xor__ rfl rfl
    (by c18first) n hn]
  rw [c18_dunder Γ fuel _ (tail_cast Γ fuel 16 (by omega)) _ "_OuterProduct"
    (Or.inr (Or.inl ⟨rfl, rfl⟩)) x v y hv]
  exact tail_gp_outer Γ fuel ok 16 (by omega) x y hk

theorem tail_or (ok : C18Ok Γ fuel) (n : Nat) (hn : n ≤ 17) (x : MVOf R) (v : C18Val R)
    (y : MVOf R) (hv : c18CastOf Γ.z v = some y) (hk : ∀ k ∈ dkeys x, k < fuel) :
    c18Tail Γ fuel n "MultiVector.__or__" [.mv x, v] []
      = .ok (.mv (genericProductZ Γ.z (wInner Γ.g) x y)) := by
  rw [c18Tail_call Γ fuel "MultiVector.__or__" 17 c18X_MultiVector___or__ rfl rfl
    (by c18first) n hn]
  rw [c18_dunder Γ fuel _ (tail_cast Γ fuel 18 (by omega)) _ "_InnerProduct"
    (Or.inr (Or.inr (Or.inl ⟨rfl, rfl⟩))) x v y hv]
  exact tail_gp_inner Γ fuel ok 18 (by omega) x y hk

theorem tail_lshift (ok : C18Ok Γ fuel) (n : Nat) (hn : n ≤ 19) (x : MVOf R) (v : C18Val R)
    (y : MVOf R) (hv : c18CastOf Γ.z v = some y) (hk : ∀ k ∈ dkeys x, k < fuel) :
    c18Tail Γ fuel n "MultiVector.__lshift__" [.mv x, v] []
      = .ok (.mv (genericProductZ Γ.z (wLeftContraction Γ.g) x y)) := by
  rw [c18Tail_call Γ fuel "MultiVector.__lshift__" 19 c18X_MultiVector___lshift__ rfl rfl
    (by c18first) n hn]
  rw [c18_dunder Γ fuel _ (tail_cast Γ fuel 20 (by omega)) _ "_LeftContractionProduct"
    (Or.inr (Or.inr (Or.inr (Or.inl ⟨rfl, rfl⟩)))) x v y hv]
  exact tail_gp_left Γ fuel ok 20 (by omega) x y hk

theorem tail_rshift (ok : C18Ok Γ fuel) (n : Nat) (hn : n ≤ 21) (x : MVOf R) (v : C18Val R)
    (y : MVOf R) (hv : c18CastOf Γ.z v = some y) (hk : ∀ k ∈ dkeys x, k < fuel) :
    c18Tail Γ fuel n "MultiVector.__rshift__" [.mv x, v] []
      = .ok (.mv (genericProductZ Γ.z (wRightContraction Γ.g) x y)) := by
  rw [c18Tail_call Γ fuel "MultiVector.__rshift__" 21 c18X_MultiVector___rshift__ rfl rfl
    (by c18first) n hn]
  rw [c18_dunder Γ fuel _ (tail_cast Γ fuel 22 (by omega)) _ "_RightContractionProduct"
    (Or.inr (Or.inr (Or.inr (Or.inr ⟨rfl, rfl⟩)))) x v y hv]
  exact tail_gp_right Γ fuel ok 22 (by omega) x y hk

/-! ### `as_scalar`, `scalar_product`, `norm_squared`, `inv` and the small ones -/

/-- a scalar result as a value: Python's int `0` for the empty product, a coefficient otherwise;
`none` (no scalar) is `ValueError` -/
def c18ScalarRes (p : MVOf R) : C18Res (C18Val R) :=
  match asScalarVal p (.nat 0) with
  | none => .raise "ValueError"
  | some v => .ok v

theorem tail_as_scalar (n : Nat) (hn : n ≤ 33) (p : MVOf R) :
    c18Tail Γ fuel n "MultiVector.as_scalar" [.mv p] [] = c18ScalarRes p := by
  rw [c18Tail_call Γ fuel "MultiVector.as_scalar" 33 c18X_MultiVector_as_scalar rfl rfl
    (by c18first) n hn]
  exact c18_as_scalar Γ fuel _ p

theorem tail_scalar_product (ok : C18Ok Γ fuel) (n : Nat) (hn : n ≤ 7) (x : MVOf R)
    (v : C18Val R) (y : MVOf R) (hv : c18CastOf Γ.z v = some y) (hk : ∀ k ∈ dkeys x, k < fuel) :
    c18Tail Γ fuel n "MultiVector.scalar_product" [.mv x, v] []
      = c18ScalarRes (genericProductZ Γ.z (wScalar Γ.g) x y) := by
  rw [c18Tail_call Γ fuel "MultiVector.scalar_product" 7 c18X_MultiVector_scalar_product rfl rfl
    (by c18first) n hn]
  rw [c18_scalar_product Γ fuel _ (tail_cast Γ fuel 8 (by omega)) x v y _ hv
    (tail_gp_scalar Γ fuel ok 8 (by omega) x y hk)]
  exact tail_as_scalar Γ fuel 8 (by omega) _

theorem dkeys_rev (a : MVOf R) : dkeys (rev a) = dkeys a := by
  simp only [dkeys, rev, List.map_map]
  apply List.map_congr_left
  intro p _
  obtain ⟨k, c⟩ := p
  simp only [Function.comp]
  by_cases h : bitCount k * (bitCount k - 1) / 2 % 2 = 0 <;> simp [h]

theorem tail_norm_squared (ok : C18Ok Γ fuel) (n : Nat) (hn : n ≤ 6) (a : MVOf R)
    (ha : C18Dict fuel a) :
    c18Tail Γ fuel n "MultiVector.norm_squared" [.mv a] []
      = c18ScalarRes (genericProductZ Γ.z (wScalar Γ.g) (rev a) a) := by
  rw [c18Tail_call Γ fuel "MultiVector.norm_squared" 6 c18X_MultiVector_norm_squared rfl rfl
    (by c18first) n hn]
  rw [c18_norm_squared Γ fuel _ a (tail_rev Γ fuel 7 (by omega) a ha)]
  exact tail_scalar_product Γ fuel ok 7 (by omega) (rev a) (.mv a) a rfl
    (by rw [dkeys_rev]; exact ha.2)

theorem tail_I (n : Nat) (hn : n ≤ 26) (a : MVOf R) :
    c18Tail Γ fuel n "MultiVector.I" [.mv a] [] = .ok (.mv (pseudoscalar Γ.dims)) := by
  rw [c18Tail_call Γ fuel "MultiVector.I" 26 c18X_MultiVector_I rfl rfl (by c18first) n hn]
  exact c18_I Γ fuel _ (tail_init Γ fuel 27 (by omega)) a

theorem tail_get_pure_grade (n : Nat) (hn : n ≤ 32) (a : MVOf R) (hk : ∀ k ∈ dkeys a, k < fuel) :
    c18Tail Γ fuel n "MultiVector.get_pure_grade" [.mv a] []
      = .ok (pgResVal (getPureGrade a)) := by
  rw [c18Tail_call Γ fuel "MultiVector.get_pure_grade" 32 c18X_MultiVector_get_pure_grade rfl rfl
    (by c18first) n hn]
  exact c18_get_pure_grade Γ fuel _ (tail_bit_count Γ fuel 33 (by omega)) a hk

theorem tail_bool (n : Nat) (hn : n ≤ 30) (a : MVOf R) :
    c18Tail Γ fuel n "MultiVector.__bool__" [.mv a] [] = .ok (.bool (mvBool a)) := by
  rw [c18Tail_call Γ fuel "MultiVector.__bool__" 30 c18X_MultiVector___bool__ rfl rfl
    (by c18first) n hn]
  exact c18_bool Γ fuel _ a

theorem tail_hash (n : Nat) (hn : n ≤ 27) (a : MVOf R) :
    c18Tail Γ fuel n "MultiVector.__hash__" [.mv a] []
      = .ok (.hash (a.foldl (fun r (p : Nat × R) => r ^^^ (Γ.hb p.1 ^^^ Γ.hc p.2)) Γ.hspace)) := by
  rw [c18Tail_call Γ fuel "MultiVector.__hash__" 27 c18X_MultiVector___hash__ rfl rfl
    (by c18first) n hn]
  exact c18_hash Γ fuel _ a

theorem tail_eq (n : Nat) (hn : n ≤ 29) (x : MVOf R) (v : C18Val R) (y : MVOf R)
    (hv : c18CastOf Γ.z v = some y) :
    c18Tail Γ fuel n "MultiVector.__eq__" [.mv x, v] []
      = .ok (.bool (x.length == y.length && x.all fun (p : Nat × R) =>
          match dictGet y p.1 with | some w => Γ.ceq p.2 w | none => false)) := by
  rw [c18Tail_call Γ fuel "MultiVector.__eq__" 29 c18X_MultiVector___eq__ rfl rfl
    (by c18first) n hn]
  exact c18_eq Γ fuel _ (tail_cast Γ fuel 30 (by omega)) x v y hv

theorem tail_neg (n : Nat) (hn : n ≤ 12) (a : MVOf R) (hnd : (dkeys a).Nodup) :
    c18Tail Γ fuel n "MultiVector.__neg__" [.mv a] [] = .ok (.mv (mvNeg a)) := by
  rw [c18Tail_call Γ fuel "MultiVector.__neg__" 12 c18X_MultiVector___neg__ rfl rfl
    (by c18first) n hn]
  exact c18_neg Γ fuel _ (tail_init Γ fuel 13 (by omega)) a hnd

/-- the exceptions of `InvResult` as Python exceptions, the inverse divided with `Γ.div` -/
def c18InvOf (Γ : C18Ctx R) : InvResult R → C18Res (C18Val R)
  | .zeroDivision => .raise "ZeroDivisionError"
  | .notImplemented => .raise "NotImplementedError"
  | .valueError => .raise "ValueError"
  | .ok numer denom => .ok (.mv (numer.map fun (p : Nat × R) => (p.1, Γ.div p.2 denom)))

theorem invRes_eq_invZ (a : MVOf R) (n : R) (h : normSquaredZ Γ.z Γ.g a = some n) :
    invRes Γ a n = c18InvOf Γ (invZ Γ.z Γ.g Γ.dims a) := by
  unfold invZ
  rw [h]
  match a with
  | [] => rfl
  | [(k, c)] =>
    simp only [invRes]
    cases hz : Γ.z n <;> simp [c18InvOf]
  | p :: q :: rest =>
    simp only [invRes]
    cases hp : getPureGrade (p :: q :: rest) with
    | none => rfl
    | some gr =>
      by_cases hgr : gr = 0 ∨ gr = 1 ∨ gr = Γ.dims
      · cases hz : Γ.z n <;> simp [hgr, hz, c18InvOf]
      · simp [hgr, c18InvOf]

/-- **`inv` from any tail**: the model's `invZ`, exceptions as Python exceptions -/
theorem tail_inv (ok : C18Ok Γ fuel) (n : Nat) (hn : n ≤ 5) (a : MVOf R) (ha : C18Dict fuel a) :
    c18Tail Γ fuel n "MultiVector.inv" [.mv a] [] = c18InvOf Γ (invZ Γ.z Γ.g Γ.dims a) := by
  rw [c18Tail_call Γ fuel "MultiVector.inv" 5 c18X_MultiVector_inv rfl rfl (by c18first) n hn]
  have hns := tail_norm_squared Γ fuel ok 6 (by omega) a ha
  have hmodel := asScalarVal_model (genericProductZ Γ.z (wScalar Γ.g) (rev a) a)
  have hnsz : normSquaredZ Γ.z Γ.g a = asScalar (genericProductZ Γ.z (wScalar Γ.g) (rev a) a) := rfl
  unfold c18ScalarRes at hns
  cases hv : asScalarVal (genericProductZ Γ.z (wScalar Γ.g) (rev a) a) (.nat 0 : C18Val R) with
  | none =>
    rw [hv] at hns hmodel
    have hnone : normSquaredZ Γ.z Γ.g a = none := by rw [hnsz, ← hmodel]; rfl
    unfold invZ
    rw [hnone]
    simp only [c18RunFn, c18X_MultiVector_inv, c18BindArgs, List.nil_append, List.cons_append,
      List.map_cons, List.map_nil]
    c18sym [hns]
    rfl
  | some nv =>
    rw [hv] at hns hmodel
    have hsome : normSquaredZ Γ.z Γ.g a = some (c18ValR nv) := by rw [hnsz, ← hmodel]; rfl
    rw [← invRes_eq_invZ Γ a _ hsome]
    have hkind : nv = .coef (c18ValR nv) ∨ (nv = .nat 0 ∧ c18ValR nv = 0) := by
      have : ∀ (p : MVOf R) (rv : C18Val R), (rv = .nat 0 ∨ ∃ r, rv = .coef r) →
          ∀ v, asScalarVal p rv = some v → (v = .nat 0 ∨ ∃ r, v = .coef r) := by
        intro p
        induction p with
        | nil => intro rv h v hv; simp [asScalarVal] at hv; subst hv; exact h
        | cons q p ih =>
          intro rv h v hv
          obtain ⟨k, x⟩ := q
          by_cases hk : k = 0
          · simp [asScalarVal, hk] at hv; exact ih _ (Or.inr ⟨x, rfl⟩) v hv
          · simp [asScalarVal, hk] at hv
      rcases this _ _ (Or.inl rfl) nv hv with rfl | ⟨r, rfl⟩
      · right; exact ⟨rfl, rfl⟩
      · left; rfl
    exact c18_inv Γ fuel _ ok.z0 (tail_bit_count Γ fuel 6 (by omega))
      (tail_init Γ fuel 6 (by omega)) a ha.1 ha.2 nv (c18ValR nv) hkind hns
      (tail_get_pure_grade Γ fuel 6 (by omega) a ha.2)

/-- **`dual` from any tail** is the model's `dualZ` -/
theorem tail_dual (ok : C18Ok Γ fuel) (n : Nat) (hn : n ≤ 4) (a : MVOf R)
    (ha : C18Dict fuel a) (hdims : 2 ^ Γ.dims ≤ fuel) :
    c18Tail Γ fuel n "MultiVector.dual" [.mv a] [] = .ok (.mv (dualZ Γ.z Γ.g Γ.dims a)) := by
  rw [c18Tail_call Γ fuel "MultiVector.dual" 4 c18X_MultiVector_dual rfl rfl (by c18first) n hn]
  have hI : C18Dict fuel (pseudoscalar Γ.dims : MVOf R) := by
    constructor
    · simp [dkeys, pseudoscalar]
    · intro k hk
      simp only [dkeys, pseudoscalar, List.map_cons, List.map_nil, List.mem_singleton] at hk
      have : 1 ≤ 2 ^ Γ.dims := Nat.one_le_two_pow
      omega
  exact c18_dual Γ fuel _ a _ _ _ (tail_I Γ fuel 5 (by omega) a)
    (tail_rev Γ fuel 5 (by omega) _ hI)
    (tail_or Γ fuel ok 5 (by omega) a (.mv (rev (pseudoscalar Γ.dims))) _ rfl ha.2)

/-! ### `__add__`, `__sub__`, `__truediv__` -/

theorem tail_add (n : Nat) (hn : n ≤ 11) (x y : MVOf R) (hx : (dkeys x).Nodup)
    (hy : (dkeys y).Nodup) :
    c18Tail Γ fuel n "MultiVector.__add__" [.mv x, .mv y] [] = .ok (.mv (mvAddZ Γ.z x y)) := by
  rw [c18Tail_call Γ fuel "MultiVector.__add__" 11 c18X_MultiVector___add__ rfl rfl
    (by c18first) n hn]
  exact c18_add Γ fuel _ (tail_cast Γ fuel 12 (by omega)) (tail_init Γ fuel 12 (by omega)) x y hx hy

theorem dkeys_mvNeg (a : MVOf R) : dkeys (mvNeg a) = dkeys a := by
  simp only [dkeys, mvNeg, List.map_map]
  apply List.map_congr_left
  intro p _
  rfl

theorem tail_sub (n : Nat) (hn : n ≤ 9) (x y : MVOf R) (hx : (dkeys x).Nodup)
    (hy : (dkeys y).Nodup) :
    c18Tail Γ fuel n "MultiVector.__sub__" [.mv x, .mv y] [] = .ok (.mv (mvSubZ Γ.z x y)) := by
  rw [c18Tail_call Γ fuel "MultiVector.__sub__" 9 c18X_MultiVector___sub__ rfl rfl
    (by c18first) n hn]
  exact c18_sub Γ fuel _ x y _ _ (tail_neg Γ fuel 10 (by omega) y hy)
    (tail_add Γ fuel 10 (by omega) x (mvNeg y) hx (by rw [dkeys_mvNeg]; exact hy))

/-- what `self / other` returns, given the model's answer for `other.inv()` -/
def c18TrueDivOf (Γ : C18Ctx R) (x : MVOf R) : InvResult R → C18Res (C18Val R)
  | .ok numer denom =>
    .ok (.mv (genericProductZ Γ.z (wGeometric Γ.g) x
      (numer.map fun (p : Nat × R) => (p.1, Γ.div p.2 denom))))
  | e => c18InvOf Γ e

theorem tail_truediv (ok : C18Ok Γ fuel) (n : Nat) (hn : n ≤ 1) (x y : MVOf R)
    (hx : ∀ k ∈ dkeys x, k < fuel) (hy : C18Dict fuel y) :
    c18Tail Γ fuel n "MultiVector.__truediv__" [.mv x, .mv y] []
      = c18TrueDivOf Γ x (invZ Γ.z Γ.g Γ.dims y) := by
  rw [c18Tail_call Γ fuel "MultiVector.__truediv__" 1 c18X_MultiVector___truediv__ rfl rfl
    (by c18first) n hn]
  have hdiv := c18_truediv Γ fuel (c18Tail Γ fuel 2) (tail_cast Γ fuel 2 (by omega)) x (.mv y) y rfl
  have hinv := tail_inv Γ fuel ok 2 (by omega) y hy
  cases hr : invZ Γ.z Γ.g Γ.dims y with
  | ok numer denom =>
    rw [hr] at hinv
    exact hdiv.1 _ _ hinv (tail_mul Γ fuel ok 2 (by omega) x (.mv _) _ rfl hx)
  | zeroDivision => rw [hr] at hinv; exact hdiv.2 _ hinv
  | notImplemented => rw [hr] at hinv; exact hdiv.2 _ hinv
  | valueError => rw [hr] at hinv; exact hdiv.2 _ hinv

end Specs

end
end PV.GA.C18T
