import PV.Model.Traverse
import PV.Proofs.Subterm
/-
  C04 — an independent specification of the `WalkMapper` event trace (`walkSpec`: generic pre/post
  order over `walkChildren`) and its link to the coded traversal `walk`.
-/
namespace PV

/-! ### sizes (termination measure of the generic specifications) -/

theorem Expr.size_pos (e : Expr) : 0 < e.size := by
  cases e <;> simp only [Expr.size] <;> omega

theorem Expr.size_le_sizeL {c : Expr} : ∀ {cs : List Expr}, c ∈ cs → c.size ≤ Expr.sizeL cs
  | [], h => by simp at h
  | d :: ds, h => by
    simp only [List.mem_cons] at h
    simp only [Expr.sizeL]
    rcases h with rfl | h
    · omega
    · have := Expr.size_le_sizeL h; omega

theorem Expr.sizeL_append : ∀ (as bs : List Expr),
    Expr.sizeL (as ++ bs) = Expr.sizeL as + Expr.sizeL bs
  | [], bs => by simp [Expr.sizeL]
  | a :: as, bs => by simp [Expr.sizeL, Expr.sizeL_append as bs]; omega

theorem Expr.size_lt_of_mem_children {c e : Expr} (h : c ∈ e.children) : c.size < e.size := by
  cases e <;> simp only [Expr.children, List.mem_cons, List.not_mem_nil, or_false] at h <;>
    simp only [Expr.size]
  case nary o cs => have := Expr.size_le_sizeL h; omega
  case slice cs => have := Expr.size_le_sizeL h; omega
  case tuple cs => have := Expr.size_le_sizeL h; omega
  case list cs => have := Expr.size_le_sizeL h; omega
  case bin o a b => rcases h with rfl | rfl <;> omega
  case cmp o a b => rcases h with rfl | rfl <;> omega
  case subscript a b => rcases h with rfl | rfl <;> omega
  case un o a => subst h; omega
  case lookup a n => subst h; omega
  case cse a p s => subst h; omega
  case deriv a vs => subst h; omega
  case ite a b d => rcases h with rfl | rfl | rfl <;> omega
  case call f as =>
    rcases h with rfl | h
    · omega
    · have := Expr.size_le_sizeL h; omega
  case subst f vs as =>
    rcases h with rfl | h
    · omega
    · have := Expr.size_le_sizeL h; omega
  case callKw f as ns vs =>
    rcases h with rfl | h
    · omega
    · have := Expr.size_le_sizeL h
      rw [Expr.sizeL_append] at this; omega

/-! ### the specification -/

/-- node classes whose `WalkMapper` handler has no children to descend into -/
def Expr.isLeafNode : Expr → Bool
  | .const _ | .var _ | .wildcard | .dotWild _ | .starWild _ | .funcSym | .nan => true
  | _ => false

/-- the Python object `None` -/
def Expr.isNoneConst : Expr → Bool
  | .const .none => true
  | _ => false

/-- a string or `None` constant: not an expression, not a number — `map_foreign` rejects it -/
def Expr.isRejectedConst : Expr → Bool
  | .const (.str _) | .const .none => true
  | _ => false

def BinOp.isShift : BinOp → Bool
  | .lshift | .rshift => true
  | _ => false

/-- The children a `WalkMapper` descends into, in the order it does: the expression-valued
dataclass fields in field order, except that a shift visits the shift count before the shiftee and
a slice skips its `None` parts. -/
def walkChildren : Expr → List Expr
  | .bin o a b => if o.isShift then [b, a] else [a, b]
  | .slice cs => cs.filter (fun c => !c.isNoneConst)
  | e => e.children

theorem mem_children_of_mem_walkChildren {c e : Expr} (h : c ∈ walkChildren e) :
    c ∈ e.children := by
  cases e <;> simp only [walkChildren] at h
  all_goals try exact h
  case bin o a b =>
    simp only [Expr.children]
    split at h <;> simp only [List.mem_cons, List.not_mem_nil, or_false] at h ⊢
    · exact h.symm
    · exact h
  case slice cs => exact (List.mem_filter.1 h).1

theorem walkChildren_size_lt {c e : Expr} (h : c ∈ walkChildren e) : c.size < e.size :=
  Expr.size_lt_of_mem_children (mem_children_of_mem_walkChildren h)

/-- **Specification of the walk trace.**  `visit` of the node; then — unless `visit` returned
`False` (the node's kind is in `skip`; leaf handlers have nothing to skip) — the traces of all
children, each once, in traversal order; then `post_visit` of the node.  Every event carries
`args`. -/
def walkSpec (skip : List String) (args : Bool) (e : Expr) : List Event :=
  if e.isLeafNode then [⟨false, e, args⟩, ⟨true, e, args⟩]
  else if skip.contains e.kind then [⟨false, e, args⟩]
  else ⟨false, e, args⟩ ::
    ((walkChildren e).attach.flatMap (fun ⟨c, _⟩ => walkSpec skip args c) ++ [⟨true, e, args⟩])
termination_by e.size
decreasing_by exact walkChildren_size_lt ‹_›

theorem walkSpec_leaf (skip : List String) (args : Bool) {e : Expr} (h : e.isLeafNode = true) :
    walkSpec skip args e = [⟨false, e, args⟩, ⟨true, e, args⟩] := by
  rw [walkSpec, if_pos h]

theorem walkSpec_node (skip : List String) (args : Bool) {e : Expr} (h : e.isLeafNode = false) :
    walkSpec skip args e =
      if skip.contains e.kind then [⟨false, e, args⟩]
      else ⟨false, e, args⟩ ::
        ((walkChildren e).flatMap (walkSpec skip args) ++ [⟨true, e, args⟩]) := by
  rw [walkSpec, if_neg (by simp [h])]
  simp [List.flatMap_subtype, List.unattach_attach]

/-! ### the coded walk equals the specification -/

mutual
/-- decidable side condition: the walk reaches no string / `None` constant (other than the `None`
parts of a slice); children of a node whose `visit` returns `False` are not reached -/
def walkOK (skip : List String) : Expr → Bool
  | .const (.str _) => false
  | .const .none => false
  | .const _ => true
  | .var _ => true
  | .wildcard => true
  | .dotWild _ => true
  | .starWild _ => true
  | .funcSym => true
  | .nan => true
  | .nary o cs => skip.contains (Expr.kind (.nary o cs)) || walkOKL skip cs
  | .bin o a b => skip.contains (Expr.kind (.bin o a b)) || (walkOK skip a && walkOK skip b)
  | .un o a => skip.contains (Expr.kind (.un o a)) || walkOK skip a
  | .cmp o a b => skip.contains (Expr.kind (.cmp o a b)) || (walkOK skip a && walkOK skip b)
  | .ite c t e => skip.contains (Expr.kind (.ite c t e)) ||
      (walkOK skip c && walkOK skip t && walkOK skip e)
  | .call f as => skip.contains (Expr.kind (.call f as)) || (walkOK skip f && walkOKL skip as)
  | .callKw f as ns vs => skip.contains (Expr.kind (.callKw f as ns vs)) ||
      (walkOK skip f && walkOKL skip as && walkOKL skip vs)
  | .subscript a i => skip.contains (Expr.kind (.subscript a i)) || (walkOK skip a && walkOK skip i)
  | .lookup a n => skip.contains (Expr.kind (.lookup a n)) || walkOK skip a
  | .cse c p s => skip.contains (Expr.kind (.cse c p s)) || walkOK skip c
  | .subst c vs xs => skip.contains (Expr.kind (.subst c vs xs)) || (walkOK skip c && walkOKL skip xs)
  | .deriv c vs => skip.contains (Expr.kind (.deriv c vs)) || walkOK skip c
  | .slice cs => skip.contains (Expr.kind (.slice cs)) || walkOKS skip cs
  | .tuple cs => skip.contains (Expr.kind (.tuple cs)) || walkOKL skip cs
  | .list cs => skip.contains (Expr.kind (.list cs)) || walkOKL skip cs
def walkOKL (skip : List String) : List Expr → Bool
  | [] => true
  | c :: cs => walkOK skip c && walkOKL skip cs
/-- the parts of a slice: `None` parts are allowed -/
def walkOKS (skip : List String) : List Expr → Bool
  | [] => true
  | c :: cs => (c.isNoneConst || walkOK skip c) && walkOKS skip cs
end

/-- result of a traversal that can only fail on a foreign object -/
def okIf {α : Type} (b : Bool) (x : α) : Except DepErr α := if b then .ok x else .error .foreign

theorem walkOpt_eq (skip : List String) (args : Bool) (c : Expr) :
    walkOpt skip args c = if c.isNoneConst then pure [] else walk skip args c := by
  unfold walkOpt
  split <;> simp_all [Expr.isNoneConst]

theorem okIf_bind {α β : Type} (b : Bool) (x : α) (f : α → Except DepErr β) :
    (okIf b x >>= f) = if b then f x else .error .foreign := by
  cases b <;> rfl

mutual
theorem walk_total (skip : List String) (args : Bool) : ∀ e : Expr,
    walk skip args e = okIf (walkOK skip e) (walkSpec skip args e)
  | .const (.str _) => by simp [walk, walkOK, okIf]; rfl
  | .const .none => by simp [walk, walkOK, okIf]; rfl
  | .const (.int n) => by
      rw [walkSpec_leaf skip args (e := .const (.int n)) rfl]; simp [walk, walkOK, okIf, leafWalk]; rfl
  | .const (.bool n) => by
      rw [walkSpec_leaf skip args (e := .const (.bool n)) rfl]; simp [walk, walkOK, okIf, leafWalk]; rfl
  | .const (.flt a b c) => by
      rw [walkSpec_leaf skip args (e := .const (.flt a b c)) rfl]; simp [walk, walkOK, okIf, leafWalk]; rfl
  | .var n => by
      rw [walkSpec_leaf skip args (e := .var n) rfl]; simp [walk, walkOK, okIf, leafWalk]; rfl
  | .wildcard => by
      rw [walkSpec_leaf skip args (e := .wildcard) rfl]; simp [walk, walkOK, okIf, leafWalk]; rfl
  | .dotWild n => by
      rw [walkSpec_leaf skip args (e := .dotWild n) rfl]; simp [walk, walkOK, okIf, leafWalk]; rfl
  | .starWild n => by
      rw [walkSpec_leaf skip args (e := .starWild n) rfl]; simp [walk, walkOK, okIf, leafWalk]; rfl
  | .funcSym => by
      rw [walkSpec_leaf skip args (e := .funcSym) rfl]; simp [walk, walkOK, okIf, leafWalk]; rfl
  | .nan => by
      rw [walkSpec_leaf skip args (e := .nan) rfl]; simp [walk, walkOK, okIf, leafWalk]; rfl
  | .un o a => by
      have ha := walk_total skip args a
      rw [walkSpec_node skip args (e := .un o a) rfl]
      simp only [walk, wrapWalk, walkOK, ha, walkChildren, Expr.children]
      cases skip.contains (Expr.kind (.un o a)) <;> cases walkOK skip a <;> simp [okIf, bind, Except.bind, pure, Except.pure]
  | .nary o cs => by
      have hcs := walkL_total skip args cs
      rw [walkSpec_node skip args (e := .nary o cs) rfl]
      simp only [walk, wrapWalk, walkOK, hcs, walkChildren, Expr.children]
      cases skip.contains (Expr.kind (.nary o cs)) <;> cases walkOKL skip cs <;>
        simp [okIf, bind, Except.bind, pure, Except.pure]
  | .cmp o a b => by
      have ha := walk_total skip args a
      have hb := walk_total skip args b
      rw [walkSpec_node skip args (e := .cmp o a b) rfl]
      simp only [walk, wrapWalk, walkOK, ha, hb, walkChildren, Expr.children]
      cases skip.contains (Expr.kind (.cmp o a b)) <;> cases walkOK skip a <;> cases walkOK skip b <;>
        simp [okIf, bind, Except.bind, pure, Except.pure]
  | .ite c t e => by
      have hc := walk_total skip args c
      have ht := walk_total skip args t
      have he := walk_total skip args e
      rw [walkSpec_node skip args (e := .ite c t e) rfl]
      simp only [walk, wrapWalk, walkOK, hc, ht, he, walkChildren, Expr.children]
      cases skip.contains (Expr.kind (.ite c t e)) <;> cases walkOK skip c <;> cases walkOK skip t <;> cases walkOK skip e <;>
        simp [okIf, bind, Except.bind, pure, Except.pure]
  | .call f as => by
      have hf := walk_total skip args f
      have has := walkL_total skip args as
      rw [walkSpec_node skip args (e := .call f as) rfl]
      simp only [walk, wrapWalk, walkOK, hf, has, walkChildren, Expr.children]
      cases skip.contains (Expr.kind (.call f as)) <;> cases walkOK skip f <;> cases walkOKL skip as <;>
        simp [okIf, bind, Except.bind, pure, Except.pure]
  | .callKw f as ns vs => by
      have hf := walk_total skip args f
      have has := walkL_total skip args as
      have hvs := walkL_total skip args vs
      rw [walkSpec_node skip args (e := .callKw f as ns vs) rfl]
      simp only [walk, wrapWalk, walkOK, hf, has, hvs, walkChildren, Expr.children]
      cases skip.contains (Expr.kind (.callKw f as ns vs)) <;> cases walkOK skip f <;> cases walkOKL skip as <;> cases walkOKL skip vs <;>
        simp [okIf, bind, Except.bind, pure, Except.pure]
  | .subscript a i => by
      have ha := walk_total skip args a
      have hi := walk_total skip args i
      rw [walkSpec_node skip args (e := .subscript a i) rfl]
      simp only [walk, wrapWalk, walkOK, ha, hi, walkChildren, Expr.children]
      cases skip.contains (Expr.kind (.subscript a i)) <;> cases walkOK skip a <;> cases walkOK skip i <;>
        simp [okIf, bind, Except.bind, pure, Except.pure]
  | .lookup a n => by
      have ha := walk_total skip args a
      rw [walkSpec_node skip args (e := .lookup a n) rfl]
      simp only [walk, wrapWalk, walkOK, ha, walkChildren, Expr.children]
      cases skip.contains (Expr.kind (.lookup a n)) <;> cases walkOK skip a <;>
        simp [okIf, bind, Except.bind, pure, Except.pure]
  | .cse c p s => by
      have hc := walk_total skip args c
      rw [walkSpec_node skip args (e := .cse c p s) rfl]
      simp only [walk, wrapWalk, walkOK, hc, walkChildren, Expr.children]
      cases skip.contains (Expr.kind (.cse c p s)) <;> cases walkOK skip c <;>
        simp [okIf, bind, Except.bind, pure, Except.pure]
  | .deriv c vs => by
      have hc := walk_total skip args c
      rw [walkSpec_node skip args (e := .deriv c vs) rfl]
      simp only [walk, wrapWalk, walkOK, hc, walkChildren, Expr.children]
      cases skip.contains (Expr.kind (.deriv c vs)) <;> cases walkOK skip c <;>
        simp [okIf, bind, Except.bind, pure, Except.pure]
  | .subst c vs xs => by
      have hc := walk_total skip args c
      have hxs := walkL_total skip args xs
      rw [walkSpec_node skip args (e := .subst c vs xs) rfl]
      simp only [walk, wrapWalk, walkOK, hc, hxs, walkChildren, Expr.children]
      cases skip.contains (Expr.kind (.subst c vs xs)) <;> cases walkOK skip c <;> cases walkOKL skip xs <;>
        simp [okIf, bind, Except.bind, pure, Except.pure]
  | .tuple cs => by
      have hcs := walkL_total skip args cs
      rw [walkSpec_node skip args (e := .tuple cs) rfl]
      simp only [walk, wrapWalk, walkOK, hcs, walkChildren, Expr.children]
      cases skip.contains (Expr.kind (.tuple cs)) <;> cases walkOKL skip cs <;>
        simp [okIf, bind, Except.bind, pure, Except.pure]
  | .list cs => by
      have hcs := walkL_total skip args cs
      rw [walkSpec_node skip args (e := .list cs) rfl]
      simp only [walk, wrapWalk, walkOK, hcs, walkChildren, Expr.children]
      cases skip.contains (Expr.kind (.list cs)) <;> cases walkOKL skip cs <;>
        simp [okIf, bind, Except.bind, pure, Except.pure]
  | .slice cs => by
      have hcs := walkSlice_total skip args cs
      rw [walkSpec_node skip args (e := .slice cs) rfl]
      simp only [walk, wrapWalk, walkOK, hcs, walkChildren]
      cases skip.contains (Expr.kind (.slice cs)) <;> cases walkOKS skip cs <;>
        simp [okIf, bind, Except.bind, pure, Except.pure]
  | .bin o a b => by
      have ha := walk_total skip args a
      have hb := walk_total skip args b
      rw [walkSpec_node skip args (e := .bin o a b) rfl]
      cases hk : skip.contains (Expr.kind (.bin o a b)) <;> cases hoa : walkOK skip a <;>
        cases hob : walkOK skip b <;> cases o <;>
        simp only [walk, wrapWalk, walkOK, ha, hb, walkChildren, BinOp.isShift, hk, hoa, hob] <;>
        simp [okIf, bind, Except.bind, pure, Except.pure]
theorem walkL_total (skip : List String) (args : Bool) : ∀ cs : List Expr,
    walkL skip args cs = okIf (walkOKL skip cs) (cs.flatMap (walkSpec skip args))
  | [] => by simp [walkL, walkOKL, okIf]; rfl
  | c :: cs => by
      simp only [walkL, walk_total skip args c, walkL_total skip args cs, walkOKL, okIf_bind,
        List.flatMap_cons]
      cases walkOK skip c <;> cases walkOKL skip cs <;> rfl
theorem walkSlice_total (skip : List String) (args : Bool) : ∀ cs : List Expr,
    walkSlice skip args cs = okIf (walkOKS skip cs)
      ((cs.filter (fun c => !c.isNoneConst)).flatMap (walkSpec skip args))
  | [] => by simp [walkSlice, walkOKS, okIf]; rfl
  | c :: cs => by
      simp only [walkSlice, walkOpt_eq, walk_total skip args c, walkSlice_total skip args cs,
        walkOKS, List.filter_cons]
      cases c.isNoneConst <;> cases walkOK skip c <;> cases walkOKS skip cs <;> rfl
end

/-! ### the side condition, generically -/

theorem walkOKL_eq (skip : List String) : ∀ cs : List Expr, walkOKL skip cs = cs.all (walkOK skip)
  | [] => by simp [walkOKL]
  | c :: cs => by simp [walkOKL, walkOKL_eq skip cs]

theorem walkOKS_eq (skip : List String) : ∀ cs : List Expr,
    walkOKS skip cs = (cs.filter (fun c => !c.isNoneConst)).all (walkOK skip)
  | [] => by simp [walkOKS]
  | c :: cs => by
      simp only [walkOKS, walkOKS_eq skip cs, List.filter_cons]
      cases c.isNoneConst <;> simp

/-- `walkOK` says: the node itself is not a string / `None`, and unless its children are skipped
every child the walk descends into is fine. -/
theorem walkOK_eq (skip : List String) (e : Expr) :
    walkOK skip e = (!e.isRejectedConst &&
      ((!e.isLeafNode && skip.contains e.kind) || (walkChildren e).all (walkOK skip))) := by
  cases e with
  | const c => cases c <;> simp [walkOK, Expr.isRejectedConst, Expr.isLeafNode, walkChildren, Expr.children]
  | bin o a b =>
    cases o <;> simp [walkOK, Expr.isRejectedConst, Expr.isLeafNode, walkChildren, BinOp.isShift,
      Bool.and_comm]
  | _ => simp [walkOK, Expr.isRejectedConst, Expr.isLeafNode, walkChildren, Expr.children,
      walkOKL_eq, walkOKS_eq, Bool.and_assoc]

/-- induction over the walk's child relation -/
theorem walkChildren_induct {P : Expr → Prop}
    (step : ∀ e, (∀ c ∈ walkChildren e, P c) → P e) (e : Expr) : P e := by
  have : ∀ n (e : Expr), e.size = n → P e := by
    intro n
    induction n using Nat.strongRecOn with
    | _ n ih =>
      intro e he
      exact step e (fun c hc => ih c.size (he ▸ walkChildren_size_lt hc) c rfl)
  exact this _ e rfl
end PV
