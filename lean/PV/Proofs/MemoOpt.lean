import PV.Model.Memo
/-
  Helper lemmas for C05: the cache keys computed by a mapper class after `optimize_mapper`.
-/
namespace PV.Memo
open PV

/-- the class's own key tuple for a dispatch (`Code.user ka kk`) -/
def userKey (ka kk : Bool) (k : Key) : List KVal :=
  [.ty k.expr.typeTag, .expr k.expr] ++ (if ka then [.args k.args.args] else []) ++
    (if kk then [.kwargs k.args.kwargs] else [])

/-- the hard-wired key of `inline_cache` -/
def inlinedKey (k : Key) : List KVal := [.ty k.expr.typeTag, .expr k.expr]

/-- keys a dispatch goes through after optimization, on the calls the option set allows:
`__call__` uses the class's key; a `self.rec` site uses the inlined key (with `inline_cache`) and
then, unless `inline_rec` bypasses `__call__`, the class's key -/
def expectedKeys (o : Opts) (ka kk top : Bool) (k : Key) : List (List KVal) :=
  if top then [userKey ka kk k]
  else (if o.inlineCache then [inlinedKey k] else []) ++
    (if o.inlineRec then [] else [userKey ka kk k])

theorem siteKeys_optimize (o : Opts) (ka kk top : Bool) (k : Key)
    (h : Allowed o ka kk k = true) :
    siteKeys (optimize o (Code.user ka kk)) top k = .ok (expectedKeys o ka kk top k) := by
  obtain ⟨da, dk, ir, ic, ig⟩ := o
  obtain ⟨e, ⟨a, w⟩⟩ := k
  cases da <;> cases dk <;> cases ir <;> cases ic <;> cases ig <;> cases ka <;> cases kk <;>
    cases top <;> simp [Allowed] at h <;>
    simp [h, expectedKeys, userKey, inlinedKey, optimize, Code.user, Code.dropVarArgs, Sig.drop,
      Disp.dropStar, KeyExpr.dropStar, Code.inlineGetCacheKey, Disp.inlineKey, KeyExpr.inlineKey,
      Disp.inlineRecCache, siteKeys, bindSig, Disp.keys, Disp.keysFlat, KeyExpr.eval, Frame.parts,
      Frame.part, Frame.star, Frame.dstar, bind, Except.bind, pure, Except.pure]

theorem shares_expected (o : Opts) (ka kk t1 t2 : Bool) (k1 k2 : Key)
    (h1 : Allowed o ka kk k1 = true) (h2 : Allowed o ka kk k2 = true) :
    shares (expectedKeys o ka kk t1 k1) (expectedKeys o ka kk t2 k2) =
      ((!(o.inlineRec && !o.inlineCache) || (t1 && t2)) && Key.eq k1 k2) := by
  obtain ⟨da, dk, ir, ic, ig⟩ := o
  obtain ⟨e1, ⟨a1, w1⟩⟩ := k1
  obtain ⟨e2, ⟨a2, w2⟩⟩ := k2
  cases ir <;> cases ic <;> cases ka <;> cases kk <;> cases t1 <;> cases t2 <;>
    simp [Allowed] at h1 h2 <;>
    simp [h1, h2, expectedKeys, userKey, inlinedKey, shares, tupleEq, KVal.eq, Key.eq, ArgKey.pyEq,
      constsEq, kwEq, Expr.keyEq, Bool.and_assoc]

end PV.Memo
