import PV.Model.Unify
import PV.Proofs.PyEqEquiv
/-
  AC-equivalence of expression trees for C16: "equal up to reordering and regrouping of sums and
  products" as an inductive congruence `ACEq`, and the facts about the flatteners used as the
  `factory` of `map_commut_assoc`.
-/
namespace PV.Unify
open PV

/-- the two operators `map_commut_assoc` treats as commutative and associative -/
def isAC (o : NaryOp) : Prop := o = .sum ∨ o = .prod

instance (o : NaryOp) : Decidable (isAC o) := by unfold isAC; infer_instance

mutual
/-- **Equality up to reordering and regrouping of sums and products**: the least congruence that
contains Python equality (`py`), permutation of the operands of a sum / product (`perm`), merging a
nested application of the same operator into its parent (`flat`) and reading the application to a
single operand as that operand (`single`).  Nothing else is identified: no neutral elements are
dropped, other operators are not reordered, a 1-tuple index stays different from its element. -/
inductive ACEq : Expr → Expr → Prop
  | refl (a : Expr) : ACEq a a
  | py {a b : Expr} : a.pyEq b = true → ACEq a b
  | symm {a b : Expr} : ACEq a b → ACEq b a
  | trans {a b c : Expr} : ACEq a b → ACEq b c → ACEq a c
  | nary (o : NaryOp) {cs ds : List Expr} : ACEqL cs ds → ACEq (.nary o cs) (.nary o ds)
  | bin (o : BinOp) {a a' b b' : Expr} : ACEq a a' → ACEq b b' → ACEq (.bin o a b) (.bin o a' b')
  | un (o : UnOp) {a a' : Expr} : ACEq a a' → ACEq (.un o a) (.un o a')
  | cmp (o : CmpOp) {a a' b b' : Expr} : ACEq a a' → ACEq b b' → ACEq (.cmp o a b) (.cmp o a' b')
  | ite {c c' t t' e e' : Expr} : ACEq c c' → ACEq t t' → ACEq e e' →
      ACEq (.ite c t e) (.ite c' t' e')
  | call {f f' : Expr} {as as' : List Expr} : ACEq f f' → ACEqL as as' →
      ACEq (.call f as) (.call f' as')
  | subscript {a a' i i' : Expr} : ACEq a a' → ACEq i i' →
      ACEq (.subscript a i) (.subscript a' i')
  | lookup (n : String) {a a' : Expr} : ACEq a a' → ACEq (.lookup a n) (.lookup a' n)
  | tuple {cs ds : List Expr} : ACEqL cs ds → ACEq (.tuple cs) (.tuple ds)
  | callKw {f f' : Expr} {as as' : List Expr} (ns : List String) {vs vs' : List Expr} :
      ACEq f f' → ACEqL as as' → ACEqL vs vs' → ACEq (.callKw f as ns vs) (.callKw f' as' ns vs')
  | cse (p : Option String) (s : String) {a a' : Expr} : ACEq a a' → ACEq (.cse a p s) (.cse a' p s)
  | subst (vs : List String) {a a' : Expr} {xs xs' : List Expr} : ACEq a a' → ACEqL xs xs' →
      ACEq (.subst a vs xs) (.subst a' vs xs')
  | deriv (vs : List String) {a a' : Expr} : ACEq a a' → ACEq (.deriv a vs) (.deriv a' vs)
  | slice {cs ds : List Expr} : ACEqL cs ds → ACEq (.slice cs) (.slice ds)
  | list {cs ds : List Expr} : ACEqL cs ds → ACEq (.list cs) (.list ds)
  | perm {o : NaryOp} {cs ds : List Expr} : isAC o → cs.Perm ds → ACEq (.nary o cs) (.nary o ds)
  | flat {o : NaryOp} (xs ys zs : List Expr) : isAC o →
      ACEq (.nary o (xs ++ .nary o ys :: zs)) (.nary o (xs ++ ys ++ zs))
  | single {o : NaryOp} (a : Expr) : isAC o → ACEq (.nary o [a]) a
/-- operand lists related pointwise -/
inductive ACEqL : List Expr → List Expr → Prop
  | nil : ACEqL [] []
  | cons {a b : Expr} {as bs : List Expr} : ACEq a b → ACEqL as bs → ACEqL (a :: as) (b :: bs)
end

theorem ACEqL.refl : ∀ cs : List Expr, ACEqL cs cs
  | [] => .nil
  | c :: cs => .cons (.refl c) (ACEqL.refl cs)

theorem ACEqL.append : ∀ {as bs cs ds : List Expr}, ACEqL as bs → ACEqL cs ds →
    ACEqL (as ++ cs) (bs ++ ds)
  | _, _, _, _, .nil, h => h
  | _, _, _, _, .cons h t, h' => .cons h (ACEqL.append t h')

theorem ACEqL.map {α : Type} (f g : α → Expr) : ∀ (xs : List α),
    (∀ x ∈ xs, ACEq (f x) (g x)) → ACEqL (xs.map f) (xs.map g)
  | [], _ => .nil
  | x :: xs, h => .cons (h x (by simp)) (ACEqL.map f g xs (fun y hy => h y (by simp [hy])))

/-- several nested groups are merged at once -/
theorem ACEq.flatMany {o : NaryOp} (hac : isAC o) : ∀ (gs : List (List Expr)) (xs : List Expr),
    ACEq (.nary o (xs ++ gs.map (Expr.nary o))) (.nary o (xs ++ gs.flatten))
  | [], xs => by simpa using ACEq.refl _
  | g :: gs, xs => by
    have h1 : ACEq (.nary o (xs ++ Expr.nary o g :: gs.map (Expr.nary o)))
        (.nary o (xs ++ g ++ gs.map (Expr.nary o))) := ACEq.flat xs g _ hac
    have h2 := ACEq.flatMany hac gs (xs ++ g)
    simp only [List.map_cons, List.flatten_cons]
    rw [← List.append_assoc]
    exact h1.trans h2

/-! ### the flatteners only regroup when no operand is neutral -/

theorem Expr.one_le_size (e : Expr) : 1 ≤ e.size := by
  cases e <;> simp only [Expr.size] <;> omega

mutual
/-- number of queue steps one item causes in `flattened_sum` (`o = .sum`) / `flattened_product` -/
def stepsO (o : NaryOp) : Expr → Nat
  | .nary o' cs => if o' = o then 1 + stepsOL o cs else 1
  | _ => 1
def stepsOL (o : NaryOp) : List Expr → Nat
  | [] => 0
  | c :: cs => stepsO o c + stepsOL o cs
end

theorem stepsOL_le_of (o : NaryOp) : ∀ (cs : List Expr), (∀ c ∈ cs, stepsO o c ≤ c.size) →
    stepsOL o cs ≤ Expr.sizeL cs
  | [], _ => by simp [stepsOL, Expr.sizeL]
  | c :: cs, h => by
    have h1 := h c (by simp)
    have h2 := stepsOL_le_of o cs (fun d hd => h d (by simp [hd]))
    simp only [stepsOL, Expr.sizeL]; omega

theorem stepsO_le_size (o : NaryOp) (e : Expr) : stepsO o e ≤ e.size := by
  induction e using Expr.induct with
  | h e ih =>
    cases e with
    | nary o' cs =>
      have := stepsOL_le_of o cs (fun c hc => ih c (by simpa [Expr.children] using hc))
      simp only [stepsO, Expr.size]; split <;> omega
    | _ => simp only [stepsO]; exact Expr.one_le_size _

theorem stepsOL_le_sizeL (o : NaryOp) (cs : List Expr) : stepsOL o cs ≤ Expr.sizeL cs :=
  stepsOL_le_of o cs (fun c _ => stepsO_le_size o c)

theorem stepsOL_append (o : NaryOp) : ∀ (as bs : List Expr),
    stepsOL o (as ++ bs) = stepsOL o as + stepsOL o bs
  | [], bs => by simp [stepsOL]
  | a :: as, bs => by simp [stepsOL, stepsOL_append o as bs]; omega

theorem tgtGuardL_mem : ∀ {cs : List Expr}, tgtGuardL cs = true → ∀ c ∈ cs, tgtGuard c = true
  | [], _, c, hc => by simp at hc
  | d :: ds, h, c, hc => by
    simp only [tgtGuardL, Bool.and_eq_true] at h
    simp only [List.mem_cons] at hc
    rcases hc with rfl | hc
    · exact h.1
    · exact tgtGuardL_mem h.2 c hc

/-- what the queue of a flattener may contain: guarded items that are not neutral -/
def CleanQ (o : NaryOp) (q : List Expr) : Prop :=
  ∀ e ∈ q, e.isZero = false ∧ (o = .prod → e.isOne = false) ∧ tgtGuard e = true

theorem CleanQ.append {o : NaryOp} {p q : List Expr} (hp : CleanQ o p) (hq : CleanQ o q) :
    CleanQ o (p ++ q) := by
  intro e he
  rcases List.mem_append.1 he with h | h
  · exact hp e h
  · exact hq e h

theorem CleanQ.tail {o : NaryOp} {e : Expr} {q : List Expr} (h : CleanQ o (e :: q)) : CleanQ o q :=
  fun d hd => h d (by simp [hd])

/-- the operands of a guarded sum / product form a clean, non-empty queue -/
theorem cleanQ_of_guard {o : NaryOp} (hac : isAC o) {cs : List Expr}
    (h : tgtGuard (.nary o cs) = true) : cs ≠ [] ∧ CleanQ o cs := by
  have hac' : (o = .sum ∨ o = .prod) := hac
  simp only [tgtGuard, hac', if_true, Bool.and_eq_true, noUnitOperands, List.all_eq_true,
    Bool.not_eq_true', Bool.or_eq_true, bne_iff_ne, ne_eq, List.isEmpty_eq_false_iff] at h
  refine ⟨h.1.1, fun e he => ?_⟩
  have h1 := h.1.2 e he
  refine ⟨h1.1, fun ho => ?_, tgtGuardL_mem h.2 e he⟩
  rcases h1.2 with h2 | h2
  · exact absurd ho h2
  · exact h2

theorem sumLoop_ac : ∀ (fuel : Nat) (queue done : List Expr), CleanQ .sum queue →
    stepsOL .sum queue < fuel → (done ≠ [] ∨ queue ≠ []) →
    flattenedSumLoop fuel queue done ≠ [] ∧
      ACEq (.nary .sum (flattenedSumLoop fuel queue done)) (.nary .sum (done ++ queue))
  | 0, _, _, _, hf, _ => by omega
  | fuel + 1, [], done, _, _, hne => by
    simp only [flattenedSumLoop, List.append_nil]
    exact ⟨by simpa using hne, .refl _⟩
  | fuel + 1, item :: queue, done, hq, hf, _hne => by
    have hz : item.isZero = false := (hq item (by simp)).1
    have hg : tgtGuard item = true := (hq item (by simp)).2.2
    simp only [stepsOL] at hf
    unfold flattenedSumLoop
    simp only [hz, Bool.false_eq_true, if_false]
    split
    · rename_i cs
      have hcs := cleanQ_of_guard (Or.inl rfl) hg
      have hq' : CleanQ .sum (cs ++ queue) := hcs.2.append hq.tail
      have hf' : stepsOL .sum (cs ++ queue) < fuel := by
        rw [stepsOL_append]; simp only [stepsO, if_true] at hf; omega
      have ih := sumLoop_ac fuel (cs ++ queue) done hq' hf'
        (Or.inr (fun h => hcs.1 (List.append_eq_nil_iff.1 h).1))
      refine ⟨ih.1, ih.2.trans ?_⟩
      have h1 : ACEq (.nary .sum (done ++ Expr.nary .sum cs :: queue))
          (.nary .sum (done ++ cs ++ queue)) := ACEq.flat done cs queue (Or.inl rfl)
      rw [List.append_assoc] at h1
      exact h1.symm
    · have hf' : stepsOL .sum queue < fuel := by
        have : 1 ≤ stepsO .sum item := by
          cases item <;> simp only [stepsO] <;> (try split) <;> omega
        omega
      have ih := sumLoop_ac fuel queue (done ++ [item]) hq.tail hf' (Or.inl (by simp))
      refine ⟨ih.1, ?_⟩
      simpa using ih.2

theorem prodLoop_ac : ∀ (fuel : Nat) (queue done : List Expr), CleanQ .prod queue →
    stepsOL .prod queue < fuel → (done ≠ [] ∨ queue ≠ []) →
    ∃ res, flattenedProductLoop fuel queue done = some res ∧ res ≠ [] ∧
      ACEq (.nary .prod res) (.nary .prod (done ++ queue))
  | 0, _, _, _, hf, _ => by omega
  | fuel + 1, [], done, _, _, hne => by
    simp only [flattenedProductLoop, List.append_nil]
    exact ⟨done, rfl, by simpa using hne, .refl _⟩
  | fuel + 1, item :: queue, done, hq, hf, _hne => by
    have hz : item.isZero = false := (hq item (by simp)).1
    have ho : item.isOne = false := (hq item (by simp)).2.1 rfl
    have hg : tgtGuard item = true := (hq item (by simp)).2.2
    simp only [stepsOL] at hf
    unfold flattenedProductLoop
    simp only [hz, ho, Bool.false_eq_true, if_false]
    split
    · rename_i cs
      have hcs := cleanQ_of_guard (Or.inr rfl) hg
      have hq' : CleanQ .prod (cs ++ queue) := hcs.2.append hq.tail
      have hf' : stepsOL .prod (cs ++ queue) < fuel := by
        rw [stepsOL_append]; simp only [stepsO, if_true] at hf; omega
      obtain ⟨res, h1, h2, h3⟩ := prodLoop_ac fuel (cs ++ queue) done hq' hf'
        (Or.inr (fun h => hcs.1 (List.append_eq_nil_iff.1 h).1))
      refine ⟨res, h1, h2, h3.trans ?_⟩
      have h4 : ACEq (.nary .prod (done ++ Expr.nary .prod cs :: queue))
          (.nary .prod (done ++ cs ++ queue)) := ACEq.flat done cs queue (Or.inr rfl)
      rw [List.append_assoc] at h4
      exact h4.symm
    · have hf' : stepsOL .prod queue < fuel := by
        have : 1 ≤ stepsO .prod item := by
          cases item <;> simp only [stepsO] <;> (try split) <;> omega
        omega
      obtain ⟨res, h1, h2, h3⟩ :=
        prodLoop_ac fuel queue (done ++ [item]) hq.tail hf' (Or.inl (by simp))
      exact ⟨res, h1, h2, by simpa using h3⟩

/-- **The factory of `map_commut_assoc` only regroups** a non-empty share of guarded operands. -/
theorem factory_ac {o : NaryOp} (hac : isAC o) (items : List Expr) (hne : items ≠ [])
    (hq : CleanQ o items) : ACEq (factory o items) (.nary o items) := by
  have hfuel : ∀ o', stepsOL o' items < Expr.sizeL items + items.length + 1 := by
    intro o'; have := stepsOL_le_sizeL o' items; omega
  rcases hac with rfl | rfl
  · have h := sumLoop_ac _ items [] hq (hfuel _) (Or.inr hne)
    simp only [factory, flattenedSum]
    generalize flattenedSumLoop (Expr.sizeL items + items.length + 1) items [] = res at h
    match res, h with
    | [], h => exact absurd rfl h.1
    | [x], h => exact (ACEq.single x (Or.inl rfl)).symm.trans (by simpa using h.2)
    | x :: y :: r, h => simpa using h.2
  · obtain ⟨res, h1, h2, h3⟩ := prodLoop_ac _ items [] hq (hfuel _) (Or.inr hne)
    simp only [factory, flattenedProduct, h1]
    match res, h2, h3 with
    | [], h2, _ => exact absurd rfl h2
    | [x], _, h3 => exact (ACEq.single x (Or.inr rfl)).symm.trans (by simpa using h3)
    | x :: y :: r, _, h3 => simpa using h3

/-! ### the normal form is sound -/

theorem flattenOps_ac {o : NaryOp} (hac : isAC o) : ∀ (xs pre : List Expr),
    ACEq (.nary o (pre ++ xs)) (.nary o (pre ++ flattenOps o xs))
  | [], pre => by simp only [flattenOps]; exact .refl _
  | c :: rest, pre => by
    unfold flattenOps
    split
    · rename_i heq; simp at heq
    · rename_i o' ys rest' heq
      simp only [List.cons.injEq] at heq
      obtain ⟨rfl, rfl⟩ := heq
      split
      · rename_i ho; subst ho
        have h1 := ACEq.flat (o := o') pre ys rest hac
        have h2 := flattenOps_ac hac rest (pre ++ ys)
        simp only [List.append_assoc] at h1 h2 ⊢
        exact h1.trans h2
      · have h2 := flattenOps_ac hac rest (pre ++ [Expr.nary o' ys])
        simpa using h2
    · rename_i c' rest' _ heq
      simp only [List.cons.injEq] at heq
      obtain ⟨rfl, rfl⟩ := heq
      have h2 := flattenOps_ac hac rest (pre ++ [c])
      simpa using h2

theorem insertOp_perm (x : Expr) : ∀ ys : List Expr, (insertOp x ys).Perm (x :: ys)
  | [] => by simp [insertOp]
  | y :: ys => by
    simp only [insertOp]
    split
    · exact .refl _
    · exact ((insertOp_perm x ys).cons y).trans (List.Perm.swap x y ys)

theorem sortOps_perm : ∀ cs : List Expr, (sortOps cs).Perm cs
  | [] => by simp [sortOps]
  | c :: cs => by
    simp only [sortOps]
    exact (insertOp_perm c _).trans ((sortOps_perm cs).cons c)

theorem collapse1_ac {o : NaryOp} (hac : isAC o) (xs : List Expr) :
    ACEq (.nary o xs) (collapse1 o xs) := by
  unfold collapse1
  split
  · exact ACEq.single _ hac
  · exact .refl _

mutual
theorem acNorm_ac : ∀ e : Expr, ACEq e (acNorm e)
  | .const (.bool b) => by
      simp only [acNorm]
      refine .py ?_
      cases b <;> rfl
  | .const (.int _) => by simp only [acNorm]; exact .refl _
  | .const (.flt ..) => by simp only [acNorm]; exact .refl _
  | .const (.str _) => by simp only [acNorm]; exact .refl _
  | .const .none => by simp only [acNorm]; exact .refl _
  | .var _ => by simp only [acNorm]; exact .refl _
  | .nary o cs => by
      simp only [acNorm]
      have h1 : ACEq (.nary o cs) (.nary o (acNormL cs)) := .nary o (acNormL_ac cs)
      split
      · rename_i hac
        have h2 := flattenOps_ac (o := o) hac (acNormL cs) []
        simp only [List.nil_append] at h2
        have h3 : ACEq (.nary o (flattenOps o (acNormL cs)))
            (.nary o (sortOps (flattenOps o (acNormL cs)))) :=
          .perm hac (sortOps_perm _).symm
        exact h1.trans (h2.trans (h3.trans (collapse1_ac hac _)))
      · exact h1
  | .bin o a b => by simp only [acNorm]; exact .bin o (acNorm_ac a) (acNorm_ac b)
  | .un o a => by simp only [acNorm]; exact .un o (acNorm_ac a)
  | .cmp o a b => by simp only [acNorm]; exact .cmp o (acNorm_ac a) (acNorm_ac b)
  | .ite c t e => by simp only [acNorm]; exact .ite (acNorm_ac c) (acNorm_ac t) (acNorm_ac e)
  | .call f as => by simp only [acNorm]; exact .call (acNorm_ac f) (acNormL_ac as)
  | .subscript a i => by simp only [acNorm]; exact .subscript (acNorm_ac a) (acNorm_ac i)
  | .lookup a n => by simp only [acNorm]; exact .lookup n (acNorm_ac a)
  | .tuple cs => by simp only [acNorm]; exact .tuple (acNormL_ac cs)
  | .callKw .. => by simp only [acNorm]; exact .refl _
  | .cse .. => by simp only [acNorm]; exact .refl _
  | .subst .. => by simp only [acNorm]; exact .refl _
  | .deriv .. => by simp only [acNorm]; exact .refl _
  | .slice .. => by simp only [acNorm]; exact .refl _
  | .nan => by simp only [acNorm]; exact .refl _
  | .wildcard => by simp only [acNorm]; exact .refl _
  | .dotWild .. => by simp only [acNorm]; exact .refl _
  | .starWild .. => by simp only [acNorm]; exact .refl _
  | .funcSym => by simp only [acNorm]; exact .refl _
  | .list .. => by simp only [acNorm]; exact .refl _
theorem acNormL_ac : ∀ cs : List Expr, ACEqL cs (acNormL cs)
  | [] => by simp only [acNormL]; exact .nil
  | c :: cs => by simp only [acNormL]; exact .cons (acNorm_ac c) (acNormL_ac cs)
end

end PV.Unify
