import PV.Proofs.MatchpyRepl
import PV.Proofs.MatchpyExact
/-
  C16, matchpy bridge: on well-formed terms without variable names (what `toM` and matchpy's own
  rebuilding produce from a converted subject) `fromM` reflects equality: two terms are `==` exactly
  when their images are `==`.  Hence the keys of a captured `Multiset` (pairwise different terms)
  have pairwise different images, and the hypothesis of the multiplicity law holds.
-/
namespace PV.Matchpy
open PV

mutual
/-- the term a tree is embedded as (no flattening, no sorting; a tuple becomes a `TupleOp`) -/
def toRaw : Expr → MTerm
  | .const c => .scalar c none
  | .var x => .op .variable [.id x none] none
  | .nary o cs =>
      match mopOfNary o with
      | some mo => .op mo (toRawL cs) none
      | none => .wild .dot none
  | .bin o a b => .op (mopOfBin o) [toRaw a, toRaw b] none
  | .un o a => .op (mopOfUn o) [toRaw a] none
  | .cmp o a b => .op .comparison [toRaw a, .cmpOp o.sym none, toRaw b] none
  | .ite c t e => .op .ite [toRaw c, toRaw t, toRaw e] none
  | .call f as => .op .call [toRaw f, .op .tupleOp (toRawL as) none] none
  | .subscript a i => .op .subscript [toRaw a, toRaw i] none
  | .tuple cs => .op .tupleOp (toRawL cs) none
  | _ => .wild .dot none
def toRawL : List Expr → List MTerm
  | [] => []
  | c :: cs => toRaw c :: toRawL cs
end

mutual
/-- the trees that are images of terms -/
def frag : Expr → Bool
  | .const _ => true
  | .var _ => true
  | .nary o cs => (mopOfNary o).isSome && fragL cs
  | .bin _ a b => frag a && frag b
  | .un _ a => frag a
  | .cmp _ a b => frag a && frag b
  | .ite c t e => frag c && frag t && frag e
  | .call f as => frag f && fragL as
  | .subscript a i => frag a && frag i
  | .tuple cs => fragL cs
  | _ => false
def fragL : List Expr → Bool
  | [] => true
  | c :: cs => frag c && fragL cs
end

theorem cmp_sym_inj (o o' : CmpOp) : (o.sym == o'.sym) = (o == o') := by
  cases o <;> cases o' <;> decide

theorem eq_op_ne {o o' : MOp} (h : o ≠ o') (as as' : List MTerm) (v v' : Option String) :
    MTerm.eq (.op o as v) (.op o' as' v') = false := by
  have : (o == o') = false := by simpa using h
  simp [MTerm.eq, this]

/-- `==` of the embedded terms is `==` of the trees -/
theorem eq_toRaw_aux : ∀ n : Nat,
    (∀ a : Expr, a.size ≤ n → ∀ b, frag a = true → frag b = true →
      MTerm.eq (toRaw a) (toRaw b) = a.pyEq b) ∧
    (∀ as : List Expr, Expr.sizeL as ≤ n → ∀ bs, fragL as = true → fragL bs = true →
      MTerm.eqL (toRawL as) (toRawL bs) = Expr.pyEqL as bs) := by
  intro n
  induction n with
  | zero =>
    refine ⟨fun a ha => ?_, fun as has bs _ _ => ?_⟩
    · cases a <;> simp [Expr.size] at ha <;> omega
    · cases as with
      | nil => cases bs <;> simp [toRawL, MTerm.eqL, Expr.pyEqL]
      | cons c cs =>
        simp [Expr.sizeL] at has
        cases c <;> simp [Expr.size] at has <;> omega
  | succ n ih =>
    obtain ⟨ihE, ihL⟩ := ih
    have treeCase : ∀ a : Expr, a.size ≤ n + 1 → ∀ b, frag a = true → frag b = true →
        MTerm.eq (toRaw a) (toRaw b) = a.pyEq b := by
      intro a ha b fa fb
      cases a with
      | const c =>
        cases b <;> simp [frag] at fb
        case const c' => simp [toRaw, MTerm.eq, Expr.pyEq]
        case var x' => simp [toRaw, MTerm.eq, Expr.pyEq]
        case nary o' cs' =>
          obtain ⟨mo', hm'⟩ := Option.isSome_iff_exists.1 fb.1
          simp [toRaw, hm', MTerm.eq, Expr.pyEq]
        case bin o' x' y' => simp [toRaw, MTerm.eq, Expr.pyEq]
        case un o' x' => simp [toRaw, MTerm.eq, Expr.pyEq]
        case cmp o' x' y' => simp [toRaw, MTerm.eq, Expr.pyEq]
        case ite c' x' y' => simp [toRaw, MTerm.eq, Expr.pyEq]
        case call f' as' => simp [toRaw, MTerm.eq, Expr.pyEq]
        case subscript x' i' => simp [toRaw, MTerm.eq, Expr.pyEq]
        case tuple cs' => simp [toRaw, MTerm.eq, Expr.pyEq]
      | var x =>
        cases b <;> simp [frag] at fb
        case const c' => simp [toRaw, MTerm.eq, Expr.pyEq]
        case var x' => simp [toRaw, MTerm.eq, MTerm.eqL, Expr.pyEq]
        case nary o' cs' =>
          obtain ⟨mo', hm'⟩ := Option.isSome_iff_exists.1 fb.1
          have hn' := mopOfNary_nary? hm'
          have : MOp.variable ≠ mo' := by intro h; subst h; simp [MOp.nary?] at hn'
          simp [toRaw, hm', Expr.pyEq]; exact eq_op_ne this _ _ _ _
        case bin o' x' y' => cases o' <;> simp [toRaw, mopOfBin, MTerm.eq, Expr.pyEq]
        case un o' x' => cases o' <;> simp [toRaw, mopOfUn, MTerm.eq, Expr.pyEq]
        case cmp o' x' y' => simp [toRaw, MTerm.eq, Expr.pyEq]
        case ite c' x' y' => simp [toRaw, MTerm.eq, Expr.pyEq]
        case call f' as' => simp [toRaw, MTerm.eq, Expr.pyEq]
        case subscript x' i' => simp [toRaw, MTerm.eq, Expr.pyEq]
        case tuple cs' => simp [toRaw, MTerm.eq, Expr.pyEq]
      | nary o cs =>
        simp only [frag, Bool.and_eq_true] at fa
        obtain ⟨mo, hm⟩ := Option.isSome_iff_exists.1 fa.1
        have hn := mopOfNary_nary? hm
        simp only [Expr.size] at ha
        cases b <;> simp [frag] at fb
        case const c => simp [toRaw, hm, MTerm.eq, Expr.pyEq]
        case var x =>
          have : mo ≠ .variable := by intro h; subst h; simp [MOp.nary?] at hn
          simp [toRaw, hm, Expr.pyEq]; exact eq_op_ne this _ _ _ _
        case nary o' cs' =>
          obtain ⟨mo', hm'⟩ := Option.isSome_iff_exists.1 fb.1
          have hn' := mopOfNary_nary? hm'
          have hl := ihL cs (by omega) cs' fa.2 fb.2
          have hoo : (mo == mo') = (o == o') := by
            by_cases h : o = o'
            · subst h; rw [hm] at hm'; cases hm'; simp
            · have : mo ≠ mo' := by
                intro hh; subst hh; rw [hn] at hn'; cases hn'; exact h rfl
              have h1 : (mo == mo') = false := by simpa using this
              have h2 : (o == o') = false := by simpa using h
              rw [h1, h2]
          simp [toRaw, hm, hm', MTerm.eq, Expr.pyEq, hl, hoo]
        case bin o' a' b' =>
          have : mo ≠ mopOfBin o' := by
            intro h; subst h; cases o' <;> simp [mopOfBin, MOp.nary?] at hn
          simp [toRaw, hm, Expr.pyEq]; exact eq_op_ne this _ _ _ _
        case un o' a' =>
          have : mo ≠ mopOfUn o' := by
            intro h; subst h; cases o' <;> simp [mopOfUn, MOp.nary?] at hn
          simp [toRaw, hm, Expr.pyEq]; exact eq_op_ne this _ _ _ _
        case cmp o' a' b' =>
          have : mo ≠ .comparison := by intro h; subst h; simp [MOp.nary?] at hn
          simp [toRaw, hm, Expr.pyEq]; exact eq_op_ne this _ _ _ _
        case ite c' t' e' =>
          have : mo ≠ .ite := by intro h; subst h; simp [MOp.nary?] at hn
          simp [toRaw, hm, Expr.pyEq]; exact eq_op_ne this _ _ _ _
        case call f' as' =>
          have : mo ≠ .call := by intro h; subst h; simp [MOp.nary?] at hn
          simp [toRaw, hm, Expr.pyEq]; exact eq_op_ne this _ _ _ _
        case subscript a' i' =>
          have : mo ≠ .subscript := by intro h; subst h; simp [MOp.nary?] at hn
          simp [toRaw, hm, Expr.pyEq]; exact eq_op_ne this _ _ _ _
        case tuple cs' =>
          have : mo ≠ .tupleOp := by intro h; subst h; simp [MOp.nary?] at hn
          simp [toRaw, hm, Expr.pyEq]; exact eq_op_ne this _ _ _ _
      | bin o x y =>
        simp only [frag, Bool.and_eq_true] at fa
        simp only [Expr.size] at ha
        cases b <;> simp [frag] at fb
        case const c => simp [toRaw, MTerm.eq, Expr.pyEq]
        case var x' => cases o <;> simp [toRaw, mopOfBin, MTerm.eq, Expr.pyEq]
        case nary o' cs' =>
          obtain ⟨mo', hm'⟩ := Option.isSome_iff_exists.1 fb.1
          have hn' := mopOfNary_nary? hm'
          have : mopOfBin o ≠ mo' := by
            intro h; subst h; cases o <;> simp [mopOfBin, MOp.nary?] at hn'
          simp [toRaw, hm', Expr.pyEq]; exact eq_op_ne this _ _ _ _
        case bin o' x' y' =>
          have h1 := ihE x (by omega) x' fa.1 fb.1
          have h2 := ihE y (by omega) y' fa.2 fb.2
          have hoo : (mopOfBin o == mopOfBin o') = (o == o') := by
            cases o <;> cases o' <;> decide
          simp [toRaw, MTerm.eq, MTerm.eqL, Expr.pyEq, h1, h2, hoo, Bool.and_assoc]
        case un o' a' => cases o <;> cases o' <;> simp [toRaw, mopOfBin, mopOfUn, MTerm.eq, Expr.pyEq]
        case cmp o' a' b' => cases o <;> simp [toRaw, mopOfBin, MTerm.eq, Expr.pyEq]
        case ite c' t' e' => cases o <;> simp [toRaw, mopOfBin, MTerm.eq, Expr.pyEq]
        case call f' as' => cases o <;> simp [toRaw, mopOfBin, MTerm.eq, Expr.pyEq]
        case subscript a' i' => cases o <;> simp [toRaw, mopOfBin, MTerm.eq, Expr.pyEq]
        case tuple cs' => cases o <;> simp [toRaw, mopOfBin, MTerm.eq, Expr.pyEq]
      | un o x =>
        simp only [frag] at fa
        simp only [Expr.size] at ha
        cases b <;> simp [frag] at fb
        case const c => simp [toRaw, MTerm.eq, Expr.pyEq]
        case var x' => cases o <;> simp [toRaw, mopOfUn, MTerm.eq, Expr.pyEq]
        case nary o' cs' =>
          obtain ⟨mo', hm'⟩ := Option.isSome_iff_exists.1 fb.1
          have hn' := mopOfNary_nary? hm'
          have : mopOfUn o ≠ mo' := by
            intro h; subst h; cases o <;> simp [mopOfUn, MOp.nary?] at hn'
          simp [toRaw, hm', Expr.pyEq]; exact eq_op_ne this _ _ _ _
        case bin o' x' y' => cases o <;> cases o' <;> simp [toRaw, mopOfBin, mopOfUn, MTerm.eq, Expr.pyEq]
        case un o' x' =>
          have h1 := ihE x (by omega) x' fa fb
          have hoo : (mopOfUn o == mopOfUn o') = (o == o') := by
            cases o <;> cases o' <;> decide
          simp [toRaw, MTerm.eq, MTerm.eqL, Expr.pyEq, h1, hoo]
        case cmp o' a' b' => cases o <;> simp [toRaw, mopOfUn, MTerm.eq, Expr.pyEq]
        case ite c' t' e' => cases o <;> simp [toRaw, mopOfUn, MTerm.eq, Expr.pyEq]
        case call f' as' => cases o <;> simp [toRaw, mopOfUn, MTerm.eq, Expr.pyEq]
        case subscript a' i' => cases o <;> simp [toRaw, mopOfUn, MTerm.eq, Expr.pyEq]
        case tuple cs' => cases o <;> simp [toRaw, mopOfUn, MTerm.eq, Expr.pyEq]
      | cmp o x y =>
        simp only [frag, Bool.and_eq_true] at fa
        simp only [Expr.size] at ha
        cases b <;> simp [frag] at fb
        case const c => simp [toRaw, MTerm.eq, Expr.pyEq]
        case var x' => simp [toRaw, MTerm.eq, Expr.pyEq]
        case nary o' cs' =>
          obtain ⟨mo', hm'⟩ := Option.isSome_iff_exists.1 fb.1
          have hn' := mopOfNary_nary? hm'
          have : MOp.comparison ≠ mo' := by intro h; subst h; simp [MOp.nary?] at hn'
          simp [toRaw, hm', Expr.pyEq]; exact eq_op_ne this _ _ _ _
        case bin o' x' y' => cases o' <;> simp [toRaw, mopOfBin, MTerm.eq, Expr.pyEq]
        case un o' x' => cases o' <;> simp [toRaw, mopOfUn, MTerm.eq, Expr.pyEq]
        case cmp o' x' y' =>
          have h1 := ihE x (by omega) x' fa.1 fb.1
          have h2 := ihE y (by omega) y' fa.2 fb.2
          have hs := cmp_sym_inj o o'
          simp only [toRaw, MTerm.eq, MTerm.eqL, Expr.pyEq, h1, h2, hs, beq_self_eq_true,
            Bool.true_and, Bool.and_true]
          cases (o == o') <;> cases x.pyEq x' <;> cases y.pyEq y' <;> rfl
        case ite c' t' e' => simp [toRaw, MTerm.eq, Expr.pyEq]
        case call f' as' => simp [toRaw, MTerm.eq, Expr.pyEq]
        case subscript a' i' => simp [toRaw, MTerm.eq, Expr.pyEq]
        case tuple cs' => simp [toRaw, MTerm.eq, Expr.pyEq]
      | ite c x y =>
        simp only [frag, Bool.and_eq_true] at fa
        simp only [Expr.size] at ha
        cases b <;> simp [frag] at fb
        case const c => simp [toRaw, MTerm.eq, Expr.pyEq]
        case var x' => simp [toRaw, MTerm.eq, Expr.pyEq]
        case nary o' cs' =>
          obtain ⟨mo', hm'⟩ := Option.isSome_iff_exists.1 fb.1
          have hn' := mopOfNary_nary? hm'
          have : MOp.ite ≠ mo' := by intro h; subst h; simp [MOp.nary?] at hn'
          simp [toRaw, hm', Expr.pyEq]; exact eq_op_ne this _ _ _ _
        case bin o' x' y' => cases o' <;> simp [toRaw, mopOfBin, MTerm.eq, Expr.pyEq]
        case un o' x' => cases o' <;> simp [toRaw, mopOfUn, MTerm.eq, Expr.pyEq]
        case cmp o' x' y' => simp [toRaw, MTerm.eq, Expr.pyEq]
        case ite c' x' y' =>
          have h0 := ihE c (by omega) c' fa.1.1 fb.1.1
          have h1 := ihE x (by omega) x' fa.1.2 fb.1.2
          have h2 := ihE y (by omega) y' fa.2 fb.2
          simp [toRaw, MTerm.eq, MTerm.eqL, Expr.pyEq, h0, h1, h2, Bool.and_assoc]
        case call f' as' => simp [toRaw, MTerm.eq, Expr.pyEq]
        case subscript a' i' => simp [toRaw, MTerm.eq, Expr.pyEq]
        case tuple cs' => simp [toRaw, MTerm.eq, Expr.pyEq]
      | call f as =>
        simp only [frag, Bool.and_eq_true] at fa
        simp only [Expr.size] at ha
        cases b <;> simp [frag] at fb
        case const c => simp [toRaw, MTerm.eq, Expr.pyEq]
        case var x' => simp [toRaw, MTerm.eq, Expr.pyEq]
        case nary o' cs' =>
          obtain ⟨mo', hm'⟩ := Option.isSome_iff_exists.1 fb.1
          have hn' := mopOfNary_nary? hm'
          have : MOp.call ≠ mo' := by intro h; subst h; simp [MOp.nary?] at hn'
          simp [toRaw, hm', Expr.pyEq]; exact eq_op_ne this _ _ _ _
        case bin o' x' y' => cases o' <;> simp [toRaw, mopOfBin, MTerm.eq, Expr.pyEq]
        case un o' x' => cases o' <;> simp [toRaw, mopOfUn, MTerm.eq, Expr.pyEq]
        case cmp o' x' y' => simp [toRaw, MTerm.eq, Expr.pyEq]
        case ite c' x' y' => simp [toRaw, MTerm.eq, Expr.pyEq]
        case call f' as' =>
          have h0 := ihE f (by omega) f' fa.1 fb.1
          have h1 := ihL as (by omega) as' fa.2 fb.2
          simp [toRaw, MTerm.eq, MTerm.eqL, Expr.pyEq, h0, h1]
        case subscript a' i' => simp [toRaw, MTerm.eq, Expr.pyEq]
        case tuple cs' => simp [toRaw, MTerm.eq, Expr.pyEq]
      | subscript x i =>
        simp only [frag, Bool.and_eq_true] at fa
        simp only [Expr.size] at ha
        cases b <;> simp [frag] at fb
        case const c => simp [toRaw, MTerm.eq, Expr.pyEq]
        case var x' => simp [toRaw, MTerm.eq, Expr.pyEq]
        case nary o' cs' =>
          obtain ⟨mo', hm'⟩ := Option.isSome_iff_exists.1 fb.1
          have hn' := mopOfNary_nary? hm'
          have : MOp.subscript ≠ mo' := by intro h; subst h; simp [MOp.nary?] at hn'
          simp [toRaw, hm', Expr.pyEq]; exact eq_op_ne this _ _ _ _
        case bin o' x' y' => cases o' <;> simp [toRaw, mopOfBin, MTerm.eq, Expr.pyEq]
        case un o' x' => cases o' <;> simp [toRaw, mopOfUn, MTerm.eq, Expr.pyEq]
        case cmp o' x' y' => simp [toRaw, MTerm.eq, Expr.pyEq]
        case ite c' x' y' => simp [toRaw, MTerm.eq, Expr.pyEq]
        case call f' as' => simp [toRaw, MTerm.eq, Expr.pyEq]
        case subscript x' i' =>
          have h0 := ihE x (by omega) x' fa.1 fb.1
          have h1 := ihE i (by omega) i' fa.2 fb.2
          simp [toRaw, MTerm.eq, MTerm.eqL, Expr.pyEq, h0, h1]
        case tuple cs' => simp [toRaw, MTerm.eq, Expr.pyEq]
      | tuple cs =>
        simp only [frag] at fa
        simp only [Expr.size] at ha
        cases b <;> simp [frag] at fb
        case const c => simp [toRaw, MTerm.eq, Expr.pyEq]
        case var x' => simp [toRaw, MTerm.eq, Expr.pyEq]
        case nary o' cs' =>
          obtain ⟨mo', hm'⟩ := Option.isSome_iff_exists.1 fb.1
          have hn' := mopOfNary_nary? hm'
          have : MOp.tupleOp ≠ mo' := by intro h; subst h; simp [MOp.nary?] at hn'
          simp [toRaw, hm', Expr.pyEq]; exact eq_op_ne this _ _ _ _
        case bin o' x' y' => cases o' <;> simp [toRaw, mopOfBin, MTerm.eq, Expr.pyEq]
        case un o' x' => cases o' <;> simp [toRaw, mopOfUn, MTerm.eq, Expr.pyEq]
        case cmp o' x' y' => simp [toRaw, MTerm.eq, Expr.pyEq]
        case ite c' x' y' => simp [toRaw, MTerm.eq, Expr.pyEq]
        case call f' as' => simp [toRaw, MTerm.eq, Expr.pyEq]
        case subscript x' i' => simp [toRaw, MTerm.eq, Expr.pyEq]
        case tuple cs' =>
          have h1 := ihL cs (by omega) cs' fa fb
          simp [toRaw, MTerm.eq, Expr.pyEq, h1]
      | dotWild s => simp [frag] at fa
      | starWild s => simp [frag] at fa
      | callKw f as ns vs => simp [frag] at fa
      | lookup a s => simp [frag] at fa
      | cse c p s => simp [frag] at fa
      | subst c vs xs => simp [frag] at fa
      | deriv c vs => simp [frag] at fa
      | slice cs => simp [frag] at fa
      | nan => simp [frag] at fa
      | wildcard => simp [frag] at fa
      | funcSym => simp [frag] at fa
      | list cs => simp [frag] at fa
    refine ⟨treeCase, fun as => ?_⟩
    induction as with
    | nil => intro _ bs _ _; cases bs <;> simp [toRawL, MTerm.eqL, Expr.pyEqL]
    | cons c cs ihcs =>
      intro hs bs fa fb
      cases bs with
      | nil => simp [toRawL, MTerm.eqL, Expr.pyEqL]
      | cons d ds =>
        simp only [Expr.sizeL] at hs
        simp only [fragL, Bool.and_eq_true] at fa fb
        have h1 := treeCase c (by omega) d fa.1 fb.1
        have h2 := ihcs (by omega) ds fa.2 fb.2
        simp [toRawL, MTerm.eqL, Expr.pyEqL, h1, h2]

theorem eq_toRaw {a b : Expr} (fa : frag a = true) (fb : frag b = true) :
    MTerm.eq (toRaw a) (toRaw b) = a.pyEq b :=
  (eq_toRaw_aux a.size).1 a (Nat.le_refl _) b fa fb

/-- **well-formed, name-free terms** (decidable): the term converts back, and it is the plain
embedding of its own image — every operation has the operand shape the bridge gives it and no
node carries a `variable_name`.  Terms of a converted subject are of this kind. -/
def MTerm.wf (t : MTerm) : Bool :=
  match fromM t with
  | .ok e => frag e && MTerm.beq (toRaw e) t
  | .error _ => false

theorem MTerm.wf_spec {t : MTerm} (h : t.wf = true) :
    ∃ e, fromM t = .ok e ∧ frag e = true ∧ toRaw e = t := by
  unfold MTerm.wf at h
  cases hf : fromM t with
  | error err => simp [hf] at h
  | ok e =>
    simp only [hf, Bool.and_eq_true] at h
    exact ⟨e, rfl, h.1, MTerm.beq_eq _ _ h.2⟩

/-- no earlier term is `==` to a later one (the keys of a `Multiset`) -/
def pairwiseNeM : List MTerm → Bool
  | [] => true
  | t :: ts => ts.all (fun u => !t.eq u) && pairwiseNeM ts

theorem fromML_mem : ∀ {ts : List MTerm} {es : List Expr}, fromML ts = .ok es →
    ∀ y ∈ es, ∃ u ∈ ts, fromM u = .ok y
  | [], es, h, y, hy => by
    simp [fromML, pure, Except.pure] at h; subst h; cases hy
  | t :: ts, es, h, y, hy => by
    obtain ⟨e, es', rfl, ht, hts⟩ := fromML_cons h
    rcases List.mem_cons.1 hy with rfl | hy'
    · exact ⟨t, by simp, ht⟩
    · obtain ⟨u, hu, hfu⟩ := fromML_mem hts y hy'
      exact ⟨u, by simp [hu], hfu⟩

/-- pairwise different well-formed terms have pairwise different images -/
theorem wf_images_distinct : ∀ (ts : List MTerm) (es : List Expr),
    (∀ t ∈ ts, t.wf = true) → fromML ts = .ok es → pairwiseNeM ts = true → pairwiseNe es = true
  | [], es, _, h, _ => by
    simp [fromML, pure, Except.pure] at h; subst h; rfl
  | t :: ts, es, hwf, h, hd => by
    obtain ⟨e, es', rfl, ht, hts⟩ := fromML_cons h
    simp only [pairwiseNeM, Bool.and_eq_true, List.all_eq_true] at hd
    simp only [pairwiseNe, Bool.and_eq_true, List.all_eq_true]
    refine ⟨fun y hy => ?_, wf_images_distinct ts es' (fun u hu => hwf u (by simp [hu])) hts hd.2⟩
    obtain ⟨u, hu, hfu⟩ := fromML_mem hts y hy
    obtain ⟨e0, he0, fe0, re0⟩ := MTerm.wf_spec (hwf t (by simp))
    obtain ⟨y0, hy0, fy0, ry0⟩ := MTerm.wf_spec (hwf u (by simp [hu]))
    rw [ht] at he0; cases he0
    rw [hfu] at hy0; cases hy0
    have hne := hd.1 u hu
    rw [← re0, ← ry0, eq_toRaw fe0 fy0] at hne
    exact hne

end PV.Matchpy
