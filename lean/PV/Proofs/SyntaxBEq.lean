import PV.Model.Parser
/-
  `Expr.beq` (the Boolean structural equality of the model) is equality: used to turn kernel
  evaluations of the parser / stringifier models on concrete inputs into propositional equations.
-/
set_option linter.unusedSimpArgs false
namespace PV.Syntax
open PV

mutual
theorem beq_refl' : ∀ a : Expr, Expr.beq a a = true
  | .const _ | .var _ | .nan | .wildcard | .dotWild _ | .starWild _ | .funcSym => by
      simp [Expr.beq]
  | .nary _ cs => by simp [Expr.beq, beqL_refl' cs]
  | .bin _ a b => by simp [Expr.beq, beq_refl' a, beq_refl' b]
  | .un _ a => by simp [Expr.beq, beq_refl' a]
  | .cmp _ a b => by simp [Expr.beq, beq_refl' a, beq_refl' b]
  | .ite c t e => by simp [Expr.beq, beq_refl' c, beq_refl' t, beq_refl' e]
  | .call f as => by simp [Expr.beq, beq_refl' f, beqL_refl' as]
  | .callKw f as _ vs => by simp [Expr.beq, beq_refl' f, beqL_refl' as, beqL_refl' vs]
  | .subscript a i => by simp [Expr.beq, beq_refl' a, beq_refl' i]
  | .lookup a _ => by simp [Expr.beq, beq_refl' a]
  | .cse c _ _ => by simp [Expr.beq, beq_refl' c]
  | .subst c _ xs => by simp [Expr.beq, beq_refl' c, beqL_refl' xs]
  | .deriv c _ => by simp [Expr.beq, beq_refl' c]
  | .slice cs => by simp [Expr.beq, beqL_refl' cs]
  | .tuple cs => by simp [Expr.beq, beqL_refl' cs]
  | .list cs => by simp [Expr.beq, beqL_refl' cs]
theorem beqL_refl' : ∀ as : List Expr, Expr.beqL as as = true
  | [] => by simp [Expr.beqL]
  | a :: as => by simp [Expr.beqL, beq_refl' a, beqL_refl' as]
end

mutual
theorem beq_sound : ∀ a b : Expr, Expr.beq a b = true → a = b
  | .const _, b, h => by cases b <;> simp_all [Expr.beq]
  | .var _, b, h => by cases b <;> simp_all [Expr.beq]
  | .nan, b, h => by cases b <;> simp_all [Expr.beq]
  | .wildcard, b, h => by cases b <;> simp_all [Expr.beq]
  | .dotWild _, b, h => by cases b <;> simp_all [Expr.beq]
  | .starWild _, b, h => by cases b <;> simp_all [Expr.beq]
  | .funcSym, b, h => by cases b <;> simp_all [Expr.beq]
  | .nary _ cs, b, h => by
      cases b <;> simp only [Expr.beq, Bool.and_eq_true, beq_iff_eq, Bool.false_eq_true] at h
      rw [h.1, beqL_sound cs _ h.2]
  | .bin _ a1 a2, b, h => by
      cases b <;> simp only [Expr.beq, Bool.and_eq_true, beq_iff_eq, Bool.false_eq_true] at h
      rw [h.1.1, beq_sound a1 _ h.1.2, beq_sound a2 _ h.2]
  | .un _ a, b, h => by
      cases b <;> simp only [Expr.beq, Bool.and_eq_true, beq_iff_eq, Bool.false_eq_true] at h
      rw [h.1, beq_sound a _ h.2]
  | .cmp _ a1 a2, b, h => by
      cases b <;> simp only [Expr.beq, Bool.and_eq_true, beq_iff_eq, Bool.false_eq_true] at h
      rw [h.1.1, beq_sound a1 _ h.1.2, beq_sound a2 _ h.2]
  | .ite c t e, b, h => by
      cases b <;> simp only [Expr.beq, Bool.and_eq_true, beq_iff_eq, Bool.false_eq_true] at h
      rw [beq_sound c _ h.1.1, beq_sound t _ h.1.2, beq_sound e _ h.2]
  | .call f as, b, h => by
      cases b <;> simp only [Expr.beq, Bool.and_eq_true, beq_iff_eq, Bool.false_eq_true] at h
      rw [beq_sound f _ h.1, beqL_sound as _ h.2]
  | .callKw f as _ vs, b, h => by
      cases b <;> simp only [Expr.beq, Bool.and_eq_true, beq_iff_eq, Bool.false_eq_true] at h
      rw [beq_sound f _ h.1.1.1, beqL_sound as _ h.1.1.2, h.1.2, beqL_sound vs _ h.2]
  | .subscript a i, b, h => by
      cases b <;> simp only [Expr.beq, Bool.and_eq_true, beq_iff_eq, Bool.false_eq_true] at h
      rw [beq_sound a _ h.1, beq_sound i _ h.2]
  | .lookup a _, b, h => by
      cases b <;> simp only [Expr.beq, Bool.and_eq_true, beq_iff_eq, Bool.false_eq_true] at h
      rw [beq_sound a _ h.1, h.2]
  | .cse c _ _, b, h => by
      cases b <;> simp only [Expr.beq, Bool.and_eq_true, beq_iff_eq, Bool.false_eq_true] at h
      rw [beq_sound c _ h.1.1, h.1.2, h.2]
  | .subst c _ xs, b, h => by
      cases b <;> simp only [Expr.beq, Bool.and_eq_true, beq_iff_eq, Bool.false_eq_true] at h
      rw [beq_sound c _ h.1.1, h.1.2, beqL_sound xs _ h.2]
  | .deriv c _, b, h => by
      cases b <;> simp only [Expr.beq, Bool.and_eq_true, beq_iff_eq, Bool.false_eq_true] at h
      rw [beq_sound c _ h.1, h.2]
  | .slice cs, b, h => by
      cases b <;> simp only [Expr.beq, Bool.false_eq_true] at h
      rw [beqL_sound cs _ h]
  | .tuple cs, b, h => by
      cases b <;> simp only [Expr.beq, Bool.false_eq_true] at h
      rw [beqL_sound cs _ h]
  | .list cs, b, h => by
      cases b <;> simp only [Expr.beq, Bool.false_eq_true] at h
      rw [beqL_sound cs _ h]
theorem beqL_sound : ∀ as bs : List Expr, Expr.beqL as bs = true → as = bs
  | [], bs, h => by cases bs <;> simp_all [Expr.beqL]
  | a :: as, bs, h => by
      cases bs with
      | nil => simp [Expr.beqL] at h
      | cons b bs =>
        simp only [Expr.beqL, Bool.and_eq_true] at h
        rw [beq_sound a b h.1, beqL_sound as bs h.2]
end

theorem beq_iff (a b : Expr) : (a == b) = true ↔ a = b :=
  ⟨beq_sound a b, fun h => h ▸ beq_refl' a⟩

instance : DecidableEq Expr := fun a b =>
  if h : (a == b) = true then isTrue ((beq_iff a b).mp h)
  else isFalse (fun he => h ((beq_iff a b).mpr he))

instance exceptDecEq {ε α : Type} [DecidableEq ε] [DecidableEq α] : DecidableEq (Except ε α)
  | .ok a, .ok b => if h : a = b then isTrue (by rw [h]) else isFalse (by simpa using h)
  | .error a, .error b => if h : a = b then isTrue (by rw [h]) else isFalse (by simpa using h)
  | .ok _, .error _ => isFalse (by simp)
  | .error _, .ok _ => isFalse (by simp)

end PV.Syntax
