import PV.Proofs.UnifyTableExpected
/-
  C16 (T-gen), part 1: what the table interpreter (PV/Model/UnifyTable.lean) computes for the
  record-level functions of the table `c16Expected` — `unify_map`, `UnificationRecord(…)`,
  `UnificationRecord.unify`, `unify_many`, `unification_record_from_equation`, `treat_mismatch`,
  `UnifierBase.__init__` — in closed form: the functions of the hand-written model
  (PV/Model/Unify.lean).  Every lemma is for ALL arguments (loops by induction).
-/
open PV PV.Unify
namespace PV.Unify

theorem AMap.put_eq_append {k : String} {v : Expr} : ∀ {m : AMap}, k ∉ m.keys →
    AMap.put k v m = m ++ [(k, v)]
  | [], _ => rfl
  | (n, w) :: rest, h => by
    simp only [AMap.keys, List.map_cons, List.mem_cons, not_or] at h
    have hne : ¬ n = k := fun e => h.1 e.symm
    simp only [AMap.put, hne, if_false, List.cons_append]
    rw [AMap.put_eq_append (m := rest) (by simpa [AMap.keys] using h.2)]

theorem AMap.get_none_iff' {m : AMap} {k : String} : AMap.get m k = none ↔ k ∉ m.keys := by
  induction m with
  | nil => simp [AMap.get, AMap.keys]
  | cons p m ih =>
    obtain ⟨n, w⟩ := p
    by_cases h : n = k
    · simp [AMap.get, AMap.keys, h]
    · have h' : ¬ k = n := fun e => h e.symm
      simp [AMap.get, AMap.keys, h, h'] at ih ⊢
      simpa [AMap.keys] using ih

theorem AMap.get_some_mem' {m : AMap} {k : String} {v : Expr} (h : AMap.get m k = some v) :
    k ∈ m.keys := by
  cases hc : decide (k ∈ m.keys) with
  | true => simpa using hc
  | false =>
    have : k ∉ m.keys := by simpa using hc
    rw [AMap.get_none_iff'.2 this] at h; cases h

/-! `isUnbound` of every constructor (so that `simp` never unfolds it on an abstract value) -/
@[simp] theorem isUnbound_unbound : C16Val.unbound.isUnbound = true := rfl
@[simp] theorem isUnbound_none : C16Val.none.isUnbound = false := rfl
@[simp] theorem isUnbound_bool (b : Bool) : (C16Val.bool b).isUnbound = false := rfl
@[simp] theorem isUnbound_int (i : Int) : (C16Val.int i).isUnbound = false := rfl
@[simp] theorem isUnbound_str (s : String) : (C16Val.str s).isUnbound = false := rfl
@[simp] theorem isUnbound_obj (e : Expr) : (C16Val.obj e).isUnbound = false := rfl
@[simp] theorem isUnbound_objs (l : List Expr) : (C16Val.objs l).isUnbound = false := rfl
@[simp] theorem isUnbound_cls (c : String) : (C16Val.cls c).isUnbound = false := rfl
@[simp] theorem isUnbound_clss (l : List String) : (C16Val.clss l).isUnbound = false := rfl
@[simp] theorem isUnbound_strs (l : List String) : (C16Val.strs l).isUnbound = false := rfl
@[simp] theorem isUnbound_dict (m : AMap) : (C16Val.dict m).isUnbound = false := rfl
@[simp] theorem isUnbound_urec (r : URec) : (C16Val.urec r).isUnbound = false := rfl
@[simp] theorem isUnbound_recs (l : List URec) : (C16Val.recs l).isUnbound = false := rfl
@[simp] theorem isUnbound_idxs (l : List Nat) : (C16Val.idxs l).isUnbound = false := rfl
@[simp] theorem isUnbound_parts (l : List (List Nat)) : (C16Val.parts l).isUnbound = false := rfl
@[simp] theorem isUnbound_row (l : List (Nat × List URec)) : (C16Val.row l).isUnbound = false := rfl
@[simp] theorem isUnbound_table (l : List (List (Nat × List URec))) :
    (C16Val.table l).isUnbound = false := rfl
@[simp] theorem isUnbound_eqs (l : List (Expr × Expr)) : (C16Val.eqs l).isUnbound = false := rfl
@[simp] theorem isUnbound_eqSet : C16Val.eqSet.isUnbound = false := rfl
@[simp] theorem isUnbound_tup (a b : C16Val) : (C16Val.tup a b).isUnbound = false := rfl
@[simp] theorem isUnbound_seq (l : List C16Val) : (C16Val.seq l).isUnbound = false := rfl
@[simp] theorem isUnbound_self : C16Val.self.isUnbound = false := rfl
@[simp] theorem isUnbound_factory (o : NaryOp) : (C16Val.factory o).isUnbound = false := rfl

/-- the body of a `for` loop as a function of the item and the state -/
def c16LoopBody (cx : C16Ctx) (ts : List String) (body : List C16S) : C16Val → C16St → C16St :=
  fun v s => C16S.execList cx body (c16BindTargets s ts v)

/-- what follows the iterations of a `for` -/
def c16ForEnd (cx : C16Ctx) (orelse : List C16S) (st' : C16St) : C16St :=
  match st'.ctl with
  | .brk => { st' with ctl := .run }
  | .run => C16S.execList cx orelse st'
  | _ => st'

theorem exec_forIn (cx : C16Ctx) (ts : List String) (it : C16E) (body orelse : List C16S) (st : C16St) :
    C16S.exec cx (.forIn ts it body orelse) st =
      match it.evalIter cx st.env with
      | none => st.stuck
      | some items => c16ForEnd cx orelse (c16Loop (c16LoopBody cx ts body) items st) := by
  rfl

macro "c16eval" "[" ts:Lean.Parser.Tactic.simpLemma,* "]" : tactic =>
  `(tactic| simp [C16S.execList, C16S.exec, C16E.eval, C16E.evalArgs, C16E.evalIter, c16Lookup, C16Env.get,
      c16BindTargets, C16St.bind, C16St.stuck, C16Env.set, c16Cmp, c16Index, C16Val.truthy, c16Builtin,
      c16Meth, c16SelfCall, c16Arith, C16Val.attr, C16Val.len, C16Val.iter, $ts,*])

/-- the same without the functions that case-split on a VALUE (for goals with abstract values:
give their results as hypotheses) -/
macro "c16evalA" "[" ts:Lean.Parser.Tactic.simpLemma,* "]" : tactic =>
  `(tactic| simp [C16S.execList, C16S.exec, C16E.eval, C16E.evalArgs, C16E.evalIter, c16Lookup, C16Env.get,
      c16BindTargets, C16St.bind, C16St.stuck, C16Env.set, c16Builtin, c16Meth, c16SelfCall, $ts,*])

def umBody : List C16S :=
  [(.ifThen (.cmp .in_ (.name "name") (.name "map1")) [(.ifThen (.cmp .ne (.index (.name "map1") (.name "name")) (.name "value")) [(.ret (some .pyNone))] [])] [(.setItem "result" (.name "name") (.name "value"))])]

def umSt (a b0 res : AMap) (n v : C16Val) (attrs : C16Env) (out : List C16Val) (ctl : C16Ctl) : C16St :=
  { env := [("map1", .dict a), ("map2", .dict b0), ("result", .dict res), ("name", n), ("value", v)],
    attrs := attrs, out := out, ctl := ctl }

theorem c16Loop_unify_map (cx : C16Ctx) (a b0 : AMap) :
    ∀ (rest res : AMap) (n v : C16Val) (attrs : C16Env) (out : List C16Val),
      (rest.keys).Nodup → (∀ k ∈ rest.keys, k ∉ res.keys ∨ k ∈ a.keys) →
      let st' := c16Loop (c16LoopBody cx ["name", "value"] umBody)
        (rest.map fun p => .tup (.str p.1) (.obj p.2)) (umSt a b0 res n v attrs out .run)
      st'.attrs = attrs ∧ st'.out = out ∧
      match unifyMapGo a res rest with
        | some m => st'.ctl = .run ∧ C16Env.get "result" st'.env = some (.dict m)
        | none => st'.ctl = .ret .none := by
  intro rest
  induction rest with
  | nil => intro res n v attrs out _ _; simp [c16Loop, unifyMapGo, C16Env.get, umSt]
  | cons p rest ih =>
    intro res n v attrs out hnd hk
    obtain ⟨k, val⟩ := p
    simp only [AMap.keys, List.map_cons, List.nodup_cons] at hnd
    simp only [List.map_cons, c16Loop, unifyMapGo]
    cases hg : AMap.get a k with
    | some v1 =>
      have hmem : k ∈ a.keys := AMap.get_some_mem' hg
      by_cases hp : v1.pyEq val
      · have hstep : c16LoopBody cx ["name", "value"] umBody (.tup (.str k) (.obj val))
            (umSt a b0 res n v attrs out .run) = umSt a b0 res (.str k) (.obj val) attrs out .run := by
          simp only [c16LoopBody, umBody, umSt]
          c16eval [hg, hp, hmem]
        rw [hstep]
        simp only [hp, if_true, umSt]
        exact ih res (.str k) (.obj val) attrs out hnd.2 (fun k' hk' => hk k' (by simp [AMap.keys] at hk' ⊢; exact Or.inr hk'))
      · have hstep : c16LoopBody cx ["name", "value"] umBody (.tup (.str k) (.obj val))
            (umSt a b0 res n v attrs out .run) = umSt a b0 res (.str k) (.obj val) attrs out (.ret .none) := by
          simp only [c16LoopBody, umBody, umSt]
          c16eval [hg, hp, hmem]
        rw [hstep]
        simp [hp, umSt]
    | none =>
      have hnm : k ∉ a.keys := AMap.get_none_iff'.1 hg
      have hres : k ∉ res.keys := by
        rcases hk k (by simp [AMap.keys]) with h | h
        · exact h
        · exact absurd h hnm
      have hstep : c16LoopBody cx ["name", "value"] umBody (.tup (.str k) (.obj val))
            (umSt a b0 res n v attrs out .run)
            = umSt a b0 (res ++ [(k, val)]) (.str k) (.obj val) attrs out .run := by
          simp only [c16LoopBody, umBody, umSt]
          c16eval [hg, hnm, AMap.put_eq_append hres]
      rw [hstep]
      simp only [umSt]
      refine ih (res ++ [(k, val)]) (.str k) (.obj val) attrs out hnd.2 ?_
      intro k' hk'
      have hne : k' ≠ k := fun e => hnd.1 (by simpa [AMap.keys, e] using hk')
      rcases hk k' (by simp [AMap.keys] at hk' ⊢; exact Or.inr hk') with h | h
      · left; simp [AMap.keys] at h ⊢; exact ⟨h, hne⟩
      · exact Or.inr h

def c16OptMap : Option AMap → C16Val
  | some m => .dict m
  | none => .none

theorem c16Call_unify_map (cx : C16Ctx) (a b : AMap) (hb : b.keys.Nodup) :
    c16CallVal cx c16X_unify_map [.dict a, .dict b] = .ok (c16OptMap (unifyMap a b)) := by
  have hl := c16Loop_unify_map cx a b b a .unbound .unbound [] [] hb (fun k _ => by
    by_cases h : k ∈ a.keys
    · exact Or.inr h
    · exact Or.inl h)
  simp only [umSt] at hl
  simp only [c16CallVal, c16X_unify_map, c16RunFn, c16BindParams, Option.map, List.map, List.append]
  simp only [C16S.execList, exec_forIn]
  c16eval []
  simp only [umBody] at hl
  generalize c16Loop _ _ _ = st' at hl ⊢
  obtain ⟨env', attrs', out', ctl'⟩ := st'
  simp only at hl
  obtain ⟨rfl, rfl, h3⟩ := hl
  cases hu : unifyMapGo a a b with
  | none =>
    simp only [hu] at h3
    subst h3
    simp [c16ForEnd, unifyMap, hu, c16OptMap]
  | some m =>
    simp only [hu] at h3
    obtain ⟨rfl, hget⟩ := h3
    c16eval [c16ForEnd, hget, unifyMap, hu, c16OptMap]

/-! ### `UnificationRecord(equations[, lmap, rmap])` -/

def c16VarName : Expr → Option String
  | .var x => some x
  | _ => none

theorem c16VarName_some {e : Expr} {x : String} (h : c16VarName e = some x) : e = .var x := by
  cases e <;> simp_all [c16VarName]

theorem kind_eq_Variable (e : Expr) : (e.kind == "Variable") = (c16VarName e).isSome := by
  cases e with
  | const c => cases c <;> rfl
  | nary o _ => cases o <;> rfl
  | bin o _ _ => cases o <;> rfl
  | un o _ => cases o <;> rfl
  | _ => rfl

@[simp] theorem c16VarName_var (x : String) : c16VarName (.var x) = some x := rfl

theorem c16Attr_var_name (x : String) : (Expr.var x).c16Attr "name" = some (.str x) := rfl

/-- the record `UnificationRecord([(lhs, rhs)])` -/
def c16Rec1 (l r : Expr) : URec :=
  ⟨match c16VarName l with | some x => [(x, r)] | none => [],
   match c16VarName r with | some y => [(y, l)] | none => []⟩

theorem c16Init_empty (cx : C16Ctx) :
    c16CallInit cx c16X_Rec_init [.self, .objs []]
      = .ok [("equations", .objs []), ("lmap", .dict []), ("rmap", .dict [])] := by
  simp only [c16CallInit, c16X_Rec_init, c16RunFn, c16BindParams, Option.map, List.map]
  simp only [C16S.execList, exec_forIn]
  c16eval [c16ForEnd, c16Loop]

theorem c16Init_one (cx : C16Ctx) (l r : Expr) :
    c16CallInit cx c16X_Rec_init [.self, .eqs [(l, r)]]
      = .ok [("equations", .eqs [(l, r)]), ("lmap", .dict (c16Rec1 l r).lmap),
             ("rmap", .dict (c16Rec1 l r).rmap)] := by
  simp only [c16CallInit, c16X_Rec_init, c16RunFn, c16BindParams, Option.map, List.map]
  simp only [C16S.execList, exec_forIn]
  cases hl : c16VarName l with
  | none =>
    cases hr : c16VarName r with
    | none =>
      c16eval [c16ForEnd, c16Loop, c16LoopBody, c16IsInstance, c16KindOf, kind_eq_Variable, hl, hr,
        c16Rec1]
    | some y =>
      cases c16VarName_some hr
      c16eval [c16ForEnd, c16Loop, c16LoopBody, c16IsInstance, c16KindOf, kind_eq_Variable, hl,
        c16Rec1, AMap.put, c16Attr_var_name, c16VarName_var]
  | some x =>
    cases c16VarName_some hl
    cases hr : c16VarName r with
    | none =>
      c16eval [c16ForEnd, c16Loop, c16LoopBody, c16IsInstance, c16KindOf, kind_eq_Variable, hr,
        c16Rec1, AMap.put, c16Attr_var_name, c16VarName_var]
    | some y =>
      cases c16VarName_some hr
      c16eval [c16ForEnd, c16Loop, c16LoopBody, c16IsInstance, c16KindOf, kind_eq_Variable,
        c16Rec1, AMap.put, c16Attr_var_name, c16VarName_var]

theorem c16Init_maps (cx : C16Ctx) (l r : AMap) :
    c16CallInit cx c16X_Rec_init [.self, .eqSet, .dict l, .dict r]
      = .ok [("equations", .eqSet), ("lmap", .dict l), ("rmap", .dict r)] := by
  simp only [c16CallInit, c16X_Rec_init, c16RunFn, c16BindParams, Option.map, List.map]
  simp only [C16S.execList, exec_forIn]
  c16eval []

/-! ### the meanings the calls between the functions are given (closed forms = the model) -/

/-- a Python record: the keys of each of its two dicts are distinct -/
def URec.WF (r : URec) : Prop := r.lmap.keys.Nodup ∧ r.rmap.keys.Nodup

/-- `unification_record_from_equation(lhs, rhs)` of a `UnidirectionalUnifier(cands)` for any
`lhs` -/
def c16RecFromEqG (cands : List String) (l r : Expr) : Option URec :=
  if c16IsSeq l || c16IsSeq r then none
  else if !((c16VarName l).isSome || (c16VarName r).isSome) then none
  else match c16VarName l with
    | some x => if cands.contains x then some (c16Rec1 l r) else none
    | none => some (c16Rec1 l r)

theorem recFromEq_eq_G (cands : List String) (x : String) (rhs : Expr) :
    recFromEq cands x rhs = c16RecFromEqG cands (.var x) rhs := by
  cases rhs <;> simp [recFromEq, c16RecFromEqG, c16IsSeq, c16VarName, c16Rec1]

/-- what the callees that return a value mean: the functions of the model -/
structure C16FnSpec (cands : List String) (fn : C16Callee → List C16Val → Option C16Val) : Prop where
  unify_map : ∀ a b, b.keys.Nodup →
    fn (.modfn "unify_map") [.dict a, .dict b] = some (c16OptMap (unifyMap a b))
  ctor0 : fn (.modfn "UnificationRecord") [.objs []] = some (.urec URec.empty)
  ctor1 : ∀ l r, fn (.modfn "UnificationRecord") [.eqs [(l, r)]] = some (.urec (c16Rec1 l r))
  ctor3 : ∀ l r, fn (.modfn "UnificationRecord") [.eqSet, .dict l, .dict r] = some (.urec ⟨l, r⟩)
  unify : ∀ a b, b.WF →
    fn (.meth "UnificationRecord" "unify") [.urec a, .urec b] = some (.ofOptRec (a.unify b))
  unify_many : ∀ v us n, v.asRecs = some us → n.WF →
    fn (.modfn "unify_many") [v, .urec n] = some (.ofRecs (unifyMany us n))
  rec_from_eq : ∀ l r, fn (.self "unification_record_from_equation") [.obj l, .obj r]
    = some (.ofOptRec (c16RecFromEqG cands l r))
  treat_mismatch : ∀ e o v, v.isUnbound = false →
    fn (.self "treat_mismatch") [.obj e, .obj o, v] = some (.objs [])

/-- the attributes of `UnidirectionalUnifier(cands)` -/
def c16ModelAttrs (cands : List String) : C16Env :=
  [("lhs_mapping_candidates", .strs cands), ("rhs_mapping_candidates", .none),
   ("force_var_match", .bool true)]

/-! ### `UnificationRecord.unify` -/

theorem c16Call_unify (cands : List String) (cx : C16Ctx) (hs : C16FnSpec cands cx.fn)
    (a b : URec) (hb : b.WF) :
    c16CallVal cx c16X_Rec_unify [.urec a, .urec b] = .ok (.ofOptRec (a.unify b)) := by
  simp only [c16CallVal, c16X_Rec_unify, c16RunFn, c16BindParams, Option.map, List.map]
  cases h1 : unifyMap a.lmap b.lmap with
  | none =>
    c16eval [hs.unify_map _ _ hb.1, h1, c16OptMap, URec.unify, C16Val.ofOptRec]
  | some l =>
    cases h2 : unifyMap a.rmap b.rmap with
    | none =>
      c16eval [hs.unify_map _ _ hb.1, hs.unify_map _ _ hb.2, h1, h2, c16OptMap, URec.unify,
        C16Val.ofOptRec]
    | some r =>
      c16eval [hs.unify_map _ _ hb.1, hs.unify_map _ _ hb.2, h1, h2, c16OptMap, URec.unify,
        C16Val.ofOptRec, hs.ctor3]

/-! ### `unify_many` -/

theorem c16Append_ofRecs (acc : List URec) (r : URec) :
    c16Append (C16Val.ofRecs acc) (.urec r) = some (C16Val.ofRecs (acc ++ [r])) := by
  cases acc <;> simp [C16Val.ofRecs, c16Append]

@[simp] theorem ofRecs_nil : C16Val.ofRecs [] = .objs [] := rfl

theorem asRecs_ofRecs (l : List URec) : (C16Val.ofRecs l).asRecs = some l := by
  cases l <;> rfl

theorem iter_of_asRecs {v : C16Val} {l : List URec} (h : v.asRecs = some l) :
    v.iter = some (l.map .urec) := by
  cases v <;> simp_all [C16Val.asRecs, C16Val.iter]
  rename_i l'
  cases l' <;> simp_all [C16Val.asRecs]

theorem truthy_ofRecs (l : List URec) : (C16Val.ofRecs l).truthy = some (!l.isEmpty) := by
  cases l <;> rfl

theorem ofRecs_isUnbound (l : List URec) : (C16Val.ofRecs l).isUnbound = false := by
  cases l <;> rfl

def umyBody : List C16S :=
  [(.assign "unif_result" (.meth (.name "uni1") "unify" [(.name "uni2")])), (.ifThen (.cmp .isNot (.name "unif_result") .pyNone) [(.append "result" (.name "unif_result"))] [])]

def umySt (v1 : C16Val) (n : URec) (acc : List URec) (u r : C16Val) (attrs : C16Env)
    (out : List C16Val) : C16St :=
  { env := [("unis1", v1), ("uni2", .urec n), ("result", C16Val.ofRecs acc), ("uni1", u), ("unif_result", r)],
    attrs := attrs, out := out, ctl := .run }

theorem c16Loop_unify_many (cands : List String) (cx : C16Ctx) (hs : C16FnSpec cands cx.fn)
    (v1 : C16Val) (n : URec) (hn : n.WF) :
    ∀ (us acc : List URec) (u r : C16Val) (attrs : C16Env) (out : List C16Val),
      ∃ u' r', c16Loop (c16LoopBody cx ["uni1"] umyBody) (us.map .urec) (umySt v1 n acc u r attrs out)
        = umySt v1 n (acc ++ unifyMany us n) u' r' attrs out := by
  intro us
  induction us with
  | nil => intro acc u r attrs out; exact ⟨u, r, by simp [c16Loop, unifyMany]⟩
  | cons a us ih =>
    intro acc u r attrs out
    simp only [List.map_cons, c16Loop]
    cases hu : a.unify n with
    | none =>
      have hstep : c16LoopBody cx ["uni1"] umyBody (.urec a) (umySt v1 n acc u r attrs out)
          = umySt v1 n acc (.urec a) .none attrs out := by
        simp only [c16LoopBody, umyBody, umySt]
        c16eval [hs.unify _ _ hn, hu, C16Val.ofOptRec]
      rw [hstep]
      obtain ⟨u', r', h⟩ := ih acc (.urec a) .none attrs out
      refine ⟨u', r', ?_⟩
      simp only [umySt] at h ⊢
      rw [h]; simp [unifyMany, hu]
    | some w =>
      have hstep : c16LoopBody cx ["uni1"] umyBody (.urec a) (umySt v1 n acc u r attrs out)
          = umySt v1 n (acc ++ [w]) (.urec a) (.urec w) attrs out := by
        simp only [c16LoopBody, umyBody, umySt]
        c16eval [hs.unify _ _ hn, hu, C16Val.ofOptRec, c16Append_ofRecs]
      rw [hstep]
      obtain ⟨u', r', h⟩ := ih (acc ++ [w]) (.urec a) (.urec w) attrs out
      refine ⟨u', r', ?_⟩
      simp only [umySt] at h ⊢
      rw [h]; simp [unifyMany, hu]

theorem c16Call_unify_many (cands : List String) (cx : C16Ctx) (hs : C16FnSpec cands cx.fn)
    (v : C16Val) (us : List URec) (n : URec) (hv : v.asRecs = some us) (hn : n.WF) :
    c16CallVal cx c16X_unify_many [v, .urec n] = .ok (C16Val.ofRecs (unifyMany us n)) := by
  obtain ⟨u', r', hl⟩ := c16Loop_unify_many cands cx hs v n hn us [] .unbound .unbound [] []
  simp only [umySt, umyBody, ofRecs_nil, List.nil_append] at hl
  have hvu : v.isUnbound = false := by cases v <;> simp_all [C16Val.asRecs]
  simp only [c16CallVal, c16X_unify_many, c16RunFn, c16BindParams, Option.map, List.map]
  simp only [C16S.execList, exec_forIn]
  c16evalA [iter_of_asRecs hv, hvu]
  simp only [hl]
  c16eval [c16ForEnd, ofRecs_isUnbound]

/-! ### `unification_record_from_equation`, `treat_mismatch`, `UnifierBase.__init__` -/

theorem isSeq_iff_kind (e : Expr) :
    (decide (e.kind = "tuple") || decide (e.kind = "list")) = c16IsSeq e := by
  cases e with
  | const c => cases c <;> rfl
  | nary o _ => cases o <;> rfl
  | bin o _ _ => cases o <;> rfl
  | un o _ => cases o <;> rfl
  | _ => rfl

theorem c16Attr_name_of_var {e : Expr} {x : String} (h : c16VarName e = some x) :
    e.c16Attr "name" = some (.str x) := by
  cases c16VarName_some h; rfl

theorem c16Call_rec_from_eq (cands : List String) (cx : C16Ctx) (hs : C16FnSpec cands cx.fn)
    (ha : cx.selfAttrs = c16ModelAttrs cands) (l r : Expr) :
    c16CallVal cx c16X_Base_unification_record_from_equation [.self, .obj l, .obj r]
      = .ok (.ofOptRec (c16RecFromEqG cands l r)) := by
  simp only [c16CallVal, c16X_Base_unification_record_from_equation, c16RunFn, c16BindParams,
    Option.map, List.map]
  cases hsl : c16IsSeq l with
  | true =>
    c16evalA [c16IsInstance, c16KindOf, isSeq_iff_kind, hsl, c16RecFromEqG, C16Val.ofOptRec,
      C16Val.truthy]
  | false =>
    cases hsr : c16IsSeq r with
    | true =>
      c16evalA [c16IsInstance, c16KindOf, isSeq_iff_kind, hsl, hsr, c16RecFromEqG, C16Val.ofOptRec,
        C16Val.truthy]
    | false =>
      cases hl : c16VarName l with
      | none =>
        cases hr : c16VarName r with
        | none =>
          c16evalA [c16IsInstance, c16KindOf, isSeq_iff_kind, hsl, hsr, c16RecFromEqG, C16Val.ofOptRec,
            kind_eq_Variable, hl, hr, ha, c16ModelAttrs, C16Val.truthy, C16Val.attr, c16Cmp]
        | some y =>
          c16evalA [c16IsInstance, c16KindOf, isSeq_iff_kind, hsl, hsr, c16RecFromEqG, C16Val.ofOptRec,
            kind_eq_Variable, hl, hr, ha, c16ModelAttrs, hs.ctor1, c16Collect, C16Val.truthy,
            C16Val.attr, c16Cmp]
      | some x =>
        have hname := c16Attr_name_of_var hl
        by_cases hc : x ∈ cands
        · c16evalA [c16IsInstance, c16KindOf, isSeq_iff_kind, hsl, hsr, c16RecFromEqG, C16Val.ofOptRec,
            kind_eq_Variable, hl, ha, c16ModelAttrs, hs.ctor1, c16Collect, C16Val.truthy,
            C16Val.attr, c16Cmp, hname, hc]
        · c16evalA [c16IsInstance, c16KindOf, isSeq_iff_kind, hsl, hsr, c16RecFromEqG, C16Val.ofOptRec,
            kind_eq_Variable, hl, ha, c16ModelAttrs, hs.ctor1, c16Collect, C16Val.truthy,
            C16Val.attr, c16Cmp, hname, hc]

theorem c16Call_treat_mismatch (cx : C16Ctx) (e o : Expr) (v : C16Val) :
    c16CallVal cx c16X_Uni_treat_mismatch [.self, .obj e, .obj o, v] = .ok (.objs []) := by
  simp only [c16CallVal, c16X_Uni_treat_mismatch, c16RunFn, c16BindParams, Option.map, List.map]
  c16eval []

theorem c16Init_mapper (cx : C16Ctx) (cands : List String) :
    c16CallInit cx c16X_Base_init [.self, .strs cands] = .ok (c16ModelAttrs cands) := by
  simp only [c16CallInit, c16X_Base_init, c16RunFn, c16BindParams, Option.map, List.map]
  c16eval [c16ModelAttrs]

/-- **the attributes of `UnidirectionalUnifier(cands)`** as the table's `__init__` leaves them -/
theorem c16MapperAttrs_expected (cands : List String) :
    c16MapperAttrs c16Expected cands = c16ModelAttrs cands := by
  have hr : c16Resolve c16Expected c16Mapper "__init__" = some "UnifierBase.__init__" := by decide
  have hf : c16FindFn c16Expected "UnifierBase.__init__" = some c16X_Base_init := by rfl
  simp only [c16MapperAttrs, hr, hf, c16Init_mapper]

end PV.Unify
