import PV.Model.SubstCache
import PV.Proofs.Subterm
import PV.Proofs.PyEqEquiv
/-
  C08, the memoizing mapper.  Generic form of the model (`csubst_generic`, `substE_generic`), an
  abstract invariant theorem for the memo table (`csubst_rel`), and its two instances:
  results equal the plain mapper's up to Python `==` (`Expr.pyEq`) on well-formed trees, and
  exactly when no two trees in play are `==`-confusable.
-/
namespace PV
set_option linter.unusedSimpArgs false

/-! ### positional relation between two lists -/

def relL (P : Expr → Expr → Prop) : List Expr → List Expr → Prop
  | [], [] => True
  | a :: as, b :: bs => P a b ∧ relL P as bs
  | _, _ => False

theorem relL_length {P : Expr → Expr → Prop} : ∀ {as bs : List Expr}, relL P as bs →
    as.length = bs.length
  | [], [], _ => rfl
  | [], _ :: _, h => h.elim
  | _ :: _, [], h => h.elim
  | _ :: as, _ :: bs, h => by simp [relL_length h.2]

theorem relL_mono {P Q : Expr → Expr → Prop} : ∀ {as bs : List Expr},
    (∀ a ∈ as, ∀ b ∈ bs, P a b → Q a b) → relL P as bs → relL Q as bs
  | [], [], _, _ => trivial
  | [], _ :: _, _, h => h.elim
  | _ :: _, [], _, h => h.elim
  | a :: as, b :: bs, hpq, h =>
    ⟨hpq a (by simp) b (by simp) h.1,
     relL_mono (fun a' ha' b' hb' => hpq a' (by simp [ha']) b' (by simp [hb'])) h.2⟩

theorem relL_append {P : Expr → Expr → Prop} : ∀ {as bs cs ds : List Expr},
    relL P as bs → relL P cs ds → relL P (as ++ cs) (bs ++ ds)
  | [], [], _, _, _, h => h
  | [], _ :: _, _, _, h, _ => h.elim
  | _ :: _, [], _, _, h, _ => h.elim
  | _ :: _, _ :: _, _, _, h1, h2 => ⟨h1.1, relL_append h1.2 h2⟩

theorem relL_split {P : Expr → Expr → Prop} : ∀ {as cs rest : List Expr},
    relL P (as ++ cs) rest → relL P as (rest.take as.length) ∧ relL P cs (rest.drop as.length)
  | [], _, _, h => ⟨by simp [relL], by simpa using h⟩
  | _ :: _, _, [], h => h.elim
  | a :: as, cs, r :: rest, h => by
    have := relL_split (as := as) (cs := cs) (rest := rest) h.2
    exact ⟨⟨h.1, by simpa using this.1⟩, by simpa using this.2⟩

theorem relL_map_eq {f : Expr → Expr} : ∀ {cs vs : List Expr},
    relL (fun c v => v = f c) cs vs → vs = cs.map f
  | [], [], _ => rfl
  | [], _ :: _, h => h.elim
  | _ :: _, [], h => h.elim
  | _ :: _, _ :: _, h => by simp [h.1, relL_map_eq h.2]

theorem relL_map {P : Expr → Expr → Prop} {f : Expr → Expr} : ∀ (cs : List Expr),
    (∀ c ∈ cs, P c (f c)) → relL P cs (cs.map f)
  | [], _ => trivial
  | c :: cs, h => ⟨h c (by simp), relL_map cs (fun c' hc' => h c' (by simp [hc']))⟩

/-! ### generic form of the plain substitution -/

theorem substEL_map (σ : SubstMap) : ∀ cs : List Expr, substEL σ cs = cs.map (substE σ)
  | [] => by simp only [substEL, List.map]
  | c :: cs => by simp only [substEL, List.map, substEL_map σ cs]

/-- the plain mapper, one level: interception, else the handler's rebuild of the mapped children -/
theorem substE_generic (σ : SubstMap) (e : Expr) :
    substE σ e = match c08Intercept σ e with
      | some r => r
      | none => c08Build e (e.children.map (substE σ)) := by
  cases e <;> simp only [substE, c08Intercept, c08Build, Expr.c08WithKids, Expr.children, List.map,
    substEL_map]
  case var x => cases σ.apply (.var x) <;> rfl
  case subscript a i => cases σ.apply (.subscript a i) <;> rfl
  case lookup a n => cases σ.apply (.lookup a n) <;> rfl
  case callKw f as ns vs => simp [List.map_append]

/-! ### generic form of the memoizing mapper -/

theorem csubstL_length (σ : SubstMap) : ∀ (cs : List Expr) (m : C08Cache),
    (csubstL σ cs m).1.length = cs.length
  | [], _ => by simp [csubstL]
  | c :: cs, m => by simp [csubstL, csubstL_length σ cs]

theorem csubstL_append (σ : SubstMap) : ∀ (as bs : List Expr) (m : C08Cache),
    csubstL σ (as ++ bs) m =
      ((csubstL σ as m).1 ++ (csubstL σ bs (csubstL σ as m).2).1,
       (csubstL σ bs (csubstL σ as m).2).2)
  | [], bs, m => by simp [csubstL]
  | a :: as, bs, m => by simp [csubstL, csubstL_append σ as bs]

/-- `CachedSubstitutionMapper.rec`, one level: look-aside, then interception or the handler's
rebuild of the children's results (dispatched left to right on the shared table), then store -/
theorem csubst_generic (σ : SubstMap) (e : Expr) (m : C08Cache) (h : e ≠ .const .none) :
    csubst σ e m = c08Memo σ e m (csubstL σ e.children) := by
  cases e with
  | const c => cases c <;> first | exact absurd rfl h | (simp only [csubst, Expr.children]; rfl)
  | call f as => simp only [csubst, Expr.children]; rfl
  | callKw f as ns vs =>
    simp only [csubst, Expr.children]
    congr 1
    funext m
    simp [csubstL, csubstL_append]
  | subst c vars xs => simp only [csubst, Expr.children]; rfl
  | _ => simp only [csubst, Expr.children] <;> rfl

theorem c08Find_some {k : Expr} : ∀ {m : C08Cache} {v : Expr}, c08Find k m = some v →
    ∃ k', (k', v) ∈ m ∧ k'.keyEq k = true
  | [], _, h => by simp [c08Find] at h
  | (k', v') :: m, v, h => by
    simp only [c08Find] at h
    by_cases hk : k'.keyEq k = true
    · simp only [hk, if_true, Option.some.injEq] at h
      subst h; exact ⟨k', by simp, hk⟩
    · simp only [hk, Bool.false_eq_true, if_false] at h
      obtain ⟨k'', h1, h2⟩ := c08Find_some h
      exact ⟨k'', by simp [h1], h2⟩

/-! ### the abstract invariant -/

/-- what a relation `P key result` must satisfy to be maintained by the memo table; `G` are the
admissible queries -/
structure CacheRel (σ : SubstMap) (G : Expr → Prop) (P : Expr → Expr → Prop) : Prop where
  child : ∀ e, G e → ∀ c ∈ e.children, G c
  transfer : ∀ k e v, G k → G e → k.keyEq e = true → P k v → P e v
  hit : ∀ e r, G e → c08Intercept σ e = some r → P e r
  build : ∀ e vs, G e → c08Intercept σ e = none → relL P e.children vs → P e (c08Build e vs)
  noneC : P (.const .none) (.const .none)

def CInv (G : Expr → Prop) (P : Expr → Expr → Prop) (m : C08Cache) : Prop :=
  ∀ k v, (k, v) ∈ m → G k ∧ P k v

theorem csubstL_rel_of {σ : SubstMap} {G : Expr → Prop} {P : Expr → Expr → Prop} :
    ∀ (cs : List Expr),
    (∀ c ∈ cs, ∀ m, CInv G P m → CInv G P (csubst σ c m).2 ∧ P c (csubst σ c m).1) →
    ∀ m, CInv G P m → CInv G P (csubstL σ cs m).2 ∧ relL P cs (csubstL σ cs m).1
  | [], _, m, hm => by simpa [csubstL, relL] using hm
  | c :: cs, ih, m, hm => by
    have h1 := ih c (by simp) m hm
    have h2 := csubstL_rel_of cs (fun c' hc' => ih c' (by simp [hc'])) _ h1.1
    simp only [csubstL]
    exact ⟨h2.1, h1.2, h2.2⟩

/-- **Memo-table invariant.**  Every entry relates its key to its value, and every answer relates
the query to the result — for any relation that the handlers preserve (`CacheRel`). -/
theorem csubst_rel {σ : SubstMap} {G : Expr → Prop} {P : Expr → Expr → Prop}
    (hR : CacheRel σ G P) (e : Expr) :
    G e → ∀ m, CInv G P m → CInv G P (csubst σ e m).2 ∧ P e (csubst σ e m).1 := by
  induction e using Expr.induct with | _ e ih => ?_
  intro hG m hm
  by_cases hn : e = .const .none
  · subst hn; simp only [csubst]; exact ⟨hm, hR.noneC⟩
  rw [csubst_generic σ e m hn]
  simp only [c08Memo]
  cases hf : c08Find e m with
  | some v =>
    obtain ⟨k, hk, hke⟩ := c08Find_some hf
    exact ⟨hm, hR.transfer k e v (hm k v hk).1 hG hke (hm k v hk).2⟩
  | none =>
    simp only [c08Handler]
    cases hi : c08Intercept σ e with
    | some r =>
      have hp := hR.hit e r hG hi
      refine ⟨?_, hp⟩
      intro k v hkv
      simp only [List.mem_cons, Prod.mk.injEq] at hkv
      rcases hkv with ⟨rfl, rfl⟩ | hkv
      · exact ⟨hG, hp⟩
      · exact hm k v hkv
    | none =>
      have hk := csubstL_rel_of e.children
        (fun c hc => ih c hc (hR.child e hG c hc)) m hm
      have hp := hR.build e _ hG hi hk.2
      refine ⟨?_, hp⟩
      intro k v hkv
      simp only [List.mem_cons, Prod.mk.injEq] at hkv
      rcases hkv with ⟨rfl, rfl⟩ | hkv
      · exact ⟨hG, hp⟩
      · exact hk.1 k v hkv


/-! ### instance 1: exact equality when no two admissible trees are confusable -/

/-- `U` is closed under taking children and no two of its members are equal as memo-table keys
(`type(a) is type(b) and a == b`) without being the same tree -/
structure NoConfuse (U : Expr → Prop) : Prop where
  child : ∀ e, U e → ∀ c ∈ e.children, U c
  inj : ∀ a b, U a → U b → a.keyEq b = true → a = b

theorem cacheRel_eq (σ : SubstMap) {U : Expr → Prop} (hU : NoConfuse U) :
    CacheRel σ U (fun e v => v = substE σ e) where
  child := hU.child
  transfer := fun k e v hk he hke hp => by rw [← hU.inj k e hk he hke]; exact hp
  hit := fun e r _ hi => by rw [substE_generic, hi]
  build := fun e vs _ hi hrel => by rw [substE_generic, hi, relL_map_eq hrel]
  noneC := by simp [substE]

/-! ### instance 2: equality up to Python `==` on well-formed trees -/

/-- keys and replacements are well-formed (no nan, keyword names distinct) -/
structure SubstMap.WF (σ : SubstMap) : Prop where
  keys : ∀ p ∈ σ.byExpr, p.1.wf = true
  vals : ∀ p ∈ σ.byExpr, p.2.wf = true
  nvals : ∀ p ∈ σ.byName, p.2.wf = true

theorem wf_children {e : Expr} (h : e.wf = true) : ∀ c ∈ e.children, c.wf = true := by
  intro c hc
  cases e <;> simp only [Expr.children, List.mem_cons, List.mem_append, List.not_mem_nil,
    or_false] at hc <;>
    simp only [Expr.wf, Bool.and_eq_true, wfL_iff, decide_eq_true_eq, beq_iff_eq] at h
  all_goals first
    | exact h c hc
    | (rcases hc with rfl | rfl | rfl <;> simp_all)
    | (rcases hc with rfl | rfl <;> simp_all)
    | (rcases hc with rfl | hc | hc
       · exact h.1.1.1.1
       · exact h.1.1.1.2 c hc
       · exact h.2 c hc)
    | (rcases hc with rfl | hc
       · exact h.1
       · exact h.2 c hc)
    | (subst hc; simp_all)
    | simp at hc

theorem Const.truthy_congr {a b : Const} (h : a.pyEq b = true) : a.truthy = b.truthy := by
  unfold Const.pyEq at h
  split at h
  · rename_i n d n' d' h1 h2
    have hd := Const.numVal?_den h1
    have hd' := Const.numVal?_den h2
    simp only [beq_iff_eq] at h
    have key : n = 0 ↔ n' = 0 := by
      constructor
      · intro h0; subst h0
        have : n' * (d : Int) = 0 := by simpa using h.symm
        rcases Int.mul_eq_zero.mp this with h | h
        · exact h
        · omega
      · intro h0; subst h0
        have : n * (d' : Int) = 0 := by simpa using h
        rcases Int.mul_eq_zero.mp this with h | h
        · exact h
        · omega
    cases a <;> cases b <;> simp only [Const.numVal?] at h1 h2 <;> simp only [Const.truthy]
    all_goals (try split at h1) <;> (try split at h2)
    all_goals (simp only [Option.some.injEq, Prod.mk.injEq, reduceCtorEq] at h1 h2)
    all_goals grind
  · rename_i h1 h2
    split at h <;> simp_all [Const.truthy]
  · simp at h

theorem truthy_congr (a : Expr) : ∀ b : Expr, a.pyEq b = true → a.truthy = b.truthy := by
  induction a using Expr.induct with | _ a ih => ?_
  intro b h
  cases a <;> cases b <;>
    simp only [Expr.pyEq, Bool.false_eq_true, Bool.and_eq_true, beq_iff_eq] at h <;>
    try (simp only [Expr.truthy]; done)
  case const.const c c' => simp only [Expr.truthy]; exact Const.truthy_congr h
  case nary.nary o cs o' cs' =>
    obtain ⟨rfl, h2⟩ := h
    simp only [Expr.children] at ih
    cases o <;> simp only [Expr.truthy]
    · -- sum
      match cs, cs', h2 with
      | [], [], _ => rfl
      | [c], [c'], h2 =>
        simp only [Expr.pyEqL, Bool.and_eq_true] at h2
        simp only [Expr.truthySum]; exact ih c (by simp) c' h2.1
      | _ :: _ :: _, _ :: _ :: _, _ => rfl
      | [], _ :: _, h2 => simp [Expr.pyEqL] at h2
      | _ :: _, [], h2 => simp [Expr.pyEqL] at h2
      | [_], _ :: _ :: _, h2 => simp [Expr.pyEqL] at h2
      | _ :: _ :: _, [_], h2 => simp [Expr.pyEqL] at h2
    · -- product
      revert cs' h2
      induction cs with
      | nil => intro cs' h2; cases cs' <;> simp_all [Expr.pyEqL, Expr.truthyProd]
      | cons c cs ihl =>
        intro cs' h2
        cases cs' with
        | nil => simp [Expr.pyEqL] at h2
        | cons c' cs' =>
          simp only [Expr.pyEqL, Bool.and_eq_true] at h2
          simp only [Expr.truthyProd, ih c (by simp) c' h2.1,
            ihl (fun x hx => ih x (by simp [hx])) cs' h2.2]
  case bin.bin o x y o' x' y' =>
    obtain ⟨⟨rfl, h1⟩, _⟩ := h
    simp only [Expr.children, List.mem_cons, List.not_mem_nil, or_false] at ih
    cases o <;> simp only [Expr.truthy] <;> exact ih x (Or.inl rfl) x' h1
  case tuple.tuple cs cs' =>
    simp only [Expr.truthy]
    cases cs <;> cases cs' <;> simp_all [Expr.pyEqL]
  case list.list cs cs' =>
    simp only [Expr.truthy]
    cases cs <;> cases cs' <;> simp_all [Expr.pyEqL]


/-- two result lists are positionally well-formed and `==` -/
abbrev WfEq (v w : Expr) : Prop := v.wf = true ∧ w.wf = true ∧ v.pyEq w = true

theorem relL_lists : ∀ {vs ws : List Expr}, relL WfEq vs ws →
    Expr.wfL vs = true ∧ Expr.wfL ws = true ∧ Expr.pyEqL vs ws = true
  | [], [], _ => by simp [Expr.wfL, Expr.pyEqL]
  | [], _ :: _, h => h.elim
  | _ :: _, [], h => h.elim
  | v :: vs, w :: ws, h => by
    have ih := relL_lists h.2
    simp only [Expr.wfL, Expr.pyEqL, Bool.and_eq_true]
    exact ⟨⟨h.1.1, ih.1⟩, ⟨h.1.2.1, ih.2.1⟩, h.1.2.2, ih.2.2⟩

theorem relL_take {P : Expr → Expr → Prop} (n : Nat) : ∀ {vs ws : List Expr}, relL P vs ws →
    relL P (vs.take n) (ws.take n) := by
  induction n with
  | zero => intro vs ws _; simp [relL]
  | succ n ih =>
    intro vs ws h
    cases vs <;> cases ws <;> simp only [relL, List.take_succ_cons, List.take_nil] at h ⊢
    exact ⟨h.1, ih h.2⟩

theorem relL_drop {P : Expr → Expr → Prop} (n : Nat) : ∀ {vs ws : List Expr}, relL P vs ws →
    relL P (vs.drop n) (ws.drop n) := by
  induction n with
  | zero => intro vs ws h; simpa using h
  | succ n ih =>
    intro vs ws h
    cases vs <;> cases ws <;> simp only [relL, List.drop_succ_cons, List.drop_nil] at h ⊢
    exact ih h.2

theorem relL_zip {P : Expr → Expr → Prop} : ∀ {ns : List String} {vs ws : List Expr},
    relL P vs ws → ∀ n v, (n, v) ∈ ns.zip vs → ∃ w, (n, w) ∈ ns.zip ws ∧ P v w
  | [], _, _, _, _, _, hm => by simp at hm
  | _ :: _, [], _, _, _, _, hm => by simp at hm
  | _ :: _, _ :: _, [], h, _, _, _ => h.elim
  | m :: ns, v' :: vs, w' :: ws, h, n, v, hm => by
    simp only [List.zip_cons_cons, List.mem_cons, Prod.mk.injEq] at hm ⊢
    rcases hm with ⟨rfl, rfl⟩ | hm
    · exact ⟨w', Or.inl ⟨rfl, rfl⟩, h.1⟩
    · obtain ⟨w, hw, hp⟩ := relL_zip h.2 n v hm
      exact ⟨w, Or.inr hw, hp⟩

theorem wf_zero : zero.wf = true := by decide
theorem pyEq_zero : zero.pyEq zero = true := by decide

/-- the handlers' rebuild respects well-formedness and `==`, child by child -/
theorem c08Build_congr {e : Expr} (he : e.wf = true) {vs ws : List Expr}
    (hlen : vs.length = e.children.length) (hrel : relL WfEq vs ws) :
    (c08Build e vs).wf = true ∧ (c08Build e ws).wf = true ∧
      (c08Build e vs).pyEq (c08Build e ws) = true := by
  have hrefl := pyEq_refl e he
  have hl2 := relL_length hrel
  cases e with
  | nary o cs =>
    simp only [c08Build, Expr.c08WithKids, Expr.wf, Expr.pyEq, Bool.and_eq_true, beq_self_eq_true,
      true_and]
    exact relL_lists hrel
  | slice cs =>
    simp only [c08Build, Expr.c08WithKids, Expr.wf, Expr.pyEq]
    exact relL_lists hrel
  | tuple cs =>
    simp only [c08Build, Expr.c08WithKids, Expr.wf, Expr.pyEq]
    exact relL_lists hrel
  | list cs =>
    simp only [c08Build, Expr.c08WithKids, Expr.wf, Expr.pyEq]
    exact relL_lists hrel
  | call f as =>
    rcases vs with _ | ⟨vf, vas⟩ <;> simp only [Expr.children, List.length_cons, List.length_nil,
      Nat.add_one_ne_zero, reduceCtorEq] at hlen
    rcases ws with _ | ⟨wf', was⟩ <;> simp only [relL] at hrel
    have hL := relL_lists hrel.2
    simp only [c08Build, Expr.c08WithKids, Expr.wf, Expr.pyEq, Bool.and_eq_true]
    exact ⟨⟨hrel.1.1, hL.1⟩, ⟨hrel.1.2.1, hL.2.1⟩, hrel.1.2.2, hL.2.2⟩
  | subst c vars xs =>
    rcases vs with _ | ⟨vf, vas⟩ <;> simp only [Expr.children, List.length_cons, List.length_nil,
      Nat.add_one_ne_zero, reduceCtorEq] at hlen
    rcases ws with _ | ⟨wf', was⟩ <;> simp only [relL] at hrel
    have hL := relL_lists hrel.2
    simp only [c08Build, Expr.c08WithKids, Expr.wf, Expr.pyEq, Bool.and_eq_true, beq_self_eq_true,
      and_true]
    exact ⟨⟨hrel.1.1, hL.1⟩, ⟨hrel.1.2.1, hL.2.1⟩, hrel.1.2.2, hL.2.2⟩
  | callKw f as ns vs0 =>
    rcases vs with _ | ⟨vf, vr⟩ <;> simp only [Expr.children, List.length_cons, List.length_nil,
      List.length_append, Nat.add_one_ne_zero, reduceCtorEq] at hlen
    rcases ws with _ | ⟨wf', wr⟩ <;> simp only [relL] at hrel
    simp only [Expr.wf, Bool.and_eq_true, decide_eq_true_eq, beq_iff_eq] at he
    obtain ⟨⟨⟨⟨_, _⟩, hnd⟩, hnl⟩, _⟩ := he
    have hT := relL_lists (relL_take as.length hrel.2)
    have hD := relL_lists (relL_drop as.length hrel.2)
    have hlw : wr.length = vr.length := by
      have := relL_length hrel.2; omega
    simp only [c08Build, Expr.c08WithKids, Expr.wf, Expr.pyEq, Bool.and_eq_true,
      decide_eq_true_eq, beq_iff_eq, List.length_drop]
    refine ⟨⟨⟨⟨⟨hrel.1.1, hT.1⟩, hnd⟩, by omega⟩, hD.1⟩,
      ⟨⟨⟨⟨hrel.1.2.1, hT.2.1⟩, hnd⟩, by omega⟩, hD.2.1⟩,
      ⟨⟨hrel.1.2.2, hT.2.2⟩, trivial⟩, ?_⟩
    rw [pyEqKw_iff hnd]
    intro n v hm
    obtain ⟨w, hw, hp⟩ := relL_zip (relL_drop as.length hrel.2) n v hm
    exact ⟨w, hw, hp.2.2⟩
  | cse c p sc =>
    rcases vs with _ | ⟨vc, _ | ⟨_, _⟩⟩ <;> simp only [Expr.children, List.length_cons,
      List.length_nil, Nat.add_one_ne_zero, reduceCtorEq, Nat.add_eq_zero_iff, and_false,
      Nat.add_right_cancel_iff, Nat.add_eq_right] at hlen
    rcases ws with _ | ⟨wc, _ | ⟨_, _⟩⟩ <;> simp only [relL, and_false] at hrel
    have hz : vc.isZero = wc.isZero := by
      simp only [Expr.isZero, truthy_congr vc wc hrel.1.2.2]
    simp only [c08Build, ← hz]
    cases vc.isZero
    · simp only [Bool.false_eq_true, if_false, Expr.wf, Expr.pyEq, Bool.and_eq_true,
        beq_self_eq_true, and_true]
      exact ⟨hrel.1.1, hrel.1.2.1, hrel.1.2.2⟩
    · simp only [if_true]; exact ⟨wf_zero, wf_zero, pyEq_zero⟩
  | bin o a b =>
    rcases vs with _ | ⟨v1, _ | ⟨v2, _ | ⟨_, _⟩⟩⟩ <;> simp [Expr.children] at hlen
    rcases ws with _ | ⟨w1, _ | ⟨w2, _ | ⟨_, _⟩⟩⟩ <;> simp only [relL, and_false] at hrel
    simp only [c08Build, Expr.c08WithKids, Expr.wf, Expr.pyEq, Bool.and_eq_true, beq_self_eq_true,
      true_and]
    exact ⟨⟨hrel.1.1, hrel.2.1.1⟩, ⟨hrel.1.2.1, hrel.2.1.2.1⟩, hrel.1.2.2, hrel.2.1.2.2⟩
  | cmp o a b =>
    rcases vs with _ | ⟨v1, _ | ⟨v2, _ | ⟨_, _⟩⟩⟩ <;> simp [Expr.children] at hlen
    rcases ws with _ | ⟨w1, _ | ⟨w2, _ | ⟨_, _⟩⟩⟩ <;> simp only [relL, and_false] at hrel
    simp only [c08Build, Expr.c08WithKids, Expr.wf, Expr.pyEq, Bool.and_eq_true, beq_self_eq_true,
      true_and]
    exact ⟨⟨hrel.1.1, hrel.2.1.1⟩, ⟨hrel.1.2.1, hrel.2.1.2.1⟩, hrel.1.2.2, hrel.2.1.2.2⟩
  | subscript a b =>
    rcases vs with _ | ⟨v1, _ | ⟨v2, _ | ⟨_, _⟩⟩⟩ <;> simp [Expr.children] at hlen
    rcases ws with _ | ⟨w1, _ | ⟨w2, _ | ⟨_, _⟩⟩⟩ <;> simp only [relL, and_false] at hrel
    simp only [c08Build, Expr.c08WithKids, Expr.wf, Expr.pyEq, Bool.and_eq_true]
    exact ⟨⟨hrel.1.1, hrel.2.1.1⟩, ⟨hrel.1.2.1, hrel.2.1.2.1⟩, hrel.1.2.2, hrel.2.1.2.2⟩
  | ite a b c =>
    rcases vs with _ | ⟨v1, _ | ⟨v2, _ | ⟨v3, _ | ⟨_, _⟩⟩⟩⟩ <;> simp [Expr.children] at hlen
    rcases ws with _ | ⟨w1, _ | ⟨w2, _ | ⟨w3, _ | ⟨_, _⟩⟩⟩⟩ <;>
      simp only [relL, and_false] at hrel
    simp only [c08Build, Expr.c08WithKids, Expr.wf, Expr.pyEq, Bool.and_eq_true]
    exact ⟨⟨⟨hrel.1.1, hrel.2.1.1⟩, hrel.2.2.1.1⟩, ⟨⟨hrel.1.2.1, hrel.2.1.2.1⟩, hrel.2.2.1.2.1⟩,
      ⟨hrel.1.2.2, hrel.2.1.2.2⟩, hrel.2.2.1.2.2⟩
  | un o a =>
    rcases vs with _ | ⟨v1, _ | ⟨_, _⟩⟩ <;> simp [Expr.children] at hlen
    rcases ws with _ | ⟨w1, _ | ⟨_, _⟩⟩ <;> simp only [relL, and_false] at hrel
    simp only [c08Build, Expr.c08WithKids, Expr.wf, Expr.pyEq, Bool.and_eq_true, beq_self_eq_true,
      true_and]
    exact ⟨hrel.1.1, hrel.1.2.1, hrel.1.2.2⟩
  | lookup a n =>
    rcases vs with _ | ⟨v1, _ | ⟨_, _⟩⟩ <;> simp [Expr.children] at hlen
    rcases ws with _ | ⟨w1, _ | ⟨_, _⟩⟩ <;> simp only [relL, and_false] at hrel
    simp only [c08Build, Expr.c08WithKids, Expr.wf, Expr.pyEq, Bool.and_eq_true, beq_self_eq_true,
      and_true]
    exact ⟨hrel.1.1, hrel.1.2.1, hrel.1.2.2⟩
  | deriv a vars =>
    rcases vs with _ | ⟨v1, _ | ⟨_, _⟩⟩ <;> simp [Expr.children] at hlen
    rcases ws with _ | ⟨w1, _ | ⟨_, _⟩⟩ <;> simp only [relL, and_false] at hrel
    simp only [c08Build, Expr.c08WithKids, Expr.wf, Expr.pyEq, Bool.and_eq_true, beq_self_eq_true,
      and_true]
    exact ⟨hrel.1.1, hrel.1.2.1, hrel.1.2.2⟩
  | _ =>
    rcases vs with _ | ⟨_, _⟩ <;> simp [Expr.children] at hlen
    rcases ws with _ | ⟨_, _⟩ <;> simp only [relL] at hrel
    simp only [c08Build, Expr.c08WithKids]
    exact ⟨he, he, hrefl⟩


/-! ### `make_subst_func` and the plain mapper respect `==` -/

theorem find?_congr {α : Type} {p q : α → Bool} : ∀ {l : List α}, (∀ x ∈ l, p x = q x) →
    l.find? p = l.find? q
  | [], _ => rfl
  | x :: l, h => by
    simp only [List.find?_cons, h x (by simp)]
    cases q x
    · exact find?_congr (fun y hy => h y (by simp [hy]))
    · rfl

theorem findExpr_congr {σ : SubstMap} (hσ : σ.WF) {a b : Expr} (ha : a.wf = true)
    (hb : b.wf = true) (h : a.pyEq b = true) : σ.findExpr a = σ.findExpr b := by
  simp only [SubstMap.findExpr]
  rw [find?_congr (q := fun p => p.1.pyEq b)]
  intro p hp
  have hk := hσ.keys p hp
  rw [Bool.eq_iff_iff]
  exact ⟨fun h1 => pyEq_trans p.1 a b hk ha hb h1 h,
    fun h2 => pyEq_trans p.1 b a hk hb ha h2 (pyEq_symm a b ha hb h)⟩

theorem relL_self : ∀ {vs : List Expr}, (∀ v ∈ vs, v.wf = true) → relL WfEq vs vs
  | [], _ => trivial
  | v :: vs, h =>
    ⟨⟨h v (by simp), h v (by simp), pyEq_refl v (h v (by simp))⟩,
     relL_self (fun w hw => h w (by simp [hw]))⟩

theorem apply_wf {σ : SubstMap} (hσ : σ.WF) {e r : Expr} (h : σ.apply e = some r) :
    r.wf = true := by
  simp only [SubstMap.apply, SubstMap.findExpr, SubstMap.findName] at h
  cases hq : σ.byExpr.find? (fun p => p.1.pyEq e) with
  | some p =>
    simp only [hq, Option.some.injEq] at h
    rw [← h]; exact hσ.vals p (List.mem_of_find?_eq_some hq)
  | none =>
    simp only [hq] at h
    cases e <;> simp only [reduceCtorEq] at h
    rename_i x
    cases hn : σ.byName.find? (fun p => p.1 == x) with
    | some p =>
      simp only [hn, Option.some.injEq] at h
      rw [← h]; exact hσ.nvals p (List.mem_of_find?_eq_some hn)
    | none => simp [hn] at h

theorem intercept_wf {σ : SubstMap} (hσ : σ.WF) {e r : Expr} (h : c08Intercept σ e = some r) :
    r.wf = true := by
  cases e <;> simp only [c08Intercept, reduceCtorEq] at h <;> exact apply_wf hσ h

theorem intercept_congr {σ : SubstMap} (hσ : σ.WF) {a b : Expr} (ha : a.wf = true)
    (hb : b.wf = true) (h : a.pyEq b = true) : c08Intercept σ a = c08Intercept σ b := by
  have hf := findExpr_congr hσ ha hb h
  cases a <;> cases b <;> simp only [Expr.pyEq, Bool.false_eq_true, Bool.and_eq_true,
    beq_iff_eq] at h <;> simp only [c08Intercept, SubstMap.apply, hf]
  case var.var x y => subst h; rfl

theorem substE_wf {σ : SubstMap} (hσ : σ.WF) (e : Expr) : e.wf = true → (substE σ e).wf = true := by
  induction e using Expr.induct with | _ e ih => ?_
  intro he
  rw [substE_generic]
  cases hi : c08Intercept σ e with
  | some r => exact intercept_wf hσ hi
  | none =>
    have hc := wf_children he
    refine (c08Build_congr he (by simp) (relL_self ?_)).1
    intro v hv
    simp only [List.mem_map] at hv
    obtain ⟨c, hc', rfl⟩ := hv
    exact ih c hc' (hc c hc')


theorem pyEqL_substEL {σ : SubstMap} : ∀ {as bs : List Expr},
    (∀ c ∈ as, c.wf = true → ∀ b : Expr, b.wf = true → c.pyEq b = true →
      (substE σ c).pyEq (substE σ b) = true) →
    (∀ c ∈ as, c.wf = true) → (∀ c ∈ bs, c.wf = true) → Expr.pyEqL as bs = true →
    Expr.pyEqL (substEL σ as) (substEL σ bs) = true
  | [], [], _, _, _, _ => by simp [substEL, Expr.pyEqL]
  | [], _ :: _, _, _, _, h => by simp [Expr.pyEqL] at h
  | _ :: _, [], _, _, _, h => by simp [Expr.pyEqL] at h
  | a :: as, b :: bs, ih, ha, hb, h => by
    simp only [Expr.pyEqL, Bool.and_eq_true] at h
    simp only [substEL, Expr.pyEqL, Bool.and_eq_true]
    exact ⟨ih a (by simp) (ha a (by simp)) b (hb b (by simp)) h.1,
      pyEqL_substEL (fun c hc => ih c (by simp [hc])) (fun c hc => ha c (by simp [hc]))
        (fun c hc => hb c (by simp [hc])) h.2⟩

theorem assocLookupE_map (f : Expr → Expr) (n : String) : ∀ (ms : List String) (ws : List Expr),
    assocLookupE n ms (ws.map f) = (assocLookupE n ms ws).map f
  | [], _ => by simp [assocLookupE]
  | _ :: _, [] => by simp [assocLookupE]
  | m :: ms, w :: ws => by
    simp only [List.map, assocLookupE]
    split
    · rfl
    · exact assocLookupE_map f n ms ws

theorem mem_zip_map {f : Expr → Expr} {n : String} {v : Expr} : ∀ {ns : List String}
    {vs : List Expr}, (n, v) ∈ ns.zip (vs.map f) → ∃ v0, (n, v0) ∈ ns.zip vs ∧ v = f v0
  | [], _, h => by simp at h
  | _ :: _, [], h => by simp at h
  | m :: ns, w :: vs, h => by
    simp only [List.map, List.zip_cons_cons, List.mem_cons, Prod.mk.injEq] at h ⊢
    rcases h with ⟨rfl, rfl⟩ | h
    · exact ⟨w, Or.inl ⟨rfl, rfl⟩, rfl⟩
    · obtain ⟨v0, h1, h2⟩ := mem_zip_map h
      exact ⟨v0, Or.inr h1, h2⟩

/-- **The plain mapper respects `==`**: `==`-equal trees have `==`-equal substitution results. -/
theorem substE_pyEq {σ : SubstMap} (hσ : σ.WF) (a : Expr) :
    a.wf = true → ∀ b : Expr, b.wf = true → a.pyEq b = true →
      (substE σ a).pyEq (substE σ b) = true := by
  induction a using Expr.induct with | _ a ih => ?_
  intro ha b hb h
  have hint := intercept_congr hσ ha hb h
  cases a <;> cases b <;>
    simp only [Expr.pyEq, Bool.false_eq_true, Bool.and_eq_true, beq_iff_eq] at h <;>
    simp only [Expr.children, List.forall_mem_cons, List.not_mem_nil, false_imp_iff, implies_true,
      and_true, List.mem_append] at ih <;>
    simp only [Expr.wf, Bool.and_eq_true, wfL_iff, decide_eq_true_eq, beq_iff_eq] at ha hb <;>
    simp only [c08Intercept] at hint <;>
    simp only [substE]
  case const.const c c' => simpa [Expr.pyEq] using h
  case var.var x y =>
    rw [hint]
    cases hy : σ.apply (.var y) with
    | some r => exact pyEq_refl r (apply_wf hσ hy)
    | none => simpa [Expr.pyEq] using h
  case subscript.subscript a1 i1 a2 i2 =>
    rw [hint]
    cases hy : σ.apply (.subscript a2 i2) with
    | some r => exact pyEq_refl r (apply_wf hσ hy)
    | none =>
      simp only [Expr.pyEq, Bool.and_eq_true]
      exact ⟨ih.1 ha.1 _ hb.1 h.1, ih.2 ha.2 _ hb.2 h.2⟩
  case lookup.lookup a1 n1 a2 n2 =>
    rw [hint]
    cases hy : σ.apply (.lookup a2 n2) with
    | some r => exact pyEq_refl r (apply_wf hσ hy)
    | none =>
      simp only [Expr.pyEq, Bool.and_eq_true, beq_iff_eq]
      exact ⟨ih ha _ hb h.1, h.2⟩
  case cse.cse c1 p1 s1 c2 p2 s2 =>
    have hc := ih ha _ hb h.1.1
    have hz : (substE σ c1).isZero = (substE σ c2).isZero := by
      simp only [Expr.isZero, truthy_congr _ _ hc]
    rw [hz]
    cases (substE σ c2).isZero
    · simp only [Bool.false_eq_true, if_false, Expr.pyEq, Bool.and_eq_true, beq_iff_eq]
      exact ⟨⟨hc, h.1.2⟩, h.2⟩
    · simp only [if_true]; exact pyEq_zero
  case callKw.callKw f as ns vs g bs ms ws =>
    obtain ⟨⟨⟨h1, h2⟩, h3⟩, h4⟩ := h
    obtain ⟨⟨⟨⟨a1, a2⟩, a3⟩, a4⟩, a5⟩ := ha
    obtain ⟨⟨⟨⟨b1, b2⟩, b3⟩, b4⟩, b5⟩ := hb
    simp only [Expr.pyEq, Bool.and_eq_true, beq_iff_eq]
    refine ⟨⟨⟨ih.1 a1 _ b1 h1, pyEqL_substEL (fun c hc => ih.2 c (Or.inl hc)) a2 b2 h2⟩, h3⟩, ?_⟩
    rw [pyEqKw_iff_lookup] at h4 ⊢
    intro n v hm
    rw [substEL_map] at hm
    obtain ⟨v0, hv0, rfl⟩ := mem_zip_map hm
    obtain ⟨w0, hw0, hr⟩ := h4 n v0 hv0
    refine ⟨substE σ w0, ?_, ?_⟩
    · rw [substEL_map, assocLookupE_map, hw0]; rfl
    · have hv0m := (List.of_mem_zip hv0).2
      have hw0m := (List.of_mem_zip (lookup_mem hw0)).2
      exact ih.2 v0 (Or.inr hv0m) (a5 v0 hv0m) w0 (b5 w0 hw0m) hr
  all_goals simp only [Expr.pyEq, Bool.and_eq_true, beq_iff_eq]
  all_goals first
    | exact h
    | exact pyEqL_substEL ih ha hb h
    | exact ⟨h.1, pyEqL_substEL ih ha hb h.2⟩
    | exact ⟨ih.1 ha.1 _ hb.1 h.1, pyEqL_substEL ih.2 ha.2 hb.2 h.2⟩
    | exact ⟨⟨ih.1 ha.1 _ hb.1 h.1.1, h.1.2⟩, pyEqL_substEL ih.2 ha.2 hb.2 h.2⟩
    | exact ⟨h.1, ih ha _ hb h.2⟩
    | exact ⟨ih ha _ hb h.1, h.2⟩
    | exact ⟨⟨ih ha _ hb h.1.1, h.1.2⟩, h.2⟩
    | exact ⟨ih.1 ha.1 _ hb.1 h.1, ih.2 ha.2 _ hb.2 h.2⟩
    | exact ⟨⟨h.1.1, ih.1 ha.1 _ hb.1 h.1.2⟩, ih.2 ha.2 _ hb.2 h.2⟩
    | exact ⟨⟨ih.1 ha.1.1 _ hb.1.1 h.1.1, ih.2.1 ha.1.2 _ hb.1.2 h.1.2⟩, ih.2.2 ha.2 _ hb.2 h.2⟩
    | trivial


theorem relL_to_wfEq {σ : SubstMap} (hσ : σ.WF) : ∀ {cs vs : List Expr},
    (∀ c ∈ cs, c.wf = true) →
    relL (fun c v => v.wf = true ∧ v.pyEq (substE σ c) = true) cs vs →
    relL WfEq vs (cs.map (substE σ))
  | [], [], _, _ => trivial
  | [], _ :: _, _, h => h.elim
  | _ :: _, [], _, h => h.elim
  | c :: cs, v :: vs, hc, h =>
    ⟨⟨h.1.1, substE_wf hσ c (hc c (by simp)), h.1.2⟩,
     relL_to_wfEq hσ (fun c' hc' => hc c' (by simp [hc'])) h.2⟩

theorem cacheRel_pyEq {σ : SubstMap} (hσ : σ.WF) :
    CacheRel σ (fun e => e.wf = true)
      (fun e v => v.wf = true ∧ v.pyEq (substE σ e) = true) where
  child := fun e he => wf_children he
  transfer := fun k e v hk he hke hp => by
    have hke' : k.pyEq e = true := by
      simp only [Expr.keyEq, Bool.and_eq_true] at hke; exact hke.2
    exact ⟨hp.1, pyEq_trans v (substE σ k) (substE σ e) hp.1 (substE_wf hσ k hk)
      (substE_wf hσ e he) hp.2 (substE_pyEq hσ k hk e he hke')⟩
  hit := fun e r _ hi => by
    rw [substE_generic, hi]
    exact ⟨intercept_wf hσ hi, pyEq_refl r (intercept_wf hσ hi)⟩
  build := fun e vs he hi hrel => by
    rw [substE_generic, hi]
    have hl := relL_length hrel
    have := c08Build_congr he hl.symm (relL_to_wfEq hσ (wf_children he) hrel)
    exact ⟨this.1, this.2.2⟩
  noneC := ⟨by decide, by simp only [substE]; decide⟩

/-! ### histories -/

/-- what a history of calls returns, for any maintained relation: `TypeError` exactly on the
unhashable trees, otherwise a result related to the query -/
def HistOK (P : Expr → Expr → Prop) (e : Expr) (r : Option Expr) : Prop :=
  match r with
  | none => e.hasList = true
  | some v => e.hasList = false ∧ P e v

/-- the answers of a history, position by position -/
def histRel (P : Expr → Expr → Prop) : List Expr → List (Option Expr) → Prop
  | [], [] => True
  | e :: es, r :: rs => HistOK P e r ∧ histRel P es rs
  | _, _ => False

theorem csubstHist_rel {σ : SubstMap} {G : Expr → Prop} {P : Expr → Expr → Prop}
    (hR : CacheRel σ G P) : ∀ (es : List Expr) (m : C08Cache), CInv G P m → (∀ e ∈ es, G e) →
    histRel P es (csubstHist σ es m)
  | [], _, _, _ => trivial
  | e :: es, m, hm, hG => by
    simp only [csubstHist, csubstTop]
    by_cases hl : e.hasList = true
    · simp only [hl, if_true]
      exact ⟨hl, csubstHist_rel hR es m hm (fun e' he' => hG e' (by simp [he']))⟩
    · simp only [hl, Bool.false_eq_true, if_false]
      have h1 := csubst_rel hR e (hG e (by simp)) m hm
      exact ⟨⟨by simpa using hl, h1.2⟩,
        csubstHist_rel hR es _ h1.1 (fun e' he' => hG e' (by simp [he']))⟩

theorem histRel_get {P : Expr → Expr → Prop} : ∀ {es : List Expr} {rs : List (Option Expr)},
    histRel P es rs → es.length = rs.length ∧
      ∀ i (h1 : i < es.length) (h2 : i < rs.length), HistOK P es[i] rs[i]
  | [], [], _ => ⟨rfl, fun i h1 => by simp at h1⟩
  | [], _ :: _, h => h.elim
  | _ :: _, [], h => h.elim
  | e :: es, r :: rs, h => by
    have ih := histRel_get h.2
    refine ⟨by simp [ih.1], fun i h1 h2 => ?_⟩
    cases i with
    | zero => exact h.1
    | succ i => exact ih.2 i (by simpa using h1) (by simpa using h2)

theorem cinv_nil (G : Expr → Prop) (P : Expr → Expr → Prop) : CInv G P [] := by
  intro k v h; simp at h

end PV
