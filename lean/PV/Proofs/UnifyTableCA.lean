import PV.Proofs.UnifyTableGen
/-
  C16 (T-gen), part 3: `UnidirectionalUnifier.map_commut_assoc` of the table `c16Expected` run by the
  table interpreter: the split of the pattern's operands into free variables and the rest, the
  candidate table (one row per other operand: the target operands it unifies with under the incoming
  records, `self.rec` left open), then `match_children(UnificationRecord([]), 0, set(range(n)))`.
-/
open PV PV.Unify
namespace PV.Unify

/-- one row of `unification_candidates`: the target operands `my_child` unifies with -/
def c16RowF (recur : Expr → Expr → List URec → List URec) (c : Expr) (ds : List Expr)
    (us : List URec) : List (Nat × List URec) :=
  (List.range ds.length).filterMap fun j =>
    let r := recur c (ds.getD j zero) us
    if r.isEmpty then none else some (j, r)

/-- `map_commut_assoc` with `self.rec` left open -/
def c16CommutF (cands : List String) (recur : Expr → Expr → List URec → List URec) (o : NaryOp)
    (cs ds : List Expr) (us : List URec) : List URec :=
  let nv := cs.filter fun c => !isPlain cands c
  matchChildren cands o (plainNames cands cs) (!nv.isEmpty) ds us
    (nv.map fun c => c16RowF recur c ds us) URec.empty (List.range ds.length)

theorem isPlain_eq (cands : List String) (c : Expr) :
    isPlain cands c = match c16VarName c with
      | some x => cands.contains x
      | none => false := by
  cases c <;> simp [isPlain, c16VarName]

theorem plainNames_cons (cands : List String) (c : Expr) (cs : List Expr) :
    plainNames cands (c :: cs) = (match c16VarName c with
      | some x => if cands.contains x then [x] else []
      | none => []) ++ plainNames cands cs := by
  cases c <;> simp [plainNames, c16VarName]
  split <;> simp

theorem plainNames_in (cands : List String) : ∀ cs : List Expr, ∀ x ∈ plainNames cands cs, x ∈ cands
  | [], x, h => by simp [plainNames] at h
  | c :: cs, x, h => by
    rw [plainNames_cons] at h
    rcases List.mem_append.1 h with h | h
    · cases hc : c16VarName c with
      | none => simp [hc] at h
      | some y =>
        simp only [hc] at h
        split at h
        · rename_i hy; simp at h; subst h; simpa using hy
        · simp at h
    · exact plainNames_in cands cs x h

/-! ### the split of the operands -/

def caEnv (e oth : Expr) (uv : C16Val) (o : NaryOp) (pl nvv ch uc mc im j oc res : C16Val) : C16Env :=
  [("self", .self), ("expr", .obj e), ("other", .obj oth), ("urecs", uv), ("factory", .factory o),
   ("plain_var_candidates", pl), ("non_var_children", nvv), ("child", ch),
   ("unification_candidates", uc), ("my_child", mc), ("i_matches", im), ("j", j),
   ("other_child", oc), ("result", res)]

def caSt (e oth : Expr) (uv : C16Val) (o : NaryOp) (pl nvv ch uc mc im j oc res : C16Val)
    (out : List C16Val) : C16St :=
  { env := caEnv e oth uv o pl nvv ch uc mc im j oc res, attrs := [], out := out, ctl := .run }

def caSplit : List C16S :=
  [(.ifThen (.and_ (.builtin .isinstance [(.name "child"), (.clsRef "Variable")]) (.cmp .in_ (.attr (.name "child") "name") (.attr (.name "self") "lhs_mapping_candidates")))
      [(.append "plain_var_candidates" (.name "child"))] [(.append "non_var_children" (.name "child"))])]

theorem c16Loop_ca_split (cands : List String) (cx : C16Ctx)
    (ha : cx.selfAttrs = c16ModelAttrs cands) (e oth : Expr) (uv : C16Val) (o : NaryOp)
    (uc mc im j oc res : C16Val) (out : List C16Val) :
    ∀ (cs : List Expr) (accP : List String) (accN : List Expr) (ch : C16Val),
      ∃ ch', c16Loop (c16LoopBody cx ["child"] caSplit) (cs.map .obj)
          (caSt e oth uv o (.objs (accP.map .var)) (.objs accN) ch uc mc im j oc res out)
        = caSt e oth uv o (.objs ((accP ++ plainNames cands cs).map .var))
            (.objs (accN ++ cs.filter fun c => !isPlain cands c)) ch' uc mc im j oc res out := by
  intro cs
  induction cs with
  | nil => intro accP accN ch; exact ⟨ch, by simp [c16Loop, plainNames]⟩
  | cons c cs ih =>
    intro accP accN ch
    simp only [List.map_cons, c16Loop]
    cases hv : c16VarName c with
    | none =>
      have hstep : c16LoopBody cx ["child"] caSplit (.obj c)
          (caSt e oth uv o (.objs (accP.map .var)) (.objs accN) ch uc mc im j oc res out)
          = caSt e oth uv o (.objs (accP.map .var)) (.objs (accN ++ [c])) (.obj c) uc mc im j oc res out := by
        simp only [c16LoopBody, caSplit, caSt, caEnv]
        c16evalA [c16IsInstance, c16KindOf, kind_eq_Variable, hv, C16Val.truthy, c16Append]
      rw [hstep]
      obtain ⟨ch', h⟩ := ih accP (accN ++ [c]) (.obj c)
      refine ⟨ch', ?_⟩
      simp only [caSt] at h ⊢
      rw [h]
      simp [plainNames_cons, hv, isPlain_eq]
    | some x =>
      have hname := c16Attr_name_of_var hv
      by_cases hx : x ∈ cands
      · have hstep : c16LoopBody cx ["child"] caSplit (.obj c)
            (caSt e oth uv o (.objs (accP.map .var)) (.objs accN) ch uc mc im j oc res out)
            = caSt e oth uv o (.objs ((accP ++ [x]).map .var)) (.objs accN) (.obj c) uc mc im j oc res out := by
          simp only [c16LoopBody, caSplit, caSt, caEnv]
          cases c16VarName_some hv
          c16evalA [c16IsInstance, c16KindOf, kind_eq_Variable, C16Val.truthy, c16Append, C16Val.attr,
            hname, ha, c16ModelAttrs, c16Cmp, hx]
        rw [hstep]
        obtain ⟨ch', h⟩ := ih (accP ++ [x]) accN (.obj c)
        refine ⟨ch', ?_⟩
        simp only [caSt] at h ⊢
        rw [h]
        simp [plainNames_cons, hv, isPlain_eq, hx]
      · have hstep : c16LoopBody cx ["child"] caSplit (.obj c)
            (caSt e oth uv o (.objs (accP.map .var)) (.objs accN) ch uc mc im j oc res out)
            = caSt e oth uv o (.objs (accP.map .var)) (.objs (accN ++ [c])) (.obj c) uc mc im j oc res out := by
          simp only [c16LoopBody, caSplit, caSt, caEnv]
          c16evalA [c16IsInstance, c16KindOf, kind_eq_Variable, hv, C16Val.truthy, c16Append, C16Val.attr,
            hname, ha, c16ModelAttrs, c16Cmp, hx]
        rw [hstep]
        obtain ⟨ch', h⟩ := ih accP (accN ++ [c]) (.obj c)
        refine ⟨ch', ?_⟩
        simp only [caSt] at h ⊢
        rw [h]
        simp [plainNames_cons, hv, isPlain_eq, hx]

/-! ### the candidate table -/

def c16EnumL : Nat → List Expr → List (Nat × Expr)
  | _, [] => []
  | k, d :: ds => (k, d) :: c16EnumL (k + 1) ds

theorem c16EnumFrom_map : ∀ (ds : List Expr) (k : Nat),
    c16EnumFrom k (ds.map .obj) = (c16EnumL k ds).map fun p => .tup (.int ((p.1 : Nat) : Int)) (.obj p.2)
  | [], _ => rfl
  | d :: ds, k => by simp [c16EnumFrom, c16EnumL, c16EnumFrom_map ds (k + 1)]

theorem enumL_filterMap {β : Type} (f : Nat → Expr → Option β) : ∀ (ds : List Expr) (k : Nat),
    (c16EnumL k ds).filterMap (fun p => f p.1 p.2)
      = (List.range ds.length).filterMap fun j => f (k + j) (ds.getD j zero)
  | [], _ => by simp [c16EnumL]
  | d :: ds, k => by
    rw [c16EnumL, List.filterMap_cons, enumL_filterMap f ds (k + 1), List.length_cons,
      List.range_succ_eq_map, List.filterMap_cons, List.filterMap_map]
    simp only [Nat.add_zero, List.getD_cons_zero, Function.comp_def, List.getD_cons_succ]
    have : ∀ j, k + 1 + j = k + (j + 1) := fun j => by omega
    simp only [this]

theorem c16Append_ofRow (acc : List (Nat × List URec)) (j : Nat) (r : List URec) (hr : r ≠ []) :
    c16Append (C16Val.ofRow acc) (.tup (.int ((j : Nat) : Int)) (C16Val.ofRecs r))
      = some (C16Val.ofRow (acc ++ [(j, r)])) := by
  cases r with
  | nil => exact absurd rfl hr
  | cons a r => cases acc <;> simp [C16Val.ofRow, C16Val.ofRecs, c16Append]

theorem c16Append_ofTable (acc : List (List (Nat × List URec))) (row : List (Nat × List URec)) :
    c16Append (C16Val.ofTable acc) (C16Val.ofRow row) = some (C16Val.ofTable (acc ++ [row])) := by
  cases acc <;> cases row <;> simp [C16Val.ofTable, C16Val.ofRow, c16Append]

@[simp] theorem ofRow_nil : C16Val.ofRow [] = .objs [] := rfl

@[simp] theorem ofTable_nil : C16Val.ofTable [] = .objs [] := rfl

theorem ofRow_isUnbound (l : List (Nat × List URec)) : (C16Val.ofRow l).isUnbound = false := by
  cases l <;> rfl

theorem ofTable_isUnbound (l : List (List (Nat × List URec))) : (C16Val.ofTable l).isUnbound = false := by
  cases l <;> rfl

def caInner : List C16S :=
  [(.assign "result" (.selfCall "rec" [(.name "my_child"), (.name "other_child"), (.name "urecs")])),
   (.ifThen (.name "result") [(.append "i_matches" (.tuple [(.name "j"), (.name "result")]))] [])]

theorem c16Loop_ca_inner (cx : C16Ctx) (e oth : Expr) (uv : C16Val) (us : List URec)
    (hus : uv.asRecs = some us) (o : NaryOp) (pl nvv ch uc : C16Val) (c : Expr) (out : List C16Val) :
    ∀ (L : List (Nat × Expr)) (acc : List (Nat × List URec)) (j oc res : C16Val),
      ∃ j' oc' res', c16Loop (c16LoopBody cx ["j", "other_child"] caInner)
          (L.map fun p => .tup (.int ((p.1 : Nat) : Int)) (.obj p.2))
          (caSt e oth uv o pl nvv ch uc (.obj c) (C16Val.ofRow acc) j oc res out)
        = caSt e oth uv o pl nvv ch uc (.obj c)
            (C16Val.ofRow (acc ++ L.filterMap fun p =>
              if (cx.recur c p.2 us).isEmpty then none else some (p.1, cx.recur c p.2 us)))
            j' oc' res' out := by
  have huvu : uv.isUnbound = false := by cases uv <;> simp_all [C16Val.asRecs]
  intro L
  induction L with
  | nil => intro acc j oc res; exact ⟨j, oc, res, by simp [c16Loop]⟩
  | cons p L ih =>
    intro acc j oc res
    obtain ⟨k, d⟩ := p
    simp only [List.map_cons, c16Loop]
    by_cases hr : cx.recur c d us = []
    · have hstep : c16LoopBody cx ["j", "other_child"] caInner (.tup (.int ((k : Nat) : Int)) (.obj d))
          (caSt e oth uv o pl nvv ch uc (.obj c) (C16Val.ofRow acc) j oc res out)
          = caSt e oth uv o pl nvv ch uc (.obj c) (C16Val.ofRow acc) (.int ((k : Nat) : Int)) (.obj d)
              (.objs []) out := by
        simp only [c16LoopBody, caInner, caSt, caEnv]
        c16evalA [huvu, hus, hr, C16Val.truthy]
      rw [hstep]
      obtain ⟨j', oc', res', h⟩ := ih acc (.int ((k : Nat) : Int)) (.obj d) (.objs [])
      refine ⟨j', oc', res', ?_⟩
      simp only [caSt] at h ⊢
      rw [h]; simp [hr]
    · have hstep : c16LoopBody cx ["j", "other_child"] caInner (.tup (.int ((k : Nat) : Int)) (.obj d))
          (caSt e oth uv o pl nvv ch uc (.obj c) (C16Val.ofRow acc) j oc res out)
          = caSt e oth uv o pl nvv ch uc (.obj c) (C16Val.ofRow (acc ++ [(k, cx.recur c d us)]))
              (.int ((k : Nat) : Int)) (.obj d) (C16Val.ofRecs (cx.recur c d us)) out := by
        have hne : (cx.recur c d us).isEmpty = false := by
          cases h : cx.recur c d us <;> simp_all
        simp only [c16LoopBody, caInner, caSt, caEnv]
        c16evalA [huvu, hus, truthy_ofRecs, hne, ofRecs_isUnbound, ofRow_isUnbound,
          c16Append_ofRow acc k _ hr]
      rw [hstep]
      obtain ⟨j', oc', res', h⟩ := ih (acc ++ [(k, cx.recur c d us)]) (.int ((k : Nat) : Int)) (.obj d)
        (C16Val.ofRecs (cx.recur c d us))
      refine ⟨j', oc', res', ?_⟩
      have hne : (cx.recur c d us).isEmpty = false := by
        cases h : cx.recur c d us <;> simp_all
      simp only [caSt] at h ⊢
      rw [h]; simp [hr, List.filterMap_cons]

def caOuter : List C16S :=
  [(.assign "i_matches" .nil),
   (.forIn ["j", "other_child"] (.builtin .enumerate [(.attr (.name "other") "children")]) caInner []),
   (.append "unification_candidates" (.name "i_matches"))]

theorem c16RowF_eq (recur : Expr → Expr → List URec → List URec) (c : Expr) (ds : List Expr)
    (us : List URec) :
    (c16EnumL 0 ds).filterMap (fun p =>
        if (recur c p.2 us).isEmpty then none else some (p.1, recur c p.2 us))
      = c16RowF recur c ds us := by
  have := enumL_filterMap (fun j d => if (recur c d us).isEmpty then none else some (j, recur c d us)) ds 0
  simp only [Nat.zero_add] at this
  rw [this]; rfl

theorem c16Loop_ca_outer (cx : C16Ctx) (e oth : Expr) (ds : List Expr)
    (hch : oth.c16Attr "children" = some (.obj (.tuple ds))) (uv : C16Val) (us : List URec)
    (hus : uv.asRecs = some us) (o : NaryOp) (pl nvv ch : C16Val) (out : List C16Val) :
    ∀ (nvs : List Expr) (accT : List (List (Nat × List URec))) (mc im j oc res : C16Val),
      ∃ mc' im' j' oc' res', c16Loop (c16LoopBody cx ["my_child"] caOuter) (nvs.map .obj)
          (caSt e oth uv o pl nvv ch (C16Val.ofTable accT) mc im j oc res out)
        = caSt e oth uv o pl nvv ch
            (C16Val.ofTable (accT ++ nvs.map fun c => c16RowF cx.recur c ds us)) mc' im' j' oc' res' out := by
  intro nvs
  induction nvs with
  | nil => intro accT mc im j oc res; exact ⟨mc, im, j, oc, res, by simp [c16Loop]⟩
  | cons c nvs ih =>
    intro accT mc im j oc res
    obtain ⟨j1, oc1, res1, hin⟩ := c16Loop_ca_inner cx e oth uv us hus o pl nvv ch (C16Val.ofTable accT) c out
      (c16EnumL 0 ds) [] j oc res
    simp only [List.nil_append, c16RowF_eq] at hin
    have hstep : c16LoopBody cx ["my_child"] caOuter (.obj c)
        (caSt e oth uv o pl nvv ch (C16Val.ofTable accT) mc im j oc res out)
        = caSt e oth uv o pl nvv ch (C16Val.ofTable (accT ++ [c16RowF cx.recur c ds us])) (.obj c)
            (C16Val.ofRow (c16RowF cx.recur c ds us)) j1 oc1 res1 out := by
      simp only [c16LoopBody, caOuter, caSt, caEnv]
      simp only [C16S.execList, exec_forIn]
      simp only [caSt, caEnv, ofRow_nil] at hin
      c16evalA [C16Val.attr, hch, C16Val.iter, c16Elems, c16EnumFrom_map, hin, c16ForEnd,
        ofRow_isUnbound, ofTable_isUnbound, c16Append_ofTable]
    simp only [List.map_cons, c16Loop, hstep]
    obtain ⟨mc', im', j', oc', res', h⟩ := ih (accT ++ [c16RowF cx.recur c ds us]) (.obj c)
      (C16Val.ofRow (c16RowF cx.recur c ds us)) j1 oc1 res1
    refine ⟨mc', im', j', oc', res', ?_⟩
    simp only [caSt] at h ⊢
    rw [h]; simp

/-! ### `map_commut_assoc` -/

theorem c16Range_zero (n : Nat) : c16Range 0 (n : Int) = List.range n := by
  simp [c16Range]

theorem asTable_ofTable (t : List (List (Nat × List URec))) : (C16Val.ofTable t).asTable = some t := by
  cases t <;> rfl

theorem c16RowF_wf {recur : Expr → Expr → List URec → List URec} {c : Expr}
    (hrec : ∀ b vs, (∀ v ∈ vs, v.WF) → ∀ r ∈ recur c b vs, r.WF) {ds : List Expr}
    {us : List URec} (husw : ∀ u ∈ us, u.WF) :
    ∀ p ∈ c16RowF recur c ds us, ∀ r ∈ p.2, r.WF := by
  intro p hp r hr
  simp only [c16RowF, List.mem_filterMap] at hp
  obtain ⟨j, _, hj⟩ := hp
  split at hj
  · cases hj
  · cases hj; exact hrec _ _ husw r hr

/-- **`map_commut_assoc` is the candidate table followed by `matchChildren`** (`self.rec` left
open); nothing is yielded when `other` is not of the class of `expr`. -/
theorem c16Gen_commut_assoc (cands : List String) (cx : C16Ctx) (hs : C16FnSpec cands cx.fn)
    (hg : C16GenSpec cands cx.gen) (ha : cx.selfAttrs = c16ModelAttrs cands)
    (hcl : cx.closure = none)
    (hrec : ∀ a b vs, (∀ v ∈ vs, v.WF) → ∀ r ∈ cx.recur a b vs, r.WF)
    (e oth : Expr) (cs ds : List Expr) (he : e.c16Attr "children" = some (.obj (.tuple cs)))
    (ho : oth.kind = e.kind → oth.c16Attr "children" = some (.obj (.tuple ds)))
    (uv : C16Val) (us : List URec) (hus : uv.asRecs = some us) (husw : ∀ u ∈ us, u.WF) (o : NaryOp)
    (hsafe : oth.kind = e.kind → c16Safe o ds) :
    c16CallGen cx c16X_Uni_map_commut_assoc [.self, .obj e, .obj oth, uv, .factory o]
      = .ok (if oth.kind = e.kind then (c16CommutF cands cx.recur o cs ds us).map .urec else []) := by
  simp only [c16CallGen, c16X_Uni_map_commut_assoc, c16RunFn, c16BindParams, Option.map, List.map]
  simp only [C16S.execList, exec_forIn]
  by_cases hk : oth.kind = e.kind
  · have hch := ho hk
    obtain ⟨ch', hsp⟩ := c16Loop_ca_split cands cx ha e oth uv o .unbound .unbound .unbound .unbound
      .unbound .unbound [] cs [] [] .unbound
    simp only [caSt, caEnv, caSplit, List.map_nil, List.nil_append] at hsp
    obtain ⟨mc', im', j', oc', res', hou⟩ := c16Loop_ca_outer cx e oth ds hch uv us hus o
      (.objs ((plainNames cands cs).map .var)) (.objs (cs.filter fun c => !isPlain cands c)) ch' []
      (cs.filter fun c => !isPlain cands c) [] .unbound .unbound .unbound .unbound .unbound
    simp only [caSt, caEnv, caOuter, caInner, ofTable_nil, List.nil_append] at hou
    have hclo : C16Clo (caEnv e oth uv o (.objs ((plainNames cands cs).map .var))
          (.objs (cs.filter fun c => !isPlain cands c)) ch'
          (C16Val.ofTable ((cs.filter fun c => !isPlain cands c).map fun c => c16RowF cx.recur c ds us))
          mc' im' j' oc' res')
        cands o (plainNames cands cs) (cs.filter fun c => !isPlain cands c)
        ((cs.filter fun c => !isPlain cands c).map fun c => c16RowF cx.recur c ds us) us ds :=
      { other := ⟨oth, by simp [caEnv, C16Env.get], hch⟩
        urecs := ⟨uv, by simp [caEnv, C16Env.get], hus⟩
        factory := by simp [caEnv, C16Env.get]
        plain := by simp [caEnv, C16Env.get]
        nonvar := by simp [caEnv, C16Env.get]
        table := ⟨_, by simp [caEnv, C16Env.get], asTable_ofTable _⟩
        self := by simp [caEnv, C16Env.get]
        len := by simp
        names_in := plainNames_in cands cs
        safe := hsafe hk
        twf := by
          intro row hrow
          simp only [List.mem_map] at hrow
          obtain ⟨c, _, rfl⟩ := hrow
          exact c16RowF_wf (hrec c) husw }
    have hmc := hg.match_children _ o _ _ _ us ds URec.empty 0 (List.range ds.length) hclo wf_empty
    simp only [caEnv, List.drop_zero, c16N_match_children] at hmc
    rw [show (((0 : Nat) : Int)) = 0 from rfl] at hmc
    have huvu : uv.isUnbound = false := by cases uv <;> simp_all [C16Val.asRecs]
    have hkk : (oth.kind == e.kind) = true := by simpa using hk
    c16evalA [c16IsInstance, c16KindOf, hkk, C16Val.truthy, C16Val.attr, he, C16Val.iter, c16Elems, hsp,
      c16ForEnd, hou, hs.ctor0, hch, C16Val.len, c16Range_zero, hcl, hmc, hk, c16CommutF]
  · have hkk : (oth.kind == e.kind) = false := by simpa using hk
    c16evalA [c16IsInstance, c16KindOf, hkk, C16Val.truthy, hk]

end PV.Unify
