import PV.Proofs.GAExt
import PV.Proofs.AlgoArith
import Mathlib.Algebra.Field.Basic
import Mathlib.Data.List.Nodup
import Mathlib.Data.List.Perm.Basic
/-
  C18 — proofs about the model `PV/Model/GA.lean`, part 5: the multivectors of the model modulo
  "denote the same formal sum" form a monoid under the geometric product as coded; `__pow__`
  (`integer_power`) is the `n`-fold product; `__hash__` respects `==`; the divided inverse over a
  field; `as_vector`; `permutation_sign`/`bits_and_sign`.
-/
namespace PV.GA

section Ring
variable {R : Type} [CommRing R]

/-! ## the Clifford monoid of the model -/

/-- two dicts denote the same formal sum `Σ v·e_k` (duplicate keys add up) -/
def linSetoid (R : Type) [CommRing R] : Setoid (MVOf R) where
  r a b := ∀ F, evalLin F a = evalLin F b
  iseqv := ⟨fun _ _ => rfl, fun h F => (h F).symm, fun h1 h2 F => (h1 F).trans (h2 F)⟩

theorem evalLin_genericProductZ_left {z : R → Bool} (hz : ZSound z) (w : Nat → Nat → R)
    (a b : MVOf R) (F : Nat → R) :
    evalLin F (genericProductZ z w a b)
      = evalLin (fun m => lsum (fun o : Nat × R =>
          F (m ^^^ o.1) * (w m o.1 * reorderSignR m o.1 * o.2)) b) a := by
  rw [evalLin_genericProductZ hz, evalLin_eq_lsum]
  apply lsum_congr; intro s _
  rw [← lsum_mul_right]
  apply lsum_congr; intro o _
  unfold termCoeff; ring

theorem evalLin_genericProductZ_right {z : R → Bool} (hz : ZSound z) (w : Nat → Nat → R)
    (a b : MVOf R) (F : Nat → R) :
    evalLin F (genericProductZ z w a b)
      = lsum (fun s : Nat × R => evalLin (fun m =>
          F (s.1 ^^^ m) * (w s.1 m * reorderSignR s.1 m * s.2)) b) a := by
  rw [evalLin_genericProductZ hz]
  apply lsum_congr; intro s _
  rw [evalLin_eq_lsum]
  apply lsum_congr; intro o _
  unfold termCoeff; ring

/-- the product respects "same formal sum" in both operands — no hypothesis on the dicts -/
theorem evalLin_genericProductZ_congr {z : R → Bool} (hz : ZSound z) (w : Nat → Nat → R)
    {a a' b b' : MVOf R} (ha : ∀ F, evalLin F a = evalLin F a')
    (hb : ∀ F, evalLin F b = evalLin F b') (F : Nat → R) :
    evalLin F (genericProductZ z w a b) = evalLin F (genericProductZ z w a' b') := by
  rw [evalLin_genericProductZ_left hz, ha, ← evalLin_genericProductZ_left hz,
    evalLin_genericProductZ_right hz, evalLin_genericProductZ_right hz]
  apply lsum_congr; intro s _
  exact hb _

/-- associativity through every linear functional -/
theorem evalLin_genericProductZ_assoc {z : R → Bool} (hz : ZSound z) {w : Nat → Nat → R}
    (hw : Cocycle w) (a b c : MVOf R) (F : Nat → R) :
    evalLin F (genericProductZ z w (genericProductZ z w a b) c)
      = evalLin F (genericProductZ z w a (genericProductZ z w b c)) := by
  rw [evalLin_genericProductZ_left hz, evalLin_genericProductZ hz,
    evalLin_genericProductZ_right hz]
  apply lsum_congr; intro s _
  rw [evalLin_genericProductZ hz]
  apply lsum_congr; intro o _
  rw [← lsum_mul_right]
  apply lsum_congr; intro t _
  unfold termCoeff
  rw [Nat.xor_assoc]
  have := hw s.1 o.1 t.1
  linear_combination (F (s.1 ^^^ (o.1 ^^^ t.1)) * s.2 * o.2 * t.2) * this

theorem wGeometric_zero_left (g : Nat → R) (a : Nat) : wGeometric g 0 a = 1 := by
  rw [wGeometric_eq_prodBits, Nat.zero_and, prodBits_zero]

theorem wGeometric_zero_right (g : Nat → R) (a : Nat) : wGeometric g a 0 = 1 := by
  rw [wGeometric_eq_prodBits, Nat.and_zero, prodBits_zero]

theorem evalLin_one_mul {z : R → Bool} (hz : ZSound z) (g : Nat → R) (a : MVOf R) (F : Nat → R) :
    evalLin F (genericProductZ z (wGeometric g) mvOne a) = evalLin F a := by
  rw [evalLin_genericProductZ hz, evalLin_eq_lsum]
  simp only [mvOne, lsum, add_zero]
  apply lsum_congr; intro o _
  unfold termCoeff
  simp only [wGeometric_zero_left, reorderSignR_zero_left, Nat.zero_xor]; ring

theorem evalLin_mul_one {z : R → Bool} (hz : ZSound z) (g : Nat → R) (a : MVOf R) (F : Nat → R) :
    evalLin F (genericProductZ z (wGeometric g) a mvOne) = evalLin F a := by
  rw [evalLin_genericProductZ hz, evalLin_eq_lsum]
  apply lsum_congr; intro s _
  simp only [mvOne, lsum, add_zero]
  unfold termCoeff
  simp only [wGeometric_zero_right, reorderSignR_zero_right, Nat.xor_zero]; ring

variable [DecidableEq R]

/-- the multivectors of the model modulo "same formal sum" (for well-formed dicts: same
    coefficient function), for the metric `g` -/
def CliffQ (_g : Nat → R) : Type := Quotient (linSetoid R)

def CliffQ.mk (g : Nat → R) (a : MVOf R) : CliffQ g := Quotient.mk (linSetoid R) a

/-- …form a monoid under `MultiVector.__mul__` as coded, with unit `MultiVector({0: 1})` -/
instance (g : Nat → R) : Monoid (CliffQ g) where
  mul := Quotient.map₂ (mvMul g) (fun _ _ ha _ _ hb =>
    evalLin_genericProductZ_congr isZeroD_sound (wGeometric g) ha hb)
  one := CliffQ.mk g mvOne
  mul_assoc := by
    rintro ⟨a⟩ ⟨b⟩ ⟨c⟩
    exact Quotient.sound (evalLin_genericProductZ_assoc isZeroD_sound (cocycle_wGeometric g) a b c)
  one_mul := by
    rintro ⟨a⟩
    exact Quotient.sound (evalLin_one_mul isZeroD_sound g a)
  mul_one := by
    rintro ⟨a⟩
    exact Quotient.sound (evalLin_mul_one isZeroD_sound g a)

theorem CliffQ.mk_mul (g : Nat → R) (a b : MVOf R) :
    CliffQ.mk g (mvMul g a b) = CliffQ.mk g a * CliffQ.mk g b := rfl

theorem CliffQ.mk_one (g : Nat → R) : CliffQ.mk g (mvOne : MVOf R) = 1 := rfl

theorem CliffQ.mk_npow (g : Nat → R) (a : MVOf R) (n : Nat) :
    CliffQ.mk g (mvNPow g a n) = CliffQ.mk g a ^ n := by
  induction n with
  | zero => rw [pow_zero]; rfl
  | succ n ih =>
    rw [pow_succ, ← ih]; rfl

omit [DecidableEq R] in
/-- equal classes of well-formed dicts: equal coefficient functions -/
theorem CliffQ.coeff_eq (g : Nat → R) {a b : MVOf R} (ha : NodupKeys a) (hb : NodupKeys b)
    (h : CliffQ.mk g a = CliffQ.mk g b) (k : Nat) : coeff a k = coeff b k := by
  have := Quotient.exact h
  rw [coeff_eq_evalLin ha, coeff_eq_evalLin hb]
  exact this _

/-! ## `__pow__` -/

omit [CommRing R] [DecidableEq R] in
/-- after at least one iteration the result of `integer_power` is a product -/
theorem integerPowerLoop_pred {α : Type} (P : α → Prop) (mul : α → α → α)
    (hmul : ∀ a b, P (mul a b)) : ∀ (n : Nat) (aux x : α), (n = 0 → P aux) →
    P (PV.Algo.integerPowerLoop mul aux x n) := by
  intro n
  induction n using Nat.strongRecOn with
  | _ n ih =>
    intro aux x h0
    rw [PV.Algo.integerPowerLoop]
    split
    · split
      · split
        · exact hmul _ _
        · exact ih (n / 2) (by omega) _ _ (fun _ => hmul _ _)
      · exact ih (n / 2) (by omega) _ _ (fun e => by omega)
    · exact h0 (by omega)

/-- `A ** n` (the `integer_power` square-and-multiply loop run on `MultiVector.__mul__`) denotes
    the `n`-fold product `((1 * A) * A) * … * A` -/
theorem coeff_mvPow (g : Nat → R) (a : MVOf R) (n : Nat) (k : Nat) :
    coeff (PV.Algo.integerPower (mvMul g) mvOne a n) k = coeff (mvNPow g a n) k := by
  have hq : CliffQ.mk g (PV.Algo.integerPower (mvMul g) mvOne a n) = CliffQ.mk g (mvNPow g a n) := by
    rw [CliffQ.mk_npow]
    exact PV.Algo.integerPower_hom (CliffQ.mk g) (mvMul g) mvOne (CliffQ.mk_mul g) (CliffQ.mk_one g)
      a n
  have hone : NodupKeys (mvOne : MVOf R) := by simp [NodupKeys, mvOne]
  refine CliffQ.coeff_eq g ?_ ?_ hq k
  · exact integerPowerLoop_pred NodupKeys (mvMul g) (fun a b => genericProductZ_nodup _ _ a b)
      n _ _ (fun _ => hone)
  · cases n with
    | zero => exact hone
    | succ n => exact genericProductZ_nodup _ _ _ _

theorem dictEq_refl_one : mvEq (mvOne : MVOf R) mvOne = true := by
  simp [mvEq, dictEq, mvOne, dictGet]

/-- …and compares equal to it with Python's `==` -/
theorem mvPow_eq_npow (g : Nat → R) (a : MVOf R) (n : Nat) :
    mvEq (PV.Algo.integerPower (mvMul g) mvOne a n) (mvNPow g a n) = true := by
  cases n with
  | zero =>
    have : PV.Algo.integerPower (mvMul g) mvOne a 0 = mvOne := by
      unfold PV.Algo.integerPower; rw [PV.Algo.integerPowerLoop]; simp
    rw [this]; exact dictEq_refl_one
  | succ n =>
    rw [mvEq_iff_coeffwise]
    · exact coeff_mvPow g a (n + 1)
    · exact integerPowerLoop_pred Pruned (mvMul g) (fun a b => genericProduct_pruned _ a b)
        (n + 1) _ _ (fun e => by omega)
    · exact genericProduct_pruned _ _ _

/-! ## `__hash__` respects `==` -/

omit [CommRing R] in
theorem perm_of_mvEq {a b : MVOf R} (ha : NodupKeys a) (h : mvEq a b = true) : a.Perm b := by
  unfold mvEq dictEq at h
  simp only [Bool.and_eq_true, beq_iff_eq, List.all_eq_true] at h
  have hnd : a.Nodup := List.Nodup.of_map _ ha
  have hsub : a ⊆ b := by
    rintro ⟨k, v⟩ hp
    exact dictGet_mem (h.2 (k, v) hp)
  exact (List.subperm_of_subset hnd hsub).perm_of_length_le (by rw [h.1])

omit [CommRing R] in
/-- equal multivectors (Python `==` of the dicts) have equal hashes, whatever the hash functions
    of bitmaps and coefficients are and whatever the insertion orders -/
theorem mvHash_eq_of_mvEq (hspace : Nat) (hb : Nat → Nat) (hc : R → Nat) {a b : MVOf R}
    (ha : NodupKeys a) (h : mvEq a b = true) :
    mvHash hspace hb hc a = mvHash hspace hb hc b := by
  unfold mvHash
  apply List.Perm.foldl_eq' (perm_of_mvEq ha h)
  rintro ⟨xb, xc⟩ _ ⟨yb, yc⟩ _ r
  show (r ^^^ (hb xb ^^^ hc xc)) ^^^ (hb yb ^^^ hc yc) = (r ^^^ (hb yb ^^^ hc yc)) ^^^ (hb xb ^^^ hc xc)
  generalize hb xb ^^^ hc xc = X
  generalize hb yb ^^^ hc yc = Y
  rw [Nat.xor_assoc, Nat.xor_assoc, Nat.xor_comm X Y]

end Ring

/-! ## the divided inverse over a field -/

section Field
variable {R : Type} [Field R] [DecidableEq R]

omit [DecidableEq R] in
theorem coeff_map_div (numer : MVOf R) (d : R) (k : Nat) :
    coeff (numer.map fun p => (p.1, p.2 / d)) k = coeff numer k / d := by
  induction numer with
  | nil => simp
  | cons p l ih =>
    obtain ⟨k0, v0⟩ := p
    rw [List.map_cons, coeff_cons, coeff_cons, ih]
    split <;> rfl

omit [DecidableEq R] in
theorem keys_map_div (numer : MVOf R) (d : R) :
    keys (numer.map fun p => (p.1, p.2 / d)) = keys numer := by
  unfold keys; simp [Function.comp_def]

/-- `A.inv() * A == 1 == A * A.inv()` whenever `inv` returns, on every well-formed multivector
    with coefficients in a field (Python `Fraction`s: `coeff / nsqr` is exact) -/
theorem mvInvDiv_mul_self (g : Nat → R) (dims : Nat) {a ai : MVOf R}
    (ha : NodupKeys a) (hr : ∀ k ∈ keys a, k < 2 ^ dims)
    (h : mvInvDiv g dims a = .ok ai) :
    mvEq (mvMul g ai a) mvOne = true ∧ mvEq (mvMul g a ai) mvOne = true := by
  unfold mvInvDiv at h
  cases hi : inv g dims a with
  | ok numer denom =>
    rw [hi] at h
    simp only at h
    injection h with h
    obtain ⟨hne, _, hnum, h1, h2⟩ := inv_mul_self g dims numer denom ha hr hi
    have hai : NodupKeys ai := by
      rw [← h]; unfold NodupKeys; rw [keys_map_div]; exact hnum
    have hlin : ∀ k, coeff ai k = (1 / denom) * coeff numer k + 0 * coeff numer k := by
      intro k; rw [← h, coeff_map_div]; ring
    have hone : Pruned (mvOne : MVOf R) := by
      refine ⟨by simp [NodupKeys, mvOne], ?_⟩
      intro p hp; simp [mvOne] at hp; subst hp; simp
    constructor
    · rw [mvEq_iff_coeffwise (genericProduct_pruned _ _ _) hone]
      intro k
      rw [coeff_genericProductZ_lin_left isZeroD_sound _ (1 / denom) 0 a hai hnum hnum hlin, h1 k,
        mvOne, coeff_scalar_blade]
      split <;> simp [hne]
    · rw [mvEq_iff_coeffwise (genericProduct_pruned _ _ _) hone]
      intro k
      rw [coeff_genericProductZ_lin_right isZeroD_sound _ a (1 / denom) 0 hai hnum hnum hlin, h2 k,
        mvOne, coeff_scalar_blade]
      split <;> simp [hne]
  | zeroDivision => rw [hi] at h; cases h
  | notImplemented => rw [hi] at h; cases h
  | valueError => rw [hi] at h; cases h

/-- `(A / B) * B == A`: `__truediv__` (`self * other.inv()`) undoes the multiplication whenever
    `B.inv()` returns -/
theorem mvTrueDiv_mul_cancel (g : Nat → R) (dims : Nat) {a b q : MVOf R}
    (ha : NodupKeys a) (hb : NodupKeys b) (hr : ∀ k ∈ keys b, k < 2 ^ dims)
    (h : mvTrueDiv g dims a b = .ok q) (k : Nat) :
    coeff (mvMul g q b) k = coeff a k := by
  unfold mvTrueDiv at h
  cases hi : mvInvDiv g dims b with
  | error e => rw [hi] at h; cases h
  | ok bi =>
    rw [hi] at h
    simp only at h
    injection h with h
    subst h
    have hinv := (mvInvDiv_mul_self g dims hb hr hi).1
    have hone : Pruned (mvOne : MVOf R) := by
      refine ⟨by simp [NodupKeys, mvOne], ?_⟩
      intro p hp; simp [mvOne] at hp; subst hp; simp
    rw [mvEq_iff_coeffwise (genericProduct_pruned _ _ _) hone] at hinv
    have h1 := coeff_genericProductZ_assoc isZeroD_sound (cocycle_wGeometric g) a bi b k
    have h2 := coeff_genericProductZ_congr isZeroD_sound (wGeometric g) ha ha
      (genericProductZ_nodup isZeroD (wGeometric g) bi b) hone.1 (fun _ => rfl) hinv k
    have h3 : coeff (genericProductZ isZeroD (wGeometric g) a mvOne) k = coeff a k := by
      rw [coeff_eq_evalLin (genericProductZ_nodup _ _ _ _), coeff_eq_evalLin ha]
      exact evalLin_mul_one isZeroD_sound g a _
    exact h1.trans (h2.trans h3)


end Field

/-! ## the zero multivector and scalars: how `==`, `bool` and stored zeros interact -/

section Ring
variable {R : Type} [CommRing R]

/-- a pruned dict denoting the zero function is the empty dict -/
theorem pruned_eq_nil {d : MVOf R} (hd : Pruned d) (h : ∀ k, coeff d k = 0) : d = [] := by
  cases d with
  | nil => rfl
  | cons p d =>
    exfalso
    have : p.1 ∈ keys (p :: d) := by simp
    exact (mem_keys_iff_coeff_ne_zero hd p.1).1 this (h p.1)

/-- `bool(x)` on a pruned dict is the documented "has a non-zero coefficient" -/
theorem mvBool_iff_of_pruned {a : MVOf R} (ha : Pruned a) :
    mvBool a = true ↔ ∃ k, coeff a k ≠ 0 := by
  cases a with
  | nil => simp [mvBool]
  | cons p d =>
    simp only [mvBool, List.isEmpty_cons, Bool.not_false, true_iff]
    exact ⟨p.1, (mem_keys_iff_coeff_ne_zero ha p.1).1 (by simp)⟩

variable [DecidableEq R]

/-- `MultiVector(0)` is the empty dict, so products with it are empty -/
theorem genericProduct_ofScalar_zero (w : Nat → Nat → R) (a : MVOf R) :
    genericProduct w (ofScalar 0) a = [] ∧ genericProduct w a (ofScalar 0) = [] := by
  have h0 : (ofScalar (0 : R)) = [] := by simp [ofScalar, ofScalarZ, isZeroD]
  rw [h0]
  constructor
  · rfl
  · apply pruned_eq_nil (genericProduct_pruned _ _ _)
    intro k
    rw [coeff_genericProduct]
    simp [lsum, lsum_zero]

/-- every scalar constructor result is pruned -/
theorem ofScalar_pruned (x : R) : Pruned (ofScalar x) := by
  unfold ofScalar ofScalarZ
  split
  · exact pruned_nil
  · rename_i hx
    refine ⟨by simp [NodupKeys, keys], ?_⟩
    intro p hp
    simp at hp
    subst hp
    intro e
    apply hx
    exact isZeroD_complete x e

theorem coeff_ofScalar (x : R) (k : Nat) : coeff (ofScalar x) k = if k = 0 then x else 0 := by
  unfold ofScalar ofScalarZ
  split
  · next h =>
    have : x = 0 := isZeroD_sound x h
    subst this; simp
  · exact coeff_scalar_blade x k

/-- on a pruned dict — in particular on every result of `+`, `-`, and of the six products —
    `x == 0` is exactly "every coefficient is zero" -/
theorem mvEqScalar_zero_iff_of_pruned {a : MVOf R} (ha : Pruned a) :
    mvEqScalar a 0 = true ↔ ∀ k, coeff a k = 0 := by
  unfold mvEqScalar
  rw [mvEq_iff_coeffwise ha (ofScalar_pruned 0)]
  simp [coeff_ofScalar]

end Ring

/-! ## `as_vector`, `xproject` -/

theorem logTable_two_pow : ∀ (dims i : Nat), i < dims → logTable dims (2 ^ i) = some i := by
  intro dims
  induction dims with
  | zero => intro i h; omega
  | succ n ih =>
    intro i h
    unfold logTable at *
    rw [List.range_succ, List.find?_append]
    by_cases hi : i < n
    · rw [ih i hi]; rfl
    · have hin : i = n := by omega
      subst hin
      have hnone : (List.range i).find? (fun j => decide (2 ^ j = 2 ^ i)) = none := by
        rw [List.find?_eq_none]
        intro j hj
        have : j < i := List.mem_range.1 hj
        simp only [decide_eq_true_eq]
        intro e
        have := Nat.pow_right_injective (le_refl 2) e
        omega
      rw [hnone]; simp

section Ring
variable {R : Type} [CommRing R]

/-- the loop of `as_vector` started from the list `v0` -/
theorem asVector_fold (dims : Nat) : ∀ (d : MVOf R) (v0 : List R), NodupKeys d →
    (∀ k ∈ keys d, ∃ i, i < dims ∧ k = 2 ^ i) → v0.length = dims →
    ∃ v, d.foldl (fun r (p : Nat × R) => r.bind fun v =>
          (logTable dims p.1).map fun i => v.set i p.2) (some v0) = some v
      ∧ v.length = dims
      ∧ ∀ i, i < dims → v[i]? = if 2 ^ i ∈ keys d then some (coeff d (2 ^ i)) else v0[i]? := by
  intro d
  induction d with
  | nil => intro v0 _ _ hl; exact ⟨v0, rfl, hl, fun i _ => by simp⟩
  | cons p d ih =>
    obtain ⟨k, c⟩ := p
    intro v0 hd hk hl
    unfold NodupKeys at hd
    simp only [keys_cons, List.nodup_cons] at hd
    obtain ⟨i0, hi0, hk0⟩ := hk k (by simp)
    subst hk0
    obtain ⟨v, hv, hlen, hget⟩ := ih (v0.set i0 c) hd.2
      (fun k' hk' => hk k' (List.mem_cons_of_mem _ hk')) (by simp [hl])
    refine ⟨v, ?_, hlen, fun i hi => ?_⟩
    · simp only [List.foldl_cons, Option.bind_some, logTable_two_pow dims i0 hi0, Option.map_some]
      exact hv
    · rw [hget i hi, keys_cons, coeff_cons]
      by_cases hii : i = i0
      · subst hii
        simp only [hd.1, ↓reduceIte, List.mem_cons, true_or]
        rw [List.getElem?_set_self (by omega)]
      · have hne : (2 : Nat) ^ i0 ≠ 2 ^ i := by
          intro e; exact hii (Nat.pow_right_injective (le_refl 2) e).symm
        have hne' : (2 : Nat) ^ i ≠ 2 ^ i0 := fun e => hne e.symm
        simp only [List.mem_cons, hne', false_or, hne, ↓reduceIte]
        split
        · rfl
        · rw [List.getElem?_set_ne (by omega)]

/-- `as_vector` of a multivector all of whose keys are basis vectors of the space never raises and
    returns the coefficient of `e_i` at position `i` -/
theorem asVector_spec (dims : Nat) {d : MVOf R} (hd : NodupKeys d)
    (h : ∀ k ∈ keys d, ∃ i, i < dims ∧ k = 2 ^ i) :
    ∃ v, asVector dims d = some v ∧ v.length = dims
      ∧ ∀ i, i < dims → v[i]? = some (coeff d (2 ^ i)) := by
  obtain ⟨v, hv, hl, hg⟩ := asVector_fold dims d (List.replicate dims 0) hd h (by simp)
  refine ⟨v, hv, hl, fun i hi => ?_⟩
  rw [hg i hi]
  split
  · rfl
  · next hk => rw [coeff_eq_zero_of_not_mem hk]; simp [hi]

/-- `xproject(0)` never raises on a well-formed dict and returns the scalar coefficient -/
theorem xproject_zero (dims : Nat) {a : MVOf R} (ha : NodupKeys a) :
    xproject dims a 0 = .scalar (coeff a 0) := by
  unfold xproject
  have hp : NodupKeys (project a 0) := nodupKeys_filter _ ha
  have hk : ∀ k ∈ keys (project a 0), k = 0 := by
    intro k hk
    obtain ⟨v, hv⟩ := mem_keys_iff_exists.1 hk
    have := (List.mem_filter.1 hv).2
    simp only [decide_eq_true_eq, bitCount_eq_popcount] at this
    exact (pc_eq_zero_iff k).1 this
  rw [if_pos rfl, asScalar_eq_coeff_zero hp hk, coeff_project]
  simp [bitCount_eq_popcount]

/-- `xproject(1)` on a well-formed multivector of the space: the vector of the grade-1
    coefficients -/
theorem xproject_one (dims : Nat) {a : MVOf R} (ha : NodupKeys a)
    (hr : ∀ k ∈ keys a, k < 2 ^ dims) :
    ∃ v, xproject dims a 1 = .vector v ∧ v.length = dims
      ∧ ∀ i, i < dims → v[i]? = some (coeff a (2 ^ i)) := by
  unfold xproject
  have hp : NodupKeys (project a 1) := nodupKeys_filter _ ha
  have hk : ∀ k ∈ keys (project a 1), ∃ i, i < dims ∧ k = 2 ^ i := by
    intro k hk
    obtain ⟨v, hv⟩ := mem_keys_iff_exists.1 hk
    have hm := List.mem_filter.1 hv
    have h1 := hm.2
    simp only [decide_eq_true_eq, bitCount_eq_popcount] at h1
    obtain ⟨i, hi⟩ := exists_two_pow_of_pc_one k h1
    refine ⟨i, ?_, hi⟩
    have := hr k (mem_keys_iff_exists.2 ⟨v, hm.1⟩)
    rw [hi] at this
    exact (Nat.pow_lt_pow_iff_right (by decide)).1 this
  obtain ⟨v, hv, hl, hg⟩ := asVector_spec dims hp hk
  refine ⟨v, ?_, hl, fun i hi => ?_⟩
  · simp [hv]
  · rw [hg i hi, coeff_project, bitCount_eq_popcount, pc_two_pow]; simp

end Ring

/-! ## `permutation_sign` and `bits_and_sign` -/

theorem permSignLoop_range (n : Nat) : ∀ (m i : Nat) (s : Int), i + m ≤ n →
    permSignLoop m i (List.range n) s = some s := by
  intro m
  induction m with
  | zero => intro i s _; rfl
  | succ m ih =>
    intro i s h
    have hi : i < n := by omega
    have hf : findFrom (List.range n) i ((List.range n).length + 1) i = some i := by
      simp [findFrom, hi]
    simp only [permSignLoop, hf, ne_eq, not_true_eq_false, ↓reduceIte]
    exact ih (i + 1) s (by omega)

/-- the identity permutation is even -/
theorem permutationSign_range (n : Nat) : permutationSign? (List.range n) = some 1 := by
  unfold permutationSign?
  rw [List.length_range]
  exact permSignLoop_range n n 0 1 (by omega)

/-- the tuple-key constructor agrees with the product: `MultiVector({(i, j): c})` stores
    `e_i e_j` with the sign `canonical_reordering_sign` gives to that product -/
theorem bitsAndSign_pair {i j : Nat} (h : i ≠ j) :
    bitsAndSign [i, j] = (2 ^ i ||| 2 ^ j, reorderSign (2 ^ i) (2 ^ j)) := by
  have hs : reorderSign (2 ^ i) (2 ^ j) = if j < i then -1 else 1 := by
    rw [reorderSign_eq_sgn, reorderSignExp_two_pow]; split <;> rfl
  rw [hs]
  unfold bitsAndSign
  by_cases hlt : i < j
  · have h1 : ¬ j < i := by omega
    simp [sortPairs, enumFrom', insertPair, hlt, h1]
    decide
  · have h1 : j < i := by omega
    have h2 : ¬ i = j := h
    simp [sortPairs, enumFrom', insertPair, hlt, h1, h2]
    decide

end PV.GA
