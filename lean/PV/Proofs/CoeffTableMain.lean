import PV.Proofs.CoeffTableProd
/-
  C15, T-gen tie, part 1c: for every expression and every target set, the table interpreter run on
  the literal table is the hand-written collector:  `c15CoeffsT c15ExpTable tg e = coeffs tg e`.
-/
set_option linter.unusedSimpArgs false
set_option linter.unusedVariables false
namespace PV.Coeff
open PV

/-! ### look-ups in the literal table -/

def mkFn (name definedIn : String) (body : List C15S) : C15Fn :=
  { name := name, definedIn := definedIn, params := [], vararg := "", body := body }

theorem exp_h_leaf : c15ExpTable.handlerFn "map_algebraic_leaf" =
    some (mkFn "map_algebraic_leaf" "CoefficientCollector.map_algebraic_leaf" expLeafBody) := by rfl
theorem exp_h_const : c15ExpTable.handlerFn "map_constant" =
    some (mkFn "map_constant" "CoefficientCollector.map_constant" [.ret (.mkDict (.lit 1) .node)]) := by
  rfl
theorem exp_h_sum : c15ExpTable.handlerFn "map_sum" =
    some (mkFn "map_sum" "CoefficientCollector.map_sum" expSumBody) := by rfl
theorem exp_h_prod : c15ExpTable.handlerFn "map_product" =
    some (mkFn "map_product" "CoefficientCollector.map_product" expProdBody) := by rfl
theorem exp_h_quot : c15ExpTable.handlerFn "map_quotient" =
    some (mkFn "map_quotient" "CoefficientCollector.map_quotient" expQuotBody) := by rfl
theorem exp_h_pow : c15ExpTable.handlerFn "map_power" =
    some (mkFn "map_power" "CoefficientCollector.map_power" expPowBody) := by rfl
theorem exp_h_variable : c15ExpTable.handlerFn "map_variable" =
    some (mkFn "map_variable" "Mapper.map_variable" [.delegate "map_algebraic_leaf"]) := by rfl
theorem exp_h_call : c15ExpTable.handlerFn "map_call" =
    some (mkFn "map_call" "Mapper.map_call" [.delegate "map_algebraic_leaf"]) := by rfl
theorem exp_h_lookup : c15ExpTable.handlerFn "map_lookup" =
    some (mkFn "map_lookup" "Mapper.map_lookup" [.delegate "map_algebraic_leaf"]) := by rfl
theorem exp_h_subscript : c15ExpTable.handlerFn "map_subscript" =
    some (mkFn "map_subscript" "Mapper.map_subscript" [.delegate "map_algebraic_leaf"]) := by rfl
theorem exp_h_nan : c15ExpTable.handlerFn "map_nan" =
    some (mkFn "map_nan" "Mapper.map_nan" [.delegate "map_algebraic_leaf"]) := by rfl
theorem exp_h_list : c15ExpTable.handlerFn "map_list" =
    some (mkFn "map_list" "Mapper.map_list" [.raise_ "NotImplementedError" ""]) := by rfl
theorem exp_h_tuple : c15ExpTable.handlerFn "map_tuple" =
    some (mkFn "map_tuple" "Mapper.map_tuple" [.raise_ "NotImplementedError" ""]) := by rfl

/-! ### running a handler of the literal table -/

theorem dictOf_dictRes (r : CR Dict) : c15DictOf (dictRes r) = r := by
  cases r <;> rfl

theorem run_handler_leaf (ctx : C15Ctx) (n : Nat) :
    c15RunHandler c15ExpTable ctx (n + 1) "map_algebraic_leaf" =
      c15Result (C15S.execL { ctx with delegate := c15RunHandler c15ExpTable ctx n } expLeafBody []) := by
  simp only [c15RunHandler, exp_h_leaf, mkFn]

/-- a handler whose body is `return self.map_algebraic_leaf(expr, …)` -/
theorem run_delegate (ctx : C15Ctx) (n : Nat) (h d : String)
    (hh : c15ExpTable.handlerFn h = some (mkFn h d [.delegate "map_algebraic_leaf"])) :
    c15RunHandler c15ExpTable ctx (n + 1) h = c15RunHandler c15ExpTable ctx n "map_algebraic_leaf" := by
  simp only [c15RunHandler, hh, mkFn, C15S.execL, C15S.exec]
  cases c15RunHandler c15ExpTable ctx n "map_algebraic_leaf" <;> rfl

theorem nodeCtx_self (tg : Option (List String)) (e : Expr) (fields : List String) (fs : C15Fields) :
    (c15NodeCtx c15ExpTable tg e fields fs).selfAttrs = [("target_names", c15Targets tg)] := by rfl

/-- `map_algebraic_leaf` reached directly or through one delegating handler -/
theorem dispatch_leaf (tg : Option (List String)) (e : Expr) (fields : List String) (fs : C15Fields)
    (nm : Option String) (h : String)
    (hrun : ∀ ctx : C15Ctx, c15RunHandler c15ExpTable ctx 4 h =
      c15RunHandler c15ExpTable ctx 3 "map_algebraic_leaf" ∨
      (h = "map_algebraic_leaf"))
    (hname : c15Getattr (c15NodeCtx c15ExpTable tg e fields fs) "name" = some nm)
    (htg : isTarget tg e = tgTest tg nm) :
    c15Dispatch c15ExpTable tg e h fields fs = leafR tg e := by
  unfold c15Dispatch
  have key : ∀ n, c15RunHandler c15ExpTable (c15NodeCtx c15ExpTable tg e fields fs) (n + 1)
      "map_algebraic_leaf" = dictRes (leafR tg e) := by
    intro n
    rw [run_handler_leaf]
    exact run_leaf _ tg e nm rfl (nodeCtx_self tg e fields fs) hname htg
  rcases hrun (c15NodeCtx c15ExpTable tg e fields fs) with hr | rfl
  · rw [hr, key 2, dictOf_dictRes]
  · rw [key 3, dictOf_dictRes]

/-- a node class the collector has no handler for -/
theorem class_unsupported (tg : Option (List String)) (e : Expr) (fs : C15Fields) (cls : String)
    (fields : List String) (hc : c15ClassOf e = some cls)
    (hrow : c15ExpTable.classRow cls = some { cls := cls, fields := fields, handler := none }) :
    c15Class c15ExpTable tg e fs = .error .unsupported := by
  simp only [c15Class, hc, hrow]

theorem class_leaf (tg : Option (List String)) (e : Expr) (fs : C15Fields) (cls : String)
    (fields : List String) (h : String) (nm : Option String) (hc : c15ClassOf e = some cls)
    (hrow : c15ExpTable.classRow cls = some { cls := cls, fields := fields, handler := some h })
    (hrun : ∀ ctx : C15Ctx, c15RunHandler c15ExpTable ctx 4 h =
      c15RunHandler c15ExpTable ctx 3 "map_algebraic_leaf" ∨ (h = "map_algebraic_leaf"))
    (hname : c15Getattr (c15NodeCtx c15ExpTable tg e fields fs) "name" = some nm)
    (htg : isTarget tg e = tgTest tg nm) :
    c15Class c15ExpTable tg e fs = leafR tg e := by
  simp only [c15Class, hc, hrow]
  exact dispatch_leaf tg e fields fs nm h hrun hname htg

theorem foreign_rule_const (k : String) (hk : k = "int" ∨ k = "bool" ∨ k = "float") :
    c15ForeignRule c15ExpTable.constKinds k c15ExpTable.foreign = some "map_constant" := by
  rcases hk with rfl | rfl | rfl <;> rfl

theorem foreign_const (tg : Option (List String)) (c : Const) (k : String)
    (hk : k = "int" ∨ k = "bool" ∨ k = "float") :
    c15Foreign c15ExpTable tg k (.const c) = .ok [(one, .const c)] := by
  simp only [c15Foreign, foreign_rule_const k hk, c15Dispatch, c15RunHandler, exp_h_const, mkFn]
  rw [run_const _ (.const c) rfl]
  rfl

theorem foreign_raise (tg : Option (List String)) (e : Expr) (k h d : String)
    (hr : c15ForeignRule c15ExpTable.constKinds k c15ExpTable.foreign = some h)
    (hh : c15ExpTable.handlerFn h = some (mkFn h d [.raise_ "NotImplementedError" ""])) :
    c15Foreign c15ExpTable tg k e = .error .notImplemented := by
  simp only [c15Foreign, hr, c15Dispatch, c15RunHandler, hh, mkFn, C15S.execL, C15S.exec]
  rfl

/-! ### the theorem -/

mutual
/-- **The table interpreter on the literal table is `coeffs`.** -/
theorem coeffsT_exp (tg : Option (List String)) : ∀ e : Expr, c15CoeffsT c15ExpTable tg e = coeffs tg e
  | .const (.int n) => by
    simp only [c15CoeffsT, coeffs]; exact foreign_const tg _ _ (Or.inl rfl)
  | .const (.bool b) => by
    simp only [c15CoeffsT, coeffs]; exact foreign_const tg _ _ (Or.inr (Or.inl rfl))
  | .const (.flt r n d) => by
    simp only [c15CoeffsT, coeffs]; exact foreign_const tg _ _ (Or.inr (Or.inr rfl))
  | .const (.str s) => by simp only [c15CoeffsT, coeffs]; rfl
  | .const .none => by simp only [c15CoeffsT, coeffs]; rfl
  | .tuple cs => by
    simp only [c15CoeffsT, coeffs]; exact foreign_raise tg _ "tuple" "map_tuple" _ (by rfl) exp_h_tuple
  | .list cs => by
    simp only [c15CoeffsT, coeffs]; exact foreign_raise tg _ "list" "map_list" _ (by rfl) exp_h_list
  | .var n => by
    simp only [c15CoeffsT, coeffs]
    exact class_leaf tg _ _ "Variable" ["name"] "map_variable" (some n) rfl (by rfl)
      (fun ctx => Or.inl (run_delegate ctx 3 _ _ exp_h_variable)) (by rfl) (by cases tg <;> rfl)
  | .subscript a i => by
    simp only [c15CoeffsT, coeffs]
    exact class_leaf tg _ _ "Subscript" ["aggregate", "index"] "map_subscript" none rfl (by rfl)
      (fun ctx => Or.inl (run_delegate ctx 3 _ _ exp_h_subscript)) (by rfl) (by cases tg <;> rfl)
  | .call f as => by
    simp only [c15CoeffsT, coeffs]
    exact class_leaf tg _ _ "Call" ["function", "parameters"] "map_call" none rfl (by rfl)
      (fun ctx => Or.inl (run_delegate ctx 3 _ _ exp_h_call)) (by rfl) (by cases tg <;> rfl)
  | .callKw f as ns vs => by
    simp only [c15CoeffsT, coeffs]
    exact class_leaf tg _ _ "CallWithKwargs" ["function", "parameters", "kw_parameters"]
      "map_algebraic_leaf" none rfl (by rfl) (fun ctx => Or.inr rfl) (by rfl) (by cases tg <;> rfl)
  | .lookup a n => by
    simp only [c15CoeffsT, coeffs]
    exact class_leaf tg _ _ "Lookup" ["aggregate", "name"] "map_lookup" (some n) rfl (by rfl)
      (fun ctx => Or.inl (run_delegate ctx 3 _ _ exp_h_lookup)) (by rfl) (by cases tg <;> rfl)
  | .nan => by
    simp only [c15CoeffsT, coeffs]
    exact class_leaf tg _ _ "NaN" ["data_type"] "map_nan" none rfl (by rfl)
      (fun ctx => Or.inl (run_delegate ctx 3 _ _ exp_h_nan)) (by rfl) (by cases tg <;> rfl)
  | .wildcard => by
    simp only [c15CoeffsT, coeffs]
    exact class_leaf tg _ _ "Wildcard" [] "map_algebraic_leaf" none rfl (by rfl)
      (fun ctx => Or.inr rfl) (by rfl) (by cases tg <;> rfl)
  | .dotWild n => by
    simp only [c15CoeffsT, coeffs]
    exact class_leaf tg _ _ "DotWildcard" ["name"] "map_algebraic_leaf" (some n) rfl (by rfl)
      (fun ctx => Or.inr rfl) (by rfl) (by cases tg <;> rfl)
  | .starWild n => by
    simp only [c15CoeffsT, coeffs]
    exact class_leaf tg _ _ "StarWildcard" ["name"] "map_algebraic_leaf" (some n) rfl (by rfl)
      (fun ctx => Or.inr rfl) (by rfl) (by cases tg <;> rfl)
  | .funcSym => by
    simp only [c15CoeffsT, coeffs]
    exact class_leaf tg _ _ "FunctionSymbol" [] "map_algebraic_leaf" none rfl (by rfl)
      (fun ctx => Or.inr rfl) (by rfl) (by cases tg <;> rfl)
  | .nary .sum cs => by
    have hrow : c15ExpTable.classRow "Sum" = some ⟨"Sum", ["children"], some "map_sum"⟩ := by rfl
    simp only [c15CoeffsT, c15Class, c15ClassOf, NaryOp.name, hrow, c15Dispatch, c15RunHandler,
      exp_h_sum, mkFn, coeffs]
    rw [run_sum _ (c15CoeffsTL c15ExpTable tg cs) rfl, dictOf_dictRes, coeffsTL_exp tg cs]
  | .nary .prod cs => by
    have hrow : c15ExpTable.classRow "Product" = some ⟨"Product", ["children"], some "map_product"⟩ := by
      rfl
    simp only [c15CoeffsT, c15Class, c15ClassOf, NaryOp.name, hrow, c15Dispatch, c15RunHandler,
      exp_h_prod, mkFn, coeffs]
    rw [run_prod _ (c15CoeffsTL c15ExpTable tg cs) rfl
      (by rw [coeffsTL_exp tg cs]; exact coeffsL_ok tg cs), dictOf_dictRes, coeffsTL_exp tg cs]
    rfl
  | .bin .quot a b => by
    have hrow : c15ExpTable.classRow "Quotient" =
        some ⟨"Quotient", ["numerator", "denominator"], some "map_quotient"⟩ := by rfl
    simp only [c15CoeffsT, c15Class, c15ClassOf, BinOp.name, hrow, c15Dispatch, c15RunHandler,
      exp_h_quot, mkFn, coeffs]
    rw [run_quot _ (fun _ => c15CoeffsT c15ExpTable tg a) (fun _ => c15CoeffsT c15ExpTable tg b) rfl,
      dictOf_dictRes, coeffsT_exp tg a, coeffsT_exp tg b]
    rfl
  | .bin .pow a b => by
    have hrow : c15ExpTable.classRow "Power" =
        some ⟨"Power", ["base", "exponent"], some "map_power"⟩ := by rfl
    simp only [c15CoeffsT, c15Class, c15ClassOf, BinOp.name, hrow, c15Dispatch, c15RunHandler,
      exp_h_pow, mkFn, coeffs]
    rw [run_pow _ (.bin .pow a b) (fun _ => c15CoeffsT c15ExpTable tg a)
      (fun _ => c15CoeffsT c15ExpTable tg b) rfl rfl, dictOf_dictRes, coeffsT_exp tg a,
      coeffsT_exp tg b]
    rfl
  | .nary .bor cs => by
    simp only [c15CoeffsT, coeffs]; exact class_unsupported tg _ _ "BitwiseOr" ["children"] rfl (by rfl)
  | .nary .bxor cs => by
    simp only [c15CoeffsT, coeffs]; exact class_unsupported tg _ _ "BitwiseXor" ["children"] rfl (by rfl)
  | .nary .band cs => by
    simp only [c15CoeffsT, coeffs]; exact class_unsupported tg _ _ "BitwiseAnd" ["children"] rfl (by rfl)
  | .nary .lor cs => by
    simp only [c15CoeffsT, coeffs]; exact class_unsupported tg _ _ "LogicalOr" ["children"] rfl (by rfl)
  | .nary .land cs => by
    simp only [c15CoeffsT, coeffs]; exact class_unsupported tg _ _ "LogicalAnd" ["children"] rfl (by rfl)
  | .nary .min cs => by
    simp only [c15CoeffsT, coeffs]; exact class_unsupported tg _ _ "Min" ["children"] rfl (by rfl)
  | .nary .max cs => by
    simp only [c15CoeffsT, coeffs]; exact class_unsupported tg _ _ "Max" ["children"] rfl (by rfl)
  | .bin .floordiv a b => by
    simp only [c15CoeffsT, coeffs]
    exact class_unsupported tg _ _ "FloorDiv" ["numerator", "denominator"] rfl (by rfl)
  | .bin .rem a b => by
    simp only [c15CoeffsT, coeffs]
    exact class_unsupported tg _ _ "Remainder" ["numerator", "denominator"] rfl (by rfl)
  | .bin .lshift a b => by
    simp only [c15CoeffsT, coeffs]
    exact class_unsupported tg _ _ "LeftShift" ["shiftee", "shift"] rfl (by rfl)
  | .bin .rshift a b => by
    simp only [c15CoeffsT, coeffs]
    exact class_unsupported tg _ _ "RightShift" ["shiftee", "shift"] rfl (by rfl)
  | .un .bnot a => by
    simp only [c15CoeffsT, coeffs]; exact class_unsupported tg _ _ "BitwiseNot" ["child"] rfl (by rfl)
  | .un .lnot a => by
    simp only [c15CoeffsT, coeffs]; exact class_unsupported tg _ _ "LogicalNot" ["child"] rfl (by rfl)
  | .cmp o a b => by
    simp only [c15CoeffsT, coeffs]
    exact class_unsupported tg _ _ "Comparison" ["left", "operator", "right"] rfl (by rfl)
  | .ite c t e => by
    simp only [c15CoeffsT, coeffs]
    exact class_unsupported tg _ _ "If" ["condition", "then", "else_"] rfl (by rfl)
  | .cse c p sc => by
    simp only [c15CoeffsT, coeffs]
    exact class_unsupported tg _ _ "CommonSubexpression" ["child", "prefix", "scope"] rfl (by rfl)
  | .subst c vars vals => by
    simp only [c15CoeffsT, coeffs]
    exact class_unsupported tg _ _ "Substitution" ["child", "variables", "values"] rfl (by rfl)
  | .deriv c vars => by
    simp only [c15CoeffsT, coeffs]
    exact class_unsupported tg _ _ "Derivative" ["child", "variables"] rfl (by rfl)
  | .slice cs => by
    simp only [c15CoeffsT, coeffs]; exact class_unsupported tg _ _ "Slice" ["children"] rfl (by rfl)
theorem coeffsTL_exp (tg : Option (List String)) : ∀ cs : List Expr,
    (c15CoeffsTL c15ExpTable tg cs).mapM (fun r => r ()) = coeffsL tg cs
  | [] => rfl
  | c :: cs => by
    simp only [c15CoeffsTL, List.mapM_cons, coeffsL, coeffsT_exp tg c, coeffsTL_exp tg cs]
end

end PV.Coeff
