import PV.Proofs.WalkSpec
/-
  C04 — the combine fold (`combineL`) against an independent leaf enumeration, and when it raises.
-/
namespace PV

/-- the leaves a `CombineMapper` maps to a value: constants, variables, wildcards, function symbols -/
def Expr.isCombineLeaf : Expr → Bool
  | .const _ | .var _ | .wildcard | .dotWild _ | .starWild _ | .funcSym => true
  | _ => false

/-- node types without a `CombineMapper` handler (and the non-expression constants `map_foreign`
rejects) -/
def Expr.combineUnhandled : Expr → Bool
  | .slice _ | .subst .. | .deriv .. | .nan | .const (.str _) | .const .none => true
  | _ => false

/-- **Specification of the combine fold** (with list concatenation as `combine`): every leaf
occurrence, in field order through every child -/
def leavesOf (e : Expr) : List Expr :=
  if e.isCombineLeaf then [e]
  else e.children.attach.flatMap (fun ⟨c, _⟩ => leavesOf c)
termination_by e.size
decreasing_by exact Expr.size_lt_of_mem_children ‹_›

theorem leavesOf_eq (e : Expr) :
    leavesOf e = if e.isCombineLeaf then [e] else e.children.flatMap leavesOf := by
  rw [leavesOf]; simp [List.flatMap_subtype, List.unattach_attach]

mutual
/-- decidable: some reachable node has no combine handler -/
def combineBad : Expr → Bool
  | .const (.str _) => true
  | .const .none => true
  | .const _ => false
  | .var _ => false
  | .wildcard => false
  | .dotWild _ => false
  | .starWild _ => false
  | .funcSym => false
  | .nan => true
  | .slice _ => true
  | .subst .. => true
  | .deriv .. => true
  | .nary _ cs => combineBadL cs
  | .bin _ a b => combineBad a || combineBad b
  | .un _ a => combineBad a
  | .cmp _ a b => combineBad a || combineBad b
  | .ite c t e => combineBad c || combineBad t || combineBad e
  | .call f as => combineBad f || combineBadL as
  | .callKw f as _ vs => combineBad f || combineBadL as || combineBadL vs
  | .subscript a i => combineBad a || combineBad i
  | .lookup a _ => combineBad a
  | .cse c _ _ => combineBad c
  | .tuple cs => combineBadL cs
  | .list cs => combineBadL cs
def combineBadL : List Expr → Bool
  | [] => false
  | c :: cs => combineBad c || combineBadL cs
end

/-- outcome of the fold: the leaves, or some error when a node is unhandled -/
def CombineOutcome (bad : Bool) (leaves : List Expr) (r : Except DepErr (List Expr)) : Prop :=
  if bad then ∃ err, r = .error err ∧ (err = .unsupported ∨ err = .foreign)
  else r = .ok leaves

theorem CombineOutcome.seq {b1 b2 : Bool} {l1 l2 : List Expr} {r1 r2 : Except DepErr (List Expr)}
    (h1 : CombineOutcome b1 l1 r1) (h2 : CombineOutcome b2 l2 r2) :
    CombineOutcome (b1 || b2) (l1 ++ l2) (do pure ((← r1) ++ (← r2))) := by
  cases b1 <;> cases b2 <;> simp only [CombineOutcome, Bool.or_self, Bool.or_true, Bool.or_false,
    if_true, Bool.false_eq_true, if_false] at h1 h2 ⊢
  · subst h1 h2; rfl
  · obtain ⟨err, rfl, he⟩ := h2; subst h1; exact ⟨err, rfl, he⟩
  · obtain ⟨err, rfl, he⟩ := h1; exact ⟨err, rfl, he⟩
  · obtain ⟨err, rfl, he⟩ := h1; exact ⟨err, rfl, he⟩

theorem CombineOutcome.seq3 {b1 b2 b3 : Bool} {l1 l2 l3 : List Expr}
    {r1 r2 r3 : Except DepErr (List Expr)}
    (h1 : CombineOutcome b1 l1 r1) (h2 : CombineOutcome b2 l2 r2) (h3 : CombineOutcome b3 l3 r3) :
    CombineOutcome (b1 || b2 || b3) (l1 ++ l2 ++ l3) (do pure ((← r1) ++ (← r2) ++ (← r3))) := by
  have e : (do pure ((← (do pure ((← r1) ++ (← r2)))) ++ (← r3))) =
      (do pure ((← r1) ++ (← r2) ++ (← r3)) : Except DepErr (List Expr)) := by
    cases r1 <;> cases r2 <;> cases r3 <;> rfl
  exact e ▸ (h1.seq h2).seq h3

mutual
theorem combineL_total : ∀ e : Expr, CombineOutcome (combineBad e) (leavesOf e) (combineL e)
  | .const (.str _) => by simp [combineL, combineBad, CombineOutcome]; exact ⟨_, rfl, .inr rfl⟩
  | .const .none => by simp [combineL, combineBad, CombineOutcome]; exact ⟨_, rfl, .inr rfl⟩
  | .un o a => by
      have := combineL_total a
      simpa [combineL, combineBad, leavesOf_eq (.un o a), Expr.isCombineLeaf, Expr.children] using this
  | .bin o a b => by
      have := (combineL_total a).seq (combineL_total b)
      simpa [combineL, combineBad, leavesOf_eq (.bin o a b), Expr.isCombineLeaf, Expr.children] using this
  | .const (.int n) => by
      rw [leavesOf_eq]; simp [combineL, combineBad, CombineOutcome, Expr.isCombineLeaf]; rfl
  | .const (.bool n) => by
      rw [leavesOf_eq]; simp [combineL, combineBad, CombineOutcome, Expr.isCombineLeaf]; rfl
  | .const (.flt x y z) => by
      rw [leavesOf_eq]; simp [combineL, combineBad, CombineOutcome, Expr.isCombineLeaf]; rfl
  | .var n => by
      rw [leavesOf_eq]; simp [combineL, combineBad, CombineOutcome, Expr.isCombineLeaf]; rfl
  | .wildcard => by
      rw [leavesOf_eq]; simp [combineL, combineBad, CombineOutcome, Expr.isCombineLeaf]; rfl
  | .dotWild n => by
      rw [leavesOf_eq]; simp [combineL, combineBad, CombineOutcome, Expr.isCombineLeaf]; rfl
  | .starWild n => by
      rw [leavesOf_eq]; simp [combineL, combineBad, CombineOutcome, Expr.isCombineLeaf]; rfl
  | .funcSym => by
      rw [leavesOf_eq]; simp [combineL, combineBad, CombineOutcome, Expr.isCombineLeaf]; rfl
  | .nan => by simp [combineL, combineBad, CombineOutcome]; exact ⟨_, rfl, .inl rfl⟩
  | .slice cs => by simp [combineL, combineBad, CombineOutcome]; exact ⟨_, rfl, .inl rfl⟩
  | .subst c vs xs => by simp [combineL, combineBad, CombineOutcome]; exact ⟨_, rfl, .inl rfl⟩
  | .deriv c vs => by simp [combineL, combineBad, CombineOutcome]; exact ⟨_, rfl, .inl rfl⟩
  | .cmp o a b => by
      have := (combineL_total a).seq (combineL_total b)
      simpa [combineL, combineBad, leavesOf_eq (.cmp o a b), Expr.isCombineLeaf, Expr.children] using this
  | .subscript a b => by
      have := (combineL_total a).seq (combineL_total b)
      simpa [combineL, combineBad, leavesOf_eq (.subscript a b), Expr.isCombineLeaf, Expr.children] using this
  | .ite a b c => by
      have := (combineL_total a).seq3 (combineL_total b) (combineL_total c)
      simpa [combineL, combineBad, leavesOf_eq (.ite a b c), Expr.isCombineLeaf, Expr.children] using this
  | .call f as => by
      have := (combineL_total f).seq (combineLL_total as)
      simpa [combineL, combineBad, leavesOf_eq (.call f as), Expr.isCombineLeaf, Expr.children] using this
  | .callKw f as ns vs => by
      have := (combineL_total f).seq3 (combineLL_total as) (combineLL_total vs)
      simpa [combineL, combineBad, leavesOf_eq (.callKw f as ns vs), Expr.isCombineLeaf, Expr.children] using this
  | .lookup a n => by
      have := combineL_total a
      simpa [combineL, combineBad, leavesOf_eq (.lookup a n), Expr.isCombineLeaf, Expr.children] using this
  | .cse a p s => by
      have := combineL_total a
      simpa [combineL, combineBad, leavesOf_eq (.cse a p s), Expr.isCombineLeaf, Expr.children] using this
  | .nary o cs => by
      have := combineLL_total cs
      simpa [combineL, combineBad, leavesOf_eq (.nary o cs), Expr.isCombineLeaf, Expr.children] using this
  | .tuple cs => by
      have := combineLL_total cs
      simpa [combineL, combineBad, leavesOf_eq (.tuple cs), Expr.isCombineLeaf, Expr.children] using this
  | .list cs => by
      have := combineLL_total cs
      simpa [combineL, combineBad, leavesOf_eq (.list cs), Expr.isCombineLeaf, Expr.children] using this
theorem combineLL_total : ∀ cs : List Expr,
    CombineOutcome (combineBadL cs) (cs.flatMap leavesOf) (combineLL cs)
  | [] => by simp [combineLL, combineBadL, CombineOutcome]; rfl
  | c :: cs => by
      have := (combineL_total c).seq (combineLL_total cs)
      simpa [combineLL, combineBadL] using this
end

theorem combineBadL_eq : ∀ cs : List Expr, combineBadL cs = cs.any combineBad
  | [] => rfl
  | c :: cs => by simp [combineBadL, combineBadL_eq cs]

theorem combineBad_eq (e : Expr) :
    combineBad e = (e.combineUnhandled || e.children.any combineBad) := by
  cases e with
  | const c => cases c <;> simp [combineBad, Expr.combineUnhandled, Expr.children]
  | _ => simp [combineBad, Expr.combineUnhandled, Expr.children, combineBadL_eq, Bool.or_assoc]

theorem children_induct {P : Expr → Prop}
    (step : ∀ e, (∀ c ∈ e.children, P c) → P e) (e : Expr) : P e := by
  have : ∀ n (e : Expr), e.size = n → P e := by
    intro n
    induction n using Nat.strongRecOn with
    | _ n ih =>
      intro e he
      exact step e (fun c hc => ih c.size (he ▸ Expr.size_lt_of_mem_children hc) c rfl)
  exact this _ e rfl

/-- the fold fails exactly when some node of the tree has no handler -/
theorem combineBad_iff (e : Expr) :
    combineBad e = true ↔ ∃ t, Subterm t e ∧ t.combineUnhandled = true := by
  constructor
  · induction e using children_induct with
    | step e ih =>
      intro h
      rw [combineBad_eq, Bool.or_eq_true, List.any_eq_true] at h
      rcases h with h | ⟨c, hc, hb⟩
      · exact ⟨e, .refl e, h⟩
      · obtain ⟨t, ht, hu⟩ := ih c hc hb
        exact ⟨t, ht.trans (.child hc), hu⟩
  · rintro ⟨t, ht, hu⟩
    induction ht with
    | refl => rw [combineBad_eq, hu]; rfl
    | step _ hc ih =>
      rw [combineBad_eq, Bool.or_eq_true, List.any_eq_true]
      exact .inr ⟨_, hc, ih⟩
end PV
