import PV.Proofs.AlgoArith
import PV.Proofs.AlgoPoly
import PV.Proofs.AlgoDivmod

/-!
  PV.Proofs.Algo — umbrella for the proofs about `PV.Model.Algo`:

  * `PV.Proofs.AlgoArith`  : `integer_power`, `extended_euclidean`, `gcd`, `lcm`,
                             `find_factors`, `fft` index splitting
  * `PV.Proofs.AlgoPoly`   : `_sort_uniq`, Horner evaluation, `+ - * **`, `divmod` (partial
                             correctness), agreement of the literal mirrors (`…Py`) with the
                             repaired definitions
  * `PV.Proofs.AlgoDivmod` : fuel sufficiency (termination) of `divmod`
  * `PV.Proofs.AlgoFft`    : the arithmetic of `fft` = DFT over every commutative ring, `ifft`
                             inverts it (principal roots), necessity of that hypothesis
  * `PV.Proofs.AlgoFftMod` : (imported by `PV.Properties.C19Fft` only) naturality of the `fft` model, the driver's `Z_p` instance = DFT mod p,
                             primitive roots in domains are principal
-/
