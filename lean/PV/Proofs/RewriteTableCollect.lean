import PV.Proofs.RewriteTableSplit
set_option linter.unusedSimpArgs false
set_option linter.unusedVariables false
/-
  C11 (T-gen), part 5: `TermCollector.map_sum` of the table, interpreted, is the sum case of
  `collectM` (`collectSumLoop` with `t2cInsert` = `term2coeff[term] = term2coeff.get(term, 0) +
  coeff` keyed by frozensets, then `coeff * rep2term(termrep)` over the items); with
  `split_term` (part 4) and the inherited rows this gives the whole class.
-/
namespace PV
open PV.Generated (c04Classes c04IdentityTable)
open PV.C11Expected

/-! ### the `{term: coefficient}` dictionary of `map_sum` -/

def c11T2C (d : List (List (Expr × Expr) × Expr)) : List C11Val :=
  d.map fun kc => .list [.set (c11B2E kc.1), .expr kc.2]

theorem c11T2C_cons (kc : List (Expr × Expr) × Expr) (d : List (List (Expr × Expr) × Expr)) :
    c11T2C (kc :: d) = .list [.set (c11B2E kc.1), .expr kc.2] :: c11T2C d := rfl

theorem c11Eq_keys (k' k : List (Expr × Expr)) :
    c11Eq (.set (c11B2E k')) (.set (c11B2E k)) = keyEqSet k' k := by
  simp [c11Eq, keyEqSet, c11B2E, List.all_map, List.any_map, c11Eq1, c11EqL, c11Eq0,
    Function.comp_def]

def t2cSet (k : List (Expr × Expr)) (v : Expr) :
    List (List (Expr × Expr) × Expr) → List (List (Expr × Expr) × Expr)
  | [] => [(k, v)]
  | (k', c') :: r => if keyEqSet k' k then (k', v) :: r else (k', c') :: t2cSet k v r

theorem c11_t2c_find (k : List (Expr × Expr)) (d : List (List (Expr × Expr) × Expr)) :
    c11DictFind (.set (c11B2E k)) (c11T2C d) =
      (d.find? (fun kc => keyEqSet kc.1 k)).map (fun kc => C11Val.expr kc.2) := by
  induction d with
  | nil => rfl
  | cons p d ih =>
    simp only [c11T2C_cons, c11DictFind, c11Eq_keys, List.find?_cons]
    by_cases h : keyEqSet p.1 k = true <;> simp [h, ih]

theorem c11_t2c_set (k : List (Expr × Expr)) (v : Expr) (d : List (List (Expr × Expr) × Expr)) :
    c11DictSet (.set (c11B2E k)) (.expr v) (c11T2C d) = c11T2C (t2cSet k v d) := by
  induction d with
  | nil => rfl
  | cons p d ih =>
    simp only [c11T2C_cons, c11DictSet, c11Eq_keys, t2cSet]
    by_cases h : keyEqSet p.1 k = true <;> simp [h, ih, c11T2C_cons]

theorem t2cInsert_eq (k : List (Expr × Expr)) (c : Expr) (d : List (List (Expr × Expr) × Expr)) :
    t2cInsert k c d =
      (match pyAdd (match d.find? (fun kc => keyEqSet kc.1 k) with
          | some kc => kc.2
          | none => zero) c with
       | .ok s => .ok (t2cSet k s d)
       | .error er => .error er) := by
  induction d with
  | nil => simp only [t2cInsert, bind, Except.bind, List.find?_nil, t2cSet]; cases pyAdd zero c <;> rfl
  | cons p d ih =>
    obtain ⟨k', c'⟩ := p
    simp only [t2cInsert, List.find?_cons, t2cSet]
    by_cases h : keyEqSet k' k = true
    · simp only [h, if_true, bind, Except.bind]
      cases pyAdd c' c <;> rfl
    · simp only [h, Bool.false_eq_true, if_false, bind, Except.bind, ih]
      cases pyAdd (match d.find? (fun kc => keyEqSet kc.1 k) with
          | some kc => kc.2
          | none => zero) c <;> rfl


/-! ### `TermCollector.map_sum` -/

def c11CollEnv (m : C11Val) (acc : List (List (Expr × Expr) × Expr)) (child term coeff r2t result : C11Val) :
    C11Env :=
  [("mysum", m), ("term2coeff", .dict (c11T2C acc)), ("child", child), ("term", term),
   ("coeff", coeff), ("rep2term", r2t), ("result", result)]

def c11CollStmts : List C11Stmt := [
        .assign2 "term" "coeff" (.selfCall "split_term" [(.var "child")]),
        .setItem "term2coeff" (.var "term") (.bin .add (.method (.var "term2coeff") "get" [(.var "term"), (.int 0)]) (.var "coeff"))]

def c11CollBody (ctx : C11Ctx) (F : Nat) (item : C11Val) (env : C11Env) : C11Out :=
  match c11Bind c11Set ["child"] item env with
  | some env' => c11ExecL ctx F c11CollStmts env'
  | none => .fail .stuck

theorem c11_coll_loop (ctx : C11Ctx) (params : List Expr)
    (hs : ∀ t, ctx.callSelf "split_term" [.expr t] = c11SplitResult (splitTerm ctx.recur params t))
    (F : Nat) (m r2t result : C11Val) :
    ∀ (cs : List Expr) (acc : List (List (Expr × Expr) × Expr)) (child term coeff : C11Val),
      match collectSumLoop ctx.recur params cs acc with
      | .ok acc' => ∃ ch' t' c',
          c11For (c11CollBody ctx F) (cs.map .expr) (c11CollEnv m acc child term coeff r2t result)
            = .fell (c11CollEnv m acc' ch' t' c' r2t result)
      | .error er =>
          c11For (c11CollBody ctx F) (cs.map .expr) (c11CollEnv m acc child term coeff r2t result)
            = .fail (.py er)
  | [], acc, child, term, coeff => by
    simp only [collectSumLoop, pure, Except.pure, List.map_nil, c11For]
    exact ⟨child, term, coeff, rfl⟩
  | c :: cs, acc, child, term, coeff => by
    have ih := c11_coll_loop ctx params hs F m r2t result cs
    simp only [collectSumLoop, List.map_cons, c11For, t2cInsert_eq, zero]
    cases hsp : splitTerm ctx.recur params c with
    | error er =>
      simp [bind, Except.bind, c11CollBody, c11Bind, c11Set, c11CollEnv, c11CollStmts, c11ExecL,
        c11Exec, c11Eval, c11EvalL, c11Get, hs, hsp, c11SplitResult, pure, Except.pure]
    | ok r =>
      obtain ⟨k, cf⟩ := r
      cases hadd : pyAdd (match acc.find? (fun kc => keyEqSet kc.1 k) with
          | some kc => kc.2
          | none => Expr.const (Const.int 0)) cf with
      | error er =>
        cases hf : acc.find? (fun kc => keyEqSet kc.1 k) <;>
        simp [hf] at hadd <;>
        simp [bind, Except.bind, c11CollBody, c11Bind, c11Set, c11CollEnv, c11CollStmts, c11ExecL,
          c11Exec, c11Eval, c11EvalL, c11Get, hs, hsp, c11SplitResult, c11Method, c11Hashable,
          c11Hashable0, c11_t2c_find, hf, c11Bin, hadd, c11Lift, pure, Except.pure, zero]
      | ok sm =>
        have := ih (t2cSet k sm acc) (.expr c) (.set (c11B2E k)) (.expr cf)
        cases hf : acc.find? (fun kc => keyEqSet kc.1 k) <;>
        simp [hf] at hadd <;>
        simp [bind, Except.bind, c11CollBody, c11Bind, c11Set, c11CollEnv, c11CollStmts, c11ExecL,
          c11Exec, c11Eval, c11EvalL, c11Get, hs, hsp, c11SplitResult, c11Method, c11Hashable,
          c11Hashable0, c11_t2c_find, hf, c11Bin, hadd, c11Lift, pure, Except.pure, zero,
          c11_t2c_set] at this ⊢ <;>
        exact this

def c11CollDefs : List C11Def := c11_TermCollector_map_sum.defs

/-- a comprehension over `(base, exponent)` pairs whose element is a function of the tree model -/
theorem c11MapM_pairs (f : C11Val → C11R C11Val) (g : Expr × Expr → RwR)
    (hf : ∀ b e : Expr, f (.list [.expr b, .expr e]) =
      (match g (b, e) with
       | .ok t => .ok (.expr t)
       | .error er => .error (.py er))) :
    ∀ d : List (Expr × Expr), c11MapM f (c11B2E d) =
      (match d.mapM g with
       | .ok ts => .ok (ts.map .expr)
       | .error er => .error (.py er))
  | [] => rfl
  | p :: d => by
    rw [c11B2E_cons, c11MapM, hf, c11MapM_pairs f g hf d, List.mapM_cons]
    cases g (p.1, p.2) with
    | error er => rfl
    | ok t => cases d.mapM g <;> rfl

theorem c11_call_rep2term (ctx : C11Ctx) (F : Nat) (k : List (Expr × Expr)) :
    c11CallLocal ctx c11CollDefs F "rep2term" [.set (c11B2E k)] =
      (match rep2term k with
       | .ok t => .ok (.expr t)
       | .error er => .error (.py er)) := by
  have key : ∀ ctx' : C11Ctx, ∀ F' : Nat,
      c11RunBody ctx' F' ["rep"] [] [("rep2term", .closure "rep2term")]
        [.ret (.call (.glob .flattenedProduct) [(.comp (.bin .pow (.var "base") (.var "exp")) ["base", "exp"] (.var "rep"))])]
        [.set (c11B2E k)] =
      (match rep2term k with
       | .ok t => .ok (.expr t)
       | .error er => .error (.py er)) := by
    intro ctx' F'
    simp only [c11RunBody, c11Frame, List.length_cons, List.length_nil, beq_self_eq_true, if_true,
      List.zip_cons_cons, List.zip_nil_right, List.map_nil, List.append_nil, List.nil_append,
      List.cons_append, c11ExecL, c11Exec, c11Eval, c11EvalL, c11Get, c11Items, bind, Except.bind,
      pure, Except.pure]
    rw [c11MapM_pairs _ (fun p => pyPow p.1 p.2)]
    · simp only [rep2term, bind, Except.bind]
      cases hm : k.mapM (fun p => pyPow p.1 p.2) with
      | error er => simp [c11OutToR, throw, throwThe, MonadExceptOf.throw]
      | ok ts =>
        cases hf : flatProd ts <;>
        simp [c11Apply, c11AsExprs_exprs, hf, c11Lift, c11OutToR, pure, Except.pure, bind, Except.bind,
          throw, throwThe, MonadExceptOf.throw]
    · intro b e
      cases hp : pyPow b e <;>
      simp [c11Bind, c11Push, c11Eval, c11Get, c11Bin, hp, c11Lift, pure, Except.pure, bind, Except.bind]
  cases F <;> simp only [c11CallLocal, c11CollDefs, c11_TermCollector_map_sum, c11FindDef,
    beq_self_eq_true, if_true, Bool.false_eq_true, if_false] <;> exact key _ _

theorem c11MapM_t2c (f : C11Val → C11R C11Val) (g : List (Expr × Expr) × Expr → RwR)
    (hf : ∀ (k : List (Expr × Expr)) (c : Expr), f (.list [.set (c11B2E k), .expr c]) =
      (match g (k, c) with
       | .ok t => .ok (.expr t)
       | .error er => .error (.py er))) :
    ∀ d : List (List (Expr × Expr) × Expr), c11MapM f (c11T2C d) =
      (match d.mapM g with
       | .ok ts => .ok (ts.map .expr)
       | .error er => .error (.py er))
  | [] => rfl
  | p :: d => by
    rw [c11T2C_cons, c11MapM, hf, c11MapM_t2c f g hf d, List.mapM_cons]
    cases g (p.1, p.2) with
    | error er => rfl
    | ok t => cases d.mapM g <;> rfl

theorem c11Exec_coll_for (ctx : C11Ctx) (F : Nat) (env : C11Env) :
    c11Exec ctx F (.for ["child"] (.attr (.var "mysum") "children") c11CollStmts) env =
      (match c11Eval ctx env (.attr (.var "mysum") "children") with
       | .error e => .fail e
       | .ok v => match c11Items v with
         | .error e => .fail e
         | .ok items => c11For (c11CollBody ctx F) items env) := rfl

def c11CollTail : List C11Stmt := [
      .defFn "rep2term",
      .assign "result" (.call (.glob .flattenedSum) [(.comp (.bin .mul (.var "coeff") (.call (.var "rep2term") [(.var "termrep")])) ["termrep", "coeff"] (.method (.var "term2coeff") "items" []))]),
      .ret (.var "result")]

theorem c11_coll_body : c11_TermCollector_map_sum.body =
    [.assign "term2coeff" .emptyDict,
     .for ["child"] (.attr (.var "mysum") "children") c11CollStmts] ++ c11CollTail := rfl

theorem c11_coll_tail (ctx : C11Ctx) (F : Nat)
    (hr : ∀ k, ctx.callLocal "rep2term" [.set (c11B2E k)] =
      (match rep2term k with
       | .ok t => .ok (.expr t)
       | .error er => .error (.py er)))
    (m ch t c r2t result : C11Val) (acc : List (List (Expr × Expr) × Expr)) :
    c11ToRw (c11OutToR (c11ExecL ctx F c11CollTail (c11CollEnv m acc ch t c r2t result))) =
      (do let terms ← acc.mapM fun kc => do
            let t ← rep2term kc.1
            pyMul kc.2 t
          pure (flattenedSum terms)) := by
  simp only [c11CollTail, c11ExecL, c11Exec, c11CollEnv, c11Set]
  simp only [String.reduceBEq, Bool.false_eq_true, if_false, if_true, beq_self_eq_true]
  simp only [c11Eval, c11EvalL, c11Get, c11Method, c11Items, bind, Except.bind, pure, Except.pure]
  simp only [String.reduceBEq, Bool.false_eq_true, if_false, if_true, beq_self_eq_true]
  rw [c11MapM_t2c _ (fun kc => do let t ← rep2term kc.1; pyMul kc.2 t)]
  · cases hm : acc.mapM (fun kc => do let t ← rep2term kc.1; pyMul kc.2 t) with
    | error er =>
      simp only [bind, Except.bind] at hm
      simp [c11OutToR, c11ToRw, throw, throwThe, MonadExceptOf.throw, bind, Except.bind, hm]
    | ok ts =>
      simp only [bind, Except.bind] at hm
      simp [c11Apply, c11AsExprs_exprs, c11OutToR, c11ToRw, c11Set, c11Get, pure, Except.pure, bind,
        Except.bind, hm]
  · intro k cf
    cases hk : rep2term k with
    | error er =>
      simp [c11Bind, c11Push, c11Get, c11Apply, hr, hk, bind, Except.bind, pure, Except.pure]
    | ok tt =>
      cases hmul : pyMul cf tt <;>
      simp [c11Bind, c11Push, c11Get, c11Apply, hr, hk, bind, Except.bind, pure, Except.pure, c11Bin,
        hmul, c11Lift]

theorem c11_coll_map_sum (ctx : C11Ctx) (params : List Expr)
    (hs : ∀ t, ctx.callSelf "split_term" [.expr t] = c11SplitResult (splitTerm ctx.recur params t))
    (fuel : Nat) (cs : List Expr) :
    c11ToRw (c11RunFn ctx fuel c11_TermCollector_map_sum [.expr (.nary .sum cs)]) =
      (do let t2c ← collectSumLoop ctx.recur params cs []
          let terms ← t2c.mapM fun kc => do
            let t ← rep2term kc.1
            pyMul kc.2 t
          pure (flattenedSum terms)) := by
  generalize hctx' : ({ ctx with callLocal := c11CallLocal ctx c11_TermCollector_map_sum.defs fuel } : C11Ctx) = ctx'
  have hrec : ctx'.recur = ctx.recur := by rw [← hctx']
  have hs' : ∀ t, ctx'.callSelf "split_term" [.expr t] =
      c11SplitResult (splitTerm ctx'.recur params t) := by rw [← hctx']; exact hs
  have hr : ∀ k, ctx'.callLocal "rep2term" [.set (c11B2E k)] =
      (match rep2term k with
       | .ok t => .ok (.expr t)
       | .error er => .error (.py er)) := by
    rw [← hctx']; exact c11_call_rep2term ctx fuel
  unfold c11RunFn
  rw [hctx']
  simp only [c11RunBody, c11_coll_body]
  have hframe : c11Frame c11_TermCollector_map_sum.params c11_TermCollector_map_sum.locals []
      [.expr (.nary .sum cs)] = some [("mysum", .expr (.nary .sum cs)), ("term2coeff", .unbound),
        ("child", .unbound), ("term", .unbound), ("coeff", .unbound), ("rep2term", .unbound),
        ("result", .unbound)] := rfl
  rw [hframe]
  have hloop := c11_coll_loop ctx' params hs' fuel (.expr (.nary .sum cs)) .unbound .unbound cs []
    .unbound .unbound .unbound
  rw [hrec] at hloop
  simp only [c11CollEnv, c11T2C, List.map_nil] at hloop
  simp only [List.cons_append, List.nil_append, c11ExecL, c11Exec_coll_for]
  simp [c11Exec, c11Eval, c11Set, c11Get, c11Attr, Expr.c04Field, Expr.c04Fields, c04Assoc, c11Items,
    pure, Except.pure, bind, Except.bind]
  cases hl : collectSumLoop ctx.recur params cs [] with
  | error er =>
    rw [hl] at hloop
    simp only at hloop
    rw [hloop]; rfl
  | ok acc =>
    rw [hl] at hloop
    obtain ⟨ch', t', c', hloop⟩ := hloop
    rw [hloop]
    have := c11_coll_tail ctx' fuel hr (.expr (.nary .sum cs)) ch' t' c' .unbound .unbound acc
    simp only [c11CollEnv, c11T2C] at this
    exact this

/-- the table-driven `TermCollector(parameters)` -/
def c11CollectT (params : List Expr) : Nat → Expr → RwR :=
  c11Mapper c04Classes c04IdentityTable c11Class_collector
    [("parameters", .set (params.map .expr))] c11NoInst

theorem c11_collector_ctx (S : C11Self) (hcls : S.cls = c11Class_collector) (params : List Expr)
    (hp : S.selfAttrs = [("parameters", .set (params.map .expr))]) (fuel : Nat) :
    C11CollCtx (c11CtxOf S fuel 2) params where
  deps t := by
    show c11CallSelf S fuel 2 "get_dependencies" _ = _
    rw [c11CallSelf_own S fuel 1 _ _ "get_dependencies" "TermCollector"
      c11_TermCollector_get_dependencies (by rw [hcls]; rfl), c11_get_dependencies]
  params := by
    show c11Get "parameters" S.selfAttrs = _
    rw [hp]; rfl

theorem c11_collector_step (params : List Expr) (S : C11Self) (hc : S.classes = c04Classes)
    (hi : S.ident = c04IdentityTable) (hcls : S.cls = c11Class_collector)
    (hp : S.selfAttrs = [("parameters", .set (params.map .expr))]) (fuel : Nat) (e : Expr) :
    c11Handle S fuel e =
      (match e with
       | .nary .sum cs => do
          let t2c ← collectSumLoop S.recur params cs []
          let terms ← t2c.mapM fun kc => do
            let t ← rep2term kc.1
            pyMul kc.2 t
          pure (flattenedSum terms)
       | e => idMap S.recur e) := by
  have inh : ∀ n, c11HandlerOf e = .ok n → c11FindMethod n S.cls.methods = none →
      c11Handle S fuel e = idMap S.recur e := fun n hn hm =>
    c11Handle_inherited S hc hi fuel e n hn hm
  cases e with
  | nary o cs =>
    cases o with
    | sum =>
      rw [c11Handle_eq S hc hi]
      simp only [c11HandlerOf, c11Depth]
      rw [c11CallSelf_own S fuel 3 _ _ "map_sum" "TermCollector" c11_TermCollector_map_sum
        (by rw [hcls]; rfl)]
      rw [c11_coll_map_sum (c11CtxOf S fuel 3) params]
      · rfl
      · intro t
        show c11CallSelf S fuel 3 "split_term" _ = _
        rw [c11CallSelf_own S fuel 2 _ _ "split_term" "TermCollector" c11_TermCollector_split_term
          (by rw [hcls]; rfl), c11_split_term _ params (c11_collector_ctx S hcls params hp fuel)]
        rfl
    | _ => exact inh _ rfl (by rw [hcls]; rfl)
  | const k =>
    cases k with
    | str s => exact c11Handle_foreign S hc hi fuel _ .foreign rfl
    | none => exact c11Handle_foreign S hc hi fuel _ .foreign rfl
    | _ => exact inh _ rfl (by rw [hcls]; rfl)
  | bin o a b => cases o <;> exact inh _ rfl (by rw [hcls]; rfl)
  | un o a => cases o <;> exact inh _ rfl (by rw [hcls]; rfl)
  | _ => exact inh _ rfl (by rw [hcls]; rfl)

theorem collectM_succ (params : List Expr) (fuel : Nat) (e : Expr) :
    collectM params (fuel + 1) e =
      (match e with
       | .nary .sum cs => do
          let t2c ← collectSumLoop (collectM params fuel) params cs []
          let terms ← t2c.mapM fun kc => do
            let t ← rep2term kc.1
            pyMul kc.2 t
          pure (flattenedSum terms)
       | e => idMap (collectM params fuel) e) := by
  cases e with
  | nary o cs => cases o <;> rfl
  | _ => rfl

theorem c11CollectT_eq (params : List Expr) :
    ∀ (fuel : Nat) (e : Expr), c11CollectT params fuel e = collectM params fuel e
  | 0, _ => rfl
  | fuel + 1, e => by
    have ih : c11CollectT params fuel = collectM params fuel := funext (c11CollectT_eq params fuel)
    unfold c11CollectT at ih ⊢
    rw [c11Mapper, collectM_succ, ← ih]
    exact c11_collector_step params _ rfl rfl rfl rfl fuel e
end PV
