import PV.Model.Traverse
/-
  Membership lemmas for `unionPy` (set union of duplicate-free lists under Python `==`) and the
  unpacking of `Except` binds.
-/
namespace PV

theorem except_bind_ok {ε α β : Type} {x : Except ε α} {f : α → Except ε β} {r : β}
    (h : (x >>= f) = .ok r) : ∃ a, x = .ok a ∧ f a = .ok r := by
  cases x with
  | error e => cases h
  | ok a => exact ⟨a, rfl, h⟩

/-- one step of `unionPy` -/
def insPy (acc : List Expr) (x : Expr) : List Expr :=
  if acc.any (fun y => y.pyEq x) then acc else acc ++ [x]

theorem unionPy_nil (a : List Expr) : unionPy a [] = a := rfl

theorem unionPy_cons (a : List Expr) (x : Expr) (b : List Expr) :
    unionPy a (x :: b) = unionPy (insPy a x) b := rfl

theorem mem_insPy_left {a : List Expr} {x y : Expr} (h : y ∈ a) : y ∈ insPy a x := by
  unfold insPy; split
  · exact h
  · exact List.mem_append_left _ h

theorem mem_insPy {a : List Expr} {x y : Expr} (h : y ∈ insPy a x) : y ∈ a ∨ y = x := by
  unfold insPy at h; split at h
  · exact .inl h
  · simpa using h

theorem insPy_self (a : List Expr) (x : Expr) : ∃ y ∈ insPy a x, y = x ∨ y.pyEq x = true := by
  unfold insPy; split
  · rename_i h
    obtain ⟨y, hy, hyx⟩ := List.any_eq_true.mp h
    exact ⟨y, hy, .inr hyx⟩
  · exact ⟨x, by simp, .inl rfl⟩

theorem mem_unionPy_left {x : Expr} : ∀ {b a : List Expr}, x ∈ a → x ∈ unionPy a b
  | [], _, h => h
  | _ :: b, _, h => by rw [unionPy_cons]; exact mem_unionPy_left (b := b) (mem_insPy_left h)

theorem mem_unionPy {x : Expr} : ∀ {b a : List Expr}, x ∈ unionPy a b → x ∈ a ∨ x ∈ b
  | [], _, h => .inl h
  | z :: b, a, h => by
      rw [unionPy_cons] at h
      rcases mem_unionPy (b := b) h with h | h
      · rcases mem_insPy h with h | h
        · exact .inl h
        · exact .inr (by simp [h])
      · exact .inr (by simp [h])

/-- every element of the right operand is represented (itself, or an `==`-equal earlier element) -/
theorem mem_unionPy_right {x : Expr} : ∀ {b a : List Expr}, x ∈ b →
    ∃ y ∈ unionPy a b, y = x ∨ y.pyEq x = true
  | [], _, h => by simp at h
  | z :: b, a, h => by
      rw [unionPy_cons]
      simp only [List.mem_cons] at h
      rcases h with rfl | h
      · obtain ⟨y, hy, hyx⟩ := insPy_self a x
        exact ⟨y, mem_unionPy_left hy, hyx⟩
      · exact mem_unionPy_right h

theorem pyEq_var_right {y : Expr} {n : String} (h : y.pyEq (.var n) = true) : y = .var n := by
  cases y <;> simp_all [Expr.pyEq]

theorem mem_unionPy_var {n : String} {a b : List Expr} :
    .var n ∈ unionPy a b ↔ .var n ∈ a ∨ .var n ∈ b := by
  constructor
  · exact mem_unionPy
  · rintro (h | h)
    · exact mem_unionPy_left h
    · obtain ⟨y, hy, rfl | hyx⟩ := mem_unionPy_right (a := a) h
      · exact hy
      · rw [← pyEq_var_right hyx]; exact hy

end PV
