import PV.Proofs.RewriteSound
set_option linter.unusedSimpArgs false
/-
  C11, part 5: the polynomial normal form `polyNorm` is sound: an expression of the polynomial
  fragment has, in every field and under every assignment, the value of its normal form.  Hence
  two expressions with the same normal form are equal in every environment — this is what makes
  `polyNorm` a verified per-instance checker of the outputs of the real `expand` / `flatten` /
  folders (translation validation).
-/
namespace PV

universe u
variable {K : Type u} [Field K]

def evalMono (ρ : String → K) : Mono → K
  | [] => 1
  | (x, n) :: m => ρ x ^ n * evalMono ρ m

def evalPoly (ρ : String → K) : Poly → K
  | [] => 0
  | (m, c) :: p => (c : K) * evalMono ρ m + evalPoly ρ p

section
variable (ρ : String → K)

theorem evalMono_insertVar (x : String) (n : Nat) : ∀ b : Mono,
    evalMono ρ (Mono.insertVar x n b) = ρ x ^ n * evalMono ρ b
  | [] => by simp [Mono.insertVar, evalMono]
  | (y, m) :: b => by
      simp only [Mono.insertVar]
      split
      · rename_i h; subst h; simp only [evalMono, pow_add]; ring
      · split
        · simp only [evalMono]
        · simp only [evalMono, evalMono_insertVar x n b]; ring

theorem evalMono_mul : ∀ a b : Mono, evalMono ρ (Mono.mul a b) = evalMono ρ a * evalMono ρ b
  | [], b => by simp [Mono.mul, evalMono]
  | (x, n) :: a, b => by
      simp only [Mono.mul, evalMono_insertVar, evalMono_mul a b, evalMono]; ring

theorem evalPoly_insert (m : Mono) (c : Int) : ∀ p : Poly,
    evalPoly ρ (Poly.insert m c p) = (c : K) * evalMono ρ m + evalPoly ρ p
  | [] => by
      simp only [Poly.insert]
      split
      · rename_i h; simp only [beq_iff_eq] at h; subst h; simp [evalPoly]
      · simp [evalPoly]
  | (m', c') :: rest => by
      simp only [Poly.insert]
      split
      · rename_i hm
        simp only [beq_iff_eq] at hm; subst hm
        split
        · rename_i h0
          simp only [beq_iff_eq] at h0
          have : ((c + c' : Int) : K) = 0 := by rw [h0]; simp
          simp only [evalPoly]
          have h2 : (c : K) = -(c' : K) := by
            have := this; push_cast at this; exact eq_neg_of_add_eq_zero_left this
          rw [h2]; ring
        · simp only [evalPoly]; push_cast; ring
      · split
        · split
          · rename_i h0; simp only [beq_iff_eq] at h0; subst h0; simp [evalPoly]
          · simp [evalPoly]
        · simp only [evalPoly, evalPoly_insert m c rest]; ring

theorem evalPoly_add : ∀ p q : Poly, evalPoly ρ (Poly.add p q) = evalPoly ρ p + evalPoly ρ q := by
  intro p
  induction p with
  | nil => intro q; simp [Poly.add, evalPoly]
  | cons t p ih =>
    intro q
    have := ih (Poly.insert t.1 t.2 q)
    simp only [Poly.add, List.foldl_cons] at this ⊢
    rw [this, evalPoly_insert]
    obtain ⟨m, c⟩ := t
    simp only [evalPoly]; ring

theorem evalPoly_mulTerm_aux (m : Mono) (c : Int) : ∀ (q acc : Poly),
    evalPoly ρ (q.foldl (fun acc t => Poly.insert (Mono.mul m t.1) (c * t.2) acc) acc)
      = evalPoly ρ acc + (c : K) * evalMono ρ m * evalPoly ρ q := by
  intro q
  induction q with
  | nil => intro acc; simp [evalPoly]
  | cons t q ih =>
    intro acc
    obtain ⟨m', c'⟩ := t
    simp only [List.foldl_cons, ih, evalPoly_insert, evalMono_mul, evalPoly]
    push_cast; ring

theorem evalPoly_mulTerm (m : Mono) (c : Int) (q : Poly) :
    evalPoly ρ (Poly.mulTerm m c q) = (c : K) * evalMono ρ m * evalPoly ρ q := by
  simp [Poly.mulTerm, evalPoly_mulTerm_aux, evalPoly]

theorem evalPoly_mul_aux (q : Poly) : ∀ (p acc : Poly),
    evalPoly ρ (p.foldl (fun acc t => Poly.add (Poly.mulTerm t.1 t.2 q) acc) acc)
      = evalPoly ρ acc + evalPoly ρ p * evalPoly ρ q := by
  intro p
  induction p with
  | nil => intro acc; simp [evalPoly]
  | cons t p ih =>
    intro acc
    obtain ⟨m, c⟩ := t
    simp only [List.foldl_cons, ih, evalPoly_add, evalPoly_mulTerm, evalPoly]
    ring

theorem evalPoly_mul (p q : Poly) : evalPoly ρ (Poly.mul p q) = evalPoly ρ p * evalPoly ρ q := by
  simp [Poly.mul, evalPoly_mul_aux, evalPoly]

theorem evalPoly_one : evalPoly ρ Poly.one = 1 := by simp [Poly.one, evalPoly, evalMono]

theorem evalPoly_pow (p : Poly) : ∀ n : Nat, evalPoly ρ (Poly.pow p n) = evalPoly ρ p ^ n
  | 0 => by simp [Poly.pow, evalPoly_one]
  | n + 1 => by simp [Poly.pow, evalPoly_mul, evalPoly_pow p n, pow_succ, mul_comm]

theorem evalPoly_const (n : Int) : evalPoly ρ (Poly.const n) = (n : K) := by
  simp only [Poly.const]
  split
  · rename_i h; simp only [beq_iff_eq] at h; subst h; simp [evalPoly]
  · simp [evalPoly, evalMono]

variable [DecidableEq K]

mutual
/-- the value of an expression of the polynomial fragment is the value of its normal form -/
theorem polyNorm_eval : ∀ (e : Expr) (p : Poly), polyNorm e = some p →
    evalK ρ e = some (evalPoly ρ p)
  | .const (.int n), p, h => by
      simp only [polyNorm, Option.some.injEq] at h; subst h
      simp only [evalK, evalPoly_const]
  | .var x, p, h => by
      simp only [polyNorm, Option.some.injEq] at h; subst h
      simp [evalK, evalPoly, evalMono]
  | .nary .sum cs, p, h => by
      simp only [polyNorm] at h; rw [evalK_sum]; exact polyNormSum_eval cs p h
  | .nary .prod cs, p, h => by
      simp only [polyNorm] at h; rw [evalK_prod]; exact polyNormProd_eval cs p h
  | .bin .pow a (.const (.int n)), p, h => by
      simp only [polyNorm] at h
      split at h
      · contradiction
      · rename_i hn
        cases ha : polyNorm a with
        | none => rw [ha] at h; simp at h
        | some q =>
          rw [ha] at h; simp only [Option.some.injEq] at h; subst h
          rw [evalK_pow_lit, polyNorm_eval a q ha]
          have h0 : ¬ (n < 0 ∧ evalPoly ρ q = 0) := fun h => hn h.1
          simp only [powK, h0, if_false, evalPoly_pow]
          have : n = (n.toNat : Int) := (Int.toNat_of_nonneg (by omega)).symm
          conv_lhs => rw [this]
          rw [zpow_natCast]
  | .cse c _ _, p, h => by
      simp only [polyNorm] at h
      simp only [evalK]; exact polyNorm_eval c p h
  | .const (.bool _), _, h | .const (.flt ..), _, h | .const (.str _), _, h
  | .const .none, _, h => by simp [polyNorm] at h
  | .nary .bor _, _, h | .nary .bxor _, _, h | .nary .band _, _, h
  | .nary .lor _, _, h | .nary .land _, _, h | .nary .min _, _, h
  | .nary .max _, _, h => by simp [polyNorm] at h
  | .bin .quot _ _, _, h | .bin .floordiv _ _, _, h | .bin .rem _ _, _, h
  | .bin .lshift _ _, _, h | .bin .rshift _ _, _, h => by simp [polyNorm] at h
  | .bin .pow _ (.var _), _, h | .bin .pow _ (.nary ..), _, h | .bin .pow _ (.bin ..), _, h
  | .bin .pow _ (.un ..), _, h | .bin .pow _ (.cmp ..), _, h | .bin .pow _ (.ite ..), _, h
  | .bin .pow _ (.call ..), _, h | .bin .pow _ (.callKw ..), _, h
  | .bin .pow _ (.subscript ..), _, h | .bin .pow _ (.lookup ..), _, h
  | .bin .pow _ (.cse ..), _, h | .bin .pow _ (.subst ..), _, h | .bin .pow _ (.deriv ..), _, h
  | .bin .pow _ (.slice ..), _, h | .bin .pow _ .nan, _, h | .bin .pow _ .wildcard, _, h
  | .bin .pow _ (.dotWild ..), _, h | .bin .pow _ (.starWild ..), _, h
  | .bin .pow _ .funcSym, _, h | .bin .pow _ (.tuple ..), _, h | .bin .pow _ (.list ..), _, h
  | .bin .pow _ (.const (.bool _)), _, h | .bin .pow _ (.const (.flt ..)), _, h
  | .bin .pow _ (.const (.str _)), _, h | .bin .pow _ (.const .none), _, h => by
      simp [polyNorm] at h
  | .un .., _, h | .cmp .., _, h | .ite .., _, h | .call .., _, h | .callKw .., _, h
  | .subscript .., _, h | .lookup .., _, h | .subst .., _, h | .deriv .., _, h | .slice .., _, h
  | .nan, _, h | .wildcard, _, h | .dotWild .., _, h | .starWild .., _, h | .funcSym, _, h
  | .tuple .., _, h | .list .., _, h => by simp [polyNorm] at h
theorem polyNormSum_eval : ∀ (cs : List Expr) (p : Poly), polyNormSum cs = some p →
    evalKL ρ false cs = some (evalPoly ρ p)
  | [], p, h => by
      simp only [polyNormSum, Option.some.injEq] at h; subst h; simp [evalKL, evalPoly]
  | c :: cs, p, h => by
      simp only [polyNormSum] at h
      cases hc : polyNorm c with
      | none => rw [hc] at h; simp at h
      | some q =>
        cases hcs : polyNormSum cs with
        | none => rw [hc, hcs] at h; simp at h
        | some r =>
          rw [hc, hcs] at h; simp only [Option.some.injEq] at h; subst h
          rw [evalKL_cons_mk ρ (polyNorm_eval c q hc) (polyNormSum_eval cs r hcs), evalPoly_add]
          simp
theorem polyNormProd_eval : ∀ (cs : List Expr) (p : Poly), polyNormProd cs = some p →
    evalKL ρ true cs = some (evalPoly ρ p)
  | [], p, h => by
      simp only [polyNormProd, Option.some.injEq] at h; subst h; simp [evalKL, evalPoly_one]
  | c :: cs, p, h => by
      simp only [polyNormProd] at h
      cases hc : polyNorm c with
      | none => rw [hc] at h; simp at h
      | some q =>
        cases hcs : polyNormProd cs with
        | none => rw [hc, hcs] at h; simp at h
        | some r =>
          rw [hc, hcs] at h; simp only [Option.some.injEq] at h; subst h
          rw [evalKL_cons_mk ρ (polyNorm_eval c q hc) (polyNormProd_eval cs r hcs), evalPoly_mul]
          simp
end

end

end PV
