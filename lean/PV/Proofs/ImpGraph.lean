import PV.Proofs.ImpFuse
import Mathlib.Data.Finset.Card
import Mathlib.Data.List.Perm.Subperm
/-
  Helper lemmas for C20: the dependency graph of `get_dot_dependency_graph`, its closure loop and
  its reduction loop.
-/
namespace PV.Imp
open PV

/-! ### dict-of-sets basics -/

theorem Graph.get_cons (k' : String) (vs : List String) (rest : Graph) (k : String) :
    Graph.get ((k', vs) :: rest) k = if k = k' then vs else Graph.get rest k := by
  unfold Graph.get
  rw [List.lookup_cons]
  by_cases h : k = k'
  · subst h
    simp
  · have : (k == k') = false := by simpa using h
    simp [this, h]

theorem Graph.get_of_not_key : ∀ {g : Graph} {k : String}, k ∉ g.keys → g.get k = []
  | [], _, _ => rfl
  | (k', vs) :: rest, k, h => by
    simp only [Graph.keys, List.map_cons, List.mem_cons, not_or] at h
    rw [Graph.get_cons, if_neg h.1]
    exact Graph.get_of_not_key h.2

theorem Graph.key_of_mem_get {g : Graph} {k x : String} (h : x ∈ g.get k) : k ∈ g.keys := by
  by_contra hk
  rw [Graph.get_of_not_key hk] at h
  cases h

theorem Graph.keys_modify (k : String) (f : List String → List String) :
    ∀ g : Graph, (g.modify k f).keys = g.keys
  | [] => rfl
  | (k', vs) :: rest => by
    simp only [Graph.modify]
    split
    · rfl
    · simp only [Graph.keys, List.map_cons, List.cons.injEq, true_and]
      exact Graph.keys_modify k f rest

theorem Graph.get_modify_ne {k k' : String} (f : List String → List String) (h : k' ≠ k) :
    ∀ g : Graph, (g.modify k f).get k' = g.get k'
  | [] => rfl
  | (k₀, vs) :: rest => by
    simp only [Graph.modify]
    split
    · rename_i hk
      have hk : k₀ = k := by simpa using hk
      subst hk
      rw [Graph.get_cons, Graph.get_cons, if_neg h, if_neg h]
    · rw [Graph.get_cons, Graph.get_cons, Graph.get_modify_ne f h rest]

theorem Graph.get_modify_self {k : String} (f : List String → List String) :
    ∀ {g : Graph}, k ∈ g.keys → (g.modify k f).get k = f (g.get k)
  | [], h => by cases h
  | (k₀, vs) :: rest, h => by
    simp only [Graph.modify]
    split
    · rename_i hk
      have hk : k₀ = k := by simpa using hk
      subst hk
      rw [Graph.get_cons, Graph.get_cons, if_pos rfl, if_pos rfl]
    · rename_i hk
      have hk : k₀ ≠ k := by simpa using hk
      simp only [Graph.keys, List.map_cons, List.mem_cons] at h
      rcases h with h | h
      · exact absurd h.symm hk
      · rw [Graph.get_cons, Graph.get_cons, if_neg (Ne.symm hk), if_neg (Ne.symm hk)]
        exact Graph.get_modify_self f h

theorem Graph.modify_not_key {k : String} (f : List String → List String) :
    ∀ {g : Graph}, k ∉ g.keys → g.modify k f = g
  | [], _ => rfl
  | (k₀, vs) :: rest, h => by
    simp only [Graph.keys, List.map_cons, List.mem_cons, not_or] at h
    have : (k₀ == k) = false := by simpa using (Ne.symm h.1)
    simp only [Graph.modify, this, Bool.false_eq_true, if_false]
    rw [Graph.modify_not_key f h.2]

/-- rows are duplicate-free, keys are distinct -/
def Graph.WF (g : Graph) : Prop := g.keys.Nodup ∧ ∀ k, (g.get k).Nodup

theorem Graph.WF.modify {g : Graph} (h : g.WF) (k : String) {f : List String → List String}
    (hf : ∀ vs : List String, vs.Nodup → (f vs).Nodup) : (g.modify k f).WF := by
  refine ⟨by rw [Graph.keys_modify]; exact h.1, fun k' => ?_⟩
  by_cases hk : k' = k
  · subst hk
    by_cases hkey : k' ∈ g.keys
    · rw [Graph.get_modify_self f hkey]
      exact hf _ (h.2 k')
    · rw [Graph.modify_not_key f hkey]
      exact h.2 k'
  · rw [Graph.get_modify_ne f hk]
    exact h.2 k'

/-! ### building the graph -/

theorem Graph.keys_addEdge (k v : String) :
    ∀ g : Graph, (g.addEdge k v).keys = if k ∈ g.keys then g.keys else g.keys ++ [k]
  | [] => by simp [Graph.addEdge, Graph.keys]
  | (k₀, vs) :: rest => by
    simp only [Graph.addEdge]
    split
    · rename_i hk
      have hk : k₀ = k := by simpa using hk
      subst hk
      simp [Graph.keys]
    · rename_i hk
      have hk : k₀ ≠ k := by simpa using hk
      have ih := Graph.keys_addEdge k v rest
      simp only [Graph.keys, List.map_cons, List.mem_cons] at ih ⊢
      rw [ih]
      by_cases hm : k ∈ List.map (fun x => x.1) rest
      · simp [hm]
      · simp [hm, Ne.symm hk]

theorem Graph.get_addEdge (k v k' : String) :
    ∀ g : Graph, (g.addEdge k v).get k' = if k' = k then insertS (g.get k) v else g.get k'
  | [] => by
    simp only [Graph.addEdge, Graph.get_cons]
    by_cases h : k' = k
    · simp [h, Graph.get, insertS]
    · simp [h, Graph.get]
  | (k₀, vs) :: rest => by
    simp only [Graph.addEdge]
    split
    · rename_i hk
      have hk : k₀ = k := by simpa using hk
      subst hk
      simp only [Graph.get_cons]
      by_cases h : k' = k₀ <;> simp [h]
    · rename_i hk
      have hk : k₀ ≠ k := by simpa using hk
      simp only [Graph.get_cons, Graph.get_addEdge k v k' rest]
      by_cases h : k' = k
      · subst h
        simp [Ne.symm hk]
      · simp [h]

theorem Graph.WF.addEdge {g : Graph} (h : g.WF) (k v : String) : (g.addEdge k v).WF := by
  constructor
  · rw [Graph.keys_addEdge]
    split
    · exact h.1
    · rename_i hk
      rw [List.nodup_append]
      refine ⟨h.1, by simp, ?_⟩
      intro a ha b hb
      simp only [List.mem_singleton] at hb
      subst hb
      rintro rfl
      exact hk ha
  · intro k'
    rw [Graph.get_addEdge]
    split
    · exact nodup_insertS _ (h.2 k)
    · exact h.2 k'

theorem foldDeps_spec (id : String) : ∀ (ds : List String) (g : Graph), g.WF →
    (ds.foldl (fun g d => g.addEdge id d) g).WF ∧
    ∀ k x, x ∈ (ds.foldl (fun g d => g.addEdge id d) g).get k ↔ (x ∈ g.get k ∨ (k = id ∧ x ∈ ds))
  | [], g, h => ⟨h, by simp⟩
  | d :: ds, g, h => by
    obtain ⟨hwf, hmem⟩ := foldDeps_spec id ds (g.addEdge id d) (h.addEdge id d)
    refine ⟨hwf, fun k x => ?_⟩
    simp only [List.foldl_cons]
    rw [hmem k x, Graph.get_addEdge]
    by_cases hk : k = id
    · subst hk
      rw [if_pos rfl, mem_insertS]
      simp only [true_and, List.mem_cons]
      constructor
      · rintro ((h | h) | h)
        · exact Or.inl h
        · exact Or.inr (Or.inl h)
        · exact Or.inr (Or.inr h)
      · rintro (h | h | h)
        · exact Or.inl (Or.inl h)
        · exact Or.inl (Or.inr h)
        · exact Or.inr h
    · simp [hk]

theorem buildGraph_aux : ∀ (ss : List Stmt) (g : Graph), g.WF →
    (ss.foldl (fun g s => s.dependsOn.foldl (fun g d => g.addEdge s.id d) g) g).WF ∧
    ∀ k x, x ∈ (ss.foldl (fun g s => s.dependsOn.foldl (fun g d => g.addEdge s.id d) g) g).get k ↔
      (x ∈ g.get k ∨ ∃ s ∈ ss, s.id = k ∧ x ∈ s.dependsOn)
  | [], g, h => ⟨h, by simp⟩
  | s :: ss, g, h => by
    obtain ⟨hwf1, hmem1⟩ := foldDeps_spec s.id s.dependsOn g h
    obtain ⟨hwf, hmem⟩ := buildGraph_aux ss _ hwf1
    refine ⟨hwf, fun k x => ?_⟩
    simp only [List.foldl_cons]
    rw [hmem k x, hmem1 k x]
    simp only [List.mem_cons, exists_eq_or_imp]
    constructor
    · rintro ((h | ⟨h1, h2⟩) | h)
      · exact Or.inl h
      · exact Or.inr (Or.inl ⟨h1.symm, h2⟩)
      · exact Or.inr (Or.inr h)
    · rintro (h | ⟨h1, h2⟩ | h)
      · exact Or.inl (Or.inl h)
      · exact Or.inl (Or.inr ⟨h1.symm, h2⟩)
      · exact Or.inr h

theorem buildGraph_spec (ss : List Stmt) :
    (buildGraph ss).WF ∧
    ∀ k x, x ∈ (buildGraph ss).get k ↔ ∃ s ∈ ss, s.id = k ∧ x ∈ s.dependsOn := by
  have hwf0 : Graph.WF [] := ⟨List.nodup_nil, fun _ => List.nodup_nil⟩
  obtain ⟨hwf, hmem⟩ := buildGraph_aux ss [] hwf0
  refine ⟨hwf, fun k x => ?_⟩
  unfold buildGraph
  rw [hmem k x]
  simp [Graph.get]

/-! ### the closure loop -/

/-- the edge relation of a graph -/
def Graph.E (g : Graph) (a b : String) : Prop := b ∈ g.get a

section closure
variable (g₀ : Graph)

/-- every edge is a path of the original graph -/
def Sound (g : Graph) : Prop := ∀ k x, x ∈ g.get k → Relation.TransGen g₀.E k x

theorem closeInner_spec (s1 : String) : ∀ (l : List String) (g : Graph), s1 ∈ g.keys →
    ((closeInner g s1 l).1.keys = g.keys) ∧
    (g.WF → (closeInner g s1 l).1.WF) ∧
    (∀ k x, x ∈ g.get k → x ∈ (closeInner g s1 l).1.get k) ∧
    (Sound g₀ g → (∀ x ∈ l, Relation.TransGen g₀.E s1 x) → Sound g₀ (closeInner g s1 l).1) ∧
    ((closeInner g s1 l).2 = false → (closeInner g s1 l).1 = g ∧ ∀ x ∈ l, x ∈ g.get s1)
  | [], g, _ => by simp [closeInner]
  | s3 :: rest, g, hk => by
    by_cases h3 : s3 ∈ g.get s1
    · obtain ⟨i1, i2, i3, i4, i5⟩ := closeInner_spec s1 rest g hk
      simp only [closeInner, h3, if_true]
      refine ⟨i1, i2, i3, fun hs hl => i4 hs (fun x hx => hl x (List.mem_cons_of_mem _ hx)), ?_⟩
      intro hf
      obtain ⟨e, hall⟩ := i5 hf
      refine ⟨e, fun x hx => ?_⟩
      rcases List.mem_cons.1 hx with rfl | hx
      · exact h3
      · exact hall x hx
    · have hk' : s1 ∈ (g.modify s1 (fun vs => insertS vs s3)).keys := by
        rw [Graph.keys_modify]; exact hk
      obtain ⟨i1, i2, i3, i4, _⟩ := closeInner_spec s1 rest _ hk'
      simp only [closeInner, h3, if_false]
      have hmono : ∀ k x, x ∈ g.get k → x ∈ (g.modify s1 (fun vs => insertS vs s3)).get k := by
        intro k x hx
        by_cases hks : k = s1
        · subst hks
          rw [Graph.get_modify_self _ hk, mem_insertS]
          exact Or.inl hx
        · rw [Graph.get_modify_ne _ hks]
          exact hx
      refine ⟨by rw [i1, Graph.keys_modify], fun hwf => i2 (hwf.modify s1 (fun vs h => nodup_insertS _ h)),
        fun k x hx => i3 k x (hmono k x hx), ?_, by simp⟩
      intro hs hl
      refine i4 ?_ (fun x hx => hl x (List.mem_cons_of_mem _ hx))
      intro k x hx
      by_cases hks : k = s1
      · subst hks
        rw [Graph.get_modify_self _ hk, mem_insertS] at hx
        rcases hx with hx | rfl
        · exact hs _ _ hx
        · exact hl _ (List.mem_cons_self ..)
      · rw [Graph.get_modify_ne _ hks] at hx
        exact hs _ _ hx

theorem closeMid_spec (s1 : String) : ∀ (l2 : List String) (g : Graph), s1 ∈ g.keys →
    ((closeMid g s1 l2).1.keys = g.keys) ∧
    (g.WF → (closeMid g s1 l2).1.WF) ∧
    (∀ k x, x ∈ g.get k → x ∈ (closeMid g s1 l2).1.get k) ∧
    (Sound g₀ g → (∀ x ∈ l2, Relation.TransGen g₀.E s1 x) → Sound g₀ (closeMid g s1 l2).1) ∧
    ((closeMid g s1 l2).2 = false →
      (closeMid g s1 l2).1 = g ∧ ∀ s2 ∈ l2, ∀ s3 ∈ g.get s2, s3 ∈ g.get s1)
  | [], g, _ => by simp [closeMid]
  | s2 :: rest, g, hk => by
    obtain ⟨a1, a2, a3, a4, a5⟩ := closeInner_spec g₀ s1 (g.get s2) g hk
    have hk' : s1 ∈ (closeInner g s1 (g.get s2)).1.keys := by rw [a1]; exact hk
    obtain ⟨b1, b2, b3, b4, b5⟩ := closeMid_spec s1 rest _ hk'
    simp only [closeMid]
    refine ⟨by rw [b1, a1], fun h => b2 (a2 h), fun k x hx => b3 k x (a3 k x hx), ?_, ?_⟩
    · intro hs hl
      refine b4 (a4 hs ?_) (fun x hx => hl x (List.mem_cons_of_mem _ hx))
      intro x hx
      exact (hl s2 (List.mem_cons_self ..)).trans (hs _ _ hx)
    · intro hf
      simp only [Bool.or_eq_false_iff] at hf
      obtain ⟨e1, hall1⟩ := a5 hf.1
      rw [e1] at b5
      obtain ⟨e2, hall2⟩ := b5 (e1 ▸ hf.2)
      refine ⟨by rw [e1]; exact e2, fun s2' hs2' => ?_⟩
      rcases List.mem_cons.1 hs2' with rfl | hs2'
      · exact hall1
      · exact hall2 s2' hs2'

theorem closeOuter_spec : ∀ (ks : List String) (g : Graph), (∀ k ∈ ks, k ∈ g.keys) →
    ((closeOuter g ks).1.keys = g.keys) ∧
    (g.WF → (closeOuter g ks).1.WF) ∧
    (∀ k x, x ∈ g.get k → x ∈ (closeOuter g ks).1.get k) ∧
    (Sound g₀ g → Sound g₀ (closeOuter g ks).1) ∧
    ((closeOuter g ks).2 = false →
      (closeOuter g ks).1 = g ∧ ∀ s1 ∈ ks, ∀ s2 ∈ g.get s1, ∀ s3 ∈ g.get s2, s3 ∈ g.get s1)
  | [], g, _ => by simp [closeOuter]
  | s1 :: rest, g, hk => by
    have hk1 := hk s1 (List.mem_cons_self ..)
    obtain ⟨a1, a2, a3, a4, a5⟩ := closeMid_spec g₀ s1 (g.get s1) g hk1
    have hk' : ∀ k ∈ rest, k ∈ (closeMid g s1 (g.get s1)).1.keys := by
      intro k hkr
      rw [a1]
      exact hk k (List.mem_cons_of_mem _ hkr)
    obtain ⟨b1, b2, b3, b4, b5⟩ := closeOuter_spec rest _ hk'
    simp only [closeOuter]
    refine ⟨by rw [b1, a1], fun h => b2 (a2 h), fun k x hx => b3 k x (a3 k x hx), ?_, ?_⟩
    · intro hs
      exact b4 (a4 hs (fun x hx => hs _ _ hx))
    · intro hf
      simp only [Bool.or_eq_false_iff] at hf
      obtain ⟨e1, hall1⟩ := a5 hf.1
      rw [e1] at b5
      obtain ⟨e2, hall2⟩ := b5 (e1 ▸ hf.2)
      refine ⟨by rw [e1]; exact e2, fun s1' hs1' => ?_⟩
      rcases List.mem_cons.1 hs1' with rfl | hs1'
      · exact hall1
      · exact hall2 s1' hs1'

theorem closure_spec : ∀ (fuel : Nat) (g g' : Graph), closure fuel g = some g' →
    g'.keys = g.keys ∧ (g.WF → g'.WF) ∧ (∀ k x, x ∈ g.get k → x ∈ g'.get k) ∧
    (Sound g₀ g → Sound g₀ g') ∧
    (∀ a b c, b ∈ g'.get a → c ∈ g'.get b → c ∈ g'.get a)
  | 0, g, g', h => by simp [closure] at h
  | fuel + 1, g, g', h => by
    obtain ⟨a1, a2, a3, a4, a5⟩ := closeOuter_spec g₀ g.keys g (fun k hk => hk)
    simp only [closure] at h
    split at h
    · obtain ⟨b1, b2, b3, b4, b5⟩ := closure_spec fuel _ g' h
      exact ⟨by rw [b1, a1], fun hw => b2 (a2 hw), fun k x hx => b3 k x (a3 k x hx),
        fun hs => b4 (a4 hs), b5⟩
    · rename_i hch
      cases h
      have hch : (closeOuter g g.keys).2 = false := by simpa using hch
      obtain ⟨e, hall⟩ := a5 hch
      refine ⟨a1, a2, a3, a4, ?_⟩
      rw [e]
      intro a b c hab hbc
      exact hall a (Graph.key_of_mem_get hab) b hab c hbc

end closure

/-- the closure loop computes the transitive closure of the edge relation -/
theorem closure_transGen {fuel : Nat} {g g' : Graph} (h : closure fuel g = some g') :
    ∀ a b, b ∈ g'.get a ↔ Relation.TransGen g.E a b := by
  obtain ⟨-, -, hmono, hsound, htrans⟩ := closure_spec g fuel g g' h
  intro a b
  constructor
  · exact hsound (fun k x hx => .single hx) a b
  · intro hp
    induction hp with
    | single hab => exact hmono _ _ hab
    | tail _ hbc ih => exact htrans _ _ _ ih (hmono _ _ hbc)

/-! ### the reduction loop -/

theorem reduceInner_spec (s1 : String) : ∀ (l : List String) (g : Graph),
    (reduceInner g s1 l).keys = g.keys ∧
    (∀ k, k ≠ s1 → (reduceInner g s1 l).get k = g.get k) ∧
    (reduceInner g s1 l).get s1 = (g.get s1).filter (fun v => !(decide (v ∈ l)))
  | [], g => by simp [reduceInner]
  | s3 :: rest, g => by
    by_cases h3 : s3 ∈ g.get s1
    · have hk := Graph.key_of_mem_get h3
      obtain ⟨i1, i2, i3⟩ := reduceInner_spec s1 rest (g.modify s1 (fun vs => vs.filter (fun v => v != s3)))
      simp only [reduceInner, h3, if_true]
      refine ⟨by rw [i1, Graph.keys_modify], fun k hks => by rw [i2 k hks, Graph.get_modify_ne _ hks], ?_⟩
      rw [i3, Graph.get_modify_self _ hk, List.filter_filter]
      apply List.filter_congr
      intro v _
      by_cases hv : v = s3 <;> simp [hv]
    · obtain ⟨i1, i2, i3⟩ := reduceInner_spec s1 rest g
      simp only [reduceInner, h3, if_false]
      refine ⟨i1, i2, ?_⟩
      rw [i3]
      apply List.filter_congr
      intro v hv
      have : v ≠ s3 := by rintro rfl; exact h3 hv
      simp [this]

theorem reduceMid_spec (s1 : String) : ∀ (l2 : List String) (g : Graph), s1 ∉ l2 →
    (reduceMid g s1 l2).keys = g.keys ∧
    (∀ k, k ≠ s1 → (reduceMid g s1 l2).get k = g.get k) ∧
    (reduceMid g s1 l2).get s1 =
      (g.get s1).filter (fun v => l2.all (fun s2 => !(decide (v ∈ g.get s2))))
  | [], g, _ => by simp [reduceMid]
  | s2 :: rest, g, h => by
    simp only [List.mem_cons, not_or] at h
    obtain ⟨a1, a2, a3⟩ := reduceInner_spec s1 (g.get s2) g
    obtain ⟨b1, b2, b3⟩ := reduceMid_spec s1 rest (reduceInner g s1 (g.get s2)) h.2
    simp only [reduceMid]
    refine ⟨by rw [b1, a1], fun k hk => by rw [b2 k hk, a2 k hk], ?_⟩
    rw [b3, a3, List.filter_filter]
    apply List.filter_congr
    intro v _
    simp only [List.all_cons]
    have hrest : ∀ s2' ∈ rest, (reduceInner g s1 (g.get s2)).get s2' = g.get s2' :=
      fun s2' hs2' => a2 s2' (by rintro rfl; exact h.2 hs2')
    have : (rest.all fun s2' => !decide (v ∈ (reduceInner g s1 (g.get s2)).get s2')) =
        (rest.all fun s2' => !decide (v ∈ g.get s2')) := by
      rw [Bool.eq_iff_iff]
      simp only [List.all_eq_true]
      constructor
      · intro hh s2' hs2'
        rw [← hrest s2' hs2']
        exact hh s2' hs2'
      · intro hh s2' hs2'
        rw [hrest s2' hs2']
        exact hh s2' hs2'
    rw [this, Bool.and_comm]

/-- `a → b` is an edge of the closed relation with nothing strictly between -/
def Cover (C : Graph) (a b : String) : Prop := b ∈ C.get a ∧ ¬ ∃ m, m ∈ C.get a ∧ b ∈ C.get m

section reduction
variable {C : Graph} (htrans : ∀ a b c, b ∈ C.get a → c ∈ C.get b → c ∈ C.get a)
  (hirr : ∀ a, a ∉ C.get a)
include htrans hirr

/-- in a finite transitive irreflexive relation every edge `m → x` ends in a covering edge
`w → x` with `w = m` or `m → w` -/
theorem exists_cover (x : String) : ∀ m, x ∈ C.get m →
    ∃ w, (w = m ∨ w ∈ C.get m) ∧ Cover C w x := by
  intro m
  generalize hn : ((C.get m).filter (fun y => decide (x ∈ C.get y))).toFinset.card = n
  induction n using Nat.strong_induction_on generalizing m with
  | _ n ih =>
    intro hmx
    by_cases hc : ∃ m', m' ∈ C.get m ∧ x ∈ C.get m'
    · obtain ⟨m', hm', hm'x⟩ := hc
      have hlt : ((C.get m').filter (fun y => decide (x ∈ C.get y))).toFinset.card < n := by
        rw [← hn]
        apply Finset.card_lt_card
        rw [Finset.ssubset_iff_of_subset]
        · refine ⟨m', ?_, ?_⟩
          · simp only [List.mem_toFinset, List.mem_filter, decide_eq_true_eq]
            exact ⟨hm', hm'x⟩
          · simp only [List.mem_toFinset, List.mem_filter, decide_eq_true_eq, not_and]
            intro h
            exact absurd h (hirr m')
        · intro y
          simp only [List.mem_toFinset, List.mem_filter, decide_eq_true_eq]
          rintro ⟨h1, h2⟩
          exact ⟨htrans _ _ _ hm' h1, h2⟩
      obtain ⟨w, hw, hcov⟩ := ih _ hlt m' rfl hm'x
      refine ⟨w, Or.inr ?_, hcov⟩
      rcases hw with rfl | hw
      · exact hm'
      · exact htrans _ _ _ hm' hw
    · exact ⟨m, Or.inl rfl, hmx, hc⟩

theorem reduceOuter_spec : ∀ (ks : List String) (g : Graph), ks.Nodup → g.keys = C.keys →
    (∀ k ∈ ks, g.get k = C.get k) → (∀ k, k ∉ ks → ∀ x, x ∈ g.get k ↔ Cover C k x) →
    (reduceOuter g ks).keys = C.keys ∧ ∀ k x, x ∈ (reduceOuter g ks).get k ↔ Cover C k x
  | [], g, _, hkeys, _, hb => ⟨hkeys, fun k x => hb k (by simp) x⟩
  | s1 :: rest, g, hnd, hkeys, ha, hb => by
    have hnd' := List.nodup_cons.1 hnd
    have hs1 : s1 ∉ g.get s1 := by
      rw [ha s1 (List.mem_cons_self ..)]
      exact hirr s1
    obtain ⟨a1, a2, a3⟩ := reduceMid_spec s1 (g.get s1) g hs1
    simp only [reduceOuter]
    have hsub : ∀ k x, x ∈ g.get k → x ∈ C.get k := by
      intro k x hx
      by_cases hk : k ∈ s1 :: rest
      · rw [← ha k hk]; exact hx
      · exact ((hb k hk x).1 hx).1
    apply reduceOuter_spec rest _ hnd'.2 (by rw [a1, hkeys])
    · intro k hk
      have : k ≠ s1 := by rintro rfl; exact hnd'.1 hk
      rw [a2 k this]
      exact ha k (List.mem_cons_of_mem _ hk)
    · intro k hk x
      by_cases hks : k = s1
      · subst hks
        rw [a3, List.mem_filter, ha k (List.mem_cons_self ..)]
        simp only [List.all_eq_true, Bool.not_eq_true', decide_eq_false_iff_not]
        constructor
        · rintro ⟨hx, hall⟩
          refine ⟨hx, ?_⟩
          rintro ⟨m, hm, hmx⟩
          obtain ⟨w, hw, hcov⟩ := exists_cover htrans hirr x m hmx
          have hwk : w ∈ C.get k := by
            rcases hw with rfl | hw
            · exact hm
            · exact htrans _ _ _ hm hw
          have hxw : x ∈ g.get w := by
            by_cases hwks : w ∈ k :: rest
            · rw [ha w hwks]
              exact hcov.1
            · exact (hb w hwks x).2 hcov
          exact hall w hwk hxw
        · rintro ⟨hx, hno⟩
          refine ⟨hx, fun s2 hs2 hxs2 => hno ⟨s2, hs2, hsub _ _ hxs2⟩⟩
      · rw [a2 k hks]
        have : k ∉ s1 :: rest := by
          simp only [List.mem_cons, not_or]
          exact ⟨hks, hk⟩
        exact hb k this x


/-- every edge of the closed relation is a path of covering edges: the reduction keeps
reachability -/
theorem cover_transGen (x : String) : ∀ a, x ∈ C.get a → Relation.TransGen (Cover C) a x := by
  intro a
  generalize hn : ((C.get a).filter (fun y => decide (x ∈ C.get y))).toFinset.card = n
  induction n using Nat.strong_induction_on generalizing x with
  | _ n ih =>
    intro hax
    obtain ⟨w, hw, hcov⟩ := exists_cover htrans hirr x a hax
    rcases hw with rfl | hw
    · exact .single hcov
    · have hlt : ((C.get a).filter (fun y => decide (w ∈ C.get y))).toFinset.card < n := by
        rw [← hn]
        apply Finset.card_lt_card
        rw [Finset.ssubset_iff_of_subset]
        · refine ⟨w, ?_, ?_⟩
          · simp only [List.mem_toFinset, List.mem_filter, decide_eq_true_eq]
            exact ⟨hw, hcov.1⟩
          · simp only [List.mem_toFinset, List.mem_filter, decide_eq_true_eq, not_and]
            intro _
            exact hirr w
        · intro y
          simp only [List.mem_toFinset, List.mem_filter, decide_eq_true_eq]
          rintro ⟨h1, h2⟩
          exact ⟨h1, htrans _ _ _ h2 hcov.1⟩
      exact .tail (ih _ hlt w rfl hw) hcov

omit hirr in
/-- a relation inside the closed relation whose paths reach everything the closed relation
reaches contains every covering edge: the covering edges are the LEAST such relation -/
theorem cover_least (R' : String → String → Prop) (hsub : ∀ a b, R' a b → b ∈ C.get a)
    (hreach : ∀ a b, b ∈ C.get a → Relation.TransGen R' a b) {a b : String} (h : Cover C a b) :
    R' a b := by
  have hpath : ∀ {u v}, Relation.TransGen R' u v → v ∈ C.get u := by
    intro u v hp
    induction hp with
    | single h => exact hsub _ _ h
    | tail _ h ih => exact htrans _ _ _ ih (hsub _ _ h)
  cases hreach a b h.1 with
  | single h' => exact h'
  | tail hp h' => exact absurd ⟨_, hpath hp, hsub _ _ h'⟩ h.2

/-- on a transitively closed, irreflexive graph the reduction loop leaves exactly the covering
edges -/
theorem reduce_spec (hnd : C.keys.Nodup) :
    (reduce C).keys = C.keys ∧ ∀ k x, x ∈ (reduce C).get k ↔ Cover C k x := by
  unfold reduce
  apply reduceOuter_spec htrans hirr C.keys C hnd rfl (fun _ _ => rfl)
  intro k hk x
  rw [Graph.get_of_not_key hk]
  constructor
  · intro h; cases h
  · rintro ⟨h, -⟩
    rw [Graph.get_of_not_key hk] at h
    cases h

end reduction

/-- the drawn edges are the entries of the rows (keys are distinct) -/
theorem mem_edges {g : Graph} (hnd : g.keys.Nodup) (a b : String) :
    (a, b) ∈ g.edges ↔ b ∈ g.get a := by
  induction g with
  | nil => simp [Graph.edges, Graph.get]
  | cons kv rest ih =>
    obtain ⟨k, vs⟩ := kv
    simp only [Graph.keys, List.map_cons, List.nodup_cons] at hnd
    have ih := ih hnd.2
    have hcons : (a, b) ∈ Graph.edges ((k, vs) :: rest) ↔
        ((a = k ∧ b ∈ vs) ∨ (a, b) ∈ Graph.edges rest) := by
      simp only [Graph.edges, List.flatMap_cons, List.mem_append, List.mem_map, Prod.mk.injEq]
      constructor
      · rintro (⟨v, hv, h1, h2⟩ | h)
        · exact Or.inl ⟨h1.symm, h2 ▸ hv⟩
        · exact Or.inr h
      · rintro (⟨h1, h2⟩ | h)
        · exact Or.inl ⟨b, h2, h1.symm, rfl⟩
        · exact Or.inr h
    rw [hcons, ih, Graph.get_cons]
    by_cases hak : a = k
    · subst hak
      rw [if_pos rfl]
      constructor
      · rintro (⟨-, h⟩ | h)
        · exact h
        · exact absurd (Graph.key_of_mem_get h) hnd.1
      · exact fun h => Or.inl ⟨rfl, h⟩
    · rw [if_neg hak]
      constructor
      · rintro (⟨h, -⟩ | h)
        · exact absurd h hak
        · exact h
      · exact Or.inr

/-! ### duplicate-freeness of the drawn edges -/

theorem reduceInner_WF (s1 : String) : ∀ (l : List String) (g : Graph), g.WF → (reduceInner g s1 l).WF
  | [], _, h => h
  | s3 :: rest, g, h => by
    simp only [reduceInner]
    split
    · exact reduceInner_WF s1 rest _ (h.modify s1 (fun vs hv => hv.filter _))
    · exact reduceInner_WF s1 rest g h

theorem reduceMid_WF (s1 : String) : ∀ (l2 : List String) (g : Graph), g.WF → (reduceMid g s1 l2).WF
  | [], _, h => h
  | _ :: rest, g, h => reduceMid_WF s1 rest _ (reduceInner_WF s1 _ g h)

theorem reduceOuter_WF : ∀ (ks : List String) (g : Graph), g.WF → (reduceOuter g ks).WF
  | [], _, h => h
  | s1 :: rest, g, h => reduceOuter_WF rest _ (reduceMid_WF s1 _ g h)

theorem reduce_WF {g : Graph} (h : g.WF) : (reduce g).WF := reduceOuter_WF _ g h

theorem edges_nodup : ∀ {g : Graph}, g.WF → g.edges.Nodup
  | [], _ => by simp [Graph.edges]
  | (k, vs) :: rest, h => by
    have hk : k ∉ Graph.keys rest ∧ (Graph.keys rest).Nodup := by
      simpa [Graph.keys] using h.1
    have hrest : Graph.WF rest := by
      refine ⟨hk.2, fun k' => ?_⟩
      by_cases hkk : k' = k
      · subst hkk
        rw [Graph.get_of_not_key hk.1]
        exact List.nodup_nil
      · have := h.2 k'
        rwa [Graph.get_cons, if_neg hkk] at this
    have hvs : vs.Nodup := by
      have := h.2 k
      rwa [Graph.get_cons, if_pos rfl] at this
    have ih := edges_nodup hrest
    have hcons : Graph.edges ((k, vs) :: rest) = vs.map (fun v => (k, v)) ++ Graph.edges rest := by
      simp [Graph.edges]
    rw [hcons, List.nodup_append]
    refine ⟨?_, ih, ?_⟩
    · exact List.Nodup.map (fun _ _ h => (Prod.mk.inj h).2) hvs
    · intro p hp q hq hpq
      subst hpq
      obtain ⟨v, -, rfl⟩ := List.mem_map.1 hp
      exact hk.1 (Graph.key_of_mem_get ((mem_edges hk.2 k v).1 hq))

/-! ### the closure loop reaches its fixed point within the fuel -/

/-- total number of stored edges -/
def Graph.size (g : Graph) : Nat := (g.map (fun kv => kv.2.length)).sum

theorem Graph.size_modify {k : String} (f : List String → List String) :
    ∀ {g : Graph}, k ∈ g.keys →
      (g.modify k f).size + (g.get k).length = g.size + (f (g.get k)).length
  | [], h => by cases h
  | (k₀, vs) :: rest, h => by
    simp only [Graph.modify]
    split
    · rename_i hk
      have hk : k₀ = k := by simpa using hk
      subst hk
      simp only [Graph.size, List.map_cons, List.sum_cons, Graph.get_cons, if_true]
      omega
    · rename_i hk
      have hk : k₀ ≠ k := by simpa using hk
      simp only [Graph.keys, List.map_cons, List.mem_cons] at h
      rcases h with h | h
      · exact absurd h.symm hk
      · have ih := Graph.size_modify f h
        simp only [Graph.size, List.map_cons, List.sum_cons, Graph.get_cons,
          if_neg (Ne.symm hk)] at ih ⊢
        omega

theorem closeInner_size (s1 : String) : ∀ (l : List String) (g : Graph), s1 ∈ g.keys →
    g.size ≤ (closeInner g s1 l).1.size ∧
    ((closeInner g s1 l).2 = true → g.size < (closeInner g s1 l).1.size)
  | [], g, _ => by simp [closeInner]
  | s3 :: rest, g, hk => by
    by_cases h3 : s3 ∈ g.get s1
    · simp only [closeInner, h3, if_true]
      exact closeInner_size s1 rest g hk
    · have hk' : s1 ∈ (g.modify s1 (fun vs => insertS vs s3)).keys := by
        rw [Graph.keys_modify]; exact hk
      obtain ⟨i1, _⟩ := closeInner_size s1 rest _ hk'
      have hsz := Graph.size_modify (fun vs => insertS vs s3) hk
      have hlen : (insertS (g.get s1) s3).length = (g.get s1).length + 1 := by
        simp [insertS, h3]
      simp only [closeInner, h3, if_false]
      constructor
      · omega
      · intro _; omega

theorem closeMid_size (s1 : String) : ∀ (l2 : List String) (g : Graph), s1 ∈ g.keys →
    g.size ≤ (closeMid g s1 l2).1.size ∧
    ((closeMid g s1 l2).2 = true → g.size < (closeMid g s1 l2).1.size)
  | [], g, _ => by simp [closeMid]
  | s2 :: rest, g, hk => by
    obtain ⟨a1, a2⟩ := closeInner_size s1 (g.get s2) g hk
    have hk' : s1 ∈ (closeInner g s1 (g.get s2)).1.keys := by
      rw [(closeInner_spec g s1 (g.get s2) g hk).1]; exact hk
    obtain ⟨b1, b2⟩ := closeMid_size s1 rest _ hk'
    simp only [closeMid]
    refine ⟨by omega, fun h => ?_⟩
    simp only [Bool.or_eq_true] at h
    rcases h with h | h
    · have := a2 h; omega
    · have := b2 h; omega

theorem closeOuter_size : ∀ (ks : List String) (g : Graph), (∀ k ∈ ks, k ∈ g.keys) →
    g.size ≤ (closeOuter g ks).1.size ∧
    ((closeOuter g ks).2 = true → g.size < (closeOuter g ks).1.size)
  | [], g, _ => by simp [closeOuter]
  | s1 :: rest, g, hk => by
    have hk1 := hk s1 (List.mem_cons_self ..)
    obtain ⟨a1, a2⟩ := closeMid_size s1 (g.get s1) g hk1
    have hk' : ∀ k ∈ rest, k ∈ (closeMid g s1 (g.get s1)).1.keys := by
      intro k hkr
      rw [(closeMid_spec g s1 (g.get s1) g hk1).1]
      exact hk k (List.mem_cons_of_mem _ hkr)
    obtain ⟨b1, b2⟩ := closeOuter_size rest _ hk'
    simp only [closeOuter]
    refine ⟨by omega, fun h => ?_⟩
    simp only [Bool.or_eq_true] at h
    rcases h with h | h
    · have := a2 h; omega
    · have := b2 h; omega

theorem Graph.size_le {U : List String} :
    ∀ {g : Graph}, g.WF → (∀ k x, x ∈ g.get k → x ∈ U) → g.size ≤ g.keys.length * U.length
  | [], _, _ => by simp [Graph.size]
  | (k, vs) :: rest, h, hU => by
    have hk : k ∉ Graph.keys rest ∧ (Graph.keys rest).Nodup := by
      simpa [Graph.keys] using h.1
    have hget : ∀ k', k' ≠ k → Graph.get ((k, vs) :: rest) k' = Graph.get rest k' := by
      intro k' hkk
      rw [Graph.get_cons, if_neg hkk]
    have hrest : Graph.WF rest := by
      refine ⟨hk.2, fun k' => ?_⟩
      by_cases hkk : k' = k
      · subst hkk
        rw [Graph.get_of_not_key hk.1]
        exact List.nodup_nil
      · rw [← hget k' hkk]
        exact h.2 k'
    have hUrest : ∀ k' x, x ∈ Graph.get rest k' → x ∈ U := by
      intro k' x hx
      have hkk : k' ≠ k := by
        rintro rfl
        exact hk.1 (Graph.key_of_mem_get hx)
      exact hU k' x (by rw [hget k' hkk]; exact hx)
    have ih := Graph.size_le hrest hUrest
    have hvs : vs.Nodup := by
      have := h.2 k
      rwa [Graph.get_cons, if_pos rfl] at this
    have hsub : vs ⊆ U := by
      intro x hx
      exact hU k x (by rw [Graph.get_cons, if_pos rfl]; exact hx)
    have hlen : vs.length ≤ U.length := (hvs.subperm hsub).length_le
    simp only [Graph.size, Graph.keys, List.map_cons, List.sum_cons, List.length_cons,
      List.length_map] at ih ⊢
    rw [Nat.succ_mul]
    omega

/-- with `fuel + (edges stored) > keys × universe` the closure loop terminates normally -/
theorem closure_total (g₀ : Graph) {U : List String} (hU : ∀ k x, x ∈ g₀.get k → x ∈ U) :
    ∀ (fuel : Nat) (g : Graph), g.WF → Sound g₀ g → g.keys = g₀.keys →
      fuel + g.size > g₀.keys.length * U.length → ∃ g', closure fuel g = some g' := by
  have hbound : ∀ g : Graph, g.WF → Sound g₀ g → g.keys = g₀.keys →
      g.size ≤ g₀.keys.length * U.length := by
    intro g hwf hs hk
    rw [← hk]
    apply Graph.size_le hwf
    intro k x hx
    have hp := hs k x hx
    cases hp with
    | single h => exact hU _ _ h
    | tail _ h => exact hU _ _ h
  intro fuel
  induction fuel with
  | zero =>
    intro g hwf hs hk hf
    have := hbound g hwf hs hk
    omega
  | succ fuel ih =>
    intro g hwf hs hk hf
    obtain ⟨a1, a2, _, a4, _⟩ := closeOuter_spec g₀ g.keys g (fun k hk => hk)
    obtain ⟨_, b2⟩ := closeOuter_size g.keys g (fun k hk => hk)
    simp only [closure]
    split
    · rename_i hch
      have := b2 hch
      exact ih _ (a2 hwf) (a4 hs) (by rw [a1, hk]) (by omega)
    · exact ⟨_, rfl⟩

theorem mem_flatMap_of_mem_get : ∀ {g : Graph} {k x : String}, x ∈ g.get k → x ∈ g.flatMap (·.2)
  | [], _, _, h => by cases h
  | (k₀, vs) :: rest, k, x, h => by
    rw [Graph.get_cons] at h
    simp only [List.flatMap_cons, List.mem_append]
    split at h
    · exact Or.inl h
    · exact Or.inr (mem_flatMap_of_mem_get h)

/-- the fuel the model supplies is enough: the dot export never reports `noFixpoint` -/
theorem closure_fuelFor {g : Graph} (hwf : g.WF) : ∃ g', closure (fuelFor g) g = some g' := by
  apply closure_total g (U := unionS g.keys (g.flatMap (·.2)))
    (fun k x hx => mem_unionS.2 (Or.inr (mem_flatMap_of_mem_get hx))) _ g hwf
    (fun k x hx => .single hx) rfl
  unfold fuelFor
  simp only
  omega

/-! ### plumbing for the export theorems -/

theorem transGen_congr {r r' : String → String → Prop} (h : ∀ a b, r a b ↔ r' a b) (a b : String) :
    Relation.TransGen r a b ↔ Relation.TransGen r' a b := by
  constructor <;> intro hp <;> induction hp with
  | single hab => first | exact .single ((h _ _).1 hab) | exact .single ((h _ _).2 hab)
  | tail _ hbc ih => first | exact .tail ih ((h _ _).1 hbc) | exact .tail ih ((h _ _).2 hbc)

theorem dotEdges_unfold {ss : List Stmt} {es : List (String × String)} (h : dotEdges ss = .ok es) :
    ∃ c, closure (fuelFor (buildGraph ss)) (buildGraph ss) = some c ∧ es = (reduce c).edges := by
  unfold dotEdges at h
  simp only at h
  split at h
  · cases h
  · rename_i c hc
    cases h
    exact ⟨c, hc, rfl⟩

end PV.Imp
