import PV.Model.SubstCache
import PV.Model.Eval
import PV.Proofs.Subterm
import PV.Proofs.PyEqEquiv
/-
  C08, all key kinds.  `denOv σ env e`: the meaning of `e` when every node the substitution
  mapper intercepts (a variable, subscript or look-up for which `make_subst_func` finds an entry)
  takes the value of its replacement in `env`, and nothing inside a replacement is looked at again.
  This is the reading of "evaluate the original in the updated environment" that is SYNTACTIC on
  subscripts and look-ups; `SemOK` says when it coincides with a genuine environment `env'`.
-/
namespace PV

mutual
/-- evaluation of `e` with the intercepted nodes overridden by the values of their replacements -/
def denOv (σ : SubstMap) (env : Env) : Expr → R
  | .var x => match σ.apply (.var x) with
    | some r => den env r
    | none => match env.get x with
      | some v => pure v
      | none => throw (.unknownVar x)
  | .subscript a i => match σ.apply (.subscript a i) with
    | some r => den env r
    | none => do
      let av ← denOv σ env a
      let iv ← denOv σ env i
      av.index iv
  | .lookup a n => match σ.apply (.lookup a n) with
    | some r => den env r
    | none => do (← denOv σ env a).getattr n
  | .const c => c.den
  | .nary .sum cs => denOvFold σ env .sum (.int 0) cs
  | .nary .prod cs => denOvFold σ env .prod (.int 1) cs
  | .nary .bor cs => denOvReduce σ env .bor cs
  | .nary .bxor cs => denOvReduce σ env .bxor cs
  | .nary .band cs => denOvReduce σ env .band cs
  | .nary .lor cs => denOvAny σ env cs
  | .nary .land cs => denOvAll σ env cs
  | .nary .min cs => denOvMinMax σ env true none cs
  | .nary .max cs => denOvMinMax σ env false none cs
  | .bin o a b => do
      let x ← denOv σ env a
      let y ← denOv σ env b
      o.apply x y
  | .un .bnot a => do (← denOv σ env a).invert
  | .un .lnot a => do
      let t ← (← denOv σ env a).truthy
      pure (.bool (!t))
  | .cmp o a b => do
      let x ← denOv σ env a
      let y ← denOv σ env b
      Value.cmp o x y
  | .ite c t e => do
      let cv ← denOv σ env c
      if ← cv.truthy then denOv σ env t else denOv σ env e
  | .call f as => do
      let fv ← denOv σ env f
      let avs ← denOvList σ env as
      fv.call avs [] []
  | .callKw f as ns vs => do
      let avs ← denOvList σ env as
      let kvs ← denOvList σ env vs
      let fv ← denOv σ env f
      fv.call avs ns kvs
  | .cse c _ _ => denOv σ env c
  | .subst .. => throw .unsupportedExpr
  | .deriv .. => throw .unsupportedExpr
  | .slice _ => throw .unsupportedExpr
  | .nan => pure .inexact
  | .wildcard => throw .notImplemented
  | .dotWild _ => throw .notImplemented
  | .starWild _ => throw .notImplemented
  | .funcSym => throw .notImplemented
  | .tuple cs => do pure (.tuple (← denOvList σ env cs))
  | .list cs => do pure (.list (← denOvList σ env cs))
def denOvFold (σ : SubstMap) (env : Env) (o : NaryOp) (acc : Value) : List Expr → R
  | [] => pure acc
  | c :: cs => do
      let v ← denOv σ env c
      let acc' ← o.apply acc v
      denOvFold σ env o acc' cs
def denOvReduce (σ : SubstMap) (env : Env) (o : NaryOp) : List Expr → R
  | [] => throw .typeError
  | c :: cs => do
      let v ← denOv σ env c
      denOvFold σ env o v cs
def denOvAny (σ : SubstMap) (env : Env) : List Expr → R
  | [] => pure (.bool false)
  | c :: cs => do
      let v ← denOv σ env c
      if ← v.truthy then pure (.bool true) else denOvAny σ env cs
def denOvAll (σ : SubstMap) (env : Env) : List Expr → R
  | [] => pure (.bool true)
  | c :: cs => do
      let v ← denOv σ env c
      if ← v.truthy then denOvAll σ env cs else pure (.bool false)
def denOvMinMax (σ : SubstMap) (env : Env) (isMin : Bool) (cur : Option Value) : List Expr → R
  | [] => match cur with
    | some m => pure m
    | none => throw .valueError
  | c :: cs => do
      let v ← denOv σ env c
      match cur with
      | none => denOvMinMax σ env isMin (some v) cs
      | some m =>
        let better ← Value.better isMin v m
        denOvMinMax σ env isMin (some (if better then v else m)) cs
def denOvList (σ : SubstMap) (env : Env) : List Expr → Except Err (List Value)
  | [] => pure []
  | c :: cs => do
      let v ← denOv σ env c
      let vs ← denOvList σ env cs
      pure (v :: vs)
end

/-- no CSE wrapper of `e` whose substituted child is zero (`IdentityMapper` collapses those) -/
def c08NoZeroCse (σ : SubstMap) (e : Expr) : Prop :=
  ∀ c p s, Subterm (.cse c p s) e → (substM σ c).1.isZero = false

theorem c08NoZeroCse.child {σ : SubstMap} {e c : Expr} (h : c08NoZeroCse σ e)
    (hc : c ∈ e.children) : c08NoZeroCse σ c :=
  fun c' p s ht => h c' p s (ht.trans (.child hc))

/-! ### list-level congruences: two evaluators that agree on every element agree on the folds -/

section lists
variable {D D' : Expr → R}

/-- generic fold shapes, parametrised by the element evaluator -/
def foldD (D : Expr → R) (o : NaryOp) (acc : Value) : List Expr → R
  | [] => pure acc
  | c :: cs => do
      let v ← D c
      let acc' ← o.apply acc v
      foldD D o acc' cs
def reduceD (D : Expr → R) (o : NaryOp) : List Expr → R
  | [] => throw .typeError
  | c :: cs => do
      let v ← D c
      foldD D o v cs
def anyD (D : Expr → R) : List Expr → R
  | [] => pure (.bool false)
  | c :: cs => do
      let v ← D c
      if ← v.truthy then pure (.bool true) else anyD D cs
def allD (D : Expr → R) : List Expr → R
  | [] => pure (.bool true)
  | c :: cs => do
      let v ← D c
      if ← v.truthy then allD D cs else pure (.bool false)
def minMaxD (D : Expr → R) (isMin : Bool) (cur : Option Value) : List Expr → R
  | [] => match cur with
    | some m => pure m
    | none => throw .valueError
  | c :: cs => do
      let v ← D c
      match cur with
      | none => minMaxD D isMin (some v) cs
      | some m =>
        let better ← Value.better isMin v m
        minMaxD D isMin (some (if better then v else m)) cs
def listD (D : Expr → R) : List Expr → Except Err (List Value)
  | [] => pure []
  | c :: cs => do
      let v ← D c
      let vs ← listD D cs
      pure (v :: vs)

theorem foldD_congr (o : NaryOp) : ∀ (cs : List Expr) (acc : Value), (∀ c ∈ cs, D c = D' c) →
    foldD D o acc cs = foldD D' o acc cs
  | [], _, _ => rfl
  | c :: cs, acc, h => by
      simp only [foldD, h c (by simp)]
      cases D' c with
      | error e => rfl
      | ok v =>
        simp only [bind, Except.bind]
        cases o.apply acc v with
        | error e => rfl
        | ok acc' => exact foldD_congr o cs acc' (fun c hc => h c (by simp [hc]))

theorem reduceD_congr (o : NaryOp) : ∀ (cs : List Expr), (∀ c ∈ cs, D c = D' c) →
    reduceD D o cs = reduceD D' o cs
  | [], _ => rfl
  | c :: cs, h => by
      simp only [reduceD, h c (by simp)]
      cases D' c with
      | error e => rfl
      | ok v => exact foldD_congr o cs v (fun c hc => h c (by simp [hc]))

theorem anyD_congr : ∀ (cs : List Expr), (∀ c ∈ cs, D c = D' c) → anyD D cs = anyD D' cs
  | [], _ => rfl
  | c :: cs, h => by
      simp only [anyD, h c (by simp), anyD_congr cs (fun c hc => h c (by simp [hc]))]

theorem allD_congr : ∀ (cs : List Expr), (∀ c ∈ cs, D c = D' c) → allD D cs = allD D' cs
  | [], _ => rfl
  | c :: cs, h => by
      simp only [allD, h c (by simp), allD_congr cs (fun c hc => h c (by simp [hc]))]

theorem minMaxD_congr (isMin : Bool) : ∀ (cs : List Expr) (cur : Option Value),
    (∀ c ∈ cs, D c = D' c) → minMaxD D isMin cur cs = minMaxD D' isMin cur cs
  | [], _, _ => rfl
  | c :: cs, cur, h => by
      have hcs : ∀ c ∈ cs, D c = D' c := fun c hc => h c (by simp [hc])
      simp only [minMaxD, h c (by simp)]
      cases D' c with
      | error e => rfl
      | ok v =>
        simp only [bind, Except.bind]
        cases cur with
        | none => exact minMaxD_congr isMin cs (some v) hcs
        | some m =>
          simp only
          cases Value.better isMin v m with
          | error e => rfl
          | ok b => exact minMaxD_congr isMin cs _ hcs

theorem listD_congr : ∀ (cs : List Expr), (∀ c ∈ cs, D c = D' c) → listD D cs = listD D' cs
  | [], _ => rfl
  | c :: cs, h => by
      simp only [listD, h c (by simp), listD_congr cs (fun c hc => h c (by simp [hc]))]

/-- mapping the elements first is evaluating with the composed evaluator -/
theorem foldD_map (f : Expr → Expr) (o : NaryOp) : ∀ (cs : List Expr) (acc : Value),
    foldD D o acc (cs.map f) = foldD (fun c => D (f c)) o acc cs
  | [], _ => rfl
  | c :: cs, acc => by
      simp only [List.map, foldD]
      cases D (f c) with
      | error e => rfl
      | ok v =>
        simp only [bind, Except.bind]
        cases o.apply acc v with
        | error e => rfl
        | ok acc' => exact foldD_map f o cs acc'
theorem reduceD_map (f : Expr → Expr) (o : NaryOp) : ∀ (cs : List Expr),
    reduceD D o (cs.map f) = reduceD (fun c => D (f c)) o cs
  | [] => rfl
  | c :: cs => by
      simp only [List.map, reduceD]
      cases D (f c) with
      | error e => rfl
      | ok v => exact foldD_map f o cs v
theorem anyD_map (f : Expr → Expr) : ∀ (cs : List Expr),
    anyD D (cs.map f) = anyD (fun c => D (f c)) cs
  | [] => rfl
  | c :: cs => by simp only [List.map, anyD, anyD_map f cs]
theorem allD_map (f : Expr → Expr) : ∀ (cs : List Expr),
    allD D (cs.map f) = allD (fun c => D (f c)) cs
  | [] => rfl
  | c :: cs => by simp only [List.map, allD, allD_map f cs]
theorem minMaxD_map (f : Expr → Expr) (isMin : Bool) : ∀ (cs : List Expr) (cur : Option Value),
    minMaxD D isMin cur (cs.map f) = minMaxD (fun c => D (f c)) isMin cur cs
  | [], _ => rfl
  | c :: cs, cur => by
      simp only [List.map, minMaxD]
      cases D (f c) with
      | error e => rfl
      | ok v =>
        simp only [bind, Except.bind]
        cases cur with
        | none => exact minMaxD_map f isMin cs (some v)
        | some m =>
          simp only
          cases Value.better isMin v m with
          | error e => rfl
          | ok b => exact minMaxD_map f isMin cs _
theorem listD_map (f : Expr → Expr) : ∀ (cs : List Expr),
    listD D (cs.map f) = listD (fun c => D (f c)) cs
  | [] => rfl
  | c :: cs => by simp only [List.map, listD, listD_map f cs]
end lists

/-! ### `den` and `denOv` in terms of the generic folds -/

theorem denFold_eq (env : Env) (o : NaryOp) : ∀ (cs : List Expr) (acc : Value),
    denFold env o acc cs = foldD (den env) o acc cs
  | [], _ => by simp only [denFold, foldD]
  | c :: cs, acc => by
      simp only [denFold, foldD]
      cases den env c with
      | error e => rfl
      | ok v =>
        simp only [bind, Except.bind]
        cases o.apply acc v with
        | error e => rfl
        | ok acc' => exact denFold_eq env o cs acc'
theorem denReduce_eq (env : Env) (o : NaryOp) : ∀ (cs : List Expr),
    denReduce env o cs = reduceD (den env) o cs
  | [] => by simp only [denReduce, reduceD]
  | c :: cs => by
      simp only [denReduce, reduceD]
      cases den env c with
      | error e => rfl
      | ok v => exact denFold_eq env o cs v
theorem denAny_eq (env : Env) : ∀ (cs : List Expr), denAny env cs = anyD (den env) cs
  | [] => by simp only [denAny, anyD]
  | c :: cs => by simp only [denAny, anyD, denAny_eq env cs]
theorem denAll_eq (env : Env) : ∀ (cs : List Expr), denAll env cs = allD (den env) cs
  | [] => by simp only [denAll, allD]
  | c :: cs => by simp only [denAll, allD, denAll_eq env cs]
theorem denMinMax_eq (env : Env) (isMin : Bool) : ∀ (cs : List Expr) (cur : Option Value),
    denMinMax env isMin cur cs = minMaxD (den env) isMin cur cs
  | [], cur => by cases cur <;> rfl
  | c :: cs, cur => by
      simp only [denMinMax, minMaxD]
      cases den env c with
      | error e => rfl
      | ok v =>
        simp only [bind, Except.bind]
        cases cur with
        | none => exact denMinMax_eq env isMin cs (some v)
        | some m =>
          simp only
          cases Value.better isMin v m with
          | error e => rfl
          | ok b => exact denMinMax_eq env isMin cs _
theorem denList_eq (env : Env) : ∀ (cs : List Expr), denList env cs = listD (den env) cs
  | [] => by simp only [denList, listD]
  | c :: cs => by simp only [denList, listD, denList_eq env cs]

theorem denOvFold_eq (σ : SubstMap) (env : Env) (o : NaryOp) : ∀ (cs : List Expr) (acc : Value),
    denOvFold σ env o acc cs = foldD (denOv σ env) o acc cs
  | [], _ => by simp only [denOvFold, foldD]
  | c :: cs, acc => by
      simp only [denOvFold, foldD]
      cases denOv σ env c with
      | error e => rfl
      | ok v =>
        simp only [bind, Except.bind]
        cases o.apply acc v with
        | error e => rfl
        | ok acc' => exact denOvFold_eq σ env o cs acc'
theorem denOvReduce_eq (σ : SubstMap) (env : Env) (o : NaryOp) : ∀ (cs : List Expr),
    denOvReduce σ env o cs = reduceD (denOv σ env) o cs
  | [] => by simp only [denOvReduce, reduceD]
  | c :: cs => by
      simp only [denOvReduce, reduceD]
      cases denOv σ env c with
      | error e => rfl
      | ok v => exact denOvFold_eq σ env o cs v
theorem denOvAny_eq (σ : SubstMap) (env : Env) : ∀ (cs : List Expr),
    denOvAny σ env cs = anyD (denOv σ env) cs
  | [] => by simp only [denOvAny, anyD]
  | c :: cs => by simp only [denOvAny, anyD, denOvAny_eq σ env cs]
theorem denOvAll_eq (σ : SubstMap) (env : Env) : ∀ (cs : List Expr),
    denOvAll σ env cs = allD (denOv σ env) cs
  | [] => by simp only [denOvAll, allD]
  | c :: cs => by simp only [denOvAll, allD, denOvAll_eq σ env cs]
theorem denOvMinMax_eq (σ : SubstMap) (env : Env) (isMin : Bool) :
    ∀ (cs : List Expr) (cur : Option Value),
    denOvMinMax σ env isMin cur cs = minMaxD (denOv σ env) isMin cur cs
  | [], cur => by cases cur <;> rfl
  | c :: cs, cur => by
      simp only [denOvMinMax, minMaxD]
      cases denOv σ env c with
      | error e => rfl
      | ok v =>
        simp only [bind, Except.bind]
        cases cur with
        | none => exact denOvMinMax_eq σ env isMin cs (some v)
        | some m =>
          simp only
          cases Value.better isMin v m with
          | error e => rfl
          | ok b => exact denOvMinMax_eq σ env isMin cs _
theorem denOvList_eq (σ : SubstMap) (env : Env) : ∀ (cs : List Expr),
    denOvList σ env cs = listD (denOv σ env) cs
  | [] => by simp only [denOvList, listD]
  | c :: cs => by simp only [denOvList, listD, denOvList_eq σ env cs]

theorem substEL_eq_map (σ : SubstMap) : ∀ cs : List Expr, substEL σ cs = cs.map (substE σ)
  | [] => by simp only [substEL, List.map]
  | c :: cs => by simp only [substEL, List.map, substEL_eq_map σ cs]

/-! ### the substitution lemma for every key kind -/

/-- **Substitution lemma, all key kinds** (core, on `substE`). -/
theorem den_substE_ov (σ : SubstMap) (env : Env) (e : Expr) :
    c08NoZeroCse σ e → den env (substE σ e) = denOv σ env e := by
  induction e using Expr.induct with | _ e ih => ?_
  intro h
  have ihc : ∀ c ∈ e.children, den env (substE σ c) = denOv σ env c :=
    fun c hc => ih c hc (h.child hc)
  cases e with
  | var x =>
    simp only [substE, denOv]
    cases σ.apply (.var x) with
    | some r => rfl
    | none => simp only [den]; cases env.get x <;> rfl
  | subscript a i =>
    simp only [substE, denOv]
    cases σ.apply (.subscript a i) with
    | some r => rfl
    | none =>
      simp only [den, ihc a (by simp [Expr.children]), ihc i (by simp [Expr.children])]
  | lookup a n =>
    simp only [substE, denOv]
    cases σ.apply (.lookup a n) with
    | some r => rfl
    | none => simp only [den, ihc a (by simp [Expr.children])]
  | cse a p s =>
    have hz : (substE σ a).isZero = false := by
      rw [← (substM_spec σ a).1]; exact h a p s (.refl _)
    simp only [substE, hz, denOv, den, Bool.false_eq_true, if_false,
      ihc a (by simp [Expr.children])]
  | nary o cs =>
    have hcs : ∀ c ∈ cs, den env (substE σ c) = denOv σ env c :=
      fun c hc => ihc c (by simp [Expr.children, hc])
    cases o <;> simp only [substE, den, denOv, substEL_eq_map, denFold_eq, denReduce_eq, denAny_eq,
      denAll_eq, denMinMax_eq, denOvFold_eq, denOvReduce_eq, denOvAny_eq, denOvAll_eq,
      denOvMinMax_eq, foldD_map, reduceD_map, anyD_map, allD_map, minMaxD_map]
    · exact foldD_congr _ _ _ hcs
    · exact foldD_congr _ _ _ hcs
    · exact reduceD_congr _ _ hcs
    · exact reduceD_congr _ _ hcs
    · exact reduceD_congr _ _ hcs
    · exact anyD_congr _ hcs
    · exact allD_congr _ hcs
    · exact minMaxD_congr _ _ _ hcs
    · exact minMaxD_congr _ _ _ hcs
  | bin o a b =>
    simp only [substE, den, denOv, ihc a (by simp [Expr.children]), ihc b (by simp [Expr.children])]
  | cmp o a b =>
    simp only [substE, den, denOv, ihc a (by simp [Expr.children]), ihc b (by simp [Expr.children])]
  | un o a =>
    cases o <;> simp only [substE, den, denOv, ihc a (by simp [Expr.children])]
  | ite a b c =>
    simp only [substE, den, denOv, ihc a (by simp [Expr.children]), ihc b (by simp [Expr.children]),
      ihc c (by simp [Expr.children])]
  | call f as =>
    have h2 : listD (fun c => den env (substE σ c)) as = listD (denOv σ env) as :=
      listD_congr _ fun c hc => ihc c (by simp [Expr.children, hc])
    simp only [substE, den, denOv, ihc f (by simp [Expr.children]), substEL_eq_map, denList_eq,
      denOvList_eq, listD_map, h2]
  | callKw f as ns vs =>
    have h2 : listD (fun c => den env (substE σ c)) as = listD (denOv σ env) as :=
      listD_congr _ fun c hc => ihc c (by simp [Expr.children, hc])
    have h3 : listD (fun c => den env (substE σ c)) vs = listD (denOv σ env) vs :=
      listD_congr _ fun c hc => ihc c (by simp [Expr.children, hc])
    simp only [substE, den, denOv, ihc f (by simp [Expr.children]), substEL_eq_map, denList_eq,
      denOvList_eq, listD_map, h2, h3]
  | tuple cs =>
    have h2 : listD (fun c => den env (substE σ c)) cs = listD (denOv σ env) cs :=
      listD_congr _ fun c hc => ihc c (by simp [Expr.children, hc])
    simp only [substE, den, denOv, substEL_eq_map, denList_eq, denOvList_eq, listD_map, h2]
  | list cs =>
    have h2 : listD (fun c => den env (substE σ c)) cs = listD (denOv σ env) cs :=
      listD_congr _ fun c hc => ihc c (by simp [Expr.children, hc])
    simp only [substE, den, denOv, substEL_eq_map, denList_eq, denOvList_eq, listD_map, h2]
  | const c => simp only [substE, den, denOv]
  | subst a vs cs => simp only [substE, den, denOv]
  | deriv a vs => simp only [substE, den, denOv]
  | slice cs => simp only [substE, den, denOv]
  | nan => simp only [substE, den, denOv]
  | wildcard => simp only [substE, den, denOv]
  | dotWild n => simp only [substE, den, denOv]
  | starWild n => simp only [substE, den, denOv]
  | funcSym => simp only [substE, den, denOv]

/-! ### when the override reading is a genuine environment -/

/-- `SemOK σ env env' e`: below `e`, down to the *atoms*, nothing is intercepted; at an atom the
override reading and the environment `env'` agree outright.  (Atoms are where one puts the
variables, the intercepted nodes, and the selections `a[k]` / `r.n` from an updated aggregate.) -/
inductive SemOK (σ : SubstMap) (env env' : Env) : Expr → Prop
  | atom {t : Expr} : denOv σ env t = den env' t → SemOK σ env env' t
  | node {e : Expr} : (∀ x, e ≠ .var x) → c08Intercept σ e = none →
      (∀ c ∈ e.children, SemOK σ env env' c) → SemOK σ env env' e

/-- **Bridge.**  On a `SemOK` tree the override reading IS evaluation in `env'`. -/
theorem denOv_eq_den_of_semOK {σ : SubstMap} {env env' : Env} {e : Expr}
    (h : SemOK σ env env' e) : denOv σ env e = den env' e := by
  induction h with
  | atom h => exact h
  | @node e hv hi _ ihc =>
    cases e with
    | var x => exact absurd rfl (hv x)
    | subscript a i =>
      simp only [c08Intercept] at hi
      simp only [denOv, hi, den, ihc a (by simp [Expr.children]), ihc i (by simp [Expr.children])]
    | lookup a n =>
      simp only [c08Intercept] at hi
      simp only [denOv, hi, den, ihc a (by simp [Expr.children])]
    | cse a p s => simp only [denOv, den, ihc a (by simp [Expr.children])]
    | nary o cs =>
      have hcs : ∀ c ∈ cs, denOv σ env c = den env' c :=
        fun c hc => ihc c (by simp [Expr.children, hc])
      cases o <;> simp only [den, denOv, denFold_eq, denReduce_eq, denAny_eq,
        denAll_eq, denMinMax_eq, denOvFold_eq, denOvReduce_eq, denOvAny_eq, denOvAll_eq,
        denOvMinMax_eq]
      · exact foldD_congr _ _ _ hcs
      · exact foldD_congr _ _ _ hcs
      · exact reduceD_congr _ _ hcs
      · exact reduceD_congr _ _ hcs
      · exact reduceD_congr _ _ hcs
      · exact anyD_congr _ hcs
      · exact allD_congr _ hcs
      · exact minMaxD_congr _ _ _ hcs
      · exact minMaxD_congr _ _ _ hcs
    | bin o a b =>
      simp only [den, denOv, ihc a (by simp [Expr.children]), ihc b (by simp [Expr.children])]
    | cmp o a b =>
      simp only [den, denOv, ihc a (by simp [Expr.children]), ihc b (by simp [Expr.children])]
    | un o a => cases o <;> simp only [den, denOv, ihc a (by simp [Expr.children])]
    | ite a b c =>
      simp only [den, denOv, ihc a (by simp [Expr.children]), ihc b (by simp [Expr.children]),
        ihc c (by simp [Expr.children])]
    | call f as =>
      have h2 : listD (denOv σ env) as = listD (den env') as :=
        listD_congr _ fun c hc => ihc c (by simp [Expr.children, hc])
      simp only [den, denOv, ihc f (by simp [Expr.children]), denList_eq, denOvList_eq, h2]
    | callKw f as ns vs =>
      have h2 : listD (denOv σ env) as = listD (den env') as :=
        listD_congr _ fun c hc => ihc c (by simp [Expr.children, hc])
      have h3 : listD (denOv σ env) vs = listD (den env') vs :=
        listD_congr _ fun c hc => ihc c (by simp [Expr.children, hc])
      simp only [den, denOv, ihc f (by simp [Expr.children]), denList_eq, denOvList_eq, h2, h3]
    | tuple cs =>
      have h2 : listD (denOv σ env) cs = listD (den env') cs :=
        listD_congr _ fun c hc => ihc c (by simp [Expr.children, hc])
      simp only [den, denOv, denList_eq, denOvList_eq, h2]
    | list cs =>
      have h2 : listD (denOv σ env) cs = listD (den env') cs :=
        listD_congr _ fun c hc => ihc c (by simp [Expr.children, hc])
      simp only [den, denOv, denList_eq, denOvList_eq, h2]
    | const c => simp only [den, denOv]
    | subst a vs cs => simp only [den, denOv]
    | deriv a vs => simp only [den, denOv]
    | slice cs => simp only [den, denOv]
    | nan => simp only [den, denOv]
    | wildcard => simp only [den, denOv]
    | dotWild n => simp only [den, denOv]
    | starWild n => simp only [den, denOv]
    | funcSym => simp only [den, denOv]

end PV
