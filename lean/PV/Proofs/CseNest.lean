import PV.Proofs.CseRel
/-
  C12 helper: "no wrapper directly around a wrapper" as an instance of the generic induction.
-/
namespace PV

def Expr.isCse : Expr → Bool
  | .cse .. => true
  | _ => false

mutual
/-- nowhere in the tree is a wrapper the direct child of a wrapper -/
def Expr.noNest : Expr → Bool
  | .cse c _ _ => !c.isCse && c.noNest
  | .nary _ cs => Expr.noNestL cs
  | .bin _ a b => a.noNest && b.noNest
  | .un _ a => a.noNest
  | .cmp _ a b => a.noNest && b.noNest
  | .ite c t e => c.noNest && t.noNest && e.noNest
  | .call f as => f.noNest && Expr.noNestL as
  | .callKw f as _ vs => f.noNest && Expr.noNestL as && Expr.noNestL vs
  | .subscript a i => a.noNest && i.noNest
  | .lookup a _ => a.noNest
  | .subst c _ xs => c.noNest && Expr.noNestL xs
  | .deriv c _ => c.noNest
  | .slice cs => Expr.noNestL cs
  | .tuple cs => Expr.noNestL cs
  | .list cs => Expr.noNestL cs
  | _ => true
def Expr.noNestL : List Expr → Bool
  | [] => true
  | c :: cs => c.noNest && Expr.noNestL cs
end

theorem noNestL_mem : ∀ {cs : List Expr}, Expr.noNestL cs = true → ∀ c ∈ cs, c.noNest = true
  | [], _, c, hc => by simp at hc
  | d :: ds, h, c, hc => by
    simp only [Expr.noNestL, Bool.and_eq_true] at h
    simp only [List.mem_cons] at hc
    rcases hc with rfl | hc
    · exact h.1
    · exact noNestL_mem h.2 c hc

theorem noNestL_of_mem : ∀ {cs : List Expr}, (∀ c ∈ cs, c.noNest = true) → Expr.noNestL cs = true
  | [], _ => rfl
  | d :: ds, h => by
    simp only [Expr.noNestL, Bool.and_eq_true]
    exact ⟨h d (by simp), noNestL_of_mem fun c hc => h c (by simp [hc])⟩

theorem noNest_children {e : Expr} (h : e.noNest = true) : ∀ c ∈ e.children, c.noNest = true := by
  intro c hc
  cases e <;> simp only [Expr.children, List.mem_cons, List.mem_append, List.not_mem_nil,
    or_false] at hc <;> simp only [Expr.noNest, Bool.and_eq_true] at h
  all_goals first
    | exact noNestL_mem h c hc
    | (rcases hc with rfl | rfl | rfl <;> simp_all)
    | (rcases hc with rfl | rfl <;> simp_all)
    | (rcases hc with rfl | hc | hc
       · exact h.1.1
       · exact noNestL_mem h.1.2 c hc
       · exact noNestL_mem h.2 c hc)
    | (rcases hc with rfl | hc
       · exact h.1
       · exact noNestL_mem h.2 c hc)
    | (subst hc; simp_all)
    | simp at hc

theorem wrapInCse_noNest (r : Expr) (p : Option String) (h : r.noNest = true) :
    (wrapInCse r p).noNest = true := by
  cases r <;> try (simp only [wrapInCse, Expr.noNest, Expr.isCse, Bool.not_false, Bool.true_and]; exact h)
  case cse c q s =>
    cases p with
    | none => simpa [wrapInCse] using h
    | some pp =>
      simp only [wrapInCse]
      split
      · simpa [Expr.noNest] using h
      · exact h
  all_goals (simp only [wrapInCse]; first | exact h | simp [Expr.noNest, Expr.isCse])

/-- `wrap_in_cse` never builds a wrapper directly around a wrapper -/
theorem wrapInCse_top (r : Expr) (p : Option String) :
    ∀ c q s, wrapInCse r p = .cse c q s → c.isCse = true → ∃ q' s', r = .cse c q' s' := by
  intro c q s h hc
  cases r <;> simp only [wrapInCse] at h <;> try cases h
  case cse c0 q0 s0 =>
    cases p with
    | none => simp only at h; injection h with h1 h2 h3; subst h1; exact ⟨_, _, rfl⟩
    | some pp =>
      simp only at h
      split at h
      · injection h with h1 h2 h3; subst h1; exact ⟨_, _, rfl⟩
      · injection h with h1 h2 h3; subst h1; exact ⟨_, _, rfl⟩
  all_goals (simp [Expr.isCse] at hc)

theorem Tbl.mem_set {k : CKey} {w : Expr} : ∀ {T : Tbl} {p : CKey × Expr}, p ∈ Tbl.set k w T →
    p.2 = w ∨ p ∈ T
  | [], p, h => by simp [Tbl.set] at h; left; rw [h]
  | (k0, w0) :: rest, p, h => by
    simp only [Tbl.set] at h
    by_cases hk : k0.eq k = true
    · simp only [hk, if_true, List.mem_cons] at h
      rcases h with rfl | h
      · left; rfl
      · right; simp [h]
    · simp only [hk, Bool.false_eq_true, if_false, List.mem_cons] at h
      rcases h with rfl | h
      · right; simp
      · rcases Tbl.mem_set h with h | h
        · left; exact h
        · right; simp [h]

/-- finer: a new or overwritten entry keeps its key or overwrites an entry with an equal key -/
theorem Tbl.mem_set' {k : CKey} {w : Expr} : ∀ {T : Tbl} {p : CKey × Expr}, p ∈ Tbl.set k w T →
    p ∈ T ∨ (p.2 = w ∧ (p.1 = k ∨ ∃ w0, (p.1, w0) ∈ T ∧ p.1.eq k = true))
  | [], p, h => by simp [Tbl.set] at h; right; rw [h]; exact ⟨rfl, Or.inl rfl⟩
  | (k0, w0) :: rest, p, h => by
    simp only [Tbl.set] at h
    by_cases hk : k0.eq k = true
    · simp only [hk, if_true, List.mem_cons] at h
      rcases h with rfl | h
      · right; exact ⟨rfl, Or.inr ⟨w0, by simp, hk⟩⟩
      · left; simp [h]
    · simp only [hk, Bool.false_eq_true, if_false, List.mem_cons] at h
      rcases h with rfl | h
      · left; simp
      · rcases Tbl.mem_set' h with h | ⟨h1, h2 | ⟨w1, hm, he⟩⟩
        · left; simp [h]
        · right; exact ⟨h1, Or.inl h2⟩
        · right; exact ⟨h1, Or.inr ⟨w1, by simp [hm], he⟩⟩

theorem relL_noNest {cs cs' : List Expr}
    (h : RelL (fun e e' => e.noNest = true → e'.noNest = true) cs cs') :
    Expr.noNestL cs = true → Expr.noNestL cs' = true := by
  induction h with
  | nil => intro _; rfl
  | cons h1 _ ih =>
    intro hh
    simp only [Expr.noNestL, Bool.and_eq_true] at hh ⊢
    exact ⟨h1 hh.1, ih hh.2⟩

theorem relL_mem {R : Expr → Expr → Prop} {cs cs' : List Expr} (h : RelL R cs cs') :
    ∀ c' ∈ cs', ∃ c ∈ cs, R c c' := by
  induction h with
  | nil => intro c' hc; simp at hc
  | cons h1 _ ih =>
    intro c' hc
    simp only [List.mem_cons] at hc
    rcases hc with rfl | hc
    · exact ⟨_, by simp, h1⟩
    · obtain ⟨c, hm, hr⟩ := ih c' hc
      exact ⟨c, by simp [hm], hr⟩

theorem relL_length {R : Expr → Expr → Prop} {cs cs' : List Expr} (h : RelL R cs cs') :
    cs.length = cs'.length := by
  induction h with
  | nil => rfl
  | cons _ _ ih => simp [ih]

theorem relL_get {R : Expr → Expr → Prop} {cs cs' : List Expr} (h : RelL R cs cs') :
    ∀ (i : Nat) (h1 : i < cs.length) (h2 : i < cs'.length), R cs[i] cs'[i] := by
  induction h with
  | nil => intro i h1; simp at h1
  | cons hr _ ih =>
    intro i h1 h2
    cases i with
    | zero => simpa using hr
    | succ j => simpa using ih j (by simpa using h1) (by simpa using h2)

theorem noNestSpec : CseSpec (fun e e' => e.noNest = true → e'.noNest = true)
    (fun _ w => w.noNest = true) (fun e => e.noNest = true) where
  dchild := fun _ h => noNest_children h
  const := fun _ h => h
  var := fun _ h => h
  nan := fun h => h
  wildcard := fun h => h
  dotWild := fun _ h => h
  starWild := fun _ h => h
  funcSym := fun h => h
  nary := fun o cs cs' h hh => by
    simp only [Expr.noNest] at hh ⊢; exact relL_noNest h hh
  bin := fun o a b a' b' ha hb hh => by
    simp only [Expr.noNest, Bool.and_eq_true] at hh ⊢; exact ⟨ha hh.1, hb hh.2⟩
  un := fun o a a' ha hh => by simp only [Expr.noNest] at hh ⊢; exact ha hh
  cmp := fun o a b a' b' ha hb hh => by
    simp only [Expr.noNest, Bool.and_eq_true] at hh ⊢; exact ⟨ha hh.1, hb hh.2⟩
  ite := fun c t e c' t' e' hc ht he hh => by
    simp only [Expr.noNest, Bool.and_eq_true] at hh ⊢; exact ⟨⟨hc hh.1.1, ht hh.1.2⟩, he hh.2⟩
  call := fun f as f' as' hf has hh => by
    simp only [Expr.noNest, Bool.and_eq_true] at hh ⊢; exact ⟨hf hh.1, relL_noNest has hh.2⟩
  callKw := fun f as ns vs f' as' vs' hf has hvs hh => by
    simp only [Expr.noNest, Bool.and_eq_true] at hh ⊢
    exact ⟨⟨hf hh.1.1, relL_noNest has hh.1.2⟩, relL_noNest hvs hh.2⟩
  subscript := fun a i a' i' ha hi hh => by
    simp only [Expr.noNest, Bool.and_eq_true] at hh ⊢; exact ⟨ha hh.1, hi hh.2⟩
  lookup := fun a n a' ha hh => by simp only [Expr.noNest] at hh ⊢; exact ha hh
  subst := fun c vs xs xs' hx hh => by
    simp only [Expr.noNest, Bool.and_eq_true] at hh ⊢; exact ⟨hh.1, relL_noNest hx hh.2⟩
  deriv := fun c vs c' hc hh => by simp only [Expr.noNest] at hh ⊢; exact hc hh
  slice := fun cs cs' h hh => by simp only [Expr.noNest] at hh ⊢; exact relL_noNest h hh
  tuple := fun cs cs' h hh => by simp only [Expr.noNest] at hh ⊢; exact relL_noNest h hh
  list := fun cs cs' h hh => by simp only [Expr.noNest] at hh ⊢; exact relL_noNest h hh
  cse := fun c p s r hr hh => by
    simp only [Expr.noNest, Bool.and_eq_true] at hh
    exact wrapInCse_noNest r p (hr hh.2)
  hit := fun e k w _ hw _ _ => hw
  put := fun e r T hD _ hr hT => by
    have hw : (wrapInCse r none).noNest = true := wrapInCse_noNest r none (hr hD)
    refine ⟨fun _ => hw, ?_⟩
    intro p hp
    rcases Tbl.mem_set hp with h | h
    · rw [h]; exact hw
    · exact hT p h

end PV
