import PV.Proofs.CoeffTableLit
/-
  C15, T-gen tie, part 1: the coefficient collector.

  `c15CoeffsT c15ExpTable tg e = coeffs tg e` for every expression: the table interpreter run on the
  handler bodies of `CoefficientCollector` (as read from the source) IS the hand-written `coeffs`.
-/
set_option linter.unusedSimpArgs false
set_option linter.unusedVariables false
namespace PV.Coeff
open PV

/-! ### environments -/

@[simp] theorem c15Get_set_eq (x : String) (v : C15Val) : ∀ st, c15Get x (c15Set x v st) = some v
  | [] => by simp [c15Get, c15Set]
  | (y, w) :: rest => by
    by_cases h : y = x
    · simp [c15Set, c15Get, h]
    · simp [c15Set, c15Get, h, c15Get_set_eq x v rest]

theorem c15Get_set_ne {x y : String} (v : C15Val) (h : x ≠ y) :
    ∀ st, c15Get y (c15Set x v st) = c15Get y st
  | [] => by simp [c15Get, c15Set, h]
  | (z, w) :: rest => by
    by_cases hz : z = x
    · subst hz; simp [c15Set, c15Get, h]
    · by_cases hy : z = y
      · subst hy; simp [c15Set, c15Get, hz]
      · simp [c15Set, c15Get, hz, hy, c15Get_set_ne v h rest]

/-! ### table look-ups of the literal -/

theorem exp_handler_leaf : c15ExpTable.handlerFn "map_algebraic_leaf" = some
    { name := "map_algebraic_leaf", definedIn := "CoefficientCollector.map_algebraic_leaf",
      params := [], vararg := "",
      body := [
        .ifThen (.or_ (.is_ (.selfAttr "target_names") .pyNone)
            (.in_ (.getattrOr "name" .pyNone) (.selfAttr "target_names")))
          [.ret (.mkDict .node (.lit 1))] [.ret (.mkDict (.lit 1) .node)]] } := by rfl

theorem exp_handler_const : c15ExpTable.handlerFn "map_constant" = some
    { name := "map_constant", definedIn := "CoefficientCollector.map_constant", params := [],
      vararg := "", body := [.ret (.mkDict (.lit 1) .node)] } := by rfl

theorem execL_single (ctx : C15Ctx) (s : C15S) (st : C15Env) :
    C15S.execL ctx [s] st = C15S.exec ctx s st := by
  simp only [C15S.execL]
  cases C15S.exec ctx s st <;> rfl

/-! ### arithmetic on stored coefficients -/

theorem c15Bin_ex_ex (st : C15Env) (op : C15BinOp) (a b : Expr) :
    c15Bin st op (.ex a) (.ex b) = (c15LiftCR (pyBin op.py a b)).map .ex := by
  simp only [c15Bin, c15Deref, C15Val.toExpr?]
  cases pyBin op.py a b <;> rfl

theorem c15ScalarOp_ex_ex (st : C15Env) (op : C15BinOp) (a b : Expr) :
    c15ScalarOp st op (.ex a) (.ex b) = c15LiftCR (pyBin op.py a b) := by
  simp only [c15ScalarOp, c15Bin_ex_ex]
  cases pyBin op.py a b <;> rfl

/-! ### `map_algebraic_leaf`, `map_constant` -/

def expLeafBody : List C15S := [
  .ifThen (.or_ (.is_ (.selfAttr "target_names") .pyNone)
      (.in_ (.getattrOr "name" .pyNone) (.selfAttr "target_names")))
    [.ret (.mkDict .node (.lit 1))] [.ret (.mkDict (.lit 1) .node)]]

theorem names_has (names : List String) (n : String) :
    c15ListHas (names.map C15Val.str) (.str n) = names.contains n := by
  unfold c15ListHas
  induction names with
  | nil => rfl
  | cons a as ih =>
    have h : (c15ValEq (.str a) (.str n)).getD false = (a == n) := rfl
    simp only [List.map_cons, List.any_cons, ih, h, List.contains_cons]
    rw [BEq.comm]

theorem names_has_none (names : List String) :
    c15ListHas (names.map C15Val.str) .none = false := by
  unfold c15ListHas
  induction names with
  | nil => rfl
  | cons a as ih =>
    have h : (c15ValEq (.str a) .none).getD false = false := rfl
    simp only [List.map_cons, List.any_cons, ih, h, Bool.or_self]

/-- the result of a handler as the model states it -/
def dictRes (r : CR Dict) : C15R C15Val := (c15LiftCR r).map .dict

/-- the target test of `map_algebraic_leaf` on the value `nm` of `getattr(expr, "name", None)` -/
def tgTest (tg : Option (List String)) (nm : Option String) : Bool :=
  match tg with
  | none => true
  | some names => match nm with
    | some n => names.contains n
    | none => false

theorem run_leaf (ctx : C15Ctx) (tg : Option (List String)) (e : Expr) (nm : Option String)
    (hnode : ctx.node = some e) (hself : ctx.selfAttrs = [("target_names", c15Targets tg)])
    (hname : c15Getattr ctx "name" = some nm) (htg : isTarget tg e = tgTest tg nm) :
    c15Result (C15S.execL ctx expLeafBody []) = dictRes (leafR tg e) := by
  unfold dictRes
  unfold tgTest at htg
  cases tg with
  | none =>
    simp only at htg
    simp [expLeafBody, C15S.execL, C15S.exec, C15E.eval, c15Result, C15Val.toExpr?,
      pure, Except.pure, bind, Except.bind, c15Assoc, c15Targets, hnode, hself, leafR, leafDict, htg,
      c15Cond, c15Truthy, c15Is, c15LiftCR, Except.map, one]
    cases e.hasList <;> simp [c15LiftCR, Except.map, throw, throwThe, MonadExceptOf.throw]
  | some names =>
    cases nm with
    | some n =>
      simp only at htg
      simp [expLeafBody, C15S.execL, C15S.exec, C15E.eval, c15Result, C15Val.toExpr?,
        pure, Except.pure, bind, Except.bind, c15Assoc, c15Targets, hnode, hself, leafR, leafDict, htg,
        c15Cond, c15Truthy, c15Is, c15LiftCR, Except.map, one, hname, c15In, names_has]
      by_cases hc : n ∈ names <;> cases e.hasList <;>
        simp [c15LiftCR, Except.map, throw, throwThe, MonadExceptOf.throw, c15Truthy, pure,
          Except.pure, hc, Expr.hasList]
    | none =>
      simp only at htg
      simp [expLeafBody, C15S.execL, C15S.exec, C15E.eval, c15Result, C15Val.toExpr?,
        pure, Except.pure, bind, Except.bind, c15Assoc, c15Targets, hnode, hself, leafR, leafDict, htg,
        c15Cond, c15Truthy, c15Is, c15LiftCR, Except.map, one, hname, c15In, names_has_none,
        Expr.hasList]

theorem run_const (ctx : C15Ctx) (e : Expr) (hnode : ctx.node = some e) :
    c15Result (C15S.execL ctx [.ret (.mkDict (.lit 1) .node)] []) = .ok (.dict [(one, e)]) := by
  simp [C15S.execL, C15S.exec, C15E.eval, c15Result, C15Val.toExpr?, pure, Except.pure, bind,
    Except.bind, hnode, one, Expr.hasList]

/-! ### `map_sum` -/

def expSumInner : List C15S := [
  .ifThen (.in_ (.var "var") (.var "result"))
    [.augSub "result" (.var "var") .add (.var "stride")]
    [.setSubs ["result"] [.var "var"] [.var "stride"]]]

def expSumOuter : List C15S := [
  .forIn (.tup2 (.name "var") (.name "stride")) (.meth (.var "stride_dict") "items") expSumInner]

def expSumBody : List C15S := [
  .assign (.name "stride_dicts") (.recList "children"),
  .assign (.name "result") .emptyDict,
  .forIn (.name "stride_dict") (.var "stride_dicts") expSumOuter,
  .ret (.var "result")]

theorem addTo_found (c : Expr) : ∀ (d : Dict) (k : Expr), (d.find k).isSome = true →
    c15DictAug d k (fun c' => (c15LiftCR (pyBin .add c' c))) = c15LiftCR (Dict.addTo d k c)
  | [], k, h => by simp [Dict.find] at h
  | (k', c') :: rest, k, h => by
    by_cases hk : k'.pyEq k = true
    · simp only [c15DictAug, Dict.addTo, hk, if_true]
      cases pyBin .add c' c <;> rfl
    · simp only [Dict.find, hk] at h
      simp only [c15DictAug, Dict.addTo, hk]
      have ih := addTo_found c rest k h
      simp only [Bool.false_eq_true, if_false, ih]
      cases Dict.addTo rest k c <;> rfl

theorem addTo_absent (c : Expr) : ∀ (d : Dict) (k : Expr), d.find k = none →
    Dict.addTo d k c = .ok (c15DictSet d k c)
  | [], k, _ => rfl
  | (k', c') :: rest, k, h => by
    by_cases hk : k'.pyEq k = true
    · simp [Dict.find, hk] at h
    · simp only [Dict.find, hk] at h
      have ih := addTo_absent c rest k h
      simp [Dict.addTo, c15DictSet, hk, ih, bind, Except.bind, pure, Except.pure]

theorem sum_inner_step (ctx : C15Ctx) (st : C15Env) (r : Dict) (k c : Expr)
    (hr : c15Get "result" st = some (.dict r)) (hk : c15Get "var" st = some (.ex k))
    (hc : c15Get "stride" st = some (.ex c)) :
    C15S.execL ctx expSumInner st = match Dict.addTo r k c with
      | .ok r' => .ok (c15Set "result" (.dict r') st)
      | .error e => .err (.py e) := by
  cases hf : r.find k with
  | none =>
    rw [addTo_absent c r k hf]
    simp [expSumInner, C15S.execL, C15S.exec, C15E.eval, C15E.evalL, c15Cond, c15Truthy, c15In, hr, hk,
      hc, C15Val.toExpr?, hf, pure, Except.pure, bind, Except.bind, c15OfR, c15StoreSubs]
  | some v =>
    have hs : (r.find k).isSome = true := by simp [hf]
    have := addTo_found c r k hs
    simp [expSumInner, C15S.execL, C15S.exec, C15E.eval, C15E.evalL, c15Cond, c15Truthy, c15In, hr, hk,
      hc, C15Val.toExpr?, hf, pure, Except.pure, bind, Except.bind, c15OfR, c15ScalarOp_ex_ex,
      C15BinOp.py, this]
    cases Dict.addTo r k c <;> rfl

/-- the items `D.items()` yields -/
def itemsOf (d : Dict) : List C15Val := d.map fun kc => .pair (.ex kc.1) (.ex kc.2)

/-- the step function of a `for` statement -/
def forStep (ctx : C15Ctx) (p : C15Pat) (body : List C15S) : C15Val → C15Env → C15Out :=
  fun item st' => match c15Bind p item st' with
    | some st'' => C15S.execL ctx body st''
    | Option.none => .err .stuck

theorem exec_forIn (ctx : C15Ctx) (p : C15Pat) (iter : C15E) (body : List C15S) (st : C15Env) :
    C15S.exec ctx (.forIn p iter body) st =
      match iter.eval ctx st with
      | .error err => .err err
      | .ok it => match c15Items st it with
        | Option.none => .err .stuck
        | some items => c15For (forStep ctx p body) items st := by
  simp only [C15S.exec]
  rfl

theorem sum_inner_loop (ctx : C15Ctx) : ∀ (d : Dict) (st : C15Env) (r : Dict),
    c15Get "result" st = some (.dict r) →
    match mergeInto r d with
    | .ok r' => ∃ st', c15For (forStep ctx (.tup2 (.name "var") (.name "stride")) expSumInner)
          (itemsOf d) st = .ok st' ∧ c15Get "result" st' = some (.dict r')
    | .error e => c15For (forStep ctx (.tup2 (.name "var") (.name "stride")) expSumInner)
          (itemsOf d) st = .err (.py e)
  | [], st, r, hr => by simp [mergeInto, itemsOf, c15For, pure, Except.pure, hr]
  | (k, c) :: rest, st, r, hr => by
    have hstep : forStep ctx (.tup2 (.name "var") (.name "stride")) expSumInner
        (.pair (.ex k) (.ex c)) st = match Dict.addTo r k c with
          | .ok r' => .ok (c15Set "result" (.dict r') (c15Set "stride" (.ex c) (c15Set "var" (.ex k) st)))
          | .error e => .err (.py e) := by
      simp only [forStep, c15Bind, Option.bind]
      rw [sum_inner_step ctx _ r k c]
      · rw [c15Get_set_ne _ (by decide), c15Get_set_ne _ (by decide), hr]
      · rw [c15Get_set_ne _ (by decide), c15Get_set_eq]
      · rw [c15Get_set_eq]
    simp only [mergeInto, itemsOf, List.map_cons, c15For, hstep, bind, Except.bind]
    cases ha : Dict.addTo r k c with
    | error e => simp
    | ok r1 =>
      simp only
      have ih := sum_inner_loop ctx rest
        (c15Set "result" (.dict r1) (c15Set "stride" (.ex c) (c15Set "var" (.ex k) st))) r1
        (c15Get_set_eq _ _ _)
      exact ih

theorem sum_outer_loop (ctx : C15Ctx) : ∀ (ds : List Dict) (st : C15Env) (r : Dict),
    c15Get "result" st = some (.dict r) →
    match sumDicts r ds with
    | .ok r' => ∃ st', c15For (forStep ctx (.name "stride_dict") expSumOuter)
          (ds.map .dict) st = .ok st' ∧ c15Get "result" st' = some (.dict r')
    | .error e => c15For (forStep ctx (.name "stride_dict") expSumOuter)
          (ds.map .dict) st = .err (.py e)
  | [], st, r, hr => by simp [sumDicts, c15For, pure, Except.pure, hr]
  | d :: rest, st, r, hr => by
    have hin := sum_inner_loop ctx d (c15Set "stride_dict" (.dict d) st) r
      (by rw [c15Get_set_ne _ (by decide), hr])
    have hstep : forStep ctx (.name "stride_dict") expSumOuter (.dict d) st =
        c15For (forStep ctx (.tup2 (.name "var") (.name "stride")) expSumInner) (itemsOf d)
          (c15Set "stride_dict" (.dict d) st) := by
      simp only [forStep, c15Bind, expSumOuter, execL_single, exec_forIn]
      simp [C15E.eval, c15Get_set_eq, pure, Except.pure, bind, Except.bind, c15Items, itemsOf, forStep]
    simp only [sumDicts, List.map_cons, c15For, hstep, bind, Except.bind]
    cases hm : mergeInto r d with
    | error e => simp only [hm] at hin; simp [hin]
    | ok r1 =>
      simp only [hm] at hin
      obtain ⟨st1, h1, h2⟩ := hin
      simp only [h1]
      exact sum_outer_loop ctx rest st1 r1 h2

theorem run_sum (ctx : C15Ctx) (rs : List (Unit → CR Dict))
    (hrec : ctx.recList = [("children", rs)]) :
    c15Result (C15S.execL ctx expSumBody []) =
      dictRes (do let ds ← rs.mapM (fun r => r ()); sumDicts [] ds) := by
  unfold dictRes
  cases hds : rs.mapM (fun r => r ()) with
  | error e =>
    simp [expSumBody, C15S.execL, C15S.exec, C15E.eval, hrec, c15Assoc, hds, c15LiftCR, bind,
      Except.bind, c15Result, Except.map, throw, throwThe, MonadExceptOf.throw]
  | ok ds =>
    have hloop := sum_outer_loop ctx ds
      (c15Set "result" (.dict []) (c15Set "stride_dicts" (.list (ds.map .dict)) [])) [] (c15Get_set_eq _ _ _)
    simp only [expSumBody, C15S.execL, exec_forIn]
    simp [C15S.exec, C15E.eval, hrec, c15Assoc, hds, c15LiftCR, bind, Except.bind, pure, Except.pure,
      c15Bind, c15Get_set_ne, c15Get_set_eq, C15S.execL, c15Items]
    cases hs : sumDicts [] ds with
    | error e =>
      simp only [hs] at hloop
      simp [hloop, c15Result, Except.map, throw, throwThe, MonadExceptOf.throw]
    | ok r' =>
      simp only [hs] at hloop
      obtain ⟨st1, h1, h2⟩ := hloop
      simp [h1, C15S.execL, C15S.exec, C15E.eval, h2, c15Result, Except.map, pure, Except.pure]

/-! ### `map_quotient`, `map_power` -/

/-- `len(D) > 1 or 1 not in D` -/
def expNotConst (x : String) : C15E :=
  .or_ (.cmp .gt (.call "len" [.var x]) (.lit 1)) (.notIn (.lit 1) (.var x))

theorem guard_const (ctx : C15Ctx) (st : C15Env) (x : String) (d : Dict)
    (h : c15Get x st = some (.dict d)) :
    c15Cond ctx (expNotConst x) st = .ok (constOnly d).isNone := by
  have hlen : decide ((d.length : Int) > 1) = decide (d.length > 1) := by
    by_cases hl : d.length > 1
    · have : (d.length : Int) > 1 := by omega
      simp [hl, this]
    · have : ¬ (d.length : Int) > 1 := by omega
      simp [hl, this]
  simp only [c15Cond, expNotConst, C15E.eval, C15E.evalL, h, bind, Except.bind, pure, Except.pure,
    c15Builtin, c15Cmp, hlen, c15Truthy, constOnly, c15In, C15Val.toExpr?]
  by_cases hl : d.length > 1
  · simp [hl, c15Truthy, pure, Except.pure]
  · simp [hl, c15Truthy, pure, Except.pure, one]

def expQuotBody : List C15S := [
  .importName "pymbolic.primitives" "Quotient" "Quotient",
  .assign (.name "d_num") (.recField "numerator"),
  .assign (.name "d_den") (.recField "denominator"),
  .ifThen (expNotConst "d_den") [.raise_ "RuntimeError" "nonlinear expression"] [],
  .assign (.name "val") (.index (.var "d_den") (.lit 1)),
  .mapValues "d_num" .mul (.mkNode "Quotient" [.lit 1, .var "val"]),
  .ret (.var "d_num")]

theorem mapValues_scaleRight (q : Expr) : ∀ d : Dict,
    c15MapValues (fun c => c15LiftCR (pyBin .mul c q)) d = c15LiftCR (scaleRight q d)
  | [] => rfl
  | (k, c) :: rest => by
    simp only [c15MapValues, scaleRight, mapValues_scaleRight q rest, bind, Except.bind]
    cases pyBin .mul c q with
    | error e => rfl
    | ok c' => cases scaleRight q rest <;> rfl

theorem exec_ifThen (ctx : C15Ctx) (c : C15E) (a b : List C15S) (st : C15Env) :
    C15S.exec ctx (.ifThen c a b) st = match c15Cond ctx c st with
      | .error err => .err err
      | .ok true => C15S.execL ctx a st
      | .ok false => C15S.execL ctx b st := by
  simp only [C15S.exec]
  rfl

theorem exec_assign_name (ctx : C15Ctx) (x : String) (e : C15E) (st : C15Env) :
    C15S.exec ctx (.assign (.name x) e) st = match e.eval ctx st with
      | .error err => .err err
      | .ok v => .ok (c15Set x v st) := by
  simp only [C15S.exec, c15Bind]
  cases e.eval ctx st <;> rfl

theorem exec_mapValues (ctx : C15Ctx) (d : String) (op : C15BinOp) (v : C15E) (st : C15Env)
    (dd : Dict) (hd : c15Get d st = some (.dict dd)) :
    C15S.exec ctx (.mapValues d op v) st = c15OfR (do
      let d' ← c15MapValues (fun c => do
        let vv ← v.eval ctx st
        c15ScalarOp st op (.ex c) vv) dd
      pure (c15Set d (.dict d') st)) := by
  simp only [C15S.exec, hd]

theorem run_quot (ctx : C15Ctx) (ra rb : Unit → CR Dict)
    (hrec : ctx.recField = [("numerator", ra), ("denominator", rb)]) :
    c15Result (C15S.execL ctx expQuotBody []) =
      dictRes (do
        let dn ← ra ()
        let dd ← rb ()
        match constOnly dd with
        | none => throw .nonlinear
        | some val => scaleRight (.bin .quot one val) dn) := by
  unfold dictRes
  cases hdn : ra () with
  | error e =>
    simp [expQuotBody, C15S.execL, C15S.exec, C15E.eval, hrec, c15Assoc, hdn, c15LiftCR, bind,
      Except.bind, c15Result, Except.map, throw, throwThe, MonadExceptOf.throw]
  | ok dn =>
    cases hdd : rb () with
    | error e =>
      simp [expQuotBody, C15S.execL, C15S.exec, C15E.eval, hrec, c15Assoc, hdn, hdd, c15LiftCR, bind,
        Except.bind, c15Result, Except.map, throw, throwThe, MonadExceptOf.throw, c15Bind, pure,
        Except.pure]
    | ok dd =>
      have hg := guard_const ctx
        (c15Set "d_den" (.dict dd) (c15Set "d_num" (.dict dn) [])) "d_den" dd (c15Get_set_eq _ _ _)
      have e1 : C15S.execL ctx expQuotBody [] = C15S.execL ctx (expQuotBody.drop 3)
          (c15Set "d_den" (.dict dd) (c15Set "d_num" (.dict dn) [])) := by
        simp [expQuotBody, C15S.execL, C15S.exec, C15E.eval, hrec, c15Assoc, hdn, hdd, c15LiftCR, bind,
          Except.bind, pure, Except.pure, c15Bind]
      rw [e1]
      simp only [expQuotBody, List.drop, C15S.execL, exec_ifThen, hg]
      cases hc : constOnly dd with
      | none =>
        simp [C15S.execL, C15S.exec, c15ErrOf, c15Result, Except.map, throw, throwThe,
          MonadExceptOf.throw, c15LiftCR, hc, bind, Except.bind]
      | some val =>
        have hfind : dd.find (.const (.int 1)) = some val := by
          unfold constOnly at hc
          by_cases hl : dd.length > 1
          · simp [hl] at hc
          · simpa [hl, one] using hc
        simp only [Option.isNone_some, C15S.execL, exec_assign_name]
        have e2 : (C15E.index (.var "d_den") (.lit 1)).eval ctx
            (c15Set "d_den" (.dict dd) (c15Set "d_num" (.dict dn) [])) = .ok (.ex val) := by
          simp [C15E.eval, c15Get_set_eq, bind, Except.bind, pure, Except.pure, C15Val.toExpr?, hfind]
        simp only [e2]
        rw [exec_mapValues ctx "d_num" .mul _ _ dn
          (by rw [c15Get_set_ne _ (by decide), c15Get_set_ne _ (by decide), c15Get_set_eq])]
        have hfun : (fun c => do
              let vv ← (C15E.mkNode "Quotient" [.lit 1, .var "val"]).eval ctx
                (c15Set "val" (.ex val) (c15Set "d_den" (.dict dd) (c15Set "d_num" (.dict dn) [])))
              c15ScalarOp (c15Set "val" (.ex val) (c15Set "d_den" (.dict dd) (c15Set "d_num" (.dict dn) [])))
                .mul (.ex c) vv) = fun c => c15LiftCR (pyBin .mul c (.bin .quot one val)) := by
          funext c
          simp [C15E.eval, C15E.evalL, c15Get_set_eq, c15MkNode, C15Val.toExpr?, bind, Except.bind, pure,
            Except.pure, c15ScalarOp_ex_ex, C15BinOp.py, one]
        rw [hfun, mapValues_scaleRight]
        cases hsr : scaleRight (.bin .quot one val) dn with
        | error e =>
          simp [c15LiftCR, c15Result, Except.map, c15OfR, bind, Except.bind, hc, hsr, throw, throwThe,
            MonadExceptOf.throw]
        | ok d' =>
          simp [c15LiftCR, c15Result, Except.map, c15OfR, C15S.execL, C15S.exec, C15E.eval,
            c15Get_set_eq, pure, Except.pure, bind, Except.bind, hc, hsr]

def expPowBody : List C15S := [
  .assign (.name "d_base") (.recField "base"),
  .assign (.name "d_exponent") (.recField "exponent"),
  .ifThen (expNotConst "d_exponent") [.raise_ "RuntimeError" "nonlinear expression"] [],
  .ifThen (expNotConst "d_base") [.raise_ "RuntimeError" "nonlinear expression"] [],
  .ret (.mkDict (.lit 1) .node)]

theorem run_pow (ctx : C15Ctx) (e : Expr) (ra rb : Unit → CR Dict) (hnode : ctx.node = some e)
    (hrec : ctx.recField = [("base", ra), ("exponent", rb)]) :
    c15Result (C15S.execL ctx expPowBody []) =
      dictRes (do
        let db ← ra ()
        let de ← rb ()
        match constOnly de with
        | none => throw .nonlinear
        | some _ =>
          match constOnly db with
          | none => throw .nonlinear
          | some _ => pure [(one, e)]) := by
  unfold dictRes
  cases hdb : ra () with
  | error err =>
    simp [expPowBody, C15S.execL, C15S.exec, C15E.eval, hrec, c15Assoc, hdb, c15LiftCR, bind,
      Except.bind, c15Result, Except.map, throw, throwThe, MonadExceptOf.throw]
  | ok db =>
    cases hde : rb () with
    | error err =>
      simp [expPowBody, C15S.execL, C15S.exec, C15E.eval, hrec, c15Assoc, hdb, hde, c15LiftCR, bind,
        Except.bind, c15Result, Except.map, throw, throwThe, MonadExceptOf.throw, c15Bind, pure,
        Except.pure]
    | ok de =>
      have hg1 := guard_const ctx
        (c15Set "d_exponent" (.dict de) (c15Set "d_base" (.dict db) [])) "d_exponent" de
        (c15Get_set_eq _ _ _)
      have hg2 := guard_const ctx
        (c15Set "d_exponent" (.dict de) (c15Set "d_base" (.dict db) [])) "d_base" db
        (by rw [c15Get_set_ne _ (by decide), c15Get_set_eq])
      have e1 : C15S.execL ctx expPowBody [] = C15S.execL ctx (expPowBody.drop 2)
          (c15Set "d_exponent" (.dict de) (c15Set "d_base" (.dict db) [])) := by
        simp [expPowBody, C15S.execL, C15S.exec, C15E.eval, hrec, c15Assoc, hdb, hde, c15LiftCR, bind,
          Except.bind, pure, Except.pure, c15Bind]
      rw [e1]
      simp only [expPowBody, List.drop, C15S.execL, exec_ifThen, hg1, hg2]
      cases hc1 : constOnly de with
      | none =>
        simp [C15S.execL, C15S.exec, c15ErrOf, c15Result, Except.map, throw, throwThe,
          MonadExceptOf.throw, c15LiftCR, hc1, bind, Except.bind]
      | some v1 =>
        cases hc2 : constOnly db with
        | none =>
          simp [C15S.execL, exec_ifThen, hg2, C15S.exec, c15ErrOf, c15Result, Except.map, throw, throwThe,
            MonadExceptOf.throw, c15LiftCR, hc1, hc2, bind, Except.bind]
        | some v2 =>
          simp [C15S.execL, exec_ifThen, hg2, C15S.exec, C15E.eval, c15Result, Except.map, c15LiftCR, hc1,
            hc2, bind, Except.bind, pure, Except.pure, hnode, C15Val.toExpr?, Expr.hasList, one]

/-! ### no two keys of a returned dictionary are `==` -/

/-- no stored key is `==` to a later one (what a Python `dict` guarantees) -/
def DictOK (d : Dict) : Prop := d.Pairwise fun a b => a.1.pyEq b.1 = false

theorem dictOK_keys {d d' : Dict} (h : d'.map (·.1) = d.map (·.1)) (hd : DictOK d) : DictOK d' := by
  unfold DictOK at *
  have h1 : (d.map (·.1)).Pairwise (fun a b => a.pyEq b = false) := List.pairwise_map.2 hd
  rw [← h] at h1
  exact List.pairwise_map.1 h1

theorem c15_scaleLeft_keys (o : Expr) : ∀ (d d' : Dict), scaleLeft o d = .ok d' → d'.map (·.1) = d.map (·.1)
  | [], d', h => by simp [scaleLeft, pure, Except.pure] at h; subst h; rfl
  | (k, c) :: rest, d', h => by
    simp only [scaleLeft, bind, Except.bind] at h
    cases hm : pyBin .mul o c with
    | error e => simp [hm] at h
    | ok c' =>
      cases hr : scaleLeft o rest with
      | error e => simp [hm, hr] at h
      | ok r =>
        simp [hm, hr, pure, Except.pure] at h
        subst h
        simp [c15_scaleLeft_keys o rest r hr]

theorem c15_scaleRight_keys (q : Expr) : ∀ (d d' : Dict), scaleRight q d = .ok d' → d'.map (·.1) = d.map (·.1)
  | [], d', h => by simp [scaleRight, pure, Except.pure] at h; subst h; rfl
  | (k, c) :: rest, d', h => by
    simp only [scaleRight, bind, Except.bind] at h
    cases hm : pyBin .mul c q with
    | error e => simp [hm] at h
    | ok c' =>
      cases hr : scaleRight q rest with
      | error e => simp [hm, hr] at h
      | ok r =>
        simp [hm, hr, pure, Except.pure] at h
        subst h
        simp [c15_scaleRight_keys q rest r hr]

theorem addTo_ok (k c : Expr) : ∀ (d d' : Dict), DictOK d → Dict.addTo d k c = .ok d' →
    DictOK d' ∧ (∀ x : Expr, (∀ a ∈ d, x.pyEq a.1 = false) → x.pyEq k = false → ∀ a ∈ d', x.pyEq a.1 = false)
  | [], d', _, h => by
    simp [Dict.addTo, pure, Except.pure] at h
    subst h
    exact ⟨List.pairwise_singleton _ _, by intro x _ hx a ha; simp at ha; subst ha; exact hx⟩
  | (k', c') :: rest, d', hd, h => by
    have hd' := List.pairwise_cons.1 hd
    by_cases hk : k'.pyEq k = true
    · simp only [Dict.addTo, hk, if_true, bind, Except.bind] at h
      cases hs : pyBin .add c' c with
      | error e => simp [hs] at h
      | ok s' =>
        simp [hs, pure, Except.pure] at h
        subst h
        refine ⟨List.pairwise_cons.2 ⟨fun a ha => hd'.1 a ha, hd'.2⟩, ?_⟩
        intro x hx _ a ha
        simp only [List.mem_cons] at ha
        rcases ha with rfl | ha
        · exact hx (k', c') (by simp)
        · exact hx a (by simp [ha])
    · simp only [Dict.addTo, hk, bind, Except.bind] at h
      cases hr : Dict.addTo rest k c with
      | error e => simp [hr] at h
      | ok r =>
        simp [hr, pure, Except.pure] at h
        subst h
        obtain ⟨ih1, ih2⟩ := addTo_ok k c rest r hd'.2 hr
        refine ⟨List.pairwise_cons.2 ⟨?_, ih1⟩, ?_⟩
        · exact ih2 k' (fun a ha => hd'.1 a ha) (by simpa using hk)
        · intro x hx hxk a ha
          simp only [List.mem_cons] at ha
          rcases ha with rfl | ha
          · exact hx (k', c') (by simp)
          · exact ih2 x (fun b hb => hx b (by simp [hb])) hxk a ha

theorem mergeInto_ok : ∀ (d r r' : Dict), DictOK r → mergeInto r d = .ok r' → DictOK r'
  | [], r, r', hr, h => by simp [mergeInto, pure, Except.pure] at h; subst h; exact hr
  | (k, c) :: rest, r, r', hr, h => by
    simp only [mergeInto, bind, Except.bind] at h
    cases ha : Dict.addTo r k c with
    | error e => simp [ha] at h
    | ok r1 =>
      simp only [ha] at h
      exact mergeInto_ok rest r1 r' (addTo_ok k c r r1 hr ha).1 h

theorem sumDicts_ok : ∀ (ds : List Dict) (r r' : Dict), DictOK r → sumDicts r ds = .ok r' → DictOK r'
  | [], r, r', hr, h => by simp [sumDicts, pure, Except.pure] at h; subst h; exact hr
  | d :: rest, r, r', hr, h => by
    simp only [sumDicts, bind, Except.bind] at h
    cases hm : mergeInto r d with
    | error e => simp [hm] at h
    | ok r1 =>
      simp only [hm] at h
      exact sumDicts_ok rest r1 r' (mergeInto_ok d r r1 hr hm) h

theorem c15_splitVars_mem : ∀ (ds : List Dict) (d : Dict) (os : List Dict),
    splitVars ds = .ok (some d, os) → d ∈ ds
  | [], d, os, h => by simp [splitVars, pure, Except.pure] at h
  | d0 :: rest, d, os, h => by
    simp only [splitVars, bind, Except.bind] at h
    cases hr : splitVars rest with
    | error e => simp [hr] at h
    | ok vo =>
      obtain ⟨v, os'⟩ := vo
      simp only [hr] at h
      by_cases hv : hasVarKey d0 = true
      · cases v with
        | some d1 => simp [hv, throw, throwThe, MonadExceptOf.throw] at h
        | none =>
          simp [hv, pure, Except.pure] at h
          simp [h.1]
      · cases v with
        | some d1 =>
          simp [hv, pure, Except.pure] at h
          have := c15_splitVars_mem rest d1 os' hr
          simp [← h.1, this]
        | none => simp [hv, pure, Except.pure] at h

theorem c15_leafR_ok (tg : Option (List String)) (e : Expr) (d : Dict) (h : leafR tg e = .ok d) :
    DictOK d := by
  unfold leafR leafDict at h
  by_cases h1 : (isTarget tg e && e.hasList) = true
  · simp [h1, throw, throwThe, MonadExceptOf.throw] at h
  · simp only [h1, pure, Except.pure] at h
    by_cases h2 : isTarget tg e = true
    · simp [h2] at h; subst h; exact List.pairwise_singleton _ _
    · simp [h2] at h; subst h; exact List.pairwise_singleton _ _

theorem dictOK_single (k c : Expr) : DictOK [(k, c)] := List.pairwise_singleton _ _

mutual
theorem coeffs_ok (tg : Option (List String)) : ∀ (e : Expr) (d : Dict), coeffs tg e = .ok d → DictOK d
  | .const (.int n), d, h => by simp [coeffs, pure, Except.pure] at h; subst h; exact dictOK_single _ _
  | .const (.bool b), d, h => by simp [coeffs, pure, Except.pure] at h; subst h; exact dictOK_single _ _
  | .const (.flt r n dd), d, h => by
    simp [coeffs, pure, Except.pure] at h; subst h; exact dictOK_single _ _
  | .const (.str _), d, h => by simp [coeffs, throw, throwThe, MonadExceptOf.throw] at h
  | .const .none, d, h => by simp [coeffs, throw, throwThe, MonadExceptOf.throw] at h
  | .tuple _, d, h => by simp [coeffs, throw, throwThe, MonadExceptOf.throw] at h
  | .list _, d, h => by simp [coeffs, throw, throwThe, MonadExceptOf.throw] at h
  | .nary .sum cs, d, h => by
    simp only [coeffs, bind, Except.bind] at h
    cases hds : coeffsL tg cs with
    | error e => simp [hds] at h
    | ok ds =>
      simp only [hds] at h
      exact sumDicts_ok ds [] d List.Pairwise.nil h
  | .nary .prod cs, d, h => by
    simp only [coeffs, bind, Except.bind] at h
    cases hds : coeffsL tg cs with
    | error e => simp [hds] at h
    | ok ds =>
      simp only [hds] at h
      cases hsp : splitVars ds with
      | error e => simp [hsp] at h
      | ok vo =>
        obtain ⟨v, os⟩ := vo
        simp only [hsp] at h
        cases ho : otherCoeffs one os with
        | error e => simp [ho] at h
        | ok other =>
          simp only [ho] at h
          cases v with
          | none => simp [pure, Except.pure] at h; subst h; exact dictOK_single _ _
          | some dv =>
            simp only at h
            have hmem := c15_splitVars_mem ds dv os hsp
            exact dictOK_keys (c15_scaleLeft_keys other dv d h) (coeffsL_ok tg cs ds hds dv hmem)
  | .bin .quot a b, d, h => by
    simp only [coeffs, bind, Except.bind] at h
    cases hdn : coeffs tg a with
    | error e => simp [hdn] at h
    | ok dn =>
      cases hdd : coeffs tg b with
      | error e => simp [hdn, hdd] at h
      | ok dd =>
        simp only [hdn, hdd] at h
        cases hc : constOnly dd with
        | none => simp [hc, throw, throwThe, MonadExceptOf.throw] at h
        | some val =>
          simp only [hc] at h
          exact dictOK_keys (c15_scaleRight_keys _ dn d h) (coeffs_ok tg a dn hdn)
  | .bin .pow a b, d, h => by
    simp only [coeffs, bind, Except.bind] at h
    cases hdn : coeffs tg a with
    | error e => simp [hdn] at h
    | ok dn =>
      cases hdd : coeffs tg b with
      | error e => simp [hdn, hdd] at h
      | ok dd =>
        simp only [hdn, hdd] at h
        cases hc : constOnly dd with
        | none => simp [hc, throw, throwThe, MonadExceptOf.throw] at h
        | some val =>
          cases hc2 : constOnly dn with
          | none => simp [hc, hc2, throw, throwThe, MonadExceptOf.throw] at h
          | some v2 => simp [hc, hc2, pure, Except.pure] at h; subst h; exact dictOK_single _ _
  | .var n, d, h => c15_leafR_ok tg _ d (by simpa [coeffs] using h)
  | .subscript a i, d, h => c15_leafR_ok tg _ d (by simpa [coeffs] using h)
  | .call f as, d, h => c15_leafR_ok tg _ d (by simpa [coeffs] using h)
  | .callKw f as ns vs, d, h => c15_leafR_ok tg _ d (by simpa [coeffs] using h)
  | .lookup a n, d, h => c15_leafR_ok tg _ d (by simpa [coeffs] using h)
  | .nan, d, h => c15_leafR_ok tg _ d (by simpa [coeffs] using h)
  | .wildcard, d, h => c15_leafR_ok tg _ d (by simpa [coeffs] using h)
  | .dotWild n, d, h => c15_leafR_ok tg _ d (by simpa [coeffs] using h)
  | .starWild n, d, h => c15_leafR_ok tg _ d (by simpa [coeffs] using h)
  | .funcSym, d, h => c15_leafR_ok tg _ d (by simpa [coeffs] using h)
  | .nary .bor _, d, h | .nary .bxor _, d, h | .nary .band _, d, h | .nary .lor _, d, h
  | .nary .land _, d, h | .nary .min _, d, h | .nary .max _, d, h => by
    simp [coeffs, throw, throwThe, MonadExceptOf.throw] at h
  | .bin .floordiv _ _, d, h | .bin .rem _ _, d, h | .bin .lshift _ _, d, h
  | .bin .rshift _ _, d, h => by simp [coeffs, throw, throwThe, MonadExceptOf.throw] at h
  | .un _ _, d, h | .cmp _ _ _, d, h | .ite _ _ _, d, h | .cse _ _ _, d, h | .subst _ _ _, d, h
  | .deriv _ _, d, h | .slice _, d, h => by simp [coeffs, throw, throwThe, MonadExceptOf.throw] at h
theorem coeffsL_ok (tg : Option (List String)) : ∀ (cs : List Expr) (ds : List Dict),
    coeffsL tg cs = .ok ds → ∀ d ∈ ds, DictOK d
  | [], ds, h => by simp [coeffsL, pure, Except.pure] at h; subst h; simp
  | c :: cs, ds, h => by
    simp only [coeffsL, bind, Except.bind] at h
    cases hd : coeffs tg c with
    | error e => simp [hd] at h
    | ok d0 =>
      cases hr : coeffsL tg cs with
      | error e => simp [hd, hr] at h
      | ok r =>
        simp [hd, hr, pure, Except.pure] at h
        subst h
        intro d hmem
        simp only [List.mem_cons] at hmem
        rcases hmem with rfl | hmem
        · exact coeffs_ok tg c d hd
        · exact coeffsL_ok tg cs r hr d hmem
end

end PV.Coeff
