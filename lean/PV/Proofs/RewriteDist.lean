import PV.Proofs.RewriteOps
import Mathlib.Tactic.FieldSimp
set_option linter.unusedSimpArgs false
/-
  C11, part 7: `DistributeMapper`.  One `dist` step (the inner function of `map_product`)
  preserves the value whenever `collect` does; `map_quotient`, `map_power` (as repaired) and the
  whole mapper follow.
-/
namespace PV

universe u
variable {K : Type u} [Field K] [DecidableEq K]

/-- `f` preserves values -/
def Preserves (ρ : String → K) (f : Expr → RwR) : Prop :=
  ∀ e e' v, f e = .ok e' → evalK ρ e = some v → evalK ρ e' = some v

section
variable (ρ : String → K)

/-- the summands built by one `dist` step: `lead * dist(sc * rest')` for every operand `sc` -/
theorem dist_terms_value {f : Expr → RwR} {L R : K}
    (hf : ∀ sc t s, f sc = .ok t → evalK ρ sc = some s → evalK ρ t = some (L * (s * R))) :
    ∀ {scs terms : List Expr} {S : K}, List.Forall₂ (fun sc t => f sc = .ok t) scs terms →
      evalKL ρ false scs = some S → evalKL ρ false terms = some (L * (S * R))
  | _, _, _, .nil, h => by
      simp only [evalKL, unitK_false, Option.some.injEq] at h ⊢; subst h; ring
  | _, _, _, .cons hc hcs, h => by
      obtain ⟨a, b, ha, hb, rfl⟩ := evalKL_cons ρ h
      rw [evalKL_cons_mk ρ (hf _ _ _ hc ha) (dist_terms_value hf hcs hb)]
      simp only [opK_false, Option.some.injEq]; ring

/-- **One `dist` step preserves the value** (for any value-preserving `collect`). -/
theorem distLoop_value {collect : Expr → RwR} (hcol : Preserves ρ collect) :
    ∀ fuel, Preserves ρ (distLoop collect fuel)
  | 0, _, _, _, h, _ => by simp [distLoop, throw, throwThe, MonadExceptOf.throw] at h
  | fuel + 1, e, e', v, h, hv => by
      have ih := distLoop_value hcol fuel
      cases e with
      | nary o cs =>
        cases o with
        | prod =>
          simp only [distLoop] at h
          rw [evalK_prod] at hv
          have hsplit := List.takeWhile_append_dropWhile (p := fun c => !isSum c) (l := cs)
          split at h
          · exact flatProd_value ρ h hv
          · rename_i scs rest hdrop
            rw [hdrop] at hsplit
            rw [← hsplit] at hv
            obtain ⟨L, SR, hL, hSR, rfl⟩ := evalKL_append ρ hv
            obtain ⟨S, R, hS, hR, rfl⟩ := evalKL_cons ρ hSR
            rw [evalK_sum] at hS
            obtain ⟨rest', hrest, h⟩ := bind_ok h
            have hrest' : evalK ρ rest' = some R := by
              split at hrest
              · rename_i hemp
                simp only [pure, Except.pure] at hrest
                injection hrest with hrest; subst hrest
                simp only [List.isEmpty_iff] at hemp; subst hemp
                simp only [evalKL, Option.some.injEq] at hR; subst hR
                exact evalK_one ρ
              · exact ih _ _ _ hrest (by rw [evalK_prod]; exact hR)
            obtain ⟨terms, hterms, h⟩ := bind_ok h
            have := dist_terms_value ρ (L := L) (R := R) (f := fun sc => do
                let lead ← flatProd (cs.takeWhile (fun c => !isSum c))
                let p ← pyMul sc rest'
                let d ← distLoop collect fuel p
                pyMul lead d) (by
              intro sc t s hsc hs
              obtain ⟨lead, hlead, hsc⟩ := bind_ok hsc
              have hlead' := flatProd_value ρ hlead hL
              obtain ⟨p, hp, hsc⟩ := bind_ok hsc
              obtain ⟨d, hd, hsc⟩ := bind_ok hsc
              exact pyMul_value ρ hsc hlead' (ih _ _ _ hd (pyMul_value ρ hp hs hrest')))
              (mapM_ok hterms) hS
            simp only [opK_true]
            exact hcol _ _ _ h (flattenedSum_value ρ this)
          · simp [throw, throwThe, MonadExceptOf.throw] at h
        | _ =>
          simp only [distLoop, pure, Except.pure] at h
          injection h with h; subst h; exact hv
      | _ =>
        simp only [distLoop, pure, Except.pure] at h
        injection h with h; subst h; exact hv

/-! ### `collect` = constant folding followed by term collection -/

theorem distCollect_value {cfg : DistCfg} (fuel : Nat)
    (hcoll : ∀ params, cfg.collector = some params → Preserves ρ (collectM params fuel)) :
    Preserves ρ (distCollect cfg fuel) := by
  intro e e' v h hv
  unfold distCollect at h
  obtain ⟨f, hf, h⟩ := bind_ok h
  have hf' := foldM_value ρ true fuel _ _ _ hf hv
  split at h
  · rename_i params hp
    exact hcoll params hp _ _ _ h hf'
  · simp only [pure, Except.pure] at h
    injection h with h; subst h; exact hf'

/-! ### `map_power` -/

theorem evalKL_replicate {e : Expr} {x : K} (he : evalK ρ e = some x) : ∀ k : Nat,
    evalKL ρ true (List.replicate k e) = some (x ^ k)
  | 0 => by simp [evalKL]
  | k + 1 => by
      rw [List.replicate_succ, evalKL_cons_mk ρ he (evalKL_replicate he k)]
      simp only [opK_true, Option.some.injEq]; ring

/-- `flattened_product([child ** n for child in newbase.children])` -/
theorem pow_factors_value {n : Int} :
    ∀ {ncs ps : List Expr} {x : K},
      List.Forall₂ (fun c t => pyPow c (.const (.int n)) = .ok t) ncs ps →
      evalKL ρ true ncs = some x → ¬ (n < 0 ∧ x = 0) → evalKL ρ true ps = some (x ^ n)
  | _, _, _, .nil, h, _ => by
      simp only [evalKL, unitK_true, Option.some.injEq] at h ⊢; subst h; simp
  | _, _, _, .cons hc hcs, h, hdef => by
      obtain ⟨a, b, ha, hb, rfl⟩ := evalKL_cons ρ h
      simp only [opK_true] at hdef ⊢
      have ha' : ¬ (n < 0 ∧ a = 0) := fun hh => hdef ⟨hh.1, by rw [hh.2, zero_mul]⟩
      have hb' : ¬ (n < 0 ∧ b = 0) := fun hh => hdef ⟨hh.1, by rw [hh.2, mul_zero]⟩
      rw [evalKL_cons_mk ρ (pyPow_value ρ hc ha ha') (pow_factors_value hcs hb hb')]
      simp only [opK_true, Option.some.injEq, mul_zpow]

theorem distM_const (cfg : DistCfg) : ∀ (fuel : Nat) (c : Const) (r : Expr),
    distM cfg fuel (.const c) = .ok r → r = .const c
  | 0, _, _, h => by simp [distM, throw, throwThe, MonadExceptOf.throw] at h
  | fuel + 1, c, r, h => by
      cases c <;> simp only [distM, idMap, pure, Except.pure, throw, throwThe,
        MonadExceptOf.throw] at h <;> first | contradiction | (injection h with h; exact h.symm)

theorem nary_forall₂_value {f : Expr → RwR} (hf : Preserves ρ f) {o : NaryOp}
    {xs xs' : List Expr} {v : K} (h : List.Forall₂ (fun c c' => f c = .ok c') xs xs')
    (hv : evalK ρ (.nary o xs) = some v) : evalK ρ (.nary o xs') = some v := by
  cases o <;> simp only [evalK] at hv ⊢ <;> try contradiction
  · exact evalKL_forall₂ ρ false hf h hv
  · exact evalKL_forall₂ ρ true hf h hv

/-- **`expand` / `distribute` preserve the value**, given that the term collector in use does
(`collector = none`, i.e. `distribute(e, commutative=False)`: no assumption at all). -/
theorem distM_value_of_collect (cfg : DistCfg)
    (hcoll : ∀ fuel params, cfg.collector = some params → Preserves ρ (collectM params fuel)) :
    ∀ fuel, Preserves ρ (distM cfg fuel)
  | 0, _, _, _, h, _ => by simp [distM, throw, throwThe, MonadExceptOf.throw] at h
  | fuel + 1, e, e', v, h, hv => by
      have ih := distM_value_of_collect cfg hcoll fuel
      have hc := distM_const cfg fuel
      have hcol := distCollect_value ρ (cfg := cfg) fuel (hcoll fuel)
      cases e with
      | nary o cs =>
        cases o with
        | sum =>
          simp only [distM] at h
          obtain ⟨cs', hcs, h⟩ := bind_ok h
          exact hcol _ _ _ h (nary_forall₂_value ρ ih (mapM_ok hcs) hv)
        | prod =>
          simp only [distM] at h
          obtain ⟨cs', hcs, h⟩ := bind_ok h
          exact distLoop_value ρ hcol fuel _ _ _ h (nary_forall₂_value ρ ih (mapM_ok hcs) hv)
        | _ => simp [evalK] at hv
      | bin o a b =>
        cases o with
        | quot =>
          simp only [distM] at h
          simp only [evalK] at hv
          obtain ⟨x, y, hx, hy, hy0, rfl⟩ := divK_some hv
          split at h
          · simp [throw, throwThe, MonadExceptOf.throw] at h
          · split at h
            · simp only [pure, Except.pure] at h
              injection h with h; subst h
              simp only [evalK, hx, hy]; exact divK_mk hy0
            · obtain ⟨den', hden, h⟩ := bind_ok h
              obtain ⟨num', hnum, h⟩ := bind_ok h
              have h1 : evalK ρ (.bin .quot one den') = some (1 / y) := by
                simp only [evalK, evalK_one ρ, ih _ _ _ hden hy]
                exact divK_mk hy0
              have := flatProd_value ρ h
                (evalKL_cons_mk ρ h1 (evalKL_singleton ρ (ih _ _ _ hnum hx)))
              rw [this]; simp only [opK_true, Option.some.injEq]
              field_simp
        | pow =>
          simp only [evalK] at hv
          obtain ⟨x, n, hx, hn, hdef, rfl⟩ := powK_some hv
          have := expInt?_some hn; subst this
          simp only [distM] at h
          obtain ⟨newbase, hnb, h⟩ := bind_ok h
          have hx' := ih _ _ _ hnb hx
          split at h
          · -- a product base that stays a product: the exponent goes to every factor
            rename_i ncs _
            obtain ⟨ps, hps, h⟩ := bind_ok h
            obtain ⟨fp, hfp, h⟩ := bind_ok h
            rw [evalK_prod] at hx'
            exact ih _ _ _ h (flatProd_value ρ hfp (pow_factors_value ρ (mapM_ok hps) hx' hdef))
          · split at h
            · rename_i hcond
              simp only [Bool.and_eq_true] at hcond
              have hpos : 0 < n := by
                have := hcond.1
                simp only [positiveIntConst, decide_eq_true_eq] at this; exact this
              obtain ⟨fp, hfp, h⟩ := bind_ok h
              have hfp' : evalK ρ fp = some (x ^ n) := by
                have := flatProd_value ρ hfp (evalKL_replicate ρ hx' n.toNat)
                rw [this]
                have hn' : n = (n.toNat : Int) := (Int.toNat_of_nonneg (by omega)).symm
                conv_rhs => rw [hn']
                rw [zpow_natCast]
              split at h
              · obtain ⟨xs', hxs, h⟩ := bind_ok h
                exact distLoop_value ρ hcol fuel _ _ _ h
                  (nary_forall₂_value ρ ih (mapM_ok hxs) hfp')
              · simp [throw, throwThe, MonadExceptOf.throw] at h
            · obtain ⟨ex', hex, h⟩ := bind_ok h
              have := hc _ _ hex; subst this
              simp only [pure, Except.pure] at h
              injection h with h; subst h
              rw [evalK_pow_lit, hx']; simp only [powK, hdef, if_false]
        | _ => simp [evalK] at hv
      | _ =>
        simp only [distM] at h
        exact idMap_value ρ hc ih h hv

/-- `distribute(e, commutative=False)` preserves the value — no assumption. -/
theorem distM_value_nocomm : ∀ fuel, Preserves ρ (distM { collector := none } fuel) :=
  distM_value_of_collect ρ { collector := none } (fun _ _ h => by cases h)

end

end PV
