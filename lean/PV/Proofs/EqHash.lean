import PV.Proofs.Pickle
import PV.Model.EqHash
/-
  C01 — lemmas about the table-driven generated `__eq__` / `__hash__` (`eqGen`, `hashGen`,
  lean/PV/Model/EqHash.lean) and about histories (`step1`, `run1`).
-/
namespace PV.EqHash
open PV PV.Pickle

/-! ### `pick` -/

theorem pick_self_aux {α : Type} : ∀ (names : List String) (vals : List α) (pre : List (String × α)),
    names.Nodup → (∀ n ∈ names, pre.lookup n = none) → names.length = vals.length →
    names.filterMap (fun n => (pre ++ names.zip vals).lookup n) = vals
  | [], [], _, _, _, _ => rfl
  | [], _ :: _, _, _, _, h => by simp at h
  | _ :: _, [], _, _, _, h => by simp at h
  | n :: ns, v :: vs, pre, hn, hp, hl => by
    simp only [List.nodup_cons] at hn
    have h1 : (pre ++ (n :: ns).zip (v :: vs)).lookup n = some v := by
      simp [List.lookup_append, hp n List.mem_cons_self]
    simp only [List.filterMap_cons, h1]
    congr 1
    have := pick_self_aux ns vs (pre ++ [(n, v)]) hn.2 (by
      intro m hm
      have hne : (m == n) = false := by
        simp only [beq_eq_false_iff_ne, ne_eq]
        rintro rfl; exact hn.1 hm
      simp [List.lookup_append, hp m (List.mem_cons_of_mem _ hm), List.lookup_cons, hne])
      (by simpa using hl)
    simpa [List.append_assoc] using this

/-- listing all field names in order picks all values -/
theorem pick_self {α : Type} (names : List String) (vals : List α) (hn : names.Nodup)
    (hl : names.length = vals.length) : pick names vals names = vals := by
  have := pick_self_aux names vals [] hn (by simp) hl
  simpa [pick] using this

/-! ### the table -/

theorem find?_spec {t : ClassTable} {c : String} {i : ClassInfo} (h : t.find? c = some i) :
    i ∈ t ∧ i.name = c := by
  unfold ClassTable.find? at h
  exact ⟨List.mem_of_find?_eq_some h, by simpa using List.find?_some h⟩

/-- in a table satisfying `Ok`, the record supplying the generated methods on the dataclass path
is a decorated class whose generated methods mention exactly its fields -/
theorem template_dataclass {t : ClassTable} (ok : t.Ok = true) {c : String} {tpl : ClassInfo}
    (h : t.template? c = some (tpl, false)) : tpl.kind = .dataclass ∧ tpl.okDataclass = true := by
  simp only [ClassTable.Ok, Bool.and_eq_true, List.all_eq_true] at ok
  unfold ClassTable.template? at h
  split at h
  · simp at h
  · rename_i i hi
    have hi' := ok.2 i (find?_spec hi).1
    split at h
    · rename_i hk
      simp only [Option.some.injEq, Prod.mk.injEq, and_true] at h
      subst h
      simp only [ClassInfo.ok, hk] at hi'
      exact ⟨hk, hi'⟩
    · rename_i hk
      simp only [ClassInfo.ok, hk] at hi'
      split at h
      · rename_i b hb
        simp only [Option.some.injEq, Prod.mk.injEq] at h
        obtain ⟨rfl, _⟩ := h
        simp only [hb, Bool.and_eq_true, beq_iff_eq] at hi'
        have hb' := ok.2 b (find?_spec hb).1
        simp only [ClassInfo.ok, hi'.2] at hb'
        exact ⟨hi'.2, hb'⟩
      · simp at h
    · simp at h

theorem okDataclass_spec {i : ClassInfo} (h : i.okDataclass = true) :
    i.fields.Nodup ∧ i.eqFields = i.fields ∧ i.eqClassChecked = true ∧ i.hashFields = i.fields ∧
      i.frozen = true := by
  simp only [ClassInfo.okDataclass, Bool.and_eq_true, decide_eq_true_eq, beq_iff_eq] at h
  obtain ⟨⟨⟨⟨⟨⟨⟨⟨⟨⟨⟨⟨⟨⟨_, h1⟩, h2⟩, h3⟩, h4⟩, _⟩, _⟩, _⟩, _⟩, _⟩, h5⟩, _⟩, _⟩, _⟩, _⟩ := h
  exact ⟨h1, h2, h3, h4, h5⟩

/-! ### the generated `__hash__` is the structural hash -/

theorem hashL_length (P : HashParams) : ∀ xs : List Obj, (Obj.hashL P xs).length = xs.length
  | [] => rfl
  | _ :: xs => by simp [Obj.hashL, hashL_length P xs]

mutual
theorem hashGen_eq_hash {t : ClassTable} (ok : t.Ok = true) (P : HashParams) :
    ∀ o : Obj, conforms t o = true → hashGen t P o = o.hash P
  | .atom _, _ => rfl
  | .tuple xs, h => by
      simp only [conforms] at h
      simp only [hashGen, Obj.hash, hashGenL_eq_hashL ok P xs h]
  | .list xs, h => by
      simp only [conforms] at h
      simp only [hashGen, Obj.hash, hashGenL_eq_hashL ok P xs h]
  | .dict _ vs, h => by
      simp only [conforms] at h
      simp only [hashGen, Obj.hash, hashGenL_eq_hashL ok P vs h]
  | .inst c k fs v, h => by
      simp only [conforms, Bool.and_eq_true] at h
      have ih := hashGenL_eq_hashL ok P fs h.2
      simp only [hashGen, Obj.hash, ih]
      cases ht : t.template? c with
      | none => simp [ht] at h
      | some p =>
        obtain ⟨tpl, lp⟩ := p
        have h1 := h.1
        simp only [ht] at h1
        cases lp with
        | false =>
          simp only [Bool.false_eq_true, if_false, Bool.and_eq_true, beq_iff_eq] at h1 ⊢
          obtain ⟨hk, hl⟩ := h1
          obtain ⟨hn, _, _, hh, _⟩ := okDataclass_spec (template_dataclass ok ht).2
          rw [hh, pick_self _ _ hn (by rw [hashL_length]; exact hl.symm), hk]
          rfl
        | true =>
          simp only [if_true, bne_iff_ne, ne_eq] at h1 ⊢
          cases k with
          | dataclass => exact absurd rfl h1
          | legacySub => rfl
          | legacy => rfl
theorem hashGenL_eq_hashL {t : ClassTable} (ok : t.Ok = true) (P : HashParams) :
    ∀ xs : List Obj, conformsL t xs = true → hashGenL t P xs = Obj.hashL P xs
  | [], _ => rfl
  | x :: xs, h => by
      simp only [conformsL, Bool.and_eq_true] at h
      simp only [hashGenL, Obj.hashL, hashGen_eq_hash ok P x h.1, hashGenL_eq_hashL ok P xs h.2]
end

/-! ### the generated `__eq__` is "same class and pairwise `==` fields" -/

theorem conformsL_iff {t : ClassTable} : ∀ {xs : List Obj},
    conformsL t xs = true ↔ ∀ x ∈ xs, conforms t x = true
  | [] => by simp [conformsL]
  | y :: ys => by
    simp only [conformsL, Bool.and_eq_true, List.forall_mem_cons, conformsL_iff (xs := ys)]

theorem eqGenL_length (t : ClassTable) (P : HashParams) : ∀ (as bs : List Obj),
    as.length = bs.length → (eqGenL t P as bs).length = as.length
  | [], [], _ => rfl
  | [], _ :: _, h => by simp at h
  | _ :: _, [], h => by simp at h
  | _ :: as, _ :: bs, h => by
    simp only [eqGenL, List.length_cons, eqGenL_length t P as bs (by simpa using h)]

theorem eqGenL_spec (t : ClassTable) (P : HashParams) : ∀ (as bs : List Obj),
    (∀ a ∈ as, ∀ b ∈ bs, eqGen t P a b = a.pyEq b) →
    (as.length == bs.length && (eqGenL t P as bs).all id) = Obj.pyEqL as bs
  | [], [], _ => by simp [eqGenL, Obj.pyEqL]
  | [], _ :: _, _ => by simp [Obj.pyEqL]
  | _ :: _, [], _ => by simp [Obj.pyEqL]
  | a :: as, b :: bs, ih => by
    have h1 := ih a List.mem_cons_self b List.mem_cons_self
    have h2 := eqGenL_spec t P as bs (fun a' ha' b' hb' =>
      ih a' (List.mem_cons_of_mem _ ha') b' (List.mem_cons_of_mem _ hb'))
    simp only [eqGenL, Obj.pyEqL, List.all_cons, id, h1, ← h2, List.length_cons]
    cases a.pyEq b <;> simp

theorem lookupO_mem_vals {k : String} {ms : List String} {ws : List Obj} {w : Obj}
    (h : assocLookupO k ms ws = some w) : w ∈ ws := (List.of_mem_zip (lookupO_mem h)).2

theorem eqGenKw_spec (t : ClassTable) (P : HashParams) :
    ∀ (ns : List String) (vs : List Obj) (ms : List String) (ws : List Obj),
    (∀ v ∈ vs, ∀ w ∈ ws, eqGen t P v w = v.pyEq w) →
    eqGenKw t P ns vs ms ws = Obj.pyEqKw ns vs ms ws
  | [], _, _, _, _ => by simp [eqGenKw, Obj.pyEqKw]
  | _ :: _, [], _, _, _ => by simp [eqGenKw, Obj.pyEqKw]
  | n :: ns, v :: vs, ms, ws, ih => by
    have h2 := eqGenKw_spec t P ns vs ms ws (fun v' hv' w' hw' =>
      ih v' (List.mem_cons_of_mem _ hv') w' hw')
    simp only [eqGenKw, Obj.pyEqKw, h2]
    cases hl : assocLookupO n ms ws with
    | none => rfl
    | some w => simp only [ih v List.mem_cons_self w (lookupO_mem_vals hl)]

/-- the Boolean skeleton of the instance case: with the class test in place, with the hash fast
path never firing on structurally equal objects, the generated method answers `same class ∧ all
fields equal` -/
theorem inst_case (sameClass sameHash allArgs : Bool)
    (hh : sameClass = true → allArgs = true → sameHash = true) :
    (sameHash && (sameClass && allArgs)) = (sameClass && allArgs) ∧
    (sameClass && sameHash && (sameClass && allArgs)) = (sameClass && allArgs) ∧
    (sameClass && sameHash && allArgs) = (sameClass && allArgs) := by
  cases sameClass <;> cases allArgs <;> cases sameHash <;> simp_all

theorem eqGen_eq_pyEq' {t : ClassTable} (ok : t.Ok = true) {P : HashParams} (hP : P.Ok) (a : Obj) :
    a.wf = true → conforms t a = true → ∀ b : Obj, b.wf = true → conforms t b = true →
      eqGen t P a b = a.pyEq b := by
  induction a using Obj.induct with | _ a ih => ?_
  intro wa ca b wb cb
  cases a <;> cases b <;> try rfl
  case tuple.tuple xs ys =>
    simp only [Obj.children] at ih
    simp only [Obj.wf, Obj.wfL_iff] at wa wb
    simp only [conforms, conformsL_iff] at ca cb
    simp only [eqGen, Obj.pyEq]
    exact eqGenL_spec t P xs ys fun a ha b hb => ih a ha (wa a ha) (ca a ha) b (wb b hb) (cb b hb)
  case list.list xs ys =>
    simp only [Obj.children] at ih
    simp only [Obj.wf, Obj.wfL_iff] at wa wb
    simp only [conforms, conformsL_iff] at ca cb
    simp only [eqGen, Obj.pyEq]
    exact eqGenL_spec t P xs ys fun a ha b hb => ih a ha (wa a ha) (ca a ha) b (wb b hb) (cb b hb)
  case dict.dict ks vs ms ws =>
    simp only [Obj.children] at ih
    simp only [Obj.wf, Bool.and_eq_true, Obj.wfL_iff] at wa wb
    simp only [conforms, conformsL_iff] at ca cb
    simp only [eqGen, Obj.pyEq]
    rw [eqGenKw_spec t P ks vs ms ws fun a ha b hb =>
      ih a ha (wa.2 a ha) (ca a ha) b (wb.2 b hb) (cb b hb)]
  case inst.inst c k fs v c' k' fs' v' =>
    simp only [Obj.children] at ih
    have wa' := wa
    have wb' := wb
    simp only [Obj.wf, Obj.wfL_iff] at wa' wb'
    have ca' := ca
    have cb' := cb
    simp only [conforms, Bool.and_eq_true, conformsL_iff] at ca' cb'
    have hargs := eqGenL_spec t P fs fs' fun a ha b hb =>
      ih a ha (wa' a ha) (ca'.2 a ha) b (wb' b hb) (cb'.2 b hb)
    -- the hash fast path cannot fire on structurally equal objects
    have hh : (c == c' && k == k') = true →
        (fs.length == fs'.length && (eqGenL t P fs fs').all id) = true →
        (hashGen t P (.inst c k fs v) == hashGen t P (.inst c' k' fs' v')) = true := by
      intro h1 h2
      rw [hargs] at h2
      rw [hashGen_eq_hash ok P _ ca, hashGen_eq_hash ok P _ cb, beq_iff_eq]
      apply Obj.eq_hash hP _ _ wa wb
      simp only [Obj.pyEq, h1, h2, Bool.and_self]
    obtain ⟨e1, e2, e3⟩ := inst_case _ _ _ hh
    simp only [eqGen, Obj.pyEq]
    cases ht : t.template? c with
    | none => simp only []; rw [e3, hargs]
    | some p =>
      obtain ⟨tpl, lp⟩ := p
      simp only []
      by_cases hleg : (tpl.kind == ClassKind.legacy) = true
      · simp only [hleg, if_true]; rw [e1, hargs]
      · simp only [hleg, Bool.false_eq_true, if_false]
        cases lp with
        | true => simp only [if_true]; rw [e2, hargs]
        | false =>
          simp only [Bool.false_eq_true, if_false]
          obtain ⟨hn, he, hcc, _, _⟩ := okDataclass_spec (template_dataclass ok ht).2
          rw [hcc, he]
          simp only [Bool.not_true, Bool.false_or]
          by_cases hsc : (c == c' && k == k') = true
          · -- same class: both objects have one value per field
            have hcc' : c = c' := by
              simp only [Bool.and_eq_true, beq_iff_eq] at hsc; exact hsc.1
            subst hcc'
            have la := ca'.1
            have lb := cb'.1
            simp only [ht, Bool.false_eq_true, if_false, Bool.and_eq_true, beq_iff_eq] at la lb
            have hlen : fs.length = fs'.length := la.2.trans lb.2.symm
            rw [pick_self _ _ hn (by rw [eqGenL_length t P fs fs' hlen]; exact la.2.symm)]
            have hl : (fs.length == fs'.length) = true := by simpa using hlen
            rw [hl, Bool.true_and] at hargs hh
            rw [hsc, Bool.true_and, ← hargs]
            cases hr : (eqGenL t P fs fs').all id with
            | false => simp
            | true => simp [hh hsc hr]
          · simp only [Bool.not_eq_true] at hsc
            simp only [hsc, Bool.false_and]

/-- **the generated `__eq__` is structural equality** (objects of a table satisfying `Ok`) -/
theorem eqGen_eq_pyEq {t : ClassTable} (ok : t.Ok = true) {P : HashParams} (hP : P.Ok) (a b : Obj)
    (wa : a.wf = true) (wb : b.wf = true) (ca : conforms t a = true) (cb : conforms t b = true) :
    eqGen t P a b = a.pyEq b := eqGen_eq_pyEq' ok hP a wa ca b wb cb

/-! ### `==` on well-formed objects is transitive (reflexive, symmetric: Proofs/Pickle.lean) -/

theorem pyEqLO_trans_of : ∀ (as bs cs : List Obj),
    (∀ a ∈ as, ∀ b ∈ bs, ∀ c ∈ cs, a.pyEq b = true → b.pyEq c = true → a.pyEq c = true) →
    Obj.pyEqL as bs = true → Obj.pyEqL bs cs = true → Obj.pyEqL as cs = true
  | [], [], [], _, _, _ => by simp [Obj.pyEqL]
  | [], _ :: _, _, _, h, _ => by simp [Obj.pyEqL] at h
  | _ :: _, [], _, _, h, _ => by simp [Obj.pyEqL] at h
  | _, [], _ :: _, _, _, h => by simp [Obj.pyEqL] at h
  | _, _ :: _, [], _, _, h => by simp [Obj.pyEqL] at h
  | a :: as, b :: bs, c :: cs, ih, h1, h2 => by
    simp only [Obj.pyEqL, Bool.and_eq_true] at h1 h2 ⊢
    refine ⟨ih a List.mem_cons_self b List.mem_cons_self c List.mem_cons_self h1.1 h2.1,
      pyEqLO_trans_of as bs cs ?_ h1.2 h2.2⟩
    intro a' ha' b' hb' c' hc'
    exact ih a' (List.mem_cons_of_mem _ ha') b' (List.mem_cons_of_mem _ hb') c'
      (List.mem_cons_of_mem _ hc')

theorem pyEqKwO_trans_of {ns ms ks : List String} {vs ws us : List Obj}
    (hm : ms.Nodup) (hk : ks.Nodup)
    (ih : ∀ v ∈ vs, ∀ w ∈ ws, ∀ u ∈ us, v.pyEq w = true → w.pyEq u = true → v.pyEq u = true)
    (h1 : Obj.pyEqKw ns vs ms ws = true) (h2 : Obj.pyEqKw ms ws ks us = true) :
    Obj.pyEqKw ns vs ks us = true := by
  rw [pyEqKwO_iff hm] at h1
  rw [pyEqKwO_iff hk] at h2 ⊢
  intro n v hnv
  obtain ⟨w, hw, hr⟩ := h1 n v hnv
  obtain ⟨u, hu, hr'⟩ := h2 n w hw
  exact ⟨u, hu, ih v (List.of_mem_zip hnv).2 w (List.of_mem_zip hw).2 u (List.of_mem_zip hu).2 hr hr'⟩

theorem Obj.pyEq_trans' (a : Obj) :
    a.wf = true → ∀ b c : Obj, b.wf = true → c.wf = true →
      a.pyEq b = true → b.pyEq c = true → a.pyEq c = true := by
  induction a using Obj.induct with | _ a ih => ?_
  intro ha b c hb hc h1 h2
  cases a <;> cases b <;>
    simp only [Obj.pyEq, Bool.false_eq_true, Bool.and_eq_true, beq_iff_eq] at h1 <;>
    cases c <;>
    simp only [Obj.pyEq, Bool.false_eq_true, Bool.and_eq_true, beq_iff_eq] at h2 <;>
    simp only [Obj.children] at ih <;>
    simp only [Obj.wf, Bool.and_eq_true, Obj.wfL_iff, decide_eq_true_eq, beq_iff_eq] at ha hb hc <;>
    simp only [Obj.pyEq, Bool.and_eq_true, beq_iff_eq]
  case atom.atom.atom => exact Const.pyEq_trans _ _ _ h1 h2
  case tuple.tuple.tuple xs ys zs =>
    exact pyEqLO_trans_of xs ys zs
      (fun a haa b hbb c hcc => ih a haa (ha a haa) b c (hb b hbb) (hc c hcc)) h1 h2
  case list.list.list xs ys zs =>
    exact pyEqLO_trans_of xs ys zs
      (fun a haa b hbb c hcc => ih a haa (ha a haa) b c (hb b hbb) (hc c hcc)) h1 h2
  case dict.dict.dict ks vs ms ws ls us =>
    exact ⟨h1.1.trans h2.1, pyEqKwO_trans_of hb.1.1 hc.1.1
      (fun v hv w hw u hu => ih v hv (ha.2 v hv) w u (hb.2 w hw) (hc.2 u hu)) h1.2 h2.2⟩
  case inst.inst.inst c k fs _ c' k' fs' _ c'' k'' fs'' _ =>
    exact ⟨⟨h1.1.1.trans h2.1.1, h1.1.2.trans h2.1.2⟩, pyEqLO_trans_of fs fs' fs''
      (fun a haa b hbb c hcc => ih a haa (ha a haa) b c (hb b hbb) (hc c hcc)) h1.2 h2.2⟩

theorem Obj.pyEq_trans (a b c : Obj) (ha : a.wf = true) (hb : b.wf = true) (hc : c.wf = true)
    (h1 : a.pyEq b = true) (h2 : b.pyEq c = true) : a.pyEq c = true :=
  Obj.pyEq_trans' a ha b c hb hc h1 h2

/-- `pyEqL`: same number of fields, pairwise `==` -/
theorem pyEqL_iff : ∀ (as bs : List Obj),
    Obj.pyEqL as bs = true ↔ as.length = bs.length ∧ ∀ p ∈ as.zip bs, p.1.pyEq p.2 = true
  | [], [] => by simp [Obj.pyEqL]
  | [], _ :: _ => by simp [Obj.pyEqL]
  | _ :: _, [] => by simp [Obj.pyEqL]
  | a :: as, b :: bs => by
    simp only [Obj.pyEqL, Bool.and_eq_true, pyEqL_iff as bs, List.length_cons, List.zip_cons_cons,
      List.forall_mem_cons, Nat.add_right_cancel_iff]
    constructor
    · rintro ⟨h1, h2, h3⟩; exact ⟨h2, h1, h3⟩
    · rintro ⟨h2, h1, h3⟩; exact ⟨h1, h2, h3⟩

/-! ### Histories: the slot-free reference semantics of `Op1` and the simulation -/

def Out1.core : Out1 → Out1
  | .base o => .base o.core
  | .ne r _ _ => .ne r [] []
  | .copied _ => .copied []
  | .rebuilt _ => .rebuilt []
  | .dictSet r _ => .dictSet r []
  | .dictGet v _ => .dictGet v []
  | .attrSet f _ => .attrSet f []
  | o => o

/-- dict lookup by field-wise `==` (identity first) -/
def dictFindRef (pool : List Obj) (i : Nat) (po : Obj) :
    List (Nat × Nat) → Nat → Option (Nat × Nat)
  | [], _ => none
  | (k, v) :: rest, pos =>
      if k = i then some (pos, v)
      else match pool[k]? with
        | some ko => if ko.pyEq po then some (pos, v) else dictFindRef pool i po rest (pos + 1)
        | none => dictFindRef pool i po rest (pos + 1)

/-- Reference semantics of an operation: no process, no slots. -/
def step1Ref (tbl : ClassTable) (w : World1) : Op1 → World1 × Out1
  | .base op =>
      let r := stepRef w.base op
      ({ w with base := r.1 }, .base r.2)
  | .ne i j =>
      let r := stepRef w.base (.eq i j)
      match r.2 with
      | .eq b _ _ => ({ w with base := r.1 }, .ne (!b) [] [])
      | _ => (w, .bad)
  | .copy i =>
      match w.base.pool[i]? with
      | some (.inst c k fs _) =>
          ({ w with base := { w.base with pool := w.base.pool ++ [Obj.inst c k fs none] } }, .copied [])
      | _ => (w, .bad)
  | .rebuild i =>
      match w.base.pool[i]? with
      | some o => ({ w with base := { w.base with pool := w.base.pool ++ [o.erase] } }, .rebuilt [])
      | none => (w, .bad)
  | .mapId i =>
      match w.base.pool[i]? with
      | some _ => (w, .same)
      | none => (w, .bad)
  | .dictSet i v =>
      match w.base.pool[i]? with
      | some o =>
          match dictFindRef w.base.pool i o w.dict 0 with
          | some (pos, _) => ({ w with dict := setValue w.dict pos v }, .dictSet true [])
          | none => ({ w with dict := w.dict ++ [(i, v)] }, .dictSet false [])
      | none => (w, .bad)
  | .dictGet i =>
      match w.base.pool[i]? with
      | some o => (w, .dictGet ((dictFindRef w.base.pool i o w.dict 0).map (·.2)) [])
      | none => (w, .bad)
  | .setattr i f v =>
      match w.base.pool[i]? with
      | some (.inst c k fs h) =>
          if tbl.frozenFor c f then (w, .frozen)
          else match fieldIndex tbl c f with
            | some idx =>
                ({ w with base := { w.base with
                    pool := w.base.pool.set i (Obj.inst c k (fs.set idx v.erase) h) } },
                 .attrSet true [])
            | none => (w, .attrSet false [])
      | _ => (w, .bad)
  | .delattr i f =>
      match w.base.pool[i]? with
      | some (.inst c _ _ _) =>
          if tbl.frozenFor c f then (w, .frozen)
          else (w, .attrDeleted (fieldIndex tbl c f).isSome)
      | _ => (w, .bad)

def run1Ref (tbl : ClassTable) : World1 → List Op1 → World1 × List Out1
  | w, [] => (w, [])
  | w, op :: ops =>
    let r := step1Ref tbl w op
    let rs := run1Ref tbl r.1 ops
    (rs.1, r.2 :: rs.2)

def World1.erased (w : World1) : World1 := ⟨w.base.erased, w.dict⟩

theorem dictFind_ref {P : HashParams} (hP : P.Ok) (pool : List Obj) (i : Nat) (po : Obj)
    (hc : ∀ o ∈ pool, o.coherent P) (hw : ∀ o ∈ pool, o.wf = true) (hpc : po.coherent P)
    (hpw : po.wf = true) : ∀ (d : List (Nat × Nat)) (pos : Nat),
    dictFind P pool i po d pos = dictFindRef (Obj.eraseL pool) i po.erase d pos
  | [], _ => rfl
  | (k, v) :: rest, pos => by
    have ih := dictFind_ref hP pool i po hc hw hpc hpw rest (pos + 1)
    simp only [dictFind, dictFindRef, eraseL_getElem?]
    by_cases hk : k = i
    · simp only [hk, if_true]
    · simp only [hk, if_false]
      cases hko : pool[k]? with
      | none => simpa using ih
      | some ko =>
        have hm := List.mem_of_getElem? hko
        have e := eqC_spec hP ko po (hc ko hm) hpc (hw ko hm) hpw
        have h1 := (hashC_spec P ko (hc ko hm)).1
        have h2 := (hashC_spec P po hpc).1
        simp only [Option.map_some, e.ans, h1, h2, pyEq_erase_left, pyEq_erase_right, ih]
        cases hq : ko.pyEq po with
        | false => simp
        | true => simp [Obj.eq_hash hP ko po (hw ko hm) hpw hq]

theorem coherent_copy {P : HashParams} {c : String} {k : Kind} {fs : List Obj} {h : Option Nat}
    (hc : (Obj.inst c k fs h).coherent P) : (Obj.inst c k fs none).coherent P := by
  simp only [Obj.coherent] at hc ⊢
  exact ⟨fun v hv => by simp at hv, hc.2⟩

/-- one operation that does not rebind a field: the real step (slots, process `P`) refines the
reference step -/
theorem step1_sim (tbl : ClassTable) {P : HashParams} (hP : P.Ok) (w : World1)
    (hc : w.base.coherent P) (hw : w.base.wf) (op : Op1)
    (hno : (step1 tbl P w op).2.rebound = false) :
    (step1 tbl P w op).1.base.coherent P ∧ (step1 tbl P w op).1.base.wf ∧
      (step1 tbl P w op).1.erased = (step1Ref tbl w.erased op).1 ∧
      (step1 tbl P w op).2.core = (step1Ref tbl w.erased op).2 := by
  cases op with
  | base op =>
    obtain ⟨s1, s2, s3, s4⟩ := step_sim hP w.base hc hw op
    refine ⟨s1, s2, ?_, ?_⟩
    · simp only [step1, step1Ref, World1.erased, s3]
    · simp only [step1, step1Ref, World1.erased, Out1.core, s4]
  | ne i j =>
    obtain ⟨s1, s2, s3, s4⟩ := step_sim hP w.base hc hw (.eq i j)
    simp only [step1, step1Ref, World1.erased]
    rw [← s4]
    cases hr : (step P w.base (.eq i j)).2 <;> simp only [Out.core]
    case eq b bi bj => exact ⟨s1, s2, by simp only [s3], rfl⟩
    all_goals exact ⟨hc, hw, by first | rfl | trivial, by first | rfl | trivial⟩
  | copy i =>
    simp only [step1, step1Ref, World1.erased, World.erased, eraseL_getElem?]
    cases hi : w.base.pool[i]? with
    | none => exact ⟨hc, hw, by first | rfl | trivial, by first | rfl | trivial⟩
    | some o =>
      have ho := List.mem_of_getElem? hi
      cases o with
      | inst c k fs h =>
        simp only [Option.map_some, Obj.erase]
        refine ⟨?_, ⟨?_, hw.2⟩, ?_, rfl⟩
        · intro x hx
          rcases List.mem_append.1 hx with hx | hx
          · exact hc x hx
          · simp only [List.mem_singleton] at hx
            subst hx
            exact coherent_copy (hc _ ho)
        · intro x hx
          rcases List.mem_append.1 hx with hx | hx
          · exact hw.1 x hx
          · simp only [List.mem_singleton] at hx
            subst hx
            have := hw.1 _ ho
            simpa only [Obj.wf] using this
        · simp only [eraseL_append, Obj.eraseL, Obj.erase]
      | atom _ => exact ⟨hc, hw, by first | rfl | trivial, by first | rfl | trivial⟩
      | tuple _ => exact ⟨hc, hw, by first | rfl | trivial, by first | rfl | trivial⟩
      | list _ => exact ⟨hc, hw, by first | rfl | trivial, by first | rfl | trivial⟩
      | dict _ _ => exact ⟨hc, hw, by first | rfl | trivial, by first | rfl | trivial⟩
  | rebuild i =>
    simp only [step1, step1Ref, World1.erased, World.erased, eraseL_getElem?]
    cases hi : w.base.pool[i]? with
    | none => exact ⟨hc, hw, by first | rfl | trivial, by first | rfl | trivial⟩
    | some o =>
      have ho := List.mem_of_getElem? hi
      simp only [Option.map_some]
      refine ⟨?_, ⟨?_, hw.2⟩, ?_, rfl⟩
      · intro x hx
        rcases List.mem_append.1 hx with hx | hx
        · exact hc x hx
        · simp only [List.mem_singleton] at hx
          subst hx
          exact noCache_coherent P _ (erase_noCache o)
      · intro x hx
        rcases List.mem_append.1 hx with hx | hx
        · exact hw.1 x hx
        · simp only [List.mem_singleton] at hx
          subst hx
          rw [wf_erase]; exact hw.1 o ho
      · simp only [eraseL_append, Obj.eraseL, erase_erase]
  | mapId i =>
    simp only [step1, step1Ref, World1.erased, World.erased, eraseL_getElem?]
    cases hi : w.base.pool[i]? with
    | none => exact ⟨hc, hw, by first | rfl | trivial, by first | rfl | trivial⟩
    | some o => exact ⟨hc, hw, by first | rfl | trivial, by first | rfl | trivial⟩
  | dictSet i v =>
    simp only [step1, step1Ref, World1.erased, World.erased, eraseL_getElem?]
    cases hi : w.base.pool[i]? with
    | none => exact ⟨hc, hw, by first | rfl | trivial, by first | rfl | trivial⟩
    | some o =>
      have ho := List.mem_of_getElem? hi
      obtain ⟨h1, h2, h3⟩ := hashC_spec P o (hc o ho)
      have hc' : ∀ x ∈ w.base.pool.set i (o.hashC P).2, x.coherent P := by
        intro x hx
        rcases mem_set_imp hx with hx | rfl
        · exact hc x hx
        · exact h2
      have hw' : ∀ x ∈ w.base.pool.set i (o.hashC P).2, x.wf = true := by
        intro x hx
        rcases mem_set_imp hx with hx | rfl
        · exact hw.1 x hx
        · rw [wf_congr h3]; exact hw.1 o ho
      have hf := dictFind_ref hP (w.base.pool.set i (o.hashC P).2) i (o.hashC P).2 hc' hw' h2
        (by rw [wf_congr h3]; exact hw.1 o ho) w.dict 0
      rw [eraseL_set_same _ _ _ _ hi h3, h3] at hf
      simp only [Option.map_some, hf]
      cases hd : dictFindRef (Obj.eraseL w.base.pool) i o.erase w.dict 0 with
      | none =>
        exact ⟨hc', ⟨hw', hw.2⟩, by simp only [eraseL_set_same _ _ _ _ hi h3], rfl⟩
      | some p =>
        exact ⟨hc', ⟨hw', hw.2⟩, by simp only [eraseL_set_same _ _ _ _ hi h3], rfl⟩
  | dictGet i =>
    simp only [step1, step1Ref, World1.erased, World.erased, eraseL_getElem?]
    cases hi : w.base.pool[i]? with
    | none => exact ⟨hc, hw, by first | rfl | trivial, by first | rfl | trivial⟩
    | some o =>
      have ho := List.mem_of_getElem? hi
      obtain ⟨h1, h2, h3⟩ := hashC_spec P o (hc o ho)
      have hc' : ∀ x ∈ w.base.pool.set i (o.hashC P).2, x.coherent P := by
        intro x hx
        rcases mem_set_imp hx with hx | rfl
        · exact hc x hx
        · exact h2
      have hw' : ∀ x ∈ w.base.pool.set i (o.hashC P).2, x.wf = true := by
        intro x hx
        rcases mem_set_imp hx with hx | rfl
        · exact hw.1 x hx
        · rw [wf_congr h3]; exact hw.1 o ho
      have hf := dictFind_ref hP (w.base.pool.set i (o.hashC P).2) i (o.hashC P).2 hc' hw' h2
        (by rw [wf_congr h3]; exact hw.1 o ho) w.dict 0
      rw [eraseL_set_same _ _ _ _ hi h3, h3] at hf
      simp only [Option.map_some, hf]
      exact ⟨hc', ⟨hw', hw.2⟩, by simp only [eraseL_set_same _ _ _ _ hi h3], rfl⟩
  | setattr i f v =>
    simp only [step1, step1Ref, World1.erased, World.erased, eraseL_getElem?] at hno ⊢
    cases hi : w.base.pool[i]? with
    | none => exact ⟨hc, hw, by first | rfl | trivial, by first | rfl | trivial⟩
    | some o =>
      cases o with
      | inst c k fs h =>
        simp only [hi, Option.map_some, Obj.erase] at hno ⊢
        by_cases hf : tbl.frozenFor c f = true
        · simp only [hf, if_true]
          exact ⟨hc, hw, by first | rfl | trivial, by first | rfl | trivial⟩
        · simp only [hf, Bool.false_eq_true, if_false] at hno ⊢
          cases hx : fieldIndex tbl c f with
          | none => exact ⟨hc, hw, by first | rfl | trivial, by first | rfl | trivial⟩
          | some idx => simp [hx, Out1.rebound] at hno
      | atom _ => exact ⟨hc, hw, by first | rfl | trivial, by first | rfl | trivial⟩
      | tuple _ => exact ⟨hc, hw, by first | rfl | trivial, by first | rfl | trivial⟩
      | list _ => exact ⟨hc, hw, by first | rfl | trivial, by first | rfl | trivial⟩
      | dict _ _ => exact ⟨hc, hw, by first | rfl | trivial, by first | rfl | trivial⟩
  | delattr i f =>
    simp only [step1, step1Ref, World1.erased, World.erased, eraseL_getElem?]
    cases hi : w.base.pool[i]? with
    | none => exact ⟨hc, hw, by first | rfl | trivial, by first | rfl | trivial⟩
    | some o =>
      cases o with
      | inst c k fs h =>
        simp only [Option.map_some, Obj.erase]
        by_cases hf : tbl.frozenFor c f = true
        · simp only [hf, if_true]
          exact ⟨hc, hw, by first | rfl | trivial, by first | rfl | trivial⟩
        · simp only [hf, Bool.false_eq_true, if_false]
          exact ⟨hc, hw, by first | rfl | trivial, by first | rfl | trivial⟩
      | atom _ => exact ⟨hc, hw, by first | rfl | trivial, by first | rfl | trivial⟩
      | tuple _ => exact ⟨hc, hw, by first | rfl | trivial, by first | rfl | trivial⟩
      | list _ => exact ⟨hc, hw, by first | rfl | trivial, by first | rfl | trivial⟩
      | dict _ _ => exact ⟨hc, hw, by first | rfl | trivial, by first | rfl | trivial⟩

theorem run1_sim (tbl : ClassTable) {P : HashParams} (hP : P.Ok) : ∀ (ops : List Op1) (w : World1),
    w.base.coherent P → w.base.wf → (∀ o ∈ (run1 tbl P w ops).2, o.rebound = false) →
    (run1 tbl P w ops).1.base.coherent P ∧ (run1 tbl P w ops).1.base.wf ∧
      (run1 tbl P w ops).1.erased = (run1Ref tbl w.erased ops).1 ∧
      (run1 tbl P w ops).2.map Out1.core = (run1Ref tbl w.erased ops).2
  | [], w, hc, hw, _ => ⟨hc, hw, rfl, rfl⟩
  | op :: ops, w, hc, hw, hno => by
    simp only [run1, List.mem_cons, forall_eq_or_imp] at hno
    obtain ⟨s1, s2, s3, s4⟩ := step1_sim tbl hP w hc hw op hno.1
    obtain ⟨r1, r2, r3, r4⟩ := run1_sim tbl hP ops (step1 tbl P w op).1 s1 s2 hno.2
    simp only [run1, run1Ref, List.map_cons]
    rw [s3] at r3 r4
    exact ⟨r1, r2, r3, by rw [s4, r4]⟩

/-! ### frozen classes: no operation rebinds a field -/

theorem fieldIndex_mem {tbl : ClassTable} {c f : String} {idx : Nat}
    (h : fieldIndex tbl c f = some idx) : ∃ i ∈ tbl, i.name = c ∧ f ∈ i.fields := by
  unfold fieldIndex at h
  split at h
  · rename_i i hi
    refine ⟨i, (find?_spec hi).1, (find?_spec hi).2, ?_⟩
    have := List.findIdx?_eq_some_iff_getElem.1 h
    obtain ⟨hlt, hp, _⟩ := this
    have : i.fields[idx] = f := by simpa using hp
    rw [← this]
    exact List.getElem_mem hlt
  · simp at h

theorem step1_not_rebound (tbl : ClassTable) (im : tbl.Immutable = true) (P : HashParams)
    (w : World1) (op : Op1) : (step1 tbl P w op).2.rebound = false := by
  cases op with
  | setattr i f v =>
    simp only [step1]
    cases hi : w.base.pool[i]? with
    | none => rfl
    | some o =>
      cases o with
      | inst c k fs h =>
        simp only []
        by_cases hf : tbl.frozenFor c f = true
        · simp only [hf, if_true]; rfl
        · simp only [hf, Bool.false_eq_true, if_false]
          cases hx : fieldIndex tbl c f with
          | none => rfl
          | some idx =>
            obtain ⟨info, hm, hn, hmem⟩ := fieldIndex_mem hx
            simp only [ClassTable.Immutable, List.all_eq_true] at im
            have := im info hm f hmem
            rw [hn] at this
            exact absurd this hf
      | atom _ => rfl
      | tuple _ => rfl
      | list _ => rfl
      | dict _ _ => rfl
  | ne i j =>
    simp only [step1]
    cases (step P w.base (.eq i j)).2 <;> rfl
  | copy i =>
    simp only [step1]
    cases hi : w.base.pool[i]? with
    | none => rfl
    | some o => cases o <;> rfl
  | rebuild i =>
    simp only [step1]
    cases hi : w.base.pool[i]? <;> rfl
  | mapId i =>
    simp only [step1]
    cases hi : w.base.pool[i]? <;> rfl
  | dictSet i v =>
    simp only [step1]
    cases hi : w.base.pool[i]? with
    | none => rfl
    | some o =>
      simp only []
      cases dictFind P (w.base.pool.set i (o.hashC P).2) i (o.hashC P).2 w.dict 0 <;> rfl
  | dictGet i =>
    simp only [step1]
    cases hi : w.base.pool[i]? <;> rfl
  | delattr i f =>
    simp only [step1]
    cases hi : w.base.pool[i]? with
    | none => rfl
    | some o =>
      cases o with
      | inst c k fs h =>
        simp only []
        by_cases hf : tbl.frozenFor c f = true
        · simp only [hf, if_true]; rfl
        · simp only [hf, Bool.false_eq_true, if_false]; rfl
      | atom _ => rfl
      | tuple _ => rfl
      | list _ => rfl
      | dict _ _ => rfl
  | base op => rfl

theorem run1_not_rebound (tbl : ClassTable) (im : tbl.Immutable = true) (P : HashParams) :
    ∀ (ops : List Op1) (w : World1), ∀ o ∈ (run1 tbl P w ops).2, o.rebound = false
  | [], _, o, h => by simp [run1] at h
  | op :: ops, w, o, h => by
    simp only [run1, List.mem_cons] at h
    rcases h with rfl | h
    · exact step1_not_rebound tbl im P w op
    · exact run1_not_rebound tbl im P ops _ o h

end PV.EqHash
