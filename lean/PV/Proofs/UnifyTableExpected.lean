import PV.Model.UnifyTable
/-
  C16 (T-gen): the table of pymbolic/mapper/unifier.py the proofs of PV/Proofs/UnifyTable*.lean are
  written against — one constant per function, in the order of the source.  PV/Properties/C16.lean
  checks (`rfl`) that the table REGENERATED from the source on this run is this one.
-/
namespace PV.Unify
open PV

def c16X_unify_map : C16Fn :=
  ⟨"unify_map", [("map1", none), ("map2", none)], ["result", "name", "value"], false,
    [(.assign "result" (.meth (.name "map1") "copy" [])), (.forIn ["name", "value"] (.meth (.name "map2") "items" []) [(.ifThen (.cmp .in_ (.name "name") (.name "map1")) [(.ifThen (.cmp .ne (.index (.name "map1") (.name "name")) (.name "value")) [(.ret (some .pyNone))] [])] [(.setItem "result" (.name "name") (.name "value"))])] []), (.ret (some (.name "result")))]⟩

def c16X_Rec_init : C16Fn :=
  ⟨"UnificationRecord.__init__", [("self", none), ("equations", none), ("lmap", some .pyNone), ("rmap", some .pyNone)], ["lhs", "rhs"], false,
    [(.setAttr "equations" (.name "equations")), (.ifThen (.or_ (.cmp .is_ (.name "lmap") .pyNone) (.cmp .is_ (.name "rmap") .pyNone)) [(.assign "lmap" .emptyDict), (.assign "rmap" .emptyDict), (.forIn ["lhs", "rhs"] (.name "equations") [(.ifThen (.builtin .isinstance [(.name "lhs"), (.clsRef "Variable")]) [(.setItem "lmap" (.attr (.name "lhs") "name") (.name "rhs"))] []), (.ifThen (.builtin .isinstance [(.name "rhs"), (.clsRef "Variable")]) [(.setItem "rmap" (.attr (.name "rhs") "name") (.name "lhs"))] [])] [])] []), (.setAttr "lmap" (.name "lmap")), (.setAttr "rmap" (.name "rmap"))]⟩

def c16X_Rec_unify : C16Fn :=
  ⟨"UnificationRecord.unify", [("self", none), ("other", none)], ["new_lmap", "new_rmap", "new_equations"], false,
    [(.assign "new_lmap" (.fnCall "unify_map" [(.attr (.name "self") "lmap"), (.attr (.name "other") "lmap")])), (.ifThen (.cmp .is_ (.name "new_lmap") .pyNone) [(.ret (some .pyNone))] []), (.assign "new_rmap" (.fnCall "unify_map" [(.attr (.name "self") "rmap"), (.attr (.name "other") "rmap")])), (.ifThen (.cmp .is_ (.name "new_rmap") .pyNone) [(.ret (some .pyNone))] []), (.assign "new_equations" (.builtin .set [(.attr (.name "self") "equations")])), (.update "new_equations" (.attr (.name "other") "equations")), (.ret (some (.fnCall "UnificationRecord" [(.builtin .list [(.name "new_equations")]), (.name "new_lmap"), (.name "new_rmap")])))]⟩

def c16X_unify_many : C16Fn :=
  ⟨"unify_many", [("unis1", none), ("uni2", none)], ["result", "uni1", "unif_result"], false,
    [(.assign "result" .nil), (.forIn ["uni1"] (.name "unis1") [(.assign "unif_result" (.meth (.name "uni1") "unify" [(.name "uni2")])), (.ifThen (.cmp .isNot (.name "unif_result") .pyNone) [(.append "result" (.name "unif_result"))] [])] []), (.ret (some (.name "result")))]⟩

def c16X_Base_init : C16Fn :=
  ⟨"UnifierBase.__init__", [("self", none), ("lhs_mapping_candidates", some .pyNone), ("rhs_mapping_candidates", some .pyNone), ("force_var_match", some (.bool true))], [], false,
    [(.setAttr "lhs_mapping_candidates" (.name "lhs_mapping_candidates")), (.setAttr "rhs_mapping_candidates" (.name "rhs_mapping_candidates")), (.setAttr "force_var_match" (.name "force_var_match"))]⟩

def c16X_Base_treat_mismatch : C16Fn :=
  ⟨"UnifierBase.treat_mismatch", [("self", none), ("expr", none), ("other", none), ("urecs", none)], [], false,
    [(.raise_ "NotImplementedError")]⟩

def c16X_Base_unification_record_from_equation : C16Fn :=
  ⟨"UnifierBase.unification_record_from_equation", [("self", none), ("lhs", none), ("rhs", none)], ["lhs_is_var", "rhs_is_var"], false,
    [(.ifThen (.or_ (.builtin .isinstance [(.name "lhs"), (.tuple [(.clsRef "tuple"), (.clsRef "list")])]) (.builtin .isinstance [(.name "rhs"), (.tuple [(.clsRef "tuple"), (.clsRef "list")])])) [(.ret (some .pyNone))] []), (.assign "lhs_is_var" (.builtin .isinstance [(.name "lhs"), (.clsRef "Variable")])), (.assign "rhs_is_var" (.builtin .isinstance [(.name "rhs"), (.clsRef "Variable")])), (.ifThen (.and_ (.attr (.name "self") "force_var_match") (.not_ (.or_ (.name "lhs_is_var") (.name "rhs_is_var")))) [(.ret (some .pyNone))] []), (.ifThen (.and_ (.cmp .isNot (.attr (.name "self") "lhs_mapping_candidates") .pyNone) (.and_ (.name "lhs_is_var") (.cmp .notIn (.attr (.name "lhs") "name") (.attr (.name "self") "lhs_mapping_candidates")))) [(.ret (some .pyNone))] []), (.ifThen (.and_ (.cmp .isNot (.attr (.name "self") "rhs_mapping_candidates") .pyNone) (.and_ (.name "rhs_is_var") (.cmp .notIn (.attr (.name "rhs") "name") (.attr (.name "self") "rhs_mapping_candidates")))) [(.ret (some .pyNone))] []), (.ret (some (.fnCall "UnificationRecord" [(.list [(.tuple [(.name "lhs"), (.name "rhs")])])])))]⟩

def c16X_Base_map_constant : C16Fn :=
  ⟨"UnifierBase.map_constant", [("self", none), ("expr", none), ("other", none), ("urecs", none)], [], false,
    [(.ifThen (.cmp .eq (.name "expr") (.name "other")) [(.ret (some (.name "urecs")))] [(.ret (some .nil))])]⟩

def c16X_Base_map_variable : C16Fn :=
  ⟨"UnifierBase.map_variable", [("self", none), ("expr", none), ("other", none), ("urecs", none)], ["new_uni_record"], false,
    [(.assign "new_uni_record" (.selfCall "unification_record_from_equation" [(.name "expr"), (.name "other")])), (.ifThen (.cmp .is_ (.name "new_uni_record") .pyNone) [(.ifThen (.and_ (.builtin .isinstance [(.name "other"), (.clsRef "Variable")]) (.and_ (.cmp .eq (.attr (.name "other") "name") (.attr (.name "expr") "name")) (.cmp .notIn (.attr (.name "expr") "name") (.attr (.name "self") "lhs_mapping_candidates")))) [(.ret (some (.name "urecs")))] [(.ret (some .nil))])] [(.ret (some (.fnCall "unify_many" [(.name "urecs"), (.name "new_uni_record")])))])]⟩

def c16X_Base_map_call : C16Fn :=
  ⟨"UnifierBase.map_call", [("self", none), ("expr", none), ("other", none), ("urecs", none)], [], false,
    [(.ifThen (.not_ (.builtin .isinstance [(.name "other"), (.builtin .type_ [(.name "expr")])])) [(.ret (some (.selfCall "treat_mismatch" [(.name "expr"), (.name "other"), (.name "urecs")])))] []), (.ret (some (.selfCall "rec" [(.attr (.name "expr") "function"), (.attr (.name "other") "function"), (.selfCall "rec" [(.attr (.name "expr") "parameters"), (.attr (.name "other") "parameters"), (.name "urecs")])])))]⟩

def c16X_Base_map_subscript : C16Fn :=
  ⟨"UnifierBase.map_subscript", [("self", none), ("expr", none), ("other", none), ("urecs", none)], ["expr_index", "other_index"], false,
    [(.ifThen (.not_ (.builtin .isinstance [(.name "other"), (.builtin .type_ [(.name "expr")])])) [(.ret (some (.selfCall "treat_mismatch" [(.name "expr"), (.name "other"), (.name "urecs")])))] []), (.assign "expr_index" (.attr (.name "expr") "index")), (.ifThen (.and_ (.builtin .isinstance [(.name "expr_index"), (.clsRef "tuple")]) (.cmp .eq (.builtin .len [(.name "expr_index")]) (.int 1))) [(.unpack1 "expr_index" (.name "expr_index"))] []), (.assign "other_index" (.attr (.name "other") "index")), (.ifThen (.and_ (.builtin .isinstance [(.name "other_index"), (.clsRef "tuple")]) (.cmp .eq (.builtin .len [(.name "other_index")]) (.int 1))) [(.unpack1 "other_index" (.name "other_index"))] []), (.ret (some (.selfCall "rec" [(.attr (.name "expr") "aggregate"), (.attr (.name "other") "aggregate"), (.selfCall "rec" [(.name "expr_index"), (.name "other_index"), (.name "urecs")])])))]⟩

def c16X_Base_map_lookup : C16Fn :=
  ⟨"UnifierBase.map_lookup", [("self", none), ("expr", none), ("other", none), ("urecs", none)], [], false,
    [(.ifThen (.not_ (.builtin .isinstance [(.name "other"), (.builtin .type_ [(.name "expr")])])) [(.ret (some (.selfCall "treat_mismatch" [(.name "expr"), (.name "other"), (.name "urecs")])))] []), (.ifThen (.cmp .ne (.attr (.name "expr") "name") (.attr (.name "other") "name")) [(.ret (some .nil))] []), (.ret (some (.selfCall "rec" [(.attr (.name "expr") "aggregate"), (.attr (.name "other") "aggregate"), (.name "urecs")])))]⟩

def c16X_Base_map_sum : C16Fn :=
  ⟨"UnifierBase.map_sum", [("self", none), ("expr", none), ("other", none), ("urecs", none)], ["result", "had_structural_match", "perm", "it_assignments", "my_child", "other_child"], false,
    [(.ifThen (.or_ (.not_ (.builtin .isinstance [(.name "other"), (.builtin .type_ [(.name "expr")])])) (.cmp .ne (.builtin .len [(.attr (.name "expr") "children")]) (.builtin .len [(.attr (.name "other") "children")]))) [(.ret (some .nil))] []), (.assign "result" .nil), (.import_ ["generate_permutations"]), (.assign "had_structural_match" (.bool false)), (.forIn ["perm"] (.builtin .permutations [(.builtin .range [(.builtin .len [(.attr (.name "expr") "children")])])]) [(.assign "it_assignments" (.name "urecs")), (.forIn ["my_child", "other_child"] (.builtin .zip [(.attr (.name "expr") "children"), (.gen (.index (.attr (.name "other") "children") (.name "i")) "i" (.name "perm"))]) [(.assign "it_assignments" (.selfCall "rec" [(.name "my_child"), (.name "other_child"), (.name "it_assignments")])), (.ifThen (.not_ (.name "it_assignments")) [.brk] [])] []), (.ifThen (.name "it_assignments") [(.assign "had_structural_match" (.bool true)), (.extend "result" (.name "it_assignments"))] [])] []), (.ifThen (.not_ (.name "had_structural_match")) [(.ret (some (.selfCall "treat_mismatch" [(.name "expr"), (.name "other"), (.name "urecs")])))] []), (.ret (some (.name "result")))]⟩

def c16X_Base_map_quotient : C16Fn :=
  ⟨"UnifierBase.map_quotient", [("self", none), ("expr", none), ("other", none), ("urecs", none)], [], false,
    [(.ifThen (.not_ (.builtin .isinstance [(.name "other"), (.builtin .type_ [(.name "expr")])])) [(.ret (some (.selfCall "treat_mismatch" [(.name "expr"), (.name "other"), (.name "urecs")])))] []), (.ret (some (.selfCall "rec" [(.attr (.name "expr") "numerator"), (.attr (.name "other") "numerator"), (.selfCall "rec" [(.attr (.name "expr") "denominator"), (.attr (.name "other") "denominator"), (.name "urecs")])])))]⟩

def c16X_Base_map_power : C16Fn :=
  ⟨"UnifierBase.map_power", [("self", none), ("expr", none), ("other", none), ("urecs", none)], [], false,
    [(.ifThen (.not_ (.builtin .isinstance [(.name "other"), (.builtin .type_ [(.name "expr")])])) [(.ret (some (.selfCall "treat_mismatch" [(.name "expr"), (.name "other"), (.name "urecs")])))] []), (.ret (some (.selfCall "rec" [(.attr (.name "expr") "base"), (.attr (.name "other") "base"), (.selfCall "rec" [(.attr (.name "expr") "exponent"), (.attr (.name "other") "exponent"), (.name "urecs")])])))]⟩

def c16X_Base_map_left_shift : C16Fn :=
  ⟨"UnifierBase.map_left_shift", [("self", none), ("expr", none), ("other", none), ("urecs", none)], [], false,
    [(.ifThen (.not_ (.builtin .isinstance [(.name "other"), (.builtin .type_ [(.name "expr")])])) [(.ret (some (.selfCall "treat_mismatch" [(.name "expr"), (.name "other"), (.name "urecs")])))] []), (.ret (some (.selfCall "rec" [(.attr (.name "expr") "shiftee"), (.attr (.name "other") "shiftee"), (.selfCall "rec" [(.attr (.name "expr") "shift"), (.attr (.name "other") "shift"), (.name "urecs")])])))]⟩

def c16X_Base_map_bitwise_not : C16Fn :=
  ⟨"UnifierBase.map_bitwise_not", [("self", none), ("expr", none), ("other", none), ("urecs", none)], [], false,
    [(.ifThen (.not_ (.builtin .isinstance [(.name "other"), (.builtin .type_ [(.name "expr")])])) [(.ret (some (.selfCall "treat_mismatch" [(.name "expr"), (.name "other"), (.name "urecs")])))] []), (.ret (some (.selfCall "rec" [(.attr (.name "expr") "child"), (.attr (.name "other") "child"), (.name "urecs")])))]⟩

def c16X_Base_map_comparison : C16Fn :=
  ⟨"UnifierBase.map_comparison", [("self", none), ("expr", none), ("other", none), ("urecs", none)], [], false,
    [(.ifThen (.or_ (.not_ (.builtin .isinstance [(.name "other"), (.builtin .type_ [(.name "expr")])])) (.cmp .ne (.attr (.name "expr") "operator") (.attr (.name "other") "operator"))) [(.ret (some (.selfCall "treat_mismatch" [(.name "expr"), (.name "other"), (.name "urecs")])))] []), (.ret (some (.selfCall "rec" [(.attr (.name "expr") "left"), (.attr (.name "other") "left"), (.selfCall "rec" [(.attr (.name "expr") "right"), (.attr (.name "other") "right"), (.name "urecs")])])))]⟩

def c16X_Base_map_if_positive : C16Fn :=
  ⟨"UnifierBase.map_if_positive", [("self", none), ("expr", none), ("other", none), ("urecs", none)], [], false,
    [(.ifThen (.not_ (.builtin .isinstance [(.name "other"), (.builtin .type_ [(.name "expr")])])) [(.ret (some (.selfCall "treat_mismatch" [(.name "expr"), (.name "other"), (.name "urecs")])))] []), (.ret (some (.selfCall "rec" [(.attr (.name "expr") "criterion"), (.attr (.name "other") "criterion"), (.selfCall "rec" [(.attr (.name "expr") "then"), (.attr (.name "other") "then"), (.selfCall "rec" [(.attr (.name "expr") "else_"), (.attr (.name "other") "else_"), (.name "urecs")])])])))]⟩

def c16X_Base_map_if : C16Fn :=
  ⟨"UnifierBase.map_if", [("self", none), ("expr", none), ("other", none), ("urecs", none)], [], false,
    [(.ifThen (.not_ (.builtin .isinstance [(.name "other"), (.builtin .type_ [(.name "expr")])])) [(.ret (some (.selfCall "treat_mismatch" [(.name "expr"), (.name "other"), (.name "urecs")])))] []), (.ret (some (.selfCall "rec" [(.attr (.name "expr") "condition"), (.attr (.name "other") "condition"), (.selfCall "rec" [(.attr (.name "expr") "then"), (.attr (.name "other") "then"), (.selfCall "rec" [(.attr (.name "expr") "else_"), (.attr (.name "other") "else_"), (.name "urecs")])])])))]⟩

def c16X_Base_map_list : C16Fn :=
  ⟨"UnifierBase.map_list", [("self", none), ("expr", none), ("other", none), ("urecs", none)], ["my_child", "other_child"], false,
    [(.ifThen (.or_ (.not_ (.builtin .isinstance [(.name "other"), (.builtin .type_ [(.name "expr")])])) (.cmp .ne (.builtin .len [(.name "expr")]) (.builtin .len [(.name "other")]))) [(.ret (some .nil))] []), (.forIn ["my_child", "other_child"] (.builtin .zip [(.name "expr"), (.name "other")]) [(.assign "urecs" (.selfCall "rec" [(.name "my_child"), (.name "other_child"), (.name "urecs")])), (.ifThen (.not_ (.name "urecs")) [.brk] [])] []), (.ret (some (.name "urecs")))]⟩

def c16X_Base_call : C16Fn :=
  ⟨"UnifierBase.__call__", [("self", none), ("expr", none), ("other", none), ("urecs", some .pyNone)], [], false,
    [(.ifThen (.cmp .is_ (.name "urecs") .pyNone) [(.assign "urecs" (.list [(.fnCall "UnificationRecord" [.nil])]))] []), (.ret (some (.selfCall "rec" [(.name "expr"), (.name "other"), (.name "urecs")])))]⟩

def c16X_Uni_treat_mismatch : C16Fn :=
  ⟨"UnidirectionalUnifier.treat_mismatch", [("self", none), ("expr", none), ("other", none), ("urecs", none)], [], false,
    [(.ret (some .nil))]⟩

def c16X_Uni_map_commut_assoc : C16Fn :=
  ⟨"UnidirectionalUnifier.map_commut_assoc", [("self", none), ("expr", none), ("other", none), ("urecs", none), ("factory", none)], ["plain_var_candidates", "non_var_children", "child", "unification_candidates", "my_child", "i_matches", "j", "other_child", "result"], true,
    [(.ifThen (.not_ (.builtin .isinstance [(.name "other"), (.builtin .type_ [(.name "expr")])])) [(.ret none)] []), (.assign "plain_var_candidates" .nil), (.assign "non_var_children" .nil), (.forIn ["child"] (.attr (.name "expr") "children") [(.ifThen (.and_ (.builtin .isinstance [(.name "child"), (.clsRef "Variable")]) (.cmp .in_ (.attr (.name "child") "name") (.attr (.name "self") "lhs_mapping_candidates"))) [(.append "plain_var_candidates" (.name "child"))] [(.append "non_var_children" (.name "child"))])] []), (.assign "unification_candidates" .nil), (.forIn ["my_child"] (.name "non_var_children") [(.assign "i_matches" .nil), (.forIn ["j", "other_child"] (.builtin .enumerate [(.attr (.name "other") "children")]) [(.assign "result" (.selfCall "rec" [(.name "my_child"), (.name "other_child"), (.name "urecs")])), (.ifThen (.name "result") [(.append "i_matches" (.tuple [(.name "j"), (.name "result")]))] [])] []), (.append "unification_candidates" (.name "i_matches"))] []), (.def_ "UnidirectionalUnifier.map_commut_assoc.match_children"), (.def_ "UnidirectionalUnifier.map_commut_assoc.match_plain_var_candidates"), (.yieldFrom (.localCall "UnidirectionalUnifier.map_commut_assoc.match_children" [(.fnCall "UnificationRecord" [.nil]), (.int 0), (.builtin .set [(.builtin .range [(.builtin .len [(.attr (.name "other") "children")])])])]))]⟩

def c16X_Uni_mca_match_children : C16Fn :=
  ⟨"UnidirectionalUnifier.map_commut_assoc.match_children", [("urec", none), ("next_cand_idx", none), ("other_leftovers", none)], ["other_idx", "pair_urecs", "new_urecs", "new_rhs_leftovers", "cand_urec"], true,
    [(.ifThen (.cmp .ge (.name "next_cand_idx") (.builtin .len [(.name "non_var_children")])) [(.yieldFrom (.localCall "UnidirectionalUnifier.map_commut_assoc.match_plain_var_candidates" [(.name "urec"), (.name "other_leftovers")])), (.ret none)] []), (.forIn ["other_idx", "pair_urecs"] (.index (.name "unification_candidates") (.name "next_cand_idx")) [(.ifThen (.cmp .notIn (.name "other_idx") (.name "other_leftovers")) [.cont] []), (.assign "new_urecs" (.fnCall "unify_many" [(.name "pair_urecs"), (.name "urec")])), (.assign "new_rhs_leftovers" (.arith .sub (.name "other_leftovers") (.setLit [(.name "other_idx")]))), (.forIn ["cand_urec"] (.name "new_urecs") [(.yieldFrom (.localCall "UnidirectionalUnifier.map_commut_assoc.match_children" [(.name "cand_urec"), (.arith .add (.name "next_cand_idx") (.int 1)), (.name "new_rhs_leftovers")]))] [])] [])]⟩

def c16X_Uni_mca_match_plain_var_candidates : C16Fn :=
  ⟨"UnidirectionalUnifier.map_commut_assoc.match_plain_var_candidates", [("urec", none), ("other_leftovers", none)], ["partition", "result", "subset", "var", "rec"], true,
    [(.ifThen (.cmp3 .eq .eq (.builtin .len [(.name "plain_var_candidates")]) (.builtin .len [(.name "other_leftovers")]) (.int 0)) [(.yield_ (.name "urec")), (.ret none)] []), (.def_ "UnidirectionalUnifier.map_commut_assoc.match_plain_var_candidates.subsets"), (.def_ "UnidirectionalUnifier.map_commut_assoc.match_plain_var_candidates.partitions"), (.forIn ["partition"] (.localCall "UnidirectionalUnifier.map_commut_assoc.match_plain_var_candidates.partitions" [(.name "other_leftovers"), (.builtin .len [(.name "plain_var_candidates")])]) [(.assign "result" (.name "urec")), (.forIn ["subset", "var"] (.builtin .zip [(.name "partition"), (.name "plain_var_candidates")]) [(.assign "rec" (.selfCall "unification_record_from_equation" [(.name "var"), (.varCall "factory" [(.gen (.index (.attr (.name "other") "children") (.name "i")) "i" (.name "subset"))])])), (.assign "result" (.meth (.name "result") "unify" [(.name "rec")])), (.ifThen (.not_ (.name "result")) [.brk] [])] [(.ifThen (.cmp .ne (.builtin .len [(.name "non_var_children")]) (.int 0)) [(.yield_ (.name "result")), (.ret none)] []), (.yieldFrom (.fnCall "unify_many" [(.name "urecs"), (.name "result")]))])] [])]⟩

def c16X_Uni_mca_mpv_subsets : C16Fn :=
  ⟨"UnidirectionalUnifier.map_commut_assoc.match_plain_var_candidates.subsets", [("s", none), ("max_size", none)], ["size"], true,
    [(.import_ ["combinations"]), (.forIn ["size"] (.builtin .range [(.int 1), (.arith .add (.name "max_size") (.int 1))]) [(.yieldFrom (.builtin .combinations [(.name "s"), (.name "size")]))] [])]⟩

def c16X_Uni_mca_mpv_partitions : C16Fn :=
  ⟨"UnidirectionalUnifier.map_commut_assoc.match_plain_var_candidates.partitions", [("s", none), ("k", none)], ["subset", "partition"], true,
    [(.ifThen (.cmp .eq (.name "k") (.int 1)) [(.yield_ (.list [(.name "s")])), (.ret none)] []), (.forIn ["subset"] (.mapSet (.localCall "UnidirectionalUnifier.map_commut_assoc.match_plain_var_candidates.subsets" [(.name "s"), (.arith .add (.arith .sub (.builtin .len [(.name "s")]) (.name "k")) (.int 1))])) [(.forIn ["partition"] (.localCall "UnidirectionalUnifier.map_commut_assoc.match_plain_var_candidates.partitions" [(.arith .sub (.name "s") (.name "subset")), (.arith .sub (.name "k") (.int 1))]) [(.yield_ (.listStar (.name "subset") (.name "partition")))] [])] [])]⟩

def c16X_Uni_map_sum : C16Fn :=
  ⟨"UnidirectionalUnifier.map_sum", [("self", none), ("expr", none), ("other", none), ("unis", none)], [], false,
    [(.import_ ["flattened_sum"]), (.ret (some (.builtin .list [(.selfCall "map_commut_assoc" [(.name "expr"), (.name "other"), (.name "unis"), (.factoryRef .sum)])])))]⟩

def c16X_Uni_map_product : C16Fn :=
  ⟨"UnidirectionalUnifier.map_product", [("self", none), ("expr", none), ("other", none), ("unis", none)], [], false,
    [(.import_ ["flattened_product"]), (.ret (some (.builtin .list [(.selfCall "map_commut_assoc" [(.name "expr"), (.name "other"), (.name "unis"), (.factoryRef .prod)])])))]⟩

def c16ExpectedFns : List C16Fn :=
  [c16X_unify_map, c16X_Rec_init, c16X_Rec_unify, c16X_unify_many, c16X_Base_init, c16X_Base_treat_mismatch, c16X_Base_unification_record_from_equation, c16X_Base_map_constant, c16X_Base_map_variable, c16X_Base_map_call, c16X_Base_map_subscript, c16X_Base_map_lookup, c16X_Base_map_sum, c16X_Base_map_quotient, c16X_Base_map_power, c16X_Base_map_left_shift, c16X_Base_map_bitwise_not, c16X_Base_map_comparison, c16X_Base_map_if_positive, c16X_Base_map_if, c16X_Base_map_list, c16X_Base_call, c16X_Uni_treat_mismatch, c16X_Uni_map_commut_assoc, c16X_Uni_mca_match_children, c16X_Uni_mca_match_plain_var_candidates, c16X_Uni_mca_mpv_subsets, c16X_Uni_mca_mpv_partitions, c16X_Uni_map_sum, c16X_Uni_map_product]

def c16Expected : C16Table :=
  { fns := c16ExpectedFns,
    classes := [⟨"UnificationRecord", ["UnificationRecord"]⟩, ⟨"UnifierBase", ["UnifierBase", "Mapper"]⟩, ⟨"UnidirectionalUnifier", ["UnidirectionalUnifier", "UnifierBase", "Mapper"]⟩, ⟨"Mapper", ["Mapper"]⟩],
    binds := [
      ⟨"UnificationRecord", "__init__", "UnificationRecord.__init__"⟩,
      ⟨"UnificationRecord", "unify", "UnificationRecord.unify"⟩,
      ⟨"UnificationRecord", "__repr__", "UnificationRecord.__repr__"⟩,
      ⟨"UnifierBase", "__init__", "UnifierBase.__init__"⟩,
      ⟨"UnifierBase", "treat_mismatch", "UnifierBase.treat_mismatch"⟩,
      ⟨"UnifierBase", "unification_record_from_equation", "UnifierBase.unification_record_from_equation"⟩,
      ⟨"UnifierBase", "map_constant", "UnifierBase.map_constant"⟩,
      ⟨"UnifierBase", "map_variable", "UnifierBase.map_variable"⟩,
      ⟨"UnifierBase", "map_call", "UnifierBase.map_call"⟩,
      ⟨"UnifierBase", "map_subscript", "UnifierBase.map_subscript"⟩,
      ⟨"UnifierBase", "map_lookup", "UnifierBase.map_lookup"⟩,
      ⟨"UnifierBase", "map_sum", "UnifierBase.map_sum"⟩,
      ⟨"UnifierBase", "map_product", "UnifierBase.map_sum"⟩,
      ⟨"UnifierBase", "map_quotient", "UnifierBase.map_quotient"⟩,
      ⟨"UnifierBase", "map_floor_div", "UnifierBase.map_quotient"⟩,
      ⟨"UnifierBase", "map_remainder", "UnifierBase.map_quotient"⟩,
      ⟨"UnifierBase", "map_power", "UnifierBase.map_power"⟩,
      ⟨"UnifierBase", "map_left_shift", "UnifierBase.map_left_shift"⟩,
      ⟨"UnifierBase", "map_right_shift", "UnifierBase.map_left_shift"⟩,
      ⟨"UnifierBase", "map_bitwise_not", "UnifierBase.map_bitwise_not"⟩,
      ⟨"UnifierBase", "map_bitwise_or", "UnifierBase.map_sum"⟩,
      ⟨"UnifierBase", "map_bitwise_xor", "UnifierBase.map_sum"⟩,
      ⟨"UnifierBase", "map_bitwise_and", "UnifierBase.map_sum"⟩,
      ⟨"UnifierBase", "map_logical_not", "UnifierBase.map_bitwise_not"⟩,
      ⟨"UnifierBase", "map_logical_or", "UnifierBase.map_sum"⟩,
      ⟨"UnifierBase", "map_logical_and", "UnifierBase.map_sum"⟩,
      ⟨"UnifierBase", "map_comparison", "UnifierBase.map_comparison"⟩,
      ⟨"UnifierBase", "map_if_positive", "UnifierBase.map_if_positive"⟩,
      ⟨"UnifierBase", "map_if", "UnifierBase.map_if"⟩,
      ⟨"UnifierBase", "map_min", "UnifierBase.map_sum"⟩,
      ⟨"UnifierBase", "map_max", "UnifierBase.map_sum"⟩,
      ⟨"UnifierBase", "map_list", "UnifierBase.map_list"⟩,
      ⟨"UnifierBase", "map_tuple", "UnifierBase.map_list"⟩,
      ⟨"UnifierBase", "__call__", "UnifierBase.__call__"⟩,
      ⟨"UnidirectionalUnifier", "treat_mismatch", "UnidirectionalUnifier.treat_mismatch"⟩,
      ⟨"UnidirectionalUnifier", "map_commut_assoc", "UnidirectionalUnifier.map_commut_assoc"⟩,
      ⟨"UnidirectionalUnifier", "map_sum", "UnidirectionalUnifier.map_sum"⟩,
      ⟨"UnidirectionalUnifier", "map_product", "UnidirectionalUnifier.map_product"⟩,
      ⟨"Mapper", "handle_unsupported_expression", "Mapper.handle_unsupported_expression"⟩,
      ⟨"Mapper", "__call__", "Mapper.__call__"⟩,
      ⟨"Mapper", "rec", "Mapper.__call__"⟩,
      ⟨"Mapper", "rec_fallback", "Mapper.rec_fallback"⟩,
      ⟨"Mapper", "map_algebraic_leaf", "Mapper.map_algebraic_leaf"⟩,
      ⟨"Mapper", "map_variable", "Mapper.map_variable"⟩,
      ⟨"Mapper", "map_subscript", "Mapper.map_subscript"⟩,
      ⟨"Mapper", "map_call", "Mapper.map_call"⟩,
      ⟨"Mapper", "map_lookup", "Mapper.map_lookup"⟩,
      ⟨"Mapper", "map_if_positive", "Mapper.map_if_positive"⟩,
      ⟨"Mapper", "map_rational", "Mapper.map_rational"⟩,
      ⟨"Mapper", "map_quotient", "Mapper.map_quotient"⟩,
      ⟨"Mapper", "map_constant", "Mapper.map_constant"⟩,
      ⟨"Mapper", "map_list", "Mapper.map_list"⟩,
      ⟨"Mapper", "map_tuple", "Mapper.map_tuple"⟩,
      ⟨"Mapper", "map_numpy_array", "Mapper.map_numpy_array"⟩,
      ⟨"Mapper", "map_nan", "Mapper.map_nan"⟩,
      ⟨"Mapper", "map_foreign", "Mapper.map_foreign"⟩],
    recImpl := "Mapper.__call__",
    initImpl := "UnifierBase.__init__",
    globals := [("UnificationRecord", "pymbolic.mapper.unifier.UnificationRecord"), ("Variable", "pymbolic.primitives.Variable"), ("combinations", "itertools.combinations"), ("enumerate", "builtins.enumerate"), ("flattened_product", "pymbolic.primitives.flattened_product"), ("flattened_sum", "pymbolic.primitives.flattened_sum"), ("generate_permutations", "pytools.generate_permutations"), ("isinstance", "builtins.isinstance"), ("len", "builtins.len"), ("list", "builtins.list"), ("map", "builtins.map"), ("range", "builtins.range"), ("set", "builtins.set"), ("tuple", "builtins.tuple"), ("type", "builtins.type"), ("unify_many", "pymbolic.mapper.unifier.unify_many"), ("unify_map", "pymbolic.mapper.unifier.unify_map"), ("zip", "builtins.zip")],
    untranslated := [("UnificationRecord.__repr__", "text form of a record (f-string); never called by the unifier")] }


end PV.Unify
