import PV.Model.CCode
import PV.Proofs.PyEqEquiv
import PV.Proofs.CCodeInv
/-
  C14.  The C value of the printed structure on the integer fragment.

  `denN`   : the reference meaning of the integer fragment (Python's floor division / remainder,
             defined only on non-negative dividends and positive divisors, integer variables,
             unbounded ints); `denN_sound` ties it to `den`.
  `intFrag`: the syntactic fragment on which the C mapper's text is read by C as the tree says.
  `value_core`: for every expression of the fragment, whatever the allocator state and the
             enclosing precedence, `denC` of the printed structure is `denN`.
-/
namespace PV.C14
open PV

def sumL : List Int → Int
  | [] => 0
  | x :: xs => x + sumL xs

def prodL : List Int → Int
  | [] => 1
  | x :: xs => x * prodL xs

/-! ### evaluation lemmas for the C reading -/

/-- all exposed multiplicative operators are `*` (no `/` or `%` that a surrounding product chain
could capture) -/
def mulSafe : Doc → Bool
  | .bin l op r => if op.isMul then (op == .times) && mulSafe l && mulSafe r else true
  | _ => true

def atomic : Doc → Bool
  | .lit _ | .var _ | .paren _ => true
  | _ => false

@[simp] theorem isMul_plus : COp.plus.isMul = false := rfl
@[simp] theorem isMul_minus : COp.minus.isMul = false := rfl
@[simp] theorem isMul_times : COp.times.isMul = true := rfl
@[simp] theorem isMul_divSp : COp.divSp.isMul = true := rfl
@[simp] theorem isMul_divTight : COp.divTight.isMul = true := rfl
@[simp] theorem isMul_mod : COp.mod.isMul = true := rfl

theorem apply_add_shift (op : COp) (hop : op.isMul = false) (acc a n : Int) :
    op.apply (acc + a) n = (op.apply a n).map (acc + ·) := by
  cases op <;> simp_all [COp.apply, COp.isMul] <;> omega

/-- additive operators: a pending summand commutes with applying the text -/
theorem applyC_add_shift (env : Env) : ∀ (d : Doc) (op : COp) (acc a : Int), op.isMul = false →
    applyC env (acc + a) op d = (applyC env a op d).map (acc + ·)
  | .lit n, op, acc, a, hop => by simp only [applyC]; exact apply_add_shift op hop acc a n
  | .var x, op, acc, a, hop => by
      simp only [applyC]
      cases envInt env x with
      | none => rfl
      | some v => exact apply_add_shift op hop acc a v
  | .atom _, op, acc, a, hop => by simp [applyC]
  | .paren d, op, acc, a, hop => by
      simp only [applyC]
      cases denC env d with
      | none => rfl
      | some v => exact apply_add_shift op hop acc a v
  | .bin r1 op' r2, op, acc, a, hop => by
      simp only [applyC, hop]
      by_cases hl : op'.isMul = false
      · simp only [hl, beq_self_eq_true, if_true]
        rw [applyC_add_shift env r1 op acc a hop]
        cases applyC env a op r1 with
        | none => rfl
        | some w =>
          simp only [Option.map_some]
          exact applyC_add_shift env r2 op' acc w hl
      · have hl' : op'.isMul = true := by simpa using hl
        simp only [hl', Bool.true_eq_false, Bool.false_eq_true, if_false, beq_iff_eq]
        cases r1.addBare with
        | true => simp
        | false =>
          simp only [Bool.false_eq_true, if_false]
          cases denC env r1 with
          | none => rfl
          | some a1 =>
            simp only []
            cases applyC env a1 op' r2 with
            | none => rfl
            | some v => exact apply_add_shift op hop acc a v

/-- `acc + <text of d>` is `acc + value of d` -/
theorem applyC_plus (env : Env) : ∀ (d : Doc) (acc v : Int), denC env d = some v →
    applyC env acc .plus d = some (acc + v)
  | .lit n, acc, v, h => by simp_all [applyC, denC, COp.apply]
  | .var x, acc, v, h => by simp_all [applyC, denC, COp.apply]
  | .atom _, acc, v, h => by simp [denC] at h
  | .paren d, acc, v, h => by simp_all [applyC, denC, COp.apply]
  | .bin l op' r, acc, v, h => by
      simp only [denC] at h
      by_cases hl : op'.isMul = false
      · simp only [hl, Bool.false_and, Bool.false_eq_true, if_false] at h
        cases hdl : denC env l with
        | none => simp [hdl] at h
        | some a =>
          simp only [hdl] at h
          simp only [applyC, hl, isMul_plus, beq_self_eq_true, if_true]
          rw [applyC_plus env l acc a hdl]
          simp only []
          rw [applyC_add_shift env r op' acc a hl, h]
          rfl
      · have hl' : op'.isMul = true := by simpa using hl
        simp only [hl', Bool.true_and] at h
        cases hab : l.addBare with
        | true => simp [hab] at h
        | false =>
          simp only [hab, Bool.false_eq_true, if_false] at h
          cases hdl : denC env l with
          | none => simp [hdl] at h
          | some a =>
            simp only [hdl] at h
            simp [applyC, hl', hab, hdl, h, COp.apply]

/-- an operand that is not an unparenthesised additive chain is evaluated first -/
theorem applyC_of_not_addBare (env : Env) (op : COp) (hop : op.isMul = false) :
    ∀ (d : Doc) (acc v : Int), denC env d = some v → d.addBare = false →
    applyC env acc op d = op.apply acc v
  | .lit n, acc, v, h, _ => by simp_all [applyC, denC]
  | .var x, acc, v, h, _ => by simp_all [applyC, denC]
  | .atom _, acc, v, h, _ => by simp [denC] at h
  | .paren d, acc, v, h, _ => by simp_all [applyC, denC]
  | .bin l op' r, acc, v, h, hb => by
      have hl' : op'.isMul = true := by simpa [Doc.addBare] using hb
      simp only [denC, hl', Bool.true_and] at h
      cases hab : l.addBare with
      | true => simp [hab] at h
      | false =>
        simp only [hab, Bool.false_eq_true, if_false] at h
        cases hdl : denC env l with
        | none => simp [hdl] at h
        | some a =>
          simp only [hdl] at h
          simp [applyC, hl', hop, hab, hdl, h]

theorem applyC_mul_shift (env : Env) : ∀ (d : Doc) (acc a : Int), mulSafe d = true →
    applyC env (acc * a) .times d = (applyC env a .times d).map (acc * ·)
  | .lit n, acc, a, _ => by simp [applyC, COp.apply, Int.mul_assoc]
  | .var x, acc, a, _ => by
      simp only [applyC]
      cases envInt env x <;> simp [COp.apply, Int.mul_assoc]
  | .atom _, acc, a, _ => by simp [applyC]
  | .paren d, acc, a, _ => by
      simp only [applyC]
      cases denC env d <;> simp [COp.apply, Int.mul_assoc]
  | .bin r1 op' r2, acc, a, hs => by
      simp only [mulSafe] at hs
      by_cases hl : op'.isMul = true
      · simp only [hl, if_true, Bool.and_eq_true, beq_iff_eq] at hs
        obtain ⟨⟨rfl, h1⟩, h2⟩ := hs
        simp only [applyC, isMul_times, beq_self_eq_true, if_true]
        rw [applyC_mul_shift env r1 acc a h1]
        cases applyC env a .times r1 with
        | none => rfl
        | some w =>
          simp only [Option.map_some]
          exact applyC_mul_shift env r2 acc w h2
      · have hl' : op'.isMul = false := by simpa using hl
        simp [applyC, hl']

/-- `acc * <text of d>` is `acc * value of d` when no `/`, `%` or `+` of `d` is exposed -/
theorem applyC_times (env : Env) : ∀ (d : Doc) (acc v : Int), denC env d = some v →
    mulSafe d = true → d.addBare = false → applyC env acc .times d = some (acc * v)
  | .lit n, acc, v, h, _, _ => by simp_all [applyC, denC, COp.apply]
  | .var x, acc, v, h, _, _ => by simp_all [applyC, denC, COp.apply]
  | .atom _, acc, v, h, _, _ => by simp [denC] at h
  | .paren d, acc, v, h, _, _ => by simp_all [applyC, denC, COp.apply]
  | .bin l op' r, acc, v, h, hs, hb => by
      have hl' : op'.isMul = true := by simpa [Doc.addBare] using hb
      simp only [mulSafe, hl', if_true, Bool.and_eq_true, beq_iff_eq] at hs
      obtain ⟨⟨rfl, h1⟩, h2⟩ := hs
      simp only [denC, isMul_times, Bool.true_and] at h
      cases hab : l.addBare with
      | true => simp [hab] at h
      | false =>
        simp only [hab, Bool.false_eq_true, if_false] at h
        cases hdl : denC env l with
        | none => simp [hdl] at h
        | some a =>
          simp only [hdl] at h
          simp only [applyC, isMul_times, beq_self_eq_true, if_true]
          rw [applyC_times env l acc a hdl h1 hab]
          simp only []
          rw [applyC_mul_shift env r acc a h2, h]
          rfl

theorem applyC_atomic (env : Env) (op : COp) : ∀ (d : Doc) (acc v : Int), denC env d = some v →
    atomic d = true → applyC env acc op d = op.apply acc v
  | .lit n, acc, v, h, _ => by simp_all [applyC, denC]
  | .var x, acc, v, h, _ => by simp_all [applyC, denC]
  | .atom _, acc, v, h, _ => by simp [denC] at h
  | .paren d, acc, v, h, _ => by simp_all [applyC, denC]
  | .bin .., acc, v, h, ha => by simp [atomic] at ha

/-! ### sums and products of printed operands -/

def sumC (env : Env) : List Doc → Option Int
  | [] => some 0
  | d :: ds => match denC env d, sumC env ds with
    | some v, some s => some (v + s)
    | _, _ => none

def prodC (env : Env) : List Doc → Option Int
  | [] => some 1
  | d :: ds => match denC env d, prodC env ds with
    | some v, some s => some (v * s)
    | _, _ => none

theorem join_plus (env : Env) : ∀ (ds : List Doc) (d0 : Doc) (a s : Int), denC env d0 = some a →
    sumC env ds = some s →
    denC env (ds.foldl (fun acc x => .bin acc .plus x) d0) = some (a + s)
  | [], d0, a, s, h0, hs => by
      simp only [sumC, Option.some.injEq] at hs
      subst hs
      simpa using h0
  | x :: xs, d0, a, s, h0, hs => by
      simp only [sumC] at hs
      cases hx : denC env x with
      | none => simp [hx] at hs
      | some vx =>
        cases hr : sumC env xs with
        | none => simp [hx, hr] at hs
        | some sr =>
          simp only [hx, hr, Option.some.injEq] at hs
          subst hs
          simp only [List.foldl_cons]
          have : denC env (.bin d0 .plus x) = some (a + vx) := by
            simp [denC, h0, applyC_plus env x a vx hx]
          rw [join_plus env xs _ (a + vx) sr this hr, Int.add_assoc]

theorem join_minus (env : Env) : ∀ (ds : List Doc) (d0 : Doc) (a s : Int), denC env d0 = some a →
    sumC env ds = some s → (∀ x ∈ ds, x.addBare = false) →
    denC env (ds.foldl (fun acc x => .bin acc .minus x) d0) = some (a - s)
  | [], d0, a, s, h0, hs, _ => by
      simp only [sumC, Option.some.injEq] at hs
      subst hs
      simpa using h0
  | x :: xs, d0, a, s, h0, hs, hb => by
      simp only [sumC] at hs
      cases hx : denC env x with
      | none => simp [hx] at hs
      | some vx =>
        cases hr : sumC env xs with
        | none => simp [hx, hr] at hs
        | some sr =>
          simp only [hx, hr, Option.some.injEq] at hs
          subst hs
          simp only [List.foldl_cons]
          have : denC env (.bin d0 .minus x) = some (a - vx) := by
            simp [denC, h0,
              applyC_of_not_addBare env .minus rfl x a vx hx (hb x (by simp)), COp.apply]
          rw [join_minus env xs _ (a - vx) sr this hr (fun y hy => hb y (by simp [hy]))]
          congr 1
          omega

theorem join_times (env : Env) : ∀ (ds : List Doc) (d0 : Doc) (a s : Int), denC env d0 = some a →
    d0.addBare = false → mulSafe d0 = true →
    prodC env ds = some s → (∀ x ∈ ds, x.addBare = false ∧ mulSafe x = true) →
    denC env (ds.foldl (fun acc x => .bin acc .times x) d0) = some (a * s) ∧
    (ds.foldl (fun acc x => Doc.bin acc .times x) d0).addBare = false ∧
    mulSafe (ds.foldl (fun acc x => .bin acc .times x) d0) = true
  | [], d0, a, s, h0, hb0, hm0, hs, _ => by
      simp only [prodC, Option.some.injEq] at hs
      subst hs
      simp [h0, hb0, hm0]
  | x :: xs, d0, a, s, h0, hb0, hm0, hs, hb => by
      simp only [prodC] at hs
      cases hx : denC env x with
      | none => simp [hx] at hs
      | some vx =>
        cases hr : prodC env xs with
        | none => simp [hx, hr] at hs
        | some sr =>
          simp only [hx, hr, Option.some.injEq] at hs
          subst hs
          simp only [List.foldl_cons]
          obtain ⟨hbx, hmx⟩ := hb x (by simp)
          have h1 : denC env (.bin d0 .times x) = some (a * vx) := by
            simp [denC, h0, hb0, applyC_times env x a vx hx hmx hbx]
          have h2 : (Doc.bin d0 .times x).addBare = false := by simp [Doc.addBare]
          have h3 : mulSafe (.bin d0 .times x) = true := by simp [mulSafe, hm0, hmx]
          have := join_times env xs _ (a * vx) sr h1 h2 h3 hr (fun y hy => hb y (by simp [hy]))
          rw [Int.mul_assoc] at this
          exact this

/-! sorting does not change the sum -/

theorem sumC_insert (env : Env) (rev : Bool) (x : Doc) : ∀ l : List Doc,
    sumC env (insertDoc rev x l) = sumC env (x :: l)
  | [] => rfl
  | y :: ys => by
      simp only [insertDoc]
      split
      · rfl
      · simp only [sumC, sumC_insert env rev x ys]
        cases denC env x <;> cases denC env y <;> cases sumC env ys <;> simp <;> omega

theorem sumC_sort (env : Env) (rev : Bool) : ∀ l : List Doc, sumC env (sortDocs rev l) = sumC env l
  | [] => rfl
  | x :: xs => by
      simp only [sortDocs, sumC_insert, sumC, sumC_sort env rev xs]

theorem mem_insertDoc (rev : Bool) (x y : Doc) : ∀ l : List Doc,
    y ∈ insertDoc rev x l ↔ y = x ∨ y ∈ l
  | [] => by simp [insertDoc]
  | z :: zs => by
      simp only [insertDoc]
      split
      · simp
      · simp only [List.mem_cons, mem_insertDoc rev x y zs]
        constructor
        · rintro (h | h | h) <;> simp [h]
        · rintro (h | h | h) <;> simp [h]

theorem mem_sortDocs (rev : Bool) (y : Doc) : ∀ l : List Doc, y ∈ sortDocs rev l ↔ y ∈ l
  | [] => by simp [sortDocs]
  | x :: xs => by simp [sortDocs, mem_insertDoc, mem_sortDocs rev y xs]

theorem sortDocs_ne_nil (rev : Bool) : ∀ l : List Doc, l ≠ [] → sortDocs rev l ≠ []
  | [], h => absurd rfl h
  | x :: xs, _ => by
      intro hc
      have : x ∈ sortDocs rev (x :: xs) := (mem_sortDocs rev x _).mpr (by simp)
      rw [hc] at this
      cases this


/-! ### the reference meaning of the integer fragment -/

mutual
/-- the integer fragment's meaning: Python's `//` and `%` on a non-negative dividend and a positive
divisor, integer variables, unbounded ints; `none` outside -/
def denN (env : Env) : Expr → Option Int
  | .const (.int n) => some n
  | .var x => envInt env x
  | .nary .sum cs => (denNL env cs).map sumL
  | .nary .prod cs => (denNL env cs).map prodL
  | .bin .floordiv a b => match denN env a, denN env b with
    | some x, some y => if 0 ≤ x ∧ 0 < y then some (x / y) else none
    | _, _ => none
  | .bin .rem a b => match denN env a, denN env b with
    | some x, some y => if 0 ≤ x ∧ 0 < y then some (x % y) else none
    | _, _ => none
  | .bin .pow a (.const (.int n)) => if n = 2 then (denN env a).map (fun x => x * x) else none
  | _ => none
def denNL (env : Env) : List Expr → Option (List Int)
  | [] => some []
  | c :: cs => match denN env c, denNL env cs with
    | some v, some vs => some (v :: vs)
    | _, _ => none
end

theorem envInt_get {env : Env} {x : String} {n : Int} (h : envInt env x = some n) :
    env.get x = some (.int n) := by
  unfold envInt at h
  split at h
  · simp only [Option.some.injEq] at h; subst h; assumption
  · cases h

theorem add_int (a b : Int) : Value.add (.int a) (.int b) = .ok (.int (a + b)) := rfl
theorem mul_int (a b : Int) : Value.mul (.int a) (.int b) = .ok (.int (a * b)) := rfl

theorem denFold_sum_sound (env : Env) : ∀ (cs : List Expr) (vs : List Int) (a : Int),
    (∀ c ∈ cs, ∀ v, denN env c = some v → den env c = .ok (.int v)) →
    denNL env cs = some vs → denFold env .sum (.int a) cs = .ok (.int (a + sumL vs))
  | [], vs, a, _, h => by
      simp only [denNL, Option.some.injEq] at h
      subst h
      simp [denFold, sumL, pure, Except.pure]
  | c :: cs, vs, a, ih, h => by
      simp only [denNL] at h
      cases hc : denN env c with
      | none => simp [hc] at h
      | some v =>
        cases hcs : denNL env cs with
        | none => simp [hc, hcs] at h
        | some ws =>
          simp only [hc, hcs, Option.some.injEq] at h
          subst h
          have h1 := ih c (by simp) v hc
          simp only [denFold, h1, bind, Except.bind, NaryOp.apply, add_int]
          rw [denFold_sum_sound env cs ws (a + v) (fun c' hc' => ih c' (by simp [hc'])) hcs]
          simp [sumL, Int.add_assoc]

theorem denFold_prod_sound (env : Env) : ∀ (cs : List Expr) (vs : List Int) (a : Int),
    (∀ c ∈ cs, ∀ v, denN env c = some v → den env c = .ok (.int v)) →
    denNL env cs = some vs → denFold env .prod (.int a) cs = .ok (.int (a * prodL vs))
  | [], vs, a, _, h => by
      simp only [denNL, Option.some.injEq] at h
      subst h
      simp [denFold, prodL, pure, Except.pure]
  | c :: cs, vs, a, ih, h => by
      simp only [denNL] at h
      cases hc : denN env c with
      | none => simp [hc] at h
      | some v =>
        cases hcs : denNL env cs with
        | none => simp [hc, hcs] at h
        | some ws =>
          simp only [hc, hcs, Option.some.injEq] at h
          subst h
          have h1 := ih c (by simp) v hc
          simp only [denFold, h1, bind, Except.bind, NaryOp.apply, mul_int]
          rw [denFold_prod_sound env cs ws (a * v) (fun c' hc' => ih c' (by simp [hc'])) hcs]
          simp [prodL, Int.mul_assoc]

theorem floordiv_int (x y : Int) (hy : 0 < y) :
    Value.floordiv (.int x) (.int y) = .ok (.int (x / y)) := by
  have hy0 : y ≠ 0 := by omega
  simp [Value.floordiv, arith, Value.isInexact, Value.isSeq, Value.num?, floordivN, hy0,
    Int.fdiv_eq_ediv_of_nonneg x (Int.le_of_lt hy), pure, Except.pure]

theorem mod_int (x y : Int) (hy : 0 < y) :
    Value.mod (.int x) (.int y) = .ok (.int (x % y)) := by
  have hy0 : y ≠ 0 := by omega
  simp [Value.mod, arith, Value.isInexact, Value.isSeq, Value.num?, modN, hy0,
    Int.fmod_eq_emod_of_nonneg x (Int.le_of_lt hy), pure, Except.pure]

theorem pow_two_int (x : Int) : Value.pow (.int x) (.int 2) = .ok (.int (x * x)) := by
  have : x ^ (2 : Nat) = x * x := by
    rw [Int.pow_succ, Int.pow_succ, Int.pow_zero, Int.one_mul]
  simp [Value.pow, arith, Value.isInexact, Value.isSeq, Value.num?, powN, bigLimit, pure,
    Except.pure, this]

/-- **`denN` is the evaluator's value**: where the fragment's meaning is defined, `den` returns
exactly that int. -/
theorem denN_sound (env : Env) (e : Expr) : ∀ v, denN env e = some v → den env e = .ok (.int v) := by
  induction e using Expr.induct with
  | h e ih =>
    intro v h
    cases e with
    | const c =>
      cases c <;> simp [denN] at h
      subst h
      simp [den, Const.den, pure, Except.pure]
    | var x =>
      simp only [denN] at h
      simp [den, envInt_get h, pure, Except.pure]
    | nary op cs =>
      cases op <;> simp only [denN] at h <;> try cases h
      · cases hcs : denNL env cs with
        | none => simp [hcs] at h
        | some vs =>
          simp only [hcs, Option.map_some, Option.some.injEq] at h
          subst h
          simp only [den]
          rw [denFold_sum_sound env cs vs 0 (fun c hc => ih c (by simp [Expr.children, hc])) hcs]
          simp
      · cases hcs : denNL env cs with
        | none => simp [hcs] at h
        | some vs =>
          simp only [hcs, Option.map_some, Option.some.injEq] at h
          subst h
          simp only [den]
          rw [denFold_prod_sound env cs vs 1 (fun c hc => ih c (by simp [Expr.children, hc])) hcs]
          simp
    | bin op a b =>
      have iha := ih a (by simp [Expr.children])
      have ihb := ih b (by simp [Expr.children])
      cases op with
      | quot => simp [denN] at h
      | lshift => simp [denN] at h
      | rshift => simp [denN] at h
      | floordiv =>
        simp only [denN] at h
        cases ha : denN env a with
        | none => simp [ha] at h
        | some x =>
          cases hb : denN env b with
          | none => simp [ha, hb] at h
          | some y =>
            simp only [ha, hb] at h
            split at h
            · rename_i hxy
              simp only [Option.some.injEq] at h
              subst h
              simp [den, iha x ha, ihb y hb, bind, Except.bind, BinOp.apply, floordiv_int x y hxy.2]
            · cases h
      | rem =>
        simp only [denN] at h
        cases ha : denN env a with
        | none => simp [ha] at h
        | some x =>
          cases hb : denN env b with
          | none => simp [ha, hb] at h
          | some y =>
            simp only [ha, hb] at h
            split at h
            · rename_i hxy
              simp only [Option.some.injEq] at h
              subst h
              simp [den, iha x ha, ihb y hb, bind, Except.bind, BinOp.apply, mod_int x y hxy.2]
            · cases h
      | pow =>
        cases b with
        | const c =>
          cases c with
          | int n =>
            simp only [denN] at h
            split at h
            · rename_i hn
              subst hn
              cases ha : denN env a with
              | none => simp [ha] at h
              | some x =>
                simp only [ha, Option.map_some, Option.some.injEq] at h
                subst h
                simp [den, iha x ha, Const.den, bind, Except.bind, BinOp.apply, pow_two_int,
                  pure, Except.pure]
            · cases h
          | _ => simp [denN] at h
        | _ => simp [denN] at h
    | _ => simp [denN] at h


/-! ### the fragment -/

def isRem : Expr → Bool
  | .bin .rem _ _ => true
  | _ => false

def isPow : Expr → Bool
  | .bin .pow _ _ => true
  | _ => false

/-- `-1 * …`: the product that `map_sum` prints with a minus sign -/
def negShape : Expr → Bool
  | .nary .prod (.const (.int n) :: _) => n == -1
  | _ => false

/-- what `get_neg_product` returns for a product `-1 * …` -/
def negBody : Expr → Expr
  | .nary .prod [_, b] => b
  | .nary .prod (_ :: rest) => .nary .prod rest
  | e => e

mutual
/-- integer constants, variables, sums (first term not of the form `-1 * …`), products of at least
two factors none of which is a remainder, floor division, remainder whose divisor is not a power,
and `x**2` -/
def intFrag : Expr → Bool
  | .const (.int _) => true
  | .var _ => true
  | .nary .sum (c :: cs) => intFrag c && !negShape c && intFragL cs
  | .nary .prod (c1 :: c2 :: cs) => intFrag c1 && !isRem c1 && intFragP (c2 :: cs)
  | .bin .floordiv a b => intFrag a && intFrag b
  | .bin .rem a b => intFrag a && intFrag b && !isPow b
  | .bin .pow (.var _) (.const (.int n)) => n == 2
  | _ => false
def intFragL : List Expr → Bool
  | [] => true
  | c :: cs => intFrag c && intFragL cs
def intFragP : List Expr → Bool
  | [] => true
  | c :: cs => intFrag c && !isRem c && intFragP cs
end

theorem truthySum_snoc_one : ∀ cs : List Expr, Expr.truthySum (cs ++ [one]) = true
  | [] => by simp [Expr.truthySum, one, Expr.truthy, Const.truthy]
  | [_] => by simp [Expr.truthySum]
  | _ :: _ :: _ => by simp [Expr.truthySum]

/-- `node + 1` is never zero -/
theorem node_add_one (e : Expr) (h : e.isNode = true) :
    ∃ r, Ops.bin .add e one = .ok r ∧ r.isZero = false := by
  have hone1 : one.isArith = true := by decide
  have hone2 : one.truthy = true := by decide
  have hone3 : one.isValidOperand = true := by decide
  have key : ∀ self : Expr, ∃ r, exprAdd self one = .ret r ∧ r.truthy = true := by
    intro self
    simp only [exprAdd, hone1, hone2, Bool.not_true, Bool.false_eq_true, if_false, if_true]
    cases self.truthy with
    | true => exact ⟨.nary .sum [self, one], by simp [one], by simp [Expr.truthy, Expr.truthySum]⟩
    | false => exact ⟨one, by simp, hone2⟩
  have fin : ∀ r, addD e one = .ret r → r.truthy = true →
      ∃ r, Ops.bin .add e one = .ok r ∧ r.isZero = false := by
    intro r h1 h2
    exact ⟨r, by simp [Ops.bin, dispatch, h, h1, pure, Except.pure], by simp [Expr.isZero, h2]⟩
  cases e with
  | nary op cs =>
    cases op with
    | sum =>
      exact fin (.nary .sum (cs ++ [one]))
        (by simp [addD, one, Expr.isValidOperand, Expr.isNode, Expr.isConstant, Expr.truthy,
              Const.truthy])
        (by simp [Expr.truthy, truthySum_snoc_one])
    | _ =>
      obtain ⟨r, h1, h2⟩ := key (.nary _ cs)
      exact fin r (by simpa [addD] using h1) h2
  | const c => simp [Expr.isNode] at h
  | tuple cs => simp [Expr.isNode] at h
  | list cs => simp [Expr.isNode] at h
  | _ =>
    obtain ⟨r, h1, h2⟩ := key _
    exact fin r (by simpa [addD] using h1) h2


theorem plusOneIsZero_node (e : Expr) (h : e.isNode = true) : plusOneIsZero e = .ok false := by
  obtain ⟨r, h1, h2⟩ := node_add_one e h
  cases e <;> simp [Expr.isNode] at h <;> simp [plusOneIsZero, h1, h2, pure, Except.pure]

theorem intFrag_head (e : Expr) (h : intFrag e = true) :
    (∃ n, e = .const (.int n)) ∨ e.isNode = true := by
  cases e with
  | const c => cases c <;> simp [intFrag] at h; exact Or.inl ⟨_, rfl⟩
  | tuple cs => simp [intFrag] at h
  | list cs => simp [intFrag] at h
  | _ => exact Or.inr rfl

def isNegOneE : Expr → Bool
  | .const (.int n) => n == -1
  | _ => false

theorem plusOneIsZero_frag (c0 : Expr) (h : intFrag c0 = true) :
    plusOneIsZero c0 = .ok (isNegOneE c0) := by
  rcases intFrag_head c0 h with ⟨n, rfl⟩ | hn
  · simp only [plusOneIsZero, isNegOneE, pure, Except.pure]
    have : (n + 1 == 0) = (n == -1) := by
      rw [Bool.eq_iff_iff]
      simp only [beq_iff_eq]
      omega
    rw [this]
  · rw [plusOneIsZero_node c0 hn]
    cases c0 <;> simp [Expr.isNode] at hn <;> rfl

/-- `get_neg_product` on the fragment: exactly the products `-1 * …` -/
theorem negProd_frag (ch : Expr) (h : intFrag ch = true) :
    negProd ch = .ok (if negShape ch then some (negBody ch) else none) := by
  cases ch with
  | nary op cs =>
    cases op with
    | prod =>
      match cs, h with
      | c0 :: c1 :: rest, h =>
        simp only [intFrag, Bool.and_eq_true] at h
        have h0 := plusOneIsZero_frag c0 h.1.1
        simp only [negProd, h0]
        cases c0 with
        | const c =>
          cases c with
          | int n =>
            by_cases hn : n = -1
            · subst hn
              cases rest <;> simp [isNegOneE, negShape, negBody, pure, Except.pure]
            · have hf : (n == -1) = false := by simp [hn]
              simp [isNegOneE, negShape, hf, pure, Except.pure]
          | _ => simp [isNegOneE, negShape, pure, Except.pure]
        | _ => simp [isNegOneE, negShape, pure, Except.pure]
    | _ => simp [negProd, negShape, pure, Except.pure]
  | _ => simp [negProd, negShape, pure, Except.pure]

theorem intFragP_L : ∀ cs : List Expr, intFragP cs = true → intFragL cs = true
  | [], _ => rfl
  | c :: cs, h => by
      simp only [intFragP, Bool.and_eq_true] at h
      simp [intFragL, h.1.1, intFragP_L cs h.2]

/-- the body of a `-1 * …` term of the fragment is in the fragment and means the negated value -/
theorem negBody_val (env : Env) (ch : Expr) (h : intFrag ch = true) (hn : negShape ch = true)
    (v : Int) (hv : denN env ch = some v) :
    intFrag (negBody ch) = true ∧ denN env (negBody ch) = some (-v) := by
  cases ch with
  | nary op cs =>
    cases op with
    | prod =>
      match cs, h, hn, hv with
      | .const (.int n) :: c1 :: rest, h, hn, hv =>
        simp only [negShape, beq_iff_eq] at hn
        subst hn
        simp only [intFrag, Bool.and_eq_true] at h
        obtain ⟨_, hP⟩ := h
        simp only [denN, denNL] at hv
        cases h1 : denN env c1 with
        | none => simp [h1] at hv
        | some v1 =>
          cases hr : denNL env rest with
          | none => simp [h1, hr] at hv
          | some vr =>
            simp only [h1, hr, Option.map_some, Option.some.injEq] at hv
            subst hv
            cases rest with
            | nil =>
              simp only [denNL, Option.some.injEq] at hr
              subst hr
              simp only [intFragP, Bool.and_eq_true] at hP
              refine ⟨by simpa [negBody] using hP.1.1, ?_⟩
              simp only [negBody, h1, prodL]
              congr 1
              omega
            | cons c2 rest' =>
              refine ⟨?_, ?_⟩
              · simp only [negBody, intFrag]
                simp only [intFragP, Bool.and_eq_true] at hP
                simp [hP.1.1, hP.1.2, intFragP, hP.2]
              · simp only [negBody, denN, denNL, h1]
                simp only [denNL] at hr
                cases h2 : denN env c2 with
                | none => simp [h2] at hr
                | some v2 =>
                  cases hr' : denNL env rest' with
                  | none => simp [h2, hr'] at hr
                  | some vr' =>
                    simp only [h2, hr', Option.some.injEq] at hr
                    subst hr
                    simp only [Option.map_some, prodL]
                    congr 1
                    simp [Int.neg_mul]
    | _ => simp [negShape] at hn
  | _ => simp [negShape] at hn


/-! ### what the printer guarantees on the fragment -/

def simpleKind (e : Expr) : Bool := !isMultiplicative e && !isPow e

/-- the C value of the printed structure `d` of `e` (printed with enclosing precedence `k`) is `v`,
and `d` is parenthesised enough for the contexts that print at `k` -/
structure Facts (env : Env) (S : PrintPrec) (e : Expr) (k : Nat) (d : Doc) (v : Int) : Prop where
  val : denC env d = some v
  notAdd : S.sum < k → d.addBare = false
  safe : S.sum < k → isRem e = false → mulSafe d = true
  simple : S.sum < k → simpleKind e = true → atomic d = true
  tight : S.product < k → atomic d = true

def GoodV (env : Env) (S : PrintPrec) (f : Printer) : Prop :=
  ∀ st e enc d refs st' v, intFrag e = true → f st e enc = .ok (d, refs, st') →
    denN env e = some v → Facts env S e enc d v

def AllFacts (env : Env) (S : PrintPrec) : List (Expr × Nat) → List Doc → List Int → Prop
  | [], [], [] => True
  | it :: its, d :: ds, v :: vs => Facts env S it.1 it.2 d v ∧ AllFacts env S its ds vs
  | _, _, _ => False

theorem printAll_facts (env : Env) (S : PrintPrec) (f : Printer) (hf : GoodV env S f) :
    ∀ items st ds refs st' vs, (∀ it ∈ items, intFrag it.1 = true) →
      printAll f st items = .ok (ds, refs, st') → denNL env (items.map (·.1)) = some vs →
      AllFacts env S items ds vs := by
  intro items
  induction items with
  | nil =>
    intro st ds refs st' vs _ h hv
    simp only [printAll, pure, Except.pure, Except.ok.injEq, Prod.mk.injEq] at h
    simp only [List.map_nil, denNL, Option.some.injEq] at hv
    obtain ⟨rfl, _, _⟩ := h
    subst hv
    trivial
  | cons x rest ih =>
    intro st ds refs st' vs hfr h hv
    obtain ⟨e, enc⟩ := x
    simp only [printAll, bind, Except.bind] at h
    cases h1 : f st e enc with
    | error err => simp [h1] at h
    | ok w =>
      obtain ⟨d1, r1, st1⟩ := w
      simp only [h1] at h
      cases h2 : printAll f st1 rest with
      | error err => simp [h2] at h
      | ok w2 =>
        obtain ⟨ds2, r2, st2⟩ := w2
        simp only [h2, pure, Except.pure, Except.ok.injEq, Prod.mk.injEq] at h
        obtain ⟨rfl, _, _⟩ := h
        simp only [List.map_cons, denNL] at hv
        cases hv1 : denN env e with
        | none => simp [hv1] at hv
        | some v1 =>
          cases hv2 : denNL env (rest.map (·.1)) with
          | none => simp [hv1, hv2] at hv
          | some vs2 =>
            simp only [hv1, hv2, Option.some.injEq] at hv
            subst hv
            exact ⟨hf st e enc d1 r1 st1 v1 (hfr (e, enc) (by simp)) h1 hv1,
              ih st1 ds2 r2 st2 vs2 (fun it hit => hfr it (by simp [hit])) h2 hv2⟩

theorem ccodeGeneric_ok {S : PrintPrec} {f : Printer} {st : CSt} {e : Expr} {enc : Nat} {d : Doc}
    {refs : List String} {st' : CSt} (h : ccodeGeneric S f st e enc = .ok (d, refs, st')) :
    ∃ pl ds, plan S e enc = .ok pl ∧ printAll f st pl = .ok (ds, refs, st') ∧
      assemble S st.reverse e enc ds = .ok d := by
  simp only [ccodeGeneric, bind, Except.bind] at h
  cases hp : plan S e enc with
  | error err => simp [hp] at h
  | ok pl =>
    simp only [hp] at h
    cases h2 : printAll f st pl with
    | error err => simp [h2] at h
    | ok w =>
      obtain ⟨ds, r, st2⟩ := w
      simp only [h2] at h
      cases h3 : assemble S st.reverse e enc ds with
      | error err => simp [h3] at h
      | ok dd =>
        simp only [h3, pure, Except.pure, Except.ok.injEq, Prod.mk.injEq] at h
        obtain ⟨rfl, rfl, rfl⟩ := h
        exact ⟨pl, ds, rfl, h2, h3⟩

theorem joinDocs_plus_val (env : Env) (l : List Doc) (P : Int) (h : sumC env l = some P)
    (hne : l ≠ []) : denC env (joinDocs .plus l) = some P := by
  cases l with
  | nil => exact absurd rfl hne
  | cons d ds =>
    simp only [sumC] at h
    cases hd : denC env d with
    | none => simp [hd] at h
    | some a =>
      cases hs : sumC env ds with
      | none => simp [hd, hs] at h
      | some s =>
        simp only [hd, hs, Option.some.injEq] at h
        subst h
        exact join_plus env ds d a s hd hs

theorem joinDocs_times_val (env : Env) (l : List Doc) (P : Int) (h : prodC env l = some P)
    (hne : l ≠ []) (hall : ∀ x ∈ l, x.addBare = false ∧ mulSafe x = true) :
    denC env (joinDocs .times l) = some P ∧ (joinDocs .times l).addBare = false ∧
      mulSafe (joinDocs .times l) = true := by
  cases l with
  | nil => exact absurd rfl hne
  | cons d ds =>
    simp only [prodC] at h
    cases hd : denC env d with
    | none => simp [hd] at h
    | some a =>
      cases hs : prodC env ds with
      | none => simp [hd, hs] at h
      | some s =>
        simp only [hd, hs, Option.some.injEq] at h
        subst h
        obtain ⟨h1, h2⟩ := hall d (by simp)
        exact join_times env ds d a s hd h1 h2 hs (fun x hx => hall x (by simp [hx]))

/-! the planned calls of a sum -/

def sumItems (S : PrintPrec) (cs : List Expr) : List (Expr × Nat) :=
  cs.map fun ch => if negShape ch then (negBody ch, S.product) else (ch, S.sum)

theorem sumPlan_frag (S : PrintPrec) : ∀ cs : List Expr, intFragL cs = true →
    sumPlan S cs = .ok (sumItems S cs)
  | [], _ => rfl
  | c :: cs, h => by
      simp only [intFragL, Bool.and_eq_true] at h
      simp only [sumPlan, negProd_frag c h.1, sumPlan_frag S cs h.2, sumItems, List.map_cons]
      cases negShape c <;> simp [bind, Except.bind, pure, Except.pure]

/-- the values of the planned calls: the negated value for a `-1 * …` term -/
def signed : List Expr → List Int → List Int
  | ch :: cs, v :: vs => (if negShape ch then -v else v) :: signed cs vs
  | _, _ => []

theorem sumItems_vals (env : Env) (S : PrintPrec) : ∀ (cs : List Expr) (vs : List Int),
    intFragL cs = true → denNL env cs = some vs →
    (∀ it ∈ sumItems S cs, intFrag it.1 = true) ∧
      denNL env ((sumItems S cs).map (·.1)) = some (signed cs vs)
  | [], vs, _, hv => by
      simp only [denNL, Option.some.injEq] at hv
      subst hv
      simp [sumItems, denNL, signed]
  | c :: cs, vs, h, hv => by
      simp only [intFragL, Bool.and_eq_true] at h
      simp only [denNL] at hv
      cases hc : denN env c with
      | none => simp [hc] at hv
      | some v =>
        cases hcs : denNL env cs with
        | none => simp [hc, hcs] at hv
        | some ws =>
          simp only [hc, hcs, Option.some.injEq] at hv
          subst hv
          obtain ⟨ih1, ih2⟩ := sumItems_vals env S cs ws h.2 hcs
          simp only [sumItems, List.map_cons, List.mem_cons, signed] at ih1 ih2 ⊢
          cases hn : negShape c with
          | true =>
            obtain ⟨hb1, hb2⟩ := negBody_val env c h.1 hn v hc
            refine ⟨?_, ?_⟩
            · rintro it (rfl | hit)
              · simpa using hb1
              · exact ih1 it hit
            · simp only [if_true, denNL, hb2]
              rw [ih2]
          | false =>
            refine ⟨?_, ?_⟩
            · rintro it (rfl | hit)
              · simpa using h.1
              · exact ih1 it hit
            · simp only [Bool.false_eq_true, if_false, denNL, hc]
              rw [ih2]

theorem sum_split_facts (env : Env) (S : PrintPrec) (hS : S.sum < S.product) :
    ∀ (cs : List Expr) (ds : List Doc) (vs : List Int), intFragL cs = true →
    denNL env cs = some vs → AllFacts env S (sumItems S cs) ds (signed cs vs) →
    ∃ P N, sumC env (sumSplit cs ds).1 = some P ∧ sumC env (sumSplit cs ds).2 = some N ∧
      P - N = sumL vs ∧ (∀ x ∈ (sumSplit cs ds).2, x.addBare = false) ∧
      (∀ c cs', cs = c :: cs' → negShape c = false → (sumSplit cs ds).1 ≠ [])
  | [], ds, vs, _, hv, _ => by
      simp only [denNL, Option.some.injEq] at hv
      subst hv
      exact ⟨0, 0, by simp [sumSplit, sumC], by simp [sumSplit, sumC], by simp [sumL],
        by simp [sumSplit], by simp⟩
  | c :: cs, [], vs, _, _, hf => by simp [sumItems, AllFacts] at hf
  | c :: cs, d :: ds, vs, h, hv, hf => by
      simp only [intFragL, Bool.and_eq_true] at h
      simp only [denNL] at hv
      cases hc : denN env c with
      | none => simp [hc] at hv
      | some v =>
        cases hcs : denNL env cs with
        | none => simp [hc, hcs] at hv
        | some ws =>
          simp only [hc, hcs, Option.some.injEq] at hv
          subst hv
          simp only [sumItems, List.map_cons, signed, AllFacts] at hf
          obtain ⟨f1, f2⟩ := hf
          obtain ⟨P, N, hP, hN, hPN, hB, _⟩ := sum_split_facts env S hS cs ds ws h.2 hcs f2
          simp only [sumSplit, negProd_frag c h.1]
          cases hn : negShape c with
          | true =>
            simp only [hn, if_true] at f1
            refine ⟨P, -v + N, by simpa using hP, ?_, ?_, ?_, ?_⟩
            · simp [sumC, f1.val, hN]
            · simp only [sumL]; omega
            · intro x hx
              simp only [if_true, List.mem_cons] at hx
              rcases hx with rfl | hx
              · exact f1.notAdd hS
              · exact hB x hx
            · intro c' cs' he hc'
              simp only [List.cons.injEq] at he
              rw [← he.1, hn] at hc'
              cases hc'
          | false =>
            simp only [hn, Bool.false_eq_true, if_false] at f1
            refine ⟨v + P, N, ?_, by simpa using hN, ?_, ?_, ?_⟩
            · simp [sumC, f1.val, hP]
            · simp only [sumL]; omega
            · intro x hx
              exact hB x (by simpa using hx)
            · intro _ _ _ _
              simp

theorem allFacts_prod (env : Env) (S : PrintPrec) (hS : S.sum < S.product) :
    ∀ (cs : List Expr) (ds : List Doc) (vs : List Int), intFragP cs = true →
    AllFacts env S (cs.map (·, S.product)) ds vs →
    prodC env ds = some (prodL vs) ∧ ds.length = cs.length ∧
      ∀ x ∈ ds, x.addBare = false ∧ mulSafe x = true
  | [], [], [], _, _ => by simp [prodC, prodL]
  | [], [], _ :: _, _, hf => by simp [AllFacts] at hf
  | [], _ :: _, _, _, hf => by simp [AllFacts] at hf
  | _ :: _, [], _, _, hf => by simp [AllFacts] at hf
  | _ :: _, _ :: _, [], _, hf => by simp [AllFacts] at hf
  | c :: cs, d :: ds, v :: vs, h, hf => by
      simp only [intFragP, Bool.and_eq_true, Bool.not_eq_true'] at h
      simp only [List.map_cons, AllFacts] at hf
      obtain ⟨f1, f2⟩ := hf
      obtain ⟨a, b, c'⟩ := allFacts_prod env S hS cs ds vs h.2 f2
      refine ⟨by simp [prodC, f1.val, a, prodL], by simp [b], ?_⟩
      intro x hx
      simp only [List.mem_cons] at hx
      rcases hx with rfl | hx
      · exact ⟨f1.notAdd hS, f1.safe hS h.1.2⟩
      · exact c' x hx


theorem printAll_nil {f : Printer} {st : CSt} {ds : List Doc} {refs : List String} {st' : CSt}
    (h : printAll f st [] = .ok (ds, refs, st')) : ds = [] := by
  simp only [printAll, pure, Except.pure, Except.ok.injEq, Prod.mk.injEq] at h
  exact h.1.symm

theorem powPlan_var_two (x : String) :
    ∃ r, powPlan (.var x) (.const (.int 2)) = .ok (.square r) ∧
      r = .nary .prod [.var x, .var x] := by
  refine ⟨_, ?_, rfl⟩
  simp [powPlan, Expr.isConstant, Const.truthy, Const.isOne, Const.isTwo, Ops.bin, dispatch,
    Expr.isNode, mulD, Expr.isValidOperand, Expr.isOne, Expr.isZero, Expr.truthy, pure,
    Except.pure]

theorem facts_paren {env : Env} {S : PrintPrec} {e : Expr} {k : Nat} {d : Doc} {v : Int}
    (h : denC env d = some v) : Facts env S e k (.paren d) v :=
  ⟨by simpa [denC] using h, fun _ => rfl, fun _ _ => rfl, fun _ _ => rfl, fun _ => rfl⟩

/-- **the C value of the printed structure is the fragment's meaning**, for every allocator state,
enclosing precedence and recursion budget -/
theorem value_core (env : Env) (S : PrintPrec) (hS : S.sum < S.product ∧ S.product < S.power) :
    ∀ fuel, GoodV env S (ccodeE S fuel) := by
  intro fuel
  induction fuel with
  | zero =>
    intro st e enc d refs st' v _ h
    simp [ccodeE, throw, throwThe, MonadExceptOf.throw] at h
  | succ n ih =>
    intro st e enc d refs st' v hfrag h hv
    have hSP : S.sum < S.power := Nat.lt_trans hS.1 hS.2
    cases e with
    | const c =>
      cases c with
      | int m =>
        simp only [ccodeE] at h
        obtain ⟨pl, ds, hp, hpa, has⟩ := ccodeGeneric_ok h
        simp only [plan, pure, Except.pure, Except.ok.injEq] at hp
        subst hp
        simp only [assemble, constDoc, pure, Except.pure, Except.ok.injEq] at has
        simp only [denN, Option.some.injEq] at hv
        subst hv has
        split
        · exact facts_paren (by simp [denC])
        · rename_i hc
          exact ⟨by simp [denC], fun _ => rfl, fun _ _ => rfl, fun _ _ => rfl, fun _ => rfl⟩
      | _ => simp [intFrag] at hfrag
    | var x =>
      simp only [ccodeE] at h
      obtain ⟨pl, ds, hp, hpa, has⟩ := ccodeGeneric_ok h
      simp only [assemble, pure, Except.pure, Except.ok.injEq] at has
      simp only [denN] at hv
      subst has
      exact ⟨by simpa [denC] using hv, fun _ => rfl, fun _ _ => rfl, fun _ _ => rfl, fun _ => rfl⟩
    | nary op cs =>
      cases op with
      | sum =>
        match cs, hfrag with
        | c :: cs', hfrag =>
          simp only [intFrag, Bool.and_eq_true, Bool.not_eq_true'] at hfrag
          have hL : intFragL (c :: cs') = true := by simp [intFragL, hfrag.1.1, hfrag.2]
          simp only [ccodeE] at h
          obtain ⟨pl, ds, hp, hpa, has⟩ := ccodeGeneric_ok h
          simp only [plan, sumPlan_frag S _ hL, Except.ok.injEq] at hp
          subst hp
          simp only [denN] at hv
          cases hvs : denNL env (c :: cs') with
          | none => simp [hvs] at hv
          | some vs =>
            simp only [hvs, Option.map_some, Option.some.injEq] at hv
            subst hv
            obtain ⟨hi1, hi2⟩ := sumItems_vals env S _ vs hL hvs
            have hall := printAll_facts env S _ ih _ st ds refs st' _ hi1 hpa hi2
            obtain ⟨P, N, hP, hN, hPN, hB, hne⟩ := sum_split_facts env S hS.1 _ ds vs hL hvs hall
            have hne' := hne c cs' rfl hfrag.1.2
            simp only [assemble, pure, Except.pure, Except.ok.injEq] at has
            have hpos : denC env (joinDocs .plus (sortDocs st.reverse (sumSplit (c :: cs') ds).1))
                = some P :=
              joinDocs_plus_val env _ P (by rw [sumC_sort]; exact hP)
                (sortDocs_ne_nil _ _ hne')
            have hall' := join_minus env (sortDocs st.reverse (sumSplit (c :: cs') ds).2) _ P N hpos
              (by rw [sumC_sort]; exact hN)
              (fun x hx => hB x ((mem_sortDocs _ _ _).mp hx))
            rw [hPN] at hall'
            subst has
            simp only [parenIfD]
            split
            · exact facts_paren hall'
            · rename_i hc
              have hle : enc ≤ S.sum := Nat.le_of_not_lt hc
              exact ⟨hall', fun hk => absurd hk (Nat.not_lt.mpr hle),
                fun hk => absurd hk (Nat.not_lt.mpr hle),
                fun hk => absurd hk (Nat.not_lt.mpr hle),
                fun hk => absurd (Nat.lt_trans hS.1 hk) (Nat.not_lt.mpr hle)⟩
      | prod =>
        match cs, hfrag with
        | c1 :: c2 :: cs', hfrag =>
          have hP : intFragP (c1 :: c2 :: cs') = true := by
            simp only [intFrag, Bool.and_eq_true] at hfrag
            simp only [intFragP, Bool.and_eq_true]
            simp only [intFragP, Bool.and_eq_true] at hfrag
            exact ⟨hfrag.1, hfrag.2⟩
          simp only [ccodeE] at h
          obtain ⟨pl, ds, hp, hpa, has⟩ := ccodeGeneric_ok h
          simp only [plan, pure, Except.pure, Except.ok.injEq] at hp
          subst hp
          simp only [denN] at hv
          cases hvs : denNL env (c1 :: c2 :: cs') with
          | none => simp [hvs] at hv
          | some vs =>
            simp only [hvs, Option.map_some, Option.some.injEq] at hv
            subst hv
            have hmap : ((c1 :: c2 :: cs').map (·, S.product)).map (·.1) = c1 :: c2 :: cs' := by
              simp [List.map_map, Function.comp_def]
            have hfr : ∀ it ∈ (c1 :: c2 :: cs').map (·, S.product), intFrag it.1 = true := by
              intro it hit
              obtain ⟨c, hc, rfl⟩ := List.mem_map.mp hit
              have := intFragP_L _ hP
              have hmem : ∀ (l : List Expr), intFragL l = true → ∀ x ∈ l, intFrag x = true := by
                intro l
                induction l with
                | nil => intro _ x hx; cases hx
                | cons y ys ihl =>
                  intro hl x hx
                  simp only [intFragL, Bool.and_eq_true] at hl
                  simp only [List.mem_cons] at hx
                  rcases hx with rfl | hx
                  · exact hl.1
                  · exact ihl hl.2 x hx
              exact hmem _ this c hc
            have hall := printAll_facts env S _ ih _ st ds refs st' vs hfr hpa (by rw [hmap]; exact hvs)
            obtain ⟨hprod, hlen, hds⟩ := allFacts_prod env S hS.1 _ ds vs hP hall
            have hne : ds ≠ [] := by
              intro hc
              rw [hc] at hlen
              simp at hlen
            obtain ⟨j1, j2, j3⟩ := joinDocs_times_val env ds _ hprod hne hds
            simp only [assemble, pure, Except.pure, Except.ok.injEq] at has
            subst has
            simp only [parenIfD]
            split
            · exact facts_paren j1
            · rename_i hc
              have hle : enc ≤ S.product := Nat.le_of_not_lt hc
              exact ⟨j1, fun _ => j2, fun _ _ => j3,
                fun _ hk => by simp [simpleKind, isMultiplicative] at hk,
                fun hk => absurd hk (Nat.not_lt.mpr hle)⟩
      | _ => simp [intFrag] at hfrag
    | bin op a b =>
      cases op with
      | floordiv =>
        simp only [intFrag, Bool.and_eq_true] at hfrag
        simp only [ccodeE] at h
        obtain ⟨pl, ds, hp, hpa, has⟩ := ccodeGeneric_ok h
        simp only [plan, pure, Except.pure, Except.ok.injEq] at hp
        subst hp
        simp only [denN] at hv
        cases ha : denN env a with
        | none => simp [ha] at hv
        | some x =>
          cases hb : denN env b with
          | none => simp [ha, hb] at hv
          | some y =>
            simp only [ha, hb] at hv
            split at hv
            · rename_i hxy
              simp only [Option.some.injEq] at hv
              subst hv
              have hall := printAll_facts env S _ ih [(a, S.product), (b, S.power)] st ds refs st'
                [x, y] (by simp [hfrag.1, hfrag.2]) hpa (by simp [denNL, ha, hb])
              match ds, hall with
              | [dx, dy], hall =>
                simp only [AllFacts, and_true] at hall
                obtain ⟨fx, fy⟩ := hall
                simp only [assemble, pure, Except.pure, Except.ok.injEq] at has
                subst has
                have hy0 : y ≠ 0 := by omega
                refine facts_paren ?_
                simp [denC, fx.notAdd hS.1, fx.val,
                  applyC_atomic env .divTight dy x y fy.val (fy.tight hS.2), COp.apply, hy0,
                  Int.tdiv_eq_ediv_of_nonneg hxy.1]
            · cases hv
      | rem =>
        simp only [intFrag, Bool.and_eq_true, Bool.not_eq_true'] at hfrag
        simp only [ccodeE] at h
        obtain ⟨pl, ds, hp, hpa, has⟩ := ccodeGeneric_ok h
        simp only [plan, pure, Except.pure, Except.ok.injEq] at hp
        subst hp
        simp only [denN] at hv
        cases ha : denN env a with
        | none => simp [ha] at hv
        | some x =>
          cases hb : denN env b with
          | none => simp [ha, hb] at hv
          | some y =>
            simp only [ha, hb] at hv
            split at hv
            · rename_i hxy
              simp only [Option.some.injEq] at hv
              subst hv
              have hall := printAll_facts env S _ ih [(a, S.product), (b, S.product)] st ds refs st'
                [x, y] (by simp [hfrag.1.1, hfrag.1.2]) hpa (by simp [denNL, ha, hb])
              match ds, hall with
              | [dx, dy], hall =>
                simp only [AllFacts, and_true] at hall
                obtain ⟨fx, fy⟩ := hall
                simp only [assemble, pure, Except.pure, Except.ok.injEq] at has
                have hy0 : y ≠ 0 := by omega
                -- the two operands as they are put into the text
                have hx1 : denC env (forceWrapD a dx) = some x := by
                  simp only [forceWrapD]; split <;> simp [denC, fx.val]
                have hx2 : (forceWrapD a dx).addBare = false := by
                  simp only [forceWrapD]; split
                  · rfl
                  · exact fx.notAdd hS.1
                have hy1 : denC env (forceWrapD b dy) = some y := by
                  simp only [forceWrapD]; split <;> simp [denC, fy.val]
                have hy2 : atomic (forceWrapD b dy) = true := by
                  simp only [forceWrapD]; split
                  · rfl
                  · rename_i hm
                    exact fy.simple hS.1 (by simp [simpleKind, hm, hfrag.2])
                have hval : denC env (.bin (forceWrapD a dx) .mod (forceWrapD b dy))
                    = some (x % y) := by
                  simp [denC, hx2, hx1, applyC_atomic env .mod _ x y hy1 hy2, COp.apply, hy0,
                    Int.tmod_eq_emod_of_nonneg hxy.1]
                subst has
                simp only [parenIfD]
                split
                · exact facts_paren hval
                · rename_i hc
                  have hle : enc ≤ S.product := Nat.le_of_not_lt hc
                  exact ⟨hval, fun _ => rfl, fun _ hr => by simp [isRem] at hr,
                    fun _ hk => by simp [simpleKind, isMultiplicative] at hk,
                    fun hk => absurd hk (Nat.not_lt.mpr hle)⟩
            · cases hv
      | pow =>
        match a, b, hfrag, hv with
        | .var x, .const (.int m), hfrag, hv =>
          simp only [intFrag, beq_iff_eq] at hfrag
          subst hfrag
          obtain ⟨r, hr, hr'⟩ := powPlan_var_two x
          subst hr'
          simp only [ccodeE] at h
          obtain ⟨pl, ds, hp, hpa, has⟩ := ccodeGeneric_ok h
          simp only [plan, hr, bind, Except.bind, pure, Except.pure, Except.ok.injEq] at hp
          subst hp
          have hv' : ∃ vx, envInt env x = some vx ∧ vx * vx = v := by
            simpa [denN] using hv
          obtain ⟨vx, hxe, hvv⟩ := hv'
          subst hvv
          have hx : denN env (.var x) = some vx := by simpa [denN] using hxe
          have hfr : intFrag (.nary .prod [.var x, .var x]) = true := by
            simp [intFrag, intFragP, isRem]
          have hvp : denN env (.nary .prod [.var x, .var x]) = some (vx * vx) := by
            simp [denN, denNL, hxe, prodL]
          have hall := printAll_facts env S _ ih [(.nary .prod [.var x, .var x], enc)] st ds refs
            st' [vx * vx] (by simp [hfr]) hpa (by simp [denNL, hvp])
          match ds, hall with
          | [d1], hall =>
            simp only [AllFacts, and_true] at hall
            simp only [assemble, hr, bind, Except.bind, pure, Except.pure, Except.ok.injEq] at has
            subst has
            exact ⟨hall.val, hall.notAdd, fun hk _ => hall.safe hk rfl,
              fun _ hk => by simp [simpleKind, isPow] at hk, hall.tight⟩
      | _ => simp [intFrag] at hfrag
    | _ => simp [intFrag] at hfrag

end PV.C14
