import PV.Model.CCode
import PV.Proofs.PyEqEquiv
import PV.Proofs.CCodeInv
import PV.Proofs.CCodeChain
import PV.Proofs.CCodeDenV
/-
  C14.  The C value of the printed structure on the integer fragment.

  `denV`   (CCodeDenV) : the reference meaning of the fragment (Python's operators on ints and bools
             under the guards: non-negative dividend / positive divisor, non-negative shifts and
             bitwise operands, integer variables, unbounded ints); `denV_sound` ties it to `den`.
  `cFragM` : the syntactic fragment on which the C mapper's text is read by C as the tree says
             (`cFragM false` = the arithmetic part `intFrag`, which needs fewer facts about the
             precedence table; `cFragM true` adds comparisons, `?:`, `&&`/`||`/`!`, bitwise
             operators, shifts, two-operand `min`/`max`).
  `value_core`: for every expression of the fragment, whatever the allocator state and the
             enclosing precedence, the printed structure is well formed for C's grammar
             (`cwf`, so `denC = denT` by `denC_eq_denT`), exposes only operators its context can
             take, and its value is `denV`.
  `denN`, `intFrag`: the arithmetic fragment of the first version, kept for
             `ccode_value_int_partial`.
-/
namespace PV.C14
open PV

/-! ### the reference meaning of the integer fragment -/

mutual
/-- the integer fragment's meaning: Python's `//` and `%` on a non-negative dividend and a positive
divisor, integer variables, unbounded ints; `none` outside -/
def denN (env : Env) : Expr → Option Int
  | .const (.int n) => some n
  | .var x => envInt env x
  | .nary .sum cs => (denNL env cs).map sumL
  | .nary .prod cs => (denNL env cs).map prodL
  | .bin .floordiv a b => match denN env a, denN env b with
    | some x, some y => if 0 ≤ x ∧ 0 < y then some (x / y) else none
    | _, _ => none
  | .bin .rem a b => match denN env a, denN env b with
    | some x, some y => if 0 ≤ x ∧ 0 < y then some (x % y) else none
    | _, _ => none
  | .bin .pow a (.const (.int n)) => if n = 2 then (denN env a).map (fun x => x * x) else none
  | _ => none
def denNL (env : Env) : List Expr → Option (List Int)
  | [] => some []
  | c :: cs => match denN env c, denNL env cs with
    | some v, some vs => some (v :: vs)
    | _, _ => none
end

theorem add_int (a b : Int) : Value.add (.int a) (.int b) = .ok (.int (a + b)) := rfl
theorem mul_int (a b : Int) : Value.mul (.int a) (.int b) = .ok (.int (a * b)) := rfl

theorem denFold_sum_sound (env : Env) : ∀ (cs : List Expr) (vs : List Int) (a : Int),
    (∀ c ∈ cs, ∀ v, denN env c = some v → den env c = .ok (.int v)) →
    denNL env cs = some vs → denFold env .sum (.int a) cs = .ok (.int (a + sumL vs))
  | [], vs, a, _, h => by
      simp only [denNL, Option.some.injEq] at h
      subst h
      simp [denFold, sumL, pure, Except.pure]
  | c :: cs, vs, a, ih, h => by
      simp only [denNL] at h
      cases hc : denN env c with
      | none => simp [hc] at h
      | some v =>
        cases hcs : denNL env cs with
        | none => simp [hc, hcs] at h
        | some ws =>
          simp only [hc, hcs, Option.some.injEq] at h
          subst h
          have h1 := ih c (by simp) v hc
          simp only [denFold, h1, bind, Except.bind, NaryOp.apply, add_int]
          rw [denFold_sum_sound env cs ws (a + v) (fun c' hc' => ih c' (by simp [hc'])) hcs]
          simp [sumL, Int.add_assoc]

theorem denFold_prod_sound (env : Env) : ∀ (cs : List Expr) (vs : List Int) (a : Int),
    (∀ c ∈ cs, ∀ v, denN env c = some v → den env c = .ok (.int v)) →
    denNL env cs = some vs → denFold env .prod (.int a) cs = .ok (.int (a * prodL vs))
  | [], vs, a, _, h => by
      simp only [denNL, Option.some.injEq] at h
      subst h
      simp [denFold, prodL, pure, Except.pure]
  | c :: cs, vs, a, ih, h => by
      simp only [denNL] at h
      cases hc : denN env c with
      | none => simp [hc] at h
      | some v =>
        cases hcs : denNL env cs with
        | none => simp [hc, hcs] at h
        | some ws =>
          simp only [hc, hcs, Option.some.injEq] at h
          subst h
          have h1 := ih c (by simp) v hc
          simp only [denFold, h1, bind, Except.bind, NaryOp.apply, mul_int]
          rw [denFold_prod_sound env cs ws (a * v) (fun c' hc' => ih c' (by simp [hc'])) hcs]
          simp [prodL, Int.mul_assoc]

theorem floordiv_int (x y : Int) (hy : 0 < y) :
    Value.floordiv (.int x) (.int y) = .ok (.int (x / y)) := by
  have hy0 : y ≠ 0 := by omega
  simp [Value.floordiv, arith, Value.isInexact, Value.isSeq, Value.num?, floordivN, hy0,
    Int.fdiv_eq_ediv_of_nonneg x (Int.le_of_lt hy), pure, Except.pure]

theorem mod_int (x y : Int) (hy : 0 < y) :
    Value.mod (.int x) (.int y) = .ok (.int (x % y)) := by
  have hy0 : y ≠ 0 := by omega
  simp [Value.mod, arith, Value.isInexact, Value.isSeq, Value.num?, modN, hy0,
    Int.fmod_eq_emod_of_nonneg x (Int.le_of_lt hy), pure, Except.pure]

theorem pow_two_int (x : Int) : Value.pow (.int x) (.int 2) = .ok (.int (x * x)) := by
  have : x ^ (2 : Nat) = x * x := by
    rw [Int.pow_succ, Int.pow_succ, Int.pow_zero, Int.one_mul]
  simp [Value.pow, arith, Value.isInexact, Value.isSeq, Value.num?, powN, bigLimit, pure,
    Except.pure, this]

/-- **`denN` is the evaluator's value**: where the fragment's meaning is defined, `den` returns
exactly that int. -/
theorem denN_sound (env : Env) (e : Expr) : ∀ v, denN env e = some v → den env e = .ok (.int v) := by
  induction e using Expr.induct with
  | h e ih =>
    intro v h
    cases e with
    | const c =>
      cases c <;> simp [denN] at h
      subst h
      simp [den, Const.den, pure, Except.pure]
    | var x =>
      simp only [denN] at h
      simp [den, envInt_get h, pure, Except.pure]
    | nary op cs =>
      cases op <;> simp only [denN] at h <;> try cases h
      · cases hcs : denNL env cs with
        | none => simp [hcs] at h
        | some vs =>
          simp only [hcs, Option.map_some, Option.some.injEq] at h
          subst h
          simp only [den]
          rw [denFold_sum_sound env cs vs 0 (fun c hc => ih c (by simp [Expr.children, hc])) hcs]
          simp
      · cases hcs : denNL env cs with
        | none => simp [hcs] at h
        | some vs =>
          simp only [hcs, Option.map_some, Option.some.injEq] at h
          subst h
          simp only [den]
          rw [denFold_prod_sound env cs vs 1 (fun c hc => ih c (by simp [Expr.children, hc])) hcs]
          simp
    | bin op a b =>
      have iha := ih a (by simp [Expr.children])
      have ihb := ih b (by simp [Expr.children])
      cases op with
      | quot => simp [denN] at h
      | lshift => simp [denN] at h
      | rshift => simp [denN] at h
      | floordiv =>
        simp only [denN] at h
        cases ha : denN env a with
        | none => simp [ha] at h
        | some x =>
          cases hb : denN env b with
          | none => simp [ha, hb] at h
          | some y =>
            simp only [ha, hb] at h
            split at h
            · rename_i hxy
              simp only [Option.some.injEq] at h
              subst h
              simp [den, iha x ha, ihb y hb, bind, Except.bind, BinOp.apply, floordiv_int x y hxy.2]
            · cases h
      | rem =>
        simp only [denN] at h
        cases ha : denN env a with
        | none => simp [ha] at h
        | some x =>
          cases hb : denN env b with
          | none => simp [ha, hb] at h
          | some y =>
            simp only [ha, hb] at h
            split at h
            · rename_i hxy
              simp only [Option.some.injEq] at h
              subst h
              simp [den, iha x ha, ihb y hb, bind, Except.bind, BinOp.apply, mod_int x y hxy.2]
            · cases h
      | pow =>
        cases b with
        | const c =>
          cases c with
          | int n =>
            simp only [denN] at h
            split at h
            · rename_i hn
              subst hn
              cases ha : denN env a with
              | none => simp [ha] at h
              | some x =>
                simp only [ha, Option.map_some, Option.some.injEq] at h
                subst h
                simp [den, iha x ha, Const.den, bind, Except.bind, BinOp.apply, pow_two_int,
                  pure, Except.pure]
            · cases h
          | _ => simp [denN] at h
        | _ => simp [denN] at h
    | _ => simp [denN] at h


/-! ### the fragment -/

mutual
/-- integer constants, variables, sums (first term not of the form `-1 * …`), products of at least
two factors none of which is a remainder, floor division, remainder whose divisor is not a power,
and `x**2` -/
def intFrag : Expr → Bool
  | .const (.int _) => true
  | .var _ => true
  | .nary .sum (c :: cs) => intFrag c && !negShape c && intFragL cs
  | .nary .prod (c1 :: c2 :: cs) => intFrag c1 && !isRem c1 && intFragP (c2 :: cs)
  | .bin .floordiv a b => intFrag a && intFrag b
  | .bin .rem a b => intFrag a && intFrag b && !isPow b
  | .bin .pow (.var _) (.const (.int n)) => n == 2
  | _ => false
def intFragL : List Expr → Bool
  | [] => true
  | c :: cs => intFrag c && intFragL cs
def intFragP : List Expr → Bool
  | [] => true
  | c :: cs => intFrag c && !isRem c && intFragP cs
end

theorem truthySum_snoc_one : ∀ cs : List Expr, Expr.truthySum (cs ++ [one]) = true
  | [] => by simp [Expr.truthySum, one, Expr.truthy, Const.truthy]
  | [_] => by simp [Expr.truthySum]
  | _ :: _ :: _ => by simp [Expr.truthySum]

/-- `node + 1` is never zero -/
theorem node_add_one (e : Expr) (h : e.isNode = true) :
    ∃ r, Ops.bin .add e one = .ok r ∧ r.isZero = false := by
  have hone1 : one.isArith = true := by decide
  have hone2 : one.truthy = true := by decide
  have hone3 : one.isValidOperand = true := by decide
  have key : ∀ self : Expr, ∃ r, exprAdd self one = .ret r ∧ r.truthy = true := by
    intro self
    simp only [exprAdd, hone1, hone2, Bool.not_true, Bool.false_eq_true, if_false, if_true]
    cases self.truthy with
    | true => exact ⟨.nary .sum [self, one], by simp [one], by simp [Expr.truthy, Expr.truthySum]⟩
    | false => exact ⟨one, by simp, hone2⟩
  have fin : ∀ r, addD e one = .ret r → r.truthy = true →
      ∃ r, Ops.bin .add e one = .ok r ∧ r.isZero = false := by
    intro r h1 h2
    exact ⟨r, by simp [Ops.bin, dispatch, h, h1, pure, Except.pure], by simp [Expr.isZero, h2]⟩
  cases e with
  | nary op cs =>
    cases op with
    | sum =>
      exact fin (.nary .sum (cs ++ [one]))
        (by simp [addD, one, Expr.isValidOperand, Expr.isNode, Expr.isConstant, Expr.truthy,
              Const.truthy])
        (by simp [Expr.truthy, truthySum_snoc_one])
    | _ =>
      obtain ⟨r, h1, h2⟩ := key (.nary _ cs)
      exact fin r (by simpa [addD] using h1) h2
  | const c => simp [Expr.isNode] at h
  | tuple cs => simp [Expr.isNode] at h
  | list cs => simp [Expr.isNode] at h
  | _ =>
    obtain ⟨r, h1, h2⟩ := key _
    exact fin r (by simpa [addD] using h1) h2


theorem plusOneIsZero_node (e : Expr) (h : e.isNode = true) : plusOneIsZero e = .ok false := by
  obtain ⟨r, h1, h2⟩ := node_add_one e h
  cases e <;> simp [Expr.isNode] at h <;> simp [plusOneIsZero, h1, h2, pure, Except.pure]

def isNegOneE : Expr → Bool
  | .const (.int n) => n == -1
  | _ => false


/-! ### the enlarged fragment -/

/-- the node kinds of `cFragM true` that print a C operator of a level below `+` -/
def newKind : Expr → Bool
  | .nary .band _ | .nary .bxor _ | .nary .bor _ | .nary .land _ | .nary .lor _ => true
  | .bin .lshift _ _ | .bin .rshift _ _ => true
  | .cmp _ _ _ => true
  | _ => false

/-- what the arithmetic part needs of the precedence table -/
def PrecA (S : PrintPrec) : Prop := S.sum < S.product ∧ S.product < S.power

/-- … and the rest: Python's order of the levels below `+`, and the unary level above `*` -/
def PrecB (S : PrintPrec) : Prop :=
  S.lor < S.land ∧ S.land < S.comparison ∧ S.comparison < S.bor ∧ S.bor < S.bxor ∧
  S.bxor < S.band ∧ S.band < S.shift ∧ S.shift < S.sum ∧ S.product < S.unary

/-- the mapper's own level: parentheses are added when the enclosing precedence exceeds it -/
def pyPrec (S : PrintPrec) : Expr → Nat
  | .nary .sum _ => S.sum
  | .nary .prod _ => S.product
  | .nary .band _ => S.band
  | .nary .bxor _ => S.bxor
  | .nary .bor _ => S.bor
  | .nary .land _ => S.land
  | .nary .lor _ => S.lor
  | .bin .rem _ _ => S.product
  | .bin .pow _ _ => S.product
  | .bin .lshift _ _ => S.shift
  | .bin .rshift _ _ => S.shift
  | .cmp _ _ _ => S.comparison
  | _ => 0

/-- C's level of the operator the node prints (11: a primary) -/
def cRoot : Expr → Nat
  | .nary .sum _ => 9
  | .nary .prod _ => 10
  | .nary .band _ => 5
  | .nary .bxor _ => 4
  | .nary .bor _ => 3
  | .nary .land _ => 2
  | .nary .lor _ => 1
  | .bin .rem _ _ => 10
  | .bin .pow _ _ => 10
  | .bin .lshift _ _ => 8
  | .bin .rshift _ _ => 8
  | .cmp .eq _ _ => 6
  | .cmp .ne _ _ => 6
  | .cmp _ _ _ => 7
  | _ => 11

/-- the lowest C level the text of `e` printed with enclosing precedence `k` may expose -/
def cRootAt (S : PrintPrec) (k : Nat) (e : Expr) : Nat := if k ≤ pyPrec S e then cRoot e else 11

/-- in every context of the fragment, what a child may expose suits the context -/
theorem ctx_all (S : PrintPrec) (hA : PrecA S) (e : Expr) (h : PrecB S ∨ newKind e = false) :
    9 ≤ cRootAt S S.sum e ∧ 10 ≤ cRootAt S S.product e ∧ 11 ≤ cRootAt S S.power e ∧
    (PrecB S → 11 ≤ cRootAt S S.unary e ∧ 9 ≤ cRootAt S (S.shift + 1) e ∧
      (isBitwise e = false → 8 ≤ cRootAt S (S.comparison + 1) e) ∧
      5 ≤ cRootAt S S.band e ∧ 4 ≤ cRootAt S S.bxor e ∧ 3 ≤ cRootAt S S.bor e ∧
      2 ≤ cRootAt S S.land e ∧ 1 ≤ cRootAt S S.lor e) := by
  obtain ⟨a1, a2⟩ := hA
  have fin : ∀ (p r : Nat), (PrecB S ∨ newKind e = false) →
      (pyPrec S e = p ∧ cRoot e = r) →
      ((r = 11) ∨ (p = S.sum ∧ r = 9) ∨ (p = S.product ∧ r = 10) ∨
       (PrecB S ∧ ((p = S.band ∧ r = 5 ∧ isBitwise e = true) ∨ (p = S.bxor ∧ r = 4 ∧ isBitwise e = true) ∨
          (p = S.bor ∧ r = 3 ∧ isBitwise e = true) ∨ (p = S.land ∧ r = 2) ∨ (p = S.lor ∧ r = 1) ∨
          (p = S.shift ∧ r = 8) ∨ (p = S.comparison ∧ (r = 6 ∨ r = 7))))) →
      9 ≤ cRootAt S S.sum e ∧ 10 ≤ cRootAt S S.product e ∧ 11 ≤ cRootAt S S.power e ∧
      (PrecB S → 11 ≤ cRootAt S S.unary e ∧ 9 ≤ cRootAt S (S.shift + 1) e ∧
        (isBitwise e = false → 8 ≤ cRootAt S (S.comparison + 1) e) ∧
        5 ≤ cRootAt S S.band e ∧ 4 ≤ cRootAt S S.bxor e ∧ 3 ≤ cRootAt S S.bor e ∧
        2 ≤ cRootAt S S.land e ∧ 1 ≤ cRootAt S S.lor e) := by
    intro p r _ hpr hcase
    obtain ⟨hp, hr⟩ := hpr
    simp only [cRootAt, hp, hr]
    rcases hcase with h | ⟨h1, h2⟩ | ⟨h1, h2⟩ | ⟨hB, hc⟩
    · subst h
      refine ⟨by split <;> omega, by split <;> omega, by split <;> omega, fun _ =>
        ⟨by split <;> omega, by split <;> omega, fun _ => by split <;> omega, by split <;> omega,
         by split <;> omega, by split <;> omega, by split <;> omega, by split <;> omega⟩⟩
    · subst h1 h2
      refine ⟨by split <;> omega, by split <;> omega, by split <;> omega, fun hB => ?_⟩
      obtain ⟨b1, b2, b3, b4, b5, b6, b7, b8⟩ := hB
      exact ⟨by split <;> omega, by split <;> omega, fun _ => by split <;> omega,
        by split <;> omega, by split <;> omega, by split <;> omega, by split <;> omega,
        by split <;> omega⟩
    · subst h1 h2
      refine ⟨by split <;> omega, by split <;> omega, by split <;> omega, fun hB => ?_⟩
      obtain ⟨b1, b2, b3, b4, b5, b6, b7, b8⟩ := hB
      exact ⟨by split <;> omega, by split <;> omega, fun _ => by split <;> omega,
        by split <;> omega, by split <;> omega, by split <;> omega, by split <;> omega,
        by split <;> omega⟩
    · obtain ⟨b1, b2, b3, b4, b5, b6, b7, b8⟩ := hB
      rcases hc with ⟨h1, h2, h3⟩ | ⟨h1, h2, h3⟩ | ⟨h1, h2, h3⟩ | ⟨h1, h2⟩ | ⟨h1, h2⟩ | ⟨h1, h2⟩ |
        ⟨h1, h2⟩
      all_goals
        subst h1
        refine ⟨by split <;> omega, by split <;> omega, by split <;> omega, fun _ =>
          ⟨by split <;> omega, by split <;> omega, fun hb => ?_, by split <;> omega,
           by split <;> omega, by split <;> omega, by split <;> omega, by split <;> omega⟩⟩
        first
          | (rw [hb] at h3; cases h3)
          | (split <;> omega)
  cases e with
  | nary op cs =>
    cases op
    · exact fin _ _ h ⟨rfl, rfl⟩ (Or.inr (Or.inl ⟨rfl, rfl⟩))
    · exact fin _ _ h ⟨rfl, rfl⟩ (Or.inr (Or.inr (Or.inl ⟨rfl, rfl⟩)))
    · have hB : PrecB S := by simpa [newKind] using h
      exact fin _ _ h ⟨rfl, rfl⟩ (Or.inr (Or.inr (Or.inr ⟨hB, Or.inr (Or.inr (Or.inl ⟨rfl, rfl, rfl⟩))⟩)))
    · have hB : PrecB S := by simpa [newKind] using h
      exact fin _ _ h ⟨rfl, rfl⟩ (Or.inr (Or.inr (Or.inr ⟨hB, Or.inr (Or.inl ⟨rfl, rfl, rfl⟩)⟩)))
    · have hB : PrecB S := by simpa [newKind] using h
      exact fin _ _ h ⟨rfl, rfl⟩ (Or.inr (Or.inr (Or.inr ⟨hB, Or.inl ⟨rfl, rfl, rfl⟩⟩)))
    · have hB : PrecB S := by simpa [newKind] using h
      exact fin _ _ h ⟨rfl, rfl⟩ (Or.inr (Or.inr (Or.inr ⟨hB,
        Or.inr (Or.inr (Or.inr (Or.inr (Or.inl ⟨rfl, rfl⟩))))⟩)))
    · have hB : PrecB S := by simpa [newKind] using h
      exact fin _ _ h ⟨rfl, rfl⟩ (Or.inr (Or.inr (Or.inr ⟨hB,
        Or.inr (Or.inr (Or.inr (Or.inl ⟨rfl, rfl⟩)))⟩)))
    · exact fin _ _ h ⟨rfl, rfl⟩ (Or.inl rfl)
    · exact fin _ _ h ⟨rfl, rfl⟩ (Or.inl rfl)
  | bin op a b =>
    cases op
    · exact fin _ _ h ⟨rfl, rfl⟩ (Or.inl rfl)
    · exact fin _ _ h ⟨rfl, rfl⟩ (Or.inl rfl)
    · exact fin _ _ h ⟨rfl, rfl⟩ (Or.inr (Or.inr (Or.inl ⟨rfl, rfl⟩)))
    · exact fin _ _ h ⟨rfl, rfl⟩ (Or.inr (Or.inr (Or.inl ⟨rfl, rfl⟩)))
    · have hB : PrecB S := by simpa [newKind] using h
      exact fin _ _ h ⟨rfl, rfl⟩ (Or.inr (Or.inr (Or.inr ⟨hB,
        Or.inr (Or.inr (Or.inr (Or.inr (Or.inr (Or.inl ⟨rfl, rfl⟩)))))⟩)))
    · have hB : PrecB S := by simpa [newKind] using h
      exact fin _ _ h ⟨rfl, rfl⟩ (Or.inr (Or.inr (Or.inr ⟨hB,
        Or.inr (Or.inr (Or.inr (Or.inr (Or.inr (Or.inl ⟨rfl, rfl⟩)))))⟩)))
  | cmp o a b =>
    have hB : PrecB S := by simpa [newKind] using h
    cases o
    all_goals
      first
        | exact fin _ _ h ⟨rfl, rfl⟩ (Or.inr (Or.inr (Or.inr ⟨hB,
            Or.inr (Or.inr (Or.inr (Or.inr (Or.inr (Or.inr ⟨rfl, Or.inl rfl⟩)))))⟩)))
        | exact fin _ _ h ⟨rfl, rfl⟩ (Or.inr (Or.inr (Or.inr ⟨hB,
            Or.inr (Or.inr (Or.inr (Or.inr (Or.inr (Or.inr ⟨rfl, Or.inr rfl⟩)))))⟩)))
  | _ => exact fin _ _ h ⟨rfl, rfl⟩ (Or.inl rfl)

/-! ### what the printer guarantees on the fragment -/

/-- the printed structure `d` of `e` (printed with enclosing precedence `k`) is well formed for C's
grammar and exposes only what a context printing at `k` can take -/
structure Shape (S : PrintPrec) (e : Expr) (k : Nat) (d : Doc) : Prop where
  wf : cwf d = true
  expo : ∀ o ∈ exposedOps d, cRootAt S k e ≤ o.prec
  safe : S.sum < k → isRem e = false → ∀ o ∈ exposedOps d, o.prec = 10 → o = .times

/-- … and whenever the fragment's meaning of `e` is defined, it is the value of `d` -/
def DocOK (env : Env) (S : PrintPrec) (it : Expr × Nat) (d : Doc) : Prop :=
  Shape S it.1 it.2 d ∧ ∀ w, denV env it.1 = some w → denT env d = some w.toInt

def GoodV (env : Env) (S : PrintPrec) (m : Bool) (f : Printer) : Prop :=
  ∀ st e enc d refs st', cFragM m e = true → f st e enc = .ok (d, refs, st') →
    DocOK env S (e, enc) d

def AllOK (env : Env) (S : PrintPrec) : List (Expr × Nat) → List Doc → Prop
  | [], [] => True
  | it :: its, d :: ds => DocOK env S it d ∧ AllOK env S its ds
  | _, _ => False

theorem printAll_ok (env : Env) (S : PrintPrec) (m : Bool) (f : Printer) (hf : GoodV env S m f) :
    ∀ items st ds refs st', (∀ it ∈ items, cFragM m it.1 = true) →
      printAll f st items = .ok (ds, refs, st') → AllOK env S items ds := by
  intro items
  induction items with
  | nil =>
    intro st ds refs st' _ h
    simp only [printAll, pure, Except.pure, Except.ok.injEq, Prod.mk.injEq] at h
    obtain ⟨rfl, _, _⟩ := h
    trivial
  | cons x rest ih =>
    intro st ds refs st' hfr h
    obtain ⟨e, enc⟩ := x
    simp only [printAll, bind, Except.bind] at h
    cases h1 : f st e enc with
    | error err => simp [h1] at h
    | ok w =>
      obtain ⟨d1, r1, st1⟩ := w
      simp only [h1] at h
      cases h2 : printAll f st1 rest with
      | error err => simp [h2] at h
      | ok w2 =>
        obtain ⟨ds2, r2, st2⟩ := w2
        simp only [h2, pure, Except.pure, Except.ok.injEq, Prod.mk.injEq] at h
        obtain ⟨rfl, _, _⟩ := h
        exact ⟨hf st e enc d1 r1 st1 (hfr (e, enc) (by simp)) h1,
          ih st1 ds2 r2 st2 (fun it hit => hfr it (by simp [hit])) h2⟩

theorem ccodeGeneric_ok {S : PrintPrec} {f : Printer} {st : CSt} {e : Expr} {enc : Nat} {d : Doc}
    {refs : List String} {st' : CSt} (h : ccodeGeneric S f st e enc = .ok (d, refs, st')) :
    ∃ pl ds, plan S e enc = .ok pl ∧ printAll f st pl = .ok (ds, refs, st') ∧
      assemble S st.reverse e enc ds = .ok d := by
  simp only [ccodeGeneric, bind, Except.bind] at h
  cases hp : plan S e enc with
  | error err => simp [hp] at h
  | ok pl =>
    simp only [hp] at h
    cases h2 : printAll f st pl with
    | error err => simp [h2] at h
    | ok w =>
      obtain ⟨ds, r, st2⟩ := w
      simp only [h2] at h
      cases h3 : assemble S st.reverse e enc ds with
      | error err => simp [h3] at h
      | ok dd =>
        simp only [h3, pure, Except.pure, Except.ok.injEq, Prod.mk.injEq] at h
        obtain ⟨rfl, rfl, rfl⟩ := h
        exact ⟨pl, ds, rfl, h2, h3⟩

theorem printAll_nil {f : Printer} {st : CSt} {ds : List Doc} {refs : List String} {st' : CSt}
    (h : printAll f st [] = .ok (ds, refs, st')) : ds = [] := by
  simp only [printAll, pure, Except.pure, Except.ok.injEq, Prod.mk.injEq] at h
  exact h.1.symm

/-! ### operators by level -/

theorem rightOK_le {op o : COp} (h : rightOK op o = true) : op.prec ≤ o.prec := by
  simp only [rightOK, Bool.or_eq_true, decide_eq_true_eq, Bool.and_eq_true, beq_iff_eq] at h
  rcases h with h | ⟨h, _⟩ <;> omega

theorem rightOK_of_lt {op o : COp} (h : op.prec < o.prec) : rightOK op o = true := by
  simp [rightOK, h]

theorem rightOK_plus {o : COp} (h : 9 ≤ o.prec) : rightOK .plus o = true := by
  cases o with
  | cmp c => cases c <;> simp [COp.prec] at h
  | _ => simp_all [COp.prec, rightOK, assocPair]

theorem rightOK_band {o : COp} (h : 5 ≤ o.prec) : rightOK .band o = true := by
  cases o with
  | cmp c => cases c <;> simp [COp.prec, rightOK]
  | _ => simp_all [COp.prec, rightOK, assocPair]

theorem rightOK_bxor {o : COp} (h : 4 ≤ o.prec) : rightOK .bxor o = true := by
  cases o with
  | cmp c => cases c <;> simp [COp.prec, rightOK]
  | _ => simp_all [COp.prec, rightOK, assocPair]

theorem rightOK_bor {o : COp} (h : 3 ≤ o.prec) : rightOK .bor o = true := by
  cases o with
  | cmp c => cases c <;> simp [COp.prec, rightOK]
  | _ => simp_all [COp.prec, rightOK, assocPair]

theorem rightOK_land {o : COp} (h : 2 ≤ o.prec) : rightOK .land o = true := by
  cases o with
  | cmp c => cases c <;> simp [COp.prec, rightOK]
  | _ => simp_all [COp.prec, rightOK, assocPair]

theorem rightOK_lor (o : COp) : rightOK .lor o = true := by
  cases o with
  | cmp c => cases c <;> simp [COp.prec, rightOK]
  | _ => simp [COp.prec, rightOK, assocPair]

theorem rightOK_times {o : COp} (h : 10 ≤ o.prec) (hs : o.prec = 10 → o = .times) :
    rightOK .times o = true := by
  have h10 : o.prec = 10 := Nat.le_antisymm (prec_le_ten o) h
  rw [hs h10]
  rfl

/-- nothing binds tighter than the multiplicative level -/
theorem no_ops_of_eleven {d : Doc} (h : ∀ o ∈ exposedOps d, 11 ≤ o.prec) : exposedOps d = [] := by
  cases hd : exposedOps d with
  | nil => rfl
  | cons o os =>
    have := h o (by simp [hd])
    have := prec_le_ten o
    omega

/-! ### chains built by the printer -/

theorem foldl_bin (env : Env) (op : COp) : ∀ (ds : List Doc) (d0 : Doc),
    cwf d0 = true → (∀ o ∈ exposedOps d0, op.prec ≤ o.prec) →
    (∀ x ∈ ds, cwf x = true ∧ ∀ o ∈ exposedOps x, rightOK op o = true) →
    cwf (ds.foldl (fun acc x => Doc.bin acc op x) d0) = true ∧
    (∀ o ∈ exposedOps (ds.foldl (fun acc x => Doc.bin acc op x) d0),
      o ∈ exposedOps d0 ∨ o = op ∨ ∃ x ∈ ds, o ∈ exposedOps x) ∧
    denT env (ds.foldl (fun acc x => Doc.bin acc op x) d0) =
      ds.foldl (fun acc x => op.applyL acc (denT env x)) (denT env d0)
  | [], d0, h0, _, _ => ⟨h0, fun o ho => Or.inl ho, rfl⟩
  | x :: xs, d0, h0, hl, hr => by
      obtain ⟨hx1, hx2⟩ := hr x (by simp)
      have hw : cwf (Doc.bin d0 op x) = true := by
        simp only [cwf, Bool.and_eq_true, fitsL, fitsR, List.all_eq_true, decide_eq_true_eq]
        exact ⟨⟨⟨h0, hx1⟩, hl⟩, hx2⟩
      have he : ∀ o ∈ exposedOps (Doc.bin d0 op x), op.prec ≤ o.prec := by
        intro o ho
        simp only [exposedOps, List.mem_append, List.mem_cons] at ho
        rcases ho with ho | rfl | ho
        · exact hl o ho
        · exact Nat.le_refl _
        · exact rightOK_le (hx2 o ho)
      obtain ⟨a, b, c⟩ := foldl_bin env op xs (Doc.bin d0 op x) hw he
        (fun y hy => hr y (by simp [hy]))
      refine ⟨by simpa using a, ?_, by simpa [denT] using c⟩
      intro o ho
      rcases b o (by simpa using ho) with h | h | ⟨y, hy, h⟩
      · simp only [exposedOps, List.mem_append, List.mem_cons] at h
        rcases h with h | h | h
        · exact Or.inl h
        · exact Or.inr (Or.inl h)
        · exact Or.inr (Or.inr ⟨x, by simp, h⟩)
      · exact Or.inr (Or.inl h)
      · exact Or.inr (Or.inr ⟨y, by simp [hy], h⟩)

/-- `joinDocs op (d :: ds)` with every operand fit to stand right of `op` -/
theorem joinDocs_ok (env : Env) (op : COp) (d : Doc) (ds : List Doc)
    (h : ∀ x ∈ d :: ds, cwf x = true ∧ ∀ o ∈ exposedOps x, rightOK op o = true) :
    cwf (joinDocs op (d :: ds)) = true ∧
    (∀ o ∈ exposedOps (joinDocs op (d :: ds)), o = op ∨ ∃ x ∈ d :: ds, o ∈ exposedOps x) ∧
    denT env (joinDocs op (d :: ds)) =
      ds.foldl (fun acc x => op.applyL acc (denT env x)) (denT env d) := by
  obtain ⟨h1, h2⟩ := h d (by simp)
  obtain ⟨a, b, c⟩ := foldl_bin env op ds d h1 (fun o ho => rightOK_le (h2 o ho))
    (fun x hx => h x (by simp [hx]))
  refine ⟨a, ?_, c⟩
  intro o ho
  rcases b o ho with h | h | ⟨x, hx, h⟩
  · exact Or.inr ⟨d, by simp, h⟩
  · exact Or.inl h
  · exact Or.inr ⟨x, by simp [hx], h⟩

def sumT (env : Env) : List Doc → Option Int
  | [] => some 0
  | d :: ds => match denT env d, sumT env ds with
    | some v, some s => some (v + s)
    | _, _ => none

def prodT (env : Env) : List Doc → Option Int
  | [] => some 1
  | d :: ds => match denT env d, prodT env ds with
    | some v, some s => some (v * s)
    | _, _ => none

theorem applyL_plus_some (a b : Int) : COp.applyL .plus (some a) (some b) = some (a + b) := rfl
theorem applyL_minus_some (a b : Int) : COp.applyL .minus (some a) (some b) = some (a - b) := rfl
theorem applyL_times_some (a b : Int) : COp.applyL .times (some a) (some b) = some (a * b) := rfl

theorem fold_plus (env : Env) : ∀ (ds : List Doc) (a s : Int), sumT env ds = some s →
    ds.foldl (fun acc x => COp.applyL .plus acc (denT env x)) (some a) = some (a + s)
  | [], a, s, h => by
      simp only [sumT, Option.some.injEq] at h
      subst h
      simp
  | x :: xs, a, s, h => by
      simp only [sumT] at h
      cases hx : denT env x with
      | none => simp [hx] at h
      | some vx =>
        cases hr : sumT env xs with
        | none => simp [hx, hr] at h
        | some sr =>
          simp only [hx, hr, Option.some.injEq] at h
          subst h
          simp only [List.foldl_cons, hx, applyL_plus_some]
          rw [fold_plus env xs (a + vx) sr hr, Int.add_assoc]

theorem fold_minus (env : Env) : ∀ (ds : List Doc) (a s : Int), sumT env ds = some s →
    ds.foldl (fun acc x => COp.applyL .minus acc (denT env x)) (some a) = some (a - s)
  | [], a, s, h => by
      simp only [sumT, Option.some.injEq] at h
      subst h
      simp
  | x :: xs, a, s, h => by
      simp only [sumT] at h
      cases hx : denT env x with
      | none => simp [hx] at h
      | some vx =>
        cases hr : sumT env xs with
        | none => simp [hx, hr] at h
        | some sr =>
          simp only [hx, hr, Option.some.injEq] at h
          subst h
          simp only [List.foldl_cons, hx, applyL_minus_some]
          rw [fold_minus env xs (a - vx) sr hr]
          congr 1
          omega

theorem fold_times (env : Env) : ∀ (ds : List Doc) (a s : Int), prodT env ds = some s →
    ds.foldl (fun acc x => COp.applyL .times acc (denT env x)) (some a) = some (a * s)
  | [], a, s, h => by
      simp only [prodT, Option.some.injEq] at h
      subst h
      simp
  | x :: xs, a, s, h => by
      simp only [prodT] at h
      cases hx : denT env x with
      | none => simp [hx] at h
      | some vx =>
        cases hr : prodT env xs with
        | none => simp [hx, hr] at h
        | some sr =>
          simp only [hx, hr, Option.some.injEq] at h
          subst h
          simp only [List.foldl_cons, hx, applyL_times_some]
          rw [fold_times env xs (a * vx) sr hr, Int.mul_assoc]

/-! sorting does not change the sum -/

theorem sumT_insert (env : Env) (rev : Bool) (x : Doc) : ∀ l : List Doc,
    sumT env (insertDoc rev x l) = sumT env (x :: l)
  | [] => rfl
  | y :: ys => by
      simp only [insertDoc]
      split
      · rfl
      · simp only [sumT, sumT_insert env rev x ys]
        cases denT env x <;> cases denT env y <;> cases sumT env ys <;> simp <;> omega

theorem sumT_sort (env : Env) (rev : Bool) : ∀ l : List Doc, sumT env (sortDocs rev l) = sumT env l
  | [] => rfl
  | x :: xs => by
      simp only [sortDocs, sumT_insert, sumT, sumT_sort env rev xs]

theorem mem_insertDoc (rev : Bool) (x y : Doc) : ∀ l : List Doc,
    y ∈ insertDoc rev x l ↔ y = x ∨ y ∈ l
  | [] => by simp [insertDoc]
  | z :: zs => by
      simp only [insertDoc]
      split
      · simp
      · simp only [List.mem_cons, mem_insertDoc rev x y zs]
        constructor
        · rintro (h | h | h) <;> simp [h]
        · rintro (h | h | h) <;> simp [h]

theorem mem_sortDocs (rev : Bool) (y : Doc) : ∀ l : List Doc, y ∈ sortDocs rev l ↔ y ∈ l
  | [] => by simp [sortDocs]
  | x :: xs => by simp [sortDocs, mem_insertDoc, mem_sortDocs rev y xs]

theorem sortDocs_ne_nil (rev : Bool) : ∀ l : List Doc, l ≠ [] → sortDocs rev l ≠ []
  | [], h => absurd rfl h
  | x :: xs, _ => by
      intro hc
      have : x ∈ sortDocs rev (x :: xs) := (mem_sortDocs rev x _).mpr (by simp)
      rw [hc] at this
      cases this

/-! ### `get_neg_product` on the fragment -/

theorem cFragM_head (m : Bool) (e : Expr) (h : cFragM m e = true) :
    (∃ n, e = .const (.int n)) ∨ e.isNode = true := by
  cases e with
  | const c => cases c <;> simp [cFragM] at h; exact Or.inl ⟨_, rfl⟩
  | tuple cs => simp [cFragM] at h
  | list cs => simp [cFragM] at h
  | _ => exact Or.inr rfl

theorem plusOneIsZero_frag (m : Bool) (c0 : Expr) (h : cFragM m c0 = true) :
    plusOneIsZero c0 = .ok (isNegOneE c0) := by
  rcases cFragM_head m c0 h with ⟨n, rfl⟩ | hn
  · simp only [plusOneIsZero, isNegOneE, pure, Except.pure]
    have : (n + 1 == 0) = (n == -1) := by
      rw [Bool.eq_iff_iff]
      simp only [beq_iff_eq]
      omega
    rw [this]
  · rw [plusOneIsZero_node c0 hn]
    cases c0 <;> simp [Expr.isNode] at hn <;> rfl

/-- `get_neg_product` on the fragment: exactly the products `-1 * …` -/
theorem negProd_frag (m : Bool) (ch : Expr) (h : cFragM m ch = true) :
    negProd ch = .ok (if negShape ch then some (negBody ch) else none) := by
  cases ch with
  | nary op cs =>
    cases op with
    | prod =>
      match cs, h with
      | c0 :: c1 :: rest, h =>
        simp only [cFragM, Bool.and_eq_true] at h
        have h0 := plusOneIsZero_frag m c0 h.1.1
        simp only [negProd, h0]
        cases c0 with
        | const c =>
          cases c with
          | int n =>
            by_cases hn : n = -1
            · subst hn
              cases rest <;> simp [isNegOneE, negShape, negBody, pure, Except.pure]
            · have hf : (n == -1) = false := by simp [hn]
              simp [isNegOneE, negShape, hf, pure, Except.pure]
          | _ => simp [isNegOneE, negShape, pure, Except.pure]
        | _ => simp [isNegOneE, negShape, pure, Except.pure]
    | _ => simp [negProd, negShape, pure, Except.pure]
  | _ => simp [negProd, negShape, pure, Except.pure]

theorem cFragMP_L (m : Bool) : ∀ cs : List Expr, cFragMP m cs = true → cFragML m cs = true
  | [], _ => rfl
  | c :: cs, h => by
      simp only [cFragMP, Bool.and_eq_true] at h
      simp [cFragML, h.1.1, cFragMP_L m cs h.2]

theorem cFragML_mem (m : Bool) : ∀ (l : List Expr), cFragML m l = true → ∀ x ∈ l, cFragM m x = true
  | [], _, x, hx => by cases hx
  | y :: ys, hl, x, hx => by
      simp only [cFragML, Bool.and_eq_true] at hl
      simp only [List.mem_cons] at hx
      rcases hx with rfl | hx
      · exact hl.1
      · exact cFragML_mem m ys hl.2 x hx

/-- the body of a `-1 * …` term of the fragment is in the fragment -/
theorem negBody_frag (m : Bool) (ch : Expr) (h : cFragM m ch = true) (hn : negShape ch = true) :
    cFragM m (negBody ch) = true := by
  cases ch with
  | nary op cs =>
    cases op with
    | prod =>
      match cs, h, hn with
      | .const (.int n) :: c1 :: rest, h, hn =>
        simp only [cFragM, Bool.and_eq_true] at h
        obtain ⟨_, hP⟩ := h
        cases rest with
        | nil =>
          simp only [cFragMP, Bool.and_eq_true] at hP
          simpa [negBody] using hP.1.1
        | cons c2 rest' =>
          simp only [negBody, cFragM]
          simp only [cFragMP, Bool.and_eq_true] at hP
          simp [hP.1.1, hP.1.2, cFragMP, hP.2]
    | _ => simp [negShape] at hn
  | _ => simp [negShape] at hn

/-- … and means the negated value -/
theorem negBody_val (env : Env) (m : Bool) (ch : Expr) (h : cFragM m ch = true)
    (hn : negShape ch = true) (w : CVal) (hv : denV env ch = some w) :
    ∃ w', denV env (negBody ch) = some w' ∧ w'.toInt = -w.toInt := by
  cases ch with
  | nary op cs =>
    cases op with
    | prod =>
      match cs, h, hn, hv with
      | .const (.int n) :: c1 :: rest, h, hn, hv =>
        simp only [negShape, beq_iff_eq] at hn
        subst hn
        simp only [denV, denVL] at hv
        cases h1 : denV env c1 with
        | none => simp [h1] at hv
        | some v1 =>
          cases hr : denVL env rest with
          | none => simp [h1, hr] at hv
          | some vr =>
            simp only [h1, hr, Option.map_some, Option.some.injEq] at hv
            subst hv
            cases rest with
            | nil =>
              simp only [denVL, Option.some.injEq] at hr
              subst hr
              refine ⟨v1, by simpa [negBody] using h1, ?_⟩
              simp only [List.map_cons, List.map_nil, prodL, toInt_i]
              omega
            | cons c2 rest' =>
              simp only [denVL] at hr
              cases h2 : denV env c2 with
              | none => simp [h2] at hr
              | some v2 =>
                cases hr' : denVL env rest' with
                | none => simp [h2, hr'] at hr
                | some vr' =>
                  simp only [h2, hr', Option.some.injEq] at hr
                  subst hr
                  refine ⟨.i (prodL (List.map CVal.toInt (v1 :: v2 :: vr'))),
                    by simp only [negBody, denV, denVL, h1, h2, hr', Option.map_some], ?_⟩
                  simp [prodL, Int.neg_mul]
    | _ => simp [negShape] at hn
  | _ => simp [negShape] at hn

/-- the arithmetic fragment contains none of the operators of the lower levels -/
theorem kind_ok (S : PrintPrec) (m : Bool) (hm : m = true → PrecB S) (e : Expr)
    (h : cFragM m e = true) : PrecB S ∨ newKind e = false := by
  cases m with
  | true => exact Or.inl (hm rfl)
  | false =>
    refine Or.inr ?_
    cases e with
    | nary op cs =>
      cases op <;> first
        | rfl
        | (match cs, h with
           | [], h => simp [cFragM] at h
           | [_], h => simp [cFragM] at h
           | _ :: _ :: _, h => simp [cFragM] at h)
    | bin op a b => cases op <;> first | rfl | simp [cFragM] at h
    | cmp o a b => simp [cFragM] at h
    | _ => rfl

/-! the planned calls of a sum -/

def sumItems (S : PrintPrec) (cs : List Expr) : List (Expr × Nat) :=
  cs.map fun ch => if negShape ch then (negBody ch, S.product) else (ch, S.sum)

theorem sumPlan_frag (S : PrintPrec) (m : Bool) : ∀ cs : List Expr, cFragML m cs = true →
    sumPlan S cs = .ok (sumItems S cs)
  | [], _ => rfl
  | c :: cs, h => by
      simp only [cFragML, Bool.and_eq_true] at h
      simp only [sumPlan, negProd_frag m c h.1, sumPlan_frag S m cs h.2, sumItems, List.map_cons]
      cases negShape c <;> simp [bind, Except.bind, pure, Except.pure]

theorem sumItems_frag (S : PrintPrec) (m : Bool) : ∀ cs : List Expr, cFragML m cs = true →
    ∀ it ∈ sumItems S cs, cFragM m it.1 = true
  | [], _, it, hit => by simp [sumItems] at hit
  | c :: cs, h, it, hit => by
      simp only [cFragML, Bool.and_eq_true] at h
      simp only [sumItems, List.map_cons, List.mem_cons] at hit
      rcases hit with rfl | hit
      · cases hn : negShape c with
        | true => simpa using negBody_frag m c h.1 hn
        | false => simpa using h.1
      · exact sumItems_frag S m cs h.2 it hit

theorem sum_split_val (env : Env) (S : PrintPrec) (m : Bool) :
    ∀ (cs : List Expr) (ds : List Doc) (vs : List CVal), cFragML m cs = true →
    denVL env cs = some vs → AllOK env S (sumItems S cs) ds →
    ∃ P N, sumT env (sumSplit cs ds).1 = some P ∧ sumT env (sumSplit cs ds).2 = some N ∧
      P - N = sumL (vs.map CVal.toInt)
  | [], ds, vs, _, hv, _ => by
      simp only [denVL, Option.some.injEq] at hv
      subst hv
      exact ⟨0, 0, by simp [sumSplit, sumT], by simp [sumSplit, sumT], by simp [sumL]⟩
  | c :: cs, [], vs, _, _, hf => by simp [sumItems, AllOK] at hf
  | c :: cs, d :: ds, vs, h, hv, hf => by
      simp only [cFragML, Bool.and_eq_true] at h
      simp only [denVL] at hv
      cases hc : denV env c with
      | none => simp [hc] at hv
      | some v =>
        cases hcs : denVL env cs with
        | none => simp [hc, hcs] at hv
        | some ws =>
          simp only [hc, hcs, Option.some.injEq] at hv
          subst hv
          simp only [sumItems, List.map_cons, AllOK] at hf
          obtain ⟨f1, f2⟩ := hf
          obtain ⟨P, N, hP, hN, hPN⟩ := sum_split_val env S m cs ds ws h.2 hcs f2
          simp only [sumSplit, negProd_frag m c h.1]
          cases hn : negShape c with
          | true =>
            simp only [hn, if_true] at f1
            obtain ⟨w', hw1, hw2⟩ := negBody_val env m c h.1 hn v hc
            have hd := f1.2 w' hw1
            refine ⟨P, -v.toInt + N, by simpa using hP, ?_, ?_⟩
            · simp [sumT, hd, hN, hw2]
            · simp only [List.map_cons, sumL]; omega
          | false =>
            simp only [hn, Bool.false_eq_true, if_false] at f1
            have hd := f1.2 v hc
            refine ⟨v.toInt + P, N, ?_, by simpa using hN, ?_⟩
            · simp [sumT, hd, hP]
            · simp only [List.map_cons, sumL]; omega

theorem sum_split_shape (env : Env) (S : PrintPrec) (m : Bool) (hA : PrecA S)
    (hm : m = true → PrecB S) :
    ∀ (cs : List Expr) (ds : List Doc), cFragML m cs = true → AllOK env S (sumItems S cs) ds →
    (∀ x ∈ (sumSplit cs ds).1, cwf x = true ∧ ∀ o ∈ exposedOps x, 9 ≤ o.prec) ∧
    (∀ x ∈ (sumSplit cs ds).2, cwf x = true ∧ ∀ o ∈ exposedOps x, 10 ≤ o.prec) ∧
    (∀ c cs', cs = c :: cs' → negShape c = false → (sumSplit cs ds).1 ≠ [])
  | [], ds, _, _ => by simp [sumSplit]
  | c :: cs, [], _, hf => by simp [sumItems, AllOK] at hf
  | c :: cs, d :: ds, h, hf => by
      simp only [cFragML, Bool.and_eq_true] at h
      simp only [sumItems, List.map_cons, AllOK] at hf
      obtain ⟨f1, f2⟩ := hf
      obtain ⟨hp, hn', _⟩ := sum_split_shape env S m hA hm cs ds h.2 f2
      simp only [sumSplit, negProd_frag m c h.1]
      cases hn : negShape c with
      | true =>
        simp only [hn, if_true] at f1
        have hk := kind_ok S m hm _ (negBody_frag m c h.1 hn)
        have hctx := (ctx_all S hA (negBody c) hk).2.1
        refine ⟨by simpa using hp, ?_, ?_⟩
        · intro x hx
          simp only [if_true, List.mem_cons] at hx
          rcases hx with rfl | hx
          · exact ⟨f1.1.wf, fun o ho => Nat.le_trans hctx (f1.1.expo o ho)⟩
          · exact hn' x hx
        · intro c' cs' he hc'
          simp only [List.cons.injEq] at he
          rw [← he.1, hn] at hc'
          cases hc'
      | false =>
        simp only [hn, Bool.false_eq_true, if_false] at f1
        have hk := kind_ok S m hm _ h.1
        have hctx := (ctx_all S hA c hk).1
        refine ⟨?_, by simpa using hn', ?_⟩
        · intro x hx
          simp only [Bool.false_eq_true, if_false, List.mem_cons] at hx
          rcases hx with rfl | hx
          · exact ⟨f1.1.wf, fun o ho => Nat.le_trans hctx (f1.1.expo o ho)⟩
          · exact hp x hx
        · intro _ _ _ _
          simp

/-- the operands of a product -/
theorem allOK_prod (env : Env) (S : PrintPrec) (m : Bool) (hA : PrecA S)
    (hm : m = true → PrecB S) :
    ∀ (cs : List Expr) (ds : List Doc), cFragMP m cs = true →
    AllOK env S (cs.map (·, S.product)) ds →
    ds.length = cs.length ∧
    (∀ x ∈ ds, cwf x = true ∧ ∀ o ∈ exposedOps x, rightOK .times o = true) ∧
    (∀ vs, denVL env cs = some vs → prodT env ds = some (prodL (vs.map CVal.toInt)))
  | [], [], _, _ => by
      refine ⟨rfl, by simp, ?_⟩
      intro vs hv
      simp only [denVL, Option.some.injEq] at hv
      subst hv
      simp [prodT, prodL]
  | [], _ :: _, _, hf => by simp [AllOK] at hf
  | _ :: _, [], _, hf => by simp [AllOK] at hf
  | c :: cs, d :: ds, h, hf => by
      simp only [cFragMP, Bool.and_eq_true, Bool.not_eq_true'] at h
      simp only [List.map_cons, AllOK] at hf
      obtain ⟨f1, f2⟩ := hf
      obtain ⟨a, b, c'⟩ := allOK_prod env S m hA hm cs ds h.2 f2
      have hk := kind_ok S m hm _ h.1.1
      have hctx := (ctx_all S hA c hk).2.1
      refine ⟨by simp [a], ?_, ?_⟩
      · intro x hx
        simp only [List.mem_cons] at hx
        rcases hx with rfl | hx
        · refine ⟨f1.1.wf, fun o ho => rightOK_times (Nat.le_trans hctx (f1.1.expo o ho)) ?_⟩
          exact f1.1.safe hA.1 h.1.2 o ho
        · exact b x hx
      · intro vs hv
        simp only [denVL] at hv
        cases hc : denV env c with
        | none => simp [hc] at hv
        | some v =>
          cases hcs : denVL env cs with
          | none => simp [hc, hcs] at hv
          | some ws =>
            simp only [hc, hcs, Option.some.injEq] at hv
            subst hv
            simp [prodT, f1.2 v hc, c' ws hcs, prodL]

theorem powPlan_var_two (x : String) :
    ∃ r, powPlan (.var x) (.const (.int 2)) = .ok (.square r) ∧
      r = .nary .prod [.var x, .var x] := by
  refine ⟨_, ?_, rfl⟩
  simp [powPlan, Expr.isConstant, Const.truthy, Const.isOne, Const.isTwo, Ops.bin, dispatch,
    Expr.isNode, mulD, Expr.isValidOperand, Expr.isOne, Expr.isZero, Expr.truthy, pure,
    Except.pure]

theorem shape_paren {S : PrintPrec} {e : Expr} {k : Nat} {d : Doc} (h : cwf d = true) :
    Shape S e k (.paren d) :=
  ⟨by simpa [cwf] using h, fun o ho => by simp [exposedOps] at ho,
    fun _ _ o ho => by simp [exposedOps] at ho⟩

theorem rightOK_times_inv {o : COp} (h : rightOK .times o = true) (hp : o.prec = 10) :
    o = .times := by
  cases o with
  | cmp c => cases c <;> simp [COp.prec] at hp
  | _ => simp_all [COp.prec, rightOK, assocPair]

theorem cmp_prec (o : CmpOp) (a b : Expr) : (COp.cmp o).prec = cRoot (.cmp o a b) ∧
    6 ≤ (COp.cmp o).prec ∧ (COp.cmp o).prec ≤ 7 := by
  cases o <;> simp [COp.prec, cRoot]

/-- a divisor that is neither multiplicative nor a power is printed as a primary -/
theorem simple_root (S : PrintPrec) (hA : PrecA S) (b : Expr) (h : PrecB S ∨ newKind b = false)
    (h1 : isMultiplicative b = false) (h2 : isPow b = false) : 11 ≤ cRootAt S S.product b := by
  obtain ⟨a1, a2⟩ := hA
  have fin : ∀ p r, pyPrec S b = p → cRoot b = r → (r = 11 ∨ p < S.product) →
      11 ≤ cRootAt S S.product b := by
    intro p r hp hr hc
    simp only [cRootAt, hp, hr]
    split <;> omega
  have low : PrecB S → ∀ p, (p = S.band ∨ p = S.bxor ∨ p = S.bor ∨ p = S.land ∨ p = S.lor ∨
      p = S.shift ∨ p = S.comparison) → p < S.product := by
    intro hB p hp
    obtain ⟨b1, b2, b3, b4, b5, b6, b7, b8⟩ := hB
    omega
  cases b with
  | nary op cs =>
    cases op
    · exact fin _ _ rfl rfl (Or.inr a1)
    · simp [isMultiplicative] at h1
    · exact fin _ _ rfl rfl (Or.inr (low (by simpa [newKind] using h) _ (Or.inr (Or.inr (Or.inl rfl)))))
    · exact fin _ _ rfl rfl (Or.inr (low (by simpa [newKind] using h) _ (Or.inr (Or.inl rfl))))
    · exact fin _ _ rfl rfl (Or.inr (low (by simpa [newKind] using h) _ (Or.inl rfl)))
    · exact fin _ _ rfl rfl (Or.inr (low (by simpa [newKind] using h) _ (Or.inr (Or.inr (Or.inr (Or.inr (Or.inl rfl)))))))
    · exact fin _ _ rfl rfl (Or.inr (low (by simpa [newKind] using h) _ (Or.inr (Or.inr (Or.inr (Or.inl rfl))))))
    · exact fin _ _ rfl rfl (Or.inl rfl)
    · exact fin _ _ rfl rfl (Or.inl rfl)
  | bin op x y =>
    cases op
    · exact fin _ _ rfl rfl (Or.inl rfl)
    · exact fin _ _ rfl rfl (Or.inl rfl)
    · simp [isMultiplicative] at h1
    · simp [isPow] at h2
    · exact fin _ _ rfl rfl (Or.inr (low (by simpa [newKind] using h) _ (Or.inr (Or.inr (Or.inr (Or.inr (Or.inr (Or.inl rfl))))))))
    · exact fin _ _ rfl rfl (Or.inr (low (by simpa [newKind] using h) _ (Or.inr (Or.inr (Or.inr (Or.inr (Or.inr (Or.inl rfl))))))))
  | cmp o x y =>
    have hB : PrecB S := by simpa [newKind] using h
    cases o <;> exact fin _ _ rfl rfl (Or.inr (low hB _
      (Or.inr (Or.inr (Or.inr (Or.inr (Or.inr (Or.inr rfl))))))))
  | _ => exact fin _ _ rfl rfl (Or.inl rfl)

theorem docOK_parenIf (env : Env) (S : PrintPrec) (e : Expr) (enc lvl : Nat) (X : Doc)
    (hw : cwf X = true)
    (hx : enc ≤ lvl → ∀ o ∈ exposedOps X, cRootAt S enc e ≤ o.prec)
    (hs : S.sum < enc → enc ≤ lvl → isRem e = false → ∀ o ∈ exposedOps X, o.prec = 10 → o = .times)
    (hv : ∀ w, denV env e = some w → denT env X = some w.toInt) :
    DocOK env S (e, enc) (parenIfD X enc lvl) := by
  simp only [parenIfD]
  split
  · exact ⟨shape_paren hw, fun w hw' => by simpa [denT] using hv w hw'⟩
  · rename_i hc
    have hle : enc ≤ lvl := Nat.le_of_not_lt hc
    exact ⟨⟨hw, hx hle, fun h1 => hs h1 hle⟩, hv⟩

/-- operands printed at one level `lvl` whose context needs C level `r` -/
theorem allOK_level (env : Env) (S : PrintPrec) (m : Bool) (hm : m = true → PrecB S) (lvl r : Nat)
    (hb : ∀ c, (PrecB S ∨ newKind c = false) → r ≤ cRootAt S lvl c) :
    ∀ (cs : List Expr) (ds : List Doc), cFragML m cs = true → AllOK env S (cs.map (·, lvl)) ds →
    ds.length = cs.length ∧ ∀ x ∈ ds, cwf x = true ∧ ∀ o ∈ exposedOps x, r ≤ o.prec
  | [], [], _, _ => by simp
  | [], _ :: _, _, hf => by simp [AllOK] at hf
  | _ :: _, [], _, hf => by simp [AllOK] at hf
  | c :: cs, d :: ds, h, hf => by
      simp only [cFragML, Bool.and_eq_true] at h
      simp only [List.map_cons, AllOK] at hf
      obtain ⟨f1, f2⟩ := hf
      obtain ⟨a, b⟩ := allOK_level env S m hm lvl r hb cs ds h.2 f2
      refine ⟨by simp [a], ?_⟩
      intro x hx
      simp only [List.mem_cons] at hx
      rcases hx with rfl | hx
      · exact ⟨f1.1.wf, fun o ho => Nat.le_trans (hb c (kind_ok S m hm c h.1)) (f1.1.expo o ho)⟩
      · exact b x hx

/-- the C operator of a bitwise node -/
def bitCOp : NaryOp → COp
  | .band => .band
  | .bxor => .bxor
  | _ => .bor

theorem applyL_bit (op : NaryOp) (hop : op = .band ∨ op = .bxor ∨ op = .bor) (x y r : CVal)
    (h : bitV op x y = some r) :
    (bitCOp op).applyL (some x.toInt) (some y.toInt) = some r.toInt := by
  obtain ⟨h1, h2, h3⟩ := bitV_toInt op x y r h
  have n1 : ¬ (x.toInt < 0 ∨ y.toInt < 0) := by omega
  rcases hop with rfl | rfl | rfl <;> simp [bitCOp, COp.applyL, COp.apply, n1, h3, bitNat]

theorem fold_bit (env : Env) (S : PrintPrec) (lvl : Nat) (op : NaryOp)
    (hop : op = .band ∨ op = .bxor ∨ op = .bor) :
    ∀ (cs : List Expr) (ds : List Doc) (acc r : CVal), AllOK env S (cs.map (·, lvl)) ds →
    denVBit env op acc cs = some r →
    ds.foldl (fun a x => (bitCOp op).applyL a (denT env x)) (some acc.toInt) = some r.toInt
  | [], [], acc, r, _, h => by
      simp only [denVBit, Option.some.injEq] at h
      subst h
      rfl
  | [], _ :: _, _, _, hf, _ => by simp [AllOK] at hf
  | _ :: _, [], _, _, hf, _ => by simp [AllOK] at hf
  | c :: cs, d :: ds, acc, r, hf, h => by
      simp only [List.map_cons, AllOK] at hf
      obtain ⟨f1, f2⟩ := hf
      simp only [denVBit] at h
      cases hc : denV env c with
      | none => simp [hc] at h
      | some w =>
        simp only [hc] at h
        cases hb : bitV op acc w with
        | none => simp [hb] at h
        | some acc' =>
          simp only [hb] at h
          simp only [List.foldl_cons, f1.2 w hc, applyL_bit op hop acc w acc' hb]
          exact fold_bit env S lvl op hop cs ds acc' r f2 h

theorem fold_land_zero (env : Env) : ∀ ds : List Doc,
    ds.foldl (fun a x => COp.applyL .land a (denT env x)) (some 0) = some 0
  | [] => rfl
  | d :: ds => by
      simp only [List.foldl_cons]
      have : COp.applyL .land (some 0) (denT env d) = some 0 := by simp [COp.applyL]
      rw [this]
      exact fold_land_zero env ds

theorem fold_land (env : Env) (S : PrintPrec) (lvl : Nat) :
    ∀ (cs : List Expr) (ds : List Doc) (a : Int) (r : CVal), AllOK env S (cs.map (·, lvl)) ds →
    cs ≠ [] → a ≠ 0 → denVAll env cs = some r →
    ds.foldl (fun a x => COp.applyL .land a (denT env x)) (some a) = some r.toInt
  | [], _, _, _, _, hne, _, _ => absurd rfl hne
  | _ :: _, [], _, _, hf, _, _, _ => by simp [AllOK] at hf
  | c :: cs, d :: ds, a, r, hf, _, ha, h => by
      simp only [List.map_cons, AllOK] at hf
      obtain ⟨f1, f2⟩ := hf
      simp only [denVAll] at h
      cases hc : denV env c with
      | none => simp [hc] at h
      | some w =>
        simp only [hc] at h
        simp only [List.foldl_cons, f1.2 w hc]
        by_cases hw : w.toInt = 0
        · simp only [hw, if_true, Option.some.injEq] at h
          subst h
          have : COp.applyL .land (some a) (some 0) = some 0 := by simp [COp.applyL, ha, c14B2I]
          rw [hw, this]
          exact fold_land_zero env ds
        · simp only [hw, if_false] at h
          have h1 : COp.applyL .land (some a) (some w.toInt) = some 1 := by
            simp [COp.applyL, ha, hw, c14B2I]
          rw [h1]
          cases cs with
          | nil =>
            match ds, f2 with
            | [], _ =>
              simp only [denVAll, Option.some.injEq] at h
              subst h
              rfl
          | cons c' rest =>
            exact fold_land env S lvl (c' :: rest) ds 1 r f2 (by simp) (by decide) h

theorem fold_lor_one (env : Env) : ∀ (ds : List Doc) (a : Int), a ≠ 0 → ds ≠ [] →
    ds.foldl (fun a x => COp.applyL .lor a (denT env x)) (some a) = some 1
  | [], _, _, hne => absurd rfl hne
  | d :: ds, a, ha, _ => by
      simp only [List.foldl_cons]
      have : COp.applyL .lor (some a) (denT env d) = some 1 := by simp [COp.applyL, ha]
      rw [this]
      cases ds with
      | nil => rfl
      | cons d' ds' => exact fold_lor_one env (d' :: ds') 1 (by decide) (by simp)

theorem fold_lor (env : Env) (S : PrintPrec) (lvl : Nat) :
    ∀ (cs : List Expr) (ds : List Doc) (r : CVal), AllOK env S (cs.map (·, lvl)) ds →
    cs ≠ [] → denVAny env cs = some r →
    ds.foldl (fun a x => COp.applyL .lor a (denT env x)) (some 0) = some r.toInt
  | [], _, _, _, hne, _ => absurd rfl hne
  | _ :: _, [], _, hf, _, _ => by simp [AllOK] at hf
  | c :: cs, d :: ds, r, hf, _, h => by
      simp only [List.map_cons, AllOK] at hf
      obtain ⟨f1, f2⟩ := hf
      simp only [denVAny] at h
      cases hc : denV env c with
      | none => simp [hc] at h
      | some w =>
        simp only [hc] at h
        simp only [List.foldl_cons, f1.2 w hc]
        by_cases hw : w.toInt = 0
        · simp only [hw, if_true] at h
          have h1 : COp.applyL .lor (some 0) (some w.toInt) = some 0 := by
            simp [COp.applyL, hw, c14B2I]
          rw [h1]
          cases cs with
          | nil =>
            match ds, f2 with
            | [], _ =>
              simp only [denVAny, Option.some.injEq] at h
              subst h
              rfl
          | cons c' rest => exact fold_lor env S lvl (c' :: rest) ds r f2 (by simp) h
        · simp only [hw, if_false, Option.some.injEq] at h
          subst h
          have h1 : COp.applyL .lor (some 0) (some w.toInt) = some 1 := by
            simp [COp.applyL, hw, c14B2I]
          rw [h1]
          cases ds with
          | nil => rfl
          | cons d' ds' => exact fold_lor_one env (d' :: ds') 1 (by decide) (by simp)

theorem exposed_paren_or (X : Doc) (c : Bool) : ∀ o ∈ exposedOps (if c then Doc.paren X else X),
    o ∈ exposedOps X := by
  intro o ho
  cases c with
  | true => simp [exposedOps] at ho
  | false => simpa using ho

theorem denT_forceWrap (env : Env) (e : Expr) (d : Doc) : denT env (forceWrapD e d) = denT env d := by
  simp only [forceWrapD]; split <;> simp [denT]

theorem cwf_forceWrap (e : Expr) (d : Doc) (h : cwf d = true) : cwf (forceWrapD e d) = true := by
  simp only [forceWrapD]; split <;> simp [cwf, h]

theorem exposed_forceWrap (e : Expr) (d : Doc) : ∀ o ∈ exposedOps (forceWrapD e d),
    o ∈ exposedOps d ∧ isMultiplicative e = false := by
  intro o ho
  simp only [forceWrapD] at ho
  split at ho
  · simp [exposedOps] at ho
  · rename_i hm
    exact ⟨ho, by simpa using hm⟩

/-- **the printed structure is well formed for C's grammar and its value is the fragment's
meaning**, for every allocator state, enclosing precedence and recursion budget -/
theorem value_core (env : Env) (S : PrintPrec) (m : Bool) (hA : PrecA S)
    (hm : m = true → PrecB S) : ∀ fuel, GoodV env S m (ccodeE S fuel) := by
  intro fuel
  induction fuel with
  | zero =>
    intro st e enc d refs st' _ h
    simp [ccodeE, throw, throwThe, MonadExceptOf.throw] at h
  | succ n ih =>
    intro st e enc d refs st' hfrag h
    have ctx := fun (c : Expr) (hc : cFragM m c = true) => ctx_all S hA c (kind_ok S m hm c hc)
    cases e with
    | const c =>
      cases c with
      | int k =>
        simp only [ccodeE] at h
        obtain ⟨pl, ds, hp, hpa, has⟩ := ccodeGeneric_ok h
        simp only [assemble, constDoc, pure, Except.pure, Except.ok.injEq] at has
        subst has
        split
        · exact ⟨shape_paren rfl, fun w hw => by
            simp only [denV, Option.some.injEq] at hw; subst hw; rfl⟩
        · exact ⟨⟨rfl, fun o ho => by simp [exposedOps] at ho,
            fun _ _ o ho => by simp [exposedOps] at ho⟩, fun w hw => by
            simp only [denV, Option.some.injEq] at hw; subst hw; rfl⟩
      | _ => simp [cFragM] at hfrag
    | var x =>
      simp only [ccodeE] at h
      obtain ⟨pl, ds, hp, hpa, has⟩ := ccodeGeneric_ok h
      simp only [assemble, pure, Except.pure, Except.ok.injEq] at has
      subst has
      refine ⟨⟨rfl, fun o ho => by simp [exposedOps] at ho,
        fun _ _ o ho => by simp [exposedOps] at ho⟩, fun w hw => ?_⟩
      simp only [denV] at hw
      cases hx : envInt env x with
      | none => simp [hx] at hw
      | some k =>
        simp only [hx, Option.map_some, Option.some.injEq] at hw
        subst hw
        simpa [denT] using hx
    | nary op cs =>
      cases op with
      | sum =>
        match cs, hfrag with
        | c :: cs', hfrag =>
          simp only [cFragM, Bool.and_eq_true, Bool.not_eq_true'] at hfrag
          have hL : cFragML m (c :: cs') = true := by simp [cFragML, hfrag.1.1, hfrag.2]
          simp only [ccodeE] at h
          obtain ⟨pl, ds, hp, hpa, has⟩ := ccodeGeneric_ok h
          simp only [plan, sumPlan_frag S m _ hL, Except.ok.injEq] at hp
          subst hp
          have hall := printAll_ok env S m _ ih _ st ds refs st' (sumItems_frag S m _ hL) hpa
          obtain ⟨hps, hns, hne⟩ := sum_split_shape env S m hA hm _ ds hL hall
          have hne' := hne c cs' rfl hfrag.1.2
          simp only [assemble, pure, Except.pure, Except.ok.injEq] at has
          subst has
          -- the sorted positives
          cases hsp : sortDocs st.reverse (sumSplit (c :: cs') ds).1 with
          | nil => exact absurd hsp (sortDocs_ne_nil _ _ hne')
          | cons p0 prest =>
            have hpmem : ∀ x ∈ p0 :: prest, x ∈ (sumSplit (c :: cs') ds).1 := by
              intro x hx
              rw [← hsp] at hx
              exact (mem_sortDocs _ _ _).mp hx
            obtain ⟨j1, j2, j3⟩ := joinDocs_ok env .plus p0 prest (fun x hx =>
              ⟨(hps x (hpmem x hx)).1, fun o ho => rightOK_plus ((hps x (hpmem x hx)).2 o ho)⟩)
            have hpos9 : ∀ o ∈ exposedOps (joinDocs .plus (p0 :: prest)), 9 ≤ o.prec := by
              intro o ho
              rcases j2 o ho with rfl | ⟨x, hx, hox⟩
              · decide
              · exact (hps x (hpmem x hx)).2 o hox
            obtain ⟨k1, k2, k3⟩ := foldl_bin env .minus
              (sortDocs st.reverse (sumSplit (c :: cs') ds).2) (joinDocs .plus (p0 :: prest)) j1
              hpos9 (fun x hx => ⟨(hns x ((mem_sortDocs _ _ _).mp hx)).1, fun o ho =>
                rightOK_of_lt (Nat.lt_of_lt_of_le (by decide)
                  ((hns x ((mem_sortDocs _ _ _).mp hx)).2 o ho))⟩)
            refine docOK_parenIf env S _ enc S.sum _ k1 ?_ ?_ ?_
            · intro hle o ho
              simp only [cRootAt, pyPrec, hle, if_true, cRoot]
              rcases k2 o ho with h1 | rfl | ⟨x, hx, hox⟩
              · exact hpos9 o h1
              · decide
              · exact Nat.le_trans (by decide) ((hns x ((mem_sortDocs _ _ _).mp hx)).2 o hox)
            · intro h1 h2
              omega
            · intro w hw
              simp only [denV] at hw
              cases hvs : denVL env (c :: cs') with
              | none => simp [hvs] at hw
              | some vs =>
                simp only [hvs, Option.map_some, Option.some.injEq] at hw
                subst hw
                obtain ⟨P, N, hP, hN, hPN⟩ := sum_split_val env S m _ ds vs hL hvs hall
                have hP' : sumT env (p0 :: prest) = some P := by
                  rw [← hsp, sumT_sort]; exact hP
                simp only [sumT] at hP'
                cases h0 : denT env p0 with
                | none => simp [h0] at hP'
                | some a =>
                  cases hr : sumT env prest with
                  | none => simp [h0, hr] at hP'
                  | some s =>
                    simp only [h0, hr, Option.some.injEq] at hP'
                    rw [k3, j3, h0, fold_plus env prest a s hr, hP',
                      fold_minus env _ P N (by rw [sumT_sort]; exact hN), hPN]
                    rfl
      | prod =>
        match cs, hfrag with
        | c1 :: c2 :: cs', hfrag =>
          have hP : cFragMP m (c1 :: c2 :: cs') = true := by
            simp only [cFragM, Bool.and_eq_true] at hfrag
            simp only [cFragMP, Bool.and_eq_true]
            simp only [cFragMP, Bool.and_eq_true] at hfrag
            exact ⟨hfrag.1, hfrag.2⟩
          simp only [ccodeE] at h
          obtain ⟨pl, ds, hp, hpa, has⟩ := ccodeGeneric_ok h
          simp only [plan, pure, Except.pure, Except.ok.injEq] at hp
          subst hp
          have hfr : ∀ it ∈ (c1 :: c2 :: cs').map (·, S.product), cFragM m it.1 = true := by
            intro it hit
            obtain ⟨c, hc, rfl⟩ := List.mem_map.mp hit
            exact cFragML_mem m _ (cFragMP_L m _ hP) c hc
          have hall := printAll_ok env S m _ ih _ st ds refs st' hfr hpa
          obtain ⟨hlen, hds, hval⟩ := allOK_prod env S m hA hm _ ds hP hall
          simp only [assemble, pure, Except.pure, Except.ok.injEq] at has
          subst has
          cases ds with
          | nil => simp at hlen
          | cons d0 drest =>
            obtain ⟨j1, j2, j3⟩ := joinDocs_ok env .times d0 drest hds
            refine docOK_parenIf env S _ enc S.product _ j1 ?_ ?_ ?_
            · intro hle o ho
              simp only [cRootAt, pyPrec, hle, if_true, cRoot]
              rcases j2 o ho with rfl | ⟨x, hx, hox⟩
              · decide
              · exact rightOK_le ((hds x hx).2 o hox)
            · intro _ _ _ o ho hp10
              rcases j2 o ho with rfl | ⟨x, hx, hox⟩
              · rfl
              · exact rightOK_times_inv ((hds x hx).2 o hox) hp10
            · intro w hw
              simp only [denV] at hw
              cases hvs : denVL env (c1 :: c2 :: cs') with
              | none => simp [hvs] at hw
              | some vs =>
                simp only [hvs, Option.map_some, Option.some.injEq] at hw
                subst hw
                have hp := hval vs hvs
                simp only [prodT] at hp
                cases h0 : denT env d0 with
                | none => simp [h0] at hp
                | some a =>
                  cases hr : prodT env drest with
                  | none => simp [h0, hr] at hp
                  | some s =>
                    simp only [h0, hr, Option.some.injEq] at hp
                    rw [j3, h0, fold_times env drest a s hr, hp]
                    rfl
      | band =>
        match cs, hfrag with
        | c1 :: c2 :: cs', hfrag =>
          simp only [cFragM, Bool.and_eq_true] at hfrag
          have hmt : m = true := hfrag.1.1
          have hB := hm hmt
          have hL : cFragML m (c1 :: c2 :: cs') = true := by
            simp only [cFragML, Bool.and_eq_true] at hfrag ⊢
            exact ⟨hfrag.1.2, hfrag.2⟩
          simp only [ccodeE] at h
          obtain ⟨pl, ds, hp, hpa, has⟩ := ccodeGeneric_ok h
          simp only [plan, pure, Except.pure, Except.ok.injEq] at hp
          subst hp
          have hfr : ∀ it ∈ (c1 :: c2 :: cs').map (·, S.band), cFragM m it.1 = true := by
            intro it hit
            obtain ⟨c, hc, rfl⟩ := List.mem_map.mp hit
            exact cFragML_mem m _ hL c hc
          have hall := printAll_ok env S m _ ih _ st ds refs st' hfr hpa
          obtain ⟨hlen, hds⟩ := allOK_level env S m hm S.band 5
            (fun c hk => ((ctx_all S hA c hk).2.2.2 hB).2.2.2.1) _ ds hL hall
          simp only [assemble, pure, Except.pure, Except.ok.injEq] at has
          subst has
          cases ds with
          | nil => simp at hlen
          | cons d0 drest =>
            obtain ⟨j1, j2, j3⟩ := joinDocs_ok env .band d0 drest (fun x hx =>
              ⟨(hds x hx).1, fun o ho => rightOK_band ((hds x hx).2 o ho)⟩)
            obtain ⟨b1, b2, b3, b4, b5, b6, b7, b8⟩ := hB
            refine docOK_parenIf env S _ enc S.band _ j1 ?_ ?_ ?_
            · intro hle o ho
              simp only [cRootAt, pyPrec, hle, if_true, cRoot]
              rcases j2 o ho with rfl | ⟨x, hx, hox⟩
              · decide
              · exact (hds x hx).2 o hox
            · intro h1 h2
              omega
            · intro w hw
              simp only [denV] at hw
              simp only [List.map_cons, AllOK] at hall
              cases h1 : denV env c1 with
              | none => simp [h1] at hw
              | some w1 =>
                simp only [h1] at hw
                rw [j3, hall.1.2 w1 h1]
                exact fold_bit env S S.band .band (Or.inl rfl) (c2 :: cs') drest w1 w hall.2 hw
      | bxor =>
        match cs, hfrag with
        | c1 :: c2 :: cs', hfrag =>
          simp only [cFragM, Bool.and_eq_true] at hfrag
          have hmt : m = true := hfrag.1.1
          have hB := hm hmt
          have hL : cFragML m (c1 :: c2 :: cs') = true := by
            simp only [cFragML, Bool.and_eq_true] at hfrag ⊢
            exact ⟨hfrag.1.2, hfrag.2⟩
          simp only [ccodeE] at h
          obtain ⟨pl, ds, hp, hpa, has⟩ := ccodeGeneric_ok h
          simp only [plan, pure, Except.pure, Except.ok.injEq] at hp
          subst hp
          have hfr : ∀ it ∈ (c1 :: c2 :: cs').map (·, S.bxor), cFragM m it.1 = true := by
            intro it hit
            obtain ⟨c, hc, rfl⟩ := List.mem_map.mp hit
            exact cFragML_mem m _ hL c hc
          have hall := printAll_ok env S m _ ih _ st ds refs st' hfr hpa
          obtain ⟨hlen, hds⟩ := allOK_level env S m hm S.bxor 4
            (fun c hk => ((ctx_all S hA c hk).2.2.2 hB).2.2.2.2.1) _ ds hL hall
          simp only [assemble, pure, Except.pure, Except.ok.injEq] at has
          subst has
          cases ds with
          | nil => simp at hlen
          | cons d0 drest =>
            obtain ⟨j1, j2, j3⟩ := joinDocs_ok env .bxor d0 drest (fun x hx =>
              ⟨(hds x hx).1, fun o ho => rightOK_bxor ((hds x hx).2 o ho)⟩)
            obtain ⟨b1, b2, b3, b4, b5, b6, b7, b8⟩ := hB
            refine docOK_parenIf env S _ enc S.bxor _ j1 ?_ ?_ ?_
            · intro hle o ho
              simp only [cRootAt, pyPrec, hle, if_true, cRoot]
              rcases j2 o ho with rfl | ⟨x, hx, hox⟩
              · decide
              · exact (hds x hx).2 o hox
            · intro h1 h2
              omega
            · intro w hw
              simp only [denV] at hw
              simp only [List.map_cons, AllOK] at hall
              cases h1 : denV env c1 with
              | none => simp [h1] at hw
              | some w1 =>
                simp only [h1] at hw
                rw [j3, hall.1.2 w1 h1]
                exact fold_bit env S S.bxor .bxor (Or.inr (Or.inl rfl)) (c2 :: cs') drest w1 w hall.2 hw
      | bor =>
        match cs, hfrag with
        | c1 :: c2 :: cs', hfrag =>
          simp only [cFragM, Bool.and_eq_true] at hfrag
          have hmt : m = true := hfrag.1.1
          have hB := hm hmt
          have hL : cFragML m (c1 :: c2 :: cs') = true := by
            simp only [cFragML, Bool.and_eq_true] at hfrag ⊢
            exact ⟨hfrag.1.2, hfrag.2⟩
          simp only [ccodeE] at h
          obtain ⟨pl, ds, hp, hpa, has⟩ := ccodeGeneric_ok h
          simp only [plan, pure, Except.pure, Except.ok.injEq] at hp
          subst hp
          have hfr : ∀ it ∈ (c1 :: c2 :: cs').map (·, S.bor), cFragM m it.1 = true := by
            intro it hit
            obtain ⟨c, hc, rfl⟩ := List.mem_map.mp hit
            exact cFragML_mem m _ hL c hc
          have hall := printAll_ok env S m _ ih _ st ds refs st' hfr hpa
          obtain ⟨hlen, hds⟩ := allOK_level env S m hm S.bor 3
            (fun c hk => ((ctx_all S hA c hk).2.2.2 hB).2.2.2.2.2.1) _ ds hL hall
          simp only [assemble, pure, Except.pure, Except.ok.injEq] at has
          subst has
          cases ds with
          | nil => simp at hlen
          | cons d0 drest =>
            obtain ⟨j1, j2, j3⟩ := joinDocs_ok env .bor d0 drest (fun x hx =>
              ⟨(hds x hx).1, fun o ho => rightOK_bor ((hds x hx).2 o ho)⟩)
            obtain ⟨b1, b2, b3, b4, b5, b6, b7, b8⟩ := hB
            refine docOK_parenIf env S _ enc S.bor _ j1 ?_ ?_ ?_
            · intro hle o ho
              simp only [cRootAt, pyPrec, hle, if_true, cRoot]
              rcases j2 o ho with rfl | ⟨x, hx, hox⟩
              · decide
              · exact (hds x hx).2 o hox
            · intro h1 h2
              omega
            · intro w hw
              simp only [denV] at hw
              simp only [List.map_cons, AllOK] at hall
              cases h1 : denV env c1 with
              | none => simp [h1] at hw
              | some w1 =>
                simp only [h1] at hw
                rw [j3, hall.1.2 w1 h1]
                exact fold_bit env S S.bor .bor (Or.inr (Or.inr rfl)) (c2 :: cs') drest w1 w hall.2 hw
      | land =>
        match cs, hfrag with
        | c1 :: c2 :: cs', hfrag =>
          simp only [cFragM, Bool.and_eq_true] at hfrag
          have hmt : m = true := hfrag.1.1
          have hB := hm hmt
          have hL : cFragML m (c1 :: c2 :: cs') = true := by
            simp only [cFragML, Bool.and_eq_true] at hfrag ⊢
            exact ⟨hfrag.1.2, hfrag.2⟩
          simp only [ccodeE] at h
          obtain ⟨pl, ds, hp, hpa, has⟩ := ccodeGeneric_ok h
          simp only [plan, pure, Except.pure, Except.ok.injEq] at hp
          subst hp
          have hfr : ∀ it ∈ (c1 :: c2 :: cs').map (·, S.land), cFragM m it.1 = true := by
            intro it hit
            obtain ⟨c, hc, rfl⟩ := List.mem_map.mp hit
            exact cFragML_mem m _ hL c hc
          have hall := printAll_ok env S m _ ih _ st ds refs st' hfr hpa
          obtain ⟨hlen, hds⟩ := allOK_level env S m hm S.land 2
            (fun c hk => ((ctx_all S hA c hk).2.2.2 hB).2.2.2.2.2.2.1) _ ds hL hall
          simp only [assemble, pure, Except.pure, Except.ok.injEq] at has
          subst has
          cases ds with
          | nil => simp at hlen
          | cons d0 drest =>
            obtain ⟨j1, j2, j3⟩ := joinDocs_ok env .land d0 drest (fun x hx =>
              ⟨(hds x hx).1, fun o ho => rightOK_land ((hds x hx).2 o ho)⟩)
            obtain ⟨b1, b2, b3, b4, b5, b6, b7, b8⟩ := hB
            refine docOK_parenIf env S _ enc S.land _ j1 ?_ ?_ ?_
            · intro hle o ho
              simp only [cRootAt, pyPrec, hle, if_true, cRoot]
              rcases j2 o ho with rfl | ⟨x, hx, hox⟩
              · decide
              · exact (hds x hx).2 o hox
            · intro h1 h2
              omega
            · intro w hw
              simp only [denV, denVAll] at hw
              simp only [List.map_cons, AllOK] at hall
              cases h1 : denV env c1 with
              | none => simp [h1] at hw
              | some w1 =>
                simp only [h1] at hw
                rw [j3, hall.1.2 w1 h1]
                by_cases hw1 : w1.toInt = 0
                · simp only [hw1, if_true, Option.some.injEq] at hw
                  subst hw
                  rw [hw1]
                  exact fold_land_zero env drest
                · simp only [hw1, if_false] at hw
                  exact fold_land env S S.land (c2 :: cs') drest w1.toInt w
                    (by simpa [AllOK] using hall.2) (by simp) hw1 (by simpa [denVAll] using hw)
      | lor =>
        match cs, hfrag with
        | c1 :: c2 :: cs', hfrag =>
          simp only [cFragM, Bool.and_eq_true] at hfrag
          have hmt : m = true := hfrag.1.1
          have hB := hm hmt
          have hL : cFragML m (c1 :: c2 :: cs') = true := by
            simp only [cFragML, Bool.and_eq_true] at hfrag ⊢
            exact ⟨hfrag.1.2, hfrag.2⟩
          simp only [ccodeE] at h
          obtain ⟨pl, ds, hp, hpa, has⟩ := ccodeGeneric_ok h
          simp only [plan, pure, Except.pure, Except.ok.injEq] at hp
          subst hp
          have hfr : ∀ it ∈ (c1 :: c2 :: cs').map (·, S.lor), cFragM m it.1 = true := by
            intro it hit
            obtain ⟨c, hc, rfl⟩ := List.mem_map.mp hit
            exact cFragML_mem m _ hL c hc
          have hall := printAll_ok env S m _ ih _ st ds refs st' hfr hpa
          obtain ⟨hlen, hds⟩ := allOK_level env S m hm S.lor 1
            (fun c hk => ((ctx_all S hA c hk).2.2.2 hB).2.2.2.2.2.2.2) _ ds hL hall
          simp only [assemble, pure, Except.pure, Except.ok.injEq] at has
          subst has
          cases ds with
          | nil => simp at hlen
          | cons d0 drest =>
            obtain ⟨j1, j2, j3⟩ := joinDocs_ok env .lor d0 drest (fun x hx =>
              ⟨(hds x hx).1, fun o _ => rightOK_lor o⟩)
            obtain ⟨b1, b2, b3, b4, b5, b6, b7, b8⟩ := hB
            refine docOK_parenIf env S _ enc S.lor _ j1 ?_ ?_ ?_
            · intro hle o ho
              simp only [cRootAt, pyPrec, hle, if_true, cRoot]
              exact prec_pos o
            · intro h1 h2
              omega
            · intro w hw
              simp only [denV, denVAny] at hw
              simp only [List.map_cons, AllOK] at hall
              have hdne : drest ≠ [] := by
                intro hc
                rw [hc] at hlen
                simp at hlen
              cases h1 : denV env c1 with
              | none => simp [h1] at hw
              | some w1 =>
                simp only [h1] at hw
                rw [j3, hall.1.2 w1 h1]
                by_cases hw1 : w1.toInt = 0
                · simp only [hw1, if_true] at hw
                  rw [hw1]
                  exact fold_lor env S S.lor (c2 :: cs') drest w
                    (by simpa [AllOK] using hall.2) (by simp) (by simpa [denVAny] using hw)
                · simp only [hw1, if_false, Option.some.injEq] at hw
                  subst hw
                  exact fold_lor_one env drest w1.toInt hw1 hdne
      | min =>
        match cs, hfrag with
        | [a, b], hfrag =>
          simp only [cFragM, Bool.and_eq_true] at hfrag
          simp only [ccodeE] at h
          obtain ⟨pl, ds, hp, hpa, has⟩ := ccodeGeneric_ok h
          simp only [plan, pure, Except.pure, Except.ok.injEq] at hp
          subst hp
          have hall := printAll_ok env S m _ ih [(a, S.none), (b, S.none)] st ds refs st'
            (by simp [hfrag.1.2, hfrag.2]) hpa
          match ds, hall with
          | [da, db], hall =>
            simp only [AllOK, and_true] at hall
            obtain ⟨fa, fb⟩ := hall
            simp only [assemble, pure, Except.pure, Except.ok.injEq] at has
            subst has
            refine ⟨⟨by simp [cwf, fa.1.wf, fb.1.wf], fun o ho => by simp [exposedOps] at ho,
              fun _ _ o ho => by simp [exposedOps] at ho⟩, fun w hw => ?_⟩
            simp only [denV] at hw
            cases ha : denV env a with
            | none => simp [ha] at hw
            | some x =>
              cases hb : denV env b with
              | none => simp [ha, hb] at hw
              | some y =>
                simp only [ha, hb, Option.some.injEq] at hw
                subst hw
                simp only [denT, fa.2 x ha, fb.2 y hb, c14Call2]
                by_cases hlt : y.toInt < x.toInt <;> simp [hlt]
      | max =>
        match cs, hfrag with
        | [a, b], hfrag =>
          simp only [cFragM, Bool.and_eq_true] at hfrag
          simp only [ccodeE] at h
          obtain ⟨pl, ds, hp, hpa, has⟩ := ccodeGeneric_ok h
          simp only [plan, pure, Except.pure, Except.ok.injEq] at hp
          subst hp
          have hall := printAll_ok env S m _ ih [(a, S.none), (b, S.none)] st ds refs st'
            (by simp [hfrag.1.2, hfrag.2]) hpa
          match ds, hall with
          | [da, db], hall =>
            simp only [AllOK, and_true] at hall
            obtain ⟨fa, fb⟩ := hall
            simp only [assemble, pure, Except.pure, Except.ok.injEq] at has
            subst has
            refine ⟨⟨by simp [cwf, fa.1.wf, fb.1.wf], fun o ho => by simp [exposedOps] at ho,
              fun _ _ o ho => by simp [exposedOps] at ho⟩, fun w hw => ?_⟩
            simp only [denV] at hw
            cases ha : denV env a with
            | none => simp [ha] at hw
            | some x =>
              cases hb : denV env b with
              | none => simp [ha, hb] at hw
              | some y =>
                simp only [ha, hb, Option.some.injEq] at hw
                subst hw
                simp only [denT, fa.2 x ha, fb.2 y hb, c14Call2]
                by_cases hlt : x.toInt < y.toInt <;> simp [hlt]
    | bin op a b =>
      cases op with
      | quot => simp [cFragM] at hfrag
      | floordiv =>
        simp only [cFragM, Bool.and_eq_true] at hfrag
        simp only [ccodeE] at h
        obtain ⟨pl, ds, hp, hpa, has⟩ := ccodeGeneric_ok h
        simp only [plan, pure, Except.pure, Except.ok.injEq] at hp
        subst hp
        have hall := printAll_ok env S m _ ih [(a, S.product), (b, S.power)] st ds refs st'
          (by simp [hfrag.1, hfrag.2]) hpa
        match ds, hall with
        | [dx, dy], hall =>
          simp only [AllOK, and_true] at hall
          obtain ⟨fx, fy⟩ := hall
          simp only [assemble, pure, Except.pure, Except.ok.injEq] at has
          subst has
          have hy0 : exposedOps dy = [] := no_ops_of_eleven (fun o ho =>
            Nat.le_trans (ctx b hfrag.2).2.2.1 (fy.1.expo o ho))
          have hw : cwf (Doc.bin dx .divTight dy) = true := by
            simp only [cwf, fitsL, fitsR, hy0, List.all_nil, Bool.and_true, Bool.and_eq_true,
              List.all_eq_true, decide_eq_true_eq]
            exact ⟨⟨fx.1.wf, fy.1.wf⟩, fun o ho =>
              Nat.le_trans (ctx a hfrag.1).2.1 (fx.1.expo o ho)⟩
          refine ⟨shape_paren hw, fun w hw' => ?_⟩
          simp only [denV] at hw'
          cases ha : denV env a with
          | none => simp [ha] at hw'
          | some x =>
            cases hb : denV env b with
            | none => simp [ha, hb] at hw'
            | some y =>
              simp only [ha, hb] at hw'
              split at hw'
              · rename_i hxy
                simp only [Option.some.injEq] at hw'
                subst hw'
                have hyn : y.toInt ≠ 0 := by omega
                simp [denT, fx.2 x ha, fy.2 y hb, COp.applyL, COp.apply, hyn,
                  Int.tdiv_eq_ediv_of_nonneg hxy.1]
              · cases hw'
      | rem =>
        simp only [cFragM, Bool.and_eq_true, Bool.not_eq_true'] at hfrag
        simp only [ccodeE] at h
        obtain ⟨pl, ds, hp, hpa, has⟩ := ccodeGeneric_ok h
        simp only [plan, pure, Except.pure, Except.ok.injEq] at hp
        subst hp
        have hall := printAll_ok env S m _ ih [(a, S.product), (b, S.product)] st ds refs st'
          (by simp [hfrag.1.1, hfrag.1.2]) hpa
        match ds, hall with
        | [dx, dy], hall =>
          simp only [AllOK, and_true] at hall
          obtain ⟨fx, fy⟩ := hall
          simp only [assemble, pure, Except.pure, Except.ok.injEq] at has
          subst has
          have hx10 : ∀ o ∈ exposedOps (forceWrapD a dx), 10 ≤ o.prec := fun o ho =>
            Nat.le_trans (ctx a hfrag.1.1).2.1 (fx.1.expo o (exposed_forceWrap a dx o ho).1)
          have hy0 : exposedOps (forceWrapD b dy) = [] := no_ops_of_eleven (fun o ho => by
            obtain ⟨h1, h2⟩ := exposed_forceWrap b dy o ho
            exact Nat.le_trans (simple_root S hA b (kind_ok S m hm b hfrag.1.2) h2 hfrag.2)
              (fy.1.expo o h1))
          have hw : cwf (Doc.bin (forceWrapD a dx) .mod (forceWrapD b dy)) = true := by
            simp only [cwf, fitsL, fitsR, hy0, List.all_nil, Bool.and_true, Bool.and_eq_true,
              List.all_eq_true, decide_eq_true_eq]
            exact ⟨⟨cwf_forceWrap a dx fx.1.wf, cwf_forceWrap b dy fy.1.wf⟩, hx10⟩
          refine docOK_parenIf env S _ enc S.product _ hw ?_ ?_ ?_
          · intro hle o ho
            simp only [cRootAt, pyPrec, hle, if_true, cRoot]
            simp only [exposedOps, hy0, List.mem_append, List.mem_cons, List.not_mem_nil,
              or_false] at ho
            rcases ho with ho | rfl
            · exact hx10 o ho
            · decide
          · intro _ _ hr
            simp [isRem] at hr
          · intro w hw'
            simp only [denV] at hw'
            cases ha : denV env a with
            | none => simp [ha] at hw'
            | some x =>
              cases hb : denV env b with
              | none => simp [ha, hb] at hw'
              | some y =>
                simp only [ha, hb] at hw'
                split at hw'
                · rename_i hxy
                  simp only [Option.some.injEq] at hw'
                  subst hw'
                  have hyn : y.toInt ≠ 0 := by omega
                  simp [denT, denT_forceWrap, fx.2 x ha, fy.2 y hb, COp.applyL, COp.apply, hyn,
                    Int.tmod_eq_emod_of_nonneg hxy.1]
                · cases hw'
      | pow =>
        match a, b, hfrag with
        | .var x, .const (.int k), hfrag =>
          simp only [cFragM, beq_iff_eq] at hfrag
          subst hfrag
          obtain ⟨r, hr, hr'⟩ := powPlan_var_two x
          subst hr'
          simp only [ccodeE] at h
          obtain ⟨pl, ds, hp, hpa, has⟩ := ccodeGeneric_ok h
          simp only [plan, hr, bind, Except.bind, pure, Except.pure, Except.ok.injEq] at hp
          subst hp
          have hfr : cFragM m (.nary .prod [.var x, .var x]) = true := by
            simp [cFragM, cFragMP, isRem]
          have hall := printAll_ok env S m _ ih [(.nary .prod [.var x, .var x], enc)] st ds refs
            st' (by simp [hfr]) hpa
          match ds, hall with
          | [d1], hall =>
            simp only [AllOK, and_true] at hall
            simp only [assemble, hr, bind, Except.bind, pure, Except.pure, Except.ok.injEq] at has
            subst has
            refine ⟨⟨hall.1.wf, hall.1.expo, fun h1 _ => hall.1.safe h1 rfl⟩, fun w hw => ?_⟩
            simp only [denV, if_true] at hw
            cases hx : envInt env x with
            | none => simp [hx] at hw
            | some vx =>
              simp only [hx, Option.map_some, Option.some.injEq] at hw
              subst hw
              have := hall.2 (.i (vx * (vx * 1))) (by simp [denV, denVL, hx, prodL])
              simpa using this
      | lshift =>
        simp only [cFragM, Bool.and_eq_true] at hfrag
        have hB := hm hfrag.1.1
        simp only [ccodeE] at h
        obtain ⟨pl, ds, hp, hpa, has⟩ := ccodeGeneric_ok h
        simp only [plan, pure, Except.pure, Except.ok.injEq] at hp
        subst hp
        have hall := printAll_ok env S m _ ih [(a, S.shift + 1), (b, S.shift + 1)] st ds refs st'
          (by simp [hfrag.1.2, hfrag.2]) hpa
        match ds, hall with
        | [dx, dy], hall =>
          simp only [AllOK, and_true] at hall
          obtain ⟨fx, fy⟩ := hall
          simp only [assemble, pure, Except.pure, Except.ok.injEq] at has
          subst has
          have hx9 : ∀ o ∈ exposedOps dx, 9 ≤ o.prec := fun o ho =>
            Nat.le_trans ((ctx a hfrag.1.2).2.2.2 hB).2.1 (fx.1.expo o ho)
          have hy9 : ∀ o ∈ exposedOps dy, 9 ≤ o.prec := fun o ho =>
            Nat.le_trans ((ctx b hfrag.2).2.2.2 hB).2.1 (fy.1.expo o ho)
          have hw : cwf (Doc.bin dx .shl dy) = true := by
            simp only [cwf, fitsL, fitsR, Bool.and_eq_true, List.all_eq_true, decide_eq_true_eq]
            exact ⟨⟨⟨fx.1.wf, fy.1.wf⟩, fun o ho => Nat.le_trans (by decide) (hx9 o ho)⟩,
              fun o ho => rightOK_of_lt (Nat.lt_of_lt_of_le (by decide) (hy9 o ho))⟩
          obtain ⟨b1, b2, b3, b4, b5, b6, b7, b8⟩ := hB
          refine docOK_parenIf env S _ enc S.shift _ hw ?_ ?_ ?_
          · intro hle o ho
            simp only [cRootAt, pyPrec, hle, if_true, cRoot]
            simp only [exposedOps, List.mem_append, List.mem_cons] at ho
            rcases ho with ho | rfl | ho
            · exact Nat.le_trans (by decide) (hx9 o ho)
            · decide
            · exact Nat.le_trans (by decide) (hy9 o ho)
          · intro h1 h2
            omega
          · intro w hw'
            simp only [denV] at hw'
            cases ha : denV env a with
            | none => simp [ha] at hw'
            | some x =>
              cases hb : denV env b with
              | none => simp [ha, hb] at hw'
              | some y =>
                simp only [ha, hb] at hw'
                split at hw'
                · rename_i hxy
                  simp only [Option.some.injEq] at hw'
                  subst hw'
                  have hn : ¬ (x.toInt < 0 ∨ y.toInt < 0) := by omega
                  simp [denT, fx.2 x ha, fy.2 y hb, COp.applyL, COp.apply, hn]
                · cases hw'
      | rshift =>
        simp only [cFragM, Bool.and_eq_true] at hfrag
        have hB := hm hfrag.1.1
        simp only [ccodeE] at h
        obtain ⟨pl, ds, hp, hpa, has⟩ := ccodeGeneric_ok h
        simp only [plan, pure, Except.pure, Except.ok.injEq] at hp
        subst hp
        have hall := printAll_ok env S m _ ih [(a, S.shift + 1), (b, S.shift + 1)] st ds refs st'
          (by simp [hfrag.1.2, hfrag.2]) hpa
        match ds, hall with
        | [dx, dy], hall =>
          simp only [AllOK, and_true] at hall
          obtain ⟨fx, fy⟩ := hall
          simp only [assemble, pure, Except.pure, Except.ok.injEq] at has
          subst has
          have hx9 : ∀ o ∈ exposedOps dx, 9 ≤ o.prec := fun o ho =>
            Nat.le_trans ((ctx a hfrag.1.2).2.2.2 hB).2.1 (fx.1.expo o ho)
          have hy9 : ∀ o ∈ exposedOps dy, 9 ≤ o.prec := fun o ho =>
            Nat.le_trans ((ctx b hfrag.2).2.2.2 hB).2.1 (fy.1.expo o ho)
          have hw : cwf (Doc.bin dx .shr dy) = true := by
            simp only [cwf, fitsL, fitsR, Bool.and_eq_true, List.all_eq_true, decide_eq_true_eq]
            exact ⟨⟨⟨fx.1.wf, fy.1.wf⟩, fun o ho => Nat.le_trans (by decide) (hx9 o ho)⟩,
              fun o ho => rightOK_of_lt (Nat.lt_of_lt_of_le (by decide) (hy9 o ho))⟩
          obtain ⟨b1, b2, b3, b4, b5, b6, b7, b8⟩ := hB
          refine docOK_parenIf env S _ enc S.shift _ hw ?_ ?_ ?_
          · intro hle o ho
            simp only [cRootAt, pyPrec, hle, if_true, cRoot]
            simp only [exposedOps, List.mem_append, List.mem_cons] at ho
            rcases ho with ho | rfl | ho
            · exact Nat.le_trans (by decide) (hx9 o ho)
            · decide
            · exact Nat.le_trans (by decide) (hy9 o ho)
          · intro h1 h2
            omega
          · intro w hw'
            simp only [denV] at hw'
            cases ha : denV env a with
            | none => simp [ha] at hw'
            | some x =>
              cases hb : denV env b with
              | none => simp [ha, hb] at hw'
              | some y =>
                simp only [ha, hb] at hw'
                split at hw'
                · rename_i hxy
                  simp only [Option.some.injEq] at hw'
                  subst hw'
                  have hn : ¬ (x.toInt < 0 ∨ y.toInt < 0) := by omega
                  simp [denT, fx.2 x ha, fy.2 y hb, COp.applyL, COp.apply, hn]
                · cases hw'
    | un op a =>
      simp only [cFragM, Bool.and_eq_true] at hfrag
      have hB := hm hfrag.1
      simp only [ccodeE] at h
      obtain ⟨pl, ds, hp, hpa, has⟩ := ccodeGeneric_ok h
      simp only [plan, pure, Except.pure, Except.ok.injEq] at hp
      subst hp
      have hall := printAll_ok env S m _ ih [(a, S.unary)] st ds refs st' (by simp [hfrag.2]) hpa
      match ds, hall with
      | [dx], hall =>
        simp only [AllOK, and_true] at hall
        have hx0 : exposedOps dx = [] := no_ops_of_eleven (fun o ho =>
          Nat.le_trans ((ctx a hfrag.2).2.2.2 hB).1 (hall.1.expo o ho))
        cases op with
        | bnot =>
          simp only [assemble, pure, Except.pure, Except.ok.injEq] at has
          subst has
          refine docOK_parenIf env S _ enc S.unary _ (by simp [cwf, hall.1.wf, hx0]) ?_ ?_ ?_
          · intro _ o ho
            simp [exposedOps, hx0] at ho
          · intro _ _ _ o ho
            simp [exposedOps, hx0] at ho
          · intro w hw
            simp only [denV] at hw
            cases ha : denV env a with
            | none => simp [ha] at hw
            | some x =>
              simp only [ha, Option.map_some, Option.some.injEq] at hw
              subst hw
              simp [denT, hall.2 x ha, CUn.apply]
        | lnot =>
          simp only [assemble, pure, Except.pure, Except.ok.injEq] at has
          subst has
          refine docOK_parenIf env S _ enc S.unary _ (by simp [cwf, hall.1.wf, hx0]) ?_ ?_ ?_
          · intro _ o ho
            simp [exposedOps, hx0] at ho
          · intro _ _ _ o ho
            simp [exposedOps, hx0] at ho
          · intro w hw
            simp only [denV] at hw
            cases ha : denV env a with
            | none => simp [ha] at hw
            | some x =>
              simp only [ha, Option.map_some, Option.some.injEq] at hw
              subst hw
              simp [denT, hall.2 x ha, CUn.apply, CVal.toInt]
    | cmp o a b =>
      simp only [cFragM, Bool.and_eq_true, Bool.not_eq_true'] at hfrag
      obtain ⟨⟨⟨⟨hmt, hfa⟩, hfb⟩, hna⟩, hnb⟩ := hfrag
      have hB := hm hmt
      simp only [ccodeE] at h
      obtain ⟨pl, ds, hp, hpa, has⟩ := ccodeGeneric_ok h
      simp only [plan, pure, Except.pure, Except.ok.injEq] at hp
      subst hp
      have hall := printAll_ok env S m _ ih [(a, S.comparison + 1), (b, S.comparison + 1)] st ds
        refs st' (by simp [hfa, hfb]) hpa
      match ds, hall with
      | [dx, dy], hall =>
        simp only [AllOK, and_true] at hall
        obtain ⟨fx, fy⟩ := hall
        simp only [assemble, pure, Except.pure, Except.ok.injEq] at has
        subst has
        have hx8 : ∀ o' ∈ exposedOps dx, 8 ≤ o'.prec := fun o' ho =>
          Nat.le_trans (((ctx a hfa).2.2.2 hB).2.2.1 hna) (fx.1.expo o' ho)
        have hy8 : ∀ o' ∈ exposedOps dy, 8 ≤ o'.prec := fun o' ho =>
          Nat.le_trans (((ctx b hfb).2.2.2 hB).2.2.1 hnb) (fy.1.expo o' ho)
        obtain ⟨hc1, hc2, hc3⟩ := cmp_prec o a b
        have hw : cwf (Doc.bin dx (.cmp o) dy) = true := by
          simp only [cwf, fitsL, fitsR, Bool.and_eq_true, List.all_eq_true, decide_eq_true_eq]
          exact ⟨⟨⟨fx.1.wf, fy.1.wf⟩, fun o' ho => Nat.le_trans (by omega) (hx8 o' ho)⟩,
            fun o' ho => rightOK_of_lt (Nat.lt_of_lt_of_le (by omega) (hy8 o' ho))⟩
        obtain ⟨b1, b2, b3, b4, b5, b6, b7, b8⟩ := hB
        refine docOK_parenIf env S _ enc S.comparison _ hw ?_ ?_ ?_
        · intro hle o' ho
          simp only [cRootAt, pyPrec, hle, if_true, ← hc1]
          simp only [exposedOps, List.mem_append, List.mem_cons] at ho
          rcases ho with ho | rfl | ho
          · exact Nat.le_trans (by omega) (hx8 o' ho)
          · exact Nat.le_refl _
          · exact Nat.le_trans (by omega) (hy8 o' ho)
        · intro h1 h2
          omega
        · intro w hw'
          simp only [denV] at hw'
          cases ha : denV env a with
          | none => simp [ha] at hw'
          | some x =>
            cases hb : denV env b with
            | none => simp [ha, hb] at hw'
            | some y =>
              simp only [ha, hb, Option.some.injEq] at hw'
              subst hw'
              simp [denT, fx.2 x ha, fy.2 y hb, COp.applyL, COp.apply, CVal.toInt]
    | ite c t e =>
      simp only [cFragM, Bool.and_eq_true] at hfrag
      obtain ⟨⟨⟨hmt, hfc⟩, hft⟩, hfe⟩ := hfrag
      simp only [ccodeE] at h
      obtain ⟨pl, ds, hp, hpa, has⟩ := ccodeGeneric_ok h
      simp only [plan, pure, Except.pure, Except.ok.injEq] at hp
      subst hp
      have hall := printAll_ok env S m _ ih [(c, S.none), (t, S.none), (e, S.none)] st ds
        refs st' (by simp [hfc, hft, hfe]) hpa
      match ds, hall with
      | [dc, dt, de], hall =>
        simp only [AllOK, and_true] at hall
        obtain ⟨fc, ft, fe⟩ := hall
        simp only [assemble, pure, Except.pure, Except.ok.injEq] at has
        subst has
        refine ⟨⟨by simp [cwf, fc.1.wf, ft.1.wf, fe.1.wf], fun o ho => by simp [exposedOps] at ho,
          fun _ _ o ho => by simp [exposedOps] at ho⟩, fun w hw => ?_⟩
        simp only [denV] at hw
        cases hc : denV env c with
        | none => simp [hc] at hw
        | some wc =>
          simp only [hc] at hw
          simp only [denT, fc.2 wc hc, c14Tern]
          by_cases hz : wc.toInt = 0
          · simp only [hz, if_true] at hw ⊢
            exact fe.2 w hw
          · simp only [hz, if_false] at hw ⊢
            exact ft.2 w hw
    | _ => simp [cFragM] at hfrag

/-! ### the arithmetic fragment of the first version is part of the enlarged one -/

theorem fragL_of : ∀ (cs : List Expr), (∀ c ∈ cs, intFrag c = true → cFragM false c = true) →
    intFragL cs = true → cFragML false cs = true
  | [], _, _ => rfl
  | c :: cs, ih, h => by
      simp only [intFragL, Bool.and_eq_true] at h
      simp [cFragML, ih c (by simp) h.1, fragL_of cs (fun c' hc' => ih c' (by simp [hc'])) h.2]

theorem fragP_of : ∀ (cs : List Expr), (∀ c ∈ cs, intFrag c = true → cFragM false c = true) →
    intFragP cs = true → cFragMP false cs = true
  | [], _, _ => rfl
  | c :: cs, ih, h => by
      simp only [intFragP, Bool.and_eq_true] at h
      simp [cFragMP, ih c (by simp) h.1.1, h.1.2,
        fragP_of cs (fun c' hc' => ih c' (by simp [hc'])) h.2]

theorem intFrag_cFragM (e : Expr) : intFrag e = true → cFragM false e = true := by
  induction e using Expr.induct with
  | h e ih =>
    intro h
    cases e with
    | const c => cases c <;> simp [intFrag] at h; rfl
    | var x => rfl
    | nary op cs =>
      have ihc : ∀ c ∈ cs, intFrag c = true → cFragM false c = true :=
        fun c hc => ih c (by simp [Expr.children, hc])
      cases op with
      | sum =>
        match cs, h, ihc with
        | [], h, _ => simp [intFrag] at h
        | c :: cs', h, ihc =>
          simp only [intFrag, Bool.and_eq_true] at h
          simp [cFragM, ihc c (by simp) h.1.1, h.1.2,
            fragL_of cs' (fun c' hc' => ihc c' (by simp [hc'])) h.2]
      | prod =>
        match cs, h, ihc with
        | [], h, _ => simp [intFrag] at h
        | [_], h, _ => simp [intFrag] at h
        | c1 :: c2 :: cs', h, ihc =>
          simp only [intFrag, Bool.and_eq_true] at h
          simp [cFragM, ihc c1 (by simp) h.1.1, h.1.2,
            fragP_of (c2 :: cs') (fun c' hc' => ihc c' (by simp [hc'])) h.2]
      | _ => simp [intFrag] at h
    | bin op a b =>
      have iha := ih a (by simp [Expr.children])
      have ihb := ih b (by simp [Expr.children])
      cases op with
      | floordiv =>
        simp only [intFrag, Bool.and_eq_true] at h
        simp [cFragM, iha h.1, ihb h.2]
      | rem =>
        simp only [intFrag, Bool.and_eq_true] at h
        simp [cFragM, iha h.1.1, ihb h.1.2, h.2]
      | pow =>
        match a, b, h with
        | .var _, .const (.int k), h =>
          simpa [intFrag, cFragM] using h
      | _ => simp [intFrag] at h
    | _ => simp [intFrag] at h

theorem map_toInt_i (vs : List Int) : vs.map (CVal.toInt ∘ CVal.i) = vs := by
  induction vs with
  | nil => rfl
  | cons v vs ih => simp [ih]

theorem denNL_denVL (env : Env) : ∀ (cs : List Expr) (vs : List Int),
    (∀ c ∈ cs, ∀ v, denN env c = some v → denV env c = some (.i v)) →
    denNL env cs = some vs → denVL env cs = some (vs.map .i)
  | [], vs, _, h => by
      simp only [denNL, Option.some.injEq] at h
      subst h
      rfl
  | c :: cs, vs, ih, h => by
      simp only [denNL] at h
      cases hc : denN env c with
      | none => simp [hc] at h
      | some v =>
        cases hcs : denNL env cs with
        | none => simp [hc, hcs] at h
        | some ws =>
          simp only [hc, hcs, Option.some.injEq] at h
          subst h
          simp [denVL, ih c (by simp) v hc,
            denNL_denVL env cs ws (fun c' hc' => ih c' (by simp [hc'])) hcs]

/-- the meaning of the first version agrees with `denV` -/
theorem denN_denV (env : Env) (e : Expr) : ∀ v, denN env e = some v → denV env e = some (.i v) := by
  induction e using Expr.induct with
  | h e ih =>
    intro v h
    cases e with
    | const c =>
      cases c <;> simp [denN] at h
      subst h
      rfl
    | var x =>
      simp only [denN] at h
      simp [denV, h]
    | nary op cs =>
      have ihc : ∀ c ∈ cs, ∀ v, denN env c = some v → denV env c = some (.i v) :=
        fun c hc => ih c (by simp [Expr.children, hc])
      cases op <;> simp only [denN] at h <;> try cases h
      · cases hcs : denNL env cs with
        | none => simp [hcs] at h
        | some vs =>
          simp only [hcs, Option.map_some, Option.some.injEq] at h
          subst h
          simp [denV, denNL_denVL env cs vs ihc hcs, map_toInt_i]
      · cases hcs : denNL env cs with
        | none => simp [hcs] at h
        | some vs =>
          simp only [hcs, Option.map_some, Option.some.injEq] at h
          subst h
          simp [denV, denNL_denVL env cs vs ihc hcs, map_toInt_i]
    | bin op a b =>
      have iha := ih a (by simp [Expr.children])
      have ihb := ih b (by simp [Expr.children])
      cases op with
      | floordiv =>
        simp only [denN] at h
        cases ha : denN env a with
        | none => simp [ha] at h
        | some x =>
          cases hb : denN env b with
          | none => simp [ha, hb] at h
          | some y =>
            simp only [ha, hb] at h
            split at h
            · rename_i hxy
              simp only [Option.some.injEq] at h
              subst h
              simp [denV, iha x ha, ihb y hb, hxy]
            · cases h
      | rem =>
        simp only [denN] at h
        cases ha : denN env a with
        | none => simp [ha] at h
        | some x =>
          cases hb : denN env b with
          | none => simp [ha, hb] at h
          | some y =>
            simp only [ha, hb] at h
            split at h
            · rename_i hxy
              simp only [Option.some.injEq] at h
              subst h
              simp [denV, iha x ha, ihb y hb, hxy]
            · cases h
      | pow =>
        cases b with
        | const c =>
          cases c with
          | int k =>
            simp only [denN] at h
            split at h
            · rename_i hk
              subst hk
              cases ha : denN env a with
              | none => simp [ha] at h
              | some x =>
                simp only [ha, Option.map_some, Option.some.injEq] at h
                subst h
                simp [denV, iha x ha]
            · cases h
          | _ => simp [denN] at h
        | _ => simp [denN] at h
      | _ => simp [denN] at h
    | _ => simp [denN] at h

/-- **the C value of the printed structure is the fragment's meaning** (C's reading of the text) -/
theorem value_denC (env : Env) (S : PrintPrec) (m : Bool) (hA : PrecA S) (hm : m = true → PrecB S)
    (e : Expr) (st : CSt) (d : Doc) (refs : List String) (st' : CSt) (w : CVal)
    (hfrag : cFragM m e = true) (hrun : ccode S st e = .ok (d, refs, st'))
    (hv : denV env e = some w) : denC env d = some w.toInt := by
  obtain ⟨hs, hval⟩ := value_core env S m hA hm _ st e _ d refs st' hfrag hrun
  rw [denC_eq_denT env d hs.wf]
  exact hval w hv

end PV.C14
