import PV.Proofs.SyntaxLexTable
import PV.Model.Stringify
/-
  C06/C07.  One step of the lexer on the text of a printer piece: for every piece class a
  decidable condition on the piece and on the character that follows it (`pieceOk`) under which
  the first matching rule of the table is the rule of that piece, with exactly the piece's text.
-/
set_option linter.unusedSimpArgs false
namespace PV.Lexer
open PV

/-! ### matcher facts -/

theorem olen_append (t rest : List Char) : olen (t ++ rest) (some rest) = t.length := by
  simp [olen]

theorem litM_append : ∀ (l rest : List Char), litM l (l ++ rest) = some rest
  | [], rest => by cases rest <;> rfl
  | k :: ks, rest => by simp [litM, litM_append ks rest]

theorem lenOf_lit_ne {k c : Char} {ks cs : List Char} (h : c ≠ k) :
    lenOf (litM (k :: ks)) (c :: cs) = 0 := by
  simp [lenOf, litM, h, olen]

theorem lenOf_kw_ne {k c : Char} {ks cs : List Char} (h : c ≠ k) :
    lenOf (kwM (k :: ks)) (c :: cs) = 0 := by
  simp [lenOf, kwM, litM, h, olen]

theorem lenOf_int_head {c : Char} {cs : List Char} (h : isDigit c = false) :
    lenOf (plusM isDigit) (c :: cs) = 0 := by
  simp [lenOf, plusM, h, olen]

theorem lenOf_ident_head {c : Char} {cs : List Char} (h : isIdStart c = false) :
    lenOf identM (c :: cs) = 0 := by
  simp [lenOf, identM, h, olen]

theorem lenOf_ws_head {c : Char} {cs : List Char} (h : isSpace c = false) :
    lenOf wsM (c :: cs) = 0 := by
  simp [lenOf, wsM, h, olen, List.dropWhile]

theorem floatLen_head {c : Char} {cs : List Char} (h1 : isDigit c = false) (h2 : c ≠ '.') :
    floatLen (c :: cs) = 0 := by
  simp [floatLen, firstNZ, lenOf, float1M, float2M, float3M, float4M, float5M, plusM, h1, h2, olen,
    List.dropWhile]

theorem imagLen_of_float {cs : List Char} (h : floatLen cs = 0) : imagLen cs = 0 := by
  simp [imagLen, seqLen, imagItem, h]

/-- the character after a piece does not satisfy `p` (or there is none) -/
def nextNot (p : Char → Bool) : Option Char → Bool
  | none => true
  | some c => !p c

/-! ### symbols -/

/-- the operator / keyword / punctuation tokens: text, tag, what must NOT follow -/
def symTable : List (List Char × String × (Char → Bool)) :=
  [(['=', '='], "equal", fun _ => false),
   (['!', '='], "notequal", fun _ => false),
   (['<', '<'], "leftshift", fun _ => false),
   (['>', '>'], "rightshift", fun _ => false),
   (['<', '='], "lessequal", fun _ => false),
   (['>', '='], "greaterequal", fun _ => false),
   (['<'], "less", fun c => c == '<' || c == '='),
   (['>'], "greater", fun c => c == '>' || c == '='),
   (['='], "assign", fun c => c == '='),
   (['a', 'n', 'd'], "and", isWord),
   (['o', 'r'], "or", isWord),
   (['n', 'o', 't'], "not", isWord),
   (['i', 'f'], "if", isWord),
   (['e', 'l', 's', 'e'], "else", isWord),
   (['+'], "plus", fun _ => false),
   (['-'], "minus", fun _ => false),
   (['*', '*'], "exp", fun _ => false),
   (['*'], "times", fun c => c == '*'),
   (['/', '/'], "floordiv", fun _ => false),
   (['/'], "over", fun c => c == '/'),
   (['%'], "modulo", fun _ => false),
   (['&'], "bitwiseand", fun _ => false),
   (['|'], "bitwiseor", fun _ => false),
   (['~'], "bitwisenot", fun _ => false),
   (['^'], "bitwisexor", fun _ => false),
   (['('], "openpar", fun _ => false),
   ([')'], "closepar", fun _ => false),
   (['['], "openbracket", fun _ => false),
   ([']'], "closebracket", fun _ => false),
   ([','], "comma", fun _ => false),
   (['.'], "dot", isDigit),
   ([':'], "colon", fun _ => false)]

theorem sym_step {s : List Char} {tag : String} {bad : Char → Bool}
    (hm : (s, tag, bad) ∈ symTable) (rest : List Char) (hn : nextNot bad rest.head? = true) :
    firstC rulesC (s ++ rest) = some (tag, s.length) := by
  simp only [symTable, List.mem_cons, Prod.mk.injEq, List.not_mem_nil, or_false] at hm
  rcases hm with ⟨rfl, rfl, rfl⟩ | ⟨rfl, rfl, rfl⟩ | ⟨rfl, rfl, rfl⟩ | ⟨rfl, rfl, rfl⟩ |
    ⟨rfl, rfl, rfl⟩ | ⟨rfl, rfl, rfl⟩ | ⟨rfl, rfl, rfl⟩ | ⟨rfl, rfl, rfl⟩ | ⟨rfl, rfl, rfl⟩ |
    ⟨rfl, rfl, rfl⟩ | ⟨rfl, rfl, rfl⟩ | ⟨rfl, rfl, rfl⟩ | ⟨rfl, rfl, rfl⟩ | ⟨rfl, rfl, rfl⟩ |
    ⟨rfl, rfl, rfl⟩ | ⟨rfl, rfl, rfl⟩ | ⟨rfl, rfl, rfl⟩ | ⟨rfl, rfl, rfl⟩ | ⟨rfl, rfl, rfl⟩ |
    ⟨rfl, rfl, rfl⟩ | ⟨rfl, rfl, rfl⟩ | ⟨rfl, rfl, rfl⟩ | ⟨rfl, rfl, rfl⟩ | ⟨rfl, rfl, rfl⟩ |
    ⟨rfl, rfl, rfl⟩ | ⟨rfl, rfl, rfl⟩ | ⟨rfl, rfl, rfl⟩ | ⟨rfl, rfl, rfl⟩ | ⟨rfl, rfl, rfl⟩ |
    ⟨rfl, rfl, rfl⟩ | ⟨rfl, rfl, rfl⟩ | ⟨rfl, rfl, rfl⟩
  all_goals
    cases rest with
    | nil =>
      simp [rulesC, firstC, lenOf, litM, kwM, boundary, olen, floatLen, firstNZ, imagLen, seqLen,
        imagItem, float1M, float2M, float3M, float4M, float5M, plusM, identM, wsM, isDigit,
        isIdStart, isAlpha, isSpace, List.dropWhile]
    | cons c r =>
      simp only [List.head?_cons, nextNot, Bool.not_eq_true', Bool.or_eq_false_iff,
        beq_eq_false_iff_ne, ne_eq] at hn
      first
      | (simp [rulesC, firstC, lenOf, litM, kwM, boundary, olen, floatLen, firstNZ, imagLen, seqLen,
          imagItem, float1M, float2M, float3M, float4M, float5M, plusM, identM, wsM, isDigit,
          isIdStart, isAlpha, isSpace, List.dropWhile, hn]; done)
      | (have hd : isDigit '.' = false := by decide
         simp [rulesC, firstC, lenOf, litM, kwM, boundary, olen, floatLen, firstNZ, imagLen, seqLen,
          imagItem, float1M, float2M, float3M, float4M, float5M, plusM, identM, wsM, hd,
          isIdStart, isAlpha, isSpace, List.dropWhile, hn])

/-! ### space, `True`, `False` -/

theorem sp_step (rest : List Char) (hn : nextNot isSpace rest.head? = true) :
    firstC rulesC (' ' :: rest) = some ("whitespace", 1) := by
  cases rest with
  | nil =>
    simp [rulesC, firstC, lenOf, litM, kwM, boundary, olen, floatLen, firstNZ, imagLen, seqLen,
      imagItem, float1M, float2M, float3M, float4M, float5M, plusM, identM, wsM, isDigit,
      isIdStart, isAlpha, isSpace, List.dropWhile]
  | cons c r =>
    simp only [List.head?_cons, nextNot, Bool.not_eq_true'] at hn
    have hsp : isSpace ' ' = true := by decide
    simp [rulesC, firstC, lenOf, litM, kwM, boundary, olen, floatLen, firstNZ, imagLen, seqLen,
      imagItem, float1M, float2M, float3M, float4M, float5M, plusM, identM, wsM, isDigit,
      isIdStart, isAlpha, hsp, List.dropWhile, hn]

theorem len_sub4 (n : Nat) : n + 1 + 1 + 1 + 1 - n = 4 := by omega
theorem len_sub5 (n : Nat) : n + 1 + 1 + 1 + 1 + 1 - n = 5 := by omega

/-- `True\b`: the constant, when no word character follows -/
theorem true_step (rest : List Char) (hn : nextNot isWord rest.head? = true) :
    firstC rulesC (['T', 'r', 'u', 'e'] ++ rest) = some ("True", 4) := by
  cases rest with
  | nil =>
    simp [rulesC, firstC, lenOf, litM, kwM, boundary, olen, floatLen, firstNZ, imagLen, seqLen,
      imagItem, float1M, float2M, float3M, float4M, float5M, plusM, identM, wsM, isDigit,
      isIdStart, isAlpha, isSpace, List.dropWhile, len_sub4, len_sub5]
  | cons c r =>
    simp only [List.head?_cons, nextNot, Bool.not_eq_true'] at hn
    simp [rulesC, firstC, lenOf, litM, kwM, boundary, olen, floatLen, firstNZ, imagLen, seqLen,
      imagItem, float1M, float2M, float3M, float4M, float5M, plusM, identM, wsM, isDigit,
      isIdStart, isAlpha, isSpace, List.dropWhile, len_sub4, len_sub5, hn]

/-- `False\b` -/
theorem false_step (rest : List Char) (hn : nextNot isWord rest.head? = true) :
    firstC rulesC (['F', 'a', 'l', 's', 'e'] ++ rest) = some ("False", 5) := by
  cases rest with
  | nil =>
    simp [rulesC, firstC, lenOf, litM, kwM, boundary, olen, floatLen, firstNZ, imagLen, seqLen,
      imagItem, float1M, float2M, float3M, float4M, float5M, plusM, identM, wsM, isDigit,
      isIdStart, isAlpha, isSpace, List.dropWhile, len_sub4, len_sub5]
  | cons c r =>
    simp only [List.head?_cons, nextNot, Bool.not_eq_true'] at hn
    simp [rulesC, firstC, lenOf, litM, kwM, boundary, olen, floatLen, firstNZ, imagLen, seqLen,
      imagItem, float1M, float2M, float3M, float4M, float5M, plusM, identM, wsM, isDigit,
      isIdStart, isAlpha, isSpace, List.dropWhile, len_sub4, len_sub5, hn]

/-! ### integers -/


theorem dropWhile_stop {p : Char → Bool} {rest : List Char} (hn : nextNot p rest.head? = true) :
    rest.dropWhile p = rest := by
  cases rest with
  | nil => rfl
  | cons c r =>
    simp only [List.head?_cons, nextNot, Bool.not_eq_true'] at hn
    simp [List.dropWhile, hn]

theorem dropWhile_append_stop {p : Char → Bool} {xs rest : List Char}
    (hx : ∀ c ∈ xs, p c = true) (hn : nextNot p rest.head? = true) :
    (xs ++ rest).dropWhile p = rest := by
  rw [List.dropWhile_append_of_pos hx, dropWhile_stop hn]

theorem plusM_stop {p : Char → Bool} {rest : List Char} (hn : nextNot p rest.head? = true) :
    plusM p rest = none := by
  cases rest with
  | nil => rfl
  | cons c r =>
    simp only [List.head?_cons, nextNot, Bool.not_eq_true'] at hn
    simp [plusM, hn]

theorem plusM_append_stop {p : Char → Bool} {x : Char} {xs rest : List Char} (hx : p x = true)
    (hxs : ∀ c ∈ xs, p c = true) (hn : nextNot p rest.head? = true) :
    plusM p (x :: (xs ++ rest)) = some rest := by
  simp [plusM, hx, dropWhile_append_stop hxs hn]

theorem expM_stop {rest : List Char} (hn : nextNot isExpChar rest.head? = true) :
    expM rest = none := by
  cases rest with
  | nil => rfl
  | cons c r =>
    simp only [List.head?_cons, nextNot, Bool.not_eq_true'] at hn
    simp [expM, hn]

theorem lenOf_lit_cls {p : Char → Bool} {k c : Char} {ks cs : List Char}
    (hc : p c = true) (hk : p k = false) : lenOf (litM (k :: ks)) (c :: cs) = 0 :=
  lenOf_lit_ne (by rintro rfl; simp [hc] at hk)

theorem lenOf_kw_cls {p : Char → Bool} {k c : Char} {ks cs : List Char}
    (hc : p c = true) (hk : p k = false) : lenOf (kwM (k :: ks)) (c :: cs) = 0 :=
  lenOf_kw_ne (by rintro rfl; simp [hc] at hk)

/-- what may follow an integer literal: no digit, no letter, no dot -/
def intStop (c : Char) : Bool := isDigit c || isAlpha c || c == '.'

theorem isExpChar_alpha {c : Char} (h : isExpChar c = true) : isAlpha c = true := by
  simp only [isExpChar, Bool.or_eq_true, beq_iff_eq] at h
  rcases h with ((rfl | rfl) | rfl) | rfl <;> decide

theorem nextNot_mono {p q : Char → Bool} (h : ∀ c, p c = true → q c = true) {o : Option Char}
    (hq : nextNot q o = true) : nextNot p o = true := by
  cases o with
  | none => rfl
  | some c =>
    simp only [nextNot, Bool.not_eq_true'] at hq ⊢
    cases hp : p c
    · rfl
    · rw [h c hp] at hq; cases hq

/-- the five float forms fail on digits followed by something that is no digit, letter or dot -/
theorem floatLen_after_digits {cs rest : List Char} (hp : plusM isDigit cs = some rest)
    (hw : cs.dropWhile isDigit = rest) (hn : nextNot intStop rest.head? = true) :
    floatLen cs = 0 := by
  have hal : nextNot isAlpha rest.head? = true :=
    nextNot_mono (fun c h => by simp [intStop, h]) hn
  have hex : nextNot isExpChar rest.head? = true :=
    nextNot_mono (fun c h => isExpChar_alpha h) hal
  have hdot : ∀ r, rest ≠ '.' :: r := by
    rintro r rfl
    simp [nextNot, intStop] at hn
  have h1 : float1M cs = none := by
    unfold float1M; rw [hp]
    cases rest with
    | nil => rfl
    | cons c r =>
      by_cases hc : c = '.'
      · subst hc; exact absurd rfl (hdot r)
      · simp [hc]
  have h2 : float2M cs = none := by
    unfold float2M; rw [hp]
    have : (match rest with | '.' :: r => r.dropWhile isDigit | _ => rest) = rest := by
      cases rest with
      | nil => rfl
      | cons c r =>
        by_cases hc : c = '.'
        · subst hc; exact absurd rfl (hdot r)
        · simp [hc]
    simp only [this, expM_stop hex]
  have h3 : float3M cs = none := by
    unfold float3M; rw [hw]
    cases rest with
    | nil => rfl
    | cons c r =>
      by_cases hc : c = '.'
      · subst hc; exact absurd rfl (hdot r)
      · simp [hc]
  have h4 : float4M cs = none := by
    unfold float4M; rw [hw]
    cases rest with
    | nil => rfl
    | cons c r =>
      by_cases hc : c = '.'
      · subst hc; exact absurd rfl (hdot r)
      · simp [hc]
  have h5 : float5M cs = none := by
    unfold float5M; rw [hp]; exact plusM_stop hal
  simp [floatLen, firstNZ, lenOf, h1, h2, h3, h4, h5, olen]
theorem lenOf_some_append {m : List Char → Option (List Char)} {t rest : List Char}
    (h : m (t ++ rest) = some rest) : lenOf m (t ++ rest) = t.length := by
  simp [lenOf, h, olen]

theorem int_step {d : Char} {ds rest : List Char} (hd : isDigit d = true)
    (hds : ∀ c ∈ ds, isDigit c = true) (hn : nextNot intStop rest.head? = true) :
    firstC rulesC (d :: ds ++ rest) = some ("int", (d :: ds).length) := by
  have hnd : nextNot isDigit rest.head? = true :=
    nextNot_mono (fun c h => by simp [intStop, h]) hn
  have hp : plusM isDigit (d :: (ds ++ rest)) = some rest := plusM_append_stop hd hds hnd
  have hw : (d :: (ds ++ rest)).dropWhile isDigit = rest := by
    simp [List.dropWhile, hd, dropWhile_append_stop hds hnd]
  have hf : floatLen (d :: (ds ++ rest)) = 0 := floatLen_after_digits hp hw hn
  have hi : lenOf (plusM isDigit) (d :: (ds ++ rest)) = ds.length + 1 := by
    have := lenOf_some_append (m := plusM isDigit) (t := d :: ds) (rest := rest) (by simpa using hp)
    simpa using this
  simp (config := { decide := true }) only [List.cons_append, rulesC, firstC,
    lenOf_lit_cls (p := isDigit) hd, lenOf_kw_cls (p := isDigit) hd, hf, imagLen_of_float hf, hi,
    List.length_cons, if_true]
  simp


/-! ### identifiers -/

theorem idStart_not_digit {c : Char} (h : isIdStart c = true) : isDigit c = false := by
  simp only [isIdStart, isAlpha, Bool.or_eq_true, beq_iff_eq, Bool.and_eq_true,
    decide_eq_true_eq] at h
  rcases h with ((rfl | rfl) | rfl) | h
  · decide
  · decide
  · decide
  · simp only [isDigit, Bool.and_eq_false_iff, decide_eq_false_iff_not]; omega

theorem idStart_ne_dot {c : Char} (h : isIdStart c = true) : c ≠ '.' := by
  rintro rfl; exact absurd h (by decide)

theorem word_idCont {c : Char} (h : isWord c = true) : isIdCont c = true := by
  simp only [isWord, Bool.or_eq_true, beq_iff_eq] at h
  simp only [isIdCont, isIdStart, Bool.or_eq_true, beq_iff_eq]
  rcases h with (h | h) | rfl
  · exact Or.inl (Or.inr h)
  · exact Or.inr h
  · exact Or.inl (Or.inl (Or.inr rfl))

/-- the keyword rule `kw\b` matches at the start of `cs` -/
def kwHit (kw cs : List Char) : Bool :=
  match litM kw cs with
  | some r => boundary r
  | none => false

/-- a name that an earlier rule of the table takes (wholly or in part) -/
def reserved (cs : List Char) : Bool :=
  kwHit ['a', 'n', 'd'] cs || kwHit ['o', 'r'] cs || kwHit ['n', 'o', 't'] cs ||
  kwHit ['i', 'f'] cs || kwHit ['e', 'l', 's', 'e'] cs ||
  kwHit ['T', 'r', 'u', 'e'] cs || kwHit ['F', 'a', 'l', 's', 'e'] cs

/-- the text is lexed as ONE identifier: it matches the identifier rule and no earlier rule -/
def identOk : List Char → Bool
  | [] => false
  | c :: r => isIdStart c && r.all isIdCont && !reserved (c :: r)

theorem litM_ext : ∀ (kw t rest : List Char), (∀ k ∈ kw, isIdCont k = true) →
    nextNot isIdCont rest.head? = true →
    litM kw (t ++ rest) = (litM kw t).map (· ++ rest)
  | [], t, rest, _, _ => by cases t <;> cases rest <;> simp [litM]
  | k :: ks, [], rest, hk, hn => by
    cases rest with
    | nil => simp [litM]
    | cons c r =>
      simp only [List.head?_cons, nextNot, Bool.not_eq_true'] at hn
      have : c ≠ k := by
        rintro rfl; rw [hk c (List.mem_cons_self ..)] at hn; cases hn
      simp [litM, this]
  | k :: ks, c :: t, rest, hk, hn => by
    simp only [List.cons_append, litM]
    split
    · exact litM_ext ks t rest (fun k' hk' => hk k' (List.mem_cons_of_mem _ hk')) hn
    · rfl

theorem boundary_ext {r rest : List Char} (hn : nextNot isIdCont rest.head? = true) :
    boundary (r ++ rest) = boundary r := by
  cases r with
  | cons c r' => rfl
  | nil =>
    cases rest with
    | nil => rfl
    | cons c r' =>
      simp only [List.head?_cons, nextNot, Bool.not_eq_true'] at hn
      simp only [List.nil_append, boundary]
      cases hw : isWord c
      · rfl
      · rw [word_idCont hw] at hn; cases hn

theorem kwM_ext {kw t rest : List Char} (hk : ∀ k ∈ kw, isIdCont k = true)
    (hn : nextNot isIdCont rest.head? = true) (hh : kwHit kw t = false) :
    kwM kw (t ++ rest) = none := by
  simp only [kwM, litM_ext kw t rest hk hn]
  simp only [kwHit] at hh
  cases hl : litM kw t with
  | none => rfl
  | some r =>
    rw [hl] at hh
    simp [boundary_ext hn, hh]

theorem lenOf_none {m : List Char → Option (List Char)} {cs : List Char} (h : m cs = none) :
    lenOf m cs = 0 := by
  simp [lenOf, h, olen]

theorem ident_step {c : Char} {r rest : List Char} (hok : identOk (c :: r) = true)
    (hn : nextNot isIdCont rest.head? = true) :
    firstC rulesC (c :: r ++ rest) = some ("identifier", (c :: r).length) := by
  simp only [identOk, Bool.and_eq_true, List.all_eq_true, Bool.not_eq_true', reserved,
    Bool.or_eq_false_iff] at hok
  obtain ⟨⟨hc, hr⟩, ⟨⟨⟨⟨⟨h1, h2⟩, h3⟩, h4⟩, h5⟩, h6⟩, h7⟩ := hok
  have hf : floatLen (c :: (r ++ rest)) = 0 := floatLen_head (idStart_not_digit hc) (idStart_ne_dot hc)
  have e1 := lenOf_none (kwM_ext (rest := rest) (by decide) hn h1)
  have e2 := lenOf_none (kwM_ext (rest := rest) (by decide) hn h2)
  have e3 := lenOf_none (kwM_ext (rest := rest) (by decide) hn h3)
  have e4 := lenOf_none (kwM_ext (rest := rest) (by decide) hn h4)
  have e5 := lenOf_none (kwM_ext (rest := rest) (by decide) hn h5)
  have e6 := lenOf_none (kwM_ext (rest := rest) (by decide) hn h6)
  have e7 := lenOf_none (kwM_ext (rest := rest) (by decide) hn h7)
  have hi : lenOf identM (c :: (r ++ rest)) = r.length + 1 := by
    have : identM ((c :: r) ++ rest) = some rest := by
      simp [identM, hc, dropWhile_append_stop hr hn]
    simpa using lenOf_some_append this
  simp only [List.cons_append] at e1 e2 e3 e4 e5 e6 e7
  simp (config := { decide := true }) only [List.cons_append, rulesC, firstC,
    lenOf_lit_cls (p := isIdStart) hc, e1, e2, e3, e4, e5, e6, e7, hf, imagLen_of_float hf, hi,
    lenOf_int_head (idStart_not_digit hc), List.length_cons, if_true]
  simp



/-! ### floats -/

/-- `e[+-]D+`, to the end -/
def expShape : List Char → Bool
  | 'e' :: s :: x :: xs => isSign s && isDigit x && xs.all isDigit
  | _ => false

/-- the spellings `repr(float)` produces for finite values: `D+.D+`, `D+.D+e±D+`, `D+e±D+` -/
def floatShape (cs : List Char) : Bool :=
  match cs.takeWhile isDigit, cs.dropWhile isDigit with
  | [], _ => false
  | _ :: _, '.' :: r =>
    match r.takeWhile isDigit, r.dropWhile isDigit with
    | [], _ => false
    | _ :: _, [] => true
    | _ :: _, r' => expShape r'
  | _ :: _, r => expShape r

theorem expShape_inv {cs : List Char} (h : expShape cs = true) :
    ∃ s x xs, cs = 'e' :: s :: x :: xs ∧ isSign s = true ∧ isDigit x = true ∧
      ∀ c ∈ xs, isDigit c = true := by
  unfold expShape at h
  split at h
  · rename_i s x xs
    simp only [Bool.and_eq_true, List.all_eq_true] at h
    exact ⟨s, x, xs, rfl, h.1.1, h.1.2, h.2⟩
  · cases h

theorem takeWhile_all (p : Char → Bool) (l : List Char) : ∀ c ∈ l.takeWhile p, p c = true :=
  List.all_eq_true.mp List.all_takeWhile

/-- a digit run followed by the rest: `l = d :: ds ++ r` -/
theorem digits_split {l : List Char} {d : Char} {ds : List Char}
    (h : l.takeWhile isDigit = d :: ds) :
    isDigit d = true ∧ (∀ c ∈ ds, isDigit c = true) ∧ l = d :: ds ++ l.dropWhile isDigit := by
  have hall := takeWhile_all isDigit l
  rw [h] at hall
  refine ⟨hall d (List.mem_cons_self ..), fun c hc => hall c (List.mem_cons_of_mem _ hc), ?_⟩
  rw [← h, List.takeWhile_append_dropWhile]

theorem floatShape_inv {cs : List Char} (h : floatShape cs = true) :
    ∃ d ds, isDigit d = true ∧ (∀ c ∈ ds, isDigit c = true) ∧
      ((∃ f fs, isDigit f = true ∧ (∀ c ∈ fs, isDigit c = true) ∧
          (cs = d :: ds ++ '.' :: f :: fs ∨
           ∃ s x xs, isSign s = true ∧ isDigit x = true ∧ (∀ c ∈ xs, isDigit c = true) ∧
             cs = d :: ds ++ '.' :: f :: fs ++ 'e' :: s :: x :: xs)) ∨
       ∃ s x xs, isSign s = true ∧ isDigit x = true ∧ (∀ c ∈ xs, isDigit c = true) ∧
         cs = d :: ds ++ 'e' :: s :: x :: xs) := by
  cases htw : cs.takeWhile isDigit with
  | nil => simp [floatShape, htw] at h
  | cons d ds =>
    obtain ⟨hd, hds, hcs⟩ := digits_split htw
    refine ⟨d, ds, hd, hds, ?_⟩
    cases hdw : cs.dropWhile isDigit with
    | nil =>
      simp [floatShape, htw, hdw, expShape] at h
    | cons c r =>
      rw [hdw] at hcs
      by_cases hc : c = '.'
      · subst hc
        left
        cases htw2 : r.takeWhile isDigit with
        | nil => simp [floatShape, htw, hdw, htw2] at h
        | cons f fs =>
          obtain ⟨hf, hfs, hr⟩ := digits_split htw2
          refine ⟨f, fs, hf, hfs, ?_⟩
          cases hdw2 : r.dropWhile isDigit with
          | nil =>
            left
            rw [hdw2] at hr
            rw [hcs, hr]; simp
          | cons c2 r2 =>
            right
            rw [hdw2] at hr
            simp only [floatShape, htw, hdw, htw2, hdw2] at h
            obtain ⟨s, x, xs, he, hs, hx, hxs⟩ := expShape_inv h
            refine ⟨s, x, xs, hs, hx, hxs, ?_⟩
            rw [hcs, hr, he]; simp
      · right
        have h' : expShape (c :: r) = true := by
          simp only [floatShape, htw, hdw] at h
          split at h
          · cases h
          · exfalso; simp_all
          · exact h
        obtain ⟨s, x, xs, he, hs, hx, hxs⟩ := expShape_inv h'
        exact ⟨s, x, xs, hs, hx, hxs, by rw [hcs, he]⟩


theorem nextNot_word_digit {o : Option Char} (h : nextNot isWord o = true) :
    nextNot isDigit o = true := nextNot_mono (fun c hc => by simp [isWord, hc]) h
theorem nextNot_word_alpha {o : Option Char} (h : nextNot isWord o = true) :
    nextNot isAlpha o = true := nextNot_mono (fun c hc => by simp [isWord, hc]) h
theorem nextNot_word_exp {o : Option Char} (h : nextNot isWord o = true) :
    nextNot isExpChar o = true :=
  nextNot_mono (fun _ hc => isExpChar_alpha hc) (nextNot_word_alpha h)

theorem boundary_of_nextNot {rest : List Char} (h : nextNot isWord rest.head? = true) :
    boundary rest = true := by
  cases rest with
  | nil => rfl
  | cons c r => simpa [nextNot, boundary] using h

theorem litM_j_stop {rest : List Char} (h : nextNot isWord rest.head? = true) :
    litM ['j'] rest = none := by
  cases rest with
  | nil => rfl
  | cons c r =>
    simp only [List.head?_cons, nextNot, Bool.not_eq_true'] at h
    have : c ≠ 'j' := by rintro rfl; exact absurd h (by decide)
    simp [litM, this]

/-- the chain, once the `float` rule is known to take exactly `text` -/
theorem float_chain {d : Char} {t rest : List Char} (hd : isDigit d = true)
    (hf : floatLen (d :: t ++ rest) = (d :: t).length)
    (hn : nextNot isWord rest.head? = true) :
    firstC rulesC (d :: t ++ rest) = some ("float", (d :: t).length) := by
  have hi : imagLen (d :: t ++ rest) = 0 := by
    have hdrop : List.drop (t.length + 1) (d :: (t ++ rest)) = rest := by
      simp
    simp only [List.cons_append, List.length_cons] at hf
    simp [imagLen, seqLen, imagItem, hf, hdrop, lenOf, litM_j_stop hn, olen]
  simp only [List.cons_append] at hf hi
  simp (config := { decide := true }) only [List.cons_append, rulesC, firstC,
    lenOf_lit_cls (p := isDigit) hd, lenOf_kw_cls (p := isDigit) hd, hf, hi,
    List.length_cons, if_true]
  simp

theorem expM_shape {s x : Char} {xs rest : List Char} (hs : isSign s = true)
    (hx : isDigit x = true) (hxs : ∀ c ∈ xs, isDigit c = true)
    (hn : nextNot isWord rest.head? = true) :
    expM ('e' :: s :: x :: (xs ++ rest)) = some rest := by
  have he : isExpChar 'e' = true := by decide
  simp [expM, he, hs, plusM_append_stop hx hxs (nextNot_word_digit hn)]

theorem float_step {t rest : List Char} (hsh : floatShape t = true)
    (hn : nextNot isWord rest.head? = true) :
    firstC rulesC (t ++ rest) = some ("float", t.length) := by
  have hnd := nextNot_word_digit hn
  have hna := nextNot_word_alpha hn
  have hne := nextNot_word_exp hn
  have hdot : isDigit '.' = false := by decide
  have hee : isDigit 'e' = false := by decide
  obtain ⟨d, ds, hd, hds, hcase⟩ := floatShape_inv hsh
  rcases hcase with ⟨f, fs, hf, hfs, rfl | ⟨s, x, xs, hs, hx, hxs, rfl⟩⟩ | ⟨s, x, xs, hs, hx, hxs, rfl⟩
  · -- D+.D+
    have hp : plusM isDigit (d :: (ds ++ '.' :: (f :: fs ++ rest))) = some ('.' :: (f :: fs ++ rest)) :=
      plusM_append_stop hd hds (by simp [nextNot, hdot])
    have hfr : (f :: (fs ++ rest)).dropWhile isDigit = rest := by
      simp [List.dropWhile, hf, dropWhile_append_stop hfs hnd]
    have h1 : float1M (d :: (ds ++ '.' :: (f :: fs ++ rest))) = some rest := by
      unfold float1M; rw [hp]
      simp [hfr, optM, expM_stop hne, dropWhile_stop hna]
    have := float_chain (d := d) (t := ds ++ '.' :: f :: fs) (rest := rest) hd (by
      have hl := lenOf_some_append (m := float1M) (t := d :: ds ++ '.' :: f :: fs) (rest := rest)
        (by simpa using h1)
      simp only [floatLen, firstNZ]
      simp only [List.cons_append, List.append_assoc] at hl ⊢
      rw [hl]; simp) hn
    simpa using this
  · -- D+.D+e±D+
    have hp : plusM isDigit (d :: (ds ++ '.' :: (f :: fs ++ 'e' :: s :: x :: (xs ++ rest))))
        = some ('.' :: (f :: fs ++ 'e' :: s :: x :: (xs ++ rest))) :=
      plusM_append_stop hd hds (by simp [nextNot, hdot])
    have hfr : (f :: (fs ++ 'e' :: s :: x :: (xs ++ rest))).dropWhile isDigit
        = 'e' :: s :: x :: (xs ++ rest) := by
      simp [List.dropWhile, hf, dropWhile_append_stop hfs (rest := 'e' :: s :: x :: (xs ++ rest))
        (by simp [nextNot, hee])]
    have h1 : float1M (d :: (ds ++ '.' :: (f :: fs ++ 'e' :: s :: x :: (xs ++ rest)))) = some rest := by
      unfold float1M; rw [hp]
      simp [hfr, optM, expM_shape hs hx hxs hn, dropWhile_stop hna]
    have := float_chain (d := d) (t := ds ++ '.' :: f :: fs ++ 'e' :: s :: x :: xs) (rest := rest) hd (by
      have hl := lenOf_some_append (m := float1M)
        (t := d :: ds ++ '.' :: f :: fs ++ 'e' :: s :: x :: xs) (rest := rest) (by simpa using h1)
      simp only [floatLen, firstNZ]
      simp only [List.cons_append, List.append_assoc] at hl ⊢
      rw [hl]; simp) hn
    simpa using this
  · -- D+e±D+
    have hp : plusM isDigit (d :: (ds ++ 'e' :: s :: x :: (xs ++ rest)))
        = some ('e' :: s :: x :: (xs ++ rest)) :=
      plusM_append_stop hd hds (by simp [nextNot, hee])
    have h1 : float1M (d :: (ds ++ 'e' :: s :: x :: (xs ++ rest))) = none := by
      unfold float1M; rw [hp]; simp
    have h2 : float2M (d :: (ds ++ 'e' :: s :: x :: (xs ++ rest))) = some rest := by
      unfold float2M; rw [hp]
      simp [expM_shape hs hx hxs hn, dropWhile_stop hna, boundary_of_nextNot hn]
    have := float_chain (d := d) (t := ds ++ 'e' :: s :: x :: xs) (rest := rest) hd (by
      have hl := lenOf_some_append (m := float2M)
        (t := d :: ds ++ 'e' :: s :: x :: xs) (rest := rest) (by simpa using h2)
      simp only [floatLen, firstNZ]
      simp only [List.cons_append, List.append_assoc] at hl ⊢
      rw [lenOf_none h1, hl]; simp) hn
    simpa using this


end PV.Lexer
