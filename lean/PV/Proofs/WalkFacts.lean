import PV.Proofs.WalkSpec
import PV.Proofs.WalkIdentity
/-
  C04 — consequences of the walk specification: node occurrences, pre/post order, arguments.
-/
namespace PV

theorem flatMap_congr_mem {α β : Type} {l : List α} {f g : α → List β}
    (h : ∀ a ∈ l, f a = g a) : l.flatMap f = l.flatMap g := by
  rw [List.flatMap_def, List.flatMap_def, List.map_congr_left h]

theorem walkChildren_leaf {e : Expr} (h : e.isLeafNode = true) : walkChildren e = [] := by
  cases e <;> simp_all [Expr.isLeafNode, walkChildren, Expr.children]

/-- number of node occurrences the walk reaches: the node and, recursively, its walk children -/
def walkCount (e : Expr) : Nat :=
  1 + ((walkChildren e).attach.map (fun ⟨c, _⟩ => walkCount c)).sum
termination_by e.size
decreasing_by exact walkChildren_size_lt ‹_›

theorem walkCount_eq (e : Expr) : walkCount e = 1 + ((walkChildren e).map walkCount).sum := by
  rw [walkCount]; simp [List.map_subtype, List.unattach_attach]

/-- the node occurrences in pre-order (node before its children) -/
def preorder (e : Expr) : List Expr :=
  e :: (walkChildren e).attach.flatMap (fun ⟨c, _⟩ => preorder c)
termination_by e.size
decreasing_by exact walkChildren_size_lt ‹_›

theorem preorder_eq (e : Expr) : preorder e = e :: (walkChildren e).flatMap preorder := by
  rw [preorder]; simp [List.flatMap_subtype, List.unattach_attach]

/-- the node occurrences in post-order (node after its children) -/
def postorder (e : Expr) : List Expr :=
  (walkChildren e).attach.flatMap (fun ⟨c, _⟩ => postorder c) ++ [e]
termination_by e.size
decreasing_by exact walkChildren_size_lt ‹_›

theorem postorder_eq (e : Expr) : postorder e = (walkChildren e).flatMap postorder ++ [e] := by
  rw [postorder]; simp [List.flatMap_subtype, List.unattach_attach]

theorem preorder_length (e : Expr) : (preorder e).length = walkCount e := by
  induction e using walkChildren_induct with
  | step e ih =>
    rw [preorder_eq, walkCount_eq, List.length_cons, List.length_flatMap,
      List.map_congr_left (g := walkCount) ih]; omega

theorem postorder_length (e : Expr) : (postorder e).length = walkCount e := by
  induction e using walkChildren_induct with
  | step e ih =>
    rw [postorder_eq, walkCount_eq, List.length_append, List.length_flatMap,
      List.map_congr_left (g := walkCount) ih]; simp; omega

/-- with a `visit` that never returns `False` the trace is visit, children, post_visit — leaves
included (they have no children) -/
theorem walkSpec_nil (args : Bool) (e : Expr) :
    walkSpec [] args e =
      ⟨false, e, args⟩ :: ((walkChildren e).flatMap (walkSpec [] args) ++ [⟨true, e, args⟩]) := by
  cases h : e.isLeafNode with
  | true => rw [walkSpec_leaf _ _ h, walkChildren_leaf h]; rfl
  | false => rw [walkSpec_node _ _ h]; simp

theorem walkSpec_args (skip : List String) (args : Bool) (e : Expr) :
    ∀ ev ∈ walkSpec skip args e, ev.args = args := by
  induction e using walkChildren_induct with
  | step e ih =>
    intro ev hev
    cases h : e.isLeafNode with
    | true =>
      rw [walkSpec_leaf _ _ h] at hev
      simp only [List.mem_cons, List.not_mem_nil, or_false] at hev
      rcases hev with rfl | rfl <;> rfl
    | false =>
      rw [walkSpec_node _ _ h] at hev
      split at hev
      · simp only [List.mem_cons, List.not_mem_nil, or_false] at hev
        subst hev; rfl
      · simp only [List.mem_cons, List.mem_append, List.mem_flatMap, List.not_mem_nil,
          or_false] at hev
        rcases hev with rfl | ⟨c, hc, hev⟩ | rfl
        · rfl
        · exact ih c hc ev hev
        · rfl

theorem walkSpec_visit_nodes (args : Bool) (e : Expr) :
    ((walkSpec [] args e).filter (fun ev => !ev.post)).map (·.node) = preorder e := by
  induction e using walkChildren_induct with
  | step e ih =>
    rw [walkSpec_nil, preorder_eq]
    simp only [List.filter_cons, List.filter_append, List.filter_flatMap, List.map_cons,
      List.map_flatMap, Bool.not_false, Bool.not_true, if_true,
      Bool.false_eq_true, if_false, List.filter_nil, List.append_nil]
    rw [flatMap_congr_mem ih]

theorem walkSpec_post_nodes (args : Bool) (e : Expr) :
    ((walkSpec [] args e).filter (fun ev => ev.post)).map (·.node) = postorder e := by
  induction e using walkChildren_induct with
  | step e ih =>
    rw [walkSpec_nil, postorder_eq]
    simp only [List.filter_cons, List.filter_append, List.filter_flatMap, List.map_cons,
      List.map_append, List.map_flatMap, if_true,
      Bool.false_eq_true, if_false, List.filter_nil, List.map_nil]
    rw [flatMap_congr_mem ih]

/-! ### node occurrences reached = all nodes, unless a slice has `None` parts -/

theorem Expr.sizeL_eq_sum : ∀ cs : List Expr, Expr.sizeL cs = (cs.map Expr.size).sum
  | [] => rfl
  | c :: cs => by simp [Expr.sizeL, Expr.sizeL_eq_sum cs]

theorem Expr.size_eq_children (e : Expr) : e.size = 1 + (e.children.map Expr.size).sum := by
  cases e <;> simp [Expr.size, Expr.children, Expr.sizeL_eq_sum] <;> omega

/-- no slice below `e` has a `None` part -/
def NoNoneParts (e : Expr) : Prop :=
  ∀ cs, Subterm (.slice cs) e → ∀ c ∈ cs, c.isNoneConst = false

theorem walkChildren_sum {e : Expr} (h : NoNoneParts e) (f : Expr → Nat) :
    ((walkChildren e).map f).sum = (e.children.map f).sum := by
  cases e with
  | bin o a b => cases o <;> simp [walkChildren, BinOp.isShift, Expr.children] <;> omega
  | slice cs =>
    have : cs.filter (fun c => !c.isNoneConst) = cs :=
      List.filter_eq_self.2 (fun c hc => by simp [h cs (.refl _) c hc])
    simp [walkChildren, Expr.children, this]
  | _ => rfl

theorem walkCount_eq_size (e : Expr) (h : NoNoneParts e) : walkCount e = e.size := by
  induction e using walkChildren_induct with
  | step e ih =>
    have ih' : ∀ c ∈ walkChildren e, walkCount c = c.size := fun c hc =>
      ih c hc (fun cs hs => h cs (hs.trans (.child (mem_children_of_mem_walkChildren hc))))
    rw [walkCount_eq, List.map_congr_left ih', walkChildren_sum h, ← Expr.size_eq_children]
/-- every element succeeds ⇒ `mapM` succeeds with the list of results -/
theorem mapM_ok_of_mem {α β : Type} {f : α → Except DepErr β} (g : α → β) :
    ∀ l : List α, (∀ a ∈ l, f a = .ok (g a)) → l.mapM f = .ok (l.map g)
  | [], _ => rfl
  | a :: l, h => by
      rw [List.mapM_cons, h a (by simp), mapM_ok_of_mem g l (fun b hb => h b (by simp [hb]))]
      rfl


def sliceHasNoNonePart : Expr → Bool
  | .slice cs => cs.all (fun c => !c.isNoneConst)
  | _ => true

theorem noNoneParts_of_check {e : Expr} (h : allSub sliceHasNoNonePart e = true) :
    NoNoneParts e := by
  intro cs ht c hc
  have := allSub_sound h _ ht
  simp only [sliceHasNoNonePart, List.all_eq_true] at this
  simpa using this c hc

/-- a tree without any string / `None` constant satisfies the walk's side condition -/
theorem walkOK_of_clean (skip : List String) (e : Expr)
    (h : ∀ t, Subterm t e → t.isRejectedConst = false) : walkOK skip e = true := by
  induction e using walkChildren_induct with
  | step e ih =>
    have hall : (walkChildren e).all (walkOK skip) = true :=
      List.all_eq_true.2 (fun c hc => ih c hc (fun t ht =>
        h t (ht.trans (.child (mem_children_of_mem_walkChildren hc)))))
    rw [walkOK_eq, h e (.refl e), hall]; simp
end PV
