import PV.Proofs.GABits
import Mathlib.Algebra.Group.Basic
import Mathlib.Algebra.Ring.Int.Defs
/-
  C18 — proofs about the model `PV/Model/GA.lean`, part 2: metric weights (commutative monoids and
  rings from Mathlib) and blade products.
-/
namespace PV.GA

/-! ## `_shared_metric_coeff` is the product of the metric entries over the set bits -/

/-- `∏ {g (i + k) | bit k of s is set}`, by binary recursion on `s` -/
def prodFrom {R : Type} [Mul R] [OfNat R 1] (g : Nat → R) : Nat → Nat → R
  | _, 0 => 1
  | i, s+1 => (if (s+1) % 2 = 1 then g i else 1) * prodFrom g (i + 1) ((s+1) / 2)
decreasing_by omega

/-- `∏ {g k | bit k of s is set}` -/
def prodBits {R : Type} [Mul R] [OfNat R 1] (g : Nat → R) (s : Nat) : R := prodFrom g 0 s

section Monoid
variable {R : Type} [CommMonoid R] (g : Nat → R)

@[simp] theorem prodFrom_zero (i : Nat) : prodFrom g i 0 = 1 := by simp [prodFrom]

theorem prodFrom_eq (i s : Nat) :
    prodFrom g i s = (if s % 2 = 1 then g i else 1) * prodFrom g (i + 1) (s / 2) := by
  cases s with
  | zero => simp
  | succ k => rw [prodFrom]

theorem smcLoop_eq : ∀ (fuel t idx : Nat) (result : R), t < 2 ^ fuel →
    smcLoop g fuel (t <<< idx) idx result = result * prodFrom g idx t := by
  intro fuel
  induction fuel with
  | zero =>
    intro t idx result ht
    have : t = 0 := by simpa using ht
    subst this; simp [smcLoop]
  | succ n ih =>
    intro t idx result ht
    rw [smcLoop]
    by_cases h0 : t = 0
    · subst h0; simp
    · have hne : t <<< idx ≠ 0 := by rw [Ne, Nat.shiftLeft_eq_zero_iff]; exact h0
      simp only [hne, ↓reduceIte]
      have hand : t <<< idx &&& 1 <<< idx = (t % 2) <<< idx := by
        rw [← Nat.shiftLeft_and_distrib, Nat.and_one_is_mod]
      have hlt : t / 2 < 2 ^ n := by rw [Nat.pow_succ] at ht; omega
      rw [hand, prodFrom_eq g idx t]
      rcases Nat.mod_two_eq_zero_or_one t with h2 | h2
      · have hsh : t <<< idx = (t / 2) <<< (idx + 1) := by
          rw [Nat.shiftLeft_succ_inside]; congr 1; omega
        have hz : ¬ ((0 : Nat) <<< idx ≠ 0) := by simp
        rw [h2]
        simp only [hz, ↓reduceIte, Nat.zero_ne_one, one_mul]
        rw [hsh]
        exact ih (t / 2) (idx + 1) result hlt
      · have hx : t ^^^ 1 = 2 * (t / 2) := by
          rw [eq_iff_mod2_div2, xor_mod2, xor_div2]
          constructor
          · omega
          · simp
        have hsh : t <<< idx ^^^ 1 <<< idx = (t / 2) <<< (idx + 1) := by
          rw [← Nat.shiftLeft_xor_distrib, hx, Nat.shiftLeft_succ_inside]
        have hz : (1 : Nat) <<< idx ≠ 0 := by rw [Ne, Nat.shiftLeft_eq_zero_iff]; omega
        rw [h2]
        simp only [hz, ↓reduceIte, ne_eq, not_false_eq_true]
        rw [hsh, ih (t / 2) (idx + 1) (result * g idx) hlt, mul_assoc]

/-- `_shared_metric_coeff(shared_bits, space)` is the product of `g i` over the set bits `i` of
    `shared_bits` (in particular the fuel of the model never runs out) -/
theorem sharedMetricCoeff_eq_prodBits (s : Nat) : sharedMetricCoeff g s = prodBits g s := by
  unfold sharedMetricCoeff prodBits
  have := smcLoop_eq g (s.log2 + 1) s 0 1 Nat.lt_log2_self
  simpa using this

theorem wGeometric_eq_prodBits (a b : Nat) : wGeometric g a b = prodBits g (a &&& b) := by
  unfold wGeometric
  by_cases h : a &&& b = 0
  · simp [h, prodBits]
  · simp [h, sharedMetricCoeff_eq_prodBits]

/-- metric cocycle on the clean product, at every starting index -/
theorem prodFrom_cocycle : ∀ (n i a b c : Nat), a + b + c ≤ n →
    prodFrom g i (a &&& b) * prodFrom g i ((a ^^^ b) &&& c)
      = prodFrom g i (b &&& c) * prodFrom g i (a &&& (b ^^^ c)) := by
  intro n
  induction n using Nat.strongRecOn with
  | _ n ih =>
    intro i a b c hn
    by_cases h0 : a + b + c = 0
    · have ha : a = 0 := by omega
      have hb : b = 0 := by omega
      have hc : c = 0 := by omega
      subst ha hb hc; simp
    · have ih' := ih (a / 2 + b / 2 + c / 2) (by omega) (i + 1) (a / 2) (b / 2) (c / 2)
        (Nat.le_refl _)
      rw [prodFrom_eq g i (a &&& b), prodFrom_eq g i ((a ^^^ b) &&& c),
        prodFrom_eq g i (b &&& c), prodFrom_eq g i (a &&& (b ^^^ c))]
      simp only [and_div2, xor_div2, and_mod2, xor_mod2]
      rw [mul_mul_mul_comm, ih', mul_mul_mul_comm _ (prodFrom g (i + 1) (b / 2 &&& c / 2))]
      congr 1
      rcases Nat.mod_two_eq_zero_or_one a with h1 | h1 <;>
      rcases Nat.mod_two_eq_zero_or_one b with h2 | h2 <;>
      rcases Nat.mod_two_eq_zero_or_one c with h3 | h3 <;>
      simp [h1, h2, h3]

/-- (d) metric-weight cocycle of the geometric product, clean form -/
theorem prodBits_cocycle (a b c : Nat) :
    prodBits g (a &&& b) * prodBits g ((a ^^^ b) &&& c)
      = prodBits g (b &&& c) * prodBits g (a &&& (b ^^^ c)) :=
  prodFrom_cocycle g _ 0 a b c (Nat.le_refl _)

/-- (d) metric-weight cocycle of the geometric product, for the weights as coded -/
theorem wGeometric_cocycle (a b c : Nat) :
    wGeometric g a b * wGeometric g (a ^^^ b) c
      = wGeometric g b c * wGeometric g a (b ^^^ c) := by
  simp only [wGeometric_eq_prodBits]; exact prodBits_cocycle g a b c

theorem wGeometric_comm (a b : Nat) : wGeometric g a b = wGeometric g b a := by
  simp only [wGeometric_eq_prodBits, Nat.and_comm]

theorem prodFrom_two_pow : ∀ (k i : Nat), prodFrom g i (2 ^ k) = g (i + k) := by
  intro k
  induction k with
  | zero => intro i; rw [prodFrom_eq]; simp
  | succ k ih =>
    intro i
    rw [prodFrom_eq]
    have h1 : 2 ^ (k + 1) % 2 = 0 := by rw [Nat.pow_succ]; omega
    have h2 : 2 ^ (k + 1) / 2 = 2 ^ k := by rw [Nat.pow_succ]; omega
    rw [h1, h2, ih]
    simp; congr 1; omega

/-- (e) `e_i e_i = g i`: weight part -/
theorem wGeometric_basis_self (i : Nat) : wGeometric g (2 ^ i) (2 ^ i) = g i := by
  rw [wGeometric_eq_prodBits, Nat.and_self, prodBits, prodFrom_two_pow]; simp

/-- (e) `e_i e_j` for `i ≠ j` has weight 1 -/
theorem wGeometric_basis_ne {i j : Nat} (h : i ≠ j) : wGeometric g (2 ^ i) (2 ^ j) = 1 := by
  rw [wGeometric_eq_prodBits, two_pow_and_two_pow_ne h, prodBits, prodFrom_zero]

end Monoid

/-! ## the full blade cocycle -/

section Ring
variable {R : Type} [CommRing R] (g : Nat → R)

/-- the coefficient of the blade product `e_a e_b = bladeCoeff g a b • e_(a ⊕ b)` -/
def bladeCoeff (a b : Nat) : R := wGeometric g a b * ((reorderSign a b : Int) : R)

/-- (c)+(d) associativity of the geometric product on basis blades:
    `(e_a e_b) e_c = e_a (e_b e_c)` -/
theorem blade_cocycle (a b c : Nat) :
    ((reorderSign a b : Int) : R) * ((reorderSign (a ^^^ b) c : Int) : R)
        * (wGeometric g a b * wGeometric g (a ^^^ b) c)
      = ((reorderSign b c : Int) : R) * ((reorderSign a (b ^^^ c) : Int) : R)
        * (wGeometric g b c * wGeometric g a (b ^^^ c)) := by
  rw [wGeometric_cocycle, ← Int.cast_mul, ← Int.cast_mul, sign_cocycle]

end Ring

/-- `canonical_reordering_sign` as a ring element is the cast of the integer sign -/
theorem reorderSignR_eq_cast {R : Type} [CommRing R] (a b : Nat) :
    (reorderSignR a b : R) = ((reorderSign a b : Int) : R) := by
  unfold reorderSignR reorderSign
  split <;> simp

theorem reorderSignR_int (a b : Nat) : (reorderSignR a b : Int) = reorderSign a b := rfl

theorem reorderSignR_mul_self {R : Type} [CommRing R] (a b : Nat) :
    (reorderSignR a b : R) * reorderSignR a b = 1 := by
  unfold reorderSignR
  split <;> simp

/-- `blade_cocycle` in the shape `_generic_product` multiplies (`weight * sign`), over any
    commutative ring -/
theorem blade_cocycle_R {R : Type} [CommRing R] (g : Nat → R) (a b c : Nat) :
    (wGeometric g a b * reorderSignR a b) * (wGeometric g (a ^^^ b) c * reorderSignR (a ^^^ b) c)
      = (wGeometric g b c * reorderSignR b c)
        * (wGeometric g a (b ^^^ c) * reorderSignR a (b ^^^ c)) := by
  simp only [reorderSignR_eq_cast]
  rw [mul_mul_mul_comm, wGeometric_cocycle, ← Int.cast_mul, sign_cocycle, Int.cast_mul,
    mul_mul_mul_comm]

/-- integer instance of `blade_cocycle`, in the shape `_generic_product` multiplies
    (`weight * sign`) -/
theorem blade_cocycle_int (g : Nat → Int) (a b c : Nat) :
    (wGeometric g a b * reorderSign a b) * (wGeometric g (a ^^^ b) c * reorderSign (a ^^^ b) c)
      = (wGeometric g b c * reorderSign b c) * (wGeometric g a (b ^^^ c) * reorderSign a (b ^^^ c)) := by
  rw [mul_mul_mul_comm, wGeometric_cocycle, sign_cocycle, mul_mul_mul_comm]

/-! ## (f) the other five products are grade parts of the geometric product

These hold for any coefficient type with `*`, `0`, `1` — no algebraic laws are needed. -/

section GradeParts
variable {R : Type} [Mul R] [OfNat R 0] [OfNat R 1] (g : Nat → R)

omit [OfNat R 0] in
theorem sharedMetricCoeff_zero : sharedMetricCoeff g 0 = 1 := by
  simp [sharedMetricCoeff, smcLoop]

omit [OfNat R 0] in
theorem wGeometric_eq_smc (a b : Nat) : wGeometric g a b = sharedMetricCoeff g (a &&& b) := by
  unfold wGeometric
  by_cases h : a &&& b = 0
  · simp [h, sharedMetricCoeff_zero]
  · simp [h]

theorem wOuter_eq_grade_part (a b : Nat) :
    wOuter g a b =
      if bitCount (a ^^^ b) = bitCount a + bitCount b then wGeometric g a b else 0 := by
  simp only [bitCount_eq_popcount, ← disjoint_iff_grade]
  unfold wOuter
  by_cases h : a &&& b = 0
  · simp [h, wGeometric]
  · simp [h]

theorem wLeftContraction_eq_grade_part (a b : Nat) :
    wLeftContraction g a b =
      if bitCount a ≤ bitCount b ∧ bitCount (a ^^^ b) = bitCount b - bitCount a
      then wGeometric g a b else 0 := by
  simp only [bitCount_eq_popcount, ← subset_iff_grade, wGeometric_eq_smc]
  rfl

theorem wRightContraction_eq_grade_part (a b : Nat) :
    wRightContraction g a b =
      if bitCount b ≤ bitCount a ∧ bitCount (a ^^^ b) = bitCount a - bitCount b
      then wGeometric g a b else 0 := by
  simp only [bitCount_eq_popcount, ← supset_iff_grade, wGeometric_eq_smc]
  rfl

theorem wInner_eq_grade_part (a b : Nat) :
    wInner g a b =
      if bitCount (a ^^^ b) = max (bitCount a - bitCount b) (bitCount b - bitCount a)
      then wGeometric g a b else 0 := by
  simp only [bitCount_eq_popcount, ← nested_iff_grade, wGeometric_eq_smc]
  rfl

theorem wScalar_eq_grade_part (a b : Nat) :
    wScalar g a b = if bitCount (a ^^^ b) = 0 then wGeometric g a b else 0 := by
  simp only [bitCount_eq_popcount, ← eq_iff_grade, wGeometric_eq_smc]
  unfold wScalar
  by_cases h : a = b
  · subst h; simp
  · simp [h]

end GradeParts

end PV.GA
